/-
  Model of `include` expansion in ford/reader.py: the `pending` queue of `FortranReader`
  (the `;`-separated statements of the logical line just read), the method `include()` that looks
  at the head of that queue, and the two places of `__next__` that pop it:

    prologue  (top of `__next__`)     `if len(self.pending) != 0: [self.include()] ... return self.pending.pop(0)`
    epilogue  (bottom of `__next__`)  `if len(self.pending) > 0:  [self.include()] ... return self.pending.pop(0)`

  Which of the two calls `self.include()`, whether the code re-tests the queue after the call
  (`guarded`, the repaired variant, fixes/C02-include-without-statements.diff) and how an include
  statement is recognised (`kwLoose`, fixes/C02-include-keyword-separator.diff) is *regenerated from
  the source* on every run (`Generated.C02.incPrologue` ..., collected in `Include.readerCfg`,
  translate/c02.py).

  The file system is a flat finite map `name -> physical lines`; an included file is read by a
  nested reader (`readFS`, recursion on the nesting depth - Python's recursion limit plays that role).
  What is not modelled: directories (`dirname(self.name)`, `inc_dirs`: the harness keeps every name
  unique and reachable, so the search order is immaterial), `~` expansion, the preprocessor, decoding.
  Items spliced in by `include()` are looked at again by the next prologue call; in a flat file
  system that second look finds what the nested reader found (an include statement is left in the
  nested reader's output only for a missing `.h` file, which is missing for the outer reader too), so
  the model emits them as they are.
-/
import FordModel.Reader
import FordModel.TypeSpec
namespace Ford.Include
open Ford TypeSpec

/-- where `__next__` calls `self.include()`, and the variant of the pops -/
structure Cfg where
  /-- the pop at the top of `__next__` (statements queued by an earlier call) is preceded by `self.include()` -/
  incPrologue : Bool
  /-- the pop at the bottom of `__next__` (first statement of the line just read) is preceded by `self.include()` -/
  incEpilogue : Bool
  /-- repaired variant: the queue is tested again after `include()`, `include()` goes on to the next
      statement when the included file gave nothing, and a logical line that leaves nothing to return
      reads on -/
  guarded : Bool
  /-- repaired variant of the recognition of an include statement: `INCLUDE_RE = include\s*(?=['"])`
      (IGNORECASE) matched at the start of the statement and the name taken from `[7:]`, where the code
      as it stands asks for `.lower().startswith("include ")` and takes the name from `[8:]` -/
  kwLoose : Bool
  deriving DecidableEq, Repr

inductive IErr
  | reader (e : RErr)
  | notFound      -- FileNotFoundError 'Can not find include file'
  | popEmpty      -- IndexError 'pop from empty list'
  | depth         -- nesting deeper than the model was asked to follow (RecursionError)
  deriving DecidableEq, Repr

/-- what looking up and reading the named file gives -/
inductive Res
  | items (l : List Str)    -- `list(FortranReader(name, ...))`
  | missingH                -- not found, name ends in `.h`: warning, the statement is kept
  | failed (e : IErr)       -- not found (other names), or the nested reader raised

/-- first character of `s` after any white space is a quote character: `\s*(?=['"])` -/
def quoteNext (s : Str) : Bool :=
  match lstrip s with
  | c :: _ => isQuote c
  | [] => false

/-- `self.pending[0].lower().startswith("include ")`; repaired: `self.INCLUDE_RE.match(self.pending[0])` -/
def isIncludeStmt (loose : Bool) (s : Str) : Bool :=
  if loose then startsWith (lower s) (chars! "include") && quoteNext (s.drop 7)
  else startsWith (lower s) (chars! "include ")

/-- `curpending[8:].strip()[1:-1]`; repaired: `curpending[7:].strip()[1:-1]` -/
def includeName (loose : Bool) (s : Str) : Str :=
  ((strip (s.drop (if loose then 7 else 8))).drop 1).dropLast

/-- one call of `include()` seen from the head of the queue -/
inductive Look
  | keep                    -- not an include statement, or a missing `.h` file
  | splice (l : List Str)   -- the statement is replaced by the items of the file
  | fail (e : IErr)

def look (loose : Bool) (resolve : Str → Res) (p : Str) : Look :=
  if !isIncludeStmt loose p then .keep else
  match resolve (includeName loose p) with
  | .items l => .splice l
  | .missingH => .keep
  | .failed e => .fail e

/-- which `pop(0)` returns the next item: the one at the bottom of `__next__` (first statement of
    a line), the one at its top (queued statements), or - as the code stands - the `pop(0)` that
    follows an `include()` which spliced in an empty list: it returns the *next* queued statement
    unexamined, or raises when there is none -/
inductive Pop | epilogue | prologue | blind
  deriving DecidableEq, Repr

/-- The items returned for the queue `pending` until it is empty. -/
def drain (c : Cfg) (resolve : Str → Res) : Pop → List Str → Except IErr (List Str)
  | .blind, [] => .error .popEmpty
  | _, [] => .ok []
  | .blind, p :: rest => (drain c resolve .prologue rest).map (p :: ·)
  | .epilogue, p :: rest =>
    if c.incEpilogue then
      match look c.kwLoose resolve p with
      | .keep => (drain c resolve .prologue rest).map (p :: ·)
      | .fail e => .error e
      | .splice [] => if c.guarded then drain c resolve .epilogue rest else drain c resolve .blind rest
      | .splice (x :: l) => (drain c resolve .prologue rest).map (fun r => x :: l ++ r)
    else (drain c resolve .prologue rest).map (p :: ·)
  | .prologue, p :: rest =>
    if c.incPrologue then
      match look c.kwLoose resolve p with
      | .keep => (drain c resolve .prologue rest).map (p :: ·)
      | .fail e => .error e
      | .splice [] => if c.guarded then drain c resolve .prologue rest else drain c resolve .blind rest
      | .splice (x :: l) => (drain c resolve .prologue rest).map (fun r => x :: l ++ r)
    else (drain c resolve .prologue rest).map (p :: ·)

/-- `Reader.feedTail` with the queue drained through `include()`. -/
def feedTailI (c : Cfg) (resolve : Str → Res) (m : Marks) (s : RS) (line : Str) : Except IErr (RS × List Str) :=
  let s := if s.readingAlt > 0 then { s with readingAlt := s.readingAlt + 1 } else s
  let s := if s.readingPredocAlt > 0 then { s with readingPredocAlt := s.readingPredocAlt + 1 } else s
  let s := { s with linebuffer := s.linebuffer ++ line }
  let done := (!s.docbuffer.isEmpty || !s.linebuffer.isEmpty) && !s.continued
              && !s.readingPredoc && s.readingPredocAlt == 0
  if !done then .ok (s, []) else
    let frags := quoteSplit ';' s.linebuffer
    let pending := (frags.filter (fun f => !f.isEmpty)).map strip
    if pending.isEmpty && s.docbuffer.isEmpty then .error (.reader .internal) else
    match drain c resolve .epilogue pending with
    | .error e => .error e
    | .ok drained =>
      let (items, pd) := flush m drained s.docbuffer s.prevdoc
      .ok ({ docbuffer := [], prevdoc := pd, readingAlt := s.readingAlt, continued := false,
             readingPredoc := false, readingPredocAlt := 0, linebuffer := [] }, items)

/-- `Reader.feed` (one physical line) with `feedTailI` in the place of `feedTail`; the text in front
    of the four calls is that of `Reader.feed`. -/
def feedI (c : Cfg) (resolve : Str → Res) (m : Marks) (s : RS) (line0 : Str) : Except IErr (RS × List Str) :=
  let inQuote := unterminated s.linebuffer
  if firstStripped line0 == some '#' then .ok (s, []) else
  let r1 : Except IErr RS :=
    match matchDocmark m.pre line0 inQuote with
    | some i =>
      let s' := { s with readingPredoc := true, readingAlt := 0, readingPredocAlt := 0,
                         docbuffer := s.docbuffer ++ [substMark m.doc m.pre.length (line0.drop i)] }
      if !(isBlank (line0.take i)) then .error (.reader .predocInline) else .ok s'
    | none => .ok s
  match r1 with
  | .error e => .error e
  | .ok s =>
  let r2 : Except IErr RS :=
    match matchDocmark m.preAlt line0 inQuote with
    | some i =>
      let s' := { s with readingPredocAlt := 1, readingAlt := 0, readingPredoc := false,
                         docbuffer := s.docbuffer ++ [substMark m.doc m.preAlt.length (line0.drop i)] }
      if !(isBlank (line0.take i)) then .error (.reader .predocAltInline) else .ok s'
    | none => .ok s
  match r2 with
  | .error e => .error e
  | .ok s =>
  let r3 : Except IErr RS :=
    match matchDocmark m.alt line0 inQuote with
    | some i =>
      let s' := { s with readingAlt := 1, readingPredoc := false, readingPredocAlt := 0,
                         docbuffer := s.docbuffer ++ [substMark m.doc m.alt.length (line0.drop i)] }
      if !(isBlank (line0.take i)) then .error (.reader .altInline) else .ok s'
    | none => .ok s
  match r3 with
  | .error e => .error e
  | .ok s =>
  let (s, line) : RS × Str :=
    match matchDocmark m.doc line0 inQuote with
    | some i => ({ s with readingAlt := 0, readingPredocAlt := 0,
                          docbuffer := s.docbuffer ++ [line0.drop i] }, line0.take i)
    | none => (s, line0)
  let fc := firstStripped line
  let s := if fc.isNone || fc != some '!' then { s with readingAlt := 0 } else s
  let s := if fc.isSome && fc != some '!' then { s with readingPredocAlt := 0 } else s
  let (s, line) : RS × Str :=
    match matchCom line inQuote with
    | some i =>
      let s := if (s.readingPredocAlt > 1 || s.readingAlt > 1) && isBlank (line.take i)
               then { s with docbuffer := s.docbuffer ++ [('!' :: m.doc) ++ (line.drop i).drop 1] }
               else s
      (s, line.take i)
    | none => (s, line)
  let line := strip line
  match line with
  | [] =>
    let s := if s.prevdoc && s.docbuffer.isEmpty then { s with docbuffer := ['!' :: m.doc] } else s
    feedTailI c resolve m s []
  | ch :: rest =>
    let s := { s with readingPredoc := false, readingPredocAlt := 0, readingAlt := 0 }
    if ch == '&' then
      if s.continued then
        if isBlank rest then .ok (s, [])
        else
          let (s, line) := if rest.getLast? == some '&' then ({ s with continued := true }, rest.dropLast)
                           else ({ s with continued := false }, rest)
          feedTailI c resolve m s line
      else if rest.isEmpty then .ok (s, [])
      else .error (.reader .ampStart)
    else
      let s := { s with linebuffer := strip s.linebuffer ++ [' '] }
      let line := ch :: rest
      let (s, line) := if line.getLast? == some '&' then ({ s with continued := true }, line.dropLast)
                       else ({ s with continued := false }, line)
      feedTailI c resolve m s line

def readFromI (c : Cfg) (resolve : Str → Res) (m : Marks) : RS → List Str → Except IErr (List Str)
  | _, [] => .ok []
  | s, l :: ls =>
    match feedI c resolve m s l with
    | .error e => .error e
    | .ok (s', items) =>
      match readFromI c resolve m s' ls with
      | .error e => .error e
      | .ok more => .ok (items ++ more)

/-- a flat file system: name -> physical lines -/
abbrev FS := List (Str × List Str)

def lookupFS : FS → Str → Option (List Str)
  | [], _ => none
  | (n, ls) :: rest, name => if n == name then some ls else lookupFS rest name

/-- `name.endswith(".h")` -/
def endsWithH (name : Str) : Bool := startsWith name.reverse ['h', '.']

/-- `list(FortranReader(file))` for a file with physical lines `lines` whose include statements are
    looked up in `fs`; `depth` bounds the nesting of included files. -/
def readFS (c : Cfg) (m : Marks) (fs : FS) : Nat → List Str → Except IErr (List Str)
  | 0, _ => .error .depth
  | d + 1, lines =>
    readFromI c (fun name =>
      match lookupFS fs name with
      | none => if endsWithH name then .missingH else .failed .notFound
      | some ls =>
        match readFS c m fs d ls with
        | .ok l => .items l
        | .error e => .failed e) m {} lines

end Ford.Include
