/-
  C09 — a per-page computation behind a cache.

  The `relurl` filter (`ford.output.relative_url`, registered as `env.filters["relurl"]`) is applied to the
  same few texts on every page; its result depends on the text and on the DIRECTORY of the page
  (`os.path.relpath(link_path, page_url.parent)`).  Whatever sits between the templates and that
  computation — a memo table, an `lru_cache`, a module-level dict — distinguishes pages by some key.  The
  key is a regenerated fact: it is found by probing the registered filter with sequences of calls
  (same text, pages that agree in one component of their path and differ in the others).
  The model runs a sequence of filter calls through a cache with that key.  Import-free (driver).
-/
import FordModel.Path
namespace Ford.Memo
open Ford.Path

/-- what, besides the text, the filter distinguishes pages by when it reuses an earlier result -/
inductive Key where
  | none      -- nothing is reused: every call computes (or: reuse is not observable)
  | pageDir   -- the directory of the page, i.e. its whole path
  | dirName   -- the NAME of that directory only (`page_url.parent.name`)
  | fileName  -- the name of the page's file only (`page_url.name`)
  | textOnly  -- nothing: the first result for a text is used on every page
  deriving DecidableEq, Repr

/-- the key value of a page (path of its file below the root); `none`: no reuse -/
def keyOf : Key → List Seg → Option (List Seg)
  | .none, _ => Option.none
  | .pageDir, p => some (dirOf p)
  | .dirName, p => some (dirOf p).getLast?.toList
  | .fileName, p => some p.getLast?.toList
  | .textOnly, _ => some []

/-- the keys that determine the directory of the page -/
def faithful : Key → Bool
  | .none => true
  | .pageDir => true
  | _ => false

abbrev Cache (β : Type) := List ((List Seg × Str) × β)

def lookup {β : Type} (c : Cache β) (k : List Seg × Str) : Option β :=
  match c with
  | [] => Option.none
  | (k', v) :: rest => if k' = k then some v else lookup rest k

/-- a sequence of filter calls `(text, page)`; `f text dir` is the computation proper -/
def runCached {β : Type} (k : Key) (f : Str → List Seg → β) : Cache β → List (Str × List Seg) → List β
  | _, [] => []
  | c, (t, p) :: rest =>
    match keyOf k p with
    | Option.none => f t (dirOf p) :: runCached k f c rest
    | some kv =>
      match lookup c (kv, t) with
      | some v => v :: runCached k f c rest
      | Option.none => f t (dirOf p) :: runCached k f (((kv, t), f t (dirOf p)) :: c) rest

def keyName : Key → Str
  | .none => ['n', 'o', 'n', 'e']
  | .pageDir => ['p', 'a', 'g', 'e', 'D', 'i', 'r']
  | .dirName => ['d', 'i', 'r', 'N', 'a', 'm', 'e']
  | .fileName => ['f', 'i', 'l', 'e', 'N', 'a', 'm', 'e']
  | .textOnly => ['t', 'e', 'x', 't', 'O', 'n', 'l', 'y']

end Ford.Memo
