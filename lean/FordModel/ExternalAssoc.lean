/-
  C16, round 5: entities of an external project inside the importing project.

  (1) USE association through B's own modules (`FortranCodeUnit.correlate`, `FortranModule._cleanup`,
      `FortranModule.get_used_entities` of ford/sourceform.py): the tables `pub_procs / pub_absints /
      pub_types / pub_vars` a module passes on and the tables `all_procs / all_absinterfaces / all_types /
      all_vars` its own declarations are resolved against, for modules of B that use modules of A directly
      or through other modules of B ("prelude" modules).  A table is a Python dict: an association list
      in insertion order, `d[k] = v` replaces in place or appends.

  (2) what `[[name]]` finds after `load_external_modules`: the entities appended to the project's `ext*`
      lists, seen through `Project.find` (External.lean: `projectFind`).
-/
import FordModel.External
namespace Ford.Ext
open Ford

/-! ## Tables of entities (Python dicts) -/

/-- An entity as the tables of a module refer to it: one imported from an external project (`ext`, with
    the class key of ENTITIES, its name and `external_url` as loaded) or one of B's own. -/
structure Item where
  ext : Bool
  cls : Str
  name : Json
  url : Json
  deriving Repr, Inhabited

/-- a Python dict, in insertion order -/
abbrev Tbl := List (Str × Item)

/-- `d[k] = v` -/
def dset : Tbl → Str → Item → Tbl
  | [], k, v => [(k, v)]
  | (k', v') :: r, k, v => if k' == k then (k, v) :: r else (k', v') :: dset r k v

/-- `d.update(e)` -/
def dupdate (d e : Tbl) : Tbl := e.foldl (fun acc kv => dset acc kv.1 kv.2) d

/-- the four tables of a module: procedures, abstract interfaces, types, variables -/
structure Pub where
  procs : Tbl
  absints : Tbl
  types : Tbl
  vars : Tbl
  deriving Repr, Inhabited

def Pub.empty : Pub := ⟨[], [], [], []⟩

def Pub.map (f : Tbl → Tbl) (p : Pub) : Pub := ⟨f p.procs, f p.absints, f p.types, f p.vars⟩

def Pub.update (p q : Pub) : Pub :=
  ⟨dupdate p.procs q.procs, dupdate p.absints q.absints, dupdate p.types q.types, dupdate p.vars q.vars⟩

/-- one of the four tables -/
inductive Fld where
  | procs | absints | types | vars
  deriving DecidableEq, Repr

def Pub.get (p : Pub) : Fld → Tbl
  | .procs => p.procs
  | .absints => p.absints
  | .types => p.types
  | .vars => p.vars

/-! ## `FortranModule.get_used_entities` -/

/-- What follows the module name in a USE statement: nothing, `only: items`, or a rename list.
    An item is (local name, name in the module) as written; `x` alone is `(x, x)`. -/
inductive Spec where
  | all
  | only (items : List (Str × Str))
  | renaming (items : List (Str × Str))
  deriving Repr, Inhabited

/-- `used_names[orig.lower()] = local.lower()`, filled item by item: the last item naming `orig` wins -/
def usedName (items : List (Str × Str)) (name : Str) : Option Str :=
  (items.reverse.find? (fun it => lower it.2 == name)).map (fun it => lower it.1)

/-- the local function `used_objects` -/
def usedObjects (items : List (Str × Str)) (only : Bool) (coll : Tbl) : Tbl :=
  coll.foldl (fun acc kv =>
    let n := lower kv.1
    match usedName items n with
    | some l => dset acc l kv.2
    | none => if only then acc else dset acc n kv.2) []

def usedEntities : Spec → Pub → Pub
  | .all, p => p
  | .only items, p => p.map (usedObjects items true)
  | .renaming items, p => p.map (usedObjects items false)

/-! ## `FortranCodeUnit.correlate` for a module: the loop over `self.uses` -/

/-- A module of B before `correlate`: its name, `permission == "public"`, the names in its `public_list`,
    the tables `_cleanup` made from its own declarations (`ownPub`: the public ones; `ownAll`: all of them)
    and its USE statements in order. -/
structure BMod where
  name : Str
  isPublic : Bool
  publicList : List Str
  ownPub : Pub
  ownAll : Pub
  uses : List (Str × Spec)
  deriving Repr, Inhabited

/-- the local function `should_be_public` -/
def shouldBePublic (m : BMod) (name : Str) : Bool := m.isPublic || m.publicList.contains name

/-- the local function `filter_public`, with the test of its comprehension as a parameter -/
def filterWith (keep : Str → Item → Bool) (t : Tbl) : Tbl := t.filter (fun kv => keep kv.1 kv.2)

/-- `filter_public` as the code is: only the *name* decides -/
def filterPublic (m : BMod) (t : Tbl) : Tbl := filterWith (fun k _ => shouldBePublic m k) t

/-- first module with that name, case-insensitively -/
def findMod (name : Str) : List (Str × Pub) → Option Pub
  | [] => none
  | (n, p) :: r => if lower n == lower name then some p else findMod name r

/-- `find_used_modules`: B's own modules (here: those already correlated, with their final tables)
    before the external ones -/
def lookupMod (env ext : List (Str × Pub)) (name : Str) : Option Pub :=
  match findMod name env with
  | some p => some p
  | none => findMod name ext

/-- the loop `for mod, extra in self.uses` on the pair (`pub_*`, `all_*`); a USE that is bound to no
    module object is skipped -/
def applyUsesWith (keep : Str → Item → Bool) (env ext : List (Str × Pub)) :
    List (Str × Spec) → Pub × Pub → Pub × Pub
  | [], s => s
  | (t, spec) :: r, (pub, all) =>
    match lookupMod env ext t with
    | none => applyUsesWith keep env ext r (pub, all)
    | some p =>
      let u := usedEntities spec p
      applyUsesWith keep env ext r (pub.update (u.map (filterWith keep)), all.update u)

def applyUses (m : BMod) (env ext : List (Str × Pub)) : List (Str × Spec) → Pub × Pub → Pub × Pub :=
  applyUsesWith (fun k _ => shouldBePublic m k) env ext

/-- the tables of a module after `correlate`: (`pub_*`, `all_*`) -/
def correlateModWith (keep : BMod → Str → Item → Bool) (m : BMod) (env ext : List (Str × Pub)) : Pub × Pub :=
  applyUsesWith (keep m) env ext m.uses (m.ownPub, m.ownAll)

def correlateMod (m : BMod) (env ext : List (Str × Pub)) : Pub × Pub :=
  correlateModWith (fun m k _ => shouldBePublic m k) m env ext

/-- the modules of B in the order they are correlated (a module after the modules it uses);
    `env` = name and final `pub_*` of those done -/
def correlateAll (ext : List (Str × Pub)) : List BMod → List (Str × Pub) → List (Str × (Pub × Pub))
  | [], _ => []
  | m :: r, env =>
    let res := correlateMod m env ext
    (m.name, res) :: correlateAll ext r (env ++ [(m.name, res.1)])

/-! ## From the loaded objects to tables -/

def itemOfX : XObj → Option Item
  | .text _ => none
  | .node cls name url _ _ _ => some { ext := true, cls := cls, name := name, url := url }

def tblOfX : List (Str × XObj) → Tbl
  | [] => []
  | (k, o) :: r =>
    match itemOfX o with
    | some it => (k, it) :: tblOfX r
    | none => tblOfX r

def dictAttr (attrs : List (Str × XAttr)) (k : Str) : Tbl :=
  match attrs.lookup k with
  | some (.dict kvs) => tblOfX kvs
  | _ => []

def kPubProcs : Str := ['p', 'u', 'b', '_', 'p', 'r', 'o', 'c', 's']
def kPubAbsints : Str := ['p', 'u', 'b', '_', 'a', 'b', 's', 'i', 'n', 't', 's']
def kPubTypes : Str := ['p', 'u', 'b', '_', 't', 'y', 'p', 'e', 's']
def kPubVars : Str := ['p', 'u', 'b', '_', 'v', 'a', 'r', 's']
def kModule : Str := ['m', 'o', 'd', 'u', 'l', 'e']

/-- the external modules among the loaded top-level objects, with the tables `dict2obj` set on them
    (`ExternalModule.__init__` starts them empty) -/
def extModulesOf : List XObj → List (Str × Pub)
  | [] => []
  | .node cls (.str name) _ _ _ attrs :: r =>
    if cls == kModule then
      (name, ⟨dictAttr attrs kPubProcs, dictAttr attrs kPubAbsints, dictAttr attrs kPubTypes, dictAttr attrs kPubVars⟩)
        :: extModulesOf r
    else extModulesOf r
  | _ :: r => extModulesOf r

/-! ## What `[[name]]` finds after the load -/

def kExtModules : Str := ['e', 'x', 't', 'M', 'o', 'd', 'u', 'l', 'e', 's']
def kModulesColl : Str := ['m', 'o', 'd', 'u', 'l', 'e', 's']
def kSubmodulesColl : Str := ['s', 'u', 'b', 'm', 'o', 'd', 'u', 'l', 'e', 's']

/-- the objects `dict2obj` appended to the project list `c` (those with a string name), in order -/
def loadedIn (c : Str) : List Entry → List Named
  | [] => []
  | e :: r =>
    match e.name with
    | .str s => if e.list == c then { name := s, ext := true } :: loadedIn c r else loadedIn c r
    | _ => loadedIn c r

/-- B's collections after `load_external_modules`: every collection `Project.find` looks at, with the
    loaded objects appended to the list their class belongs to -/
def withLoaded (own : Colls) (es : List Entry) : Colls :=
  Gen.linkTypes.map (fun kv => (kv.2, collection own kv.2 ++ loadedIn kv.2 es))

end Ford.Ext
