/-
  C12 — the order-sensitive parts of FORD's pipeline, as the code is.

  * `strLe`, `sortOn`      Python `sorted()` on `str` keys (code-point lexicographic, stable)
  * `numberAux`/`number`   `NameSelector.get_name`: first-come numbering of equal (get_dir(), name)
  * `parseOrder`           `for filename in find_all_files(settings)`: the *enumeration order* of a
                           Python set is an adversarial input (`enum`); `Variant.repaired` sorts it
  * project lists / docs   `_fortran_file`, the gather loop of `correlate`, `entity_list_page_map`
                           (orders taken from the generated tables)
  * `Op`, `run`, `look`    the output directory as an operation list (rmtree / write)
  * `graphWrites`          `output_graphs`: serial = list order, parallel = any schedule
  Import-free apart from FordModel.* (compiled into the driver).
-/
import FordModel.Basic.Chars
import FordModel.Generated.C12
namespace Ford.Order
open Ford

/-! ### Python string order and `sorted` -/

/-- Python `a <= b` on `str`: lexicographic by code point. -/
def strLe : Str → Str → Bool
  | [], _ => true
  | _ :: _, [] => false
  | a :: as, b :: bs =>
    if a.toNat < b.toNat then true
    else if b.toNat < a.toNat then false
    else strLe as bs

/-- `sorted(l, key=key)` (stable merge sort; Python's timsort is stable too). -/
def sortOn {α : Type} (key : α → Str) (l : List α) : List α :=
  l.mergeSort (fun a b => strLe (key a) (key b))

/-! ### NameSelector -/

/-- An entity that asks for an identifier: `uid` is the Python object identity,
    `dir` is `get_dir()` (`"none"` for `None`), `name` is `item.name`. -/
structure Ent where
  uid : Nat
  dir : Str
  name : Str
deriving DecidableEq, Repr

/-- the key of the counter `_counts[get_dir()][...]`: the name as written (`lk = false`, the code
    before commit 8dec555) or the lower-cased name (`lk = true`) -/
def Ent.keyAs (lk : Bool) (e : Ent) : Str × Str := (e.dir, if lk then lower e.name else e.name)

/-- the key the working tree uses (switch generated from the AST of `get_name`) -/
def Ent.key (e : Ent) : Str × Str := e.keyAs Gen.C12.countKeyLower

/-- the `for symbol, replacement in {...}.items(): name = name.replace(...)` loop;
    all symbols are single characters and no replacement contains a symbol, so the
    sequential replacement is a per-character substitution -/
def replaceSym (tab : List (Char × Str)) (c : Char) : Str :=
  match tab.find? (fun p => p.1 == c) with
  | some p => p.2
  | none => [c]

def showNat (n : Nat) : Str := Nat.toDigits 10 n

/-- the name handed out for the `num`-th item that asked under `name` -/
def mkIdent (name : Str) (num : Nat) : Str :=
  let n0 := (lower name).flatMap (replaceSym Gen.C12.symbolReplacements)
  let n1 := if n0.isEmpty then "__unnamed__".toList else n0
  if num > 1 then n1 ++ '~' :: showNat num else n1

/-- `seen` is `_items` (most recent first); `_counts[dir][name]` is the number of
    distinct items already seen under that key. -/
def numberAux (lk : Bool) : List Ent → List Ent → List (Ent × Nat)
  | _, [] => []
  | seen, e :: rest =>
    if seen.any (fun s => s.uid == e.uid) then numberAux lk seen rest
    else (e, (seen.filter (fun s => s.keyAs lk == e.keyAs lk)).length + 1) :: numberAux lk (e :: seen) rest

/-- numbers assigned by a fresh NameSelector to a sequence of `get_name` requests,
    in order of first request -/
def numberNWith (lk : Bool) (reqs : List Ent) : List (Ent × Nat) := numberAux lk [] reqs

/-- identifiers assigned (`item.ident`) -/
def numberWith (lk : Bool) (reqs : List Ent) : List (Ent × Str) :=
  (numberNWith lk reqs).map (fun p => (p.1, mkIdent p.1.name p.2))

/-- ... by the NameSelector of the working tree -/
def numberN (reqs : List Ent) : List (Ent × Nat) := numberNWith Gen.C12.countKeyLower reqs
def number (reqs : List Ent) : List (Ent × Str) := numberWith Gen.C12.countKeyLower reqs

def numOf (asg : List (Ent × Nat)) (uid : Nat) : Option Nat :=
  (asg.find? (fun p => p.1.uid == uid)).map (·.2)

/-! ### Files, enumeration order, project lists -/

inductive Variant | asIs | repaired
deriving DecidableEq, Repr

/-- a page-producing entity of a source file: `list` is the attribute of the
    `FortranSourceFile` / code unit it lives in (`modules`, `functions`, `types` ...) -/
structure Item where
  list : Str
  ent : Ent
deriving DecidableEq, Repr

/-- a program unit of a file (module / submodule / program / blockdata) with its contained entities -/
structure CodeUnit where
  list : Str            -- which attribute of the file holds it
  ent : Ent
  inner : List Item     -- contained entities, `list` = functions / subroutines / types ...
deriving DecidableEq, Repr

structure SrcFile where
  path : Str                 -- path as enumerated
  base : Str                 -- basename (copied to src/<base>)
  content : Str
  ent : Ent                  -- the sourcefile entity itself
  units : List CodeUnit      -- modules, submodules, programs, blockdata (source order)
  top : List Item            -- file-level functions / subroutines (source order)
deriving DecidableEq, Repr

/-- The order in which `Project.__init__` parses the files.  `enum` is the order
    in which the set returned by `find_all_files` happens to be iterated. -/
def parseOrder (v : Variant) (enum : List SrcFile) : List SrcFile :=
  match v with
  | .asIs => enum
  | .repaired => sortOn (·.path) enum

def variantOfTree : Variant := if Gen.C12.fileIterSorted then .repaired else .asIs

/-- `Project._fortran_file`: what one file appends to the project lists at parse time -/
def parseAppend (f : SrcFile) (projList : Str) : List Ent :=
  Gen.C12.fortranFileOrder.flatMap fun attr =>
    if attr == "modules".toList ∨ attr == "submodules".toList ∨ attr == "programs".toList ∨ attr == "blockdata".toList then
      if attr == projList then (f.units.filter (·.list == attr)).map (·.ent) else []
    else
      -- file-level functions and subroutines go to `procedures`
      if projList == "procedures".toList then (f.top.filter (·.list == attr)).map (·.ent) else []

/-- the gather loop of `Project.correlate` for one file -/
def gatherAppend (f : SrcFile) (projList : Str) : List Ent :=
  Gen.C12.unitChainOrder.flatMap fun uattr =>
    (f.units.filter (·.list == uattr)).flatMap fun u =>
      Gen.C12.containersOrder.flatMap fun kc =>
        if kc.2 == projList then (u.inner.filter (·.list == kc.1)).map (·.ent) else []

/-- a project list (`project.modules`, `project.procedures`, ...) after `correlate` -/
def projectList (files : List SrcFile) (projList : Str) : List Ent :=
  if projList == "allfiles".toList then files.map (·.ent)
  else files.flatMap (parseAppend · projList) ++ files.flatMap (gatherAppend · projList)

/-- `Documentation.docs`: the entity pages in creation order (= order of the search index) -/
def docsOrder (files : List SrcFile) : List Ent :=
  Gen.C12.pageListOrder.flatMap fun p => projectList files p.1

/-! ### `uses` -/

/-- the "Uses" list of a page: `ω` is the iteration order of the `uses` set -/
def usesShown (sorted : Bool) (ω : List Str) : List Str :=
  if sorted then sortOn id ω else ω

/-! ### graph node emission -/

structure Node where
  ident : Str
  label : Str
deriving DecidableEq, Repr

/-- `for n in sorted(nodes): self.dot.node(n.ident, ...)` -/
def emitNodes (nodes : List Node) : List Node := sortOn (·.ident) nodes

/-! ### the output directory as an operation list -/

abbrev Path := List Str
abbrev FS := List (Path × Str)

inductive Op
  | rmtree (d : Path)            -- `shutil.rmtree(d, ignore_errors=True)` / unlink when `d` is a file
  | write (p : Path) (c : Str)   -- create / overwrite a file
deriving DecidableEq, Repr

/-- `d` is `p` or an ancestor of `p` -/
def isUnder : Path → Path → Bool
  | [], _ => true
  | _ :: _, [] => false
  | a :: as, b :: bs => a == b && isUnder as bs

def apply : Op → FS → FS
  | .rmtree d, fs => fs.filter (fun e => !isUnder d e.1)
  | .write p c, fs => (p, c) :: fs.filter (fun e => !(e.1 == p))

def run (ops : List Op) (fs : FS) : FS := ops.foldl (fun fs op => apply op fs) fs

def look (fs : FS) (p : Path) : Option Str := (fs.find? (fun e => e.1 == p)).map (·.2)

/-- `Documentation.writeout`, abstracted to its statement list (generated table):
    a `removeOut` step removes the output directory, the k-th `write` step performs
    the k-th group of file writes (all below `out`), other steps create directories. -/
def kwRemove : Str := "removeOut".toList
def kwWrite : Str := "write".toList

def stepsOps (out : Path) : List Str → List (List (Path × Str)) → List Op
  | [], _ => []
  | s :: ss, ws =>
    if s == kwRemove then Op.rmtree out :: stepsOps out ss ws
    else if s == kwWrite then
      match ws with
      | [] => stepsOps out ss []
      | w :: ws' => w.map (fun x => Op.write (out ++ x.1) x.2) ++ stepsOps out ss ws'
    else stepsOps out ss ws

/-- the output directory is removed before the first write step -/
def removeFirst : List Str → Bool
  | [] => false
  | s :: ss =>
    if s == kwRemove then true
    else if s == kwWrite then false
    else removeFirst ss

def writeoutOps (out : Path) (writes : List (List (Path × Str))) : List Op :=
  stepsOps out Gen.C12.writeoutSteps writes

/-- `output_graphs`: `njobs = 0` writes in list order; otherwise `process_map`
    lets the workers finish in any order `sched` (a permutation of the tasks). -/
def graphWrites (njobs : Nat) (sched : List (Path × Str) → List (Path × Str)) (tasks : List (Path × Str)) :
    List Op :=
  ((if njobs == 0 then tasks else sched tasks)).map (fun w => Op.write w.1 w.2)

/-- copies of the source files: `src/<basename>` written in project-file order -/
def srcCopyOps (files : List SrcFile) : List Op :=
  files.map (fun f => Op.write ["src".toList, f.base] f.content)

/-! ### the site, as far as it depends on orders -/

structure Site where
  idents : List (Nat × Str)      -- uid ↦ ident, in order of first request
  search : List Nat              -- uids of the entity pages in search-index order
  srcTree : FS                   -- the src/ copies
deriving DecidableEq, Repr

/-- requests in file-major order (an abstraction of the real request sequence;
    the real one is replayed through `number` by the harness) -/
def requests (files : List SrcFile) : List Ent :=
  files.flatMap fun f =>
    f.ent :: (f.units.flatMap fun u => u.ent :: u.inner.map (·.ent)) ++ f.top.map (·.ent)

def siteOf (files : List SrcFile) : Site :=
  { idents := (number (requests files)).map (fun p => (p.1.uid, p.2))
    search := (docsOrder files).map (·.uid)
    srcTree := run (srcCopyOps files) [] }

def site (v : Variant) (enum : List SrcFile) : Site := siteOf (parseOrder v enum)

end Ford.Order
