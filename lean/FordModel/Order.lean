/-
  C12 — the order-sensitive parts of FORD's pipeline, as the code is.

  * `strLe`, `sortOn`      Python `sorted()` on `str` keys (code-point lexicographic, stable)
  * `numberAux`/`number`   `NameSelector.get_name`: first-come numbering of equal (get_dir(), name)
  * `parseOrder`           `for filename in find_all_files(settings)`: the *enumeration order* of a
                           Python set is an adversarial input (`enum`); `Variant.repaired` sorts it
  * project lists / docs   `_fortran_file`, the gather loop of `correlate`, `entity_list_page_map`
                           (orders taken from the generated tables)
  * `Op`, `run`, `look`    the output directory as an operation list (rmtree / write)
  * `graphWrites`          `output_graphs`: serial = list order, parallel = any schedule
  Import-free apart from FordModel.* (compiled into the driver).
-/
import FordModel.Basic.Chars
import FordModel.Generated.C12
namespace Ford.Order
open Ford

/-! ### Python string order and `sorted` -/

/-- Python `a <= b` on `str`: lexicographic by code point. -/
def strLe : Str → Str → Bool
  | [], _ => true
  | _ :: _, [] => false
  | a :: as, b :: bs =>
    if a.toNat < b.toNat then true
    else if b.toNat < a.toNat then false
    else strLe as bs

/-- `sorted(l, key=key)` (stable merge sort; Python's timsort is stable too). -/
def sortOn {α : Type} (key : α → Str) (l : List α) : List α :=
  l.mergeSort (fun a b => strLe (key a) (key b))

/-! ### NameSelector -/

/-- An entity that asks for an identifier: `uid` is the Python object identity,
    `dir` is `get_dir()` (`"none"` for `None`), `name` is `item.name`. -/
structure Ent where
  uid : Nat
  dir : Str
  name : Str
deriving DecidableEq, Repr

/-- the key of the counter `_counts[get_dir()][...]`: the name as written (`lk = false`, the code
    before commit 8dec555) or the lower-cased name (`lk = true`) -/
def Ent.keyAs (lk : Bool) (e : Ent) : Str × Str := (e.dir, if lk then lower e.name else e.name)

/-- the key the working tree uses (switch generated from the AST of `get_name`) -/
def Ent.key (e : Ent) : Str × Str := e.keyAs Gen.C12.countKeyLower

/-- the `for symbol, replacement in {...}.items(): name = name.replace(...)` loop;
    all symbols are single characters and no replacement contains a symbol, so the
    sequential replacement is a per-character substitution -/
def replaceSym (tab : List (Char × Str)) (c : Char) : Str :=
  match tab.find? (fun p => p.1 == c) with
  | some p => p.2
  | none => [c]

def showNat (n : Nat) : Str := Nat.toDigits 10 n

/-- the name handed out for the `num`-th item that asked under `name` -/
def mkIdent (name : Str) (num : Nat) : Str :=
  let n0 := (lower name).flatMap (replaceSym Gen.C12.symbolReplacements)
  let n1 := if n0.isEmpty then "__unnamed__".toList else n0
  if num > 1 then n1 ++ '~' :: showNat num else n1

/-- `seen` is `_items` (most recent first); `_counts[dir][name]` is the number of
    distinct items already seen under that key. -/
def numberAux (lk : Bool) : List Ent → List Ent → List (Ent × Nat)
  | _, [] => []
  | seen, e :: rest =>
    if seen.any (fun s => s.uid == e.uid) then numberAux lk seen rest
    else (e, (seen.filter (fun s => s.keyAs lk == e.keyAs lk)).length + 1) :: numberAux lk (e :: seen) rest

/-- numbers assigned by a fresh NameSelector to a sequence of `get_name` requests,
    in order of first request -/
def numberNWith (lk : Bool) (reqs : List Ent) : List (Ent × Nat) := numberAux lk [] reqs

/-- identifiers assigned (`item.ident`) -/
def numberWith (lk : Bool) (reqs : List Ent) : List (Ent × Str) :=
  (numberNWith lk reqs).map (fun p => (p.1, mkIdent p.1.name p.2))

/-- ... by the NameSelector of the working tree -/
def numberN (reqs : List Ent) : List (Ent × Nat) := numberNWith Gen.C12.countKeyLower reqs
def number (reqs : List Ent) : List (Ent × Str) := numberWith Gen.C12.countKeyLower reqs

def numOf (asg : List (Ent × Nat)) (uid : Nat) : Option Nat :=
  (asg.find? (fun p => p.1.uid == uid)).map (·.2)

/-! ### Files, enumeration order, project lists -/

inductive Variant | asIs | repaired
deriving DecidableEq, Repr

/-- a page-producing entity of a source file: `list` is the attribute of the
    `FortranSourceFile` / code unit it lives in (`modules`, `functions`, `types` ...) -/
structure Item where
  list : Str
  ent : Ent
deriving DecidableEq, Repr

/-- a program unit of a file (module / submodule / program / blockdata) with its contained entities -/
structure CodeUnit where
  list : Str            -- which attribute of the file holds it
  ent : Ent
  inner : List Item     -- contained entities, `list` = functions / subroutines / types ...
deriving DecidableEq, Repr

structure SrcFile where
  path : Str                 -- path as enumerated
  base : Str                 -- basename (copied to src/<base>)
  content : Str
  ent : Ent                  -- the sourcefile entity itself
  units : List CodeUnit      -- modules, submodules, programs, blockdata (source order)
  top : List Item            -- file-level functions / subroutines (source order)
deriving DecidableEq, Repr

/-- The order in which `Project.__init__` parses the files.  `enum` is the order
    in which the set returned by `find_all_files` happens to be iterated. -/
def parseOrder (v : Variant) (enum : List SrcFile) : List SrcFile :=
  match v with
  | .asIs => enum
  | .repaired => sortOn (·.path) enum

def variantOfTree : Variant := if Gen.C12.fileIterSorted then .repaired else .asIs

/-- `Project._fortran_file`: what one file appends to the project lists at parse time -/
def parseAppend (f : SrcFile) (projList : Str) : List Ent :=
  Gen.C12.fortranFileOrder.flatMap fun attr =>
    if attr == "modules".toList ∨ attr == "submodules".toList ∨ attr == "programs".toList ∨ attr == "blockdata".toList then
      if attr == projList then (f.units.filter (·.list == attr)).map (·.ent) else []
    else
      -- file-level functions and subroutines go to `procedures`
      if projList == "procedures".toList then (f.top.filter (·.list == attr)).map (·.ent) else []

/-- the gather loop of `Project.correlate` for one file -/
def gatherAppend (f : SrcFile) (projList : Str) : List Ent :=
  Gen.C12.unitChainOrder.flatMap fun uattr =>
    (f.units.filter (·.list == uattr)).flatMap fun u =>
      Gen.C12.containersOrder.flatMap fun kc =>
        if kc.2 == projList then (u.inner.filter (·.list == kc.1)).map (·.ent) else []

/-- a project list (`project.modules`, `project.procedures`, ...) after `correlate` -/
def projectList (files : List SrcFile) (projList : Str) : List Ent :=
  if projList == "allfiles".toList then files.map (·.ent)
  else files.flatMap (parseAppend · projList) ++ files.flatMap (gatherAppend · projList)

/-- `Documentation.docs`: the entity pages in creation order (= order of the search index) -/
def docsOrder (files : List SrcFile) : List Ent :=
  Gen.C12.pageListOrder.flatMap fun p => projectList files p.1

/-! ### `uses` -/

/-- the "Uses" list of a page: `ω` is the iteration order of the `uses` set -/
def usesShown (sorted : Bool) (ω : List Str) : List Str :=
  if sorted then sortOn id ω else ω

/-! ### graph node emission -/

structure Node where
  ident : Str
  label : Str
deriving DecidableEq, Repr

/-- `for n in sorted(nodes): self.dot.node(n.ident, ...)` -/
def emitNodes (nodes : List Node) : List Node := sortOn (·.ident) nodes

/-! ### the output directory as an operation list -/

abbrev Path := List Str
abbrev FS := List (Path × Str)

inductive Op
  | rmtree (d : Path)            -- `shutil.rmtree(d, ignore_errors=True)` / unlink when `d` is a file
  | write (p : Path) (c : Str)   -- create / overwrite a file
deriving DecidableEq, Repr

/-- `d` is `p` or an ancestor of `p` -/
def isUnder : Path → Path → Bool
  | [], _ => true
  | _ :: _, [] => false
  | a :: as, b :: bs => a == b && isUnder as bs

def apply : Op → FS → FS
  | .rmtree d, fs => fs.filter (fun e => !isUnder d e.1)
  | .write p c, fs => (p, c) :: fs.filter (fun e => !(e.1 == p))

def run (ops : List Op) (fs : FS) : FS := ops.foldl (fun fs op => apply op fs) fs

def look (fs : FS) (p : Path) : Option Str := (fs.find? (fun e => e.1 == p)).map (·.2)

/-- `Documentation.writeout`, abstracted to the list of things a run does at the output directory
    (generated table, observed on a real run): a `removeOut` step removes the output directory, the k-th
    `write` step performs the k-th group of file writes (all below `out`), other steps create directories. -/
def kwRemove : Str := "removeOut".toList
def kwWrite : Str := "write".toList

def stepsOps (out : Path) : List Str → List (List (Path × Str)) → List Op
  | [], _ => []
  | s :: ss, ws =>
    if s == kwRemove then Op.rmtree out :: stepsOps out ss ws
    else if s == kwWrite then
      match ws with
      | [] => stepsOps out ss []
      | w :: ws' => w.map (fun x => Op.write (out ++ x.1) x.2) ++ stepsOps out ss ws'
    else stepsOps out ss ws

/-- the output directory is removed before the first write step -/
def removeFirst : List Str → Bool
  | [] => false
  | s :: ss =>
    if s == kwRemove then true
    else if s == kwWrite then false
    else removeFirst ss

def writeoutOps (out : Path) (writes : List (List (Path × Str))) : List Op :=
  stepsOps out Gen.C12.writeoutSteps writes

/-- `output_graphs`: `njobs = 0` writes in list order; otherwise `process_map`
    lets the workers finish in any order `sched` (a permutation of the tasks). -/
def graphWrites (njobs : Nat) (sched : List (Path × Str) → List (Path × Str)) (tasks : List (Path × Str)) :
    List Op :=
  ((if njobs == 0 then tasks else sched tasks)).map (fun w => Op.write w.1 w.2)

/-- copies of the source files: `src/<basename>` written in project-file order -/
def srcCopyOps (files : List SrcFile) : List Op :=
  files.map (fun f => Op.write ["src".toList, f.base] f.content)

/-! ### the site, as far as it depends on orders -/

structure Site where
  idents : List (Nat × Str)      -- uid ↦ ident, in order of first request
  search : List Nat              -- uids of the entity pages in search-index order
  srcTree : FS                   -- the src/ copies
deriving DecidableEq, Repr

/-- requests in file-major order (an abstraction of the real request sequence;
    the real one is replayed through `number` by the harness) -/
def requests (files : List SrcFile) : List Ent :=
  files.flatMap fun f =>
    f.ent :: (f.units.flatMap fun u => u.ent :: u.inner.map (·.ent)) ++ f.top.map (·.ent)

def siteOf (files : List SrcFile) : Site :=
  { idents := (number (requests files)).map (fun p => (p.1.uid, p.2))
    search := (docsOrder files).map (·.uid)
    srcTree := run (srcCopyOps files) [] }

def site (v : Variant) (enum : List SrcFile) : Site := siteOf (parseOrder v enum)

/-! ### include files (`FortranReader.include`) -/

/-- char-list literal (string literals are byte arrays in this Lean version; `"..".toList` is slow to
    unfold inside `simp`/`decide` on long tables) -/
macro "cs! " s:str : term => do
  let elems := s.getString.toList.toArray.map fun c => Lean.Syntax.mkCharLit c
  `([$elems,*])

/-- `for b in [os.path.dirname(self.name)] + self.inc_dirs: if os.path.isfile(join(b, name)): break`:
    the directory of the including file is probed first, then the include directories in the order the
    reader keeps them; the first directory that holds the file wins.  `has d` = "`d` holds the file". -/
def resolveInclude (has : Str → Bool) (own : Str) (dirs : List Str) : Option Str :=
  (own :: dirs).find? has

/-- `self.inc_dirs` of the reader: the configured list as given (`ordered`), or the list pushed through a
    hash-ordered collection whose iteration order `ω` is an adversarial input. -/
def incDirsKept (ordered : Bool) (ω : List Str → List Str) (cfg : List Str) : List Str :=
  if ordered then cfg else ω cfg

/-- the include file the working tree documents (switch generated from the AST of `FortranReader`) -/
def resolveIncludeTree (ω : List Str → List Str) (has : Str → Bool) (own : Str) (cfg : List Str) : Option Str :=
  resolveInclude has own (incDirsKept Gen.C12.incDirsOrdered ω cfg)

/-! ### inherited components and type-bound procedures (`FortranType.correlate`) -/

/-- a component or a type-bound procedure of a derived type: its name and whether it is `private` -/
structure Binding where
  name : Str
  priv : Bool
deriving DecidableEq, Repr

/-- `not all(bp.name.lower() != b.name.lower() for b in self.boundprocs)` -/
def overrides (own : List Binding) (bp : Binding) : Bool :=
  own.any (fun b => lower b.name == lower bp.name)

/-- the bindings of the parent type that the child shows as its own: not private, not overridden,
    *in the parent's order* -/
def inheritedBindings (parent own : List Binding) : List Binding :=
  parent.filter (fun bp => !bp.priv && !overrides own bp)

/-- `self.boundprocs = inherited + self.boundprocs`.  `ordered`: the loop that collects `inherited`
    walks the parent's list; otherwise it walks a hash-ordered collection (iteration order `ω`). -/
def typeBindings (ordered : Bool) (ω : List Binding → List Binding) (parent own : List Binding) : List Binding :=
  (if ordered then inheritedBindings parent own else ω (inheritedBindings parent own)) ++ own

/-- `self.variables = [v for v in extends.variables if v.permission == "public"] + self.variables` -/
def typeComps (ordered : Bool) (ω : List Binding → List Binding) (parent own : List Binding) : List Binding :=
  (if ordered then parent.filter (fun c => !c.priv) else ω (parent.filter (fun c => !c.priv))) ++ own

/-- a whole inheritance chain, root type first (a parent is correlated before its children, so the
    child sees the parent's list with what the parent inherited itself) -/
def chainBindings (ordered : Bool) (ω : List Binding → List Binding) (levels : List (List Binding)) : List Binding :=
  levels.foldl (fun acc own => typeBindings ordered ω acc own) []

def chainComps (ordered : Bool) (ω : List Binding → List Binding) (levels : List (List Binding)) : List Binding :=
  levels.foldl (fun acc own => typeComps ordered ω acc own) []

/-! ### which files are read, and as what (`find_all_files`, `Project.__init__`) -/

/-- `name.endswith("." + ext)`: what the glob `**/*.<ext>` of `find_all_files` asks of a file name -/
def endsWithExt (name ext : Str) : Bool := ('.' :: ext).isSuffixOf name

/-- the file name of `p` ends with one of the configured extensions -/
def hasSourceName (exts : List Str) (p : Path) : Bool :=
  match p.getLast? with
  | some n => exts.any (endsWithExt n)
  | none => false

/-- `fnmatch(str(p), f"{d}/*")`: `p` lies strictly below the directory `d` -/
def isBelow (d p : Path) : Bool := isUnder d p && d.length < p.length

/-- `find_all_files`: the files of the file system that lie below a source directory, carry a configured
    extension and do not lie below an excluded directory (in file-system order; the real function returns a set) -/
def findSources (srcDirs excl : List Path) (exts : List Str) (fs : FS) : List Path :=
  (fs.map (·.1)).filter fun p => srcDirs.any (isBelow · p) && !excl.any (isBelow · p) && hasSourceName exts p

/-- Is the output directory among the excluded directories when the settings are complete?  Looked up in the
    generated table (probed through the real `load_settings` / `parse_arguments` / `find_all_files` for every
    way the output directory can be configured); an unknown configuration counts as "no". -/
def outDirExcluded (cfg : Str) : Bool :=
  match Gen.C12.outputDirExcludedIn.find? (fun c => c.1 == cfg) with
  | some c => c.2
  | none => false

/-- `settings.exclude_dir` as `find_all_files` sees it: the user's list, plus the output directory -/
def excludeDirsTree (cfg : Str) (userExcl : List Path) (out : Path) : List Path :=
  if outDirExcluded cfg then userExcl ++ [out] else userExcl

def findSourcesTree (cfg : Str) (srcDirs userExcl : List Path) (out : Path) (exts : List Str) (fs : FS) : List Path :=
  findSources srcDirs (excludeDirsTree cfg userExcl out) exts fs

/-- configurations in which the output directory is *not* excluded: open finding
    `C12-cli-output-dir-not-excluded` of `known_findings/C12.json` (`--output_dir` on the command line replaces the directory after
    `ProjectSettings.__post_init__` has put the old one on the exclude list) -/
def defectiveOutDirConfigs : List Str := [
  cs! "output_dir from the command line; relative URLs",
  cs! "output_dir from the command line; project_url set"
]

/-- `pathlib.PurePath(name).suffix[1:]`: what follows the last dot, unless that dot is the first or the last
    character of the name -/
def lastSuffix (name : Str) : Str :=
  let r := name.reverse
  let suf := r.takeWhile (· != '.')
  if suf.length == r.length then []            -- no dot at all
  else if suf.isEmpty then []                  -- `a.`
  else if suf.length + 1 == r.length then []   -- `.f90`
  else suf.reverse

/-- the extension lists of the settings; `exts` (`settings.extensions`) is `list(set(..) | set(..))`: its order
    is a hash order -/
structure ExtCfg where
  exts : List Str
  fixed : List Str
  fpp : List Str
  extra : List Str
deriving DecidableEq, Repr

inductive FileKind
  | fortran (preprocessed fixedForm : Bool)
  | extra
  | skipped
deriving DecidableEq, Repr

/-- the extension `Project.__init__` works with: the last suffix of the name (`bySuffix`), or - the other
    mechanism the translator recognises - the first configured extension the name ends with -/
def extensionOf (bySuffix : Bool) (c : ExtCfg) (name : Str) : Str :=
  if bySuffix then lastSuffix name
  else match (c.exts ++ c.fixed ++ c.extra).find? (endsWithExt name) with
    | some e => e
    | none => lastSuffix name

/-- `if extension in self.extensions + self.fixed_extensions: _fortran_file(..) elif extension in
    self.extra_filetypes: GenericSource(..)`; `_fortran_file` preprocesses iff `extension in fpp_extensions` and
    reads fixed form iff `extension in fixed_extensions` -/
def fileKind (bySuffix : Bool) (c : ExtCfg) (name : Str) : FileKind :=
  let e := extensionOf bySuffix c name
  if (c.exts ++ c.fixed).contains e then .fortran (c.fpp.contains e) (c.fixed.contains e)
  else if c.extra.contains e then .extra
  else .skipped

/-- as the tree is (switch probed on the real `Project.__init__`); `ω` is the order the set union behind
    `settings.extensions` happens to be listed in -/
def fileKindTree (ω : List Str → List Str) (c : ExtCfg) (name : Str) : FileKind :=
  fileKind Gen.C12.extensionBySuffix { c with exts := ω c.exts } name

/-! ### hash-ordered collections turned into sequences

  `Gen.C12.hashIterSites` lists every place in `ford/*.py` where an expression that is syntactically a
  hash-ordered collection (a `set(...)`, a set literal / comprehension, a set operator on such or on a
  dict view, a local name or an attribute of the same file bound to one of these) is iterated, converted
  to a list / tuple, joined, mapped or unpacked — with a flag "goes through `sorted(...)`".  The unsorted
  ones have been looked at one by one: -/

/-- unsorted sites whose iteration order cannot reach the output -/
def reviewedHashIterSites : List Str := [
  -- the loop only inserts into other sets / dicts keyed by the element (`self.uses.add(n)`, `n.used_by.add(self)`);
  -- the node objects it creates ask for identifiers: that order is covered by the replay of the real
  -- request trace through `number` and by the numbering theorems
  cs! "graphs.py:ModNode.__init__: for obj.uses",
  cs! "graphs.py:ProcNode.__init__: for getattr(obj, 'uses', [])",
  cs! "graphs.py:ProgNode.__init__: for obj.uses",
  cs! "graphs.py:BlockNode.__init__: for obj.uses",
  -- `calls` is the list attribute of a Fortran entity here (same attribute name as the set of a graph node);
  -- the function returns a set
  cs! "graphs.py:get_call_nodes: for calls",
  -- one graph object is built per element and stored on the element; nothing is emitted in loop order
  cs! "graphs.py:GraphManager.graph_all: for self.blockdata",
  -- one task per element, every task writes its own files: `parallel_irrelevant`
  cs! "graphs.py:GraphManager.output_graphs: for self.modules",
  cs! "graphs.py:GraphManager.output_graphs: for self.types",
  cs! "graphs.py:GraphManager.output_graphs: for self.procedures",
  cs! "graphs.py:GraphManager.output_graphs: for self.programs",
  cs! "graphs.py:GraphManager.output_graphs: for self.sourcefiles",
  cs! "graphs.py:GraphManager.output_graphs: for self.blockdata",
  cs! "graphs.py:GraphManager.output_graphs: comprehension self.modules",
  cs! "graphs.py:GraphManager.output_graphs: comprehension self.types",
  cs! "graphs.py:GraphManager.output_graphs: comprehension self.procedures",
  cs! "graphs.py:GraphManager.output_graphs: comprehension self.programs",
  cs! "graphs.py:GraphManager.output_graphs: comprehension self.sourcefiles",
  cs! "graphs.py:GraphManager.output_graphs: comprehension self.blockdata",
  -- the extension list is only used for membership tests and to build glob patterns whose hits go into a set
  cs! "settings.py:ProjectSettings.__post_init__: list() set(self.extensions) | set(self.fpp_extensions)",
  -- `self.uses` is still the *list* of (module, only-list) pairs when these loops run; it is replaced by a
  -- set afterwards (that set is iterated by the `use_list` template macro: `usesIterSorted`)
  cs! "sourceform.py:FortranCodeUnit.correlate: for self.uses",
  cs! "sourceform.py:FortranBlockData.correlate: for self.uses",
  cs! "sourceform.py:FortranBlockData.correlate: comprehension self.uses",
  -- (added by fix bbe7689) the loop only deletes the entries of `attr_dict` under the collected names
  -- (`del self.attr_dict[name]` under `suppress(KeyError)`): deletions of distinct keys commute
  cs! "sourceform.py:FortranCodeUnit.process_attribs: for attributed_names"
]

/-- unsorted sites whose order does reach the output: each is an open finding of `known_findings/C12.json` -/
def defectiveHashIterSites : List Str := [
  -- C12-inheritedby-children-set-order: edges of the "inherited by" graph follow the iteration order of a set
  cs! "graphs.py:InheritedByGraph.add_node: for node.children"
]


/-! ### the order `sorted()` puts graph nodes and entities in (`BaseNode.__lt__`, `FortranBase.__lt__`)

  A node set keeps one node per `ident` (`__eq__` / `__hash__`).  `sorted(set)` is stable, so it hands the
  iteration order of the set on wherever the compared key does not distinguish two members. -/

/-- the key `__lt__` compares: the identifier, or (any other key is represented by) the lower-cased label -/
def nodeKeyOf (byIdent : Bool) (n : Node) : Str := if byIdent then n.ident else lower n.label

/-- `sorted(nodes)` -/
def emitNodesBy (byIdent : Bool) (nodes : List Node) : List Node := sortOn (nodeKeyOf byIdent) nodes

/-- ... with the `__lt__` of the working tree (switches generated from the AST of the two classes) -/
def emitNodesTree (nodes : List Node) : List Node := emitNodesBy Gen.C12.nodeLtByIdent nodes
def sortEntitiesTree (ents : List Node) : List Node := emitNodesBy Gen.C12.entityLtByIdent ents

/-- sort sites with a `key=` (or a template sort filter) that were looked at one by one: (site, key).  Their
    input is a list whose order is itself determined (never a set, never a directory listing), so the ties the
    key leaves are broken by that order. -/
def reviewedKeyedSorts : List (Str × Str) := [
  -- table view of an over-long graph: `hop_edges` was filled by the loops over `sorted(nodes)`
  (cs! "graphs.py:FortranGraph._make_graph_as_table: self.hop_edges.sort()", cs! "lambda x: x[key].attribs['label'].lower()"),
  -- `sort:` option: the lists of an entity are in source order when they are sorted
  (cs! "sourceform.py:FortranBase.sort_components: entity.sort()", cs! "sort_key"),
  -- the list pages: the project lists are in parse order (`projectList`), Jinja's sort is stable
  (cs! "templates/absint_list.html: project.absinterfaces|sort", cs! "attribute='name'"),
  (cs! "templates/block_list.html: project.blockdata|sort", cs! "attribute='name'"),
  (cs! "templates/file_list.html: project.allfiles|sort", cs! "attribute='name'"),
  (cs! "templates/index.html: project.allfiles|sort", cs! "attribute='name'"),
  (cs! "templates/index.html: project.modules|sort", cs! "attribute='name'"),
  (cs! "templates/index.html: project.procedures|sort", cs! "attribute='name'"),
  (cs! "templates/index.html: project.types|sort", cs! "attribute='name'"),
  (cs! "templates/mod_list.html: project.modules|sort", cs! "attribute='name'"),
  (cs! "templates/namelist_list.html: project.namelists|sort", cs! "attribute='name'"),
  (cs! "templates/proc_list.html: project.procedures|sort", cs! "attribute='name'"),
  (cs! "templates/prog_list.html: project.programs|sort", cs! "attribute='name'"),
  (cs! "templates/types_list.html: project.types|sort", cs! "attribute='name'")
]

/-! ### the entries of a page directory (`get_page_tree`)

  `enum` is what `os.listdir` returns: the names in the directory (pairwise different) in the order the file
  system happens to enumerate them - an adversarial input. -/

/-- `os.path.splitext(name)[0]`: cut at the last dot unless only dots precede it -/
def lastDotSplit (name : Str) : Str :=
  -- index of the last '.', usable only if some non-dot character precedes it
  let rev := name.reverse
  let ext := rev.takeWhile (· != '.')
  if ext.length == rev.length then name
  else
    let stem := (rev.drop (ext.length + 1)).reverse
    if stem.any (· != '.') then stem else name

/-- the key of a keyed variant: lower-cased name without its extension -/
def stemLower (name : Str) : Str := lower (lastDotSplit name)

def pageKey (natural : Bool) (name : Str) : Str := if natural then name else stemLower name

/-- `list(OrderedDict.fromkeys(l))`: first occurrences, in order -/
def dedupAux : List Str → List Str → List Str
  | _, [] => []
  | seen, x :: xs => if seen.contains x then dedupAux seen xs else x :: dedupAux (x :: seen) xs

def indexMd : Str := cs! "index.md"

/-- `name[0] == "."` / `name[-1] == "~"` entries are skipped -/
def pageVisible (name : Str) : Bool := !(name.head? == some '.') && !(name.getLast? == some '~')

/-- the names `get_page_tree` walks for one directory, in order: the sorted listing without `index.md`, the
    user's `ordered_subpage` list merged in front of it -/
def pageFileList (natural : Bool) (ordered enum : List Str) : List Str :=
  let fl := (sortOn (pageKey natural) enum).erase indexMd
  let merged := if ordered.isEmpty then fl else dedupAux [] (ordered ++ fl)
  merged.filter pageVisible

/-- ... in the working tree (switch generated from the AST of `get_page_tree`) -/
def pageFileListTree (ordered enum : List Str) : List Str := pageFileList Gen.C12.pageListNatural ordered enum


/-! ### round 6: the colours of the edges of a hop (`FortranGraph.add_nodes`) -/

/-- `enumerate`: the position of the node with identifier `i` in `order` -/
def posOf (order : List Node) (i : Str) : Nat := (order.map (·.ident)).idxOf i

/-- `FortranGraph.add_nodes` with `coloured_edges`: the nodes of a hop are handled in sorted order, and the edges
    that leave a node get colour number `k` of `len(nodes)` (`rainbowcolour(k, total_len)`).
    `bySortedIndex = true`: `k` is the position of the node in the sorted list (`enumerate(sorted(nodes))`, the
    tree as it is); `false`: `k` is its position in the collection as it is iterated (`ω nodes`; for the set
    `hop_nodes` that is hash order).  Result: (identifier, colour number) in emission order. -/
def hopColours (bySortedIndex : Bool) (ω : List Node → List Node) (nodes : List Node) : List (Str × Nat) :=
  let emitted := emitNodesTree nodes
  let numbered := if bySortedIndex then emitted else ω nodes
  emitted.map fun n => (n.ident, posOf numbered n.ident)

/-- ... in the working tree (switch probed on the real `add_nodes` on every run) -/
def hopColoursTree (ω : List Node → List Node) (nodes : List Node) : List (Str × Nat) :=
  hopColours Gen.C12.edgeColourBySortedIndex ω nodes

/-! ### round 6: source files that are reachable under more than one path (`find_all_files`) -/

/-- keep the first path of every real file: `seen` holds the real files met so far -/
def dedupByReal (real : Path → Path) : List Path → List Path → List Path
  | _, [] => []
  | seen, p :: ps =>
    if seen.contains (real p) then dedupByReal real seen ps
    else p :: dedupByReal real (real p :: seen) ps

/-- `find_all_files` on the directory entries in the order the file system hands them out (`listing`; what
    `Path.glob` yields follows `os.scandir`).  `real p` is the file a path leads to (`Path.resolve()`: the target
    of a symbolic link, else the path itself).  `firstCome = false`: every matching path is a source file (the
    tree as it is: a linked file is documented once per path); `firstCome = true`: a path whose file was met
    before under another path is dropped. -/
def findSourcesListed (firstCome : Bool) (real : Path → Path) (srcDirs excl : List Path) (exts : List Str)
    (listing : List Path) : List Path :=
  let hits := listing.filter fun p => srcDirs.any (isBelow · p) && !excl.any (isBelow · p) && hasSourceName exts p
  if firstCome then dedupByReal real [] hits else hits

/-- ... in the working tree (switch probed on the real `find_all_files` on every run) -/
def findSourcesListedTree (real : Path → Path) (srcDirs excl : List Path) (exts : List Str) (listing : List Path) :
    List Path :=
  findSourcesListed Gen.C12.sourceAliasesFirstCome real srcDirs excl exts listing

/-! ### round 6: `FortranBase.sort_components` (the `sort` option) -/

/-- what the sort keys read of a variable: `vartype`, `kind`, `strlen`, `proto[0]` (empty = falsy) -/
structure VarSig where
  vartype : Str
  kind : Str
  strlen : Str
  proto : Str
deriving DecidableEq, Repr

/-- an entry of one of the entity lists of a program unit / type / procedure -/
structure Comp where
  uid : Nat
  name : Str
  obj : Str
  /-- `getattr(item, "permission", "default")` -/
  permission : Str
  var : VarSig
  /-- `item.proctype`, empty when the attribute is missing -/
  proctype : Str
  /-- `item.retvar` of a function -/
  retvar : Option VarSig
deriving DecidableEq, Repr

/-- `permission(item)`: rank in `{"default": 0, "public": 1, "protected": 2, "private": 3}` (the code raises
    `KeyError` on anything else; the model gives 0) -/
def permRank (p : Str) : Nat :=
  if p == cs! "public" then 1 else if p == cs! "protected" then 2 else if p == cs! "private" then 3 else 0

/-- `fortran_type_name` of a variable -/
def varTypeName (v : VarSig) : Str :=
  let r := if v.vartype == cs! "class" then cs! "type" else v.vartype
  let r := if v.kind.isEmpty then r else r ++ '-' :: v.kind
  let r := if v.strlen.isEmpty then r else r ++ '-' :: v.strlen
  if v.proto.isEmpty then r else r ++ '-' :: v.proto

/-- `fortran_type_name(item)` -/
def fortranTypeName (c : Comp) : Str :=
  if c.obj == cs! "variable" then varTypeName c.var
  else if c.obj == cs! "proc" && !c.proctype.isEmpty then
    lower c.proctype ++
      (if c.proctype == cs! "Function" then
        match c.retvar with
        | some v => '-' :: varTypeName v
        | none => []
       else [])
  else c.obj

/-- `SORT_KEY_FUNCTIONS[settings.sort.lower()]`: `none` for `src` (and for a word the table does not have, where
    the code raises).  The integer key of `permission` is one digit, so comparing the digit as text is comparing
    the number. -/
def sortKeyFn (mode : Str) : Option (Comp → Str) :=
  if mode == cs! "alpha" then some (·.name)
  else if mode == cs! "permission" then some fun c => showNat (permRank c.permission)
  else if mode == cs! "permission-alpha" then some fun c => showNat (permRank c.permission) ++ '-' :: c.name
  else if mode == cs! "type" then some fortranTypeName
  else if mode == cs! "type-alpha" then some fun c => fortranTypeName c ++ '-' :: c.name
  else none

/-- `entity.sort(key=sort_key)` for one entity list given in source order (`list.sort` is stable) -/
def sortComponents (mode : Str) (l : List Comp) : List Comp :=
  match sortKeyFn (lower mode) with
  | some key => sortOn key l
  | none => l

end Ford.Order
