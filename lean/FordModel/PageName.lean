/-
  C09 — what a static page is *called* in the output, and by whom.

  One page of the user's `page_dir` tree (`<location>/<stem>.md`) is named at three places that have to agree:

    ford/pagetree.py  PageNode.path = location / filename.with_suffix(".html")
                      PageNode.url  = base_url / "page" / path        -> every link FORD writes to the page: the
                                                                          side-bar tree of info_page.html, the bread crumbs
                                                                          (`PageNode.__str__`), the navigation bar of
                                                                          base.html (`pages.url | relurl(page_url)`)
    ford/output.py    PagetreePage.outfile = page_dir / obj.path       -> the file that is written
                      PagetreePage.loc     = "page" / obj.path         -> the `url` of the search index entry

  `PurePath.with_suffix` replaces what pathlib takes for the *suffix* of the name - everything from the last dot on,
  unless that dot is the first or the last character - so `release-1.2` becomes `release-1.html`.  Whatever the name
  is, links and file must use the same one.  Which naming each of the three places uses is regenerated from the real
  objects on every run (`Generated/C09.lean: pageTables.names`, `translate/c09.py: probe_pagename`).

  Import-free (driver).
-/
import FordModel.Path
namespace Ford.PageName
open Ford Ford.Path

def htmlExt : Str := ['.', 'h', 't', 'm', 'l']
def pageSeg : Seg := ['p', 'a', 'g', 'e']

/-- `str.rfind('.')`: index of the last dot; `i` is the index of the head of the list, `r` the last dot seen so far -/
def rfindDot : Str → Nat → Option Nat → Option Nat
  | [], _, r => r
  | c :: cs, i, r => rfindDot cs (i + 1) (if c = '.' then some i else r)

/-- length of `PurePath(name).suffix` (CPython 3.12 `pathlib`: `i = name.rfind('.')`; the suffix is `name[i:]` when
    `0 < i < len(name) - 1`, else empty) -/
def suffixLen (s : Str) : Nat :=
  match rfindDot s 0 none with
  | some i => if 0 < i ∧ i + 1 < s.length then s.length - i else 0
  | none => 0

/-- `str(PurePath(name).with_suffix(".html"))` -/
def withSuffixHtml (s : Str) : Str := s.take (s.length - suffixLen s) ++ htmlExt

/-- how a place of the code derives the name of the page's HTML file from the stem of the Markdown file -/
inductive Naming where
  /-- `Path(stem).with_suffix(".html")` -/
  | withSuffix
  /-- `f"{stem}.html"` -/
  | appendHtml
  deriving Repr, DecidableEq

def Naming.name : Naming → Str → Str
  | .withSuffix, s => withSuffixHtml s
  | .appendHtml, s => s ++ htmlExt

structure NameTables where
  /-- `PageNode.url` (side-bar tree, bread crumbs, navigation bar) -/
  url : Naming
  /-- `PagetreePage.outfile` (the file written) -/
  outfile : Naming
  /-- `PagetreePage.loc` (the `url` field of the search index) -/
  loc : Naming
  deriving Repr, DecidableEq

/-- the three places agree -/
def tablesOk (T : NameTables) : Bool := decide (T.url = T.outfile) && decide (T.loc = T.outfile)

/-- a file of the page tree below the output directory -/
def pathOf (n : Naming) (loc : List Seg) (stem : Seg) : List Seg := pageSeg :: loc ++ [n.name stem]

/-- `PageNode.url` below `base_url` -/
def urlPath (T : NameTables) (loc : List Seg) (stem : Seg) : List Seg := pathOf T.url loc stem
/-- `PagetreePage.outfile` below the output directory -/
def outPath (T : NameTables) (loc : List Seg) (stem : Seg) : List Seg := pathOf T.outfile loc stem
/-- `PagetreePage.loc`: the URL of the page in the search index (relative to the directory of `search.html`) -/
def searchPath (T : NameTables) (loc : List Seg) (stem : Seg) : List Seg := pathOf T.loc loc stem

/-- the href of a link to the page `(loc, stem)` as the `relurl` filter leaves it on a page that lies in the
    directory `dir` of an output tree at `base` (`os.path.relpath(url, page_url.parent)`) -/
def linkTo (T : NameTables) (base dir loc : List Seg) (stem : Seg) : List Seg :=
  relpath (base ++ urlPath T loc stem) (base ++ dir)

def namingStr : Naming → Str
  | .withSuffix => "withSuffix".toList
  | .appendHtml => "appendHtml".toList

end Ford.PageName
