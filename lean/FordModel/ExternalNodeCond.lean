/-
  The little language in which the translator (translate/c16.py) writes down the test of
  `ford/graphs.py: BaseNode.__init__` that decides whether the URL of a graph node is used as it is
  or gets the path back to the top of the site (`graph_data.parent_dir`) in front.
  Import-free apart from the character helpers (the generated table imports this file).
-/
import FordModel.Basic.Chars
namespace Ford.Ext
open Ford

/-- what such a test can look at -/
inductive NodeAtom where
  /-- `self.fromstr`: the node was made from a string (`str(obj)` of an External* object, a bare name) -/
  | fromstr
  /-- `hasattr(obj, "external_url")` (on `obj` as it is at that point: a string has no such attribute) -/
  | hasExternalUrl
  /-- `isinstance(obj, str)` -/
  | isStr
  /-- `urlparse(self.url).scheme` / `urlsplit(self.url).scheme` is not empty -/
  | urlHasScheme
  /-- `self.url.startswith(<literal>)` -/
  | urlStartsWith (p : Str)
  deriving Repr, DecidableEq

inductive NodeCond where
  | atom (a : NodeAtom)
  | const (b : Bool)
  | not (c : NodeCond)
  | and (a b : NodeCond)
  | or (a b : NodeCond)
  deriving Repr

end Ford.Ext
