/-
  The statement that opens a function (property C01: "each ... procedure ... appears exactly once ... with its
  declared name, entity kind, ordered argument list, type", "nothing undeclared is reported", "independent of
  ... equivalent spellings of the same declaration" - here: the two legal orders of the suffix items
  `RESULT(r)` and `BIND(C ..)`, Fortran 2008 R1229).

  Mirrors, character by character,

    * `FortranContainer.FUNCTION_RE`  (IGNORECASE | VERBOSE, `match`)
        ^(?:(?P<attributes>.+?)\s*)?
        function\s+(?P<name>\w+)\s*
        (?P<arguments>\([^()]*\))?
        (?=(?:.*result\s*\(\s*(?P<result>\w+)\s*\))?)
        (?=(?:.*bind\s*\(\s*(?P<bindC>.*)\s*\))?).*$
      as the deterministic scanner a backtracking engine amounts to on a line without line feeds: everything
      behind the argument list always succeeds (two optional look-aheads, `.*$`), so the first way the head
      matches is the answer: the lazy `(.+?)` grows one character at a time (`scanAttr`), the greedy `\s*`
      behind it has to take every blank (the keyword does not begin with one), and only when no length >= 1
      works is the statement tried without group `attributes`.  `.*X` inside a look-ahead with a greedy `.*`
      finds the LAST position at which `X` matches (`lastMatch`); `(?P<bindC>.*)\s*\)` takes everything up to
      the last `)` of the line (`uptoLastClose`).
    * `FortranProcedure._procedure_initialize`: the argument names
        [arg for arg in SPLIT_RE.split(arguments[1:-1].strip()) if arg]
    * `FortranProcedure._parse_bind_C` up to the literal restoring loop:
        if "(" in text or ")" in text: text = ford.utils.get_parens(text, -1)
    * `FortranFunction._initialize`: `self.retvar = line["result"] or self.name`, replaced by a typed variable
      when the text in front of the keyword is a type specification (`typed`, decided by `parse_type`, which
      has its own model in TypeSpec.lean);
    * `FortranFunction._cleanup`: after the dummy arguments took their declarations (Entity.lean) the first
      remaining variable called like the result (letter case ignored) becomes the result variable and is
      removed from the function's variables; without one an implicitly typed variable is made up.

  Input alphabet: printable ASCII and TAB (`TypeHead.modelled`; the dispatcher answers `unmodelled` otherwise).
  Import-free of Mathlib on purpose (compiled driver).
-/
import FordModel.Basic.Chars
import FordModel.TypeSpec
import FordModel.TypeHead
import FordModel.Entity
namespace Ford.FuncHead
open Ford Ford.TypeSpec Ford.TypeHead

/-- the five named groups of `FUNCTION_RE` -/
structure Groups where
  attributes : Option Str
  name : Str
  arguments : Option Str
  result : Option Str
  bindC : Option Str
  deriving DecidableEq, Repr

/-- `(\([^()]*\))?` here: (group, what follows) -/
def argsHere : Str → Option Str × Str
  | '(' :: r =>
    match (spanNoParen r).2 with
    | ')' :: r' => (some ('(' :: ((spanNoParen r).1 ++ [')'])), r')
    | _ => (none, '(' :: r)
  | s => (none, s)

/-- `result\s*\(\s*(\w+)\s*\)` anchored here: the group -/
def resultAt (s : Str) : Option Str :=
  match kwCI (chars! "result") s with
  | none => none
  | some r =>
    match skipWs r with
    | '(' :: r1 =>
      if (spanWord (skipWs r1)).1.isEmpty then none
      else
        match skipWs (spanWord (skipWs r1)).2 with
        | ')' :: _ => some (spanWord (skipWs r1)).1
        | _ => none
    | _ => none

/-- the text in front of the last `)` (`none`: there is no `)`) -/
def uptoLastClose : Str → Option Str
  | [] => none
  | c :: cs =>
    match uptoLastClose cs with
    | some r => some (c :: r)
    | none => if c == ')' then some [] else none

/-- `bind\s*\(\s*(.*)\s*\)` anchored here: the group (greedy: up to the last `)` of the line) -/
def bindAt (s : Str) : Option Str :=
  match kwCI (chars! "bind") s with
  | none => none
  | some r =>
    match skipWs r with
    | '(' :: r1 => uptoLastClose (skipWs r1)
    | _ => none

/-- `(?:.*X)?` with a greedy `.*`: the group of `X` at the LAST position where `X` matches -/
def lastMatch (f : Str → Option Str) : Str → Option Str
  | [] => f []
  | c :: cs =>
    match lastMatch f cs with
    | some x => some x
    | none => f (c :: cs)

/-- `function\s+(\w+)\s*(\([^()]*\))?` anchored here: (name, arguments, what follows) -/
def headAt (s : Str) : Option (Str × Option Str × Str) :=
  match kwCI (chars! "function") s with
  | none => none
  | some r =>
    if (skipWs r).length < r.length && !(spanWord (skipWs r)).1.isEmpty then
      some ((spanWord (skipWs r)).1, (argsHere (skipWs (spanWord (skipWs r)).2)).1,
            (argsHere (skipWs (spanWord (skipWs r)).2)).2)
    else none

/-- `(.+?)\s*` + head: `acc` = what the lazy group has taken so far (reversed, at least one character) -/
def scanAttr (acc : Str) : Str → Option (Str × Str × Option Str × Str)
  | [] => none
  | c :: cs =>
    match headAt (skipWs (c :: cs)) with
    | some h => some (acc.reverse, h)
    | none => scanAttr (c :: acc) cs

def finish (a : Option Str) (h : Str × Option Str × Str) : Groups :=
  ⟨a, h.1, h.2.1, lastMatch resultAt h.2.2, lastMatch bindAt h.2.2⟩

/-- `FUNCTION_RE.match(line)` -/
def funcRe (line : Str) : Option Groups :=
  match line with
  | [] => none
  | c :: cs =>
    match scanAttr [c] cs with
    | some (a, h) => some (finish (some a) h)
    | none => (headAt (c :: cs)).map (finish none)

/-! ### what the constructor makes of the groups -/

/-- `[arg for arg in SPLIT_RE.split(arguments[1:-1].strip()) if arg]` -/
def argNames (arguments : Option Str) : List Str :=
  match arguments with
  | none => []
  | some a => (splitStripped ((a.drop 1).dropLast)).filter (fun x => !x.isEmpty)

/-- `ford.utils.get_parens(text, -1)` (retblevel 0) -/
def getParensRet : Str → Int → Int → Str → Option Str
  | [], lv, bl, acc => if lv == -1 && bl == 0 then some acc.reverse else none
  | c :: cs, lv, bl, acc =>
    if c == '(' then getParensRet cs (lv + 1) bl (c :: acc)
    else if c == ')' then getParensRet cs (lv - 1) bl (c :: acc)
    else if c == '[' then getParensRet cs lv (bl + 1) (c :: acc)
    else if c == ']' then getParensRet cs lv (bl - 1) (c :: acc)
    else if isStop c && lv == -1 && bl == 0 then some acc.reverse
    else getParensRet cs lv bl (c :: acc)

/-- `_parse_bind_C` before the literals are put back: `none` = RuntimeError of `get_parens` -/
def bindText (t : Str) : Option Str :=
  if t.isEmpty then some t
  else if t.any (fun c => c == '(' || c == ')') then getParensRet t 0 0 [] else some t

/-- `line["result"] or self.name` -/
def retName (g : Groups) : Str :=
  match g.result with
  | some r => if r.isEmpty then g.name else r
  | none => g.name

/-- the result variable after `_cleanup` -/
inductive Ret where
  /-- typed by the text in front of FUNCTION (`integer function f()`) -/
  | prefixTyped (name : Str)
  /-- the variable a declaration of the function made -/
  | declared (v : Entity.Var)
  /-- no declaration: `FortranVariable(retvar, implicit_type(retvar), self)` -/
  | implicit (name : Str)
  deriving DecidableEq, Repr

/-- `FortranFunction._cleanup` on the variables the dummy arguments left -/
def takeResult (typed : Bool) (r : Str) (vs : List Entity.Var) : Ret × List Entity.Var :=
  if typed then (.prefixTyped r, vs)
  else
    match Entity.takeVar r vs with
    | some (v, rest) => (.declared v, rest)
    | none => (.implicit r, vs)

/-- a function statement + the entities its declarations name: (arguments, result variable, other variables) -/
def funcCleanup (typed : Bool) (g : Groups) (ents : List Str) : List Entity.Arg × Ret × List Entity.Var :=
  ((Entity.cleanup (argNames g.arguments) ents).1,
   takeResult typed (retName g) (Entity.cleanup (argNames g.arguments) ents).2)

end Ford.FuncHead
