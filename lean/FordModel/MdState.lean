/-
  Model of the tables that one `markdown.Markdown` instance carries from one
  `convert` call to the next, and of the loop in which FORD converts the doc
  comments of all entities with ONE such instance
  (`Project.markdown`: `for item in items: item.markdown(md)`,
   `FortranBase.markdown`: `self.doc = md.reset().convert(dedent(doc_list))`).

  Three kinds of definitions of a comment are stored on the instance and are
  looked up when the text is rendered:
    * `[label]: url`        -> `md.references[label.lower()]`         (reference-style links)
    * `[^label]: text`      -> `FootnoteExtension.footnotes[label]`   (ordered; all of them are listed below the text)
    * `*[token]: title`     -> one inline pattern `abbr-<token>` registered on `md.inlinePatterns`
  `Markdown.reset()` clears the first two.  It does not remove the registered
  abbreviation patterns (Python-Markdown 3.4); `abbrFix = true` is the variant
  with fixes/C03-abbr-reset.diff, where `MetaMarkdown.reset` removes them too.

  The text side is reduced to what refers to these tables: a blank-separated
  word `[text][label]` is a link iff `label` is in the reference table, a word
  equal to a registered token gets that token's title.  (Restricted to the
  forms of the C03 generator: definitions on lines of their own with fewer
  than four leading blanks, uses as whole words outside code blocks.)
-/
import FordModel.Basic.Chars
namespace Ford

abbrev Table := List (Str × Str)

structure MdState where
  refs  : Table
  foots : Table
  abbrs : Table
  deriving DecidableEq, Repr

def mdEmpty : MdState := ⟨[], [], []⟩

/-- what of one rendered document depends on the tables: the link targets, the footnote
    texts listed below the text, the titles put on abbreviations (each in document order) -/
structure MdOut where
  links  : List Str
  foots  : List Str
  titles : List Str
  deriving DecidableEq, Repr

inductive MdLine
  | refDef (label url : Str)
  | footDef (label text : Str)
  | abbrDef (tok title : Str)
  | text (words : List Str)
  deriving DecidableEq, Repr

/-- blank-separated words of a line -/
def splitWordsAux : Str → Str → List Str
  | [], cur => if cur.isEmpty then [] else [cur.reverse]
  | c :: cs, cur =>
    if isSpace c then (if cur.isEmpty then splitWordsAux cs [] else cur.reverse :: splitWordsAux cs [])
    else splitWordsAux cs (c :: cur)

def splitWords (s : Str) : List Str := splitWordsAux s []

/-- `s = "[" ++ inner ++ "]" ++ rest` with no `]` in `inner`: `(inner, rest)` -/
def bracketHead : Str → Option (Str × Str)
  | '[' :: t =>
    match t.dropWhile (· != ']') with
    | ']' :: r => some (t.takeWhile (· != ']'), r)
    | _ => none
  | _ => none

def firstWordOf (s : Str) : Str := (lstrip s).takeWhile (fun c => !isSpace c)

/-- which of the three definition forms a line is (after at most three leading blanks) -/
def mdLine (l : Str) : MdLine :=
  if (l.takeWhile (· == ' ')).length > 3 then .text (splitWords l) else
  match l.dropWhile (· == ' ') with
  | '*' :: r =>
    match bracketHead r with
    | some (tok, ':' :: t) => .abbrDef tok (strip t)
    | _ => .text (splitWords l)
  | r =>
    match bracketHead r with
    | some ('^' :: lab, ':' :: t) => .footDef lab (strip t)
    | some (lab, ':' :: t) => .refDef (lower (strip lab)) (firstWordOf t)
    | _ => .text (splitWords l)

/-- `d[k] = v` on an insertion-ordered dict -/
def setKey : Table → Str → Str → Table
  | [], k, v => [(k, v)]
  | (k', v') :: rest, k, v => if k' == k then (k', v) :: rest else (k', v') :: setKey rest k v

def setAll (t : Table) (kvs : Table) : Table := kvs.foldl (fun t kv => setKey t kv.1 kv.2) t

def lookupKey (t : Table) (k : Str) : Option Str := (t.find? (·.1 == k)).map (·.2)

def refDefs (ls : List MdLine) : Table := ls.filterMap fun | .refDef l u => some (l, u) | _ => none
def footDefs (ls : List MdLine) : Table := ls.filterMap fun | .footDef l t => some (l, t) | _ => none
def abbrDefs (ls : List MdLine) : Table := ls.filterMap fun | .abbrDef k t => some (k, t) | _ => none
def textWords (ls : List MdLine) : List Str := ls.flatMap fun | .text ws => ws | _ => []

/-- label of a word of the form `[text][label]…` (looked up lower-cased) -/
def refUse (w : Str) : Option Str :=
  match bracketHead w with
  | some (_, r) =>
    match bracketHead r with
    | some (l, _) => some (lower (strip l))
    | none => none
  | none => none

def mdRender (st : MdState) (ls : List MdLine) : MdOut :=
  { links := (textWords ls).filterMap (fun w => (refUse w).bind (lookupKey st.refs)),
    foots := st.foots.map (·.2),
    titles := (textWords ls).filterMap (lookupKey st.abbrs) }

/-- `md.convert(text)`: the block pass stores the definitions on the instance, then the text
    is rendered against the tables as they are now -/
def mdConvert (st : MdState) (doc : List Str) : MdState × MdOut :=
  let ls := doc.map mdLine
  let st' : MdState := { refs := setAll st.refs (refDefs ls), foots := setAll st.foots (footDefs ls),
                         abbrs := setAll st.abbrs (abbrDefs ls) }
  (st', mdRender st' ls)

/-- `md.reset()` -/
def mdReset (abbrFix : Bool) (st : MdState) : MdState :=
  { refs := [], foots := [], abbrs := if abbrFix then [] else st.abbrs }

/-- the loop of `Project.markdown` over the (dedented) doc comments of all entities, one instance -/
def markdownAll (abbrFix : Bool) : MdState → List (List Str) → List MdOut
  | _, [] => []
  | st, d :: ds =>
    let r := mdConvert (mdReset abbrFix st) d
    r.2 :: markdownAll abbrFix r.1 ds

/-- one document converted by an instance nobody used before -/
def mdAlone (doc : List Str) : MdOut := (mdConvert mdEmpty doc).2

end Ford
