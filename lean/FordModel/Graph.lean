/-
  C13 — model of ford/graphs.py as the code is.

  Three layers, each mirroring one mechanism of the source:

  * `callNodes`   = `get_call_nodes` (257-299): which raw calls become graph nodes
                    (invisible procedures and simple bindings are skipped transitively,
                    `visited` guards against cycles);
  * `create`      = `GraphData.register/get_node` + the node constructors (383-599):
                    every constructor stores the forward relation on its own node *and*
                    the inverse relation on the target node (`fwd` / `inv` below are
                    these two families of sets);
  * `addNodes`    = `FortranGraph.add_nodes/add_to_graph/_add_nested_nodes` (849-872,
                    1012-1051) with the per-class `add_node` given by `succOf`;
  * `graphAll`    = `GraphManager.register/graph_all` (1363-1440).

  The guards of the interface-to-implementation links of `ProcNode.__init__` (truthiness,
  `isinstance`, `visible`) are not written here: `targets` consults the decision table
  `C13Gen.ifaceRules`, regenerated from the working tree by translate/c13.py on every run.

  Sets are lists; iteration order inside a hop (`sorted(nodes)`) is not modelled,
  observations are compared as sets.  Nodes are natural numbers: the index of the
  entity in the table handed over by the harness (one index per node `ident`).
-/
import FordModel.Basic.Chars
import FordModel.Generated.C13
namespace Ford.Graph
open Ford.C13Gen (IfaceRule ifaceRules)

abbrev Node := Nat

inductive Style | solid | dashed
deriving DecidableEq, Repr

structure Edge where
  tail : Node
  head : Node
  style : Style
deriving DecidableEq, Repr

/-! ## Entities (what the constructors read from the Fortran objects) -/

inductive Kind | mod | submod | type | proc | prog | file | block | ext
deriving DecidableEq, Repr

structure Ent where
  kind : Kind := .ext
  /-- `ProcNode.proctype == "boundproc"` -/
  isBoundType : Bool := false
  /-- `ProcNode.proctype == "interface"` -/
  isIface : Bool := false
  /-- `getattr(obj, "visible", True)` -/
  visible : Bool := true
  /-- `getattr(obj, "visible", False)` -/
  visibleF : Bool := false
  /-- `isinstance(obj, FortranBoundProcedure)` -/
  isBound : Bool := false
  deferred : Bool := false
  /-- `hasattr(obj, "external_url")` -/
  extUrl : Bool := false
  /-- `obj.meta.graph` -/
  graph : Bool := true
  uses : List Node := []
  /-- submodule: parent submodule or ancestor module; type: `obj.extends` -/
  anc : Option Node := none
  /-- prototypes of the components of derived type (already without `*`) -/
  comps : List Node := []
  /-- `getattr(obj, "calls", [])` after `correlate` -/
  calls : List Node := []
  /-- `getattr(obj, "bindings", [])` -/
  bindings : List Node := []
  /-- row of the generated table `C13Gen.ifaceRules` that describes the Python class of the object
      (`NoneType`, `False`, `True`, `str`, then the classes of ford.sourceform) -/
  cls : Nat := 0
  /-- `[m.procedure for m in obj.modprocs]`, unfiltered: the specific procedures of a generic
      interface exactly as `correlate` left them (an unmatched one is an entity of class `NoneType`) -/
  modprocs : List Node := []
  /-- `obj.procedure.module` of a `FortranModuleProcedureInterface`, unfiltered: the implementing
      procedure, or an entity of class `False` / `True` when none was matched -/
  impl : Option Node := none
  /-- source files of the `deplist` entries of the program units of a file (≠ the file) -/
  deps : List Node := []
  /-- `obj.boundprocs` of a type -/
  boundprocs : List Node := []
  /-- `traverse(obj, ["subroutines", "functions"])` of a procedure -/
  internals : List Node := []
  maxDepth : Nat := 0
  maxNodes : Nat := 1
deriving Repr

abbrev Table := List Ent

def ent (tab : Table) (i : Node) : Ent := tab.getD i {}

/-! ## `get_call_nodes` -/

/-- `is_simple_binding` -/
def isSimple (tab : Table) (c : Node) : Bool :=
  let e := ent tab c
  e.isBound && e.bindings.length == 1 &&
    (match e.bindings with
     | b :: _ => !(ent tab b).isBound && (e.deferred || (ent tab b).visibleF)
     | [] => false)

/-- the call is shown as a node -/
def keep (tab : Table) (c : Node) : Bool := (ent tab c).visible && !isSimple tab c

/-- `getattr(call, "calls", []) + getattr(call, "bindings", [])` -/
def callChildren (tab : Table) (c : Node) : List Node := (ent tab c).calls ++ (ent tab c).bindings

/-- `get_call_nodes` as a work list (depth first, like the recursion): `none` = fuel
    exhausted (never happens with the fuel the driver supplies). -/
def callNodesAux (tab : Table) : Nat → List Node → List Node → List Node → Option (List Node)
  | _, [], _, res => some res
  | 0, _ :: _, _, _ => none
  | f + 1, c :: rest, vis, res =>
    if vis.contains c then callNodesAux tab f rest vis res
    else if keep tab c then callNodesAux tab f rest (c :: vis) (res ++ [c])
    else callNodesAux tab f (callChildren tab c ++ rest) (c :: vis) res

/-- enough fuel: every entity is expanded at most once, every list element popped once -/
def callFuel (tab : Table) : Nat :=
  (tab.map fun e => e.calls.length + e.bindings.length + 1).sum + tab.length + 2

def callNodes (tab : Table) (calls : List Node) : List Node :=
  (callNodesAux tab (callFuel tab + calls.length) calls [] []).getD []

/-! ## Node creation: forward and inverse adjacency -/

inductive Rel | uses | anc | ext | comp | call | iface | dep
deriving DecidableEq, Repr

structure Link where
  src : Node
  rel : Rel
  dst : Node
deriving DecidableEq, Repr

structure NodeData where
  /-- entities that have a node object -/
  created : List Node := []
  /-- `⟨a, r, t⟩`: `t` is in the forward set `r` of node `a`
      (`uses`, `ancestor`, `comp_types`, `calls`, `interfaces`, `efferent`) -/
  fwd : List Link := []
  /-- `⟨t, r, a⟩`: `a` is in the inverse set of node `t`
      (`used_by`, `children`, `comp_of`, `called_by`, `interfaced_by`, `afferent`) -/
  inv : List Link := []
deriving DecidableEq, Repr

def insertLink (l : Link) (ls : List Link) : List Link := if ls.contains l then ls else ls ++ [l]

/-- the two adjacent statements `n.used_by.add(self); self.uses.add(n)` -/
def link (nd : NodeData) (a : Node) (rt : Rel × Node) : NodeData :=
  { nd with fwd := insertLink ⟨a, rt.1, rt.2⟩ nd.fwd, inv := insertLink ⟨rt.2, rt.1, a⟩ nd.inv }

def optList (o : Option Node) : List Node := match o with | some a => [a] | none => []

/-- the row of the decision table for class index `c` (nothing is linked for an unknown class) -/
def ruleOfIn (rules : List IfaceRule) (c : Nat) : IfaceRule := rules.getD c { name := "" }

/-- guard of the loop over `obj.modprocs`: is the specific procedure `m` linked? -/
def specificLinked (rules : List IfaceRule) (tab : Table) (m : Node) : Bool :=
  let r := ruleOfIn rules (ent tab m).cls
  if (ent tab m).visible then r.modproc else r.modprocHidden

/-- guard of the `obj.procedure.module` branch: is the implementation `m` linked? -/
def implLinked (rules : List IfaceRule) (tab : Table) (m : Node) : Bool :=
  let r := ruleOfIn rules (ent tab m).cls
  if (ent tab m).visible then r.impl else r.implHidden

/-- the interface-to-implementation links of an interface entity, under a given decision table -/
def ifaceTargets (rules : List IfaceRule) (tab : Table) (i : Node) : List Node :=
  ((ent tab i).modprocs.filter (specificLinked rules tab))
    ++ ((optList (ent tab i).impl).filter (implLinked rules tab))

/-- what the constructor of the node of `e` links to, in source order -/
def targets (tab : Table) (i : Node) : List (Rel × Node) :=
  let e := ent tab i
  match e.kind with
  | .ext => []
  | .mod => e.uses.map (Rel.uses, ·)
  | .submod => e.uses.map (Rel.uses, ·) ++ (optList e.anc).map (Rel.anc, ·)
  | .type =>
    if e.extUrl then []
    else (optList e.anc).map (Rel.ext, ·) ++ e.comps.map (Rel.comp, ·)
  | .proc =>
    e.uses.map (Rel.uses, ·)
      ++ (callNodes tab (e.calls ++ e.bindings)).map (Rel.call, ·)
      ++ (if e.isIface then (ifaceTargets ifaceRules tab i).map (Rel.iface, ·) else [])
  | .prog => e.uses.map (Rel.uses, ·) ++ (callNodes tab e.calls).map (Rel.call, ·)
  | .block => e.uses.map (Rel.uses, ·)
  | .file => e.deps.map (Rel.dep, ·)

/-- `GraphData.register` / `get_node` for every entity of the work list, recursively for
    everything the constructors touch.  `none` = fuel exhausted. -/
def create (tab : Table) : Nat → List Node → NodeData → Option NodeData
  | _, [], nd => some nd
  | 0, _ :: _, _ => none
  | f + 1, e :: rest, nd =>
    if nd.created.contains e then create tab f rest nd
    else
      let ts := targets tab e
      create tab f (ts.map Prod.snd ++ rest)
        (ts.foldl (fun nd rt => link nd e rt) { nd with created := nd.created ++ [e] })

/-! ## The relation slots the node constructors read

  Every constructor reads a few attributes of its Fortran object ("slots") and links the new node with
  the node of every entity it finds there.  Which slots the constructor of which node class reads is
  also read off the working tree (translate/c13.py runs the real constructors on stubs and writes
  `C13Gen.ctorLinks`); `Props/C13.lean` proves that the generated table and `slotsOf` agree and that
  every row stores both directions. -/

inductive Slot | uses | anc | ext | comps | calls | bindings | deps
deriving DecidableEq, Repr

/-- the codes used in the generated table `C13Gen.ctorLinks` -/
def Kind.code : Kind → Nat
  | .mod => 0 | .submod => 1 | .type => 2 | .proc => 3 | .prog => 4 | .file => 5 | .block => 6 | .ext => 7

def Slot.code : Slot → Nat
  | .uses => 0 | .anc => 1 | .ext => 2 | .comps => 3 | .calls => 4 | .bindings => 5 | .deps => 6

def allKinds : List Kind := [.mod, .submod, .type, .proc, .prog, .file, .block, .ext]

def allSlots : List Slot := [.uses, .anc, .ext, .comps, .calls, .bindings, .deps]

/-- the relation a slot feeds -/
def Slot.rel : Slot → Rel
  | .uses => .uses | .anc => .anc | .ext => .ext | .comps => .comp
  | .calls => .call | .bindings => .call | .deps => .dep

/-- slots that go through `get_call_nodes` before they are linked -/
def Slot.isCall : Slot → Bool
  | .calls | .bindings => true
  | _ => false

/-- the slots the constructor of each node class reads (`ModNode`, `SubmodNode`, `TypeNode`, `ProcNode`,
    `ProgNode`, `FileNode`, `BlockNode`; an entity known by name only has none) -/
def slotsOf : Kind → List Slot
  | .mod => [.uses]
  | .submod => [.uses, .anc]
  | .type => [.ext, .comps]
  | .proc => [.uses, .calls, .bindings]
  | .prog => [.uses, .calls]
  | .file => [.deps]
  | .block => [.uses]
  | .ext => []

/-- what an entity holds in a slot -/
def slotVals (e : Ent) : Slot → List Node
  | .uses => e.uses
  | .anc => optList e.anc
  | .ext => optList e.anc
  | .comps => e.comps
  | .calls => e.calls
  | .bindings => e.bindings
  | .deps => e.deps

def fwdOf (nd : NodeData) (a : Node) (r : Rel) : List Node :=
  (nd.fwd.filter fun l => l.src == a && l.rel == r).map Link.dst

def invOf (nd : NodeData) (t : Node) (r : Rel) : List Node :=
  (nd.inv.filter fun l => l.src == t && l.rel == r).map Link.dst

/-! ## Graph classes: the per-class `add_node` -/

inductive GClass
  | module | uses | usedBy | file | efferent | afferent
  | type | inherits | inheritedBy | call | calls | calledBy
deriving DecidableEq, Repr

/-- candidates and edges `add_node` produces for `n` (before the `not in self.added` test) -/
def succOf (tab : Table) (nd : NodeData) : GClass → Node → List (Node × Edge)
  | .module, n | .uses, n =>
    (fwdOf nd n .uses).map (fun u => (u, ⟨n, u, .dashed⟩))
      ++ (fwdOf nd n .anc).map (fun a => (a, ⟨n, a, .solid⟩))
  | .usedBy, n =>
    (invOf nd n .uses).map (fun u => (u, ⟨u, n, .dashed⟩))
      ++ (invOf nd n .anc).map (fun c => (c, ⟨c, n, .solid⟩))
  | .file, n => (fwdOf nd n .dep).map (fun d => (d, ⟨d, n, .solid⟩))
  | .efferent, n => (fwdOf nd n .dep).map (fun d => (d, ⟨n, d, .dashed⟩))
  | .afferent, n => (invOf nd n .dep).map (fun a => (a, ⟨a, n, .dashed⟩))
  | .type, n | .inherits, n =>
    (fwdOf nd n .comp).map (fun c => (c, ⟨n, c, .dashed⟩))
      ++ (fwdOf nd n .ext).map (fun a => (a, ⟨n, a, .solid⟩))
  | .inheritedBy, n =>
    (invOf nd n .comp).map (fun c => (c, ⟨c, n, .dashed⟩))
      ++ (invOf nd n .ext).map (fun c => (c, ⟨c, n, .solid⟩))
  | .call, n | .calls, n =>
    (fwdOf nd n .call).map
        (fun p => (p, ⟨n, p, if (ent tab n).isBoundType then .dashed else .solid⟩))
      ++ (fwdOf nd n .iface).map (fun p => (p, ⟨n, p, .dashed⟩))
  | .calledBy, n =>
    if (ent tab n).kind == .prog then []
    else
      (invOf nd n .call).map (fun p => (p, ⟨p, n, .solid⟩))
        ++ (invOf nd n .iface).map (fun p => (p, ⟨p, n, .dashed⟩))

def GClass.nested : GClass → Bool
  | .module | .file | .type | .call => false
  | _ => true

/-- `CallGraph.add_node` tests `p not in hop_nodes` instead of `p not in self.added`
    (`fx = false`, the code as it is); `fx = true` is the code with fixes/C13-callgraph-count.diff.
    The harness decides at run time which of the two the working tree is. -/
def GClass.filterAdded (fx : Bool) : GClass → Bool
  | .call => fx
  | _ => true

/-! ## `add_nodes` / `add_to_graph` -/

structure Cfg where
  succ : Node → List (Node × Edge)
  nested : Bool
  filterAdded : Bool
  maxNesting : Nat
  maxNodes : Nat

structure GState where
  added : List Node := []
  edges : List Edge := []
  hopNodes : List Node := []
  hopEdges : List Edge := []
  /-- `none` is the `-1` of the source -/
  truncated : Option Nat := none
  /-- `add_to_graph` refused a hop -/
  cutBySize : Bool := false
deriving Repr

def dedup : List Node → List Node
  | [] => []
  | a :: r => if r.contains a then dedup r else a :: dedup r

def union (a b : List Node) : List Node := a ++ b.filter fun x => !a.contains x

def cands (succ : Node → List (Node × Edge)) (nodes : List Node) : List (Node × Edge) :=
  nodes.flatMap succ

/-- the set `hop_nodes` built by the `add_node` calls of one hop -/
def hopOf (cfg : Cfg) (added nodes : List Node) : List Node :=
  dedup (((cands cfg.succ nodes).map Prod.fst).filter fun c => !cfg.filterAdded || !added.contains c)

def hopEdgesOf (cfg : Cfg) (nodes : List Node) : List Edge := (cands cfg.succ nodes).map Prod.snd

def addNodes (cfg : Cfg) (nodes : List Node) (nesting : Nat) (st : GState) : GState :=
  let hop := hopOf cfg st.added nodes
  if hop.length + st.added.length > cfg.maxNodes then
    -- add_to_graph returns False
    { st with
      hopNodes := if nesting < 2 then hop else st.hopNodes
      hopEdges := if nesting < 2 then hopEdgesOf cfg nodes else st.hopEdges
      truncated := some nesting
      cutBySize := true }
  else
    let st' := { st with added := union st.added hop, edges := st.edges ++ hopEdgesOf cfg nodes }
    if cfg.nested then
      if hop.isEmpty then st'
      else if nesting < cfg.maxNesting then addNodes cfg hop (nesting + 1) st'
      else { st' with truncated := some nesting }
    else st'
termination_by cfg.maxNesting - nesting

/-- `FortranGraph.__init__`: the roots are added unconditionally, then `add_nodes(root)` -/
def runGraph (cfg : Cfg) (roots : List Node) : GState :=
  addNodes cfg roots 1 { added := dedup roots }

/-! ## `FortranGraph.__str__`: whether and how a graph is shown on its page -/

inductive Shown | nothing | table | svg
deriving DecidableEq, Repr

/-- `__str__`: a graph that shows nothing but one node is left out; so is one whose nodes exceed
    `max_nodes` (the roots alone are too many) or that lacks a root; a graph whose *first* hop was
    refused and that has a single root is shown as a table (root, one row per kept edge of that hop);
    everything else is the SVG picture. -/
def shownAs (nroots maxNodes : Nat) (g : GState) : Shown :=
  let asTable := !g.hopNodes.isEmpty && nroots == 1
  if g.added.length ≤ 1 ∧ asTable = false then .nothing
  else if g.added.length > maxNodes then .nothing
  else if g.added.length < nroots then .nothing
  else if asTable then .table
  else .svg

/-- the end of an edge that is not the root (the root itself for an edge from the root to itself) -/
def otherEnd (root : Node) (e : Edge) : Node := if e.tail == root then e.head else e.tail

/-- `_make_graph_as_table`: one row per kept edge, showing one end of the edge beside the root.  Which
    end is decided **once**: `ft = false`, the code as it is, from the first edge (`hop_edges[0]`): the
    head of every edge if the root is the tail of the first one, else the tail of every edge;
    `ft = true`, the code with fixes/C13-table-self-loop.diff, from the first edge that does not lead
    from the root to itself.  The harness decides at run time which of the two the working tree is. -/
def tableRows (ft : Bool) (root : Node) (es : List Edge) : List (Node × Style) :=
  let first := if ft then (es.find? fun e => e.tail != e.head).or es.head? else es.head?
  match first with
  | none => []
  | some e0 =>
    if e0.tail == root then es.map fun e => (e.head, e.style) else es.map fun e => (e.tail, e.style)

/-- `_make_graph_as_table`: the `rowspan` of the cell that holds the root ("the root node takes up one column
    and spans all rows").  `fr = false`, the code as it is: `len(self.hop_nodes) * 2 + 1` - computed from the
    *nodes* of the refused hop; `fr = true`, the code with fixes/C13-table-rootspan.diff: from its *edges*, which
    are what the rows are written for.  The harness decides at run time which of the two the working tree is. -/
def rootSpan (fr : Bool) (g : GState) : Nat :=
  2 * (if fr then g.hopEdges.length else g.hopNodes.length) + 1

/-- the `<tr>` elements the table consists of: two per kept edge (arrow shaft above / below) -/
def tableTrs (g : GState) : Nat := 2 * g.hopEdges.length

/-! ## `GraphManager` -/

def maxList (d : Nat) (l : List Nat) : Nat := l.foldl max d

def cfgOf (fx : Bool) (tab : Table) (nd : NodeData) (c : GClass) (roots : List Node) : Cfg :=
  { succ := succOf tab nd c
    nested := c.nested
    filterAdded := c.filterAdded fx
    maxNesting := maxList 0 (roots.map fun r => (ent tab r).maxDepth)
    maxNodes := maxList 1 (roots.map fun r => (ent tab r).maxNodes) }

def graphOf (fx : Bool) (tab : Table) (nd : NodeData) (c : GClass) (roots : List Node) : GState :=
  runGraph (cfgOf fx tab nd c roots) roots

/-- how the graph of class `c` over `roots` appears on its page -/
def shownOf (fx : Bool) (tab : Table) (nd : NodeData) (c : GClass) (roots : List Node) : Shown :=
  shownAs roots.length (cfgOf fx tab nd c roots).maxNodes (graphOf fx tab nd c roots)

/-- `GraphManager.register`: only entities whose metadata say `graph: true` -/
def registered (tab : Table) (order : List Node) : List Node :=
  order.filter fun e => (ent tab e).graph

def createFuel (tab : Table) : Nat :=
  (tab.map fun e => 4 * (e.uses.length + e.comps.length + e.calls.length + e.bindings.length
      + e.modprocs.length + e.deps.length + 4) * (tab.length + 1)).sum + tab.length + 4

/-- per-entity graphs of one registered entity -/
def entityGraphs (fx : Bool) (tab : Table) (nd : NodeData) (e : Node) : List (Node × GClass × GState) :=
  let cls : List GClass :=
    match (ent tab e).kind with
    | .mod | .submod => [.uses, .usedBy]
    | .type => [.inherits, .inheritedBy]
    | .proc => [.calls, .calledBy, .uses]
    | .prog => [.uses, .calls]
    | .file => [.afferent, .efferent]
    | .block => [.uses]
    | .ext => []
  cls.map fun c => (e, c, graphOf fx tab nd c [e])

structure AllGraphs where
  ok : Bool := true
  perEntity : List (Node × GClass × GState) := []
  useGraph : GState := {}
  typeGraph : GState := {}
  callGraph : GState := {}
  fileGraph : GState := {}
  useRoots : List Node := []
  callRoots : List Node := []
  nd1 : NodeData := {}
  nd2 : NodeData := {}

def isKind (tab : Table) (k : Kind) (e : Node) : Bool := (ent tab e).kind == k

def bigger (per : List (Node × GClass × GState)) (e : Node) (c : GClass) : Bool :=
  per.any fun (x, d, st) => x == e && d == c && st.added.length > 1

/-- all per-entity graphs (`graph_all`, first loop) -/
def perEntityOf (fx : Bool) (tab : Table) (nd : NodeData) (regs : List Node) : List (Node × GClass × GState) :=
  regs.flatMap (entityGraphs fx tab nd)

/-- roots of the project-wide module graph (`usenodes`) -/
def useRootsOf (tab : Table) (regs : List Node) (per : List (Node × GClass × GState)) : List Node :=
  (regs.filter fun e => isKind tab .mod e || isKind tab .submod e)
    ++ (regs.filter (isKind tab .prog)).filter (bigger per · .uses)
    ++ (regs.filter (isKind tab .proc)).filter (bigger per · .uses)
    ++ (regs.filter (isKind tab .block)).filter (bigger per · .uses)

/-- Is the bound procedure `bp` of a registered type a root of the project-wide call graph?
    `fb = false`, the code as it is: unless it has exactly one binding that is not itself a bound
    procedure — a test that, unlike `is_simple_binding` of `get_call_nodes` (`isSimple`), does not ask
    whether the procedure behind the binding is shown.  `fb = true`: the code with
    fixes/C13-binding-to-hidden-root.diff (the same test as `isSimple`).  The harness decides at run
    time which of the two the working tree is. -/
def boundRoot (fb : Bool) (tab : Table) (bp : Node) : Bool :=
  !((ent tab bp).bindings.length == 1 &&
    (match (ent tab bp).bindings with
     | b :: _ => !(ent tab b).isBound && (!fb || (ent tab bp).deferred || (ent tab b).visibleF)
     | [] => false))

/-- roots of the project-wide call graph (`callnodes`) -/
def callRootsOf (fb : Bool) (tab : Table) (regs : List Node) (per : List (Node × GClass × GState)) : List Node :=
  let types := regs.filter (isKind tab .type)
  let procs := regs.filter (isKind tab .proc)
  let boundP := types.flatMap fun t => (ent tab t).boundprocs.filter (boundRoot fb tab)
  let internalP := procs.flatMap fun p => (ent tab p).internals.filter fun q => (ent tab q).visibleF
  dedup (procs ++ internalP ++ boundP) ++ (regs.filter (isKind tab .prog)).filter (bigger per · .calls)

/-- `graph_all` -/
def graphAll (fx fb : Bool) (tab : Table) (order : List Node) : AllGraphs :=
  let regs := registered tab order
  match create tab (createFuel tab + regs.length) regs {} with
  | none => { ok := false }
  | some nd1 =>
    let per := perEntityOf fx tab nd1 regs
    let useRoots := useRootsOf tab regs per
    let callRoots := callRootsOf fb tab regs per
    match create tab (createFuel tab + callRoots.length) callRoots nd1 with
    | none => { ok := false }
    | some nd2 =>
      { perEntity := per
        useGraph := graphOf fx tab nd1 .module useRoots
        typeGraph := graphOf fx tab nd1 .type (regs.filter (isKind tab .type))
        callGraph := graphOf fx tab nd2 .call callRoots
        fileGraph := graphOf fx tab nd2 .file (regs.filter (isKind tab .file))
        useRoots := useRoots, callRoots := callRoots, nd1 := nd1, nd2 := nd2 }

end Ford.Graph
