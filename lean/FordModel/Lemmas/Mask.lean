/-
  Lemmas about the literal masking model (FordModel/Mask.lean).
-/
import FordModel.Mask
import FordModel.MaskSpec
namespace Ford.Mask

/-! ## list slicing -/

theorem take_len_append (a b : Str) : (a ++ b).take a.length = a := by
  induction a with
  | nil => simp
  | cons c cs ih => simpa using ih

theorem drop_len_append (a b : Str) : (a ++ b).drop a.length = b := by
  induction a with
  | nil => simp
  | cons c cs ih => simpa using ih

theorem take_mid (p m R : Str) : (p ++ (m ++ R)).take (p.length + m.length) = p ++ m := by
  have := take_len_append (p ++ m) R
  simpa [List.append_assoc] using this

theorem drop_mid (p m R : Str) : (p ++ (m ++ R)).drop (p.length + m.length) = R := by
  have := drop_len_append (p ++ m) R
  simpa [List.append_assoc] using this

theorem take_drop_mid (p m R : Str) : ((p ++ (m ++ R)).drop p.length).take m.length = m := by
  rw [drop_len_append, take_len_append]

theorem splice_mid (p m R x : Str) : splice (p ++ (m ++ R)) p.length m.length x = p ++ (x ++ R) := by
  simp only [splice, take_len_append, drop_mid]

/-! ## QUOTES_RE -/

theorem scanBody_ne (q c : Char) (s : Str) (h : (c == q) = false) :
    scanBody q (c :: s) = (scanBody q s).map (· + 1) := by
  cases s with
  | nil => simp [scanBody, h]
  | cons d ds =>
    simp only [scanBody, h]
    cases scanBody q (d :: ds) <;> rfl

theorem scanBody_pair (q : Char) (s : Str) :
    scanBody q (q :: q :: s) = (scanBody q s).elim (some 1) (fun n => some (n + 2)) := by
  simp only [scanBody, beq_self_eq_true, if_true]
  cases scanBody q s <;> rfl

/-- the text is empty or begins with a character that is not a quote -/
def startsPlain : Str → Bool
  | [] => true
  | d :: _ => !isQuote d

theorem scanBody_close (q : Char) (R : Str) (hq : isQuote q = true) (h : startsPlain R = true) :
    scanBody q (q :: R) = some 1 := by
  cases R with
  | nil => simp [scanBody]
  | cons d ds =>
    have : (d == q) = false := by
      simp only [startsPlain, Bool.not_eq_true'] at h
      cases hd : d == q
      · rfl
      · simp only [beq_iff_eq] at hd; subst hd; simp [hq] at h
    simp [scanBody, this]

theorem scanBody_lit (q : Char) (content R : Str) (hq : isQuote q = true) (h : startsPlain R = true) :
    scanBody q (esc q content ++ q :: R) = some ((esc q content).length + 1) := by
  induction content with
  | nil => simpa [esc] using scanBody_close q R hq h
  | cons c cs ih =>
    by_cases hc : (c == q) = true
    · have : c = q := by simpa using hc
      subst this
      simp only [esc, beq_self_eq_true, if_true, List.cons_append]
      rw [scanBody_pair, ih]
      simp
    · have hc' : (c == q) = false := by simpa using hc
      have he : esc q (c :: cs) = c :: esc q cs := by simp [esc, hc']
      rw [he, List.cons_append, scanBody_ne q c _ hc', ih]
      simp

theorem matchAt_lit (l : Lit) (R : Str) (hq : isQuote l.q = true) (h : startsPlain R = true) :
    matchAt (l.text ++ R) = some l.text.length := by
  have hs := scanBody_lit l.q l.content R hq h
  have hq' : l.q = '\'' ∨ l.q = '"' := by simpa [isQuote] using hq
  rcases hq' with h1 | h1
  · simp only [Lit.text, List.cons_append, List.append_assoc, List.singleton_append, matchAt, h1] at hs ⊢
    simp [hs]
  · simp only [Lit.text, List.cons_append, List.append_assoc, List.singleton_append, matchAt, h1] at hs ⊢
    simp [hs]

theorem matchAt_plain (c : Char) (s : Str) (h : isQuote c = false) : matchAt (c :: s) = none := by
  have : ¬ c = '\'' ∧ ¬ c = '"' := by simpa [isQuote] using h
  simp [matchAt, this.1, this.2]

theorem search_cons_plain (c : Char) (s : Str) (h : isQuote c = false) :
    search (c :: s) = (search s).map (fun x => (x.1 + 1, x.2)) := by
  simp only [search, matchAt_plain c s h]
  cases search s with
  | none => rfl
  | some x => cases x; rfl

theorem search_noQuote (s : Str) (h : noQuote s = true) : search s = none := by
  induction s with
  | nil => rfl
  | cons c cs ih =>
    simp only [noQuote, List.all_cons, Bool.and_eq_true, Bool.not_eq_true'] at h
    rw [search_cons_plain c cs h.1, ih (by simpa [noQuote] using h.2)]
    rfl

theorem search_plain_append (p s : Str) (h : noQuote p = true) :
    search (p ++ s) = (search s).map (fun x => (x.1 + p.length, x.2)) := by
  induction p with
  | nil =>
    simp only [List.nil_append, List.length_nil, Nat.add_zero]
    cases search s with
    | none => rfl
    | some x => cases x; rfl
  | cons c cs ih =>
    simp only [noQuote, List.all_cons, Bool.and_eq_true, Bool.not_eq_true'] at h
    have ih := ih (by simpa [noQuote] using h.2)
    rw [List.cons_append, search_cons_plain c _ h.1, ih]
    cases search s with
    | none => rfl
    | some x => simp [Nat.add_assoc]

theorem search_seg (p : Str) (l : Lit) (R : Str) (hp : noQuote p = true) (hq : isQuote l.q = true)
    (h : startsPlain R = true) : search (p ++ (l.text ++ R)) = some (p.length, l.text.length) := by
  rw [search_plain_append p _ hp]
  have : search (l.text ++ R) = some (0, l.text.length) := by
    have hm := matchAt_lit l R hq h
    simp only [Lit.text, List.cons_append] at hm ⊢
    simp only [search, hm]
  simp [this]

/-! ## decimal numbers -/

theorem digitChar_isDigit (n : Nat) : isDigit (digitChar n) = true := by
  unfold digitChar; split <;> decide

theorem digitVal_digitChar : ∀ k, k < 10 → digitVal (digitChar k) = k := by decide

theorem natDigitsAux_acc (f : Nat) : ∀ (n : Nat) (acc : Str), natDigitsAux f n acc = natDigitsAux f n [] ++ acc := by
  induction f with
  | zero => intro n acc; simp [natDigitsAux]
  | succ f ih =>
    intro n acc
    by_cases h : n < 10
    · simp [natDigitsAux, h]
    · simp only [natDigitsAux, h, if_false]
      rw [ih (n / 10) (digitChar (n % 10) :: acc), ih (n / 10) [digitChar (n % 10)]]
      simp

theorem digitsVal_snoc (s : Str) (c : Char) : digitsVal (s ++ [c]) = digitsVal s * 10 + digitVal c := by
  simp [digitsVal, List.foldl_append]

theorem digitsVal_natDigitsAux (f : Nat) : ∀ n, n < f → digitsVal (natDigitsAux f n []) = n := by
  induction f with
  | zero => intro n h; omega
  | succ f ih =>
    intro n h
    by_cases h10 : n < 10
    · simp [natDigitsAux, h10, digitsVal, digitVal_digitChar n h10]
    · simp only [natDigitsAux, h10, if_false]
      rw [natDigitsAux_acc, digitsVal_snoc, ih (n / 10) (by omega), digitVal_digitChar _ (by omega)]
      omega

theorem digitsVal_natDigits (n : Nat) : digitsVal (natDigits n) = n :=
  digitsVal_natDigitsAux (n + 1) n (by omega)

theorem natDigitsAux_all (f : Nat) : ∀ (n : Nat) (acc : Str), (∀ c ∈ acc, isDigit c = true) →
    ∀ c ∈ natDigitsAux f n acc, isDigit c = true := by
  induction f with
  | zero => intro n acc h; simpa [natDigitsAux] using h
  | succ f ih =>
    intro n acc h
    by_cases h10 : n < 10
    · simp only [natDigitsAux, h10, if_true]
      intro c hc
      rcases List.mem_cons.mp hc with rfl | hc
      · exact digitChar_isDigit n
      · exact h c hc
    · simp only [natDigitsAux, h10, if_false]
      apply ih
      intro c hc
      rcases List.mem_cons.mp hc with rfl | hc
      · exact digitChar_isDigit _
      · exact h c hc

theorem natDigits_all (n : Nat) : ∀ c ∈ natDigits n, isDigit c = true :=
  natDigitsAux_all (n + 1) n [] (by simp)

theorem natDigits_ne_nil (n : Nat) : natDigits n ≠ [] := by
  unfold natDigits
  by_cases h10 : n < 10
  · simp [natDigitsAux, h10]
  · simp only [natDigitsAux, h10, if_false]
    rw [natDigitsAux_acc]
    simp

theorem digit_not_quote (c : Char) (h : isDigit c = true) : isQuote c = false := by
  cases hq : isQuote c
  · rfl
  · have : c = '\'' ∨ c = '"' := by simpa [isQuote] using hq
    rcases this with rfl | rfl <;> exact absurd h (by decide)

theorem pyInt_natDigits (n : Nat) : pyInt (natDigits n) = .ok n := by
  have h1 : (natDigits n).isEmpty = false := by
    cases h : natDigits n with
    | nil => exact absurd h (natDigits_ne_nil n)
    | cons _ _ => rfl
  have h2 : (natDigits n).all isDigit = true := by
    simpa [List.all_eq_true] using natDigits_all n
  simp [pyInt, h1, h2, digitsVal_natDigits]

theorem esc_noq (q : Char) (s : Str) (h : ∀ c ∈ s, (c == q) = false) : esc q s = s := by
  induction s with
  | nil => rfl
  | cons c cs ih =>
    have hc := h c (by simp)
    simp only [esc, hc]
    rw [ih (fun d hd => h d (by simp [hd]))]
    rfl

theorem ph_eq_text (k : Nat) : ph k = (Lit.mk '"' (natDigits k)).text := by
  have : esc '"' (natDigits k) = natDigits k := by
    apply esc_noq
    intro c hc
    have := digit_not_quote c (natDigits_all k c hc)
    have h2 : ¬ c = '\'' ∧ ¬ c = '"' := by simpa [isQuote] using this
    simpa using h2.2
  simp [ph, Lit.text, this]

theorem ph_inner (k : Nat) : ((ph k).drop 1).dropLast = natDigits k := by
  simp [ph]

/-- the placeholder is found where it stands -/
theorem search_ph (p : Str) (k : Nat) (R : Str) (hp : noQuote p = true) (h : startsPlain R = true) :
    search (p ++ (ph k ++ R)) = some (p.length, (ph k).length) := by
  rw [ph_eq_text]
  exact search_seg p _ R hp (by show isQuote '"' = true; decide) h

/-! ## the masking loop on a well-quoted statement -/

theorem noQuote_startsPlain (s : Str) (h : noQuote s = true) : startsPlain s = true := by
  cases s with
  | nil => rfl
  | cons c cs =>
    simp only [noQuote, List.all_cons, Bool.and_eq_true] at h
    simpa [startsPlain] using h.1

theorem startsPlain_append (p R : Str) (hp : noQuote p = true) (hne : p.isEmpty = false) :
    startsPlain (p ++ R) = true := by
  cases p with
  | nil => simp at hne
  | cons c cs =>
    simp only [noQuote, List.all_cons, Bool.and_eq_true] at hp
    simpa [startsPlain] using hp.1

theorem render_startsPlain (r : List (Str × Lit)) (tail : Str) (hw : wfSegs false r = true)
    (ht : noQuote tail = true) : startsPlain (render r tail) = true := by
  cases r with
  | nil => exact noQuote_startsPlain tail ht
  | cons x r' =>
    obtain ⟨p, l⟩ := x
    simp only [wfSegs, Bool.false_or, Bool.and_eq_true, Bool.not_eq_true'] at hw
    exact startsPlain_append p _ hw.1.1.1 hw.1.1.2

theorem segs_length_le (segs : List (Str × Lit)) (tail : Str) : segs.length ≤ (render segs tail).length := by
  induction segs with
  | nil => simp
  | cons x r ih =>
    obtain ⟨p, l⟩ := x
    simp only [render, Lit.text, List.length_cons, List.length_append]
    omega

theorem maskLoop_segs (segs : List (Str × Lit)) (tail : Str) (ht : noQuote tail = true) :
    ∀ (first : Bool) (fuel : Nat) (pre : Str) (strs : List Str),
      wfSegs first segs = true → segs.length < fuel →
      maskLoop fuel pre (render segs tail) strs
        = .ok (pre ++ renderMasked strs.length segs tail, strs ++ litTexts segs) := by
  induction segs with
  | nil =>
    intro first fuel pre strs _ hf
    cases fuel with
    | zero => simp at hf
    | succ f => simp [maskLoop, render, renderMasked, litTexts, search_noQuote tail ht]
  | cons x r ih =>
    intro first fuel pre strs hw hf
    obtain ⟨p, l⟩ := x
    cases fuel with
    | zero => simp at hf
    | succ f =>
      simp only [wfSegs, Bool.and_eq_true] at hw
      obtain ⟨⟨⟨hp, _⟩, hq⟩, hr⟩ := hw
      have hR := render_startsPlain r tail hr ht
      have h1 := search_seg p l (render r tail) hp hq hR
      have h2 := search_ph p strs.length (render r tail) hp hR
      have ih' := ih false f (pre ++ (p ++ ph strs.length)) (strs ++ [l.text]) hr (by simpa using hf)
      simp only [maskLoop, render, h1, splice_mid, h2, take_mid, drop_mid, take_drop_mid, ih']
      simp [renderMasked, litTexts]

theorem mask_segs (segs : List (Str × Lit)) (tail : Str) (hw : wfSegs true segs = true) (ht : noQuote tail = true) :
    mask (render segs tail) = .ok (renderMasked 0 segs tail, litTexts segs) := by
  have := maskLoop_segs segs tail ht true ((render segs tail).length + 1) [] [] hw
    (by have := segs_length_le segs tail; omega)
  simpa [mask] using this

/-! ## `QUOTES_RE` only sees where the quote characters are -/

/-- `scanBody` over the list of "is the delimiter" flags -/
def scanB : List Bool → Option Nat
  | [] => none
  | [b] => if b then some 1 else none
  | b :: d :: ds =>
    if b then
      if d then
        match scanB ds with
        | some n => some (n + 2)
        | none => some 1
      else some 1
    else
      match scanB (d :: ds) with
      | some n => some (n + 1)
      | none => none

theorem scanBody_eq_scanB (q : Char) (s : Str) : scanBody q s = scanB (s.map (· == q)) := by
  fun_induction scanBody q s <;> simp_all [scanB]

theorem beq_dq (c : Char) : (c == '"') = (qclass c == 1) := by
  by_cases h : c = '"'
  · subst h; decide
  · by_cases h2 : c = '\''
    · subst h2; decide
    · simp [qclass, h, h2]

theorem beq_sq (c : Char) : (c == '\'') = (qclass c == 2) := by
  by_cases h : c = '"'
  · subst h; decide
  · by_cases h2 : c = '\''
    · subst h2; decide
    · simp [qclass, h, h2]

theorem scanBody_congr (q : Char) (hq : isQuote q = true) (s t : Str) (h : s.map qclass = t.map qclass) :
    scanBody q s = scanBody q t := by
  have hq' : q = '\'' ∨ q = '"' := by simpa [isQuote] using hq
  rw [scanBody_eq_scanB, scanBody_eq_scanB]
  rcases hq' with rfl | rfl
  · have : ∀ u : Str, u.map (· == '\'') = (u.map qclass).map (· == 2) := by
      intro u; simp [List.map_map, Function.comp_def, beq_sq]
    rw [this s, this t, h]
  · have : ∀ u : Str, u.map (· == '"') = (u.map qclass).map (· == 1) := by
      intro u; simp [List.map_map, Function.comp_def, beq_dq]
    rw [this s, this t, h]

theorem matchAt_congr (s t : Str) (h : s.map qclass = t.map qclass) : matchAt s = matchAt t := by
  cases s with
  | nil => cases t with
    | nil => rfl
    | cons _ _ => simp at h
  | cons c cs => cases t with
    | nil => simp at h
    | cons d ds =>
      simp only [List.map_cons, List.cons.injEq] at h
      obtain ⟨hc, hr⟩ := h
      have e1 : (c == '"') = (d == '"') := by rw [beq_dq, beq_dq, hc]
      have e2 : (c == '\'') = (d == '\'') := by rw [beq_sq, beq_sq, hc]
      simp only [matchAt, e1, e2, scanBody_congr '"' (by decide) cs ds hr, scanBody_congr '\'' (by decide) cs ds hr]

theorem search_congr (s : Str) : ∀ t : Str, s.map qclass = t.map qclass → search s = search t := by
  induction s with
  | nil => intro t h; cases t with
    | nil => rfl
    | cons _ _ => simp at h
  | cons c cs ih => intro t h; cases t with
    | nil => simp at h
    | cons d ds =>
      have hm := matchAt_congr (c :: cs) (d :: ds) h
      simp only [List.map_cons, List.cons.injEq] at h
      simp only [search, hm, ih ds h.2]

theorem search_neutral (g : Str → Str) (hg : QuoteNeutral g) (p x R : Str) :
    search (p ++ (g x ++ R)) = search (p ++ (x ++ R)) := by
  apply search_congr
  simp [hg x]

/-! ## the restoring loop on a text with placeholders -/

theorem renderPh_startsPlain (r : List (Str × Nat)) (tail : Str) (n : Nat) (hw : wfItems n false r = true)
    (ht : noQuote tail = true) : startsPlain (renderPh r tail) = true := by
  cases r with
  | nil => exact noQuote_startsPlain tail ht
  | cons x r' =>
    obtain ⟨p, k⟩ := x
    simp only [wfItems, Bool.false_or, Bool.and_eq_true, Bool.not_eq_true'] at hw
    exact startsPlain_append p _ hw.1.1.1 hw.1.1.2

theorem items_length_le (items : List (Str × Nat)) (tail : Str) : items.length ≤ (renderPh items tail).length := by
  induction items with
  | nil => simp
  | cons x r ih =>
    obtain ⟨p, k⟩ := x
    simp only [renderPh, ph, List.length_cons, List.length_append]
    omega

theorem length_of_map_qclass (a b : Str) (h : a.map qclass = b.map qclass) : a.length = b.length := by
  simpa using congrArg List.length h

theorem restoreLoop_items (g : Str → Str) (hg : QuoteNeutral g) (lits : List Lit)
    (hl : ∀ l ∈ lits, isQuote l.q = true) (items : List (Str × Nat)) (tail : Str) (ht : noQuote tail = true) :
    ∀ (first : Bool) (fuel : Nat) (pre : Str),
      wfItems lits.length first items = true → items.length < fuel →
      restoreLoop g fuel pre (renderPh items tail) (lits.map Lit.text)
        = .ok (pre ++ renderBack g (lits.map Lit.text) items tail) := by
  induction items with
  | nil =>
    intro first fuel pre _ hf
    cases fuel with
    | zero => simp at hf
    | succ f => simp [restoreLoop, renderPh, renderBack, search_noQuote tail ht]
  | cons x r ih =>
    intro first fuel pre hw hf
    obtain ⟨p, k⟩ := x
    cases fuel with
    | zero => simp at hf
    | succ f =>
      simp only [wfItems, Bool.and_eq_true, decide_eq_true_eq] at hw
      obtain ⟨⟨⟨hp, _⟩, hk⟩, hr⟩ := hw
      have hR := renderPh_startsPlain r tail lits.length hr ht
      have h1 := search_ph p k (renderPh r tail) hp hR
      have hget : (lits.map Lit.text)[k]? = some (lits[k]).text := by simp [hk]
      have hgetD : (lits.map Lit.text).getD k [] = (lits[k]).text := by simp [List.getD, hget]
      have h2 : search (p ++ (g (lits[k]).text ++ renderPh r tail)) = some (p.length, (g (lits[k]).text).length) := by
        rw [search_neutral g hg, search_seg p (lits[k]) _ hp (hl _ (List.getElem_mem hk)) hR,
          length_of_map_qclass _ _ (hg (lits[k]).text)]
      have ih' := ih false f (pre ++ (p ++ g (lits[k]).text)) hr (by simpa using hf)
      simp only [restoreLoop, renderPh, h1, take_drop_mid, ph_inner, pyInt_natDigits, hget, splice_mid, h2,
        take_mid, drop_mid, ih']
      simp only [renderBack, hgetD, List.append_assoc]

theorem restore_items (g : Str → Str) (hg : QuoteNeutral g) (lits : List Lit)
    (hl : ∀ l ∈ lits, isQuote l.q = true) (items : List (Str × Nat)) (tail : Str)
    (hw : wfItems lits.length true items = true) (ht : noQuote tail = true) :
    restore g (renderPh items tail) (lits.map Lit.text) = .ok (renderBack g (lits.map Lit.text) items tail) := by
  have := restoreLoop_items g hg lits hl items tail ht true ((renderPh items tail).length + 1) [] hw
    (by have := items_length_le items tail; omega)
  simpa [restore] using this

/-! ## masking followed by restoring -/

theorem renderMasked_eq_renderPh (segs : List (Str × Lit)) (tail : Str) :
    ∀ k, renderMasked k segs tail = renderPh (itemsOf k segs) tail := by
  induction segs with
  | nil => intro k; rfl
  | cons x r ih => intro k; obtain ⟨p, l⟩ := x; simp [renderMasked, renderPh, itemsOf, ih]

theorem wfItems_itemsOf (segs : List (Str × Lit)) (n : Nat) :
    ∀ (first : Bool) (k : Nat), wfSegs first segs = true → k + segs.length ≤ n →
      wfItems n first (itemsOf k segs) = true := by
  induction segs with
  | nil => intro first k _ _; rfl
  | cons x r ih =>
    intro first k hw hk
    obtain ⟨p, l⟩ := x
    simp only [wfSegs, Bool.and_eq_true] at hw
    obtain ⟨⟨⟨hp, hf⟩, _⟩, hr⟩ := hw
    simp only [List.length_cons] at hk
    simp only [itemsOf, wfItems, hp, hf, Bool.and_self, Bool.true_and, Bool.and_eq_true, decide_eq_true_eq]
    exact ⟨by omega, ih false (k + 1) hr (by omega)⟩

theorem wfSegs_quotes (segs : List (Str × Lit)) : ∀ first, wfSegs first segs = true →
    ∀ l ∈ segs.map (·.2), isQuote l.q = true := by
  induction segs with
  | nil => intro _ _ l hl; simp at hl
  | cons x r ih =>
    intro first hw l hl
    obtain ⟨p, l0⟩ := x
    simp only [wfSegs, Bool.and_eq_true] at hw
    simp only [List.map_cons, List.mem_cons] at hl
    rcases hl with rfl | hl
    · exact hw.1.2
    · exact ih false hw.2 l hl

theorem renderBack_itemsOf (g : Str → Str) (segs : List (Str × Lit)) (tail : Str) :
    ∀ (front : List Lit),
      renderBack g ((front ++ segs.map (·.2)).map Lit.text) (itemsOf front.length segs) tail = renderG g segs tail := by
  induction segs with
  | nil => intro front; rfl
  | cons x r ih =>
    intro front
    obtain ⟨p, l⟩ := x
    have h := ih (front ++ [l])
    simp only [List.length_append, List.length_cons, List.length_nil, Nat.zero_add, List.append_assoc,
      List.cons_append, List.nil_append] at h
    simp only [itemsOf, renderBack, renderG, List.map_cons, h]
    simp [List.getD]

theorem mask_then_restore (g : Str → Str) (hg : QuoteNeutral g) (segs : List (Str × Lit)) (tail : Str)
    (hw : wfSegs true segs = true) (ht : noQuote tail = true) :
    restore g (renderMasked 0 segs tail) (litTexts segs) = .ok (renderG g segs tail) := by
  have h1 := restore_items g hg (segs.map (·.2)) (wfSegs_quotes segs true hw) (itemsOf 0 segs) tail
    (wfItems_itemsOf segs _ true 0 hw (by simp)) ht
  have h2 := renderBack_itemsOf g segs tail []
  simp only [List.nil_append, List.length_nil] at h2
  rw [renderMasked_eq_renderPh]
  have e : litTexts segs = (segs.map (·.2)).map Lit.text := by simp [litTexts, List.map_map, Function.comp_def]
  rw [e, h1, h2]

theorem renderG_id (segs : List (Str × Lit)) (tail : Str) : renderG id segs tail = render segs tail := by
  induction segs with
  | nil => rfl
  | cons x r ih => obtain ⟨p, l⟩ := x; simp [renderG, render, ih]

theorem id_neutral : QuoteNeutral id := fun _ => rfl

theorem nbspAux_qclass (s : Str) : ∀ b, (nbspAux b s).map qclass = s.map qclass := by
  induction s with
  | nil => intro b; rfl
  | cons c cs ih =>
    intro b
    cases cs with
    | nil =>
      simp only [nbspAux, List.map_cons, List.map_nil, List.cons.injEq, and_true]
      split
      · rename_i h
        have : c = ' ' := by simp only [Bool.and_eq_true, beq_iff_eq] at h; exact h.1
        subst this; decide
      · rfl
    | cons d ds =>
      have := ih (c == ' ')
      simp only [nbspAux, List.map_cons, List.cons.injEq] at this ⊢
      refine ⟨?_, this⟩
      split
      · rename_i h
        have : c = ' ' := by simp only [Bool.and_eq_true, beq_iff_eq] at h; exact h.1
        subst this; decide
      · rfl

theorem nbsp_neutral : QuoteNeutral nbsp := fun s => nbspAux_qclass s false

end Ford.Mask
