/-
  Specification side of C06: what the Fortran standard makes accessible by USE
  association (F2018 14.2.2, 8.5.2, 8.6.1), written as inductive relations over
  the abstract project, without reference to FORD's tables or iteration order.
-/
import FordModel.Use
namespace Ford.Use

/-- remote name of an only/rename item -/
def UItem.remote : UItem → Str
  | .plain n => n
  | .ren _ r => r

/-- `Admits u r l`: through USE statement `u`, the entity the module exports as
    `r` is accessible under the local name `l`.
    * with ONLY: exactly the listed names / renames;
    * without ONLY: every public entity, under the local name of each rename
      that mentions it, and under its own name only when no rename mentions it. -/
def Admits (u : UseA) (r l : Str) : Prop :=
  UItem.ren l r ∈ u.items ∨
    (l = r ∧ (if u.only then UItem.plain r ∈ u.items else ∀ l', UItem.ren l' r ∉ u.items))

/-- The standard's accessibility of a declared entity (F2018 8.5.2, 8.6.1): the PUBLIC or PRIVATE
    attribute it is given (in its declaration or by an access statement, in whatever order),
    otherwise the default accessibility of the module.  PROTECTED (8.5.15) restricts where the
    entity may be *defined* and says nothing about whether it is accessible. -/
def declAccessible (m : Scope) (d : Decl) : Bool :=
  if Perm.pub ∈ d.accs then true else if Perm.priv ∈ d.accs then false else m.defPub

/-- `Exports g k m l e`: module `m` of project `g` makes entity `e` (of kind `k`)
    accessible to its users under the identifier `l`. -/
inductive Exports (g : List Scope) (k : Nat) : Scope → Str → Ent → Prop
  /-- a declaration whose accessibility is public -/
  | decl {m : Scope} {d : Decl} : m ∈ g → m.isMod = true → d ∈ m.decls → d.kind = k →
      declAccessible m d = true → Exports g k m d.name (m.name, d.name)
  /-- a use-associated entity is re-exported unless the identifier is private:
      declared private by a statement, or default-private and not declared public -/
  | reexp {m n : Scope} {u : UseA} {r l : Str} {e : Ent} : m ∈ g → m.isMod = true → u ∈ m.uses →
      n ∈ g → n.isMod = true → n.name = u.mod → Exports g k n r e → Admits u r l →
      l ∉ m.privNames → (m.defPub = true ∨ l ∈ m.pubNames) → Exports g k m l e

/-- `Imports g k s l e`: scope `s` obtains `e` under `l` from one of its USE statements. -/
inductive Imports (g : List Scope) (k : Nat) : Scope → Str → Ent → Prop
  | mk {s n : Scope} {u : UseA} {r l : Str} {e : Ent} : s ∈ g → u ∈ s.uses →
      n ∈ g → n.isMod = true → n.name = u.mod → Exports g k n r e → Admits u r l → Imports g k s l e

/-- `Sees g k s l e`: the identifier `l` denotes `e` in scope `s`. -/
inductive Sees (g : List Scope) (k : Nat) : Scope → Str → Ent → Prop
  | decl {s : Scope} {d : Decl} : s ∈ g → d ∈ s.decls → d.kind = k → Sees g k s d.name (s.name, d.name)
  | imp {s : Scope} {l : Str} {e : Ent} : Imports g k s l e → Sees g k s l e

/-! ### Host association (F2018 19.5.1.4) for contained procedures -/

/-- `ImportsU g k us l e`: the USE statements `us` (of some scope) make `e` accessible under `l` -/
inductive ImportsU (g : List Scope) (k : Nat) (us : List UseA) : Str → Ent → Prop
  | mk {n : Scope} {u : UseA} {r l : Str} {e : Ent} : u ∈ us → n ∈ g → n.isMod = true →
      n.name = u.mod → Exports g k n r e → Admits u r l → ImportsU g k us l e

/-- `SeesIn g k hostSees p l e`: in the contained procedure `p`, whose host sees `hostSees`, the
    identifier `l` denotes the kind-`k` entity `e`.  A host entity is accessible by host
    association only if its identifier is neither declared in `p` nor obtained by `p` through
    USE - as an entity of *any* kind: a use-associated identifier hides the host's. -/
inductive SeesIn (g : List Scope) (k : Nat) (hostSees : Str → Ent → Prop) (p : Scope) : Str → Ent → Prop
  | decl {d : Decl} : d ∈ p.decls → d.kind = k → SeesIn g k hostSees p d.name (p.name, d.name)
  | imp {l : Str} {e : Ent} : ImportsU g k p.uses l e → SeesIn g k hostSees p l e
  | host {l : Str} {e : Ent} : hostSees l e → (∀ d ∈ p.decls, d.name ≠ l) →
      (∀ k' e', ¬ ImportsU g k' p.uses l e') → SeesIn g k hostSees p l e

/-- FORD keeps one table per kind, so an identifier of the host's kind-`k` table can only be hidden
    by a kind-`k` entity of the procedure: the class of programs in which a procedure hides a host
    identifier by an entity of another kind is excluded from the exactness theorem. -/
def SameKindHiding (g : List Scope) (k : Nat) (hostAll : Table) (p : Scope) : Prop :=
  ∀ l, (aget hostAll l).isSome = true →
    (∀ d ∈ p.decls, d.name = l → d.kind = k) ∧
    (∀ k' e', ImportsU g k' p.uses l e' → ∃ e'', ImportsU g k p.uses l e'')

/-! ### Decidable side conditions used by the property theorems -/

/-- scope names are unique in the project -/
def UniqueNames (g : List Scope) : Prop := ∀ m ∈ g, ∀ m' ∈ g, m.name = m'.name → m = m'

/-- defect class `C06-rename-without-only` is absent: a USE without ONLY has no rename list -/
def NoBareRename (g : List Scope) : Prop := ∀ m ∈ g, ∀ u ∈ m.uses, u.only = false → u.items = []

/-- defect class `C06-only-remote-listed-twice` is absent -/
def NoRepeatedRemote (g : List Scope) : Prop :=
  ∀ m ∈ g, ∀ u ∈ m.uses, u.only = true → (u.items.map UItem.remote).Nodup

/-- defect class `C06-private-imported-reexported` is absent: a `private ::` statement about a
    name the module does not declare occurs only where FORD's filter agrees with it
    (default-private module, name not also declared public) -/
def NoEffectivePrivate (g : List Scope) : Prop :=
  ∀ m ∈ g, ∀ l ∈ m.privNames, m.defPub = false ∧ l ∉ m.pubNames

/-- Fortran's constraint that an entity is not given both PUBLIC and PRIVATE -/
def LegalAccess (g : List Scope) : Prop :=
  ∀ m ∈ g, ∀ d ∈ m.decls, ¬ (Perm.pub ∈ d.accs ∧ Perm.priv ∈ d.accs)

/-- defect class `C06-protected-private-exported`: PROTECTED is the access keyword FORD meets last
    for an entity whose accessibility is private (`integer, protected :: x` under a bare `private`
    statement, `integer, private, protected :: x`): the one permission slot then reads
    "protected", which `_cleanup` exports -/
def ProtectedOverPrivate (m : Scope) (d : Decl) : Prop :=
  d.accs.getLast? = some Perm.prot ∧ declAccessible m d = false

instance (m : Scope) (d : Decl) : Decidable (ProtectedOverPrivate m d) := by
  unfold ProtectedOverPrivate; infer_instance

/-- the defect class is absent from the project -/
def NoProtectedOverPrivate (g : List Scope) : Prop :=
  ∀ m ∈ g, ∀ d ∈ m.decls, ¬ ProtectedOverPrivate m d

/-- Fortran's rule that a use-associated identifier is not redeclared locally -/
def NoShadow (g : List Scope) (k : Nat) : Prop :=
  ∀ m ∈ g, ∀ l e, Imports g k m l e → ∀ d ∈ m.decls, d.name ≠ l

/-- every scope once, after the project modules it uses (what `toposort_flatten` +
    the appended programs give) -/
def usesDone (g : List Scope) (done : List Str) (m : Scope) : Bool :=
  m.uses.all (fun u => match findMod g u.mod with
    | none => true
    | some n => done.contains n.name)

def isTopo (g : List Scope) : List Str → List Str → Bool
  | _, [] => true
  | done, nm :: rest =>
    (match findScope g nm with
      | none => true
      | some m => usesDone g done m && !done.contains nm) && isTopo g (nm :: done) rest

/-- the same, counting the USE statements of contained procedures as dependencies of their root
    (what `get_deps`' recursion is for) -/
def nestedDone (g : List Scope) (ns : List Nested) (done : List Str) (nm : Str) : Bool :=
  ns.all (fun x => x.root != nm || usesDone g done x.scope)

def isTopoN (g : List Scope) (ns : List Nested) : List Str → List Str → Bool
  | _, [] => true
  | done, nm :: rest =>
    (match findScope g nm with
      | none => true
      | some m => usesDone g done m && !done.contains nm && nestedDone g ns done nm) && isTopoN g ns (nm :: done) rest

/-- a contained procedure is listed after its host (`seen`: the root and the procedures so far) -/
def hostsFirst : List Str → List Nested → Prop
  | _, [] => True
  | seen, x :: xs => x.host ∈ seen ∧ hostsFirst (x.scope.name :: seen) xs

def hasKey {α : Type} (t : AList α) (l : Str) : Prop := (aget t l).isSome = true

end Ford.Use
