/-
  Lemmas about the naming model (C10).  Core Lean only.
-/
import FordModel.Names
namespace Ford.Names
open Ford

/-! ### association lists -/

@[simp] theorem assoc_nil {α β : Type} [DecidableEq α] (k : α) : assoc k ([] : List (α × β)) = none := rfl

@[simp] theorem assoc_cons {α β : Type} [DecidableEq α] (k a : α) (b : β) (t : List (α × β)) :
    assoc k ((a, b) :: t) = if k = a then some b else assoc k t := rfl

/-! ### splitting at a separator character -/

theorem split_first_sep (c : Char) : ∀ (a b x y : Str), c ∉ a → c ∉ b →
    a ++ c :: x = b ++ c :: y → a = b ∧ x = y := by
  intro a
  induction a with
  | nil =>
    intro b x y _ hb h
    cases b with
    | nil => simpa using h
    | cons b0 bs =>
      simp at h
      simp [h.1] at hb
  | cons a0 as ih =>
    intro b x y ha hb h
    cases b with
    | nil =>
      simp at h
      simp [h.1] at ha
    | cons b0 bs =>
      simp at h ha hb
      obtain ⟨h0, h1⟩ := h
      have := ih bs x y ha.2 hb.2 h1
      simp [h0, this.1, this.2]

theorem sep_append_ne (c : Char) (a b x : Str) (hb : c ∉ b) : a ++ c :: x ≠ b := by
  intro h
  apply hb
  rw [← h]
  simp

/-! ### `str(n)` is injective -/

def decStep (a : Nat) (c : Char) : Nat := 10 * a + (c.toNat - 48)

theorem digitChar_val : ∀ n, n < 10 → (digitChar n).toNat - 48 = n := by decide

theorem decAux_val : ∀ (fuel n : Nat) (acc : Str), n < fuel →
    (decAux fuel n acc).foldl decStep 0 = acc.foldl decStep n := by
  intro fuel
  induction fuel with
  | zero => intro n acc h; omega
  | succ f ih =>
    intro n acc h
    unfold decAux
    split
    · rename_i h10
      simp [List.foldl, decStep, digitChar_val n h10]
    · rename_i h10
      rw [ih (n / 10) _ (by omega)]
      have : n % 10 < 10 := by omega
      simp only [List.foldl, decStep, digitChar_val _ this]
      congr 1
      omega

theorem decimal_inj (a b : Nat) (h : decimal a = decimal b) : a = b := by
  have ha := decAux_val (a + 1) a [] (by omega)
  have hb := decAux_val (b + 1) b [] (by omega)
  unfold decimal at h
  rw [h] at ha
  simp [List.foldl] at ha hb
  omega

/-! ### stems -/

theorem stemOf_inj (T : Cfg) (n1 n2 : Str) (k1 k2 : Nat)
    (h1 : T.sep ∉ baseOf T n1) (h2 : T.sep ∉ baseOf T n2) (hk1 : 1 ≤ k1) (hk2 : 1 ≤ k2)
    (h : stemOf T n1 k1 = stemOf T n2 k2) : baseOf T n1 = baseOf T n2 ∧ k1 = k2 := by
  unfold stemOf at h
  by_cases c1 : k1 > 1 <;> by_cases c2 : k2 > 1 <;> simp [c1, c2] at h
  · obtain ⟨hb, hd⟩ := split_first_sep T.sep _ _ _ _ h1 h2 h
    exact ⟨hb, decimal_inj _ _ hd⟩
  · exact absurd h (sep_append_ne _ _ _ _ h2)
  · exact absurd h.symm (sep_append_ne _ _ _ _ h1)
  · exact ⟨h, by omega⟩

/-! ### the selector: ghost log and invariant -/

/-- ghost record of one registered entity: which (dir, name) it was registered
    with and which use number it got -/
structure Ghost where
  id : Nat
  dir : Option Str
  name : Str
  k : Nat

def ghostItem (T : Cfg) (g : Ghost) : Nat × Str := (g.id, stemOf T g.name g.k)

structure Inv (T : Cfg) (v : Variant) (ns : NS) (G : List Ghost) : Prop where
  items : ns.items = G.map (ghostItem T)
  bound : ∀ g ∈ G, 1 ≤ g.k ∧ g.k ≤ cnt ns (g.dir, keyOf v g.name)
  idu : ∀ a ∈ G, ∀ b ∈ G, a.id = b.id → a = b
  slot : ∀ a ∈ G, ∀ b ∈ G, a.dir = b.dir → keyOf v a.name = keyOf v b.name → a.k = b.k → a.id = b.id

theorem inv_empty (T : Cfg) (v : Variant) : Inv T v {} [] :=
  ⟨rfl, by simp, by simp, by simp⟩

theorem assoc_none_map (T : Cfg) (i : Nat) : ∀ (G : List Ghost),
    assoc i (G.map (ghostItem T)) = none → ∀ g ∈ G, g.id ≠ i := by
  intro G
  induction G with
  | nil => simp
  | cons g0 G ih =>
    intro h g hg
    simp [ghostItem] at h
    by_cases e : i = g0.id
    · simp [e] at h
    · simp [e] at h
      rcases List.mem_cons.1 hg with rfl | hg
      · exact fun x => e x.symm
      · exact ih (by simpa [ghostItem] using h) g hg

theorem assoc_some_map (T : Cfg) (i : Nat) (s : Str) : ∀ (G : List Ghost),
    assoc i (G.map (ghostItem T)) = some s → ∃ g ∈ G, g.id = i ∧ s = stemOf T g.name g.k := by
  intro G
  induction G with
  | nil => simp
  | cons g0 G ih =>
    intro h
    simp [ghostItem] at h
    by_cases e : i = g0.id
    · simp [e] at h
      exact ⟨g0, by simp, e.symm, h.symm⟩
    · simp [e] at h
      obtain ⟨g, hg, h1, h2⟩ := ih (by simpa [ghostItem] using h)
      exact ⟨g, by simp [hg], h1, h2⟩

theorem cnt_cons (ns : NS) (k k' : Option Str × Str) (n : Nat) (items : List (Nat × Str)) :
    cnt { items := items, counts := (k, n) :: ns.counts } k' = if k' = k then n else cnt ns k' := by
  unfold cnt
  by_cases e : k' = k <;> simp [e]

theorem inv_step (T : Cfg) (v : Variant) (ns : NS) (G : List Ghost) (h : Inv T v ns G) (r : Req) :
    ∃ G', Inv T v (getName T v ns r).2 G' ∧
      ∀ g ∈ G', g ∈ G ∨ (g.id = r.id ∧ g.dir = r.dir ∧ g.name = r.name) := by
  unfold getName
  cases hlook : assoc r.id ns.items with
  | some s => exact ⟨G, by simpa using h, fun g hg => Or.inl hg⟩
  | none =>
    simp only
    have hfresh : ∀ g ∈ G, g.id ≠ r.id := by
      apply assoc_none_map T
      rw [← h.items]; exact hlook
    refine ⟨⟨r.id, r.dir, r.name, cnt ns (r.dir, keyOf v r.name) + 1⟩ :: G, ⟨?_, ?_, ?_, ?_⟩, ?_⟩
    · simp [ghostItem, h.items]
    · intro g hg
      rw [cnt_cons]
      rcases List.mem_cons.1 hg with rfl | hg
      · simp
      · have := h.bound g hg
        by_cases e : (g.dir, keyOf v g.name) = (r.dir, keyOf v r.name)
        · simp only [e, if_true]
          rw [e] at this
          omega
        · simp only [e, if_false]
          exact this
    · intro a ha b hb hab
      rcases List.mem_cons.1 ha with rfl | ha <;> rcases List.mem_cons.1 hb with rfl | hb
      · rfl
      · exact absurd hab.symm (hfresh b hb)
      · exact absurd hab (hfresh a ha)
      · exact h.idu a ha b hb hab
    · intro a ha b hb hd hkey hk
      rcases List.mem_cons.1 ha with rfl | ha <;> rcases List.mem_cons.1 hb with rfl | hb
      · rfl
      · have := (h.bound b hb).2
        simp only at hd hkey hk
        rw [← hd, ← hkey] at this
        omega
      · have := (h.bound a ha).2
        simp only at hd hkey hk
        rw [hd, hkey] at this
        omega
      · exact h.slot a ha b hb hd hkey hk
    · intro g hg
      rcases List.mem_cons.1 hg with rfl | hg
      · exact Or.inr ⟨rfl, rfl, rfl⟩
      · exact Or.inl hg

theorem inv_final (T : Cfg) (v : Variant) : ∀ (rs : List Req) (ns : NS) (G : List Ghost),
    Inv T v ns G → ∃ G', Inv T v (final T v ns rs) G' ∧
      ∀ g ∈ G', g ∈ G ∨ ∃ r ∈ rs, g.id = r.id ∧ g.dir = r.dir ∧ g.name = r.name := by
  intro rs
  induction rs with
  | nil => intro ns G h; exact ⟨G, h, fun g hg => Or.inl hg⟩
  | cons r rs ih =>
    intro ns G h
    obtain ⟨G1, h1, o1⟩ := inv_step T v ns G h r
    obtain ⟨G2, h2, o2⟩ := ih _ G1 h1
    refine ⟨G2, h2, ?_⟩
    intro g hg
    rcases o2 g hg with hg1 | ⟨r', hr', e⟩
    · rcases o1 g hg1 with hg0 | e
      · exact Or.inl hg0
      · exact Or.inr ⟨r, by simp, e⟩
    · exact Or.inr ⟨r', by simp [hr'], e⟩

theorem getName_items_self (T : Cfg) (v : Variant) (ns : NS) (r : Req) :
    assoc r.id (getName T v ns r).2.items = some (getName T v ns r).1 := by
  unfold getName
  cases hlook : assoc r.id ns.items with
  | some s => simpa using hlook
  | none => simp

theorem getName_items_mono (T : Cfg) (v : Variant) (ns : NS) (r : Req) (i : Nat) (s : Str)
    (h : assoc i ns.items = some s) : assoc i (getName T v ns r).2.items = some s := by
  unfold getName
  cases hlook : assoc r.id ns.items with
  | some s' => simpa using h
  | none =>
    simp only [assoc_cons]
    by_cases e : i = r.id
    · rw [e, hlook] at h; cases h
    · simp [e, h]

theorem final_items_mono (T : Cfg) (v : Variant) : ∀ (rs : List Req) (ns : NS) (i : Nat) (s : Str),
    assoc i ns.items = some s → assoc i (final T v ns rs).items = some s := by
  intro rs
  induction rs with
  | nil => intro ns i s h; exact h
  | cons r rs ih =>
    intro ns i s h
    exact ih _ i s (getName_items_mono T v ns r i s h)

theorem trace_in_final (T : Cfg) (v : Variant) : ∀ (rs : List Req) (ns : NS) (p : Req × Str),
    p ∈ trace T v ns rs → assoc p.1.id (final T v ns rs).items = some p.2 := by
  intro rs
  induction rs with
  | nil => intro ns p h; simp [trace] at h
  | cons r rs ih =>
    intro ns p h
    simp only [trace, List.mem_cons] at h
    rcases h with rfl | h
    · exact final_items_mono T v rs _ _ _ (getName_items_self T v ns r)
    · exact ih _ p h

theorem trace_fst_mem (T : Cfg) (v : Variant) : ∀ (rs : List Req) (ns : NS) (p : Req × Str),
    p ∈ trace T v ns rs → p.1 ∈ rs := by
  intro rs
  induction rs with
  | nil => intro ns p h; simp [trace] at h
  | cons r rs ih =>
    intro ns p h
    simp only [trace, List.mem_cons] at h
    rcases h with rfl | h
    · simp
    · exact List.mem_cons_of_mem _ (ih _ p h)

theorem trace_length (T : Cfg) (v : Variant) : ∀ (rs : List Req) (ns : NS),
    (trace T v ns rs).length = rs.length := by
  intro rs
  induction rs with
  | nil => intro ns; rfl
  | cons r rs ih => intro ns; simp [trace, ih]

/-- every entity of a request sequence keeps one (dir, name) -/
def Consistent (rs : List Req) : Prop :=
  ∀ a ∈ rs, ∀ b ∈ rs, a.id = b.id → a.dir = b.dir ∧ a.name = b.name

/-- The core: whatever the counting key, if equal bases imply equal keys and the
    separator does not occur in bases, then different entities of one directory
    get different stems. -/
theorem stems_distinct_core (T : Cfg) (v : Variant) (rs : List Req)
    (hc : Consistent rs)
    (hsep : ∀ r ∈ rs, T.sep ∉ baseOf T r.name)
    (hbase : ∀ a ∈ rs, ∀ b ∈ rs, baseOf T a.name = baseOf T b.name →
      keyOf v a.name = keyOf v b.name) :
    ∀ p ∈ trace T v {} rs, ∀ q ∈ trace T v {} rs,
      p.1.id ≠ q.1.id → p.1.dir = q.1.dir → p.2 ≠ q.2 := by
  intro p hp q hq hid hdir heq
  obtain ⟨G, hG, orig⟩ := inv_final T v rs {} [] (inv_empty T v)
  have hpf := trace_in_final T v rs {} p hp
  have hqf := trace_in_final T v rs {} q hq
  rw [hG.items] at hpf hqf
  obtain ⟨g1, hg1, e1, s1⟩ := assoc_some_map T _ _ G hpf
  obtain ⟨g2, hg2, e2, s2⟩ := assoc_some_map T _ _ G hqf
  have hpm := trace_fst_mem T v rs {} p hp
  have hqm := trace_fst_mem T v rs {} q hq
  -- the ghost entries carry the dir and name of the requests
  have o1 : g1.dir = p.1.dir ∧ g1.name = p.1.name := by
    rcases orig g1 hg1 with h | ⟨r, hr, a, b, c⟩
    · simp at h
    · have := hc r hr p.1 hpm (by rw [← a, e1])
      exact ⟨by rw [b, this.1], by rw [c, this.2]⟩
  have o2 : g2.dir = q.1.dir ∧ g2.name = q.1.name := by
    rcases orig g2 hg2 with h | ⟨r, hr, a, b, c⟩
    · simp at h
    · have := hc r hr q.1 hqm (by rw [← a, e2])
      exact ⟨by rw [b, this.1], by rw [c, this.2]⟩
  have hst : stemOf T g1.name g1.k = stemOf T g2.name g2.k := by rw [← s1, ← s2, heq]
  have inj := stemOf_inj T g1.name g2.name g1.k g2.k
    (by rw [o1.2]; exact hsep _ hpm) (by rw [o2.2]; exact hsep _ hqm)
    (hG.bound g1 hg1).1 (hG.bound g2 hg2).1 hst
  have hkey : keyOf v g1.name = keyOf v g2.name := by
    rw [o1.2, o2.2]
    apply hbase _ hpm _ hqm
    rw [← o1.2, ← o2.2]; exact inj.1
  have := hG.slot g1 hg1 g2 hg2 (by rw [o1.1, o2.1, hdir]) hkey inj.2
  exact hid (by rw [← e1, ← e2, this])

/-- A registered entity keeps its stem: asking again returns the same answer. -/
theorem trace_stable (T : Cfg) (v : Variant) (rs : List Req) :
    ∀ p ∈ trace T v {} rs, ∀ q ∈ trace T v {} rs, p.1.id = q.1.id → p.2 = q.2 := by
  intro p hp q hq hid
  have hpf := trace_in_final T v rs {} p hp
  have hqf := trace_in_final T v rs {} q hq
  rw [hid, hqf] at hpf
  exact (Option.some.inj hpf).symm

end Ford.Names

namespace Ford.Names
open Ford

/-! ### the two variants agree when no two names differ only in letter case -/

/-- no two names of the universe differ only in letter case -/
def CaseOK (U : List Str) : Prop := ∀ a ∈ U, ∀ b ∈ U, lower a = lower b → a = b

structure Sim (U : List Str) (n1 n2 : NS) : Prop where
  items : n1.items = n2.items
  counts : ∀ d, ∀ n ∈ U, cnt n1 (d, n) = cnt n2 (d, lower n)

theorem sim_step (T : Cfg) (U : List Str) (hU : CaseOK U) (n1 n2 : NS) (h : Sim U n1 n2)
    (r : Req) (hr : r.name ∈ U) :
    (getName T .asIs n1 r).1 = (getName T .repaired n2 r).1 ∧
      Sim U (getName T .asIs n1 r).2 (getName T .repaired n2 r).2 := by
  unfold getName
  rw [h.items]
  cases hlook : assoc r.id n2.items with
  | some s => exact ⟨rfl, h⟩
  | none =>
    simp only [keyOf]
    have hnum : cnt n1 (r.dir, r.name) = cnt n2 (r.dir, lower r.name) := h.counts r.dir r.name hr
    refine ⟨by rw [hnum], ⟨by simp [hnum], ?_⟩⟩
    intro d n hn
    rw [cnt_cons, cnt_cons, hnum]
    by_cases e : (d, n) = (r.dir, r.name)
    · have e' : (d, lower n) = (r.dir, lower r.name) := by
        cases e; rfl
      simp [e, e']
    · have e' : ¬ (d, lower n) = (r.dir, lower r.name) := by
        intro c
        apply e
        have hd : d = r.dir := congrArg Prod.fst c
        have hl : lower n = lower r.name := congrArg Prod.snd c
        rw [hd, hU n hn r.name hr hl]
      simp only [e, e', if_false]
      exact h.counts d n hn

theorem sim_trace (T : Cfg) (U : List Str) (hU : CaseOK U) : ∀ (rs : List Req) (n1 n2 : NS),
    Sim U n1 n2 → (∀ r ∈ rs, r.name ∈ U) → trace T .asIs n1 rs = trace T .repaired n2 rs := by
  intro rs
  induction rs with
  | nil => intro n1 n2 _ _; rfl
  | cons r rs ih =>
    intro n1 n2 h hr
    obtain ⟨h1, h2⟩ := sim_step T U hU n1 n2 h r (hr r (by simp))
    simp only [trace]
    rw [h1, ih _ _ h2 (fun x hx => hr x (List.mem_cons_of_mem _ hx))]

/-- every answer is a stem `stemOf name k` of the requested entity's registered name -/
theorem trace_stem_form (T : Cfg) (v : Variant) (rs : List Req) :
    ∀ p ∈ trace T v {} rs, ∃ n k, p.2 = stemOf T n k := by
  intro p hp
  obtain ⟨G, hG, _⟩ := inv_final T v rs {} [] (inv_empty T v)
  have hpf := trace_in_final T v rs {} p hp
  rw [hG.items] at hpf
  obtain ⟨g, _, _, s⟩ := assoc_some_map T _ _ G hpf
  exact ⟨g.name, g.k, s⟩

end Ford.Names
