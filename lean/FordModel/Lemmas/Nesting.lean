import FordModel.Nesting
namespace Ford

/-- the statement loop on statements that are all followed by another one -/
def runMid (cfg : Cfg) : MS → List Stmt → Except Raise MS
  | st, [] => .ok st
  | st, s :: rest =>
    match step cfg st s false with
    | .error e => .error e
    | .ok st' => runMid cfg st' rest

theorem run_append_cons (cfg : Cfg) (st : MS) (pre : List Stmt) (s : Stmt) (suf : List Stmt) :
    run cfg st (pre ++ s :: suf)
      = match runMid cfg st pre with
        | .error e => .error e
        | .ok st' => run cfg st' (s :: suf) := by
  induction pre generalizing st with
  | nil => simp [runMid]
  | cons p ps ih =>
    simp only [List.cons_append, run, runMid]
    have : (ps ++ s :: suf).isEmpty = false := by simp
    rw [this]
    cases step cfg st p false with
    | error e => rfl
    | ok st' => exact ih st'

theorem report_ok (cfg : Cfg) (r : Rep) (st st' : MS) (h : report cfg r st = .ok st') :
    st'.stack = st.stack ∧ (st'.reps = st.reps ∨ st'.reps = st.reps ++ [r]) := by
  unfold report at h
  split at h
  · cases h; simp
  · split at h
    · cases h; simp
    · cases h

theorem report_ok_nodbg (cfg : Cfg) (hd : cfg.dbg = false) (r : Rep) (st st' : MS)
    (h : report cfg r st = .ok st') : st' = st := by
  unfold report at h
  simp [hd] at h
  split at h
  · cases h; rfl
  · cases h

theorem report_dbg (cfg : Cfg) (hd : cfg.dbg = true) (r : Rep) (st : MS) :
    report cfg r st = .ok { st with reps := st.reps ++ [r] } := by
  simp [report, hd]

theorem openChild_ok (st : MS) (last : Bool) (c : Frame) (st' : MS) (h : openChild st last c = .ok st') :
    st'.stack = c :: st.stack ∧ st'.reps = st.reps := by
  unfold openChild at h
  split at h
  · cases h
  · split at h
    · cases h
    · cases h; simp

theorem attach_ok (cfg : Cfg) (c p : Frame) (rest : List Frame) (reps : List Rep) (st' : MS)
    (h : attachChild cfg c p rest reps = .ok st') :
    st'.stack.length = rest.length + 1 ∧ (st'.reps = reps ∨ ∃ r, st'.reps = reps ++ [r]) ∧ (cfg.dbg = false → st'.reps = reps) := by
  unfold attachChild at h
  split at h
  · have := report_ok _ _ _ _ h
    refine ⟨by simp [this.1], ?_, ?_⟩
    · rcases this.2 with h2 | h2
      · left; simpa using h2
      · right; exact ⟨_, by simpa using h2⟩
    · intro hd; have := report_ok_nodbg _ hd _ _ _ h; simp [this]
  · cases h; simp


/-- what one successful step can do to the stack and to the report list -/
structure StepInv (cfg : Cfg) (st st' : MS) : Prop where
  depth : st'.stack.length ≤ st.stack.length + 1
  nonempty : st.stack ≠ [] → st'.stack ≠ []
  reps : ∃ extra, st'.reps = st.reps ++ extra
  nodbg : cfg.dbg = false → st'.reps = st.reps

theorem StepInv.refl (cfg : Cfg) (st : MS) : StepInv cfg st st :=
  ⟨by omega, id, ⟨[], by simp⟩, fun _ => rfl⟩

theorem StepInv.of_report (cfg : Cfg) (r : Rep) (st st' : MS) (h : report cfg r st = .ok st') :
    StepInv cfg st st' := by
  have h1 := report_ok _ _ _ _ h
  refine ⟨by simp [h1.1], by simp [h1.1], ?_, fun hd => by rw [report_ok_nodbg _ hd _ _ _ h]⟩
  rcases h1.2 with h2 | h2
  · exact ⟨[], by simp [h2]⟩
  · exact ⟨[r], h2⟩

theorem StepInv.of_open (cfg : Cfg) (st st' : MS) (last : Bool) (c : Frame) (h : openChild st last c = .ok st') :
    StepInv cfg st st' := by
  have h1 := openChild_ok _ _ _ _ h
  exact ⟨by simp [h1.1], by simp [h1.1], ⟨[], by simp [h1.2]⟩, fun _ => h1.2⟩

theorem endPre_inv (cfg : Cfg) (b : Bool) (st st1 : MS)
    (h : (if b = true then report cfg Rep.endOutside st else Except.ok st) = Except.ok st1) :
    st1.stack = st.stack ∧ (∃ extra, st1.reps = st.reps ++ extra) ∧ (cfg.dbg = false → st1.reps = st.reps) := by
  split at h
  · have h1 := StepInv.of_report _ _ _ _ h
    exact ⟨(report_ok _ _ _ _ h).1, h1.reps, h1.nodbg⟩
  · cases h; exact ⟨rfl, ⟨[], by simp⟩, fun _ => rfl⟩

theorem step_inv (cfg : Cfg) (st : MS) (s : Stmt) (last : Bool) (st' : MS)
    (h : step cfg st s last = .ok st') : StepInv cfg st st' := by
  unfold step at h
  split at h
  · cases h
  · rename_i f rest hst
    simp only at h
    split at h
    all_goals (repeat' (split at h))
    all_goals
      first
      | exact StepInv.of_report _ _ _ _ h
      | exact StepInv.of_open _ _ _ _ _ h
      | (cases h; exact StepInv.refl _ _)
      | (cases h; exact ⟨by simp [hst], by simp, ⟨[], by simp⟩, fun _ => rfl⟩)
      | (cases h; done)
      | skip
    all_goals (have hp := endPre_inv cfg _ st _ (by assumption))
    all_goals obtain ⟨hp1, ⟨ex, hp2⟩, hp3⟩ := hp
    · cases h
      exact ⟨by simp [hst], by simp, ⟨ex, hp2⟩, hp3⟩
    · cases h
      exact ⟨by simp [hst], by simp, ⟨ex, hp2⟩, hp3⟩
    · cases h
      exact ⟨by simp [hp1], by simp [hp1], ⟨ex, hp2⟩, hp3⟩
    · have ha := attach_ok _ _ _ _ _ _ h
      refine ⟨by rw [hst]; simp; omega, fun _ => by intro h0; simp [h0] at ha, ?_, fun hd => by rw [ha.2.2 hd, hp3 hd]⟩
      rcases ha.2.1 with h2 | ⟨r, h2⟩
      · exact ⟨ex, by rw [h2, hp2]⟩
      · exact ⟨ex ++ [r], by rw [h2, hp2]; simp⟩
    · cases h
      exact ⟨by simp [hp1], by simp [hp1], ⟨ex, hp2⟩, hp3⟩


/-- the invariant of one step, lifted to the whole loop -/
theorem run_inv (cfg : Cfg) (st : MS) (ss : List Stmt) (st' : MS) (h : run cfg st ss = .ok st') :
    st'.stack.length ≤ st.stack.length + ss.length ∧ (st.stack ≠ [] → st'.stack ≠ [])
      ∧ (∃ extra, st'.reps = st.reps ++ extra) ∧ (cfg.dbg = false → st'.reps = st.reps) := by
  induction ss generalizing st with
  | nil => cases h; exact ⟨by simp, id, ⟨[], by simp⟩, fun _ => rfl⟩
  | cons s rest ih =>
    simp only [run] at h
    split at h
    · cases h
    · rename_i st1 h1
      have i1 := step_inv _ _ _ _ _ h1
      obtain ⟨a, b, ⟨ex, c⟩, d⟩ := ih _ h
      obtain ⟨ex1, c1⟩ := i1.reps
      refine ⟨by have := i1.depth; simp only [List.length_cons]; omega, fun h0 => b (i1.nonempty h0),
              ⟨ex1 ++ ex, by rw [c, c1]; simp⟩, fun hd => by rw [d hd, i1.nodbg hd]⟩

/-- an END statement always selects the END branch, whatever the container -/
theorem select_endUnit (f : Frame) (s : Stmt) (h : isEndUnit s.kind = true) : select f s = some .end_ := by
  obtain ⟨k, n⟩ := s
  cases k <;> simp [isEndUnit] at h <;> simp [select, matchRow, selectIn, Gen.cascade, guardOk]

/-- statements that neither open nor close a container and never raise under `dbg` -/
def neutral (k : SK) : Bool :=
  k == .perm || k == .use || k == .callParen || k == .callBare || k == .other || k == .attrib
    || k == .dataStmt || k == .contains || k == .block || k == .format || k == .arithGoto

theorem step_neutral (cfg : Cfg) (hd : cfg.dbg = true) (f : Frame) (rest : List Frame) (reps : List Rep)
    (s : Stmt) (hn : neutral s.kind = true) (last : Bool) :
    ∃ f' reps', step cfg { stack := f :: rest, reps := reps } s last = .ok { stack := f' :: rest, reps := reps' } := by
  obtain ⟨k, n⟩ := s
  by_cases hb : f.blocklevel = 0 <;> cases k <;> simp [neutral] at hn <;>
    simp [step, select, matchRow, selectIn, Gen.cascade, guardOk, report_dbg _ hd, hb] <;>
    (repeat' split) <;> (try simp)

theorem run_neutral (cfg : Cfg) (hd : cfg.dbg = true) (body : List Stmt)
    (hn : ∀ s ∈ body, neutral s.kind = true) (f : Frame) (rest : List Frame) (reps : List Rep) :
    ∃ f' reps', run cfg { stack := f :: rest, reps := reps } body = .ok { stack := f' :: rest, reps := reps' } := by
  induction body generalizing f reps with
  | nil => exact ⟨f, reps, rfl⟩
  | cons s ss ih =>
    obtain ⟨f1, r1, h1⟩ := step_neutral cfg hd f rest reps s (hn s (by simp)) ss.isEmpty
    obtain ⟨f2, r2, h2⟩ := ih (fun x hx => hn x (by simp [hx])) f1 r1
    exact ⟨f2, r2, by simp only [run, h1, h2]⟩

theorem runMid_inv (cfg : Cfg) (st : MS) (ss : List Stmt) (st' : MS) (h : runMid cfg st ss = .ok st') :
    st'.stack.length ≤ st.stack.length + ss.length ∧ (st.stack ≠ [] → st'.stack ≠ [])
      ∧ (∃ extra, st'.reps = st.reps ++ extra) ∧ (cfg.dbg = false → st'.reps = st.reps) := by
  induction ss generalizing st with
  | nil => cases h; exact ⟨by simp, id, ⟨[], by simp⟩, fun _ => rfl⟩
  | cons s rest ih =>
    simp only [runMid] at h
    split at h
    · cases h
    · rename_i st1 h1
      have i1 := step_inv _ _ _ _ _ h1
      obtain ⟨a, b, ⟨ex, c⟩, d⟩ := ih _ h
      obtain ⟨ex1, c1⟩ := i1.reps
      refine ⟨by have := i1.depth; simp only [List.length_cons]; omega, fun h0 => b (i1.nonempty h0),
              ⟨ex1 ++ ex, by rw [c, c1]; simp⟩, fun hd => by rw [d hd, i1.nodbg hd]⟩

end Ford
