/-
  Lemmas about the fnmatch model (FordModel/FsGlob.lean).
-/
import FordModel.FsGlob
import FordModel.Lemmas.Fs
namespace Ford.FsGlob
open Ford Ford.Fs

theorem plain_cons (c : Char) (p : Str) : plain (c :: p) = true ↔ isMeta c = false ∧ plain p = true := by
  simp [plain]

theorem plain_append (p q : Str) : plain (p ++ q) = true ↔ plain p = true ∧ plain q = true := by
  simp [plain, List.all_append]

/-- a pattern without `*`, `?`, `[` is translated character by character -/
theorem tokAux_plain_append (p q : Str) (hp : plain p = true) :
    tokAux .top (p ++ q) = p.map .lit ++ tokAux .top q := by
  induction p with
  | nil => simp
  | cons c p ih =>
    rw [plain_cons] at hp
    obtain ⟨hc, hp⟩ := hp
    have h1 : c ≠ '*' := by intro h; subst h; simp [isMeta] at hc
    have h2 : c ≠ '?' := by intro h; subst h; simp [isMeta] at hc
    have h3 : c ≠ '[' := by intro h; subst h; simp [isMeta] at hc
    simp [tokAux, h1, h2, h3, ih hp]

theorem tokenize_plain (p : Str) (hp : plain p = true) : tokenize p = p.map .lit := by
  have := tokAux_plain_append p [] hp
  simpa [tokenize, tokAux] using this

/-- literal tokens consume exactly their characters -/
theorem globT_lits (l : Str) (rest : List Tok) (s : Str) :
    globT (l.map .lit ++ rest) s = true ↔ ∃ t, s = l ++ t ∧ globT rest t = true := by
  induction l generalizing s with
  | nil => simp
  | cons a l ih =>
    cases s with
    | nil => simp [globT]
    | cons c s =>
      simp only [List.map_cons, List.cons_append, globT, Bool.and_eq_true, beq_iff_eq, ih]
      constructor
      · rintro ⟨rfl, t, rfl, ht⟩
        exact ⟨t, rfl, ht⟩
      · rintro ⟨t, ht, hg⟩
        simp only [List.cons.injEq] at ht
        exact ⟨ht.1.symm, t, ht.2, hg⟩

theorem starAny_of_all (k : Str → Bool) (hk : ∀ s, k s = true) (s : Str) : starAny k s = true := by
  cases s <;> simp [starAny, hk]

/-- a trailing `*` accepts every rest (also one with `/` in it) -/
theorem globT_star_nil (s : Str) : globT [.star] s = true := by
  simp only [globT]
  induction s with
  | nil => simp [starAny]
  | cons c s ih => simp [starAny, ih]

theorem tok_slash_star : tokAux .top ['/', '*'] = [.lit '/', .star] := by
  simp [tokAux]

/-- **the exclusion test of `find_all_files` for a directory whose path contains no pattern
    character**: the textual prefix `<dir>/` -/
theorem excludedBy_plain_iff (d f : Str) (hd : plain d = true) :
    excludedBy d f = true ↔ (d ++ ['/']) <+: f := by
  unfold excludedBy fnmatch tokenize
  rw [tokAux_plain_append d _ hd, tok_slash_star]
  have : d.map Tok.lit ++ [Tok.lit '/', Tok.star] = (d ++ ['/']).map Tok.lit ++ [Tok.star] := by simp
  rw [this, globT_lits]
  constructor
  · rintro ⟨t, rfl, _⟩
    exact ⟨t, rfl⟩
  · rintro ⟨t, rfl⟩
    exact ⟨t, rfl, globT_star_nil t⟩

theorem fnmatch_plain_iff (s p : Str) (hp : plain p = true) : fnmatch s p = true ↔ s = p := by
  unfold fnmatch
  rw [tokenize_plain p hp]
  have := globT_lits p [] s
  simp only [List.append_nil] at this
  rw [this]
  constructor
  · rintro ⟨t, rfl, ht⟩
    cases t with
    | nil => simp
    | cons c t => simp [globT] at ht
  · rintro rfl
    exact ⟨[], by simp, by simp [globT]⟩

/-- the loop over `exclude_dir` keeps exactly the files no entry matches -/
theorem mem_dropExcluded (ds files : List Str) (f : Str) :
    f ∈ dropExcluded ds files ↔ f ∈ files ∧ ∀ d ∈ ds, excludedBy d f = false := by
  induction ds generalizing files with
  | nil => simp [dropExcluded]
  | cons d ds ih =>
    simp only [dropExcluded, ih, List.mem_filter, List.mem_cons, forall_eq_or_imp, Bool.not_eq_true']
    constructor
    · rintro ⟨⟨h1, h2⟩, h3⟩
      exact ⟨h1, h2, h3⟩
    · rintro ⟨h1, h2, h3⟩
      exact ⟨⟨h1, h2⟩, h3⟩

theorem keepSources_sub (b : Bool) (ue : List Str) (out : Str) (files : List Str) (f : Str)
    (h : f ∈ keepSources b ue out files) : f ∈ dropExcluded (ue ++ [out]) files := by
  unfold keepSources at h
  cases b
  · simpa using h
  · simp only [if_true] at h
    exact (List.mem_filter.1 h).1

end Ford.FsGlob
