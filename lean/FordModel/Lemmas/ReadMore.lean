import FordModel.ReadMore
import FordModel.Lemmas.Path
namespace Ford.ReadMore
open Ford.Path

/-- With the rule "no URL ⇒ the summary is the documentation", a doc comment without `summary:`
    metadata whose documentation has a paragraph (or is empty) never gets the link when the entity
    has no URL. -/
theorem readMore_needs_url (T : Tables) (hr : T.rule = .cutIfUrl) (hasUrl : Bool)
    (explicit para : Option Str) (doc : Str)
    (hx : T.linkNeedsUrl = true ∨ (explicit = none ∧ (para.isSome = true ∨ strip doc = [])))
    (h : readMore T hasUrl explicit para doc = true) : hasUrl = true := by
  cases hasUrl with
  | true => rfl
  | false =>
    exfalso
    rcases hx with hx | ⟨he, hp⟩
    · simp [readMore, hx] at h
    · subst he
      cases para with
      | some p => simp [readMore, summaryOf, hr] at h
      | none =>
        rcases hp with hp | hp
        · simp at hp
        · have : strip ([] : Str) = [] := by decide
          simp [readMore, summaryOf, hp, this] at h

/-- a guarded link (repaired code) is only appended for entities with a URL, whatever the rule -/
theorem readMore_guarded (T : Tables) (hg : T.linkNeedsUrl = true) (hasUrl : Bool)
    (explicit para : Option Str) (doc : Str)
    (h : readMore T hasUrl explicit para doc = true) : hasUrl = true := by
  cases hasUrl with
  | true => rfl
  | false => simp [readMore, hg] at h

/-- both together: tables whose link is guarded, or whose rule keeps the whole documentation -/
theorem readMore_url (T : Tables) (hT : T.linkNeedsUrl = true ∨ T.rule = .cutIfUrl) (hasUrl : Bool)
    (explicit para : Option Str) (doc : Str)
    (hx : T.linkNeedsUrl = true ∨ (explicit = none ∧ (para.isSome = true ∨ strip doc = [])))
    (h : readMore T hasUrl explicit para doc = true) : hasUrl = true := by
  rcases hT with hg | hr
  · exact readMore_guarded T hg hasUrl explicit para doc h
  · exact readMore_needs_url T hr hasUrl explicit para doc hx h

/-- `../<url>` read on a page one directory below `base` is `base/<url>` -/
theorem resolve_readMoreHref (base : List Seg) (hb : Normal base) (d : Seg) (hd : NormalSeg d)
    (u : List Seg) (hu : Normal u) :
    resolve (base ++ [d]) (readMoreHref (some u)) = base ++ u := by
  have h1 : (base ++ [d] ++ readMoreHref (some u)).foldl normStep [] =
      u.foldl normStep (base.foldl normStep []) := by
    simp [readMoreHref, List.foldl_append, normStep_normal _ d hd, normStep_up]
  rw [resolve, norm, h1, foldl_normal base [] hb, foldl_normal u _ hu]
  simp

end Ford.ReadMore
