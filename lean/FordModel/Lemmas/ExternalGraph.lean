/-
  Lemmas about the graph-node part of the external-project model (FordModel/ExternalGraph.lean):
  `str(obj)` of an External* object read back by `parseLink` (HYPERLINK_RE).
-/
import FordModel.ExternalGraph
namespace Ford.Ext
open Ford

theorem dropPrefix_append (p s : Str) : dropPrefix (p ++ s) p = some s := by
  induction p with
  | nil => cases s <;> simp [dropPrefix]
  | cons c cs ih => simp [dropPrefix, ih]

theorem takeWhile_upto_quote (u r : Str) (h : ∀ c ∈ u, c ≠ '\'') :
    (u ++ '\'' :: r).takeWhile (· != '\'') = u := by
  induction u with
  | nil => simp
  | cons c cs ih =>
    have hc : c ≠ '\'' := h c (by simp)
    have := ih (fun x hx => h x (by simp [hx]))
    simp_all

theorem dropWhile_upto_quote (u r : Str) (h : ∀ c ∈ u, c ≠ '\'') :
    (u ++ '\'' :: r).dropWhile (· != '\'') = '\'' :: r := by
  induction u with
  | nil => simp
  | cons c cs ih =>
    have hc : c ≠ '\'' := h c (by simp)
    have := ih (fun x hx => h x (by simp [hx]))
    simp_all

theorem dropLinkClose_append (n : Str) : dropLinkClose (n ++ linkClose) = some n := by
  simp [dropLinkClose, linkClose]

/-- HYPERLINK_RE takes out of `<a href='U'>N</a>` exactly `U` and `N` (no quote in `U`) -/
theorem parseLink_link (u n : Str) (hu : u ≠ []) (hq : ∀ c ∈ u, c ≠ '\'') :
    parseLink (linkOpen ++ u ++ ['\'', '>'] ++ n ++ linkClose) = some (u, n) := by
  have e : linkOpen ++ u ++ ['\'', '>'] ++ n ++ linkClose = linkOpen ++ (u ++ '\'' :: ('>' :: (n ++ linkClose))) := by
    simp
  rw [e]
  unfold parseLink
  rw [dropPrefix_append]
  simp only [takeWhile_upto_quote u _ hq, dropWhile_upto_quote u _ hq, dropLinkClose_append]
  cases u with
  | nil => exact absurd rfl hu
  | cons c cs => simp

theorem plainLink_url (u n : Str) (h : plainLink u n = true) : u ≠ [] ∧ ∀ c ∈ u, c ≠ '\'' := by
  simp [plainLink] at h
  refine ⟨by intro h0; simp [h0] at h, ?_⟩
  intro c hc
  exact (h.1.1.2 c hc).1.1

theorem plainLink_name (u n : Str) (h : plainLink u n = true) : n ≠ [] := by
  simp [plainLink] at h
  intro h0; simp [h0] at h

/-- what `__str__` writes for an External* object with a URL, HYPERLINK_RE reads back -/
theorem parseLink_strOfExternal (u n : Str) (h : plainLink u n = true) :
    parseLink (strOfExternal n (some u)) = some (u, n) := by
  obtain ⟨hu, hq⟩ := plainLink_url u n h
  have hn := plainLink_name u n h
  have hue : u.isEmpty = false := by cases u <;> simp_all
  have hne : n.isEmpty = false := by cases n <;> simp_all
  simp only [strOfExternal, hue, hne]
  exact parseLink_link u n hu hq

end Ford.Ext
