import FordModel.SettingsSource
import FordModel.Lemmas.Settings
namespace Ford.Settings

/-! ### source selection (`load_settings`) -/

theorem selectToml_none_of_projectDir (fs : FileSys) (cwd dir : Str) (lookups : List LookupDir)
    (hall : ∀ l ∈ lookups, l = LookupDir.projectDir)
    (h : loadToml (manifestAt fs (normPath cwd dir)) = .ok none) :
    selectToml fs cwd dir lookups = .ok none := by
  induction lookups with
  | nil => simp [selectToml]
  | cons l rest ih =>
    have hl : l = LookupDir.projectDir := hall l (by simp)
    subst hl
    have ih' := ih (fun l hl => hall l (by simp [hl]))
    simp [selectToml, lookupDir, h, ih']

/-- when every attempt is on the project directory, the selection is `load_toml_settings` of the
    manifest next to the project file, whatever the number of attempts -/
theorem selectToml_projectDir_only (fs : FileSys) (cwd dir : Str) (lookups : List LookupDir)
    (hne : lookups ≠ []) (hall : ∀ l ∈ lookups, l = LookupDir.projectDir) :
    selectToml fs cwd dir lookups = loadToml (manifestAt fs (normPath cwd dir)) := by
  cases lookups with
  | nil => exact absurd rfl hne
  | cons l rest =>
    have hl : l = LookupDir.projectDir := hall l (by simp)
    subst hl
    cases hm : loadToml (manifestAt fs (normPath cwd dir)) with
    | error e => simp [selectToml, lookupDir, hm]
    | ok o =>
      cases o with
      | some kw => simp [selectToml, lookupDir, hm]
      | none =>
        simp [selectToml, lookupDir, hm]
        exact selectToml_none_of_projectDir fs cwd dir rest (fun l hl => hall l (by simp [hl])) hm

theorem manifestAt_aset_ne (fs : FileSys) (d d' : Str) (m : Manifest) (h : d' ≠ d) :
    manifestAt (aset d m fs) d' = manifestAt fs d' := by
  simp [manifestAt, aget_aset_ne d d' m fs h]

/-! ### the include workaround -/

theorem includeStep_id (env : IncEnv) (kw cur : Settings) (h : opensInclude kw = false) :
    includeStep env kw cur = .ok cur := by
  fun_induction includeStep env kw cur <;> simp_all [opensInclude]

theorem loadMd_env (schema : List (Str × Tag × PyVal)) (seps : List (Str × Str)) (intrinsic : List (Str × Str))
    (md : List Str) (uw : Bool) (env env' : IncEnv)
    (h : (match convertMeta schema seps (mdRaw (metaPre md).1) with
          | .ok (kw, _) => opensInclude kw | .error _ => false) = false) :
    loadMd schema seps intrinsic md uw env = loadMd schema seps intrinsic md uw env' := by
  unfold loadMd
  cases hc : convertMeta schema seps (mdRaw (metaPre md).1) with
  | error e => rfl
  | ok r =>
    obtain ⟨kw, w⟩ := r
    simp only [hc] at h
    simp only [includeStep_id env kw kw h, includeStep_id env' kw kw h]

theorem effective_env (T : Tables) (dir pkg : Str) (toml : Option Settings) (md : List Str)
    (config : Option Settings) (cli : Settings) (env env' : IncEnv)
    (h : toml.isSome = true ∨ mdIncludes T md = false) :
    effective T dir pkg toml md config cli env = effective T dir pkg toml md config cli env' := by
  unfold effective loadSettings
  cases toml with
  | some kw => rfl
  | none =>
    have h' : mdIncludes T md = false := by simpa using h
    simp only [loadMd_env T.schema T.seps T.intrinsic md T.modsUserWins env env' h']

/-! ### `os.path.dirname` -/

theorem headPart_no_slash (p : Str) (h : p.contains '/' = false) : headPart p = [] := by
  cases p with
  | nil => rfl
  | cons c r =>
    simp at h
    have h1 : (c == '/') = false := by simp; exact fun hc => h.1 hc.symm
    simp [headPart, h1, h.2]

theorem dirname_no_slash (p : Str) (h : p.contains '/' = false) : dirname p = [] := by
  simp [dirname, headPart_no_slash p h]

theorem dirname_absolute (r : Str) : startsWith (dirname ('/' :: r)) ['/'] = true := by
  simp only [dirname, headPart]
  simp
  split
  · simp [startsWith]
  · rename_i hn
    simp [rstripSlash]
    split
    · rename_i hall
      exact absurd hall (by simpa using hn)
    · simp [startsWith]

end Ford.Settings
