/-
  C06: FORD's single `permission` slot (last access keyword wins) against the standard's
  accessibility of a declared entity (PUBLIC / PRIVATE attribute, else the module default;
  PROTECTED is not an accessibility).
-/
import FordModel.Lemmas.UseSpec
namespace Ford.Use

theorem foldl_overwrite (l : List Perm) (init : Perm) :
    l.foldl (fun _ p => p) init = l.getLast?.getD init := by
  induction l generalizing init with
  | nil => rfl
  | cons a t ih =>
    rw [List.foldl_cons, ih]
    cases t with
    | nil => rfl
    | cons b t =>
      rw [List.getLast?_cons_cons]
      rw [List.getLast?_eq_some_getLast (List.cons_ne_nil b t)]
      rfl

/-- the slot holds the keyword met last, or the scope's default when there is none -/
theorem declPerm_eq_last (m : Scope) (d : Decl) :
    declPerm m d = d.accs.getLast?.getD (if m.defPub then .pub else .priv) := by
  unfold declPerm; exact foldl_overwrite _ _

/-- outside the defect class, what `_cleanup` exports is accessible by the standard -/
theorem accessible_of_exported (m : Scope) (d : Decl) (hq : ¬ ProtectedOverPrivate m d)
    (he : declPerm m d ≠ .priv) : declAccessible m d = true := by
  rw [declPerm_eq_last] at he
  cases hlast : d.accs.getLast? with
  | none =>
    have hnil : d.accs = [] := List.getLast?_eq_none_iff.1 hlast
    rw [hlast] at he
    unfold declAccessible
    cases hdp : m.defPub <;> simp_all
  | some p =>
    have hmem : p ∈ d.accs := List.mem_of_getLast? hlast
    rw [hlast] at he
    cases p with
    | pub => unfold declAccessible; simp [hmem]
    | priv => simp at he
    | prot =>
      cases ha : declAccessible m d with
      | true => rfl
      | false => exact absurd ⟨hlast, ha⟩ hq

/-- in a legal program (never both PUBLIC and PRIVATE) everything accessible passes the filter
    of `_cleanup`, whatever the order of the keywords -/
theorem exported_of_accessible (m : Scope) (d : Decl)
    (hl : ¬ (Perm.pub ∈ d.accs ∧ Perm.priv ∈ d.accs)) (ha : declAccessible m d = true) :
    declPerm m d ≠ .priv := by
  rw [declPerm_eq_last]
  cases hlast : d.accs.getLast? with
  | none =>
    have hnil : d.accs = [] := List.getLast?_eq_none_iff.1 hlast
    unfold declAccessible at ha
    cases hdp : m.defPub <;> simp_all
  | some p =>
    have hmem : p ∈ d.accs := List.mem_of_getLast? hlast
    cases p with
    | pub => simp
    | prot => simp
    | priv =>
      unfold declAccessible at ha
      by_cases hp : Perm.pub ∈ d.accs
      · exact absurd ⟨hp, hmem⟩ hl
      · simp [hp, hmem] at ha

/-- FORD's export filter for declared entities is the standard's accessibility exactly, outside
    the defect class and for legal keyword sets -/
theorem declExported_eq_accessible (m : Scope) (d : Decl)
    (hl : ¬ (Perm.pub ∈ d.accs ∧ Perm.priv ∈ d.accs)) (hq : ¬ ProtectedOverPrivate m d) :
    declExported m d = declAccessible m d := by
  cases ha : declAccessible m d with
  | true =>
    have := exported_of_accessible m d hl ha
    simpa [declExported] using this
  | false =>
    cases he : declExported m d with
    | false => rfl
    | true =>
      have : declPerm m d ≠ .priv := by simpa [declExported] using he
      rw [accessible_of_exported m d hq this] at ha; cases ha

end Ford.Use
