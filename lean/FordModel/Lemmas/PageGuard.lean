/-
  Lemmas about the containment guard of `get_page_tree` (`PageTree.guardSkips`) for Props/C17.lean.
-/
import FordModel.Lemmas.PageTree
namespace Ford.PT
open Ford

theorem splitSlash_go_plain (s cur : Str) (h : '/' ∉ s) : splitSlash.go s cur = [cur.reverse ++ s] := by
  induction s generalizing cur with
  | nil => simp [splitSlash.go]
  | cons c t ih =>
    have hc : c ≠ '/' := fun hh => h (by simp [hh])
    have ht : '/' ∉ t := fun hh => h (by simp [hh])
    simp [splitSlash.go, hc, ih _ ht]

/-- a name without `/` is one path segment -/
theorem splitSlash_plain (s : Str) (h : '/' ∉ s) : splitSlash s = [s] := by
  simpa [splitSlash] using splitSlash_go_plain s [] h

/-- `relpath(topdir / name, topdir)` is `name` itself -/
theorem relpath_child (topdir : PathS) (name : Str) : relpath (topdir ++ [name]) topdir = [name] := by
  have := relpath_prefix topdir [name] []
  simpa [relpath, commonLen] using this

theorem guardSkips_plain (topdir : PathS) (name : Str) (ht : Plain topdir) (hn : Plain [name])
    (hs : '/' ∉ name) : guardSkips topdir name = false := by
  have hnorm : norm (topdir ++ [name]) = topdir ++ [name] := by
    simpa [norm] using normAux_plain [] _ (ht.append hn)
  have hdd : name ≠ dotdot := (hn name (by simp)).1
  simp [guardSkips, splitSlash_plain name hs, hnorm, relpath_child, escapes, hdd]

end Ford.PT
