import FordModel.Admonition
namespace Ford

/-! ### words of a line / of a list of lines -/

/-- white-space separated words (`str.split()`); `cur` is the current word, reversed -/
def wordsAux : Str → Str → List Str
  | [], cur => if cur.isEmpty then [] else [cur.reverse]
  | c :: cs, cur =>
    if isSpace c then (if cur.isEmpty then wordsAux cs [] else cur.reverse :: wordsAux cs [])
    else wordsAux cs (c :: cur)

def words (s : Str) : List Str := wordsAux s []

/-- the word sequence of a text given as lines -/
def W (ls : List Str) : List Str := ls.flatMap words

theorem W_append (a b : List Str) : W (a ++ b) = W a ++ W b := by simp [W]

theorem W_cons (x : Str) (b : List Str) : W (x :: b) = words x ++ W b := by simp [W]

theorem W_nil : W [] = [] := rfl

theorem words_nil : words [] = [] := rfl

theorem words_blank_append (ws l : Str) (h : isBlank ws = true) : words (ws ++ l) = words l := by
  induction ws with
  | nil => rfl
  | cons c cs ih =>
    simp [isBlank] at h
    have := ih (by simp [isBlank]; exact h.2)
    simp [words, wordsAux, h.1] at this ⊢
    exact this

theorem words_blank (ws : Str) (h : isBlank ws = true) : words ws = [] := by
  have := words_blank_append ws [] h
  rw [List.append_nil] at this
  exact this.trans words_nil

theorem isBlank_replicate (n : Nat) : isBlank (List.replicate n ' ') = true := by
  induction n with
  | zero => rfl
  | succ n ih => simp [List.replicate_succ, isBlank, isSpace] at ih ⊢

theorem words_indent (l : Str) : words (indentStr ++ l) = words l :=
  words_blank_append _ _ (isBlank_replicate _)


/-! ### list surgery at the position after a prefix `A` -/

theorem getD_mid (A : List Str) (x : Str) (B : List Str) : (A ++ x :: B).getD A.length [] = x := by
  simp [List.getD]

theorem insertAt_after (A : List Str) (x y : Str) (B : List Str) :
    insertAt (A ++ x :: B) (A.length + 1) y = A ++ x :: y :: B := by
  have h : A.length + 1 = (A ++ [x]).length := by simp
  have e : A ++ x :: B = (A ++ [x]) ++ B := by simp
  rw [insertAt, e, h, List.take_left, List.drop_left]
  simp

theorem insertAt_after2 (A : List Str) (x y z : Str) (B : List Str) :
    insertAt (A ++ x :: y :: B) (A.length + 2) z = A ++ x :: y :: z :: B := by
  have h : A.length + 2 = (A ++ [x, y]).length := by simp
  have e : A ++ x :: y :: B = (A ++ [x, y]) ++ B := by simp
  rw [insertAt, e, h, List.take_left, List.drop_left]
  simp

theorem set_mid (A : List Str) (x y : Str) (B : List Str) :
    (A ++ x :: B).set A.length y = A ++ y :: B := by
  simp

theorem eraseIdx_mid (A : List Str) (x : Str) (B : List Str) :
    (A ++ x :: B).eraseIdx A.length = A ++ B := by
  simp [List.eraseIdx_append_of_length_le]

theorem split_at (ls : List Str) (i : Nat) (h : i < ls.length) :
    ls = ls.take i ++ ls[i] :: ls.drop (i + 1) ∧ (ls.take i).length = i := by
  constructor
  · simp
  · simp; omega


/-! ### the two regex scanners: what a match says about the line -/

theorem ciPrefix_spec (p s m r : Str) (h : ciPrefix p s = some (m, r)) : s = m ++ r ∧ lower m = p := by
  fun_induction ciPrefix p s generalizing m r
  case case1 s => simp at h; obtain ⟨rfl, rfl⟩ := h; simp [lower]
  case case2 => simp at h
  case case3 p ps c cs hc m' r' hm ih =>
    simp at h; obtain ⟨rfl, rfl⟩ := h
    obtain ⟨h1, h2⟩ := ih m' r' hm
    simp at hc
    simp [h1, lower, hc] at h2 ⊢
    exact h2
  case case4 => simp at h
  case case5 => simp at h

theorem matchType_spec (types : List Str) (s ty post : Str) (h : matchType types s = some (ty, post)) :
    s = ty ++ post ∧ lower ty ∈ types := by
  fun_induction matchType types s
  case case1 => simp at h
  case case2 t ts s r hr =>
    simp at h; subst h
    obtain ⟨h1, h2⟩ := ciPrefix_spec _ _ _ _ hr
    exact ⟨h1, by simp [h2]⟩
  case case3 t ts s hr ih =>
    obtain ⟨h1, h2⟩ := ih h
    exact ⟨h1, by simp [h2]⟩

/-- `ADMONITION_RE.search(line)`: the line is `pre ++ indent ++ "@" ++ type ++ posttxt`, the
    indent is white space and the type is (case-insensitively) one of the table -/
theorem admScan_spec (types : List Str) (l acc ws : Str) (m : AdmMatch)
    (h : admScan types l acc ws = some m) (hws : isBlank ws = true) :
    acc.reverse ++ ws.reverse ++ l = m.pre ++ m.indent ++ '@' :: (m.ty ++ m.post)
      ∧ isBlank m.indent = true ∧ lower m.ty ∈ types := by
  fun_induction admScan types l acc ws generalizing m
  case case1 => simp at h
  case case2 c cs acc ws hc ty post hm =>
    simp at h hc; subst h; subst hc
    obtain ⟨h1, h2⟩ := matchType_spec _ _ _ _ hm
    refine ⟨by simp [h1], ?_, h2⟩
    simpa [isBlank] using hws
  case case3 c cs acc ws hc hm ih =>
    obtain ⟨h1, h2, h3⟩ := ih m h (by rfl)
    exact ⟨by simpa using h1, h2, h3⟩
  case case4 c cs acc ws hc hsp ih =>
    obtain ⟨h1, h2, h3⟩ := ih m h (by simp [isBlank] at hws ⊢; exact ⟨hsp, hws⟩)
    exact ⟨by simpa using h1, h2, h3⟩
  case case5 c cs acc ws hc hsp ih =>
    obtain ⟨h1, h2, h3⟩ := ih m h (by rfl)
    exact ⟨by simpa using h1, h2, h3⟩

theorem admRe_spec (types : List Str) (l : Str) (m : AdmMatch) (h : admRe types l = some m) :
    l = m.pre ++ m.indent ++ '@' :: (m.ty ++ m.post) ∧ isBlank m.indent = true ∧ lower m.ty ∈ types := by
  have := admScan_spec types l [] [] m h (by rfl)
  simpa using this

/-- a line without `@` starts no admonition and ends none -/
theorem admScan_no_at (types : List Str) (l acc ws : Str) (h : '@' ∉ l) : admScan types l acc ws = none := by
  fun_induction admScan types l acc ws <;> simp_all

theorem endScan_no_at (types : List Str) (l acc ws : Str) (h : '@' ∉ l) : endScan types l acc ws = none := by
  fun_induction endScan types l acc ws <;> simp_all


theorem lstrip_spec (s : Str) : ∃ ws, s = ws ++ lstrip s ∧ isBlank ws = true := by
  induction s with
  | nil => exact ⟨[], rfl, rfl⟩
  | cons c cs ih =>
    by_cases hc : isSpace c = true
    · obtain ⟨ws, h1, h2⟩ := ih
      refine ⟨c :: ws, ?_, ?_⟩
      · simp [lstrip, hc]; exact h1
      · simp [isBlank, hc] at h2 ⊢; exact h2
    · exact ⟨[], by simp [lstrip, hc], rfl⟩

/-- `END_RE.search(line)`: the line is `pre ++ ws ++ "@" ++ END ++ type ++ ws' ++ posttxt` -/
theorem endScan_spec (types : List Str) (l acc ws : Str) (e : EndMatch)
    (h : endScan types l acc ws = some e) (hws : isBlank ws = true) :
    ∃ w1 kw w2, acc.reverse ++ ws.reverse ++ l = e.pre ++ w1 ++ '@' :: (kw ++ e.ty ++ w2 ++ e.post)
      ∧ isBlank w1 = true ∧ isBlank w2 = true ∧ lower kw = ['e', 'n', 'd'] ∧ lower e.ty ∈ types := by
  fun_induction endScan types l acc ws generalizing e
  case case1 => simp at h
  case case2 c cs acc ws hc ty post hm =>
    simp at h hc; subst h; subst hc
    simp only [endAt] at hm
    split at hm
    · rename_i kw r hk
      split at hm
      · rename_i ty' post' ht
        simp at hm; obtain ⟨rfl, rfl⟩ := hm
        obtain ⟨k1, k2⟩ := ciPrefix_spec _ _ _ _ hk
        obtain ⟨t1, t2⟩ := matchType_spec _ _ _ _ ht
        obtain ⟨w2, p1, p2⟩ := lstrip_spec post'
        refine ⟨ws.reverse, kw, w2, ?_, by simpa [isBlank] using hws, p2, k2, t2⟩
        simp [k1, t1]; exact p1
      · simp at hm
    · simp at hm
  case case3 c cs acc ws hc hm ih =>
    obtain ⟨w1, kw, w2, h1, r⟩ := ih e h (by rfl)
    exact ⟨w1, kw, w2, by simpa using h1, r⟩
  case case4 c cs acc ws hc hsp ih =>
    obtain ⟨w1, kw, w2, h1, r⟩ := ih e h (by simp [isBlank] at hws ⊢; exact ⟨hsp, hws⟩)
    exact ⟨w1, kw, w2, by simpa using h1, r⟩
  case case5 c cs acc ws hc hsp ih =>
    obtain ⟨w1, kw, w2, h1, r⟩ := ih e h (by rfl)
    exact ⟨w1, kw, w2, by simpa using h1, r⟩

/-! ### the three edit steps and the word sequence -/

theorem indentFrom_words (ls : List Str) (i lo hi : Nat) : W (indentFrom ls i lo hi) = W ls := by
  fun_induction indentFrom ls i lo hi
  case case1 => rfl
  case case2 l ls i lo hi ih =>
    rw [W_cons, W_cons, ih]
    split
    · rw [words_indent]
    · rfl

theorem indentFrom_length (ls : List Str) (i lo hi : Nat) : (indentFrom ls i lo hi).length = ls.length := by
  fun_induction indentFrom ls i lo hi <;> simp_all

theorem endStep_mid (types : List Str) (A : List Str) (x : Str) (B : List Str) (e : EndMatch)
    (h : endRe types x = some e) :
    W (endStep types (A ++ x :: B) A.length).1 = W A ++ words e.pre ++ words e.post ++ W B := by
  unfold endStep
  rw [getD_mid, h]
  by_cases hp : e.post.isEmpty = true <;> by_cases hb : isBlank e.pre = true
  · have : e.post = [] := by simpa using hp
    simp [hb, eraseIdx_mid, W_append, words_blank _ hb, this, words_nil]
  · have : e.post = [] := by simpa using hp
    simp [hb, W_append, W_cons, this, words_nil]
  · simp only [hp, hb, Bool.not_false, ↓reduceIte, insertAt_after, insertAt_after2]
    rw [set_mid, eraseIdx_mid]
    simp [W_append, W_cons, words_nil, words_blank _ hb]
  · simp only [hp, hb, Bool.not_false, ↓reduceIte, insertAt_after, insertAt_after2]
    rw [set_mid]
    simp [W_append, W_cons, words_nil]

theorem endStep_none (types : List Str) (ls : List Str) (idx : Nat)
    (h : endRe types (ls.getD idx []) = none) : endStep types ls idx = (ls, idx) := by
  unfold endStep
  rw [h]

theorem startStep_mid (types : List Str) (A : List Str) (x : Str) (B : List Str) (ty : Str) (m : AdmMatch)
    (h : admRe types x = some m) :
    ∃ ls', startStep types (A ++ x :: B) ty A.length = .ok ls' ∧
      W ls' = W A ++ words (['@', 'n', 'o', 't', 'e', ' '] ++ capitalize ty) ++ words m.post ++ W B := by
  obtain ⟨_, hb, _⟩ := admRe_spec types x m h
  unfold startStep
  rw [getD_mid, h]
  by_cases hp : m.post.isEmpty = true
  · have : m.post = [] := by simpa using hp
    refine ⟨_, rfl, ?_⟩
    simp only [hp, Bool.not_true, Bool.false_eq_true, ↓reduceIte, set_mid]
    simp [W_append, W_cons, this, words_nil, words_blank_append _ _ hb]
  · refine ⟨_, rfl, ?_⟩
    simp only [hp, Bool.not_false, ↓reduceIte, set_mid, insertAt_after]
    rw [W_append, W_cons, W_cons, List.append_assoc indentStr, words_indent,
      words_blank_append _ _ hb, List.append_assoc m.indent, words_blank_append _ _ hb]
    simp


/-- shape version of `endStep_mid`: everything before the end line is untouched -/
theorem endStep_shape (types : List Str) (A : List Str) (x : Str) (B : List Str) (e : EndMatch)
    (h : endRe types x = some e) :
    ∃ R, (endStep types (A ++ x :: B) A.length).1 = A ++ R ∧
      W R = words e.pre ++ words e.post ++ W B := by
  unfold endStep
  rw [getD_mid, h]
  by_cases hp : e.post.isEmpty = true <;> by_cases hb : isBlank e.pre = true
  · have : e.post = [] := by simpa using hp
    exact ⟨B, by simp [hb, eraseIdx_mid, this], by simp [words_blank _ hb, this, words_nil]⟩
  · have : e.post = [] := by simpa using hp
    exact ⟨e.pre :: B, by simp [hb, this], by simp [W_cons, this, words_nil]⟩
  · refine ⟨[] :: e.post :: B, ?_, by simp [W_cons, words_nil, words_blank _ hb]⟩
    simp only [hp, hb, Bool.not_false, ↓reduceIte, insertAt_after, insertAt_after2]
    rw [set_mid, eraseIdx_mid]
  · refine ⟨e.pre :: [] :: e.post :: B, ?_, by simp [W_cons, words_nil]⟩
    simp only [hp, hb, Bool.not_false, ↓reduceIte, insertAt_after, insertAt_after2]
    rw [set_mid]
    simp

/-- lines before `lo` are not indented -/
theorem indentFrom_prefix (A R : List Str) (i lo hi : Nat) (h : i + A.length ≤ lo) :
    indentFrom (A ++ R) i lo hi = A ++ indentFrom R (i + A.length) lo hi := by
  induction A generalizing i with
  | nil => simp
  | cons a A ih =>
    simp at h
    have hlt : ¬ (lo ≤ i) := by omega
    simp [indentFrom, hlt]
    rw [ih (i + 1) (by omega)]
    have : i + 1 + A.length = i + (A.length + 1) := by omega
    rw [this]

theorem indentFrom_head (x : Str) (R : List Str) (i lo hi : Nat) (h : i < lo) :
    indentFrom (x :: R) i lo hi = x :: indentFrom R (i + 1) lo hi := by
  have hlt : ¬ (lo ≤ i) := by omega
  simp [indentFrom, hlt]

/-! ### text without `@` -/

theorem findFrom_no_at (types : List Str) (ls : List Str) (i : Nat) (h : ∀ l ∈ ls, '@' ∉ l) :
    findFrom types ls i ([], none) = .ok ([], none) := by
  induction ls generalizing i with
  | nil => rfl
  | cons l ls ih =>
    have hl : '@' ∉ l := h l (by simp)
    have h1 : admRe types l = none := admScan_no_at types l [] [] hl
    have h2 : endRe types l = none := endScan_no_at types l [] [] hl
    simp [findFrom, findStep, h1, h2]
    exact ih (i + 1) (fun l' hl' => h l' (by simp [hl']))

end Ford
