import FordModel.Graph
import FordModel.Lemmas.GraphData
import FordModel.Lemmas.GraphCalls
namespace Ford.Graph

/-!
  Relation slots of the node constructors (round 4): `targets` links exactly what the slots of the
  entity's node class hold — the slots of `slotsOf`, the table the translator regenerates from the
  real constructors.
-/

theorem mem_allKinds (k : Kind) : k ∈ allKinds := by cases k <;> decide

theorem mem_allSlots (s : Slot) : s ∈ allSlots := by cases s <;> decide

/-- whatever a (non-call) slot of the entity's node class holds is linked under the slot's relation -/
theorem targets_slot_complete (tab : Table) (i t : Node) (s : Slot)
    (hs : s ∈ slotsOf (ent tab i).kind) (hc : s.isCall = false)
    (hx : (ent tab i).kind = .type → (ent tab i).extUrl = false)
    (ht : t ∈ slotVals (ent tab i) s) : (s.rel, t) ∈ targets tab i := by
  cases s <;> cases hk : (ent tab i).kind <;>
    simp_all [slotsOf, targets, slotVals, Slot.rel, Slot.isCall]

/-- nothing but the slots of the entity's node class is linked (interface-to-implementation links
    aside: they have their own decision table) -/
theorem targets_slot_sound (tab : Table) (i t : Node) (r : Rel) (h : (r, t) ∈ targets tab i) (hr : r ≠ .iface) :
    ∃ s ∈ slotsOf (ent tab i).kind, s.rel = r ∧ (s.isCall = false → t ∈ slotVals (ent tab i) s) := by
  cases hk : (ent tab i).kind <;> simp only [targets, hk] at h
  case ext => simp at h
  case mod =>
    simp only [List.mem_map, Prod.mk.injEq] at h
    obtain ⟨u, hu, rfl, rfl⟩ := h
    exact ⟨.uses, by simp [slotsOf], rfl, fun _ => hu⟩
  case block =>
    simp only [List.mem_map, Prod.mk.injEq] at h
    obtain ⟨u, hu, rfl, rfl⟩ := h
    exact ⟨.uses, by simp [slotsOf], rfl, fun _ => hu⟩
  case file =>
    simp only [List.mem_map, Prod.mk.injEq] at h
    obtain ⟨u, hu, rfl, rfl⟩ := h
    exact ⟨.deps, by simp [slotsOf], rfl, fun _ => hu⟩
  case submod =>
    simp only [List.mem_append, List.mem_map, Prod.mk.injEq] at h
    rcases h with ⟨u, hu, rfl, rfl⟩ | ⟨u, hu, rfl, rfl⟩
    · exact ⟨.uses, by simp [slotsOf], rfl, fun _ => hu⟩
    · exact ⟨.anc, by simp [slotsOf], rfl, fun _ => hu⟩
  case type =>
    split at h
    · simp at h
    · simp only [List.mem_append, List.mem_map, Prod.mk.injEq] at h
      rcases h with ⟨u, hu, rfl, rfl⟩ | ⟨u, hu, rfl, rfl⟩
      · exact ⟨.ext, by simp [slotsOf], rfl, fun _ => hu⟩
      · exact ⟨.comps, by simp [slotsOf], rfl, fun _ => hu⟩
  case prog =>
    simp only [List.mem_append, List.mem_map, Prod.mk.injEq] at h
    rcases h with ⟨u, hu, rfl, rfl⟩ | ⟨u, hu, rfl, rfl⟩
    · exact ⟨.uses, by simp [slotsOf], rfl, fun _ => hu⟩
    · exact ⟨.calls, by simp [slotsOf], rfl, fun hc => by simp [Slot.isCall] at hc⟩
  case proc =>
    simp only [List.mem_append, List.mem_map, Prod.mk.injEq] at h
    rcases h with (⟨u, hu, rfl, rfl⟩ | ⟨u, hu, rfl, rfl⟩) | h
    · exact ⟨.uses, by simp [slotsOf], rfl, fun _ => hu⟩
    · exact ⟨.calls, by simp [slotsOf], rfl, fun hc => by simp [Slot.isCall] at hc⟩
    · split at h
      · simp only [List.mem_map, Prod.mk.injEq] at h
        obtain ⟨u, _, rfl, _⟩ := h
        exact absurd rfl hr
      · simp at h

/-- the calls a procedure / program node looks at are what its call slots hold -/
theorem rawCalls_eq_slots (tab : Table) (a : Node) :
    rawCalls tab a = ((slotsOf (ent tab a).kind).filter Slot.isCall).flatMap (slotVals (ent tab a)) := by
  cases hk : (ent tab a).kind <;>
    simp [rawCalls, hk, slotsOf, Slot.isCall, slotVals, callChildren, List.filter]

/-! ### the table fall-back (`hop_nodes` / `hop_edges`) -/

/-- from the second hop on, `add_nodes` never touches `hop_nodes` / `hop_edges` -/
theorem addNodes_hop_ge2 (cfg : Cfg) (nodes : List Node) (nesting : Nat) (st : GState) (h : 2 ≤ nesting) :
    (addNodes cfg nodes nesting st).hopNodes = st.hopNodes
      ∧ (addNodes cfg nodes nesting st).hopEdges = st.hopEdges := by
  fun_induction addNodes cfg nodes nesting st
  case case1 nodes nesting st hop hgt =>
    have : ¬ nesting < 2 := by omega
    simp [this]
  case case2 => exact ⟨rfl, rfl⟩
  case case3 ih => exact ih (by omega)
  case case4 => exact ⟨rfl, rfl⟩
  case case5 => exact ⟨rfl, rfl⟩

/-- **what the table shows**: if a drawn graph has a non-empty `hop_nodes`, then its first hop was
    refused — nothing but the roots is drawn, no edge — and `hop_nodes` / `hop_edges` are exactly
    that first hop of the relation, which did not fit beside the roots -/
theorem runGraph_table (cfg : Cfg) (roots : List Node) (h : (runGraph cfg roots).hopNodes ≠ []) :
    (runGraph cfg roots).added = dedup roots ∧ (runGraph cfg roots).edges = []
      ∧ (runGraph cfg roots).truncated = some 1
      ∧ (runGraph cfg roots).hopNodes = hopOf cfg (dedup roots) roots
      ∧ (runGraph cfg roots).hopEdges = hopEdgesOf cfg roots
      ∧ cfg.maxNodes < (hopOf cfg (dedup roots) roots).length + (dedup roots).length := by
  unfold runGraph at h ⊢
  rw [addNodes] at h ⊢
  simp only at h ⊢
  split
  next hgt => simp; omega
  next hle =>
    exfalso
    rw [if_neg hle] at h
    split at h
    · split at h
      · simp at h
      · split at h
        · rw [(addNodes_hop_ge2 cfg _ 2 _ (by omega)).1] at h
          simp at h
        · simp at h
    · simp at h

/-! ### rows of the table -/

/-- all the edges one `add_node` call yields are oriented the same way: they all leave the node
    (forward classes) or all enter it ("by" classes, project-wide file graph) -/
theorem succOf_oriented (tab : Table) (nd : NodeData) (c : GClass) (n : Node) :
    (∀ p ∈ succOf tab nd c n, p.2.tail = n) ∨ (∀ p ∈ succOf tab nd c n, p.2.head = n) := by
  cases c
  case calledBy =>
    right
    intro p hp
    simp only [succOf] at hp
    split at hp
    · simp at hp
    · simp only [List.mem_append, List.mem_map] at hp
      rcases hp with ⟨_, _, rfl⟩ | ⟨_, _, rfl⟩ <;> rfl
  case module | uses | efferent | type | inherits | call | calls =>
    left
    intro p hp
    simp only [succOf, List.mem_append, List.mem_map] at hp
    first
      | (rcases hp with ⟨_, _, rfl⟩ | ⟨_, _, rfl⟩ <;> rfl)
      | (obtain ⟨_, _, rfl⟩ := hp; rfl)
  case usedBy | file | afferent | inheritedBy =>
    right
    intro p hp
    simp only [succOf, List.mem_append, List.mem_map] at hp
    first
      | (rcases hp with ⟨_, _, rfl⟩ | ⟨_, _, rfl⟩ <;> rfl)
      | (obtain ⟨_, _, rfl⟩ := hp; rfl)

theorem otherEnd_of_tail {root : Node} {e : Edge} (h : e.tail = root) : otherEnd root e = e.head := by
  simp [otherEnd, h]

theorem otherEnd_of_head {root : Node} {e : Edge} (h : e.head = root) : otherEnd root e = e.tail := by
  unfold otherEnd
  split
  · rename_i ht; rw [h]; exact (beq_iff_eq.1 ht).symm
  · rfl

theorem map_rows_tail {root : Node} {es : List Edge} (h : ∀ e ∈ es, e.tail = root) :
    es.map (fun e => (e.head, e.style)) = es.map (fun e => (otherEnd root e, e.style)) :=
  List.map_congr_left fun e he => by rw [otherEnd_of_tail (h e he)]

theorem map_rows_head {root : Node} {es : List Edge} (h : ∀ e ∈ es, e.head = root) :
    es.map (fun e => (e.tail, e.style)) = es.map (fun e => (otherEnd root e, e.style)) :=
  List.map_congr_left fun e he => by rw [otherEnd_of_head (h e he)]

/-- the code as it is: right unless the first edge is a self-loop of the root and some edge does not
    leave the root -/
theorem tableRows_asis (root : Node) (es : List Edge)
    (ho : (∀ e ∈ es, e.tail = root) ∨ (∀ e ∈ es, e.head = root))
    (hx : ¬ ∃ e0 rest, es = e0 :: rest ∧ e0.tail = root ∧ e0.head = root ∧ ∃ e ∈ es, e.tail ≠ root) :
    tableRows false root es = es.map (fun e => (otherEnd root e, e.style)) := by
  cases es with
  | nil => simp [tableRows]
  | cons e0 rest =>
    simp only [tableRows, Bool.false_eq_true, if_false, List.head?_cons]
    by_cases ht : e0.tail = root
    · rw [if_pos (by simpa using ht)]
      rcases ho with ho | ho
      · exact map_rows_tail ho
      · -- the first edge is a self-loop: excluded unless every edge leaves the root
        have hall : ∀ e ∈ e0 :: rest, e.tail = root := by
          intro e he
          by_cases h : e.tail = root
          · exact h
          · exact absurd ⟨e0, rest, rfl, ht, ho e0 (by simp), e, he, h⟩ hx
        exact map_rows_tail hall
    · rw [if_neg (by simpa using ht)]
      rcases ho with ho | ho
      · exact absurd (ho e0 (by simp)) ht
      · exact map_rows_head ho

theorem find_first_spec (es : List Edge) (e0 : Edge)
    (h : ((es.find? fun e => e.tail != e.head).or es.head?) = some e0) :
    e0 ∈ es ∧ (e0.tail = e0.head → ∀ e ∈ es, e.tail = e.head) := by
  cases hf : es.find? (fun e => e.tail != e.head) with
  | some e1 =>
    rw [hf] at h
    have h : e1 = e0 := by simpa [Option.or] using h
    subst h
    have := List.find?_some hf
    exact ⟨List.mem_of_find?_eq_some hf, fun hl => by simp [hl] at this⟩
  | none =>
    rw [hf] at h
    have h : es.head? = some e0 := by simpa [Option.or] using h
    refine ⟨List.mem_of_mem_head? h, fun _ e he => ?_⟩
    have := List.find?_eq_none.1 hf e he
    simpa using this

/-- with fixes/C13-table-self-loop.diff: right for every hop -/
theorem tableRows_fixed (root : Node) (es : List Edge)
    (ho : (∀ e ∈ es, e.tail = root) ∨ (∀ e ∈ es, e.head = root)) :
    tableRows true root es = es.map (fun e => (otherEnd root e, e.style)) := by
  simp only [tableRows, if_true]
  cases hf : ((es.find? fun e => e.tail != e.head).or es.head?) with
  | none =>
    cases es with
    | nil => simp
    | cons a r => cases h2 : List.find? (fun e => e.tail != e.head) (a :: r) <;> simp [h2] at hf
  | some e0 =>
    obtain ⟨hmem, hloop⟩ := find_first_spec es e0 hf
    simp only
    by_cases ht : e0.tail = root
    · rw [if_pos (by simpa using ht)]
      rcases ho with ho | ho
      · exact map_rows_tail ho
      · have hself : e0.tail = e0.head := by rw [ht, ho e0 hmem]
        have hall : ∀ e ∈ es, e.tail = root := fun e he => by rw [hloop hself e he, ho e he]
        exact map_rows_tail hall
    · rw [if_neg (by simpa using ht)]
      rcases ho with ho | ho
      · exact absurd (ho e0 hmem) ht
      · exact map_rows_head ho

end Ford.Graph
