import FordModel.ScopeSub
import FordModel.Lemmas.Scope
namespace Ford.Scope
open Ford

/-! ### a submodule whose local declarations are merged OVER its parent's is an ordinary nested scope -/

theorem subTabs_repaired (env : ModEnv) (host : Tabs) (uses : List Use) (decls : List Decl) (kids : Kids) :
    subTabs false env host uses decls kids = unitTabs repaired env host.p host.a host.t uses decls kids := by
  simp [subTabs, unitTabs, repaired]

theorem corrSub_eq_corr (env : ModEnv) (host : Tabs) (s : Scope) :
    (corrSub repaired false env host s).2 = (corr repaired env host.p host.a host.t s).2.2 := by
  cases s with
  | mk n e f us ds ss ks => simp [corrSub, corr, subTabs_repaired]

theorem corrSub_tabs (env : ModEnv) (host : Tabs) (n : Str) (e : Ent) (f : Bool) (us : List Use) (ds : List Decl)
    (ss : List Slot) (ks : Kids) :
    (corrSub repaired false env host (.mk n e f us ds ss ks)).1 =
      ⟨(unitTabs repaired env host.p host.a host.t us ds ks).p, (unitTabs repaired env host.p host.a host.t us ds ks).a,
       (unitTabs repaired env host.p host.a host.t us ds ks).t⟩ := by
  simp [corrSub, subTabs_repaired, repaired]

/-- every slot of the submodule and of its nested scopes = the specification with the chain of the
    parent's frames as host chain, and the tables it leaves to its own submodules represent the
    chain extended by its frame -/
theorem corrSub_repaired (env : ModEnv) (host : Tabs) (ch : List Frame) (h : Rep host.p host.a host.t ch)
    (s : Scope) (ok : treeOK env ch s = true) :
    (corrSub repaired false env host s).2 = specScope env ch s ∧
      Rep (corrSub repaired false env host s).1.p (corrSub repaired false env host s).1.a
        (corrSub repaired false env host s).1.t (frameOf env s :: ch) := by
  constructor
  · rw [corrSub_eq_corr, corr_repaired env s host.p host.a host.t ch h ok]
  · cases s with
    | mk n e f us ds ss ks =>
      rw [corrSub_tabs]
      exact unitTabs_rep env host.p host.a host.t ch h n e f us ds ss ks

/-- the pairing of the separate module procedures (independent of the merge order) -/
theorem pairSlots_spec (pairable : List Ent) (host : Tabs) (ch : List Frame) (h : Rep host.p host.a host.t ch)
    (decls : List Decl) (kids : Kids) (ps : List (Nat × Str)) :
    pairSlots pairable host decls kids ps = specPairs pairable ch (localProcs decls kids) ps := by
  induction ps with
  | nil => rfl
  | cons p r ih =>
    obtain ⟨i, n⟩ := p
    simp only [pairSlots, specPairs, pairLookup, tget_append, h.p, ih]
    rfl

/-! ### as found: the parent's tables overwrite the local declarations -/

/-- two merge orders answer alike when no key of the one table is a key of the other -/
theorem tget_append_comm (l h : Table) (hd : ∀ k ∈ l, tget h k.1 = none) (n : Str) :
    tget (h ++ l) n = tget (l ++ h) n := by
  simp only [tget_append]
  cases h1 : tget h n with
  | none => cases tget l n <;> rfl
  | some x =>
    cases h2 : tget l n with
    | none => rfl
    | some y =>
      exfalso
      have : ∃ k ∈ l, k.1 = n := by
        clear hd h1
        induction l with
        | nil => simp [tget] at h2
        | cons z zs ih =>
          obtain ⟨k', e'⟩ := z
          by_cases hz : k' = n
          · exact ⟨(k', e'), by simp, hz⟩
          · simp only [tget, hz, ↓reduceIte] at h2
            obtain ⟨k, hk, hkn⟩ := ih h2
            exact ⟨k, by simp [hk], hkn⟩
      obtain ⟨k, hk, hkn⟩ := this
      have := hd k hk
      rw [hkn, h1] at this
      cases this

theorem subTabs_split (b : Bool) (env : ModEnv) (host : Tabs) (uses : List Use) (decls : List Decl) (kids : Kids) :
    subTabs b env host uses decls kids =
      ⟨(applyUses env uses ⟨[], [], []⟩).p ++ (if b then host.p ++ localProcs decls kids else localProcs decls kids ++ host.p),
       (applyUses env uses ⟨[], [], []⟩).a ++ (if b then host.a ++ declsOf .ab decls else declsOf .ab decls ++ host.a),
       (applyUses env uses ⟨[], [], []⟩).t ++ (if b then host.t ++ declsOf .ty decls else declsOf .ty decls ++ host.t)⟩ := by
  cases b
  · simp only [subTabs, Bool.false_eq_true, ↓reduceIte]
    have := applyUses_append env uses [] [] [] (localProcs decls kids ++ host.p) (declsOf .ab decls ++ host.a)
      (declsOf .ty decls ++ host.t)
    simpa using this
  · simp only [subTabs, ↓reduceIte]
    have := applyUses_append env uses [] [] [] (host.p ++ localProcs decls kids) (host.a ++ declsOf .ab decls)
      (host.t ++ declsOf .ty decls)
    simpa using this

/-! ### projects without submodules -/

theorem corrProjectS_plain (v : Variant) (sv : SVariant) (pairable order : List Ent) (us : List (UKind × Scope))
    (h : ∀ u ∈ us, kindIsSub u.1 = false) (st : PState) :
    corrProjectS v sv pairable order st us = corrProject v st.env (us.map fun u => (kindIsMod u.1, u.2)) := by
  induction us generalizing st with
  | nil => rfl
  | cons u us ih =>
    obtain ⟨k, s⟩ := u
    have hr : ∀ u ∈ us, kindIsSub u.1 = false := fun x hx => h x (by simp [hx])
    cases k with
    | mod => simp [corrProjectS, corrProject, kindIsMod, ih hr]
    | other => simp [corrProjectS, corrProject, kindIsMod, ih hr]
    | sub i => have := h (.sub i, s) (by simp); simp [kindIsSub] at this

end Ford.Scope
