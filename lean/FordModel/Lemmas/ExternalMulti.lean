/-
  The loop of `load_external_modules` over several external projects
  (`loadAllWith` / `loadAll` of FordModel/External.lean).
-/
import FordModel.External
import FordModel.ExternalSpec
namespace Ford.Ext
open Ford

theorem lookup_some_mem {β : Type} (xs : List (Str × β)) (k : Str) (v : β)
    (h : xs.lookup k = some v) : (k, v) ∈ xs := by
  induction xs with
  | nil => simp [List.lookup] at h
  | cons x r ih =>
    obtain ⟨k', v'⟩ := x
    by_cases hk : k == k'
    · have hk' : k = k' := by simpa using hk
      simp [List.lookup, hk] at h
      simp [hk', h]
    · simp [List.lookup, hk] at h
      exact List.mem_cons_of_mem _ (ih h)

/-- when every handler in the generated table falls through or continues, so does the handler of any
    way of failing (an unlisted one has no handler at all: `catches` is false for it) -/
theorem handlerFlow_goes_on
    (h : ∀ kv ∈ Gen.handlerExits, flowOfText kv.2 = .proceed ∨ flowOfText kv.2 = .next) (exc : Str) :
    handlerFlow exc = .proceed ∨ handlerFlow exc = .next := by
  unfold handlerFlow
  cases hl : Gen.handlerExits.lookup exc with
  | none => left; simp [flowOfText]
  | some v => exact h (exc, v) (lookup_some_mem _ _ _ hl)

theorem importDoc_empty (b : Base) : importDoc b (.arr []) = .ok [] := by
  simp [importDoc, hasStrElem, importTop]

theorem entriesAll_append (xs ys : List XObj) :
    entriesAll (xs ++ ys) = entriesAll xs ++ entriesAll ys := by
  induction xs with
  | nil => simp [entriesAll]
  | cons x r ih => simp [entriesAll, ih]

/-- a caught failure whose handler goes on is as if the project were not listed -/
theorem loadAllWith_failed_skip (flow : Str → Flow) (b : Base) (exc : Str) (r : List (Base × Fetch))
    (acc : List XObj) (hc : catches exc = true) (hf : flow exc = .proceed ∨ flow exc = .next) :
    loadAllWith flow ((b, .failed exc) :: r) acc = loadAllWith flow r acc := by
  rcases hf with hf | hf <;> simp [loadAllWith, hc, hf, importDoc_empty]

theorem loadAllWith_drop_failed (flow : Str → Flow) (b : Base) (exc : Str)
    (hc : catches exc = true) (hf : flow exc = .proceed ∨ flow exc = .next)
    (pre post : List (Base × Fetch)) (acc : List XObj) :
    loadAllWith flow (pre ++ (b, .failed exc) :: post) acc = loadAllWith flow (pre ++ post) acc := by
  induction pre generalizing acc with
  | nil => simpa using loadAllWith_failed_skip flow b exc post acc hc hf
  | cons p r ih =>
    obtain ⟨b', f'⟩ := p
    cases f' with
    | got doc =>
      simp only [List.cons_append, loadAllWith]
      cases importDoc b' doc with
      | ok os => simp [ih]
      | error e => rfl
    | failed exc' =>
      simp only [List.cons_append, loadAllWith]
      cases catches exc' with
      | false => rfl
      | true =>
        simp only [if_true]
        cases flow exc' with
        | proceed => simp [importDoc_empty, ih]
        | next => simp [ih]
        | stop => rfl
        | reraise => rfl

/-- when no handler leaves the loop and every listed project is harmless, every project contributes
    exactly what it contributes alone, in the order of the list -/
theorem loadAllWith_harmless (flow : Str → Flow)
    (hflow : ∀ exc, flow exc = .proceed ∨ flow exc = .next)
    (ps : List (Base × Fetch)) (acc : List XObj) (h : ∀ p ∈ ps, harmless p = true) :
    loadAllWith flow ps acc = .loaded (acc ++ (ps.map objsOf).flatten) := by
  induction ps generalizing acc with
  | nil => simp [loadAllWith]
  | cons p r ih =>
    have hp := h p (by simp)
    have hr : ∀ q ∈ r, harmless q = true := fun q hq => h q (by simp [hq])
    obtain ⟨b, f⟩ := p
    cases f with
    | got doc =>
      simp only [harmless] at hp
      cases hd : importDoc b doc with
      | ok os => simp [loadAllWith, hd, ih _ hr, objsOf, List.append_assoc]
      | error e => simp [hd, isOk] at hp
    | failed exc =>
      simp only [harmless] at hp
      rw [loadAllWith_failed_skip flow b exc r acc hp (hflow exc), ih _ hr]
      simp [objsOf]

end Ford.Ext
