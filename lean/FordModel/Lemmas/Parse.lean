import FordModel.Parse
namespace Ford.Parse

/-! ### Declared program structure and its rendering as a statement stream -/

mutual
/-- a declared container: kind, name, interface flags, specification-part events,
    whether a CONTAINS statement is present, events after CONTAINS -/
inductive Decl
  | mk (k : CK) (id : Nat) (g a : Bool) (pre : Evs) (hc : Bool) (post : Evs)
/-- events of a container body: nested declarations and leaf statements -/
inductive Evs
  | nil
  | consD (d : Decl) (rest : Evs)
  | consL (lk : LeafK) (id : Nat) (rest : Evs)
end

def openItem (k : CK) (id : Nat) (g a : Bool) : Item :=
  match k with
  | .file => .other
  | .module => .module id
  | .submodule => .submodule id
  | .program => .program id
  | .subroutine => .subroutine id
  | .function => .function id
  | .modprocImpl => .modproc true id
  | .type => .typeDef id
  | .interface => .interface g a id
  | .enum => .enum id
  | .blockdata => .blockData id

def leafItem (lk : LeafK) (id : Nat) : Item :=
  match lk with
  | .variable => .variable id
  | .boundproc => .boundproc id
  | .final => .final id
  | .use => .use id
  | .common => .common id
  | .namelist => .namelist id
  | .modprocRef => .modproc true id

mutual
def Decl.flatten : Decl → List Item
  | .mk k id g a pre hc post =>
    openItem k id g a :: (pre.flatten ++ ((if hc then [Item.contains] else []) ++ (post.flatten ++ [Item.endUnit])))
def Evs.flatten : Evs → List Item
  | .nil => []
  | .consD d r => d.flatten ++ r.flatten
  | .consL lk id r => leafItem lk id :: r.flatten
end

mutual
/-- the tree a reader expects -/
def Decl.canon : Decl → Node
  | .mk k id g a pre _ post => .mk k id g a (pre.canon ++ post.canon)
def Evs.canon : Evs → List Ev
  | .nil => []
  | .consD d r => .inl d.canon :: r.canon
  | .consL lk id r => .inr (lk, id) :: r.canon
end

/-- a child container of kind `k` may be declared in a container of kind `pk`
    (after CONTAINS iff `pinc`) -/
def childAllowed (pk : CK) (pinc : Bool) (k : CK) : Bool :=
  match k with
  | .file => false
  | .module | .submodule | .program | .blockdata => pk == .file
  | .subroutine | .function => (!isCodeUnit pk || pinc) && hasProcLists pk
  | .modprocImpl => isModuleLike pk
  | .type => hasTypes pk
  | .interface | .enum => hasCodeUnitLists pk

def leafAllowed (k : CK) (inc : Bool) (lk : LeafK) : Bool :=
  match lk with
  | .variable => hasVariables k
  | .use | .common => hasUses k
  | .namelist => hasCodeUnitLists k
  | .boundproc | .final => inc && k == .type
  | .modprocRef => k == .interface

def Evs.isNil : Evs → Bool
  | .nil => true
  | _ => false

mutual
/-- well-formed nesting: every statement stands where the language allows it -/
def Decl.wf (pk : CK) (pinc : Bool) : Decl → Bool
  | .mk k _ g a pre hc post =>
    childAllowed pk pinc k && (k == .interface || (!g && !a)) && !(g && a)
      && pre.wf k false
      && (if hc then canHaveContains k && post.wf k true else post.isNil)
def Evs.wf (k : CK) (inc : Bool) : Evs → Bool
  | .nil => true
  | .consD d r => d.wf k inc && r.wf k inc
  | .consL lk _ r => leafAllowed k inc lk && r.wf k inc
end

/-- number of PROGRAM units directly in an event list -/
def Evs.progs : Evs → Nat
  | .nil => 0
  | .consD (.mk k _ _ _ _ _ _) r => (if k == .program then 1 else 0) + r.progs
  | .consL _ _ r => r.progs

mutual
/-- at most one main program per file (checked at every level for uniformity) -/
def Decl.onePerFile : Decl → Bool
  | .mk _ _ _ _ pre _ post => pre.onePerFile && post.onePerFile
def Evs.onePerFile : Evs → Bool
  | .nil => true
  | .consD d r => d.onePerFile && r.onePerFile
  | .consL _ _ r => r.onePerFile
end

end Ford.Parse

namespace Ford.Parse

def isProgram : CK → Nat
  | .program => 1
  | _ => 0

def Decl.kind : Decl → CK
  | .mk k _ _ _ _ _ _ => k

def addEvs (f : Frame) (evs : List Ev) (np : Nat) : Frame :=
  { f with events := evs.reverse ++ f.events, programs := f.programs + np }

theorem step_leaf (f : Frame) (stk : List Frame) (e : List Err) (lk : LeafK) (id : Nat)
    (h : leafAllowed f.kind f.incontains lk = true) (hb : f.blocklevel = 0) :
    step ⟨f :: stk, e⟩ (leafItem lk id) =
      .ok ⟨{ f with events := .inr (lk, id) :: f.events } :: stk, e⟩ := by
  obtain ⟨kind, fid, g, a, inc, bl, assoc, progs, evs⟩ := f
  simp only at hb; subst hb
  cases lk <;> cases kind <;>
    simp_all [leafAllowed, leafItem, step, leaf, pushEv, hasVariables, hasUses, hasCodeUnitLists,
      isCodeUnit]

theorem step_open (f : Frame) (stk : List Frame) (e : List Err) (k : CK) (id : Nat) (g a : Bool)
    (h : childAllowed f.kind f.incontains k = true) (hb : f.blocklevel = 0)
    (hga : (k == .interface || (!g && !a)) = true) (hna : (!(g && a)) = true) :
    step ⟨f :: stk, e⟩ (openItem k id g a) =
      .ok ⟨{ kind := k, id := id, generic := g, abstract := a } ::
            { f with programs := f.programs + isProgram k } :: stk, e⟩ := by
  obtain ⟨kind, fid, fg, fa, inc, bl, assoc, progs, evs⟩ := f
  simp only at hb; subst hb
  cases k <;> cases kind <;> cases g <;> cases a <;>
    simp_all [childAllowed, openItem, step, openChild, setTop, hasProcLists, hasTypes,
      hasCodeUnitLists, isCodeUnit, isModuleLike, isProgram]

theorem step_contains (f : Frame) (stk : List Frame) (e : List Err)
    (h : canHaveContains f.kind = true) (hi : f.incontains = false) :
    step ⟨f :: stk, e⟩ .contains = .ok ⟨{ f with incontains := true } :: stk, e⟩ := by
  simp [step, h, hi, setTop]

theorem step_end (f p : Frame) (stk : List Frame) (e : List Err)
    (hk : f.kind ≠ .file) (hb : f.blocklevel = 0) :
    step ⟨f :: p :: stk, e⟩ .endUnit =
      .ok ⟨{ p with events := .inl f.close :: p.events } :: stk, e⟩ := by
  simp [step, hk, hb, pushEv]

end Ford.Parse

namespace Ford.Parse

theorem run_cons (s : St) (it : Item) (its : List Item) (s' : St) (h : step s it = .ok s') :
    run s (it :: its) = run (afterClose s it s') its := by
  simp [run, h]

theorem afterClose_ne (s s' : St) (it : Item) (h : it ≠ .endUnit) : afterClose s it s' = s' := by
  cases it <;> simp_all [afterClose]

theorem openItem_ne_end (k : CK) (id : Nat) (g a : Bool) : openItem k id g a ≠ .endUnit := by
  cases k <;> simp [openItem]

theorem leafItem_ne_end (lk : LeafK) (id : Nat) : leafItem lk id ≠ .endUnit := by
  cases lk <;> simp [leafItem]

/-- inside a container other than the file no PROGRAM can be declared -/
theorem progs_zero (evs : Evs) (k : CK) (inc : Bool) (hk : k ≠ .file) (h : evs.wf k inc = true) :
    evs.progs = 0 := by
  match evs with
  | .nil => rfl
  | .consL lk id r =>
    simp [Evs.wf] at h
    simp [Evs.progs, progs_zero r k inc hk h.2]
  | .consD (.mk ck cid g a pre hc post) r =>
    simp [Evs.wf, Decl.wf] at h
    have h1 := h.1.1.1.1.1
    have : (ck == CK.program) = false := by
      cases ck <;> cases k <;> simp_all [childAllowed]
    simp [Evs.progs, this, progs_zero r k inc hk h.2]

mutual
theorem run_decl (d : Decl) (f : Frame) (stk : List Frame) (e : List Err) (rest : List Item)
    (hw : d.wf f.kind f.incontains = true) (hb : f.blocklevel = 0)
    (hp : f.programs + isProgram d.kind ≤ 1) :
    run ⟨f :: stk, e⟩ (d.flatten ++ rest) =
      run ⟨addEvs f [.inl d.canon] (isProgram d.kind) :: stk, e⟩ rest := by
  match d with
  | .mk k id g a pre hc post =>
    simp only [Decl.wf, Bool.and_eq_true] at hw
    obtain ⟨⟨⟨⟨hca, hga⟩, hna⟩, hpre⟩, hpost⟩ := hw
    have hkf : k ≠ .file := by
      intro hk; subst hk; simp [childAllowed] at hca
    simp only [Decl.flatten, List.cons_append, List.append_assoc]
    rw [run_cons _ _ _ _ (step_open f stk e k id g a hca hb hga hna),
      afterClose_ne _ _ _ (openItem_ne_end k id g a)]
    -- specification part
    have hpz := progs_zero pre k false hkf hpre
    rw [run_evs pre _ _ _ _ (by simpa using hpre) rfl (by simp [hpz])]
    cases hc with
    | false =>
      simp only [Bool.false_eq_true, ↓reduceIte] at hpost
      have hpn : post = .nil := by
        cases post <;> simp_all [Evs.isNil]
      subst hpn
      simp only [Bool.false_eq_true, ↓reduceIte, Evs.flatten, List.nil_append, List.cons_append]
      rw [run_cons _ _ _ _ (step_end _ _ _ _ (by simpa [addEvs] using hkf) (by simp [addEvs]))]
      simp only [afterClose, addEvs, Frame.close, Decl.canon, Evs.canon, hpz]
      simp only [Decl.kind] at hp
      simp
      split
      · rename_i h; exact absurd h.2 (by omega)
      · simp [Decl.kind]
    | true =>
      simp only [↓reduceIte, Bool.and_eq_true] at hpost
      obtain ⟨hchc, hpw⟩ := hpost
      simp only [↓reduceIte, List.cons_append, List.nil_append, List.append_assoc]
      rw [run_cons _ _ _ _ (step_contains _ _ _ (by simpa [addEvs] using hchc) (by simp [addEvs])),
        afterClose_ne _ _ _ (by simp)]
      have hqz := progs_zero post k true hkf hpw
      rw [run_evs post _ _ _ _ (by simpa [addEvs] using hpw) (by simp [addEvs]) (by simp [addEvs, hpz, hqz])]
      rw [run_cons _ _ _ _ (step_end _ _ _ _ (by simpa [addEvs] using hkf) (by simp [addEvs]))]
      simp only [afterClose, addEvs, Frame.close, Decl.canon, Evs.canon, hpz, hqz]
      simp only [Decl.kind] at hp
      simp
      split
      · rename_i h; exact absurd h.2 (by omega)
      · simp [Decl.kind]

theorem run_evs (evs : Evs) (f : Frame) (stk : List Frame) (e : List Err) (rest : List Item)
    (hw : evs.wf f.kind f.incontains = true) (hb : f.blocklevel = 0)
    (hp : f.programs + evs.progs ≤ 1) :
    run ⟨f :: stk, e⟩ (evs.flatten ++ rest) =
      run ⟨addEvs f evs.canon evs.progs :: stk, e⟩ rest := by
  match evs with
  | .nil => simp [Evs.flatten, Evs.canon, Evs.progs, addEvs]
  | .consL lk id r =>
    simp only [Evs.wf, Bool.and_eq_true] at hw
    simp only [Evs.flatten, List.cons_append]
    rw [run_cons _ _ _ _ (step_leaf f stk e lk id hw.1 hb), afterClose_ne _ _ _ (leafItem_ne_end lk id)]
    rw [run_evs r _ _ _ _ (by simpa using hw.2) (by simpa using hb) (by simpa [Evs.progs] using hp)]
    simp [addEvs, Evs.canon, Evs.progs]
  | .consD d r =>
    simp only [Evs.wf, Bool.and_eq_true] at hw
    simp only [Evs.flatten, List.append_assoc]
    rw [run_decl d f stk e _ hw.1 hb (by
      cases d with | mk k id g a pre hc post => simp [Evs.progs, Decl.kind, isProgram] at hp ⊢; cases k <;> simp_all <;> omega)]
    rw [run_evs r _ _ _ _ (by simpa [addEvs] using hw.2) (by simpa [addEvs] using hb) (by
      cases d with | mk k id g a pre hc post => simp [Evs.progs, Decl.kind, isProgram, addEvs] at hp ⊢; cases k <;> simp_all <;> omega)]
    cases d with
    | mk k id g a pre hc post =>
      simp only [Evs.progs] at hp
      simp [addEvs, Evs.canon, Evs.progs, Decl.kind, isProgram]
      cases k <;> simp [Nat.add_assoc]
end

end Ford.Parse
