/-
  Lemmas about the backtracking model (FordModel/Backtrack.lean):
    * `paths_first`      - `first` / `nullable` are sound for `paths`
    * `functional_le_one` - a `functional` expression has at most one way to match
    * `iter_linear`      - a loop over a body with at most one way has at most |s| + 1 ways
-/
import FordModel.Backtrack
namespace Ford.Rx

theorem inCls_or (a b : Nat) (c : Char) : inCls (a ||| b) c = (inCls a c || inCls b c) := by
  simp only [inCls, Nat.testBit_or]
  cases decide (c.toNat < 128) <;> simp

theorem inCls_zero (c : Char) : inCls 0 c = false := by simp [inCls]

theorem inCls_disjoint (a b : Nat) (h : a &&& b = 0) (c : Char) (ha : inCls a c = true) : inCls b c = false := by
  simp only [inCls, Bool.and_eq_true, decide_eq_true_eq] at ha
  have : (a &&& b).testBit c.toNat = false := by rw [h]; simp
  rw [Nat.testBit_and, ha.2] at this
  simp only [Bool.true_and] at this
  simp [inCls, this]

theorem length_flatMap_le_one {α β : Type} (l : List α) (f : α → List β) (hl : l.length ≤ 1)
    (hf : ∀ x, (f x).length ≤ 1) : (l.flatMap f).length ≤ 1 := by
  match l, hl with
  | [], _ => simp
  | [x], _ => simpa using hf x

/-- elements of a loop's result: either nothing was consumed and the lower bound is reached,
    or the subject starts with a character the body can start with -/
theorem iter_first (f : Str → List Str) (m : Nat) (lo : Nat) (hi : Option Nat)
    (hf : ∀ s x, x ∈ f s → x = s ∨ ∃ c t, s = c :: t ∧ inCls m c = true) :
    ∀ (fuel k : Nat) (s x : Str), x ∈ iter f lo hi fuel k s →
      (x = s ∧ lo ≤ k) ∨ ∃ c t, s = c :: t ∧ inCls m c = true := by
  intro fuel
  induction fuel with
  | zero => intro k s x h; simp [iter] at h
  | succ n _ =>
    intro k s x h
    simp only [iter, List.mem_append] at h
    rcases h with h | h
    · split at h
      · simp at h; exact .inl ⟨h, by assumption⟩
      · simp at h
    · split at h
      · simp only [List.mem_flatMap, List.mem_filter, decide_eq_true_eq] at h
        obtain ⟨t, ⟨ht, hlt⟩, _⟩ := h
        rcases hf s t ht with h1 | h1
        · subst h1; omega
        · exact .inr h1
      · simp at h

/-- **`first` and `nullable` are sound**: a way to match either consumes nothing (and the
    expression is nullable) or starts with a character of `first` -/
theorem paths_first (n0 : Nat) (r : Rx) : ∀ (s x : Str), x ∈ paths n0 r s →
    (x = s ∧ nullable r = true) ∨ ∃ c t, s = c :: t ∧ inCls (first r) c = true := by
  induction r with
  | cls m =>
    intro s x h
    match s with
    | [] => simp [paths] at h
    | c :: t =>
      simp only [paths] at h
      split at h
      · exact .inr ⟨c, t, rfl, by simpa [first]⟩
      · simp at h
  | eps => intro s x h; simp [paths] at h; simp [h, nullable]
  | bos => intro s x h; simp only [paths] at h; split at h <;> simp at h; simp [h, nullable]
  | eos => intro s x h; simp only [paths] at h; split at h <;> simp at h; simp [h, nullable]
  | lookb => intro s x h; simp [paths] at h; simp [h, nullable]
  | look neg r _ => intro s x h; simp only [paths] at h; split at h <;> simp at h; simp [h, nullable]
  | seq a b iha ihb =>
    intro s x h
    simp only [paths, List.mem_flatMap] at h
    obtain ⟨y, hy, hx⟩ := h
    rcases iha s y hy with ⟨rfl, hna⟩ | ⟨c, t, rfl, hc⟩
    · rcases ihb y x hx with ⟨rfl, hnb⟩ | ⟨c, t, rfl, hc⟩
      · exact .inl ⟨rfl, by simp [nullable, hna, hnb]⟩
      · exact .inr ⟨c, t, rfl, by simp [first, hna, inCls_or, hc]⟩
    · refine .inr ⟨c, t, rfl, ?_⟩
      simp only [first]
      split
      · simp [inCls_or, hc]
      · exact hc
  | alt a b iha ihb =>
    intro s x h
    simp only [paths, List.mem_append] at h
    rcases h with h | h
    · rcases iha s x h with ⟨rfl, hn⟩ | ⟨c, t, rfl, hc⟩
      · exact .inl ⟨rfl, by simp [nullable, hn]⟩
      · exact .inr ⟨c, t, rfl, by simp [first, inCls_or, hc]⟩
    · rcases ihb s x h with ⟨rfl, hn⟩ | ⟨c, t, rfl, hc⟩
      · exact .inl ⟨rfl, by simp [nullable, hn]⟩
      · exact .inr ⟨c, t, rfl, by simp [first, inCls_or, hc]⟩
  | rep lo hi a iha =>
    intro s x h
    simp only [paths] at h
    have hf : ∀ s x, x ∈ paths n0 a s → x = s ∨ ∃ c t, s = c :: t ∧ inCls (first a) c = true := by
      intro s x hx
      rcases iha s x hx with ⟨h1, _⟩ | h1
      · exact .inl h1
      · exact .inr h1
    rcases iter_first _ (first a) lo hi hf _ _ _ _ h with ⟨rfl, hk⟩ | h1
    · exact .inl ⟨rfl, by simp [nullable]; left; omega⟩
    · exact .inr (by simpa [first] using h1)

/-- a non-nullable expression has no way to match where the subject starts with a character
    outside `first` (or is empty) -/
theorem paths_nil_of_not_first (n0 : Nat) (r : Rx) (hn : nullable r = false) (s : Str)
    (hs : ∀ c t, s = c :: t → inCls (first r) c = false) : paths n0 r s = [] := by
  apply List.eq_nil_iff_forall_not_mem.mpr
  intro x hx
  rcases paths_first n0 r s x hx with ⟨_, h⟩ | ⟨c, t, rfl, hc⟩
  · simp [hn] at h
  · simp [hs c t rfl] at hc

/-- a run of one character set followed by something that starts outside the set:
    there is one place where the run can stop -/
theorem run_then_le_one (m lo : Nat) (hi : Option Nat) (g : Str → List Str)
    (hg : ∀ s, (g s).length ≤ 1)
    (hg0 : ∀ c t, inCls m c = true → g (c :: t) = []) :
    ∀ (fuel k : Nat) (s : Str),
      ((iter (fun s => match s with | c :: t => if inCls m c then [t] else [] | [] => []) lo hi fuel k s).flatMap g).length ≤ 1 := by
  intro fuel
  induction fuel with
  | zero => intro k s; simp [iter]
  | succ n ih =>
    intro k s
    match s with
    | [] =>
      simp only [iter, List.filter_nil, List.flatMap_nil, List.flatMap_append, List.length_append]
      have := hg []
      split <;> split <;> simp <;> omega
    | c :: t =>
      by_cases hc : inCls m c = true
      · have h0 := hg0 c t hc
        have := ih (k + 1) t
        simp only [iter, hc, List.flatMap_append, List.length_append]
        split <;> split <;> simp [-List.length_flatMap, h0] <;> omega
      · have := hg (c :: t)
        simp only [iter, hc, List.flatMap_append, List.length_append]
        split <;> split <;> simp <;> omega

/-- **A `functional` expression has at most one way to match**, at any position of any subject. -/
theorem functional_le_one (n0 : Nat) (r : Rx) : functional r = true → ∀ s, (paths n0 r s).length ≤ 1 := by
  fun_induction functional r with
  | case1 m => intro _ s; cases s <;> simp [paths]; split <;> simp
  | case2 => intro _ s; simp [paths]
  | case3 => intro _ s; simp only [paths]; split <;> simp
  | case4 => intro _ s; simp only [paths]; split <;> simp
  | case5 => intro _ s; simp [paths]
  | case6 => intro _ s; simp only [paths]; split <;> simp
  | case7 lo hi m b ihb =>
    intro h s
    simp only [Bool.and_eq_true, Bool.not_eq_true', beq_iff_eq] at h
    obtain ⟨⟨hfb, hnb⟩, hdis⟩ := h
    simp only [paths]
    apply run_then_le_one m lo hi (paths n0 b) (ihb hfb)
    intro c t hc
    apply paths_nil_of_not_first n0 b hnb
    intro c' t' he
    cases he
    exact inCls_disjoint m (first b) (by rw [Nat.and_comm]; exact hdis) c hc
  | case8 a b _ iha ihb =>
    intro h s
    simp only [Bool.and_eq_true] at h
    simp only [paths]
    exact length_flatMap_le_one _ _ (iha h.1 s) (ihb h.2)
  | case9 a b iha ihb =>
    intro h s
    simp only [Bool.and_eq_true, Bool.not_eq_true', beq_iff_eq] at h
    obtain ⟨⟨⟨⟨hfa, hfb⟩, hna⟩, hnb⟩, hdis⟩ := h
    simp only [paths, List.length_append]
    match s with
    | [] =>
      rw [paths_nil_of_not_first n0 a hna [] (by simp), paths_nil_of_not_first n0 b hnb [] (by simp)]
      simp
    | c :: t =>
      by_cases hc : inCls (first a) c = true
      · rw [paths_nil_of_not_first n0 b hnb (c :: t)
            (by intro c' t' he; cases he; exact inCls_disjoint _ _ hdis c hc)]
        simpa using iha hfa (c :: t)
      · rw [paths_nil_of_not_first n0 a hna (c :: t) (by intro c' t' he; cases he; simpa using hc)]
        simpa using ihb hfb (c :: t)
  | case10 => intro h; simp at h

/-- **A loop over a body that has at most one way to match has at most `|s| + 1` ways.** -/
theorem iter_linear (f : Str → List Str) (hf : ∀ s, (f s).length ≤ 1) (lo : Nat) (hi : Option Nat) :
    ∀ (fuel k : Nat) (s : Str), (iter f lo hi fuel k s).length ≤ s.length + 1 := by
  intro fuel
  induction fuel with
  | zero => intro k s; simp [iter]
  | succ n ih =>
    intro k s
    simp only [iter, List.length_append]
    have h1 : (if lo ≤ k then [s] else []).length ≤ 1 := by split <;> simp
    have h2 : (if hiAllows hi k = true then
        ((f s).filter (fun t => decide (t.length < s.length))).flatMap (iter f lo hi n (k + 1)) else []).length
        ≤ s.length := by
      split
      · have hfs := hf s
        match hfs' : f s, hfs with
        | [], _ => simp
        | [t], _ =>
          by_cases hlt : t.length < s.length
          · have := ih (k + 1) t
            simp [hlt]; omega
          · simp [hlt]
      · simp
    omega

theorem iterK_eq_any (f : Str → (Str → Bool) → Bool) (g : Str → List Str)
    (hf : ∀ s k, f s k = (g s).any k) (lo : Nat) (hi : Option Nat) :
    ∀ (fuel k : Nat) (s : Str) (kont : Str → Bool),
      iterK f lo hi fuel k s kont = (iter g lo hi fuel k s).any kont := by
  intro fuel
  induction fuel with
  | zero => intro k s kont; simp [iterK, iter]
  | succ n ih =>
    intro k s kont
    simp only [iterK, iter, List.any_append, hf]
    rw [Bool.or_comm]
    congr 1
    · split
      · simp_all
      · rename_i h; simp; intro h2; omega
    · cases hiAllows hi k
      · simp
      · simp only [Bool.true_and, if_true, List.any_flatMap, List.any_filter]
        congr 1
        funext t
        rw [ih]

/-- **The backtracking matcher computes `paths`**: running the engine with continuation `k`
    succeeds exactly when one of the ways of `paths` is accepted by `k`. -/
theorem matchK_eq_any (n0 : Nat) (r : Rx) : ∀ (s : Str) (k : Str → Bool),
    matchK n0 r s k = (paths n0 r s).any k := by
  induction r with
  | cls m =>
    intro s k
    match s with
    | [] => simp [matchK, paths]
    | c :: t => simp only [matchK, paths]; split <;> simp_all
  | eps => intro s k; simp [matchK, paths]
  | bos => intro s k; simp only [matchK, paths]; split <;> simp_all
  | eos => intro s k; simp only [matchK, paths]; split <;> simp_all
  | lookb => intro s k; simp [matchK, paths]
  | look neg r ih =>
    intro s k
    simp only [matchK, paths, ih]
    have : (paths n0 r s).any (fun _ => true) = !(paths n0 r s).isEmpty := by
      cases paths n0 r s <;> simp
    rw [this]
    split <;> simp_all
  | seq a b iha ihb =>
    intro s k
    simp only [matchK, paths, List.any_flatMap]
    rw [iha]
    congr 1
    funext t
    exact ihb t k
  | alt a b iha ihb => intro s k; simp [matchK, paths, List.any_append, iha, ihb]
  | rep lo hi a iha =>
    intro s k
    simp only [matchK, paths]
    exact iterK_eq_any _ _ iha lo hi _ _ _ _

end Ford.Rx
