import FordModel.Reader
import FordModel.Lemmas.Reader
import FordModel.Lemmas.ReaderLayout
namespace Ford

/-! ### The reader on a preceding doc block (`!>` first, then `!>` / `!!` / ordinary comment /
    blank lines) followed by a statement: symbolic evaluation of `feed` -/

/-- a physical line of a preceding doc block -/
inductive DLine
  | pre (ind t : Str)     -- `<ind>!<pre-marker><t>`
  | doc (ind t : Str)     -- `<ind>!<doc-marker><t>`
  | plain (ind c : Str)   -- `<ind>!<c>`, an ordinary comment
  | blank (ind : Str)     -- blank line

def DLine.render (m : Marks) : DLine → Str
  | .pre ind t => ind ++ '!' :: (m.pre ++ t)
  | .doc ind t => ind ++ '!' :: (m.doc ++ t)
  | .plain ind c => ind ++ '!' :: c
  | .blank ind => ind

/-- the doc item the line contributes (marker rewritten to the plain doc marker) -/
def DLine.docs (m : Marks) : DLine → List Str
  | .pre _ t => ['!' :: (m.doc ++ t)]
  | .doc _ t => ['!' :: (m.doc ++ t)]
  | _ => []

/-- the text of the doc line, as `read_docstring` cuts it -/
def DLine.texts : DLine → List Str
  | .pre _ t => [t]
  | .doc _ t => [t]
  | _ => []

/-- the line is what it is meant to be: indentation blank, the marker is configured, and the
    text after the `!` cannot be read as one of the *other* markers -/
def DLine.wf (m : Marks) : DLine → Prop
  | .pre ind t => isBlank ind = true ∧ m.pre ≠ [] ∧ startsWith (m.pre ++ t) m.preAlt = false ∧
      startsWith (m.pre ++ t) m.alt = false ∧ startsWith (m.pre ++ t) m.doc = false
  | .doc ind t => isBlank ind = true ∧ m.doc ≠ [] ∧ startsWith (m.doc ++ t) m.pre = false ∧
      startsWith (m.doc ++ t) m.preAlt = false ∧ startsWith (m.doc ++ t) m.alt = false
  | .plain ind c => isBlank ind = true ∧ startsWith c m.pre = false ∧ startsWith c m.preAlt = false ∧
      startsWith c m.alt = false ∧ startsWith c m.doc = false
  | .blank ind => isBlank ind = true

/-- reader state between logical lines: nothing buffered, no block open -/
def fresh (pd : Bool) : RS := { prevdoc := pd }

/-- reader state inside a `!>` block: the doc lines met so far are buffered -/
def inPre (docs : List Str) (pd : Bool) : RS := { docbuffer := docs, prevdoc := pd, readingPredoc := true }

theorem startsWith_self_append (a b : Str) : startsWith (a ++ b) a = true := by
  induction a with
  | nil => cases b <;> simp [startsWith]
  | cons c cs ih => simp [startsWith, ih]

theorem atoms_of_blank (ind : Str) (h : isBlank ind = true) : Atoms ind := by
  induction ind with
  | nil => exact .nil
  | cons c cs ih =>
    simp only [isBlank, List.all_cons, Bool.and_eq_true] at h
    have hc : isSpace c = true := h.1
    refine .plain c cs ?_ ?_ (ih (by simpa [isBlank] using h.2))
    · simp only [isSpace, Bool.or_eq_true, beq_iff_eq] at hc
      rcases hc with ((((h | h) | h) | h) | h) | h <;> subst h <;> decide
    · intro e; subst e; simp [isSpace] at hc

theorem matchDocmark_ind (mark ind s : Str) (h : isBlank ind = true) (hm : mark ≠ []) :
    matchDocmark mark (ind ++ '!' :: s) false = if startsWith s mark then some ind.length else none := by
  have he : mark.isEmpty = false := by cases mark <;> simp_all
  simp [matchDocmark, he, comScan, comScanAux_of_atoms mark ind s 0 (atoms_of_blank ind h)]

/-- also for an unconfigured (empty) marker, given that the text does not start with it -/
theorem matchDocmark_ind_none (mark ind s : Str) (h : isBlank ind = true) (hs : startsWith s mark = false) :
    matchDocmark mark (ind ++ '!' :: s) false = none := by
  by_cases he : mark.isEmpty = true
  · simp [matchDocmark, he]
  · simp [matchDocmark, he, comScan, comScanAux_of_atoms mark ind s 0 (atoms_of_blank ind h), hs]

theorem matchDocmark_blank (mark ind : Str) (h : isBlank ind = true) : matchDocmark mark ind false = none := by
  simp [matchDocmark, comScan, comScanAux_atoms_none mark ind 0 (atoms_of_blank ind h)]

theorem matchCom_ind (ind s : Str) (h : isBlank ind = true) :
    matchCom (ind ++ '!' :: s) false = some ind.length := by
  have : startsWith s [] = true := by cases s <;> rfl
  simp [matchCom, comScan, comScanAux_of_atoms [] ind s 0 (atoms_of_blank ind h), this]

theorem matchCom_blank (ind : Str) (h : isBlank ind = true) : matchCom ind false = none := by
  simp [matchCom, comScan, comScanAux_atoms_none [] ind 0 (atoms_of_blank ind h)]

theorem lstrip_blank_append (ind s : Str) (h : isBlank ind = true) : lstrip (ind ++ s) = lstrip s := by
  induction ind with
  | nil => rfl
  | cons c cs ih =>
    simp only [isBlank, List.all_cons, Bool.and_eq_true] at h
    simp [lstrip, h.1, ih (by simpa [isBlank] using h.2)]

theorem firstStripped_ind (ind s : Str) (h : isBlank ind = true) :
    firstStripped (ind ++ '!' :: s) = some '!' := by
  have : isSpace '!' = false := by decide
  simp [firstStripped, lstrip_blank_append ind _ h, lstrip, this]

theorem firstStripped_blank (ind : Str) (h : isBlank ind = true) : firstStripped ind = none := by
  simp [firstStripped, lstrip_blank_nil ind h]

theorem strip_blank (ind : Str) (h : isBlank ind = true) : strip ind = [] := by
  simp [strip, lstrip_blank_nil ind h, rstrip, lstrip]

theorem unterminated_nil : unterminated [] = false := by decide

theorem drop_ind (ind s : Str) : (ind ++ s).drop ind.length = s := by simp
theorem take_ind (ind s : Str) : (ind ++ s).take ind.length = ind := by simp
theorem drop_mark (c : Char) (a t : Str) : (c :: (a ++ t)).drop (1 + a.length) = t := by
  rw [Nat.add_comm]; simp

/-- a `!>` line, met between logical lines or inside a `!>` block: buffered, block (re)opened -/
theorem feed_pre (m : Marks) (docs : List Str) (pd rp : Bool) (ind t : Str) (h : (DLine.pre ind t).wf m) :
    feed m { docbuffer := docs, prevdoc := pd, readingPredoc := rp } (ind ++ '!' :: (m.pre ++ t)) =
      .ok (inPre (docs ++ ['!' :: (m.doc ++ t)]) pd, []) := by
  obtain ⟨hb, hne, h1, h2, h3⟩ := h
  have e0 : (firstStripped (ind ++ '!' :: (m.pre ++ t)) == some '#') = false := by
    rw [firstStripped_ind ind _ hb]; decide
  have e1 : matchDocmark m.pre (ind ++ '!' :: (m.pre ++ t)) false = some ind.length := by
    rw [matchDocmark_ind m.pre ind _ hb hne, startsWith_self_append]; rfl
  have e2 := matchDocmark_ind_none m.preAlt ind _ hb h1
  have e3 := matchDocmark_ind_none m.alt ind _ hb h2
  have e4 := matchDocmark_ind_none m.doc ind _ hb h3
  have e5 := matchCom_ind ind (m.pre ++ t) hb
  have e6 := firstStripped_ind ind (m.pre ++ t) hb
  have e7 := strip_blank ind hb
  simp only [feed, unterminated_nil, e1, e2, e3, e4, e5, e6, hb, drop_ind, take_ind, e7,
    Bool.false_eq_true, ↓reduceIte, Bool.not_true]
  simp [feedTail, inPre, substMark, drop_mark]

/-- a plain doc-marker line inside a `!>` block stays in the block (it does not end it) -/
theorem feed_doc (m : Marks) (docs : List Str) (pd : Bool) (ind t : Str) (h : (DLine.doc ind t).wf m) :
    feed m (inPre docs pd) (ind ++ '!' :: (m.doc ++ t)) = .ok (inPre (docs ++ ['!' :: (m.doc ++ t)]) pd, []) := by
  obtain ⟨hb, hne, h1, h2, h3⟩ := h
  have e1 := matchDocmark_ind_none m.pre ind _ hb h1
  have e2 := matchDocmark_ind_none m.preAlt ind _ hb h2
  have e3 := matchDocmark_ind_none m.alt ind _ hb h3
  have e4 : matchDocmark m.doc (ind ++ '!' :: (m.doc ++ t)) false = some ind.length := by
    rw [matchDocmark_ind m.doc ind _ hb hne, startsWith_self_append]; rfl
  have e5 := matchCom_blank ind hb
  have e6 := firstStripped_ind ind (m.doc ++ t) hb
  have e6' := firstStripped_blank ind hb
  have e7 := strip_blank ind hb
  simp only [feed, inPre, unterminated_nil, e1, e2, e3, e4, e5, e6, e6', drop_ind, take_ind, e7]
  simp [feedTail]

/-- an ordinary comment line inside a `!>` block is dropped and does not end the block -/
theorem feed_plain (m : Marks) (d : Str) (ds : List Str) (pd : Bool) (ind c : Str) (h : (DLine.plain ind c).wf m) :
    feed m (inPre (d :: ds) pd) (ind ++ '!' :: c) = .ok (inPre (d :: ds) pd, []) := by
  obtain ⟨hb, h1, h2, h3, h4⟩ := h
  have e1 := matchDocmark_ind_none m.pre ind _ hb h1
  have e2 := matchDocmark_ind_none m.preAlt ind _ hb h2
  have e3 := matchDocmark_ind_none m.alt ind _ hb h3
  have e4 := matchDocmark_ind_none m.doc ind _ hb h4
  have e5 := matchCom_ind ind c hb
  have e6 := firstStripped_ind ind c hb
  have e7 := strip_blank ind hb
  simp only [feed, inPre, unterminated_nil, e1, e2, e3, e4, e5, e6, hb, drop_ind, take_ind, e7]
  simp [feedTail]

/-- a blank line inside a `!>` block does not end the block -/
theorem feed_blank (m : Marks) (d : Str) (ds : List Str) (pd : Bool) (ind : Str) (hb : isBlank ind = true) :
    feed m (inPre (d :: ds) pd) ind = .ok (inPre (d :: ds) pd, []) := by
  have e1 := matchDocmark_blank m.pre ind hb
  have e2 := matchDocmark_blank m.preAlt ind hb
  have e3 := matchDocmark_blank m.alt ind hb
  have e4 := matchDocmark_blank m.doc ind hb
  have e5 := matchCom_blank ind hb
  have e6 := firstStripped_blank ind hb
  have e7 := strip_blank ind hb
  simp only [feed, inPre, unterminated_nil, e1, e2, e3, e4, e5, e6, e7]
  simp [feedTail]

/-- the statement line that follows the block: its statements are emitted first, then the
    buffered doc lines, and the reader is between logical lines again -/
theorem feed_stmt (m : Marks) (d : Str) (ds : List Str) (pd : Bool) (l : Str) (x : Char) (r : Str)
    (hn : NoDoc m false l) (hc : codeOf false l = x :: r) (hx : x ≠ '&')
    (hl : (x :: r).getLast? ≠ some '&') (hJ : itemsOf (' ' :: x :: r) ≠ []) :
    feed m (inPre (d :: ds) pd) l = .ok (fresh true, itemsOf (' ' :: x :: r) ++ d :: ds) := by
  obtain ⟨h0, h1, h2, h3, h4⟩ := hn
  have h0' : (firstStripped l == some '#') = false := by simpa using h0
  have hx' : (x == '&') = false := by simp [hx]
  have hl' : ((x :: r).getLast? == some '&') = false := by simpa using hl
  obtain ⟨a, as, hI2⟩ : ∃ a as, itemsOf (' ' :: x :: r) = a :: as := by
    cases hh : itemsOf (' ' :: x :: r) with
    | nil => exact absurd hh hJ
    | cons a as => exact ⟨a, as, rfl⟩
  simp only [itemsOf] at hI2
  cases hm : matchCom l false with
  | none =>
    simp only [codeOf, hm] at hc
    simp only [feed, inPre, unterminated_nil, h0', h1, h2, h3, h4, hm, hc, Bool.false_eq_true, ↓reduceIte, ite_self]
    simp [hx', hl', feedTail, itemsOf, hI2, flush, fresh, strip, rstrip, lstrip]
  | some i =>
    simp only [codeOf, hm] at hc
    simp only [feed, inPre, unterminated_nil, h0', h1, h2, h3, h4, hm, hc, Bool.false_eq_true, ↓reduceIte, ite_self]
    simp [hx', hl', feedTail, itemsOf, hI2, flush, fresh, strip, rstrip, lstrip]

/-- any line of the block, read inside the block: its doc item (if any) is buffered, nothing is
    emitted, the block stays open -/
theorem feed_block_line (m : Marks) (d : Str) (ds : List Str) (pd : Bool) (l : DLine) (h : l.wf m) :
    feed m (inPre (d :: ds) pd) (l.render m) = .ok (inPre (d :: (ds ++ l.docs m)) pd, []) := by
  cases l with
  | pre ind t => simpa [inPre, DLine.render, DLine.docs] using feed_pre m (d :: ds) pd true ind t h
  | doc ind t => simpa [DLine.render, DLine.docs] using feed_doc m (d :: ds) pd ind t h
  | plain ind c => simpa [DLine.render, DLine.docs] using feed_plain m d ds pd ind c h
  | blank ind => simpa [DLine.render, DLine.docs] using feed_blank m d ds pd ind h

theorem readFrom_block (m : Marks) (d : Str) (ds : List Str) (pd : Bool) (blk : List DLine)
    (h : ∀ l ∈ blk, l.wf m) (rest : List Str) :
    readFrom m (inPre (d :: ds) pd) (blk.map (DLine.render m) ++ rest) =
      readFrom m (inPre (d :: (ds ++ blk.flatMap (DLine.docs m))) pd) rest := by
  induction blk generalizing ds with
  | nil => simp
  | cons l ls ih =>
    have hl := h l (by simp)
    have hls : ∀ l' ∈ ls, l'.wf m := fun l' hl' => h l' (by simp [hl'])
    simp only [List.map_cons, List.cons_append, List.flatMap_cons]
    rw [readFrom_step m _ _ _ _ [] (feed_block_line m d ds pd l hl), ih _ hls]
    simp only [List.append_assoc, List.nil_append]
    cases readFrom m (inPre (d :: (ds ++ (l.docs m ++ ls.flatMap (DLine.docs m)))) pd) rest <;> rfl

/-- **Preceding doc block.**  From a reader state between logical lines: a `!>` line, then any
    mixture of `!>` lines, plain doc-marker lines, ordinary comments and blank lines, then a
    statement line - nothing is emitted before the statement; at the statement line its
    statements are emitted, then every doc line of the block, complete and in order, rewritten
    to the plain doc marker; and the reader is between logical lines again. -/
theorem readFrom_predoc_block (m : Marks) (pd : Bool) (ind0 t0 : Str) (blk : List DLine) (l : Str)
    (x : Char) (r : Str) (rest : List Str)
    (h0 : (DLine.pre ind0 t0).wf m) (hb : ∀ b ∈ blk, b.wf m)
    (hn : NoDoc m false l) (hc : codeOf false l = x :: r) (hx : x ≠ '&')
    (hl : (x :: r).getLast? ≠ some '&') (hJ : itemsOf (' ' :: x :: r) ≠ []) :
    readFrom m (fresh pd) ((DLine.pre ind0 t0 :: blk).map (DLine.render m) ++ l :: rest) =
      match readFrom m (fresh true) rest with
      | .error e => .error e
      | .ok more =>
        .ok (itemsOf (' ' :: x :: r) ++ (DLine.pre ind0 t0 :: blk).flatMap (DLine.docs m) ++ more) := by
  have hf0 : feed m (fresh pd) ((DLine.pre ind0 t0).render m) = .ok (inPre ['!' :: (m.doc ++ t0)] pd, []) := by
    simpa [fresh, DLine.render] using feed_pre m [] pd false ind0 t0 h0
  simp only [List.map_cons, List.cons_append, List.flatMap_cons]
  rw [readFrom_step m _ _ _ _ [] hf0, readFrom_block m _ [] pd blk hb (l :: rest),
    readFrom_step m _ _ l rest _ (feed_stmt m _ _ pd l x r hn hc hx hl hJ)]
  cases readFrom m (fresh true) rest <;> simp [DLine.docs]

/-- with a one-character doc marker the buffered items are the texts behind `!c` -/
theorem docs_eq_texts (m : Marks) (c : Char) (hd : m.doc = [c]) (blk : List DLine) :
    blk.flatMap (DLine.docs m) = (blk.flatMap DLine.texts).map (fun d => '!' :: c :: d) := by
  induction blk with
  | nil => rfl
  | cons l ls ih =>
    simp only [List.flatMap_cons, List.map_append, ih]
    cases l <;> simp [DLine.docs, DLine.texts, hd]

end Ford
