/-
  Lemmas about FordModel/EnumValues.lean (the loop of `FortranEnum._cleanup`).
-/
import FordModel.EnumValues
import FordModel.Lemmas.ProjectLoop
namespace Ford.EnumValues
open Ford

theorem valueOf_bad (prev : Int) (e : Enumerator) (h : badEnumerator e = true) : valueOf prev e = none := by
  unfold badEnumerator at h
  unfold valueOf
  cases hi : e.initial with
  | none => simp [hi] at h
  | some s =>
    simp [hi] at h
    simp [h.1, h.2]

theorem valueOf_some_not_bad (prev : Int) (e : Enumerator) (v : Int) (h : valueOf prev e = some v) :
    badEnumerator e = false := by
  cases hb : badEnumerator e with
  | false => rfl
  | true => rw [valueOf_bad prev e hb] at h; cases h

/-- when the loop comes through, there is one value per enumerator and no enumerator is a bad one -/
theorem cleanupFrom_ok (es : List Enumerator) : ∀ (prev : Int) (vs : List Int),
    cleanupFrom prev es = .ok vs → vs.length = es.length ∧ ∀ e ∈ es, badEnumerator e = false := by
  induction es with
  | nil => intro prev vs h; simp [cleanupFrom] at h; subst h; simp
  | cons e es ih =>
    intro prev vs h
    unfold cleanupFrom at h
    cases hv : valueOf prev e with
    | none => simp [hv] at h
    | some v =>
      simp only [hv] at h
      cases hr : cleanupFrom v es with
      | error n => simp [hr] at h
      | ok ws =>
        simp only [hr] at h
        have hvs : vs = v :: ws := by cases h; rfl
        have := ih v ws hr
        subst hvs
        refine ⟨by simp [this.1], ?_⟩
        intro x hx
        cases List.mem_cons.mp hx with
        | inl hxe => subst hxe; exact valueOf_some_not_bad prev _ v hv
        | inr hxs => exact this.2 x hxs

/-- a bad enumerator anywhere in the block makes the loop raise, whatever precedes it -/
theorem cleanupFrom_bad (es : List Enumerator) (h : es.any badEnumerator = true) : ∀ (prev : Int),
    ∃ n, cleanupFrom prev es = .error n := by
  induction es with
  | nil => simp at h
  | cons e es ih =>
    intro prev
    unfold cleanupFrom
    cases hv : valueOf prev e with
    | none => exact ⟨e.name, rfl⟩
    | some v =>
      have hb := valueOf_some_not_bad prev e v hv
      have h' : es.any badEnumerator = true := by
        simpa [List.any_cons, hb] using h
      obtain ⟨n, hn⟩ := ih h' v
      exact ⟨n, by simp [hn]⟩

theorem enumOk_false_of_bad (es : List Enumerator) (h : es.any badEnumerator = true) : enumOk es = false := by
  obtain ⟨n, hn⟩ := cleanupFrom_bad es h (-1)
  simp [enumOk, enumCleanup, hn]

theorem fileWithEnums_skipped (o : Outcome) (enums : List (List Enumerator))
    (h : enums.any (fun es => es.any badEnumerator) = true) :
    ∃ e r, fileWithEnums o enums = .skipped e r := by
  cases o with
  | skipped e r => exact ⟨e, r, rfl⟩
  | registered p r =>
    refine ⟨.enumValue, r, ?_⟩
    have : enums.all enumOk = false := by
      rw [List.any_eq_true] at h
      obtain ⟨es, hes, hbad⟩ := h
      cases hall : enums.all enumOk with
      | false => rfl
      | true =>
        rw [List.all_eq_true] at hall
        have := hall es hes
        rw [enumOk_false_of_bad es hbad] at this
        cases this
    simp [fileWithEnums, this]

end Ford.EnumValues
