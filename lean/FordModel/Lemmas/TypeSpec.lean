/-
  Lemmas about the scanners of FordModel/TypeSpec.lean.
-/
import FordModel.TypeSpec
namespace Ford.TypeSpec

/-! ## keywords -/

theorem kwCI_lower (t r : Str) : kwCI (lower t) (t ++ r) = some r := by
  induction t with
  | nil => cases r <;> simp [lower, kwCI]
  | cons c cs ih => simpa [lower, kwCI] using ih

theorem kwCI_of_lower (kw t r : Str) (h : lower t = kw) : kwCI kw (t ++ r) = some r := by
  subst h; exact kwCI_lower t r

/-- the two keywords differ at a position both have -/
def diverge : Str → Str → Bool
  | a :: as, b :: bs => a != b || diverge as bs
  | _, _ => false

theorem kwCI_diverge (kw t r : Str) (h : diverge kw (lower t) = true) : kwCI kw (t ++ r) = none := by
  induction kw generalizing t with
  | nil => simp [diverge] at h
  | cons k ks ih =>
    cases t with
    | nil => simp [lower, diverge] at h
    | cons c cs =>
      simp only [lower, List.map_cons, diverge, Bool.or_eq_true, bne_iff_ne, ne_eq] at h
      by_cases hk : lowerChar c = k
      · subst hk
        simp only [List.cons_append, kwCI, beq_self_eq_true, if_true]
        exact ih cs (by simpa [lower] using h)
      · simp [kwCI, hk]

theorem kwCI_suffix (kw s r : Str) (h : kwCI kw s = some r) : ∃ p, s = p ++ r := by
  induction kw generalizing s with
  | nil => cases s <;> simp [kwCI] at h <;> exact ⟨[], by simp [h]⟩
  | cons k ks ih =>
    cases s with
    | nil => simp [kwCI] at h
    | cons c cs =>
      simp only [kwCI] at h
      split at h
      · obtain ⟨p, hp⟩ := ih cs h
        exact ⟨c :: p, by simp [hp]⟩
      · simp at h

theorem skipWs_suffix (s : Str) : ∃ p, s = p ++ skipWs s := by
  induction s with
  | nil => exact ⟨[], rfl⟩
  | cons c cs ih =>
    by_cases hc : isSpace c = true
    · obtain ⟨p, hp⟩ := ih
      exact ⟨c :: p, by simp only [skipWs, hc, if_true, List.cons_append]; rw [← hp]⟩
    · exact ⟨[], by simp [skipWs, hc]⟩

theorem skipWs_blank_append (w r : Str) (hw : isBlank w = true) : skipWs (w ++ r) = skipWs r := by
  induction w with
  | nil => rfl
  | cons c cs ih =>
    simp [isBlank] at hw
    simp only [List.cons_append, skipWs, hw.1, if_true]
    exact ih (by simp [isBlank]; exact hw.2)

theorem skipWs_of_head (c : Char) (cs : Str) (h : isSpace c = false) : skipWs (c :: cs) = c :: cs := by
  simp [skipWs, h]

/-! ## white space -/

theorem lstrip_blank_append (w r : Str) (hw : isBlank w = true) : lstrip (w ++ r) = lstrip r := by
  induction w with
  | nil => rfl
  | cons c cs ih =>
    simp [isBlank] at hw
    simp only [List.cons_append, lstrip, hw.1, if_true]
    exact ih (by simp [isBlank]; exact hw.2)

theorem lstrip_of_head (c : Char) (cs : Str) (h : isSpace c = false) : lstrip (c :: cs) = c :: cs := by
  simp [lstrip, h]

theorem removeWs_append (a b : Str) : removeWs (a ++ b) = removeWs a ++ removeWs b := by
  simp [removeWs]

theorem removeWs_blank (w : Str) (hw : isBlank w = true) : removeWs w = [] := by
  induction w with
  | nil => rfl
  | cons c cs ih =>
    simp [isBlank] at hw
    simp only [removeWs, List.filter_cons, hw.1, Bool.not_true]
    simpa [removeWs, isBlank] using ih (by simp [isBlank]; exact hw.2)

theorem removeWs_nospace (k : Str) (hk : ∀ c ∈ k, isSpace c = false) : removeWs k = k := by
  induction k with
  | nil => rfl
  | cons c cs ih =>
    simp only [removeWs, List.filter_cons, hk c (by simp), Bool.not_false, if_true]
    congr 1
    exact ih (fun d hd => hk d (by simp [hd]))


/-! ## get_parens -/

def isParen (c : Char) : Bool := c == '(' || c == ')' || c == '[' || c == ']'

/-- characters inside one level of parentheses are copied -/
theorem getParensAux_inner (inner x : Str) (acc : Str) (h : ∀ c ∈ inner, isParen c = false) :
    getParensAux (inner ++ x) 1 0 acc = getParensAux x 1 0 (inner.reverse ++ acc) := by
  induction inner generalizing acc with
  | nil => rfl
  | cons c cs ih =>
    have hc := h c (by simp)
    simp only [isParen, Bool.or_eq_false_iff, beq_eq_false_iff_ne, ne_eq] at hc
    obtain ⟨⟨⟨h1, h2⟩, h3⟩, h4⟩ := hc
    simp only [List.cons_append, getParensAux, h1, h2, h3, h4, beq_iff_eq, if_false]
    simp only [show ((1 : Int) == 0) = false by decide, Bool.and_false, Bool.false_and, if_false]
    rw [ih _ (fun d hd => h d (by simp [hd]))]
    simp

/-- characters at level 0 that neither stop the scan nor change the level are copied -/
theorem getParensAux_flat (d x : Str) (acc : Str)
    (h : ∀ c ∈ d, isParen c = false ∧ isStop c = false) :
    getParensAux (d ++ x) 0 0 acc = getParensAux x 0 0 (d.reverse ++ acc) := by
  induction d generalizing acc with
  | nil => rfl
  | cons c cs ih =>
    have hc := (h c (by simp)).1
    have hs := (h c (by simp)).2
    simp only [isParen, Bool.or_eq_false_iff, beq_eq_false_iff_ne, ne_eq] at hc
    obtain ⟨⟨⟨h1, h2⟩, h3⟩, h4⟩ := hc
    simp only [List.cons_append, getParensAux, h1, h2, h3, h4, hs, beq_iff_eq, if_false, Bool.false_and]
    rw [ih _ (fun d hd => h d (by simp [hd]))]
    simp

/-- where the scan ends: end of text, or a stop character at level 0 -/
def EndsScan (tail : Str) : Prop := tail = [] ∨ ∃ c cs, tail = c :: cs ∧ isStop c = true ∧ isParen c = false

theorem getParensAux_end (tail acc : Str) (h : EndsScan tail) :
    getParensAux tail 0 0 acc = .ok acc.reverse := by
  rcases h with rfl | ⟨c, cs, rfl, hs, hp⟩
  · simp [getParensAux]
  · simp only [isParen, Bool.or_eq_false_iff, beq_eq_false_iff_ne, ne_eq] at hp
    obtain ⟨⟨⟨h1, h2⟩, h3⟩, h4⟩ := hp
    simp [getParensAux, h1, h2, h3, h4, hs]

/-- `( inner )` followed by a tail that ends the scan -/
theorem getParens_paren (inner tail : Str) (h : ∀ c ∈ inner, isParen c = false) (ht : EndsScan tail) :
    getParens ('(' :: (inner ++ ')' :: tail)) = .ok ('(' :: (inner ++ [')'])) := by
  simp only [getParens, getParensAux, beq_self_eq_true, if_true]
  rw [show (0 : Int) + 1 = 1 by decide, getParensAux_inner inner _ _ h]
  simp only [getParensAux, show (')' == '(') = false by decide, beq_self_eq_true, if_true, if_false]
  rw [show (1 : Int) - 1 = 0 by decide, getParensAux_end _ _ ht]
  simp

/-- `*digits` followed by a tail that ends the scan -/
theorem getParens_flat (d tail : Str) (h : ∀ c ∈ d, isParen c = false ∧ isStop c = false)
    (ht : EndsScan tail) : getParens (d ++ tail) = .ok d := by
  simp only [getParens]
  rw [getParensAux_flat d tail [] h, getParensAux_end _ _ ht]
  simp

/-! ## VARKIND_RE -/

theorem lastClose_append_close (x : Str) (h : ∀ c ∈ x, c ≠ ')') : lastClose (x ++ [')']) = some x.length := by
  induction x with
  | nil => simp [lastClose]
  | cons c cs ih =>
    have := ih (fun d hd => h d (by simp [hd]))
    simp [lastClose, this]


/-! ## strip -/

theorem isBlank_append (a b : Str) : isBlank (a ++ b) = (isBlank a && isBlank b) := by
  simp [isBlank, List.all_append]

theorem isBlank_reverse (a : Str) : isBlank a.reverse = isBlank a := by
  simp [isBlank, List.all_reverse]

theorem lstrip_append (x y : Str) :
    lstrip (x ++ y) = if isBlank x then lstrip y else lstrip x ++ y := by
  induction x with
  | nil => simp [isBlank, lstrip]
  | cons c cs ih =>
    by_cases hc : isSpace c = true
    · simp only [List.cons_append, lstrip, hc, if_true, ih]
      simp [isBlank, hc]
    · simp [lstrip, hc, isBlank]

theorem rstrip_blank (w : Str) (hw : isBlank w = true) : rstrip w = [] := by
  simp [rstrip, lstrip_blank_nil _ (by rw [isBlank_reverse]; exact hw)]

theorem rstrip_cons (c : Char) (cs : Str) :
    rstrip (c :: cs) = if isBlank (c :: cs) then [] else c :: rstrip cs := by
  simp only [rstrip, List.reverse_cons, lstrip_append, isBlank_reverse]
  by_cases hb : isBlank cs = true
  · have hl : lstrip cs.reverse = [] := lstrip_blank_nil _ (by rw [isBlank_reverse]; exact hb)
    by_cases hc : isSpace c = true
    · have hbb : isBlank (c :: cs) = true := by simp [isBlank, hc]; simpa [isBlank] using hb
      simp [hb, hc, lstrip, hbb, hl]
    · have hbb : isBlank (c :: cs) = false := by simp [isBlank, hc]
      simp [hb, hc, lstrip, hbb, hl]
  · have : isBlank (c :: cs) = false := by
      simp only [isBlank, List.all_cons, Bool.and_eq_false_iff]
      right; simpa [isBlank] using hb
    simp [hb, this]

theorem lstrip_rstrip_comm (t : Str) : lstrip (rstrip t) = rstrip (lstrip t) := by
  induction t with
  | nil => rfl
  | cons c cs ih =>
    by_cases hc : isSpace c = true
    · rw [rstrip_cons]
      by_cases hb : isBlank (c :: cs) = true
      · have hcs : isBlank cs = true := by simpa [isBlank, hc] using hb
        simp [hb, lstrip, hc, lstrip_blank_nil cs hcs, rstrip]
      · simp only [hb, if_false, lstrip, hc, if_true, ih, Bool.false_eq_true]
    · have hb : isBlank (c :: cs) = false := by simp [isBlank, hc]
      rw [rstrip_cons]
      simp only [hb, if_false, lstrip, hc, Bool.false_eq_true]
      rw [rstrip_cons]; simp [hb]

theorem rstrip_idem (t : Str) : rstrip (rstrip t) = rstrip t := by
  simp [rstrip, lstrip_idem]

theorem strip_rstrip (t : Str) : strip (rstrip t) = strip t := by
  simp [strip, lstrip_rstrip_comm, rstrip_idem]

theorem lstrip_nospace (k : Str) (hk : ∀ c ∈ k, isSpace c = false) : lstrip k = k := by
  cases k with
  | nil => rfl
  | cons c cs => simp [lstrip, hk c (by simp)]

theorem rstrip_nospace (k : Str) (hk : ∀ c ∈ k, isSpace c = false) : rstrip k = k := by
  simp [rstrip, lstrip_nospace k.reverse (fun c hc => hk c (by simpa using hc))]

/-- `rstrip (A ++ tail) = A ++ rstrip tail` when `A` ends with a non-blank character -/
theorem rstrip_append_of_last (A tail : Str) (e : Char) (he : isSpace e = false) :
    rstrip ((A ++ [e]) ++ tail) = (A ++ [e]) ++ rstrip tail := by
  simp only [rstrip, List.reverse_append, List.reverse_cons, List.reverse_nil, List.nil_append,
    List.singleton_append, lstrip_append, isBlank_reverse]
  by_cases hb : isBlank tail = true
  · simp [hb, lstrip, he, lstrip_blank_nil tail.reverse (by rw [isBlank_reverse]; exact hb)]
  · simp [hb]

theorem strip_pad (w2 k w3 : Str) (h2 : isBlank w2 = true) (h3 : isBlank w3 = true)
    (hk : ∀ c ∈ k, isSpace c = false) : strip (w2 ++ k ++ w3) = k := by
  simp only [strip, List.append_assoc, lstrip_blank_append _ _ h2]
  cases k with
  | nil => simp [lstrip_blank_nil w3 h3, rstrip, lstrip]
  | cons c cs =>
    rw [List.cons_append, lstrip_of_head _ _ (hk c (by simp))]
    have : rstrip ((c :: cs) ++ w3) = (c :: cs) := by
      simp only [rstrip, List.reverse_append, lstrip_blank_append _ _ (by rw [isBlank_reverse]; exact h3)]
      rw [lstrip_nospace _ (fun d hd => hk d (by simpa [or_comm] using hd))]
      simp
    simpa using this


/-! ## the three spellings of a numeric kind -/

/-- characters of a "flat" kind / length value: no blank, parenthesis, bracket, comma, `=`, quote -/
def kindCh (c : Char) : Bool := !isSpace c && !isParen c && c != ',' && c != '=' && !isQuote c

theorem kindCh_space {c : Char} (h : kindCh c = true) : isSpace c = false := by
  simp [kindCh] at h; exact h.1.1.1.1
theorem kindCh_paren {c : Char} (h : kindCh c = true) : isParen c = false := by
  simp [kindCh] at h; exact h.1.1.1.2
theorem kindCh_comma {c : Char} (h : kindCh c = true) : c ≠ ',' := by
  simp [kindCh] at h; exact h.1.1.2
theorem kindCh_eq {c : Char} (h : kindCh c = true) : c ≠ '=' := by
  simp [kindCh] at h; exact h.1.2
theorem isParen_close {c : Char} (h : isParen c = false) : c ≠ ')' := by
  intro hc; subst hc; simp [isParen] at h
theorem blank_paren {w : Str} (hw : isBlank w = true) : ∀ c ∈ w, isParen c = false := by
  intro c hc
  have : isSpace c = true := by simpa [isBlank] using (List.all_eq_true.mp hw c hc)
  revert this; simp only [isSpace, isParen, Bool.or_eq_true, beq_iff_eq]
  rintro (((((h | h) | h) | h) | h) | h) <;> subst h <;> decide

inductive NumT where
  | integer | real | complex | logical
  deriving DecidableEq, Repr

def NumT.kw : NumT → Str
  | .integer => (chars! "integer") | .real => (chars! "real")
  | .complex => (chars! "complex") | .logical => (chars! "logical")

theorem vkSearch_paren (X : Str) (h : ∀ c ∈ X, c ≠ ')') :
    vkSearch ('(' :: (X ++ [')'])) = some (.g1 X) := by
  simp [vkSearch, vkAt, lastClose_append_close X h]

theorem kindMatch_no_eq (k : Str) (h : ∀ c ∈ k, c ≠ '=') : kindMatch k = none := by
  unfold kindMatch
  split
  · rfl
  · rename_i r hk
    obtain ⟨p, hp⟩ := kwCI_suffix _ _ _ hk
    obtain ⟨q, hq⟩ := skipWs_suffix r
    split
    · rename_i r' hs
      exfalso
      apply h '=' _ rfl
      rw [hp, hq, hs]; simp
    · rfl

theorem takeWhile_all {p : Char → Bool} (k : Str) (h : ∀ c ∈ k, p c = true) : k.takeWhile p = k := by
  induction k with
  | nil => rfl
  | cons c cs ih => simp [List.takeWhile, h c (by simp), ih (fun d hd => h d (by simp [hd]))]

theorem kindMatch_kw (K k : Str) (hK : lower K = (chars! "kind")) (hk : ∀ c ∈ k, kindCh c = true)
    (hne : k ≠ []) : kindMatch (K ++ '=' :: k) = some k := by
  unfold kindMatch
  rw [kwCI_of_lower _ K _ hK]
  have h1 : skipWs ('=' :: k) = '=' :: k := skipWs_of_head _ _ (by decide)
  have h2 : skipWs k = k := by
    cases k with
    | nil => rfl
    | cons c cs => exact skipWs_of_head _ _ (kindCh_space (hk c (by simp)))
  have h3 : k.takeWhile (fun c => c != ',' && !isSpace c) = k := by
    apply takeWhile_all
    intro c hc
    simp [kindCh_comma (hk c hc), kindCh_space (hk c hc)]
  simp only [h1, h2, h3]
  cases k with
  | nil => exact absurd rfl hne
  | cons c cs => simp

theorem numT_notProto (ty : NumT) : isProtoType ty.kw = false := by cases ty <;> decide
theorem numT_notChar (ty : NumT) : (ty.kw == (chars! "character")) = false := by cases ty <;> decide
theorem numT_notType (ty : NumT) : (ty.kw == (chars! "type") || ty.kw == (chars! "class")
    || ty.kw == (chars! "character")) = false := by cases ty <;> decide

/-- `t(k)` -/
theorem finish_paren (ty : NumT) (w2 k w3 rest : Str) (h2 : isBlank w2 = true) (h3 : isBlank w3 = true)
    (hk : ∀ c ∈ k, kindCh c = true) (hne : k ≠ []) :
    finish ty.kw ('(' :: ((w2 ++ k ++ w3) ++ [')'])) rest = .ok { vartype := ty.kw, rest, kind := some k } := by
  have hX : ∀ c ∈ w2 ++ k ++ w3, c ≠ ')' := by
    intro c hc
    simp only [List.mem_append] at hc
    rcases hc with (hc | hc) | hc
    · exact isParen_close (blank_paren h2 c hc)
    · exact isParen_close (kindCh_paren (hk c hc))
    · exact isParen_close (blank_paren h3 c hc)
  have hlen : ¬ (('(' :: ((w2 ++ k ++ w3) ++ [')'])).length < 3) := by
    cases k with
    | nil => exact absurd rfl hne
    | cons c cs => simp; omega
  have hXne : (w2 ++ k ++ w3).isEmpty = false := by
    cases k with
    | nil => exact absurd rfl hne
    | cons c cs => simp
  have hks : ∀ c ∈ k, isSpace c = false := fun c hc => kindCh_space (hk c hc)
  unfold finish
  simp only [hlen, decide_false, Bool.false_and, vkSearch_paren _ hX, hXne, strip_pad w2 k w3 h2 h3 hks,
    numT_notProto, numT_notChar]
  simp [removeWs_nospace k hks, kindMatch_no_eq k (fun c hc => kindCh_eq (hk c hc))]


/-! ## character classes -/

theorem space_cases {c : Char} (h : isSpace c = true) :
    c = ' ' ∨ c = '\t' ∨ c = '\n' ∨ c = '\r' ∨ c = '\x0b' ∨ c = '\x0c' := by
  simp only [isSpace, Bool.or_eq_true, beq_iff_eq] at h
  rcases h with ((((h | h) | h) | h) | h) | h <;> simp [h]

theorem paren_cases {c : Char} (h : isParen c = true) : c = '(' ∨ c = ')' ∨ c = '[' ∨ c = ']' := by
  simp only [isParen, Bool.or_eq_true, beq_iff_eq] at h
  rcases h with ((h | h) | h) | h <;> simp [h]

theorem digit_not_alpha {c : Char} (h : isDigit c = true) : isAlpha c = false := by
  simp only [isDigit, isAlpha, decide_eq_true_eq, Bool.or_eq_false_iff, decide_eq_false_iff_not, Char.le_def] at *
  have h1 : ('0':Char).val = 48 := by decide
  have h2 : ('9':Char).val = 57 := by decide
  have h3 : ('a':Char).val = 97 := by decide
  have h4 : ('z':Char).val = 122 := by decide
  have h5 : ('A':Char).val = 65 := by decide
  have h6 : ('Z':Char).val = 90 := by decide
  rw [h1, h2] at h
  rw [h3, h4, h5, h6]
  constructor <;> (intro hh; have := h.1; have := h.2; have := hh.1; have := hh.2; simp only [UInt32.le_iff_toNat_le] at *; simp at *; omega)

theorem digit_space {c : Char} (h : isDigit c = true) : isSpace c = false := by
  cases hs : isSpace c with
  | false => rfl
  | true =>
    rcases space_cases hs with h' | h' | h' | h' | h' | h' <;> subst h' <;> revert h <;> decide

theorem digit_paren {c : Char} (h : isDigit c = true) : isParen c = false := by
  cases hs : isParen c with
  | false => rfl
  | true => rcases paren_cases hs with h' | h' | h' | h' <;> subst h' <;> revert h <;> decide

theorem digit_ne {c d : Char} (h : isDigit c = true) (hd : isDigit d = false) : c ≠ d := by
  intro e; subst e; simp [h] at hd

theorem digit_stop {c : Char} (h : isDigit c = true) : isStop c = false := by
  simp only [isStop, digit_not_alpha h, Bool.false_or, Bool.or_eq_false_iff, beq_eq_false_iff_ne, ne_eq]
  exact ⟨⟨⟨digit_ne h (by decide), digit_ne h (by decide)⟩, digit_ne h (by decide)⟩, digit_ne h (by decide)⟩

theorem alpha_space {c : Char} (h : isAlpha c = true) : isSpace c = false := by
  cases hs : isSpace c with
  | false => rfl
  | true =>
    rcases space_cases hs with h' | h' | h' | h' | h' | h' <;> subst h' <;> revert h <;> decide

theorem alpha_paren {c : Char} (h : isAlpha c = true) : isParen c = false := by
  cases hs : isParen c with
  | false => rfl
  | true => rcases paren_cases hs with h' | h' | h' | h' <;> subst h' <;> revert h <;> decide

theorem lowerChar_alpha {c : Char} (h : isAlpha (lowerChar c) = true) : isAlpha c = true := by
  unfold lowerChar at h
  split at h
  · rename_i hr
    simp only [isAlpha, Bool.or_eq_true, decide_eq_true_eq]
    right; exact hr
  · exact h

/-- a word spelled like an all-letter keyword consists of letters -/
theorem kw_alpha (K kw : Str) (h : lower K = kw) (hkw : ∀ c ∈ kw, isAlpha c = true) :
    ∀ c ∈ K, isAlpha c = true := by
  intro c hc
  apply lowerChar_alpha
  apply hkw
  rw [← h]; exact List.mem_map_of_mem hc

theorem removeWs_lstrip (s : Str) : removeWs (lstrip s) = removeWs s := by
  induction s with
  | nil => rfl
  | cons c cs ih =>
    by_cases hc : isSpace c = true
    · simp only [lstrip, hc, if_true, ih]; simp [removeWs, hc]
    · simp [lstrip, hc]

theorem removeWs_reverse (s : Str) : removeWs s.reverse = (removeWs s).reverse := by
  simp [removeWs, List.filter_reverse]

theorem removeWs_strip (s : Str) : removeWs (strip s) = removeWs s := by
  simp only [strip, rstrip, removeWs_reverse, removeWs_lstrip]
  simp [removeWs_reverse]

/-! ## `t(kind=k)` and `t*n` -/

theorem kindKw_alpha : ∀ c ∈ (chars! "kind"), isAlpha c = true := by decide

/-- `t(kind = k)` -/
theorem finish_kw (ty : NumT) (w2 K wa wb k w3 rest : Str) (hK : lower K = (chars! "kind"))
    (h2 : isBlank w2 = true) (ha : isBlank wa = true) (hb : isBlank wb = true) (h3 : isBlank w3 = true)
    (hk : ∀ c ∈ k, kindCh c = true) (hne : k ≠ []) :
    finish ty.kw ('(' :: ((w2 ++ K ++ wa ++ '=' :: (wb ++ k ++ w3)) ++ [')'])) rest
      = .ok { vartype := ty.kw, rest, kind := some k } := by
  have hKa := kw_alpha K _ hK kindKw_alpha
  have hX : ∀ c ∈ w2 ++ K ++ wa ++ '=' :: (wb ++ k ++ w3), c ≠ ')' := by
    intro c hc
    simp only [List.mem_append, List.mem_cons] at hc
    rcases hc with ((hc | hc) | hc) | hc | (hc | hc) | hc
    · exact isParen_close (blank_paren h2 c hc)
    · exact isParen_close (alpha_paren (hKa c hc))
    · exact isParen_close (blank_paren ha c hc)
    · subst hc; decide
    · exact isParen_close (blank_paren hb c hc)
    · exact isParen_close (kindCh_paren (hk c hc))
    · exact isParen_close (blank_paren h3 c hc)
  have hlen : ¬ (('(' :: ((w2 ++ K ++ wa ++ '=' :: (wb ++ k ++ w3)) ++ [')'])).length < 3) := by
    simp; omega
  have hXne : (w2 ++ K ++ wa ++ '=' :: (wb ++ k ++ w3)).isEmpty = false := by simp
  have hks : ∀ c ∈ k, isSpace c = false := fun c hc => kindCh_space (hk c hc)
  have hKs : ∀ c ∈ K, isSpace c = false := fun c hc => alpha_space (hKa c hc)
  have hargs : removeWs (strip (w2 ++ K ++ wa ++ '=' :: (wb ++ k ++ w3))) = K ++ '=' :: k := by
    rw [removeWs_strip]
    simp only [removeWs_append, removeWs_blank _ h2, removeWs_blank _ ha, removeWs_nospace K hKs,
      List.nil_append, List.append_nil]
    congr 1
    rw [show ('=' :: (wb ++ k ++ w3)) = ['='] ++ (wb ++ k ++ w3) by rfl]
    simp only [removeWs_append, removeWs_blank _ hb, removeWs_blank _ h3, removeWs_nospace k hks,
      List.nil_append, List.append_nil]
    rfl
  unfold finish
  simp only [hlen, decide_false, Bool.false_and, vkSearch_paren _ hX, hXne, numT_notProto, numT_notChar]
  simp only [List.append_assoc] at hargs
  simp [hargs, kindMatch_kw K k hK hk hne]

/-- `t*n` -/
theorem finish_star (ty : NumT) (ds rest : Str) (hd : ∀ c ∈ ds, isDigit c = true) (hne : ds ≠ []) :
    finish ty.kw ('*' :: ds) rest = .ok { vartype := ty.kw, rest, kind := some ds } := by
  have hs : ∀ c ∈ ds, isSpace c = false := fun c hc => digit_space (hd c hc)
  have hsk : skipWs ds = ds := by
    cases ds with
    | nil => rfl
    | cons c cs => exact skipWs_of_head _ _ (hs c (by simp))
  have hvk : vkSearch ('*' :: ds) = some (.g2 ds) := by
    cases ds with
    | nil => exact absurd rfl hne
    | cons c cs =>
      simp only [vkSearch, vkAt, hsk, takeWhile_all _ hd]
      simp
  have hst : strip ds = ds := by
    have := strip_pad [] ds [] rfl rfl hs
    simpa using this
  have hpar : startsWith ds ['('] = false := by
    cases ds with
    | nil => exact absurd rfl hne
    | cons c cs =>
      have : c ≠ '(' := digit_ne (hd c (by simp)) (by decide)
      simp [startsWith, this]
  unfold finish
  simp only [startsWith, beq_self_eq_true, Bool.true_and, Bool.not_true, Bool.and_false, hvk,
    numT_notProto, numT_notChar]
  simp [hst, hpar, removeWs_nospace ds hs,
    kindMatch_no_eq ds (fun c hc => digit_ne (hd c hc) (by decide))]


/-! ## the front of `parse_type` -/

theorem varTypeRest_num (ty : NumT) (t r : Str) (ht : lower t = ty.kw) :
    varTypeRest (t ++ r) = some r := by
  have hd : ∀ kw, diverge kw ty.kw = true → kwCI kw (t ++ r) = none :=
    fun kw h => kwCI_diverge kw t r (by rw [ht]; exact h)
  have hp := kwCI_of_lower _ t r ht
  cases ty <;> simp only [NumT.kw] at hd hp
  · simp only [varTypeRest, firstSome, hp]
  · simp only [varTypeRest, firstSome, hp, hd (chars! "integer") (by decide)]
  · simp only [varTypeRest, firstSome, kw2CI, hp, hd (chars! "integer") (by decide), hd (chars! "real") (by decide),
      hd (chars! "double") (by decide), hd (chars! "character") (by decide)]
  · simp only [varTypeRest, firstSome, kw2CI, hp, hd (chars! "integer") (by decide), hd (chars! "real") (by decide),
      hd (chars! "double") (by decide), hd (chars! "character") (by decide), hd (chars! "complex") (by decide)]

theorem normVartype_num (ty : NumT) (t : Str) (ht : lower t = ty.kw) : normVartype t = ty.kw := by
  unfold normVartype
  simp only [ht]
  cases ty <;> decide

theorem endsScan_rstrip (tail : Str) (h : EndsScan tail) : EndsScan (rstrip tail) := by
  rcases h with rfl | ⟨c, cs, rfl, hs, hp⟩
  · left; rfl
  · rw [rstrip_cons]
    split
    · left; rfl
    · right; exact ⟨c, rstrip cs, rfl, hs, hp⟩

/-- `parse_type` on `<type keyword> <after>`, where the stripped, asterisk-normalised `after` is
    `core ++ rstrip tail` and `get_parens` isolates `core` -/
theorem parseType_front (ty : NumT) (t after core tail : Str) (ht : lower t = ty.kw)
    (hnl : (t ++ after).contains '\n' = false)
    (hnorm : starNorm (strip after) = core ++ rstrip tail)
    (hgp : getParens (core ++ rstrip tail) = .ok core) :
    parseType (t ++ after) = finish ty.kw core (strip tail) := by
  unfold parseType
  simp only [hnl, Bool.false_eq_true, if_false, varTypeRest_num ty t _ ht]
  have htake : (t ++ after).take ((t ++ after).length - after.length) = t := by simp
  simp only [htake, normVartype_num ty t ht, hnorm, hgp]
  congr 1
  simp [strip_rstrip]

/-- `strip (w1 ++ core ++ tail) = core ++ rstrip tail` when `core` starts and ends with a non-blank -/
theorem strip_core (w1 : Str) (a : Char) (mid : Str) (e : Char) (tail : Str) (h1 : isBlank w1 = true)
    (ha : isSpace a = false) (he : isSpace e = false) :
    strip (w1 ++ ((a :: mid ++ [e]) ++ tail)) = (a :: mid ++ [e]) ++ rstrip tail := by
  simp only [strip, lstrip_blank_append _ _ h1]
  rw [show (a :: mid ++ [e]) ++ tail = a :: (mid ++ [e] ++ tail) by simp, lstrip_of_head _ _ ha]
  rw [show a :: (mid ++ [e] ++ tail) = ((a :: mid) ++ [e]) ++ tail by simp]
  rw [rstrip_append_of_last _ _ e he]

/-! ## end-to-end statements used by Props/C01.lean -/

theorem digit_kindCh {c : Char} (h : isDigit c = true) : kindCh c = true := by
  have h1 := digit_space h
  have h2 := digit_paren h
  have h3 : c ≠ ',' := digit_ne h (by decide)
  have h4 : c ≠ '=' := digit_ne h (by decide)
  have h5 : isQuote c = false := by
    simp only [isQuote, Bool.or_eq_false_iff, beq_eq_false_iff_ne, ne_eq]
    exact ⟨digit_ne h (by decide), digit_ne h (by decide)⟩
  simp [kindCh, h1, h2, h3, h4, h5]

theorem contains_nl_false (s : Str) (h : ∀ c ∈ s, c ≠ '\n') : s.contains '\n' = false := by
  cases hc : s.contains '\n' with
  | false => rfl
  | true =>
    have : '\n' ∈ s := by simpa using hc
    exact absurd rfl (h _ this)

theorem allNotNl (s : Str) (h : ∀ c ∈ s, c ≠ '\n') : s.all (fun c => c != '\n') = true := by
  simpa [List.all_eq_true] using h

theorem contains_nl_false' (s : Str) (h : s.all (fun c => c != '\n') = true) : s.contains '\n' = false := by
  apply contains_nl_false
  simpa [List.all_eq_true] using h

theorem nospace_ne_nl {c : Char} (h : isSpace c = false) : c ≠ '\n' := by
  intro e; subst e; simp [isSpace] at h

theorem numT_alpha (ty : NumT) : ∀ c ∈ ty.kw, isAlpha c = true := by cases ty <;> decide

theorem parseType_star (ty : NumT) (t w1 ws n tail : Str) (ht : lower t = ty.kw) (h1 : isBlank w1 = true)
    (hws : isBlank ws = true)
    (hn : ∀ c ∈ n, isDigit c = true) (hne : n ≠ []) (htail : EndsScan tail)
    (hnl : ∀ c ∈ w1 ++ ws ++ tail, c ≠ '\n') :
    parseType (t ++ (w1 ++ (('*' :: (ws ++ n)) ++ tail))) =
      .ok { vartype := ty.kw, rest := strip tail, kind := some n } := by
  have hsplit : n = n.dropLast ++ [n.getLast hne] := (List.dropLast_concat_getLast hne).symm
  have he : isSpace (n.getLast hne) = false := digit_space (hn _ (List.getLast_mem hne))
  have hflat : ∀ c ∈ '*' :: n, isParen c = false ∧ isStop c = false := by
    intro c hc
    rcases List.mem_cons.mp hc with rfl | hc
    · decide
    · exact ⟨digit_paren (hn c hc), digit_stop (hn c hc)⟩
  have hta := kw_alpha t _ ht (numT_alpha ty)
  have hcont : (t ++ (w1 ++ (('*' :: (ws ++ n)) ++ tail))).contains '\n' = false := by
    apply contains_nl_false'
    have hT := allNotNl t (fun c hc => nospace_ne_nl (alpha_space (hta c hc)))
    have hW := allNotNl w1 (fun c hc => hnl c (by simp [hc]))
    have hWs := allNotNl ws (fun c hc => hnl c (by simp [hc]))
    have hN := allNotNl n (fun c hc => nospace_ne_nl (digit_space (hn c hc)))
    have hTl := allNotNl tail (fun c hc => hnl c (by simp [hc]))
    simp [List.all_append, hT, hW, hWs, hN, hTl]
  have hgp : getParens (('*' :: n) ++ rstrip tail) = .ok ('*' :: n) :=
    getParens_flat _ _ hflat (endsScan_rstrip _ htail)
  have hnorm : starNorm (strip (w1 ++ (('*' :: (ws ++ n)) ++ tail))) = ('*' :: n) ++ rstrip tail := by
    have h := strip_core w1 '*' (ws ++ n.dropLast) (n.getLast hne) tail h1 (by decide) he
    have e1 : '*' :: (ws ++ n.dropLast) ++ [n.getLast hne] = '*' :: (ws ++ n) := by
      have : (ws ++ n.dropLast) ++ [n.getLast hne] = ws ++ n := by
        rw [List.append_assoc, ← hsplit]
      simpa using this
    rw [e1] at h
    rw [h]
    have hsk : skipWs ((ws ++ n) ++ rstrip tail) = n ++ rstrip tail := by
      rw [List.append_assoc, skipWs_blank_append _ _ hws]
      cases n with
      | nil => exact absurd rfl hne
      | cons c cs => exact skipWs_of_head _ _ (digit_space (hn c (by simp)))
    simp only [List.cons_append, starNorm, hsk]
  rw [parseType_front ty t _ ('*' :: n) tail ht hcont hnorm hgp, finish_star ty n _ hn hne]

theorem kind_paren_kw_agree (ty : NumT) (t w1 w2 w3 K wa wb k tail : Str)
    (ht : lower t = ty.kw) (hK : lower K = (chars! "kind"))
    (h1 : isBlank w1 = true) (h2 : isBlank w2 = true) (h3 : isBlank w3 = true)
    (ha : isBlank wa = true) (hb : isBlank wb = true)
    (hk : ∀ c ∈ k, kindCh c = true) (hne : k ≠ []) (htail : EndsScan tail)
    (hnl : ∀ c ∈ w1 ++ w2 ++ w3 ++ wa ++ wb ++ tail, c ≠ '\n') :
    parseType (t ++ (w1 ++ (('(' :: (w2 ++ k ++ w3) ++ [')']) ++ tail)))
      = .ok { vartype := ty.kw, rest := strip tail, kind := some k } ∧
    parseType (t ++ (w1 ++ (('(' :: (w2 ++ K ++ wa ++ '=' :: (wb ++ k ++ w3)) ++ [')']) ++ tail)))
      = .ok { vartype := ty.kw, rest := strip tail, kind := some k } := by
  have hta := kw_alpha t _ ht (numT_alpha ty)
  have hKa := kw_alpha K _ hK kindKw_alpha
  have hW1 := allNotNl w1 (fun c hc => hnl c (by simp [hc]))
  have hW2 := allNotNl w2 (fun c hc => hnl c (by simp [hc]))
  have hW3 := allNotNl w3 (fun c hc => hnl c (by simp [hc]))
  have hWa := allNotNl wa (fun c hc => hnl c (by simp [hc]))
  have hWb := allNotNl wb (fun c hc => hnl c (by simp [hc]))
  have hTl := allNotNl tail (fun c hc => hnl c (by simp [hc]))
  have hT := allNotNl t (fun c hc => nospace_ne_nl (alpha_space (hta c hc)))
  have hKK := allNotNl K (fun c hc => nospace_ne_nl (alpha_space (hKa c hc)))
  have hKk := allNotNl k (fun c hc => nospace_ne_nl (kindCh_space (hk c hc)))
  constructor
  · have hin : ∀ c ∈ w2 ++ k ++ w3, isParen c = false := by
      intro c hc
      simp only [List.mem_append] at hc
      rcases hc with (hc | hc) | hc
      · exact blank_paren h2 c hc
      · exact kindCh_paren (hk c hc)
      · exact blank_paren h3 c hc
    have hgp : getParens (('(' :: (w2 ++ k ++ w3) ++ [')']) ++ rstrip tail) = .ok ('(' :: (w2 ++ k ++ w3) ++ [')']) := by
      have := getParens_paren (w2 ++ k ++ w3) (rstrip tail) hin (endsScan_rstrip _ htail)
      simpa using this
    have hcont : (t ++ (w1 ++ (('(' :: (w2 ++ k ++ w3) ++ [')']) ++ tail))).contains '\n' = false := by
      apply contains_nl_false'
      simp [List.all_append, hT, hW1, hW2, hW3, hKk, hTl]
    have hnorm : starNorm (strip (w1 ++ (('(' :: (w2 ++ k ++ w3) ++ [')']) ++ tail)))
        = ('(' :: (w2 ++ k ++ w3) ++ [')']) ++ rstrip tail := by
      rw [strip_core w1 '(' _ ')' tail h1 (by decide) (by decide)]; rfl
    rw [parseType_front ty t _ _ tail ht hcont hnorm hgp]
    exact finish_paren ty w2 k w3 _ h2 h3 hk hne
  · have hin : ∀ c ∈ w2 ++ K ++ wa ++ '=' :: (wb ++ k ++ w3), isParen c = false := by
      intro c hc
      simp only [List.mem_append, List.mem_cons] at hc
      rcases hc with ((hc | hc) | hc) | hc | (hc | hc) | hc
      · exact blank_paren h2 c hc
      · exact alpha_paren (hKa c hc)
      · exact blank_paren ha c hc
      · subst hc; decide
      · exact blank_paren hb c hc
      · exact kindCh_paren (hk c hc)
      · exact blank_paren h3 c hc
    have hgp : getParens (('(' :: (w2 ++ K ++ wa ++ '=' :: (wb ++ k ++ w3)) ++ [')']) ++ rstrip tail)
        = .ok ('(' :: (w2 ++ K ++ wa ++ '=' :: (wb ++ k ++ w3)) ++ [')']) := by
      have := getParens_paren _ (rstrip tail) hin (endsScan_rstrip _ htail)
      simpa using this
    have hcont : (t ++ (w1 ++ (('(' :: (w2 ++ K ++ wa ++ '=' :: (wb ++ k ++ w3)) ++ [')']) ++ tail))).contains '\n' = false := by
      apply contains_nl_false'
      simp [List.all_append, hT, hW1, hW2, hW3, hWa, hWb, hKK, hKk, hTl]
    have hnorm : starNorm (strip (w1 ++ (('(' :: (w2 ++ K ++ wa ++ '=' :: (wb ++ k ++ w3)) ++ [')']) ++ tail)))
        = ('(' :: (w2 ++ K ++ wa ++ '=' :: (wb ++ k ++ w3)) ++ [')']) ++ rstrip tail := by
      rw [strip_core w1 '(' _ ')' tail h1 (by decide) (by decide)]; rfl
    rw [parseType_front ty t _ _ tail ht hcont hnorm hgp]
    exact finish_kw ty w2 K wa wb k w3 _ hK h2 ha hb h3 hk hne

end Ford.TypeSpec
