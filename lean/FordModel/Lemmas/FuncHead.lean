/-
  Lemmas about the model of the statement that opens a function (FordModel/FuncHead.lean).
-/
import FordModel.FuncHead
import FordModel.Lemmas.TypeHead
import FordModel.Lemmas.Entity
namespace Ford.FuncHead
open Ford Ford.TypeSpec Ford.TypeHead

/-! ## `.*X` with a greedy `.*` -/

/-- a match further to the right wins -/
theorem lastMatch_append_some (f : Str → Option Str) (a s : Str) (x : Str) (h : lastMatch f s = some x) :
    lastMatch f (a ++ s) = some x := by
  induction a with
  | nil => simpa using h
  | cons c cs ih => simp [lastMatch, ih]

/-- positions at which `X` cannot begin do not matter -/
theorem lastMatch_skip (f : Str → Option Str) (a s : Str) (ha : ∀ c ∈ a, ∀ t, f (c :: t) = none) :
    lastMatch f (a ++ s) = lastMatch f s := by
  induction a with
  | nil => rfl
  | cons c cs ih =>
    have ih' := ih (fun d hd => ha d (by simp [hd]))
    have hc := ha c (by simp)
    cases h : lastMatch f s with
    | none => simp [lastMatch, ih', h, hc]
    | some x => simp [lastMatch, ih', h]

theorem lastMatch_none (f : Str → Option Str) (s : Str) (h0 : f [] = none)
    (h : ∀ p q, s = p ++ q → f q = none) : lastMatch f s = none := by
  induction s with
  | nil => simpa [lastMatch] using h0
  | cons c cs ih =>
    have := ih (fun p q hpq => h (c :: p) q (by simp [hpq]))
    simp [lastMatch, this, h [] (c :: cs) rfl]

/-! ## `result ( name )` -/

theorem resultAt_spelled (k w1 w2 r w3 rest : Str) (hk : lower k = (chars! "result")) (h1 : isBlank w1 = true)
    (h2 : isBlank w2 = true) (hr : ∀ c ∈ r, isWord c = true) (hne : r ≠ []) (h3 : isBlank w3 = true) :
    resultAt (k ++ (w1 ++ '(' :: (w2 ++ (r ++ (w3 ++ ')' :: rest))))) = some r := by
  have hkw := kwCI_of_lower (chars! "result") k (w1 ++ '(' :: (w2 ++ (r ++ (w3 ++ ')' :: rest)))) hk
  have hs1 : skipWs (w1 ++ '(' :: (w2 ++ (r ++ (w3 ++ ')' :: rest)))) = '(' :: (w2 ++ (r ++ (w3 ++ ')' :: rest))) := by
    rw [skipWs_blank_append _ _ h1]; exact skipWs_of_head _ _ (by decide)
  obtain ⟨c, r', hrc⟩ : ∃ c r', r = c :: r' := by
    cases r with
    | nil => exact absurd rfl hne
    | cons c r' => exact ⟨c, r', rfl⟩
  have hcw : isWord c = true := hr c (by simp [hrc])
  have hs2 : skipWs (w2 ++ (r ++ (w3 ++ ')' :: rest))) = r ++ (w3 ++ ')' :: rest) := by
    rw [skipWs_blank_append _ _ h2, hrc]; exact skipWs_of_head _ _ (word_not_space hcw)
  have hrest : ∀ c r', (w3 ++ ')' :: rest) = c :: r' → isWord c = false := by
    intro c r' h
    cases w3 with
    | nil => simp at h; rw [← h.1]; decide
    | cons a as =>
      simp at h; rw [← h.1]
      simp [isBlank] at h3; exact space_not_word h3.1
  have hsp := spanWord_append r (w3 ++ ')' :: rest) hr hrest
  have hs3 : skipWs (w3 ++ ')' :: rest) = ')' :: rest := by
    rw [skipWs_blank_append _ _ h3]; exact skipWs_of_head _ _ (by decide)
  have hre : r.isEmpty = false := by rw [hrc]; rfl
  simp only [resultAt, hkw, hs1, hs2, hsp, hre, hs3]
  simp

/-- the pattern needs an opening parenthesis -/
theorem resultAt_noparen (s : Str) (h : ∀ c ∈ s, c ≠ '(') : resultAt s = none := by
  unfold resultAt
  split
  · rfl
  · rename_i r hk
    obtain ⟨p, hp⟩ := kwCI_suffix _ _ _ hk
    obtain ⟨q, hq⟩ := skipWs_suffix r
    split
    · rename_i r1 hs
      have hm : '(' ∈ s := by
        rw [hp]; apply List.mem_append_right
        rw [hq]; apply List.mem_append_right
        rw [hs]; simp
      exact absurd rfl (h '(' hm)
    · rfl

theorem lastResult_noparen (s : Str) (h : ∀ c ∈ s, c ≠ '(') : lastMatch resultAt s = none := by
  apply lastMatch_none
  · rfl
  · intro p q hpq
    exact resultAt_noparen q (fun c hc => h c (by rw [hpq]; exact List.mem_append_right _ hc))

/-- the pattern begins with the letter r -/
theorem resultAt_head (c : Char) (t : Str) (hc : lowerChar c ≠ 'r') : resultAt (c :: t) = none := by
  simp [resultAt, kwCI, hc]

/-! ## `bind ( text )` -/

theorem bindAt_noparen (s : Str) (h : ∀ c ∈ s, c ≠ '(') : bindAt s = none := by
  unfold bindAt
  split
  · rfl
  · rename_i r hk
    obtain ⟨p, hp⟩ := kwCI_suffix _ _ _ hk
    obtain ⟨q, hq⟩ := skipWs_suffix r
    split
    · rename_i r1 hs
      have hm : '(' ∈ s := by
        rw [hp]; apply List.mem_append_right
        rw [hq]; apply List.mem_append_right
        rw [hs]; simp
      exact absurd rfl (h '(' hm)
    · rfl

theorem lastBind_noparen (s : Str) (h : ∀ c ∈ s, c ≠ '(') : lastMatch bindAt s = none := by
  apply lastMatch_none
  · rfl
  · intro p q hpq
    exact bindAt_noparen q (fun c hc => h c (by rw [hpq]; exact List.mem_append_right _ hc))

theorem bindAt_head (c : Char) (t : Str) (hc : lowerChar c ≠ 'b') : bindAt (c :: t) = none := by
  simp [bindAt, kwCI, hc]

/-- everything in front of the last `)` -/
theorem uptoLastClose_last (b w : Str) (hw : ∀ c ∈ w, c ≠ ')') : uptoLastClose (b ++ ')' :: w) = some b := by
  have hnone : uptoLastClose w = none := by
    induction w with
    | nil => rfl
    | cons a as ih =>
      have := ih (fun d hd => hw d (by simp [hd]))
      have ha : a ≠ ')' := hw a (by simp)
      simp [uptoLastClose, this, ha]
  induction b with
  | nil => simp [uptoLastClose, hnone]
  | cons a as ih => simp [uptoLastClose, ih]

theorem bindAt_spelled (k w1 w2 b w : Str) (hk : lower k = (chars! "bind")) (h1 : isBlank w1 = true)
    (h2 : isBlank w2 = true) (hb : ∀ c r, b = c :: r → isSpace c = false) (hw : ∀ c ∈ w, c ≠ ')') :
    bindAt (k ++ (w1 ++ '(' :: (w2 ++ (b ++ ')' :: w)))) = some b := by
  have hkw := kwCI_of_lower (chars! "bind") k (w1 ++ '(' :: (w2 ++ (b ++ ')' :: w))) hk
  have hs1 : skipWs (w1 ++ '(' :: (w2 ++ (b ++ ')' :: w))) = '(' :: (w2 ++ (b ++ ')' :: w)) := by
    rw [skipWs_blank_append _ _ h1]; exact skipWs_of_head _ _ (by decide)
  have hs2 : skipWs (w2 ++ (b ++ ')' :: w)) = b ++ ')' :: w := by
    rw [skipWs_blank_append _ _ h2]
    cases b with
    | nil => exact skipWs_of_head _ _ (by decide)
    | cons c r => exact skipWs_of_head _ _ (hb c r rfl)
  simp only [bindAt, hkw, hs1, hs2]
  exact uptoLastClose_last b w hw

/-! ## letter case -/

theorem lower_mem_ne (k kw : Str) (x : Char) (hk : lower k = kw) (hx : ∀ c ∈ kw, c ≠ x) :
    ∀ c ∈ k, lowerChar c ≠ x := by
  intro c hc
  have : lowerChar c ∈ lower k := List.mem_map_of_mem hc
  rw [hk] at this
  exact hx _ this

theorem blank_lower_ne (w : Str) (x : Char) (hx : isAlpha x = true) (hw : isBlank w = true) :
    ∀ c ∈ w, lowerChar c ≠ x := by
  intro c hc
  have hs : isSpace c = true := by
    simp [isBlank] at hw; exact hw c hc
  exact lowerChar_ne_of_not_word c x hx (space_not_word hs)

end Ford.FuncHead
