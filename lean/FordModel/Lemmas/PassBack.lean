/-
  Lemmas about the call-by-call model of the reader (FordModel/PassBack.lean): the queue emptied one
  `__next__` at a time against the batch model's `Include.drain`.
-/
import FordModel.PassBack
import FordModel.Include
namespace Ford.PassBack
open Ford Include

/-- a queued statement that `include()` leaves alone is popped as it is -/
theorem popPending_keep (c : Cfg) (resolve : Str → Res) (inc : Bool) (p : Str) (rest : List Str)
    (hp : look c.kwLoose resolve p = .keep) :
    popPending c resolve inc (p :: rest) = .ok (some (p, rest)) := by
  cases inc <;> simp [popPending, includeCall, hp]

/-- an include of a file without items, re-testing variant: the call goes on with the statement behind it -/
theorem popPending_skip (c : Cfg) (resolve : Str → Res) (hg : c.guarded = true) (p : Str) (rest : List Str)
    (hp : look c.kwLoose resolve p = .splice []) :
    popPending c resolve true (p :: rest) = popPending c resolve true rest := by
  cases rest <;> simp [popPending, includeCall, hp, hg]

/-- an include of a file with items: its first item is returned, the others stand in front of the queue -/
theorem popPending_splice (c : Cfg) (resolve : Str → Res) (p x : Str) (l rest : List Str)
    (hp : look c.kwLoose resolve p = .splice (x :: l)) :
    popPending c resolve true (p :: rest) = .ok (some (x, l ++ rest)) := by
  simp [popPending, includeCall, hp]

theorem drains_congr (c : Cfg) (resolve : Str → Res) (inc : Bool) (q q' out : List Str)
    (h : popPending c resolve inc q = popPending c resolve inc q') (d : Drains c resolve inc q' out) :
    Drains c resolve inc q out := by
  cases d with
  | done hd => exact .done (h ▸ hd)
  | step hs more => exact .step (h ▸ hs) more

theorem drains_keep_prefix (c : Cfg) (resolve : Str → Res) (inc : Bool) (rest r : List Str)
    (d : Drains c resolve inc rest r) :
    ∀ l : List Str, (∀ y ∈ l, look c.kwLoose resolve y = .keep) → Drains c resolve inc (l ++ rest) (l ++ r)
  | [], _ => d
  | y :: l, h =>
    .step (popPending_keep c resolve inc y (l ++ rest) (h y (by simp)))
      (drains_keep_prefix c resolve inc rest r d l (fun z hz => h z (by simp [hz])))

/-- The queue emptied call by call gives what the batch model's `drain` gives (re-testing variant,
    `include()` in front of the top pop, and every item an include file yields is left alone when
    `include()` sees it again at the head of the queue). -/
theorem drains_of_drain (c : Cfg) (resolve : Str → Res) (hg : c.guarded = true) (hi : c.incPrologue = true)
    (hs : ∀ p l, look c.kwLoose resolve p = .splice l → ∀ y ∈ l, look c.kwLoose resolve y = .keep) :
    ∀ (q out : List Str), drain c resolve .prologue q = .ok out → Drains c resolve true q out
  | [], out, h => by
    simp [drain] at h
    subst h
    exact .done (by simp [popPending])
  | p :: rest, out, h => by
    simp only [drain, hi, if_true] at h
    cases hl : look c.kwLoose resolve p with
    | keep =>
      simp only [hl] at h
      cases hd : drain c resolve .prologue rest with
      | error e => simp [hd, Except.map] at h
      | ok r =>
        simp [hd, Except.map] at h
        subst h
        exact .step (popPending_keep c resolve true p rest hl) (drains_of_drain c resolve hg hi hs rest r hd)
    | fail e => simp [hl] at h
    | splice l =>
      cases l with
      | nil =>
        simp only [hl, hg, if_true] at h
        exact drains_congr c resolve true _ _ _ (popPending_skip c resolve hg p rest hl)
          (drains_of_drain c resolve hg hi hs rest out h)
      | cons x l =>
        simp only [hl] at h
        cases hd : drain c resolve .prologue rest with
        | error e => simp [hd, Except.map] at h
        | ok r =>
          simp [hd, Except.map] at h
          subst h
          exact .step (popPending_splice c resolve p x l rest hl)
            (drains_keep_prefix c resolve true rest r (drains_of_drain c resolve hg hi hs rest r hd) l
              (fun y hy => hs p (x :: l) hl y (by simp [hy])))

end Ford.PassBack
