/-
  Lemmas about the call-by-call model of the reader (FordModel/PassBack.lean): the queue emptied one
  `__next__` at a time against the batch model's `Include.drain`.
-/
import FordModel.PassBack
import FordModel.Include
namespace Ford.PassBack
open Ford Include

/-- a queued statement that `include()` leaves alone is popped as it is -/
theorem popPending_keep (c : Cfg) (resolve : Str → Res) (inc : Bool) (p : Str) (rest : List Str)
    (hp : look c.kwLoose resolve p = .keep) :
    popPending c resolve inc (p :: rest) = .ok (some (p, rest)) := by
  cases inc <;> simp [popPending, includeCall, hp]

/-- an include of a file without items, re-testing variant: the call goes on with the statement behind it -/
theorem popPending_skip (c : Cfg) (resolve : Str → Res) (hg : c.guarded = true) (p : Str) (rest : List Str)
    (hp : look c.kwLoose resolve p = .splice []) :
    popPending c resolve true (p :: rest) = popPending c resolve true rest := by
  cases rest <;> simp [popPending, includeCall, hp, hg]

/-- an include of a file with items: its first item is returned, the others stand in front of the queue -/
theorem popPending_splice (c : Cfg) (resolve : Str → Res) (p x : Str) (l rest : List Str)
    (hp : look c.kwLoose resolve p = .splice (x :: l)) :
    popPending c resolve true (p :: rest) = .ok (some (x, l ++ rest)) := by
  simp [popPending, includeCall, hp]

theorem drains_congr (c : Cfg) (resolve : Str → Res) (inc : Bool) (q q' out : List Str)
    (h : popPending c resolve inc q = popPending c resolve inc q') (d : Drains c resolve inc q' out) :
    Drains c resolve inc q out := by
  cases d with
  | done hd => exact .done (h ▸ hd)
  | step hs more => exact .step (h ▸ hs) more

theorem drains_keep_prefix (c : Cfg) (resolve : Str → Res) (inc : Bool) (rest r : List Str)
    (d : Drains c resolve inc rest r) :
    ∀ l : List Str, (∀ y ∈ l, look c.kwLoose resolve y = .keep) → Drains c resolve inc (l ++ rest) (l ++ r)
  | [], _ => d
  | y :: l, h =>
    .step (popPending_keep c resolve inc y (l ++ rest) (h y (by simp)))
      (drains_keep_prefix c resolve inc rest r d l (fun z hz => h z (by simp [hz])))

/-- The queue emptied call by call gives what the batch model's `drain` gives (re-testing variant,
    `include()` in front of the top pop, and every item an include file yields is left alone when
    `include()` sees it again at the head of the queue). -/
theorem drains_of_drain (c : Cfg) (resolve : Str → Res) (hg : c.guarded = true) (hi : c.incPrologue = true)
    (hs : ∀ p l, look c.kwLoose resolve p = .splice l → ∀ y ∈ l, look c.kwLoose resolve y = .keep) :
    ∀ (q out : List Str), drain c resolve .prologue q = .ok out → Drains c resolve true q out
  | [], out, h => by
    simp [drain] at h
    subst h
    exact .done (by simp [popPending])
  | p :: rest, out, h => by
    simp only [drain, hi, if_true] at h
    cases hl : look c.kwLoose resolve p with
    | keep =>
      simp only [hl] at h
      cases hd : drain c resolve .prologue rest with
      | error e => simp [hd, Except.map] at h
      | ok r =>
        simp [hd, Except.map] at h
        subst h
        exact .step (popPending_keep c resolve true p rest hl) (drains_of_drain c resolve hg hi hs rest r hd)
    | fail e => simp [hl] at h
    | splice l =>
      cases l with
      | nil =>
        simp only [hl, hg, if_true] at h
        exact drains_congr c resolve true _ _ _ (popPending_skip c resolve hg p rest hl)
          (drains_of_drain c resolve hg hi hs rest out h)
      | cons x l =>
        simp only [hl] at h
        cases hd : drain c resolve .prologue rest with
        | error e => simp [hd, Except.map] at h
        | ok r =>
          simp [hd, Except.map] at h
          subst h
          exact .step (popPending_splice c resolve p x l rest hl)
            (drains_keep_prefix c resolve true rest r (drains_of_drain c resolve hg hi hs rest r hd) l
              (fun y hy => hs p (x :: l) hl y (by simp [hy])))


/-! ### Iterating call by call gives the batch model's list -/

theorem drain_epilogue_eq_prologue (c : Cfg) (resolve : Str → Res) (hg : c.guarded = true)
    (hi : c.incPrologue = true) (he : c.incEpilogue = true) (q : List Str) :
    drain c resolve .epilogue q = drain c resolve .prologue q := by
  induction q with
  | nil => simp [drain]
  | cons p rest ih =>
    simp only [drain, hi, he, if_true]
    cases look c.kwLoose resolve p with
    | keep => rfl
    | fail e => rfl
    | splice l => cases l <;> simp [hg, ih]

theorem after_to_yields (c : Cfg) (resolve : Str → Res) (m : Marks) (order : List Slot) (st : St)
    (items : List Str) (h : After c resolve m order (next c resolve m order st) items) :
    Yields c resolve m order st items := by
  unfold After at h
  split at h
  · exact h.elim
  · next heq => subst h; exact .stop heq
  · next heq => obtain ⟨out, rfl, hy⟩ := h; exact .item heq hy

def ord : List Slot := [.pending, .docbuffer]

/-- the doc buffer emptied call by call, then on to the next physical lines -/
theorem yields_docs (c : Cfg) (resolve : Str → Res) (m : Marks) (ls more : List Str) :
    ∀ (docs : List Str) (rs : RS) (q : List Str), rs.docbuffer = docs →
      popPending c resolve c.incPrologue q = .ok none →
      After c resolve m ord
        (readOn c resolve m (resetLocals { rs with docbuffer := [], prevdoc := if docs.isEmpty then rs.prevdoc else true }) ls) more →
      Yields c resolve m ord { rs := rs, pending := q, lines := ls } (docs ++ more)
  | [], rs, q, hd, hq, h => by
    apply after_to_yields
    obtain ⟨db, pd, ra, co, rp, rpa, lb⟩ := rs
    simp only at hd
    subst hd
    simpa [next, serve, ord, hq, resetLocals] using h
  | d :: ds, rs, q, hd, hq, h => by
    have hn : next c resolve m ord { rs := rs, pending := q, lines := ls }
        = .ok (some (d, { rs := { rs with docbuffer := ds, prevdoc := true }, pending := [], lines := ls })) := by
      simp [next, serve, ord, hq, hd]
    refine .item hn ?_
    apply yields_docs c resolve m ls more ds _ [] rfl (by simp [popPending])
    cases ds <;> simpa using h

/-- the statement queue emptied call by call, then the doc buffer, then on to the next physical lines -/
theorem yields_queue (c : Cfg) (resolve : Str → Res) (m : Marks) (hi : c.incPrologue = true)
    (ls more : List Str) (q drained : List Str) (d : Drains c resolve true q drained) :
    ∀ (rs : RS), rs.prevdoc = false →
      After c resolve m ord
        (readOn c resolve m (resetLocals { rs with docbuffer := [], prevdoc := !rs.docbuffer.isEmpty }) ls) more →
      Yields c resolve m ord { rs := rs, pending := q, lines := ls } (drained ++ rs.docbuffer ++ more) := by
  induction d with
  | done hq =>
    intro rs hp h
    simp only [List.nil_append]
    apply yields_docs c resolve m ls more rs.docbuffer rs _ rfl (by simpa [hi] using hq)
    cases hdb : rs.docbuffer <;> simp_all
  | @step q x rest out hq _ ih =>
    intro rs hp h
    have hn : next c resolve m ord { rs := rs, pending := q, lines := ls }
        = .ok (some (x, { rs := rs, pending := rest, lines := ls })) := by
      obtain ⟨db, pd, ra, co, rp, rpa, lb⟩ := rs
      simp only at hp
      subst hp
      simp [next, serve, ord, hi, hq]
    simpa using Yields.item hn (ih rs hp h)

/-- Successive calls of `__next__` return, item by item, the list the batch model `readFromI`
    computes for the same lines (stated for the loop entered with any state `s`). -/
theorem readOn_yields_batch (c : Cfg) (resolve : Str → Res) (m : Marks) (hg : c.guarded = true)
    (hi : c.incPrologue = true) (he : c.incEpilogue = true)
    (hs : ∀ p l, look c.kwLoose resolve p = .splice l → ∀ y ∈ l, look c.kwLoose resolve y = .keep) :
    ∀ (lines : List Str) (s : RS) (items : List Str), readFromI c resolve m s lines = .ok items →
      After c resolve m ord (readOn c resolve m s lines) items
  | [], s, items, h => by
    simp [readFromI] at h
    simp [readOn, After, h]
  | l :: ls, s, items, h => by
    have ih := readOn_yields_batch c resolve m hg hi he hs ls
    simp only [readFromI, feedI, feedG] at h
    simp only [readOn, feedG]
    cases hf : feedFront m s l with
    | error e => simp [hf] at h
    | ok o =>
      cases o with
      | none =>
        simp only [hf] at h ⊢
        cases hr : readFromI c resolve m s ls with
        | error e => simp [hr] at h
        | ok more => simp [hr] at h; subst h; exact ih s more hr
      | some sl =>
        obtain ⟨s1, ln⟩ := sl
        simp only [hf] at h ⊢
        cases hb : feedBack m s1 ln with
        | err e => simp [hb] at h
        | skip s2 =>
          simp only [hb] at h ⊢
          cases hr : readFromI c resolve m s2 ls with
          | error e => simp [hr] at h
          | ok more => simp [hr] at h; subst h; exact ih s2 more hr
        | tail s2 l2 =>
          simp only [hb, feedTailI, tailRaw] at h ⊢
          by_cases hd : tailDone (tailState s2 l2) = true
          · -- the logical line is complete
            simp only [hd, Bool.not_true, Bool.false_eq_true, if_false] at h ⊢
            generalize tailState s2 l2 = s3 at h hd ⊢
            by_cases hint : ((splitPending s3).isEmpty && s3.docbuffer.isEmpty) = true
            · simp [hint] at h
            · simp only [hint, Bool.false_eq_true, if_false] at h
              rw [drain_epilogue_eq_prologue c resolve hg hi he] at h
              cases hdr : drain c resolve .prologue (splitPending s3) with
              | error e => simp [hdr] at h
              | ok drained =>
                simp only [hdr] at h
                cases hr : readFromI c resolve m (afterLine s3 (flush m drained s3.docbuffer s3.prevdoc).2) ls with
                | error e => simp [hr] at h
                | ok more =>
                  simp [hr] at h
                  subst h
                  have hcont := ih _ more hr
                  have hD := drains_of_drain c resolve hg hi hs _ _ hdr
                  obtain ⟨db, pd, ra, co, rp, rpa, lb⟩ := s3
                  cases hD with
                  | done hq =>
                    simp only [he, hq]
                    cases db with
                    | nil =>
                      simpa [flush, hg, afterLine, resetLocals] using hcont
                    | cons d0 ds =>
                      refine ⟨ds ++ more, by cases ds <;> simp [flush], ?_⟩
                      apply yields_docs c resolve m ls more ds _ [] rfl (by simp [popPending])
                      cases ds <;> simpa [flush, afterLine, resetLocals] using hcont
                  | @step _ x rest out hq hrest =>
                    simp only [he, hq]
                    refine ⟨out ++ db ++ more, by cases db <;> simp [flush], ?_⟩
                    have := yields_queue c resolve m hi ls more rest out hrest
                      { docbuffer := db, prevdoc := false, readingAlt := ra, continued := co, readingPredoc := rp,
                        readingPredocAlt := rpa, linebuffer := lb } rfl
                    apply this
                    cases db <;> simpa [flush, afterLine, resetLocals] using hcont
          · -- the logical line goes on
            simp only [hd, Bool.not_false, if_true] at h ⊢
            cases hr : readFromI c resolve m (tailState s2 l2) ls with
            | error e => simp [hr] at h
            | ok more => simp [hr] at h; subst h; exact ih _ more hr


/-! ### Every buffered doc line starts with `!` + docmark; look-ahead over a whole file -/

theorem comScanAux_drop (mark l : Str) (st : QSt) (k i : Nat) :
    comScanAux mark l st k = some i → k ≤ i ∧ startsWith (l.drop (i - k)) ('!' :: mark) = true := by
  fun_induction comScanAux mark l st k
  case case1 => simp
  case case2 c cs k hc hm =>
    intro h
    simp at h; subst h
    simp [startsWith, hc, hm]
  case case3 => simp
  case case4 c cs k hc hq ih =>
    intro h
    obtain ⟨h1, h2⟩ := ih h
    have : i - k = (i - (k + 1)) + 1 := by omega
    exact ⟨by omega, by rw [this, List.drop_succ_cons]; exact h2⟩
  case case5 c cs k hc hq ih =>
    intro h
    obtain ⟨h1, h2⟩ := ih h
    have : i - k = (i - (k + 1)) + 1 := by omega
    exact ⟨by omega, by rw [this, List.drop_succ_cons]; exact h2⟩
  case case6 c cs q k hc ih =>
    intro h
    obtain ⟨h1, h2⟩ := ih h
    have : i - k = (i - (k + 1)) + 1 := by omega
    exact ⟨by omega, by rw [this, List.drop_succ_cons]; exact h2⟩
  case case7 c cs q k hc ih =>
    intro h
    obtain ⟨h1, h2⟩ := ih h
    have : i - k = (i - (k + 1)) + 1 := by omega
    exact ⟨by omega, by rw [this, List.drop_succ_cons]; exact h2⟩

theorem matchDocmark_drop (mark line : Str) (inq : Bool) (i : Nat) (h : matchDocmark mark line inq = some i) :
    startsWith (line.drop i) ('!' :: mark) = true := by
  unfold matchDocmark at h
  split at h
  · simp at h
  · split at h
    · simp at h
    · simpa using (comScanAux_drop mark line .out 0 i h).2

theorem startsWith_cons_take (l mark : Str) (h : startsWith l ('!' :: mark) = true) : l.take 1 = ['!'] := by
  cases l with
  | nil => simp [startsWith] at h
  | cons c cs => simp [startsWith] at h; simp [h.1]

theorem startsWith_append_self (p r : Str) : startsWith (p ++ r) p = true := by
  induction p with
  | nil => cases r <;> simp [startsWith]
  | cons c cs ih => simp [startsWith, ih]

/-- every buffered doc line starts with `!` + docmark -/
def DocsMarked (m : Marks) (rs : RS) : Prop := ∀ d ∈ rs.docbuffer, startsWith d ('!' :: m.doc) = true

theorem markStage_docs (m : Marks) (mark : Str) (err : RErr) (upd : RS → RS)
    (inq : Bool) (line0 : Str) (s s' : RS) (h : markStage m.doc mark err upd inq line0 s = .ok s')
    (hu : ∀ s, (upd s).docbuffer = s.docbuffer) (hd : DocsMarked m s) : DocsMarked m s' := by
  unfold markStage at h
  split at h
  · next i hm =>
    split at h
    · simp at h
    · simp at h; subst h
      intro d hdm
      simp at hdm
      rcases hdm with hdm | hdm
      · exact hd d hdm
      · subst hdm
        have := startsWith_cons_take _ _ (matchDocmark_drop mark line0 inq i hm)
        simp only [substMark, this]
        simpa using startsWith_append_self ('!' :: m.doc) _
  · simp at h; subst h; exact hd

theorem docStage_docs (m : Marks) (inq : Bool) (line0 : Str) (s : RS) (hd : DocsMarked m s) :
    DocsMarked m (docStage m inq line0 s).1 := by
  unfold docStage
  split
  · next i hm =>
    intro d hdm
    simp at hdm
    rcases hdm with hdm | hdm
    · exact hd d hdm
    · subst hdm; exact matchDocmark_drop m.doc line0 inq i hm
  · exact hd

theorem blockStage_docs (line : Str) (s : RS) : (blockStage line s).docbuffer = s.docbuffer := by
  unfold blockStage
  simp only []
  split <;> split <;> rfl

theorem comStage_docs (m : Marks) (inq : Bool) (line : Str) (s : RS) (hd : DocsMarked m s) :
    DocsMarked m (comStage m inq line s).1 := by
  unfold comStage
  split
  · simp only []
    split
    · intro d hdm
      simp at hdm
      rcases hdm with hdm | hdm
      · exact hd d hdm
      · subst hdm
        simpa using startsWith_append_self ('!' :: m.doc) _
    · exact hd
  · exact hd

theorem feedFront_docs (m : Marks) (s s1 : RS) (l ln : Str) (h : feedFront m s l = .ok (some (s1, ln)))
    (hd : DocsMarked m s) : DocsMarked m s1 := by
  unfold feedFront at h
  simp only [] at h
  split at h
  · simp at h
  · split at h
    · simp at h
    · next sa h1 =>
      split at h
      · simp at h
      · next sb h2 =>
        split at h
        · simp at h
        · next sc h3 =>
          simp at h
          obtain ⟨rfl, _⟩ := h
          have ha := markStage_docs m _ _ _ _ _ _ _ h1 (fun _ => rfl) hd
          have hb := markStage_docs m _ _ _ _ _ _ _ h2 (fun _ => rfl) ha
          have hc := markStage_docs m _ _ _ _ _ _ _ h3 (fun _ => rfl) hb
          apply comStage_docs
          intro d hdm
          rw [blockStage_docs] at hdm
          exact docStage_docs m _ _ _ hc d hdm

theorem startsWith_self (p : Str) : startsWith p p = true := by
  simpa using startsWith_append_self p []

theorem feedBack_docs (m : Marks) (s s2 : RS) (ln l2 : Str) (h : feedBack m s ln = .tail s2 l2)
    (hd : DocsMarked m s) : DocsMarked m s2 := by
  unfold feedBack at h
  split at h
  · simp only [] at h
    split at h
    · simp at h
      obtain ⟨rfl, _⟩ := h
      intro d hdm
      simp at hdm
      subst hdm
      exact startsWith_self _
    · simp at h; obtain ⟨rfl, _⟩ := h; exact hd
  · simp only [] at h
    repeat' split at h
    all_goals first | (simp at h; done) | (simp at h; obtain ⟨rfl, _⟩ := h; exact hd)

theorem feedBack_skip_docs (m : Marks) (s s2 : RS) (ln : Str) (h : feedBack m s ln = .skip s2)
    (hd : DocsMarked m s) : DocsMarked m s2 := by
  unfold feedBack at h
  split at h
  · simp at h
  · simp only [] at h
    repeat' split at h
    all_goals first | (simp at h; done) | (simp at h; subst h; exact hd)

theorem tailState_docs (s : RS) (l : Str) : (tailState s l).docbuffer = s.docbuffer := by
  unfold tailState
  simp only []
  split <;> split <;> rfl


theorem next_passBack (c : Cfg) (resolve : Str → Res) (m : Marks) (st : St) (x : Str)
    (hx : look c.kwLoose resolve x = .keep) (hp : st.rs.prevdoc = false) :
    next c resolve m ord (passBack true st x) = .ok (some (x, st)) := by
  obtain ⟨rs, pending, lines⟩ := st
  obtain ⟨db, pd, ra, co, rp, rpa, lb⟩ := rs
  simp only at hp
  subst hp
  simp [next, serve, ord, passBack, popPending_keep c resolve _ x pending hx]

/-- what a call returns from the loop: the invariant is kept, and an item that is not a doc line was
    popped from the statement queue (`prevdoc = false` afterwards) -/
theorem readOn_inv (c : Cfg) (resolve : Str → Res) (m : Marks) (x : Str) (st' : St) :
    ∀ (lines : List Str) (s : RS), DocsMarked m s →
      readOn c resolve m s lines = .ok (some (x, st')) →
      DocsMarked m st'.rs ∧ (startsWith x ('!' :: m.doc) = false → st'.rs.prevdoc = false)
  | [], s, _, h => by simp [readOn] at h
  | l :: ls, s, hd, h => by
    have ih := readOn_inv c resolve m x st' ls
    simp only [readOn, feedG] at h
    cases hf : feedFront m s l with
    | error e => simp [hf] at h
    | ok o =>
      cases o with
      | none => simp only [hf] at h; exact ih s hd h
      | some sl =>
        obtain ⟨s1, ln⟩ := sl
        have hd1 := feedFront_docs m s s1 l ln hf hd
        simp only [hf] at h
        cases hb : feedBack m s1 ln with
        | err e => simp [hb] at h
        | skip s2 => simp only [hb] at h; exact ih s2 (feedBack_skip_docs m s1 s2 ln hb hd1) h
        | tail s2 l2 =>
          have hd2 := feedBack_docs m s1 s2 ln l2 hb hd1
          have hd3 : DocsMarked m (tailState s2 l2) := by
            intro d hdm; rw [tailState_docs] at hdm; exact hd2 d hdm
          simp only [hb, tailRaw] at h
          generalize tailState s2 l2 = s3 at h hd3
          by_cases hdn : tailDone s3 = true
          · simp only [hdn, Bool.not_true, Bool.false_eq_true, if_false] at h
            cases hq : popPending c resolve c.incEpilogue (splitPending s3) with
            | error e => simp [hq] at h
            | ok o =>
              cases o with
              | some xr =>
                obtain ⟨x0, rest⟩ := xr
                simp [hq] at h
                obtain ⟨rfl, rfl⟩ := h
                exact ⟨hd3, fun _ => rfl⟩
              | none =>
                simp only [hq] at h
                cases hdb : s3.docbuffer with
                | nil =>
                  simp only [hdb] at h
                  split at h
                  · exact ih _ (by intro d hdm; simp [resetLocals, hdb] at hdm) h
                  · simp at h
                | cons d ds =>
                  simp [hdb] at h
                  obtain ⟨rfl, rfl⟩ := h
                  refine ⟨?_, ?_⟩
                  · intro d' hdm
                    exact hd3 d' (by simp [hdb]; exact .inr hdm)
                  · intro hnd
                    have := hd3 d (by simp [hdb])
                    simp [this] at hnd
          · simp only [hdn, Bool.not_false, if_true] at h
            exact ih s3 hd3 h

theorem next_inv (c : Cfg) (resolve : Str → Res) (m : Marks) (st st' : St) (x : Str)
    (hd : DocsMarked m st.rs) (h : next c resolve m ord st = .ok (some (x, st'))) :
    DocsMarked m st'.rs ∧ (startsWith x ('!' :: m.doc) = false → st'.rs.prevdoc = false) := by
  simp only [next, serve, ord] at h
  cases hq : popPending c resolve c.incPrologue st.pending with
  | error e => simp [hq] at h
  | ok o =>
    cases o with
    | some xr =>
      obtain ⟨x0, rest⟩ := xr
      simp [hq] at h
      obtain ⟨rfl, rfl⟩ := h
      exact ⟨hd, fun _ => rfl⟩
    | none =>
      simp only [hq] at h
      cases hdb : st.rs.docbuffer with
      | nil =>
        simp only [hdb] at h
        exact readOn_inv c resolve m x st' st.lines _ (by intro d hdm; simp [resetLocals, hdb] at hdm) h
      | cons d ds =>
        simp [hdb] at h
        obtain ⟨rfl, rfl⟩ := h
        refine ⟨?_, ?_⟩
        · intro d' hdm
          exact hd d' (by simp [hdb]; exact .inr hdm)
        · intro hnd
          have := hd d (by simp [hdb])
          simp [this] at hnd

/-- a consumer that looks ahead (only) at items that are not doc lines receives what plain iteration gives -/
theorem consume_of_yields (c : Cfg) (resolve : Str → Res) (m : Marks) (st : St) (out : List Str)
    (hy : Yields c resolve m ord st out) :
    DocsMarked m st.rs →
    (∀ x ∈ out, startsWith x ('!' :: m.doc) = false → look c.kwLoose resolve x = .keep) →
    ∀ peeks : List Bool, peeks.length = out.length →
      (∀ p ∈ peeks.zip out, p.1 = true → startsWith p.2 ('!' :: m.doc) = false) →
      consume c resolve m ord true peeks st = .ok out := by
  induction hy with
  | stop hn =>
    intro _ _ peeks hl _
    cases peeks <;> simp_all [consume]
  | @item st st' x out hn _ ih =>
    intro hd hk peeks hl hz
    cases peeks with
    | nil => simp at hl
    | cons pk more =>
      obtain ⟨hd', hpd⟩ := next_inv c resolve m st st' x hd hn
      have hl' : more.length = out.length := by simpa using hl
      have hrec := ih hd' (fun y hy => hk y (by simp [hy])) more hl'
        (fun p hp => hz p (by simp [List.zip_cons_cons, hp]))
      rw [consume, hn]
      cases pk with
      | false => simp [hrec, Except.map]
      | true =>
        have hnd := hz (true, x) (by simp [List.zip_cons_cons]) rfl
        have hb := next_passBack c resolve m st' x (hk x (by simp) hnd) (hpd hnd)
        simp [hb, hrec, Except.map]

end Ford.PassBack
