/-
  Lemmas about the path part of the C11 model: `relpath`, `resolve`.
-/
import FordModel.Links
namespace Ford.Links

/-- no `..` or `.` segment -/
def Plain (p : Path) : Prop := ∀ s ∈ p, s ≠ dotdot ∧ s ≠ dot

theorem Plain.nil : Plain [] := by intro s h; cases h

theorem Plain.append {a b : Path} (ha : Plain a) (hb : Plain b) : Plain (a ++ b) := by
  intro s h
  rcases List.mem_append.1 h with h | h
  · exact ha s h
  · exact hb s h

theorem Plain.drop {a : Path} (ha : Plain a) (n : Nat) : Plain (a.drop n) :=
  fun s h => ha s (List.mem_of_mem_drop h)

theorem normAux_plain (acc l : Path) (hl : Plain l) : normAux acc l = acc.reverse ++ l := by
  induction l generalizing acc with
  | nil => simp [normAux]
  | cons s rest ih =>
    have h1 := hl s (by simp)
    have hr : Plain rest := fun x hx => hl x (by simp [hx])
    have e1 : (s == dotdot) = false := by simpa using h1.1
    have e2 : (s == dot) = false := by simpa using h1.2
    simp [normAux, e1, e2, ih (s :: acc) hr]

theorem normAux_dots (acc rest : Path) (n : Nat) :
    normAux acc (List.replicate n dotdot ++ rest) = normAux (acc.drop n) rest := by
  induction n generalizing acc with
  | zero => simp
  | succ k ih =>
    simp only [List.replicate_succ, List.cons_append]
    rw [normAux]
    simp only [beq_self_eq_true, if_true]
    rw [ih]
    cases acc <;> simp

theorem commonLen_le_left (a b : Path) : commonLen a b ≤ a.length := by
  fun_induction commonLen a b <;> simp_all <;> omega

theorem commonLen_le_right (a b : Path) : commonLen a b ≤ b.length := by
  fun_induction commonLen a b <;> simp_all <;> omega

theorem commonLen_take (a b : Path) : a.take (commonLen a b) = b.take (commonLen a b) := by
  fun_induction commonLen a b <;> simp_all

theorem commonLen_append_left (p a b : Path) : commonLen (p ++ a) (p ++ b) = p.length + commonLen a b := by
  induction p with
  | nil => simp
  | cons x xs ih => simp [commonLen, ih]; omega

/-- the raw relative path (before the "empty means `.`" rule) resolves back to the target -/
theorem resolve_raw (t s : Path) (ht : Plain t) :
    normAux s.reverse (List.replicate (s.length - commonLen t s) dotdot ++ t.drop (commonLen t s)) = t := by
  rw [normAux_dots, normAux_plain _ _ (ht.drop _)]
  have hc := commonLen_le_right t s
  have : (s.reverse.drop (s.length - commonLen t s)).reverse = s.take (commonLen t s) := by
    rw [List.drop_reverse, List.reverse_reverse]
    congr 1
    omega
  rw [this, ← commonLen_take t s, List.take_append_drop]

/-- **relpath round trip**: resolving `relpath t s` against `s` gives `t` back -/
theorem resolve_relpath (t s : Path) (ht : Plain t) : resolve s (relpath t s) = t := by
  unfold resolve relpath
  simp only
  split
  · rename_i h
    have hraw := resolve_raw t s ht
    have hnil : List.replicate (s.length - commonLen t s) dotdot ++ t.drop (commonLen t s) = [] := by
      simpa using h
    rw [hnil] at hraw
    simp [normAux, dot, dotdot] at hraw ⊢
    exact hraw
  · exact resolve_raw t s ht

end Ford.Links

namespace Ford.Links

theorem relpath_sibling (base t : Path) (x nd : Str) (xs : Path) (ht : t = x :: xs) (hx : (x == nd) = false) :
    relpath (base ++ t) (base ++ [nd]) = dotdot :: t := by
  subst ht
  unfold relpath
  have hc : commonLen (base ++ x :: xs) (base ++ [nd]) = base.length := by
    rw [commonLen_append_left]; simp [commonLen, hx]
  simp [hc]

/-- the "non-existent sibling directory" trick: a link computed relative to `base/<nd>` resolves
    correctly from *every* directory `base/<d>` one level below the base -/
theorem resolve_from_any_sibling (base t : Path) (x nd d : Str) (xs : Path) (ht : t = x :: xs)
    (hx : (x == nd) = false) (hp : Plain t) :
    resolve (base ++ [d]) (relpath (base ++ t) (base ++ [nd])) = base ++ t := by
  rw [relpath_sibling base t x nd xs ht hx]
  unfold resolve
  rw [normAux]
  simp only [beq_self_eq_true, if_true, List.reverse_append, List.reverse_cons, List.reverse_nil,
    List.nil_append, List.singleton_append, List.tail_cons]
  rw [normAux_plain _ _ hp]
  simp

end Ford.Links
