/-
  Lemmas about the text-level alias model (FordModel/PageAlias.lean) for Props/C17.lean.
-/
import FordModel.PageAlias
import FordModel.PageTree
namespace Ford.PA
open Ford

/-- the loop of `run` replaces line `i` by its image and leaves the others alone -/
theorem runGo_eq (al : List (Str × Str)) (rest pre : List Str) :
    runGo al pre.length rest (pre ++ rest) = pre ++ rest.map (aliasLine al) := by
  induction rest generalizing pre with
  | nil => simp [runGo]
  | cons l rest ih =>
    have h := ih (pre ++ [aliasLine al l])
    simp only [List.length_append, List.length_cons, List.length_nil, List.append_assoc,
      List.cons_append, List.nil_append] at h
    simp [runGo, h]

theorem aliasRun_eq_map (al : List (Str × Str)) (lines : List Str) :
    aliasRun al lines = lines.map (aliasLine al) := by
  have := runGo_eq al lines []
  simpa [aliasRun] using this

/-- while a match is being passed over nothing is emitted -/
theorem subGo_skip (al : List (Str × Str)) (k : Nat) (b : Bool) (s : Str) :
    subGo al (k + 1) b s = subGo al 0 false (s.drop (k + 1)) := by
  induction k generalizing s b with
  | zero =>
    cases s with
    | nil => simp [subGo]
    | cons c t => cases t <;> simp [subGo]
  | succ k ih =>
    cases s with
    | nil => simp [subGo]
    | cons c t => simp [subGo, ih]

theorem bsAfter_cons (b : Bool) (c : Char) (pre : Str) : bsAfter b (c :: pre) = bsAfter (c == '\\') pre := by
  cases pre with
  | nil => simp [bsAfter]
  | cons d r =>
    simp only [bsAfter, List.getLast?_cons_cons]
    cases h : (d :: r).getLast? with
    | none => simp at h
    | some x => rfl

/-- text without a pipe is copied, whatever it is (blanks, tabs, list markers, link text, ...) -/
theorem subGo_prefix (al : List (Str × Str)) (pre s : Str) (b : Bool) (hp : '|' ∉ pre) :
    subGo al 0 b (pre ++ s) = pre ++ subGo al 0 (bsAfter b pre) s := by
  induction pre generalizing b with
  | nil => simp [bsAfter]
  | cons c pre ih =>
    have hc : c ≠ '|' := fun h => hp (by simp [h])
    have hp' : '|' ∉ pre := fun h => hp (by simp [h])
    simp [subGo, hc, ih _ hp', bsAfter_cons]

theorem subGo_nil (al : List (Str × Str)) (k : Nat) (b : Bool) : subGo al k b [] = [] := by
  cases k <;> simp [subGo]

theorem subGo_no_pipe (al : List (Str × Str)) (s : Str) (b : Bool) (hp : '|' ∉ s) : subGo al 0 b s = s := by
  have := subGo_prefix al s [] b hp
  simpa [subGo_nil] using this

/-- a name without blank and pipe that is followed by a single pipe is found whole -/
theorem closeTail_name (g post : Str) (hs : ' ' ∉ g) (hp : '|' ∉ g) (hpost : post.head? ≠ some '|') :
    closeTail (g ++ '|' :: post) = some (g, g.length + 1) := by
  induction g with
  | nil =>
    cases post with
    | nil => simp [closeTail]
    | cons y r =>
      have hy : y ≠ '|' := by simpa using hpost
      simp [closeTail, hy]
  | cons x g ih =>
    have hx1 : x ≠ ' ' := fun h => hs (by simp [h])
    have hx2 : x ≠ '|' := fun h => hp (by simp [h])
    have hs' : ' ' ∉ g := fun h => hs (by simp [h])
    have hp' : '|' ∉ g := fun h => hp (by simp [h])
    cases g with
    | nil => simp [closeTail, hx1]
    | cons y g' =>
      have hy : y ≠ '|' := fun h => hp' (by simp [h])
      have := ih hs' hp'
      simp only [List.cons_append] at this ⊢
      simp [closeTail, hy, hx2, this]

theorem aliasAt_name (c : Char) (g post : Str) (hc : c ≠ ' ') (hs : ' ' ∉ g) (hp : '|' ∉ g)
    (hpost : post.head? ≠ some '|') :
    aliasAt (c :: g ++ '|' :: post) = some (c :: g, g.length + 2) := by
  simp [aliasAt, hc, closeTail_name g post hs hp hpost]

/-- the substitution of one alias: whatever precedes it on the line (not ending in the escape
    character), the alias is replaced by its value and the scan goes on behind it -/
theorem subGo_alias (al : List (Str × Str)) (pre name post : Str) (b : Bool)
    (hpre : '|' ∉ pre) (hb : bsAfter b pre = false)
    (hne : name ≠ []) (hs : ' ' ∉ name) (hp : '|' ∉ name) (hpost : post.head? ≠ some '|') :
    subGo al 0 b (pre ++ '|' :: name ++ '|' :: post) = pre ++ lookupAlias al name ++ subGo al 0 false post := by
  cases name with
  | nil => exact absurd rfl hne
  | cons c g =>
    have hc : c ≠ ' ' := fun h => hs (by simp [h])
    have hs' : ' ' ∉ g := fun h => hs (by simp [h])
    have hp' : '|' ∉ g := fun h => hp (by simp [h])
    have h1 := subGo_prefix al pre ('|' :: (c :: g) ++ '|' :: post) b hpre
    simp only [List.cons_append, List.append_assoc] at h1 ⊢
    rw [h1, hb]
    have h2 := aliasAt_name c g post hc hs' hp' hpost
    simp only [List.cons_append] at h2
    simp only [subGo, beq_self_eq_true, Bool.not_false, Bool.and_self, ↓reduceIte, h2]
    rw [subGo_skip]
    simp

/-- text without a backslash has no escaped alias -/
theorem unescGo_no_bs (s : Str) (h : '\\' ∉ s) : unescGo 0 s = s := by
  induction s with
  | nil => simp [unescGo]
  | cons c t ih =>
    have hc : c ≠ '\\' := fun hh => h (by simp [hh])
    have ht : '\\' ∉ t := fun hh => h (by simp [hh])
    simp [unescGo, hc, ih ht]

theorem unescGo_prefix (pre s : Str) (h : '\\' ∉ pre) : unescGo 0 (pre ++ s) = pre ++ unescGo 0 s := by
  induction pre with
  | nil => simp
  | cons c t ih =>
    have hc : c ≠ '\\' := fun hh => h (by simp [hh])
    have ht : '\\' ∉ t := fun hh => h (by simp [hh])
    simp [unescGo, hc, ih ht]

theorem bsAfter_no_bs (pre : Str) (h : '\\' ∉ pre) : bsAfter false pre = false := by
  unfold bsAfter
  cases hl : pre.getLast? with
  | none => rfl
  | some c =>
    have : c ∈ pre := List.mem_of_getLast? hl
    have hc : c ≠ '\\' := fun hh => h (hh ▸ this)
    simp [hc]

theorem lookup_map_snd {β γ : Type} (f : β → γ) (a : Str) (l : List (Str × β)) :
    (l.map (fun p => (p.1, f p.2))).lookup a = (l.lookup a).map f := by
  induction l with
  | nil => rfl
  | cons x xs ih =>
    obtain ⟨k, v⟩ := x
    simp only [List.map_cons, List.lookup_cons]
    cases h : (a == k) <;> simp [ih]

/-- looking a name up in the dictionary built by `ford.main` is `PageTree.aliasText` -/
theorem lookupAlias_main (base : PT.PathS) (a : Str) :
    lookupAlias (PT.mainAliases base) a =
      match PT.aliasText base a with
      | some t => t
      | none => '|' :: a ++ ['|'] := by
  unfold lookupAlias PT.mainAliases PT.aliasText
  rw [lookup_map_snd (fun segs => PT.showAbs (base ++ segs))]
  cases Gen.C17.aliasTable.lookup a <;> rfl

/-- ... and the text that replaces `|a|`, followed by the rest of the link, is `PageTree.linkHref` -/
theorem lookupAlias_linkHref (base : PT.PathS) (l : PT.Link) (h : l.alias ≠ []) :
    lookupAlias (PT.mainAliases base) l.alias ++ l.rest = PT.linkHref base l := by
  rw [lookupAlias_main]
  unfold PT.linkHref
  have : l.alias.isEmpty = false := by
    cases hl : l.alias with
    | nil => exact absurd hl h
    | cons _ _ => rfl
  rw [this]
  cases PT.aliasText base l.alias <;> simp

end Ford.PA
