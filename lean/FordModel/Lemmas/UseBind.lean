/-
  Lemmas about `find_used_modules` (FordModel/UseBind.lean): the scan over
  `chain(modules, external_modules)` prefers the project's own module, and external stubs
  (empty tables) have no influence on the name tables.
-/
import FordModel.UseBind
namespace Ford.Use
open Ford

/-- all module names and all names in USE statements are already in the lower-case form the
    comparison of `find_used_modules` uses (what the harness sends when a project spells every
    module name in lower case) -/
def LowerNames (g : List Scope) (ns : List Nested) : Prop :=
  (∀ m ∈ g, lower m.name = m.name) ∧ (∀ m ∈ g, ∀ u ∈ m.uses, lower u.mod = u.mod) ∧
  (∀ x ∈ ns, ∀ u ∈ x.scope.uses, lower u.mod = u.mod)

/-- the first module of the project whose name is `n`, case-insensitively -/
def projMatch (g : List Scope) (n : Str) : Option Scope :=
  g.find? (fun m => m.isMod && lower m.name == lower n)

theorem decide_eq_beq_str (x y : Str) : decide (x = y) = (x == y) := by
  by_cases h : x = y <;> simp [h]

/-- the scan over `chain(modules, external_modules)`, split into its two halves -/
theorem find_chain (g : List Scope) (exts : List ExtMod) (n : Str) :
    (chainCands g exts).find? (fun c => lower c.name == lower n) =
      ((projMatch g n).map Cand.proj).or ((exts.find? (fun e => lower e.name == lower n)).map .ext) := by
  unfold chainCands projMatch
  rw [List.find?_append, List.find?_map, List.find?_map, List.find?_filter]
  have h1 : (fun a : Scope => decide ((fun x : Scope => x.isMod) a = true ∧
      ((fun c : Cand => lower c.name == lower n) ∘ Cand.proj) a = true))
      = (fun m : Scope => m.isMod && lower m.name == lower n) := by
    funext a; cases h : a.isMod <;> simp [h, Cand.name, Function.comp, decide_eq_beq_str]
  have h2 : ((fun c : Cand => lower c.name == lower n) ∘ Cand.ext)
      = (fun e : ExtMod => lower e.name == lower n) := by
    funext e; simp [Cand.name, Function.comp]
  rw [h1, h2]

theorem find_chain_proj (g : List Scope) (exts : List ExtMod) (n : Str) (p : Scope)
    (h : projMatch g n = some p) :
    (chainCands g exts).find? (fun c => lower c.name == lower n) = some (.proj p) := by
  rw [find_chain, h]; rfl

theorem find_chain_noproj (g : List Scope) (exts : List ExtMod) (n : Str)
    (h : projMatch g n = none) :
    (chainCands g exts).find? (fun c => lower c.name == lower n) =
      (exts.find? (fun e => lower e.name == lower n)).map .ext := by
  rw [find_chain, h]; rfl

theorem bindName_of_projMatch (g : List Scope) (exts : List ExtMod) (n : Str) (p : Scope)
    (h : projMatch g n = some p) : bindName g exts n = .project p := by
  unfold bindName; rw [find_chain_proj g exts n p h]

theorem bindName_of_noproj (g : List Scope) (exts : List ExtMod) (n : Str)
    (h : projMatch g n = none) :
    bindName g exts n = match exts.find? (fun e => lower e.name == lower n) with
      | some e => .external e
      | none => .unbound := by
  unfold bindName; rw [find_chain_noproj g exts n h]
  cases exts.find? (fun e => lower e.name == lower n) <;> rfl

theorem projMatch_some (g : List Scope) (n : Str) (p : Scope) (h : projMatch g n = some p) :
    p ∈ g ∧ p.isMod = true ∧ lower p.name = lower n := by
  unfold projMatch at h
  have h1 := List.mem_of_find?_eq_some h
  have h2 := List.find?_some h
  simp at h2
  exact ⟨h1, h2.1, h2.2⟩

theorem projMatch_none (g : List Scope) (n : Str) (h : projMatch g n = none) (m : Scope) (hm : m ∈ g)
    (hi : m.isMod = true) : lower m.name ≠ lower n := by
  unfold projMatch at h
  have := List.find?_eq_none.mp h m hm
  simpa [hi] using this

/-- `bindUse` in terms of `projMatch` -/
theorem bindUse_eq (g : List Scope) (exts : List ExtMod) (u : UseA) :
    bindUse g exts u = (projMatch g u.mod).map (fun p => { u with mod := p.name }) := by
  unfold bindUse
  cases h : projMatch g u.mod with
  | some p => rw [bindName_of_projMatch g exts u.mod p h]; rfl
  | none =>
    rw [bindName_of_noproj g exts u.mod h]
    cases exts.find? (fun e => lower e.name == lower u.mod) <;> rfl

/-! ### the bound project has the same name tables when nothing needed canonicalising -/

theorem findMod_map_bind (g g0 : List Scope) (exts : List ExtMod) (n : Str) :
    findMod (g.map (bindScope g0 exts)) n = (findMod g n).map (bindScope g0 exts) := by
  unfold findMod
  induction g with
  | nil => rfl
  | cons a t ih =>
    simp only [List.map, List.find?]
    have : ((bindScope g0 exts a).isMod && (bindScope g0 exts a).name == n) = (a.isMod && a.name == n) := rfl
    rw [this]
    cases (a.isMod && a.name == n) <;> simp [ih]

theorem findScope_map_bind (g g0 : List Scope) (exts : List ExtMod) (n : Str) :
    findScope (g.map (bindScope g0 exts)) n = (findScope g n).map (bindScope g0 exts) := by
  unfold findScope
  induction g with
  | nil => rfl
  | cons a t ih =>
    simp only [List.map, List.find?]
    have : ((bindScope g0 exts a).name == n) = (a.name == n) := rfl
    rw [this]
    cases (a.name == n) <;> simp [ih]

theorem getUsed_mod_irrelevant (u : UseA) (x : Str) (pub : Table) :
    getUsed { u with mod := x } pub = getUsed u pub := rfl

theorem shouldBePublic_bind (g : List Scope) (exts : List ExtMod) (m : Scope) (n : Str) :
    shouldBePublic (bindScope g exts m) n = shouldBePublic m n := rfl

/-- a module found by its lower-case name is the one `findMod` finds -/
theorem findMod_of_projMatch (g : List Scope) (hl : ∀ m ∈ g, lower m.name = m.name) (n : Str)
    (hn : lower n = n) : findMod g n = projMatch g n := by
  unfold findMod projMatch
  induction g with
  | nil => rfl
  | cons a t ih =>
    have ha := hl a (List.mem_cons_self)
    have iht := ih (fun m hm => hl m (List.mem_cons_of_mem _ hm))
    simp only [List.find?, ha, hn] at iht ⊢
    cases (a.isMod && a.name == n)
    · exact iht
    · rfl

/-- one USE statement: importing through the bound statement = importing through the original -/
theorem useStep_bound (g : List Scope) (exts : List ExtMod) (hl : ∀ m ∈ g, lower m.name = m.name)
    (st : State) (m : Scope) (t : Tabs) (u : UseA) (hu : lower u.mod = u.mod) :
    (match bindUse g exts u with
      | some u' => useStep (bindG g exts) st (bindScope g exts m) t u'
      | none => t) = useStep g st m t u := by
  rw [bindUse_eq]
  have hf := findMod_of_projMatch g hl u.mod hu
  cases h : projMatch g u.mod with
  | none =>
    simp only [Option.map]
    unfold useStep; rw [hf, h]
  | some p =>
    simp only [Option.map]
    obtain ⟨_, _, hpn⟩ := projMatch_some g u.mod p h
    have hpl := hl p (projMatch_some g u.mod p h).1
    have hname : p.name = u.mod := by rw [← hpl, hpn, hu]
    unfold useStep bindG
    rw [findMod_map_bind, hname, hf, h]
    rfl

theorem useFold_bound (g : List Scope) (exts : List ExtMod) (hl : ∀ m ∈ g, lower m.name = m.name)
    (st : State) (m : Scope) (us : List UseA) (hu : ∀ u ∈ us, lower u.mod = u.mod) (t : Tabs) :
    (bindUses g exts us).foldl (useStep (bindG g exts) st (bindScope g exts m)) t
      = us.foldl (useStep g st m) t := by
  induction us generalizing t with
  | nil => rfl
  | cons u r ih =>
    have h1 := useStep_bound g exts hl st m t u (hu u List.mem_cons_self)
    have ih' := fun t => ih (fun v hv => hu v (List.mem_cons_of_mem _ hv)) t
    unfold bindUses at *
    simp only [List.filterMap_cons, List.foldl_cons]
    cases hb : bindUse g exts u with
    | none => rw [hb] at h1; simp only at h1; rw [← h1]; exact ih' t
    | some u' => rw [hb] at h1; simp only at h1; rw [List.foldl_cons, h1]; exact ih' _

theorem step_bound (g : List Scope) (exts : List ExtMod) (hl : ∀ m ∈ g, lower m.name = m.name)
    (hu : ∀ m ∈ g, ∀ u ∈ m.uses, lower u.mod = u.mod) (st : State) (n : Str) :
    step (bindG g exts) st n = step g st n := by
  unfold step
  show (match findScope (g.map (bindScope g exts)) n with | none => st | some m => _) = _
  rw [findScope_map_bind]
  cases h : findScope g n with
  | none => rfl
  | some m =>
    simp only [Option.map]
    have hm : m ∈ g := by unfold findScope at h; exact List.mem_of_find?_eq_some h
    unfold correlate
    show aset st n ((bindUses g exts m.uses).foldl (useStep (bindG g exts) st (bindScope g exts m)) (getTabs st m.name)) = _
    rw [useFold_bound g exts hl st m m.uses (hu m hm)]

theorem stepNested_bound (g : List Scope) (exts : List ExtMod) (hl : ∀ m ∈ g, lower m.name = m.name)
    (k : Nat) (st : State) (x : Nested) (hu : ∀ u ∈ x.scope.uses, lower u.mod = u.mod) :
    stepNested (bindG g exts) k st { x with scope := bindScope g exts x.scope } = stepNested g k st x := by
  unfold stepNested correlateNested
  show aset st x.scope.name ((bindUses g exts x.scope.uses).foldl
      (useStep (bindG g exts) st (bindScope g exts x.scope)) (nestedStart k (getTabs st x.host).all x.scope)) = _
  rw [useFold_bound g exts hl st x.scope x.scope.uses hu]

theorem nestedFold_bound (g : List Scope) (exts : List ExtMod) (hl : ∀ m ∈ g, lower m.name = m.name)
    (k : Nat) (xs : List Nested) (hu : ∀ x ∈ xs, ∀ u ∈ x.scope.uses, lower u.mod = u.mod) (st : State) :
    (xs.map (fun x => { x with scope := bindScope g exts x.scope })).foldl (stepNested (bindG g exts) k) st
      = xs.foldl (stepNested g k) st := by
  induction xs generalizing st with
  | nil => rfl
  | cons x r ih =>
    simp only [List.map, List.foldl]
    rw [stepNested_bound g exts hl k st x (hu x List.mem_cons_self)]
    exact ih (fun y hy => hu y (List.mem_cons_of_mem _ hy)) _

theorem filter_map_bind (g : List Scope) (exts : List ExtMod) (ns : List Nested) (n : Str) :
    (bindNs g exts ns).filter (fun x => x.root == n)
      = (ns.filter (fun x => x.root == n)).map (fun x => { x with scope := bindScope g exts x.scope }) := by
  unfold bindNs
  induction ns with
  | nil => rfl
  | cons x r ih =>
    simp only [List.map, List.filter]
    cases (x.root == n) <;> simp [ih]

theorem stepN_bound (g : List Scope) (exts : List ExtMod) (ns : List Nested) (h : LowerNames g ns)
    (k : Nat) (st : State) (n : Str) :
    stepN (bindG g exts) (bindNs g exts ns) k st n = stepN g ns k st n := by
  unfold stepN
  rw [filter_map_bind, step_bound g exts h.1 h.2.1]
  exact nestedFold_bound g exts h.1 k _ (fun x hx => h.2.2 x ((List.mem_filter.mp hx).1)) _

theorem init_bind (k : Nat) (g g0 : List Scope) (exts : List ExtMod) :
    init k (g.map (bindScope g0 exts)) = init k g := by
  unfold init
  rw [List.foldl_map]
  rfl

theorem runN_bound (g : List Scope) (exts : List ExtMod) (ns : List Nested) (h : LowerNames g ns)
    (k : Nat) (order : List Str) :
    runN k (bindG g exts) (bindNs g exts ns) order = runN k g ns order := by
  unfold runN
  have hi : init k (bindG g exts) = init k g := init_bind k g g exts
  rw [hi]
  generalize init k g = st
  induction order generalizing st with
  | nil => rfl
  | cons n r ih =>
    simp only [List.foldl]
    rw [stepN_bound g exts ns h k st n]
    exact ih _

theorem bindNsU_nil (g : List Scope) (exts : List ExtMod) (ns : List Nested) :
    bindNsU g exts [] ns = bindNs g exts ns := by
  unfold bindNsU bindNs
  simp

/-- after binding, every USE statement that is left names a module of the project by its
    declared name -/
theorem bindUses_resolved (g : List Scope) (exts : List ExtMod) (us : List UseA) (u : UseA)
    (h : u ∈ bindUses g exts us) : ∃ p ∈ g, p.isMod = true ∧ u.mod = p.name := by
  unfold bindUses at h
  obtain ⟨v, _, hv⟩ := List.mem_filterMap.mp h
  rw [bindUse_eq] at hv
  cases hp : projMatch g v.mod with
  | none => rw [hp] at hv; simp at hv
  | some p =>
    rw [hp] at hv
    simp only [Option.map, Option.some.injEq] at hv
    obtain ⟨h1, h2, _⟩ := projMatch_some g v.mod p hp
    exact ⟨p, h1, h2, by rw [← hv]⟩

end Ford.Use
