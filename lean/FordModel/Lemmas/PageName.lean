/-
  C09 — lemmas about the naming of static pages (`PageName.lean`).
-/
import FordModel.PageName
import FordModel.Lemmas.Path
namespace Ford.PageName
open Ford Ford.Path

theorem rfindDot_no_dot (s : Str) (i : Nat) (h : '.' ∉ s) : rfindDot s i none = none := by
  induction s generalizing i with
  | nil => rfl
  | cons c cs ih =>
    have hc : c ≠ '.' := fun e => h (e ▸ List.mem_cons_self)
    have hcs : '.' ∉ cs := fun m => h (List.mem_cons_of_mem _ m)
    simp [rfindDot, hc, ih _ hcs]

/-- a stem without a dot has no suffix: `with_suffix(".html")` appends -/
theorem withSuffixHtml_plain (s : Str) (h : '.' ∉ s) : withSuffixHtml s = s ++ htmlExt := by
  simp [withSuffixHtml, suffixLen, rfindDot_no_dot s 0 h]

/-- both namings agree on every stem without a dot -/
theorem name_plain (n m : Naming) (s : Str) (h : '.' ∉ s) : n.name s = m.name s := by
  cases n <;> cases m <;> simp [Naming.name, withSuffixHtml_plain s h]

theorem append_html_normalSeg (x : Str) : NormalSeg (x ++ htmlExt) := by
  have hl : 5 ≤ (x ++ htmlExt).length := by simp [htmlExt]
  refine ⟨?_, ?_, ?_⟩ <;> intro e <;> rw [e] at hl <;> simp [cur, up] at hl

/-- whatever the naming, the name of the page's file is a plain path segment -/
theorem name_normalSeg (n : Naming) (s : Str) : NormalSeg (n.name s) := by
  cases n
  · exact append_html_normalSeg _
  · exact append_html_normalSeg _

theorem pageSeg_normalSeg : NormalSeg pageSeg := by decide

theorem pathOf_normal (n : Naming) (loc : List Seg) (stem : Seg) (hl : Normal loc) : Normal (pathOf n loc stem) := by
  intro x hx
  simp only [pathOf, List.mem_cons, List.mem_append, List.not_mem_nil, or_false] at hx
  rcases hx with (rfl | hx) | rfl
  · exact pageSeg_normalSeg
  · exact hl x hx
  · exact name_normalSeg n stem

/-- for any tables whose three places agree: the link `relurl` leaves on a page in directory `dir` resolves, in a tree
    at any root, to the file that is written for the page -/
theorem linkTo_resolves (T : NameTables) (hT : tablesOk T = true) (base dir loc : List Seg) (stem : Seg)
    (hb : Normal base) (hd : Normal dir) (hl : Normal loc) :
    resolve (base ++ dir) (linkTo T base dir loc stem) = base ++ outPath T loc stem := by
  have hu : T.url = T.outfile := by
    simp [tablesOk] at hT; exact hT.1
  unfold linkTo urlPath outPath
  rw [hu]
  simp only [resolve, norm]
  rw [foldl_relpath _ _ (normal_append hb (pathOf_normal _ loc stem hl)) (normal_append hb hd) []]
  simp

/-- ... and the search index URL names it from the directory of `search.html` -/
theorem searchPath_resolves (T : NameTables) (hT : tablesOk T = true) (base loc : List Seg) (stem : Seg)
    (hb : Normal base) (hl : Normal loc) :
    resolve base (searchPath T loc stem) = base ++ outPath T loc stem := by
  have hu : T.loc = T.outfile := by
    simp [tablesOk] at hT; exact hT.2
  unfold searchPath outPath
  rw [hu]
  unfold resolve
  exact norm_normal _ (normal_append hb (pathOf_normal _ loc stem hl))

end Ford.PageName
