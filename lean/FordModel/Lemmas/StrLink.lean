import FordModel.StrLink
import FordModel.Lemmas.Nav
namespace Ford.StrLink
open Ford.Nav Ford.Url

/-- `pageCond` really is the condition under which the pages of a project list are made. -/
theorem pageWritten_eq (N : Nav.Tables) (sh : Shape) (l : Str) :
    pageWritten N sh l = eval sh (pageCond N l) := by
  simp only [pageWritten, pageCond, eval_disj, any_filter_snd]

/-- One accepted list: for every shape, a member that may be visible has its page made. -/
theorem listOk_sound (N : Nav.Tables) (T : Tables) (e : Str × Str) (h : listOk N T e = true) (sh : Shape)
    (hpre : eval sh N.mainPre = true) (hv : eval sh (visCond T e.2) = true) :
    pageWritten N sh e.1 = true := by
  rw [pageWritten_eq]
  have := valid_sound _ h sh
  rw [eval_imp] at this
  exact this (by simp [eval, hpre, hv])

/-- When `__str__` prints the link form, the class's visibility condition holds. -/
theorem strEmitsLink_visCond (U : Url.Tables) (T : Tables) (sh : Shape) (n : Node) (rest : List Node)
    (flag : Option Bool) (h : strEmitsLink U T sh (n :: rest) flag = true) :
    (getUrl U (n :: rest)).isSome = true ∧ eval sh (visCond T n.cls) = true := by
  simp only [strEmitsLink, Bool.and_eq_true] at h
  refine ⟨h.1, ?_⟩
  have hv := h.2
  simp only [visible] at hv
  simp only [visCond]
  cases hl : lookup n.cls T.visInit with
  | none => simp [eval]
  | some c => simpa [hl] using hv

/-- Without the flag there is no link, whatever the URL. -/
theorem not_visible_no_link (U : Url.Tables) (T : Tables) (sh : Shape) (n : Node) (rest : List Node)
    (flag : Option Bool) (h : visible T sh n flag = false) : strEmitsLink U T sh (n :: rest) flag = false := by
  simp [strEmitsLink, h]

end Ford.StrLink
