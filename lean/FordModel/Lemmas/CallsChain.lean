import FordModel.CallsChain
import FordModel.CallsTable
import FordModel.Spec.CallsChain
namespace Ford.Calls.Chain
open Ford Ford.Calls

/-- in a derived type a component wins over every other table (generated merge order) -/
theorem typeItem_comp (w : World) (t : TypeDef) (l ty : Str) (h : assoc t.comps l = some ty) :
    typeItem Generated.C08.labelOrder w t l = some (.var l ty) := by
  simp [typeItem, Generated.C08.labelOrder, List.foldl, typeLayer, h]

/-- a binding is found when no type, parent type or component carries the label -/
theorem typeItem_bound (w : World) (t : TypeDef) (l o : Str) (hc : assoc t.comps l = none)
    (hp : t.parents.contains l = false) (ht : findType w l = none) (hb : assoc t.bound l = some o) :
    typeItem Generated.C08.labelOrder w t l = some (.bound o l) := by
  have hp' : l ∉ t.parents := by simpa using hp
  simp [typeItem, Generated.C08.labelOrder, List.foldl, typeLayer, hc, hp', ht, hb]

theorem walk_cons (order : List String) (w : World) (t : TypeDef) (l : Str) (rest : Chain) (h : rest ≠ []) :
    walk order w t (l :: rest) =
      match typeItem order w t l with
      | none => none
      | some it =>
        match nextCtx w it with
        | none => none
        | some t' => walk order w t' rest := by
  cases rest with
  | nil => exact absurd rfl h
  | cons l2 r =>
    rw [walk]
    cases typeItem order w t l with
    | none => rfl
    | some it => cases nextCtx w it <;> rfl

theorem findChain_cons (order : List String) (w : World) (root : Str → Option Item) (l : Str) (rest : Chain)
    (h : rest ≠ []) :
    findChain order w root (l :: rest) =
      match root l with
      | none => none
      | some it =>
        match nextCtx w it with
        | none => none
        | some t => walk order w t rest := by
  cases rest with
  | nil => exact absurd rfl h
  | cons l2 r =>
    rw [findChain]
    cases root l with
    | none => rfl
    | some it => cases nextCtx w it <;> rfl

/-- the walk follows a component path of any length -/
theorem walk_path (w : World) (t t' : TypeDef) (ls : List Str) (c : Str) (hp : CompPath w t ls t') :
    walk Generated.C08.labelOrder w t (ls ++ [c]) = typeItem Generated.C08.labelOrder w t' c := by
  induction hp with
  | nil t => simp [walk]
  | cons t t1 t2 l ty ls hc hf _ ih =>
    rw [List.cons_append, walk_cons _ _ _ _ _ (by simp), typeItem_comp w t l ty hc]
    simp [nextCtx, hf, ih]

theorem findChain_path (w : World) (root : Str → Option Item) (o ty0 : Str) (t0 t : TypeDef) (ls : List Str) (c : Str)
    (hr : root o = some (.var o ty0)) (h0 : findType w ty0 = some t0) (hp : CompPath w t0 ls t) :
    findChain Generated.C08.labelOrder w root (o :: (ls ++ [c])) = typeItem Generated.C08.labelOrder w t c := by
  rw [findChain_cons _ _ _ _ _ (by simp), hr]
  simp [nextCtx, h0, walk_path w t0 t ls c hp]

/-- ... also when the chain starts at a function whose result is an object (the selector of an
    ASSOCIATE construct, substituted for the associate name) -/
theorem findChain_path_fn (w : World) (root : Str → Option Item) (f ty0 : Str) (t0 t : TypeDef) (ls : List Str) (c : Str)
    (hr : root f = some (.proc f (some ty0))) (h0 : findType w ty0 = some t0) (hp : CompPath w t0 ls t) :
    findChain Generated.C08.labelOrder w root (f :: (ls ++ [c])) = typeItem Generated.C08.labelOrder w t c := by
  rw [findChain_cons _ _ _ _ _ (by simp), hr]
  simp [nextCtx, h0, walk_path w t0 t ls c hp]

end Ford.Calls.Chain
