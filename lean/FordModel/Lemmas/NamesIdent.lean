/-
  C10: every (ASCII) Fortran identifier, in any letter case, satisfies the
  hypothesis `Legal cfg opNames` of the naming theorems - for the generated
  literals of the working tree.
-/
import FordModel.NamesCfg
import FordModel.Lemmas.NamesLegal
namespace Ford.Names
open Ford

/-- what a character of a lower-cased identifier looks like -/
def okLower (c : Char) : Bool := ('a' ≤ c ∧ c ≤ 'z') || isDigit c || c == '_'

theorem lowerChar_ok_ascii : ∀ m, m < 128 → isWord (Char.ofNat m) = true →
    okLower (lowerChar (Char.ofNat m)) = true := by decide

theorem lowerChar_head_ascii : ∀ m, m < 128 → isAlpha (Char.ofNat m) = true →
    lowerChar (Char.ofNat m) ≠ '_' := by decide

theorem isAlpha_isWord (c : Char) (h : isAlpha c = true) : isWord c = true := by
  simp [isWord, h]

theorem ident_chars (n : Str) (ha : Ascii n) (hi : isIdent n = true) : ∀ c ∈ lower n, okLower c = true := by
  intro c hc
  unfold lower at hc
  obtain ⟨x, hx, rfl⟩ := List.mem_map.1 hc
  have hw : isWord x = true := by
    cases n with
    | nil => simp at hx
    | cons y ys =>
      simp [isIdent] at hi
      rcases List.mem_cons.1 hx with rfl | hx
      · exact isAlpha_isWord _ hi.1
      · exact hi.2 x hx
  have := lowerChar_ok_ascii x.toNat (ha x hx)
  rw [Char.ofNat_toNat] at this
  exact this hw

theorem ident_legal (S : List Str) (T : Cfg)
    (htab : ∀ p ∈ T.table, okLower p.1 = false) (hsep : okLower T.sep = false)
    (hun : T.unnamed.head? = some '_')
    (himg : ∀ img ∈ S.map (baseL T), ∃ c ∈ img, okLower c = false)
    (n : Str) (ha : Ascii n) (hi : isIdent n = true) : Legal T S n := by
  have hch := ident_chars n ha hi
  refine Or.inl ⟨?_, ?_, ?_, ?_, ?_⟩
  · intro p hp hmem
    have := hch _ hmem
    rw [htab p hp] at this
    cases this
  · intro hmem
    have := hch _ hmem
    rw [hsep] at this
    cases this
  · intro heq
    cases n with
    | nil => simp [isIdent] at hi
    | cons y ys =>
      simp [isIdent] at hi
      rw [← heq] at hun
      simp [lower] at hun
      have := lowerChar_head_ascii y.toNat (ha y (by simp))
      rw [Char.ofNat_toNat] at this
      exact this hi.1 hun
  · intro hmem
    obtain ⟨c, hc, hbad⟩ := himg _ hmem
    have := hch c hc
    rw [hbad] at this
    cases this
  · apply notOpImage_of_no_paren
    intro hmem
    have := hch _ hmem
    revert this
    decide

end Ford.Names
