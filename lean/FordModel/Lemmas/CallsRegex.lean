/-
  Lemmas about the regular-expression interpreter of `CallsRegex.lean`: membership in the
  list of residuals is compositional, so "this structured text is matched" is proved by
  walking along the generated parse tree.
-/
import FordModel.CallsRegex
namespace Ford.Rx
open Ford

variable {ci : Bool} {total : Nat}

theorem mem_run_seq {a b : Re} {s m t : Str} (h1 : m ∈ run ci total a s)
    (h2 : t ∈ run ci total b m) : t ∈ run ci total (.seq a b) s := by
  simp only [run, List.mem_flatMap]
  exact ⟨m, h1, h2⟩

theorem mem_run_set {neg : Bool} {items : List Item} {c : Char} {s : Str}
    (h : setHas ci neg items c = true) : s ∈ run ci total (.set neg items) (c :: s) := by
  simp [run, h]

theorem mem_run_bol {s : Str} (h : s.length = total) : s ∈ run ci total .bol s := by
  simp [run, h]

theorem mem_run_eol : ([] : Str) ∈ run ci total .eol [] := by
  simp [run]

theorem mem_run_eps {s : Str} : s ∈ run ci total .eps s := by
  simp [run]

theorem mem_run_alt_left {a b : Re} {s t : Str} (h : t ∈ run ci total a s) :
    t ∈ run ci total (.alt a b) s := by
  simp [run, h]

theorem mem_run_alt_right {a b : Re} {s t : Str} (h : t ∈ run ci total b s) :
    t ∈ run ci total (.alt a b) s := by
  simp [run, h]

theorem mem_runStar_self (f : Str → List Str) (n : Nat) (s : Str) : s ∈ runStar f n s := by
  cases n <;> simp [runStar]

theorem runStar_step (f : Str → List Str) (n : Nat) {s t y : Str} (h1 : t ∈ f s)
    (h2 : t.length < s.length) (h3 : y ∈ runStar f n t) : y ∈ runStar f (n + 1) s := by
  rw [runStar]
  refine List.mem_cons_of_mem _ (List.mem_flatMap.mpr ⟨t, ?_, h3⟩)
  exact List.mem_filter.mpr ⟨h1, by simpa using h2⟩

/-- `[class]*` can consume any run of characters of the class -/
theorem mem_run_star_set {neg : Bool} {items : List Item} (w y : Str)
    (h : ∀ c ∈ w, setHas ci neg items c = true) :
    y ∈ run ci total (.star (.set neg items)) (w ++ y) := by
  simp only [run]
  induction w with
  | nil => exact mem_runStar_self _ _ _
  | cons c w ih =>
    have hc := h c (by simp)
    have ih' := ih (fun d hd => h d (by simp [hd]))
    have : (c :: w ++ y).length + 1 = ((w ++ y).length + 1) + 1 := by simp
    rw [this]
    exact runStar_step _ _ (mem_run_set hc) (by simp) ih'

/-- literal / class followed by the rest of the sequence -/
theorem mem_seq_set {neg : Bool} {items : List Item} {b : Re} {c : Char} {s t : Str}
    (h : setHas ci neg items c = true) (h2 : t ∈ run ci total b s) :
    t ∈ run ci total (.seq (.set neg items) b) (c :: s) :=
  mem_run_seq (mem_run_set h) h2

/-- `[class]*` followed by the rest of the sequence -/
theorem mem_seq_star_set {neg : Bool} {items : List Item} {b : Re} (w : Str) {y t : Str}
    (h : ∀ c ∈ w, setHas ci neg items c = true) (h2 : t ∈ run ci total b y) :
    t ∈ run ci total (.seq (.star (.set neg items)) b) (w ++ y) :=
  mem_run_seq (mem_run_star_set w y h) h2

/-- `[class]+` (expanded by the translator to `x x*`) followed by the rest of the sequence -/
theorem mem_seq_plus_set {neg : Bool} {items : List Item} {b : Re} (w : Str) {y t : Str}
    (hne : w ≠ []) (h : ∀ c ∈ w, setHas ci neg items c = true) (h2 : t ∈ run ci total b y) :
    t ∈ run ci total (.seq (.seq (.set neg items) (.star (.set neg items))) b) (w ++ y) := by
  cases w with
  | nil => exact absurd rfl hne
  | cons c w =>
    refine mem_run_seq (mem_run_seq (mem_run_set (h c (by simp))) ?_) h2
    exact mem_run_star_set w y (fun d hd => h d (by simp [hd]))

theorem matchAt_of_mem (p : Pattern) {s t : Str} (h : t ∈ run p.ci total p.body s) :
    p.matchAt total s = true := by
  simp only [Pattern.matchAt, Bool.not_eq_true', List.isEmpty_eq_false_iff]
  exact List.ne_nil_of_mem h

/-- `search` finds a match that starts after any prefix -/
theorem searchFrom_append (p : Pattern) (pre s : Str) (h : p.matchAt total s = true) :
    p.searchFrom total (pre ++ s) = true := by
  induction pre with
  | nil => cases s <;> simp [Pattern.searchFrom, h]
  | cons c cs ih => simp [Pattern.searchFrom, ih]

/-! ### class membership facts used for the guards -/

/-- a literal under IGNORECASE -/
theorem setHas_chr_ci {x c : Char} (h : lowerChar c = x) : setHas true false [.chr x] c = true := by
  simp [setHas, Item.has, h]

theorem setHas_chr {b : Bool} {x : Char} : setHas b false [.chr x] x = true := by
  simp [setHas, Item.has]

theorem setHas_space {b : Bool} {c : Char} (h : isSpace c = true) : setHas b false [.space] c = true := by
  simp [setHas, Item.has, h]

theorem setHas_notnl {b : Bool} {c : Char} (h : c ≠ '\n') : setHas b false [.notnl] c = true := by
  simp [setHas, Item.has, h]

end Ford.Rx
