/-
  C10: legal names, symbol replacement, quoting, output paths, src copy.
  Core Lean only.
-/
import FordModel.Lemmas.Names
namespace Ford.Names
open Ford

/-! ### symbol replacement -/

theorem replaceChar_id (c : Char) (rep : Str) : ∀ s : Str, c ∉ s → replaceChar c rep s = s := by
  intro s
  induction s with
  | nil => intro _; rfl
  | cons x xs ih =>
    intro h
    simp at h
    have hx : ¬ x = c := fun e => h.1 e.symm
    simp [replaceChar, hx, ih h.2]

theorem replaceAll_id : ∀ (T : SymTable) (s : Str), (∀ p ∈ T, p.1 ∉ s) → replaceAll T s = s := by
  intro T
  induction T with
  | nil => intro s _; rfl
  | cons p t ih =>
    intro s h
    obtain ⟨c, rep⟩ := p
    have hc : c ∉ s := h (c, rep) (by simp)
    simp only [replaceAll, replaceChar_id c rep s hc]
    exact ih s (fun q hq => h q (List.mem_cons_of_mem _ hq))

theorem replaceChar_removes (c : Char) (rep : Str) (hrep : c ∉ rep) : ∀ s : Str, c ∉ replaceChar c rep s := by
  intro s
  induction s with
  | nil => simp [replaceChar]
  | cons x xs ih =>
    by_cases e : x = c
    · simp [replaceChar, e, hrep, ih]
    · simp [replaceChar, e, ih]
      exact fun h => e h.symm

theorem replaceChar_keeps (c d : Char) (rep : Str) (hrep : d ∉ rep) : ∀ s : Str, d ∉ s → d ∉ replaceChar c rep s := by
  intro s
  induction s with
  | nil => simp [replaceChar]
  | cons x xs ih =>
    intro h
    simp at h
    by_cases e : x = c
    · simp [replaceChar, e, hrep, ih h.2]
    · simp [replaceChar, e, ih h.2, h.1]

theorem replaceAll_keeps (d : Char) : ∀ (T : SymTable) (s : Str), (∀ p ∈ T, d ∉ p.2) → d ∉ s → d ∉ replaceAll T s := by
  intro T
  induction T with
  | nil => intro s _ h; exact h
  | cons p t ih =>
    intro s hT hs
    obtain ⟨c, rep⟩ := p
    simp only [replaceAll]
    apply ih _ (fun q hq => hT q (List.mem_cons_of_mem _ hq))
    exact replaceChar_keeps c d rep (hT (c, rep) (by simp)) s hs

/-- A symbol that is a key of the table, and that no replacement re-introduces,
    does not occur in the result. -/
theorem replaceAll_removes (d : Char) : ∀ (T : SymTable) (s : Str), (∃ p ∈ T, p.1 = d) →
    (∀ p ∈ T, d ∉ p.2) → d ∉ replaceAll T s := by
  intro T
  induction T with
  | nil => intro s h; simp at h
  | cons p t ih =>
    intro s hex hT
    obtain ⟨c, rep⟩ := p
    simp only [replaceAll]
    have hrep : d ∉ rep := hT (c, rep) (by simp)
    have hT' : ∀ q ∈ t, d ∉ q.2 := fun q hq => hT q (List.mem_cons_of_mem _ hq)
    by_cases e : c = d
    · subst e
      exact replaceAll_keeps c t _ hT' (replaceChar_removes c rep hrep s)
    · obtain ⟨q, hq, hqd⟩ := hex
      rcases List.mem_cons.1 hq with rfl | hq
      · exact absurd hqd e
      · exact ih _ ⟨q, hq, hqd⟩ hT'

theorem decAux_keeps (d : Char) (hd : ∀ m, m < 10 → digitChar m ≠ d) : ∀ (fuel n : Nat) (acc : Str),
    d ∉ acc → d ∉ decAux fuel n acc := by
  intro fuel
  induction fuel with
  | zero => intro n acc h; exact h
  | succ f ih =>
    intro n acc h
    unfold decAux
    split
    · rename_i h10
      simp [h]
      exact fun e => hd n h10 e.symm
    · apply ih
      simp [h]
      exact fun e => hd (n % 10) (by omega) e.symm

theorem decimal_keeps (d : Char) (hd : ∀ m, m < 10 → digitChar m ≠ d) (n : Nat) : d ∉ decimal n :=
  decAux_keeps d hd _ _ [] (by simp)

/-! ### legal names -/

theorem baseOf_eq (T : Cfg) (n : Str) : baseOf T n = baseL T (lower n) := rfl

/-! #### blank-separated generic specs: `parseSp (spellOp p a b c) = some (p, a, b, c)` -/

theorem blanks_succ (n : Nat) : blanks (n + 1) = ' ' :: blanks n := rfl

theorem mem_blanks (c : Char) (n : Nat) (h : c ∈ blanks n) : c = ' ' := by
  unfold blanks at h
  exact (List.mem_replicate.1 h).2

theorem blanks_reverse (n : Nat) : (blanks n).reverse = blanks n := by
  unfold blanks; simp

theorem skipBlanks_blanks (x : Str) (hx : ∀ c, x.head? = some c → c ≠ ' ') :
    ∀ n, skipBlanks (blanks n ++ x) = (n, x) := by
  intro n
  induction n with
  | zero =>
    cases x with
    | nil => rfl
    | cons c cs =>
      have : ¬ c = ' ' := hx c rfl
      simp [blanks, skipBlanks, this]
  | succ n ih =>
    rw [blanks_succ]
    simp [skipBlanks, ih]

theorem kwSplit_append : ∀ (k r : Str), (∀ c ∈ k, c ≠ ' ' ∧ c ≠ '(') →
    (∀ c, r.head? = some c → c = ' ' ∨ c = '(') → kwSplit (k ++ r) = (k, r) := by
  intro k
  induction k with
  | nil =>
    intro r _ hr
    cases r with
    | nil => rfl
    | cons c cs =>
      have := hr c rfl
      simp [kwSplit, this]
  | cons x xs ih =>
    intro r hk hr
    have hx := hk x (by simp)
    have hx' : ¬ (x = ' ' ∨ x = '(') := by
      intro h; rcases h with h | h
      · exact hx.1 h
      · exact hx.2 h
    have := ih r (fun c hc => hk c (List.mem_cons_of_mem _ hc)) hr
    simp [kwSplit, hx', this]

/-- what makes a (keyword, operator) pair readable back from its spelling -/
structure GoodCore (q : Str × Str) : Prop where
  kw : ∀ c ∈ q.1, c ≠ ' ' ∧ c ≠ '('
  op_ne : q.2 ≠ []
  op_blank : ' ' ∉ q.2

instance (q : Str × Str) : Decidable (GoodCore q) :=
  decidable_of_iff ((∀ c ∈ q.1, c ≠ ' ' ∧ c ≠ '(') ∧ q.2 ≠ [] ∧ ' ' ∉ q.2)
    ⟨fun h => ⟨h.1, h.2.1, h.2.2⟩, fun h => ⟨h.kw, h.op_ne, h.op_blank⟩⟩

theorem head_not_blank (o x : Str) (hne : o ≠ []) (hb : ' ' ∉ o) :
    ∀ c, (o ++ x).head? = some c → c ≠ ' ' := by
  intro c hc
  cases o with
  | nil => exact absurd rfl hne
  | cons y ys =>
    simp at hc hb
    rw [← hc]
    exact fun e => hb.1 e.symm

theorem parseSp_spell (q : Str × Str) (g : GoodCore q) (a b c : Nat) :
    parseSp (spellOp q a b c) = some (q, a, b, c) := by
  obtain ⟨k, o⟩ := q
  have hk := g.kw
  have hne := g.op_ne
  have hb := g.op_blank
  simp only at hk hne hb
  have hrest : ∀ ch, (blanks a ++ '(' :: (blanks b ++ (o ++ (blanks c ++ [')'])))).head? = some ch →
      ch = ' ' ∨ ch = '(' := by
    intro ch h
    cases a with
    | zero => simp [blanks] at h; exact Or.inr h.symm
    | succ n => rw [blanks_succ] at h; simp at h; exact Or.inl h.symm
  have h1 := kwSplit_append k _ hk hrest
  have h2 := skipBlanks_blanks ('(' :: (blanks b ++ (o ++ (blanks c ++ [')'])))) (by intro ch h; simp at h; rw [← h]; decide) a
  have h3 := skipBlanks_blanks (o ++ (blanks c ++ [')'])) (head_not_blank o _ hne hb) b
  have hrev : (o ++ (blanks c ++ [')'])).reverse = ')' :: (blanks c ++ o.reverse) := by
    simp [blanks_reverse]
  have hne' : o.reverse ≠ [] := by simpa using hne
  have hb' : ' ' ∉ o.reverse := by simpa using hb
  have h4 := skipBlanks_blanks (o.reverse ++ []) (head_not_blank o.reverse [] hne' hb') c
  simp only [List.append_nil] at h4
  simp only [parseSp, spellOp, h1, h2, h3, hrev, h4, if_true, List.reverse_reverse]

theorem spellOp_inj (p q : Str × Str) (gp : GoodCore p) (gq : GoodCore q) (a b c a' b' c' : Nat)
    (h : spellOp p a b c = spellOp q a' b' c') : p = q ∧ a = a' ∧ b = b' ∧ c = c' := by
  have := parseSp_spell p gp a b c
  rw [h, parseSp_spell q gq a' b' c'] at this
  simp at this
  obtain ⟨h1, h2, h3, h4⟩ := this
  exact ⟨h1.symm, h2.symm, h3.symm, h4.symm⟩

theorem opSpelled_form (l : Str) (h : OpSpelled l) : ∃ p ∈ opCores, ∃ a b c, l = spellOp p a b c := by
  unfold OpSpelled at h
  split at h
  · rename_i p a b c _
    exact ⟨p, h.1, a, b, c, h.2⟩
  · exact h.elim

theorem notOpImage_spell (T : Cfg) (q : Str × Str) (g : GoodCore q) (a b c : Nat)
    (h : NotOpImage T (spellOp q a b c)) : q ∉ opCores.map (coreImg T) := by
  unfold NotOpImage at h
  rw [parseSp_spell q g a b c] at h
  exact h

theorem kwSplit_subset : ∀ (s : Str) (c : Char), c ∈ (kwSplit s).2 → c ∈ s := by
  intro s
  induction s with
  | nil => intro c h; simp [kwSplit] at h
  | cons x xs ih =>
    intro c h
    unfold kwSplit at h
    split at h
    · exact h
    · exact List.mem_cons_of_mem _ (ih c h)

theorem skipBlanks_subset : ∀ (s : Str) (c : Char), c ∈ (skipBlanks s).2 → c ∈ s := by
  intro s
  induction s with
  | nil => intro c h; simp [skipBlanks] at h
  | cons x xs ih =>
    intro c h
    unfold skipBlanks at h
    split at h
    · exact List.mem_cons_of_mem _ (ih c h)
    · exact h

/-- a string without `(` is not a generic spec -/
theorem parseSp_none (l : Str) (h : '(' ∉ l) : parseSp l = none := by
  unfold parseSp
  simp only
  split
  · rfl
  · rename_i o r2 e
    have : o ∈ l := by
      apply kwSplit_subset; apply skipBlanks_subset; rw [e]; simp
    have ho : ¬ o = '(' := fun eo => h (eo ▸ this)
    simp [ho]

theorem notOpImage_of_no_paren (T : Cfg) (l : Str) (h : '(' ∉ l) : NotOpImage T l := by
  unfold NotOpImage
  rw [parseSp_none l h]
  trivial

/-! #### the replacement commutes with the spelling -/

theorem replaceChar_append (c : Char) (rep : Str) : ∀ x y : Str,
    replaceChar c rep (x ++ y) = replaceChar c rep x ++ replaceChar c rep y := by
  intro x
  induction x with
  | nil => intro y; rfl
  | cons a as ih =>
    intro y
    by_cases e : a = c <;> simp [replaceChar, e, ih]

theorem replaceAll_append : ∀ (T : SymTable) (x y : Str),
    replaceAll T (x ++ y) = replaceAll T x ++ replaceAll T y := by
  intro T
  induction T with
  | nil => intro x y; rfl
  | cons p t ih =>
    intro x y
    obtain ⟨c, rep⟩ := p
    simp only [replaceAll, replaceChar_append, ih]

theorem replaceAll_cons_id (T : SymTable) (d : Char) (x : Str) (hd : ∀ p ∈ T, p.1 ≠ d) :
    replaceAll T (d :: x) = d :: replaceAll T x := by
  have : d :: x = [d] ++ x := rfl
  rw [this, replaceAll_append, replaceAll_id T [d] (by intro p hp; simp; exact hd p hp)]
  rfl

theorem replaceAll_blanks (T : SymTable) (hd : ∀ p ∈ T, p.1 ≠ ' ') (n : Nat) :
    replaceAll T (blanks n) = blanks n :=
  replaceAll_id T _ (fun p hp hm => hd p hp (mem_blanks _ _ hm))

/-- no key of the table is a blank or a parenthesis -/
def KeysClear (T : Cfg) : Prop := ∀ p ∈ T.table, p.1 ≠ ' ' ∧ p.1 ≠ '(' ∧ p.1 ≠ ')'

instance (T : Cfg) : Decidable (KeysClear T) := by unfold KeysClear; infer_instance

theorem replaceAll_spell (T : Cfg) (hk : KeysClear T) (p : Str × Str) (a b c : Nat) :
    replaceAll T.table (spellOp p a b c) = spellOp (coreImg T p) a b c := by
  have h0 : ∀ q ∈ T.table, q.1 ≠ ' ' := fun q hq => (hk q hq).1
  have h1 : ∀ q ∈ T.table, q.1 ≠ '(' := fun q hq => (hk q hq).2.1
  have h2 : ∀ q ∈ T.table, q.1 ≠ ')' := fun q hq => (hk q hq).2.2
  have hnil : replaceAll T.table [] = [] := replaceAll_id _ _ (by simp)
  simp only [spellOp, coreImg, replaceAll_append, replaceAll_cons_id _ _ _ h1, replaceAll_blanks _ h0,
    replaceAll_cons_id _ _ _ h2, hnil]

theorem spellOp_ne_nil (p : Str × Str) (a b c : Nat) : spellOp p a b c ≠ [] := by
  unfold spellOp
  intro h
  have : '(' ∈ p.1 ++ (blanks a ++ '(' :: (blanks b ++ (p.2 ++ (blanks c ++ [')'])))) := by simp
  rw [h] at this
  cases this

theorem baseL_spell (T : Cfg) (hk : KeysClear T) (p : Str × Str) (a b c : Nat) :
    baseL T (spellOp p a b c) = spellOp (coreImg T p) a b c := by
  unfold baseL
  rw [replaceAll_spell T hk]
  have := spellOp_ne_nil (coreImg T p) a b c
  split
  · rename_i e; exact absurd e this
  · rename_i e; exact e.symm

theorem mem_spellOp (d : Char) (p : Str × Str) (a b c : Nat) (h : d ∈ spellOp p a b c) :
    d ∈ p.1 ∨ d ∈ p.2 ∨ d = ' ' ∨ d = '(' ∨ d = ')' := by
  unfold spellOp at h
  simp only [List.mem_append, List.mem_cons, List.mem_nil_iff, or_false] at h
  rcases h with h | h | h | h | h | h | h
  · exact Or.inl h
  · exact Or.inr (Or.inr (Or.inl (mem_blanks _ _ h)))
  · exact Or.inr (Or.inr (Or.inr (Or.inl h)))
  · exact Or.inr (Or.inr (Or.inl (mem_blanks _ _ h)))
  · exact Or.inr (Or.inl h)
  · exact Or.inr (Or.inr (Or.inl (mem_blanks _ _ h)))
  · exact Or.inr (Or.inr (Or.inr (Or.inr h)))

/-- The finitely many facts about the table and the listed names (decided by
    evaluation on the generated table). -/
structure TableOK (T : Cfg) (S : List Str) : Prop where
  unnamed_sep : T.sep ∉ T.unnamed
  img_sep : ∀ x ∈ S, T.sep ∉ baseL T x
  img_inj : ∀ x ∈ S, ∀ y ∈ S, baseL T x = baseL T y → x = y
  unnamed_img : ∀ x ∈ S, baseL T x ≠ T.unnamed
  /-- blanks and parentheses are not replaced: a generic spec keeps its spacing -/
  keys_clear : KeysClear T
  /-- the separator is none of the characters of a spelled generic spec -/
  sep_clear : T.sep ≠ ' ' ∧ T.sep ≠ '(' ∧ T.sep ≠ ')'
  /-- keyword and operator token are still recognisable after the replacement ... -/
  core_good : ∀ p ∈ opCores, GoodCore p ∧ GoodCore (coreImg T p)
  core_sep : ∀ p ∈ opCores, T.sep ∉ (coreImg T p).1 ∧ T.sep ∉ (coreImg T p).2
  /-- ... and the replacement does not identify two operators -/
  core_inj : ∀ p ∈ opCores, ∀ q ∈ opCores, coreImg T p = coreImg T q → p = q
  /-- the unnamed stem is not the image of a generic spec -/
  unnamed_core : NotOpImage T T.unnamed
  /-- a listed name is a generic spec itself, or its image is not the image of one -/
  listed_core : ∀ x ∈ S, OpSpelled x ∨ NotOpImage T (baseL T x)

theorem plain_base (T : Cfg) (S : List Str) (n : Str) (h : Plain T S n) :
    baseOf T n = if lower n = [] then T.unnamed else lower n := by
  rw [baseOf_eq]
  unfold baseL
  rw [replaceAll_id T.table (lower n) h.1]
  cases lower n <;> simp

theorem spelled_sep (T : Cfg) (S : List Str) (ok : TableOK T S) (l : Str) (h : OpSpelled l) :
    T.sep ∉ baseL T l := by
  obtain ⟨p, hp, a, b, c, rfl⟩ := opSpelled_form l h
  rw [baseL_spell T ok.keys_clear]
  intro hm
  rcases mem_spellOp _ _ _ _ _ hm with h | h | h | h | h
  · exact (ok.core_sep p hp).1 h
  · exact (ok.core_sep p hp).2 h
  · exact ok.sep_clear.1 h
  · exact ok.sep_clear.2.1 h
  · exact ok.sep_clear.2.2 h

theorem legal_sep (T : Cfg) (S : List Str) (ok : TableOK T S) (n : Str) (h : Legal T S n) :
    T.sep ∉ baseOf T n := by
  rcases h with h | h | h
  · rw [plain_base T S n h]
    split
    · exact ok.unnamed_sep
    · exact h.2.1
  · rw [baseOf_eq]; exact ok.img_sep _ h
  · rw [baseOf_eq]; exact spelled_sep T S ok _ h

/-- two generic specs (any spacing) with the same image are the same spelling -/
theorem spelled_inj (T : Cfg) (S : List Str) (ok : TableOK T S) (x y : Str)
    (hx : OpSpelled x) (hy : OpSpelled y) (h : baseL T x = baseL T y) : x = y := by
  obtain ⟨p, hp, a, b, c, rfl⟩ := opSpelled_form x hx
  obtain ⟨q, hq, a', b', c', rfl⟩ := opSpelled_form y hy
  rw [baseL_spell T ok.keys_clear, baseL_spell T ok.keys_clear] at h
  obtain ⟨e, ea, eb, ec⟩ := spellOp_inj _ _ (ok.core_good p hp).2 (ok.core_good q hq).2 _ _ _ _ _ _ h
  rw [ok.core_inj p hp q hq e, ea, eb, ec]

/-- a string that is not an image of a generic spec differs from the image of every spelled one -/
theorem notImage_ne_spelled (T : Cfg) (S : List Str) (ok : TableOK T S) (l y : Str)
    (hl : NotOpImage T l) (hy : OpSpelled y) : l ≠ baseL T y := by
  obtain ⟨q, hq, a, b, c, rfl⟩ := opSpelled_form y hy
  rw [baseL_spell T ok.keys_clear]
  intro e
  rw [e] at hl
  exact notOpImage_spell T _ (ok.core_good q hq).2 a b c hl (List.mem_map.2 ⟨q, hq, rfl⟩)

theorem legal_base_inj (T : Cfg) (S : List Str) (ok : TableOK T S) (a b : Str)
    (ha : Legal T S a) (hb : Legal T S b) (h : baseOf T a = baseOf T b) : lower a = lower b := by
  -- plain vs spelled, used twice
  have plain_spelled : ∀ x y : Str, Plain T S x → OpSpelled (lower y) → baseOf T x = baseOf T y → False := by
    intro x y hx hy h
    rw [plain_base T S x hx, baseOf_eq T y] at h
    by_cases ex : lower x = [] <;> simp [ex] at h
    · exact notImage_ne_spelled T S ok _ _ ok.unnamed_core hy h
    · exact notImage_ne_spelled T S ok _ _ hx.2.2.2.2 hy h
  have listed_spelled : ∀ x y : Str, lower x ∈ S → OpSpelled (lower y) → baseOf T x = baseOf T y →
      lower x = lower y := by
    intro x y hx hy h
    rw [baseOf_eq, baseOf_eq] at h
    rcases ok.listed_core _ hx with hs | hn
    · exact spelled_inj T S ok _ _ hs hy h
    · exact absurd h (notImage_ne_spelled T S ok _ _ hn hy)
  rcases ha with ha | ha | ha <;> rcases hb with hb | hb | hb
  · rw [plain_base T S a ha, plain_base T S b hb] at h
    by_cases ea : lower a = [] <;> by_cases eb : lower b = [] <;> simp [ea, eb] at h
    · rw [ea, eb]
    · exact absurd h.symm hb.2.2.1
    · exact absurd h ha.2.2.1
    · exact h
  · rw [plain_base T S a ha, baseOf_eq T b] at h
    by_cases ea : lower a = [] <;> simp [ea] at h
    · exact absurd h.symm (ok.unnamed_img _ hb)
    · exact absurd (List.mem_map.2 ⟨lower b, hb, h.symm⟩) ha.2.2.2.1
  · exact (plain_spelled a b ha hb h).elim
  · rw [plain_base T S b hb, baseOf_eq T a] at h
    by_cases eb : lower b = [] <;> simp [eb] at h
    · exact absurd h (ok.unnamed_img _ ha)
    · exact absurd (List.mem_map.2 ⟨lower a, ha, h⟩) hb.2.2.2.1
  · rw [baseOf_eq, baseOf_eq] at h
    exact ok.img_inj _ ha _ hb h
  · exact listed_spelled a b ha hb h
  · exact (plain_spelled b a hb ha h.symm).elim
  · exact (listed_spelled b a hb ha h.symm).symm
  · rw [baseOf_eq, baseOf_eq] at h
    exact spelled_inj T S ok _ _ ha hb h

/-! ### quoting and anchors -/

theorem hexDigit_inj : ∀ a, a < 16 → ∀ b, b < 16 → hexDigit a = hexDigit b → a = b := by decide

theorem quoteChar_ne_nil (c : Char) : quoteChar c ≠ [] := by
  unfold quoteChar; split <;> simp

theorem quote_inj : ∀ (a b : Str), Ascii a → Ascii b → quote a = quote b → a = b := by
  intro a
  induction a with
  | nil =>
    intro b _ _ h
    cases b with
    | nil => rfl
    | cons y ys =>
      simp [quote] at h
      exact absurd h.1 (quoteChar_ne_nil y)
  | cons x xs ih =>
    intro b ha hb h
    cases b with
    | nil =>
      simp [quote] at h
      exact absurd h.1 (quoteChar_ne_nil x)
    | cons y ys =>
      have hx : x.toNat < 128 := ha x (by simp)
      have hy : y.toNat < 128 := hb y (by simp)
      have ha' : Ascii xs := fun c hc => ha c (List.mem_cons_of_mem _ hc)
      have hb' : Ascii ys := fun c hc => hb c (List.mem_cons_of_mem _ hc)
      simp only [quote, quoteChar] at h
      by_cases sx : quoteSafe x = true <;> by_cases sy : quoteSafe y = true
      · simp [sx, sy] at h
        rw [h.1, ih ys ha' hb' h.2]
      · simp [sx, sy] at h
        rw [h.1] at sx
        exact absurd sx (by decide)
      · simp [sx, sy] at h
        rw [← h.1] at sy
        exact absurd sy (by decide)
      · simp [sx, sy] at h
        obtain ⟨h1, h2, h3⟩ := h
        have e1 := hexDigit_inj _ (by omega) _ (by omega) h1
        have e2 := hexDigit_inj _ (by omega) _ (by omega) h2
        have : x = y := Char.toNat_inj.1 (by omega)
        rw [this, ih ys ha' hb' h3]

theorem anchorOf_inj (o1 o2 s1 s2 : Str) (h1 : '-' ∉ o1) (h2 : '-' ∉ o2) (a1 : Ascii s1) (a2 : Ascii s2)
    (h : anchorOf o1 s1 = anchorOf o2 s2) : o1 = o2 ∧ s1 = s2 := by
  obtain ⟨ho, hq⟩ := split_first_sep '-' o1 o2 _ _ h1 h2 h
  exact ⟨ho, quote_inj s1 s2 a1 a2 hq⟩

/-! ### output paths -/

theorem splitSlashAux_noslash : ∀ (s cur : Str), '/' ∉ s → splitSlashAux s cur = [cur.reverse ++ s] := by
  intro s
  induction s with
  | nil => intro cur _; simp [splitSlashAux]
  | cons c cs ih =>
    intro cur h
    simp at h
    have hc : ¬ c = '/' := fun e => h.1 e.symm
    simp [splitSlashAux, hc, ih (c :: cur) h.2]

theorem outfileOf_noslash (dir stem : Str) (h : '/' ∉ stem) :
    outfileOf dir stem = [dir, stem ++ htmlExt] := by
  unfold outfileOf splitSlash
  rw [splitSlashAux_noslash]
  · simp
  · simp only [List.mem_append, not_or]
    exact ⟨h, by decide⟩

/-! ### directories -/

/-- the values `get_dir` can return -/
def entityDirs : List Str :=
  ["sourcefile", "program", "module", "blockdata", "namelist", "type", "interface", "proc"].map String.toList

theorem dirOf_mem (k : Kind) (p : Option Kind) (g n : Bool) (d : Str)
    (h : dirOf k p g n = some d) : d ∈ entityDirs := by
  unfold dirOf at h
  by_cases c1 : k = .submodule
  · rw [if_pos c1] at h; cases h; decide
  · rw [if_neg c1] at h
    by_cases c2 : identBorrows k p g = true
    · rw [if_pos c2] at h; cases h; decide
    · rw [if_neg c2] at h
      by_cases c3 : (isInterfaceKind k && !n) = true
      · rw [if_pos c3] at h; cases h
      · rw [if_neg c3] at h
        by_cases c4 : (alwaysPage k || (condPage k && pageParent p)) = true
        · rw [if_pos c4] at h; cases h
          cases k <;> first | exact absurd rfl c1 | decide | simp [alwaysPage, condPage] at c4
        · rw [if_neg c4] at h; cases h

/-! ### src copy -/

def srcEntry (f : Str × Str) : Str × Str := (basename f.1, f.2)

theorem copySrc_eq : ∀ (files acc : List (Str × Str)),
    copySrc acc files = (files.map srcEntry).reverse ++ acc := by
  intro files
  induction files with
  | nil => intro acc; simp [copySrc]
  | cons f fs ih =>
    intro acc
    obtain ⟨p, c⟩ := f
    simp [copySrc, ih, srcEntry]

theorem assoc_functional {α β : Type} [DecidableEq α] : ∀ (L : List (α × β)) (e : α × β), e ∈ L →
    (∀ x ∈ L, ∀ y ∈ L, x.1 = y.1 → x = y) → assoc e.1 L = some e.2 := by
  intro L
  induction L with
  | nil => intro e h; simp at h
  | cons x xs ih =>
    intro e he hf
    obtain ⟨a, b⟩ := x
    simp only [assoc_cons]
    by_cases ek : e.1 = a
    · have := hf e he (a, b) (by simp) ek
      simp [this]
    · simp only [ek, if_false]
      rcases List.mem_cons.1 he with rfl | he
      · exact absurd rfl ek
      · exact ih e he (fun x hx y hy => hf x (List.mem_cons_of_mem _ hx) y (List.mem_cons_of_mem _ hy))

end Ford.Names
