/-
  C10: legal names, symbol replacement, quoting, output paths, src copy.
  Core Lean only.
-/
import FordModel.Lemmas.Names
namespace Ford.Names
open Ford

/-! ### symbol replacement -/

theorem replaceChar_id (c : Char) (rep : Str) : ∀ s : Str, c ∉ s → replaceChar c rep s = s := by
  intro s
  induction s with
  | nil => intro _; rfl
  | cons x xs ih =>
    intro h
    simp at h
    have hx : ¬ x = c := fun e => h.1 e.symm
    simp [replaceChar, hx, ih h.2]

theorem replaceAll_id : ∀ (T : SymTable) (s : Str), (∀ p ∈ T, p.1 ∉ s) → replaceAll T s = s := by
  intro T
  induction T with
  | nil => intro s _; rfl
  | cons p t ih =>
    intro s h
    obtain ⟨c, rep⟩ := p
    have hc : c ∉ s := h (c, rep) (by simp)
    simp only [replaceAll, replaceChar_id c rep s hc]
    exact ih s (fun q hq => h q (List.mem_cons_of_mem _ hq))

theorem replaceChar_removes (c : Char) (rep : Str) (hrep : c ∉ rep) : ∀ s : Str, c ∉ replaceChar c rep s := by
  intro s
  induction s with
  | nil => simp [replaceChar]
  | cons x xs ih =>
    by_cases e : x = c
    · simp [replaceChar, e, hrep, ih]
    · simp [replaceChar, e, ih]
      exact fun h => e h.symm

theorem replaceChar_keeps (c d : Char) (rep : Str) (hrep : d ∉ rep) : ∀ s : Str, d ∉ s → d ∉ replaceChar c rep s := by
  intro s
  induction s with
  | nil => simp [replaceChar]
  | cons x xs ih =>
    intro h
    simp at h
    by_cases e : x = c
    · simp [replaceChar, e, hrep, ih h.2]
    · simp [replaceChar, e, ih h.2, h.1]

theorem replaceAll_keeps (d : Char) : ∀ (T : SymTable) (s : Str), (∀ p ∈ T, d ∉ p.2) → d ∉ s → d ∉ replaceAll T s := by
  intro T
  induction T with
  | nil => intro s _ h; exact h
  | cons p t ih =>
    intro s hT hs
    obtain ⟨c, rep⟩ := p
    simp only [replaceAll]
    apply ih _ (fun q hq => hT q (List.mem_cons_of_mem _ hq))
    exact replaceChar_keeps c d rep (hT (c, rep) (by simp)) s hs

/-- A symbol that is a key of the table, and that no replacement re-introduces,
    does not occur in the result. -/
theorem replaceAll_removes (d : Char) : ∀ (T : SymTable) (s : Str), (∃ p ∈ T, p.1 = d) →
    (∀ p ∈ T, d ∉ p.2) → d ∉ replaceAll T s := by
  intro T
  induction T with
  | nil => intro s h; simp at h
  | cons p t ih =>
    intro s hex hT
    obtain ⟨c, rep⟩ := p
    simp only [replaceAll]
    have hrep : d ∉ rep := hT (c, rep) (by simp)
    have hT' : ∀ q ∈ t, d ∉ q.2 := fun q hq => hT q (List.mem_cons_of_mem _ hq)
    by_cases e : c = d
    · subst e
      exact replaceAll_keeps c t _ hT' (replaceChar_removes c rep hrep s)
    · obtain ⟨q, hq, hqd⟩ := hex
      rcases List.mem_cons.1 hq with rfl | hq
      · exact absurd hqd e
      · exact ih _ ⟨q, hq, hqd⟩ hT'

theorem decAux_keeps (d : Char) (hd : ∀ m, m < 10 → digitChar m ≠ d) : ∀ (fuel n : Nat) (acc : Str),
    d ∉ acc → d ∉ decAux fuel n acc := by
  intro fuel
  induction fuel with
  | zero => intro n acc h; exact h
  | succ f ih =>
    intro n acc h
    unfold decAux
    split
    · rename_i h10
      simp [h]
      exact fun e => hd n h10 e.symm
    · apply ih
      simp [h]
      exact fun e => hd (n % 10) (by omega) e.symm

theorem decimal_keeps (d : Char) (hd : ∀ m, m < 10 → digitChar m ≠ d) (n : Nat) : d ∉ decimal n :=
  decAux_keeps d hd _ _ [] (by simp)

/-! ### legal names -/

theorem baseOf_eq (T : Cfg) (n : Str) : baseOf T n = baseL T (lower n) := rfl

/-- The finitely many facts about the table and the listed names (decided by
    evaluation on the generated table). -/
structure TableOK (T : Cfg) (S : List Str) : Prop where
  unnamed_sep : T.sep ∉ T.unnamed
  img_sep : ∀ x ∈ S, T.sep ∉ baseL T x
  img_inj : ∀ x ∈ S, ∀ y ∈ S, baseL T x = baseL T y → x = y
  unnamed_img : ∀ x ∈ S, baseL T x ≠ T.unnamed

theorem plain_base (T : Cfg) (S : List Str) (n : Str) (h : Plain T S n) :
    baseOf T n = if lower n = [] then T.unnamed else lower n := by
  rw [baseOf_eq]
  unfold baseL
  rw [replaceAll_id T.table (lower n) h.1]
  cases lower n <;> simp

theorem legal_sep (T : Cfg) (S : List Str) (ok : TableOK T S) (n : Str) (h : Legal T S n) :
    T.sep ∉ baseOf T n := by
  rcases h with h | h
  · rw [plain_base T S n h]
    split
    · exact ok.unnamed_sep
    · exact h.2.1
  · rw [baseOf_eq]; exact ok.img_sep _ h

theorem legal_base_inj (T : Cfg) (S : List Str) (ok : TableOK T S) (a b : Str)
    (ha : Legal T S a) (hb : Legal T S b) (h : baseOf T a = baseOf T b) : lower a = lower b := by
  rcases ha with ha | ha <;> rcases hb with hb | hb
  · rw [plain_base T S a ha, plain_base T S b hb] at h
    by_cases ea : lower a = [] <;> by_cases eb : lower b = [] <;> simp [ea, eb] at h
    · rw [ea, eb]
    · exact absurd h.symm hb.2.2.1
    · exact absurd h ha.2.2.1
    · exact h
  · rw [plain_base T S a ha, baseOf_eq T b] at h
    by_cases ea : lower a = [] <;> simp [ea] at h
    · exact absurd h.symm (ok.unnamed_img _ hb)
    · exact absurd (List.mem_map.2 ⟨lower b, hb, h.symm⟩) ha.2.2.2
  · rw [plain_base T S b hb, baseOf_eq T a] at h
    by_cases eb : lower b = [] <;> simp [eb] at h
    · exact absurd h (ok.unnamed_img _ ha)
    · exact absurd (List.mem_map.2 ⟨lower a, ha, h⟩) hb.2.2.2
  · rw [baseOf_eq, baseOf_eq] at h
    exact ok.img_inj _ ha _ hb h

/-! ### quoting and anchors -/

theorem hexDigit_inj : ∀ a, a < 16 → ∀ b, b < 16 → hexDigit a = hexDigit b → a = b := by decide

theorem quoteChar_ne_nil (c : Char) : quoteChar c ≠ [] := by
  unfold quoteChar; split <;> simp

theorem quote_inj : ∀ (a b : Str), Ascii a → Ascii b → quote a = quote b → a = b := by
  intro a
  induction a with
  | nil =>
    intro b _ _ h
    cases b with
    | nil => rfl
    | cons y ys =>
      simp [quote] at h
      exact absurd h.1 (quoteChar_ne_nil y)
  | cons x xs ih =>
    intro b ha hb h
    cases b with
    | nil =>
      simp [quote] at h
      exact absurd h.1 (quoteChar_ne_nil x)
    | cons y ys =>
      have hx : x.toNat < 128 := ha x (by simp)
      have hy : y.toNat < 128 := hb y (by simp)
      have ha' : Ascii xs := fun c hc => ha c (List.mem_cons_of_mem _ hc)
      have hb' : Ascii ys := fun c hc => hb c (List.mem_cons_of_mem _ hc)
      simp only [quote, quoteChar] at h
      by_cases sx : quoteSafe x = true <;> by_cases sy : quoteSafe y = true
      · simp [sx, sy] at h
        rw [h.1, ih ys ha' hb' h.2]
      · simp [sx, sy] at h
        rw [h.1] at sx
        exact absurd sx (by decide)
      · simp [sx, sy] at h
        rw [← h.1] at sy
        exact absurd sy (by decide)
      · simp [sx, sy] at h
        obtain ⟨h1, h2, h3⟩ := h
        have e1 := hexDigit_inj _ (by omega) _ (by omega) h1
        have e2 := hexDigit_inj _ (by omega) _ (by omega) h2
        have : x = y := Char.toNat_inj.1 (by omega)
        rw [this, ih ys ha' hb' h3]

theorem anchorOf_inj (o1 o2 s1 s2 : Str) (h1 : '-' ∉ o1) (h2 : '-' ∉ o2) (a1 : Ascii s1) (a2 : Ascii s2)
    (h : anchorOf o1 s1 = anchorOf o2 s2) : o1 = o2 ∧ s1 = s2 := by
  obtain ⟨ho, hq⟩ := split_first_sep '-' o1 o2 _ _ h1 h2 h
  exact ⟨ho, quote_inj s1 s2 a1 a2 hq⟩

/-! ### output paths -/

theorem splitSlashAux_noslash : ∀ (s cur : Str), '/' ∉ s → splitSlashAux s cur = [cur.reverse ++ s] := by
  intro s
  induction s with
  | nil => intro cur _; simp [splitSlashAux]
  | cons c cs ih =>
    intro cur h
    simp at h
    have hc : ¬ c = '/' := fun e => h.1 e.symm
    simp [splitSlashAux, hc, ih (c :: cur) h.2]

theorem outfileOf_noslash (dir stem : Str) (h : '/' ∉ stem) :
    outfileOf dir stem = [dir, stem ++ htmlExt] := by
  unfold outfileOf splitSlash
  rw [splitSlashAux_noslash]
  · simp
  · simp only [List.mem_append, not_or]
    exact ⟨h, by decide⟩

/-! ### directories -/

/-- the values `get_dir` can return -/
def entityDirs : List Str :=
  ["sourcefile", "program", "module", "blockdata", "namelist", "type", "interface", "proc"].map String.toList

theorem dirOf_mem (k : Kind) (p : Option Kind) (g n : Bool) (d : Str)
    (h : dirOf k p g n = some d) : d ∈ entityDirs := by
  unfold dirOf at h
  by_cases c1 : k = .submodule
  · rw [if_pos c1] at h; cases h; decide
  · rw [if_neg c1] at h
    by_cases c2 : identBorrows k p g = true
    · rw [if_pos c2] at h; cases h; decide
    · rw [if_neg c2] at h
      by_cases c3 : (isInterfaceKind k && !n) = true
      · rw [if_pos c3] at h; cases h
      · rw [if_neg c3] at h
        by_cases c4 : (alwaysPage k || (condPage k && pageParent p)) = true
        · rw [if_pos c4] at h; cases h
          cases k <;> first | exact absurd rfl c1 | decide | simp [alwaysPage, condPage] at c4
        · rw [if_neg c4] at h; cases h

/-! ### src copy -/

def srcEntry (f : Str × Str) : Str × Str := (basename f.1, f.2)

theorem copySrc_eq : ∀ (files acc : List (Str × Str)),
    copySrc acc files = (files.map srcEntry).reverse ++ acc := by
  intro files
  induction files with
  | nil => intro acc; simp [copySrc]
  | cons f fs ih =>
    intro acc
    obtain ⟨p, c⟩ := f
    simp [copySrc, ih, srcEntry]

theorem assoc_functional {α β : Type} [DecidableEq α] : ∀ (L : List (α × β)) (e : α × β), e ∈ L →
    (∀ x ∈ L, ∀ y ∈ L, x.1 = y.1 → x = y) → assoc e.1 L = some e.2 := by
  intro L
  induction L with
  | nil => intro e h; simp at h
  | cons x xs ih =>
    intro e he hf
    obtain ⟨a, b⟩ := x
    simp only [assoc_cons]
    by_cases ek : e.1 = a
    · have := hf e he (a, b) (by simp) ek
      simp [this]
    · simp only [ek, if_false]
      rcases List.mem_cons.1 he with rfl | he
      · exact absurd rfl ek
      · exact ih e he (fun x hx y hy => hf x (List.mem_cons_of_mem _ hx) y (List.mem_cons_of_mem _ hy))

end Ford.Names
