/-
  Lemmas about `FordModel/SortComp.lean` (the option `sort`): the stable insertion sort permutes, and
  `sort_components` leaves every collection that is not in its table exactly as it was.
-/
import FordModel.SortComp
namespace Ford.SortComp

theorem insertK_perm {α : Type} (k : α → Key) (x : α) (l : List α) : (insertK k x l).Perm (x :: l) := by
  induction l with
  | nil => simp [insertK]
  | cons y ys ih =>
    simp only [insertK]
    split
    · exact (List.Perm.cons y ih).trans (List.Perm.swap x y ys)
    · exact List.Perm.refl _

theorem sortK_perm {α : Type} (k : α → Key) (l : List α) : (sortK k l).Perm l := by
  induction l with
  | nil => simp [sortK]
  | cons x xs ih => exact (insertK_perm k x (sortK k xs)).trans (List.Perm.cons x ih)

theorem coll_sorted (k : Item → Key) (tbl : List Str) (n : Str) (e : Entity) :
    coll n (e.map fun p => if tbl.contains p.1 then (p.1, sortK k p.2) else p)
      = if tbl.contains n then sortK k (coll n e) else coll n e := by
  induction e with
  | nil => simp [coll, sortK]
  | cons p rest ih =>
    obtain ⟨m, l⟩ := p
    by_cases hmn : m = n
    · subst hmn
      by_cases ht : m ∈ tbl <;> simp [coll, ht]
    · simp only [List.contains_iff_mem] at ih
      by_cases ht : m ∈ tbl <;> simp [coll, ht, hmn, ih]

theorem coll_sortComponents (tbl : List Str) (o : Opt) (n : Str) (e : Entity) :
    coll n (sortComponents tbl o e)
      = match keyFn o with
        | none => coll n e
        | some k => if tbl.contains n then sortK k (coll n e) else coll n e := by
  unfold sortComponents
  cases keyFn o with
  | none => rfl
  | some k => exact coll_sorted k tbl n e

end Ford.SortComp
