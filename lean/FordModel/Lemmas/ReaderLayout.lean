import FordModel.Reader
import FordModel.Lemmas.Reader
namespace Ford

/-! ### The reader on code-only lines: `feed` factors through the stripped code part -/

/-- no documentation is pending and no doc block is being read -/
def Quiet (s : RS) : Prop :=
  s.docbuffer = [] ∧ s.prevdoc = false ∧ s.readingAlt = 0 ∧ s.readingPredoc = false ∧
    s.readingPredocAlt = 0

/-- the line is neither a preprocessor line nor carries any kind of doc comment -/
def NoDoc (m : Marks) (inq : Bool) (line : Str) : Prop :=
  firstStripped line ≠ some '#' ∧ matchDocmark m.pre line inq = none ∧
    matchDocmark m.preAlt line inq = none ∧ matchDocmark m.alt line inq = none ∧
    matchDocmark m.doc line inq = none

/-- the code part of a physical line: ordinary comment removed (unless the line starts
    inside a continued literal), then stripped -/
def codeOf (inq : Bool) (line : Str) : Str :=
  strip (match matchCom line inq with
    | some i => line.take i
    | none => line)

/-- split off a trailing `&` -/
def splitAmp (l : Str) : Bool × Str :=
  if l.getLast? == some '&' then (true, l.dropLast) else (false, l)

/-- end of one loop iteration on code: append, and emit the statements when complete -/
def tailC (lb : Str) (cont : Bool) (l : Str) : Except RErr ((Str × Bool) × List Str) :=
  let lb2 := lb ++ l
  if !lb2.isEmpty && !cont then
    let items := ((quoteSplit ';' lb2).filter (fun f => !f.isEmpty)).map strip
    if items.isEmpty then .error .internal else .ok (([], false), items)
  else .ok ((lb2, cont), [])

/-- the loop body as a function of `(linebuffer, continued)` and the code part of the line -/
def feedCode (lb : Str) (cont : Bool) (c : Str) : Except RErr ((Str × Bool) × List Str) :=
  match c with
  | [] => tailC lb cont []
  | x :: rest =>
    if x == '&' then
      if cont then
        if isBlank rest then .ok ((lb, cont), [])
        else tailC lb (splitAmp rest).1 (splitAmp rest).2
      else if rest.isEmpty then .ok ((lb, cont), [])
      else .error .ampStart
    else tailC (strip lb ++ [' ']) (splitAmp (x :: rest)).1 (splitAmp (x :: rest)).2

def liftCode (s : RS) : Except RErr ((Str × Bool) × List Str) → Except RErr (RS × List Str)
  | .error e => .error e
  | .ok ((lb, c), items) => .ok ({ s with linebuffer := lb, continued := c }, items)

theorem flush_nodocs (m : Marks) (p : List Str) (pd : Bool) (hp : p ≠ []) :
    flush m p [] pd = (p, false) := by
  cases p with
  | nil => exact absurd rfl hp
  | cons a as => rfl

/-- the tail of an iteration on a quiet state -/
theorem feedTail_quiet (m : Marks) (cont : Bool) (lb l : Str) :
    feedTail m { continued := cont, linebuffer := lb } l =
      liftCode { continued := cont, linebuffer := lb } (tailC lb cont l) := by
  simp only [feedTail, tailC, liftCode, gt_iff_lt, Nat.lt_irrefl, ↓reduceIte]
  generalize List.map strip (List.filter (fun f => !List.isEmpty f) (quoteSplit ';' (lb ++ l))) = items
  by_cases hlb : (lb ++ l).isEmpty = true
  · cases cont <;> simp [hlb]
  · cases cont
    · cases items with
      | nil => simp [hlb]
      | cons a as => simp [hlb, flush]
    · simp [hlb]

theorem feed_eq_feedCode (m : Marks) (s : RS) (line : Str) (hq : Quiet s)
    (hn : NoDoc m (unterminated s.linebuffer) line) :
    feed m s line = liftCode s (feedCode s.linebuffer s.continued (codeOf (unterminated s.linebuffer) line)) := by
  obtain ⟨hd, hp, ha, hr, hra⟩ := hq
  obtain ⟨h0, h1, h2, h3, h4⟩ := hn
  obtain ⟨db, pd, ra, cont, rp, rpa, lb⟩ := s
  simp only at hd hp ha hr hra h1 h2 h3 h4
  subst hd hp ha hr hra
  have h0' : (firstStripped line == some '#') = false := by
    simpa using h0
  have key : ∀ c : Str,
      (match c with
        | [] => feedTail m { continued := cont, linebuffer := lb } []
        | x :: rest =>
          if (x == '&') = true then
            if cont = true then
              if isBlank rest = true then Except.ok ({ continued := cont, linebuffer := lb }, [])
              else
                match if rest.getLast? == some '&' then
                    (({ continued := true, linebuffer := lb } : RS), rest.dropLast)
                  else ({ continued := false, linebuffer := lb }, rest) with
                | (s, line) => feedTail m s line
            else if rest.isEmpty = true then Except.ok ({ continued := cont, linebuffer := lb }, [])
            else Except.error RErr.ampStart
          else
            match if (x :: rest).getLast? == some '&' then
                (({ continued := true, linebuffer := strip lb ++ [' '] } : RS), (x :: rest).dropLast)
              else ({ continued := false, linebuffer := strip lb ++ [' '] }, x :: rest) with
            | (s, line) => feedTail m s line) =
      liftCode { continued := cont, linebuffer := lb } (feedCode lb cont c) := by
    intro c
    cases c with
    | nil => simp [feedCode, feedTail_quiet]
    | cons x rest =>
      simp only [feedCode, splitAmp]
      by_cases hx : (x == '&') = true
      · cases cont
        · by_cases hr : rest.isEmpty = true <;> simp [hx, hr, liftCode]
        · by_cases hb : isBlank rest = true
          · simp [hx, hb, liftCode]
          · by_cases hl : rest.getLast? == some '&' <;>
              simp [hx, hb, hl, feedTail_quiet, liftCode] <;> rfl
      · by_cases hl : (x :: rest).getLast? == some '&' <;>
          simp [hx, hl, feedTail_quiet, liftCode] <;> rfl
  cases hm : matchCom line (unterminated lb) with
  | none =>
    simp only [feed, h1, h2, h3, h4, h0', hm, codeOf, Bool.false_eq_true, ↓reduceIte, ite_self]
    exact key (strip line)
  | some i =>
    simp only [feed, h1, h2, h3, h4, h0', hm, codeOf, Bool.false_eq_true, ↓reduceIte, ite_self]
    simp only [gt_iff_lt, Nat.lt_irrefl, Nat.not_lt_zero, decide_false, Bool.or_self, Bool.false_and,
      Bool.false_eq_true, ↓reduceIte]
    exact key (strip (List.take i line))

end Ford

namespace Ford

/-! ### Continuation groups at the level of code parts -/

/-- what a completed logical line `J` emits -/
def itemsOf (J : Str) : List Str := ((quoteSplit ';' J).filter (fun f => !f.isEmpty)).map strip

/-- a physical line inside a continued statement, after comment removal and stripping -/
inductive Mid
  | blank                       -- blank or comment-only line
  | ampOnly (ws : Str)          -- `&` alone
  | cont (lead : Bool) (b : Str) -- `[&] b &`
  deriving Repr

def Mid.code : Mid → Str
  | .blank => []
  | .ampOnly ws => '&' :: ws
  | .cont true b => '&' :: (b ++ ['&'])
  | .cont false b => b ++ ['&']

/-- effect on the joined text -/
def Mid.join (J : Str) : Mid → Str
  | .blank => J
  | .ampOnly _ => J
  | .cont true b => J ++ b
  | .cont false b => strip J ++ ' ' :: b

def Mid.wf : Mid → Prop
  | .blank => True
  | .ampOnly ws => isBlank ws = true
  | .cont true _ => True
  | .cont false b => ∃ x r, b = x :: r ∧ x ≠ '&'

theorem getLast_append_amp (b : Str) : (b ++ ['&']).getLast? = some '&' := by simp

theorem getLast_cons_append_amp (x : Char) (r : Str) : (x :: (r ++ ['&'])).getLast? = some '&' := by
  have h : x :: (r ++ ['&']) = (x :: r) ++ ['&'] := rfl
  rw [h, List.getLast?_append]; simp

theorem dropLast_cons_append_amp (x : Char) (r : Str) : (x :: (r ++ ['&'])).dropLast = x :: r := by
  have h : x :: (r ++ ['&']) = (x :: r) ++ ['&'] := rfl
  rw [h, List.dropLast_concat]

theorem isBlank_append_amp (b : Str) : isBlank (b ++ ['&']) = false := by
  simp [isBlank, isSpace]

theorem feedCode_mid (J : Str) (mid : Mid) (h : mid.wf) :
    feedCode J true mid.code = .ok ((mid.join J, true), []) := by
  cases mid with
  | blank => simp [Mid.code, Mid.join, feedCode, tailC]
  | ampOnly ws =>
    simp only [Mid.wf] at h
    simp [Mid.code, Mid.join, feedCode, h]
  | cont lead b =>
    cases lead with
    | true =>
      simp [Mid.code, Mid.join, feedCode, tailC, splitAmp, isBlank_append_amp]
    | false =>
      obtain ⟨x, r, hb, hx⟩ := h
      subst hb
      have hx' : (x == '&') = false := by simp [hx]
      simp [Mid.code, Mid.join, feedCode, tailC, splitAmp, hx', getLast_cons_append_amp,
        dropLast_cons_append_amp]

/-- fold of `feedCode` over the code parts of consecutive lines -/
def runCode : (Str × Bool) → List Str → Except RErr ((Str × Bool) × List Str)
  | st, [] => .ok (st, [])
  | (lb, c), l :: ls =>
    match feedCode lb c l with
    | .error e => .error e
    | .ok (st', items) =>
      match runCode st' ls with
      | .error e => .error e
      | .ok (st'', more) => .ok (st'', items ++ more)

theorem runCode_mids (J : Str) (mids : List Mid) (rest : List Str) (h : ∀ m ∈ mids, m.wf) :
    runCode (J, true) (mids.map Mid.code ++ rest) = runCode (mids.foldl Mid.join J, true) rest := by
  induction mids generalizing J with
  | nil => rfl
  | cons mid ms ih =>
    simp only [List.map_cons, List.cons_append, runCode, List.foldl_cons]
    rw [feedCode_mid J mid (h mid (by simp))]
    simp only [List.nil_append]
    rw [ih (mid.join J) (fun m hm => h m (by simp [hm]))]
    cases runCode (List.foldl Mid.join (mid.join J) ms, true) rest with
    | error e => rfl
    | ok r => rfl

/-- the first line of a continued statement: `b &`, `b` not starting with `&` -/
theorem feedCode_first (x : Char) (r : Str) (hx : x ≠ '&') :
    feedCode [] false (x :: r ++ ['&']) = .ok (((' ' :: x :: r), true), []) := by
  have hx' : (x == '&') = false := by simp [hx]
  simp [feedCode, tailC, splitAmp, hx', strip, rstrip, lstrip, getLast_cons_append_amp,
    dropLast_cons_append_amp]

/-- the last line of a continued statement: `[&] b` with `b` not ending in `&` -/
def lastCode (lead : Bool) (b : Str) : Str := if lead then '&' :: b else b

theorem feedCode_last (J : Str) (lead : Bool) (b : Str) (hne : isBlank b = false)
    (hl : b.getLast? ≠ some '&') (hh : lead = false → ∃ x r, b = x :: r ∧ x ≠ '&')
    (hJ : itemsOf (Mid.join J (.cont lead b)) ≠ []) :
    feedCode J true (lastCode lead b) =
      .ok (([], false), itemsOf (Mid.join J (.cont lead b))) := by
  have hbne : b ≠ [] := by
    intro h; subst h; simp [isBlank] at hne
  cases lead with
  | true =>
    have hl' : (b.getLast? == some '&') = false := by simpa using hl
    have hne2 : (J ++ b).isEmpty = false := by
      cases J <;> cases b <;> simp_all
    simp only [lastCode, ↓reduceIte, feedCode, beq_self_eq_true, hne, Bool.false_eq_true, splitAmp, hl',
      tailC, Mid.join]
    simp only [hne2, Bool.not_false, Bool.and_self, ↓reduceIte]
    have : (itemsOf (J ++ b)).isEmpty = false := by
      simpa [Mid.join] using hJ
    simp only [itemsOf] at this ⊢
    simp [this]
  | false =>
    obtain ⟨x, r, hb, hx⟩ := hh rfl
    subst hb
    have hx' : (x == '&') = false := by simp [hx]
    have hl' : ((x :: r).getLast? == some '&') = false := by simpa using hl
    have : (itemsOf (strip J ++ ' ' :: x :: r)).isEmpty = false := by
      simpa [Mid.join] using hJ
    simp only [itemsOf] at this
    simp [lastCode, feedCode, hx', splitAmp, hl', tailC, Mid.join, itemsOf, this]

end Ford

namespace Ford

/-! ### Continuation groups at the level of physical lines -/

/-- a quiet reader state with the given buffer and continuation flag -/
def qs (lb : Str) (c : Bool) : RS := { continued := c, linebuffer := lb }

theorem quiet_qs (lb : Str) (c : Bool) : Quiet (qs lb c) := by simp [Quiet, qs]

theorem readFrom_step (m : Marks) (s s' : RS) (l : Str) (ls : List Str) (items : List Str)
    (h : feed m s l = .ok (s', items)) :
    readFrom m s (l :: ls) =
      match readFrom m s' ls with
      | .error e => .error e
      | .ok more => .ok (items ++ more) := by
  simp only [readFrom, h]
  cases readFrom m s' ls <;> rfl

/-- the physical lines `lines` are the layout `mids` of a statement continued from `J`:
    each line carries no doc comment, and its code part - under the lexical state the
    reader is in at that point - is the intended one -/
def Rendered (m : Marks) : Str → List Mid → List Str → Prop
  | _, [], [] => True
  | J, mid :: ms, l :: ls =>
    NoDoc m (unterminated J) l ∧ codeOf (unterminated J) l = mid.code ∧ mid.wf ∧
      Rendered m (mid.join J) ms ls
  | _, _, _ => False

theorem readFrom_mids (m : Marks) (J : Str) (mids : List Mid) (lines rest : List Str)
    (h : Rendered m J mids lines) :
    readFrom m (qs J true) (lines ++ rest) = readFrom m (qs (mids.foldl Mid.join J) true) rest := by
  induction mids generalizing J lines with
  | nil =>
    cases lines with
    | nil => rfl
    | cons l ls => simp [Rendered] at h
  | cons mid ms ih =>
    cases lines with
    | nil => simp [Rendered] at h
    | cons l ls =>
      obtain ⟨hn, hc, hw, hr⟩ := h
      have hf : feed m (qs J true) l = .ok (qs (mid.join J) true, []) := by
        rw [feed_eq_feedCode m (qs J true) l (quiet_qs J true) (by simpa [qs] using hn)]
        simp only [qs] at hc ⊢
        rw [hc, feedCode_mid J mid hw]
        rfl
      simp only [List.cons_append, List.foldl_cons]
      rw [readFrom_step m _ _ l _ [] hf, ih (mid.join J) ls hr]
      cases readFrom m (qs (List.foldl Mid.join (mid.join J) ms) true) rest <;> rfl

/-- **Continuation join.**  A statement laid out over any number of physical lines -
    first line `b0 &`, then any mixture of blank lines, comment lines, `&`-only lines
    and continuation lines `[&] b &`, then a last line `[&] bn` - is read as the single
    logical line obtained by joining the pieces (a leading `&` joins directly, its
    absence joins with one blank), and is then split at the `;` outside literals. -/
theorem continuation_join (m : Marks) (l0 : Str) (x : Char) (r : Str) (mids : List Mid)
    (lines : List Str) (ln : Str) (lead : Bool) (b : Str) (rest : List Str)
    (h0 : NoDoc m false l0) (hc0 : codeOf false l0 = x :: r ++ ['&']) (hx : x ≠ '&')
    (hr : Rendered m (' ' :: x :: r) mids lines)
    (hn : NoDoc m (unterminated (mids.foldl Mid.join (' ' :: x :: r))) ln)
    (hcn : codeOf (unterminated (mids.foldl Mid.join (' ' :: x :: r))) ln = lastCode lead b)
    (hb : isBlank b = false) (hl : b.getLast? ≠ some '&')
    (hh : lead = false → ∃ y t, b = y :: t ∧ y ≠ '&')
    (hJ : itemsOf (Mid.join (mids.foldl Mid.join (' ' :: x :: r)) (.cont lead b)) ≠ []) :
    readFrom m (qs [] false) (l0 :: lines ++ ln :: rest) =
      match readFrom m (qs [] false) rest with
      | .error e => .error e
      | .ok more =>
        .ok (itemsOf (Mid.join (mids.foldl Mid.join (' ' :: x :: r)) (.cont lead b)) ++ more) := by
  have hu : unterminated ([] : Str) = false := by decide
  have hf0 : feed m (qs [] false) l0 = .ok (qs (' ' :: x :: r) true, []) := by
    rw [feed_eq_feedCode m (qs [] false) l0 (quiet_qs _ _) (by simpa [qs, hu] using h0)]
    simp only [qs, hu, hc0]
    rw [feedCode_first x r hx]
    rfl
  have hfn : feed m (qs (mids.foldl Mid.join (' ' :: x :: r)) true) ln =
      .ok (qs [] false, itemsOf (Mid.join (mids.foldl Mid.join (' ' :: x :: r)) (.cont lead b))) := by
    rw [feed_eq_feedCode m _ ln (quiet_qs _ _) (by simpa [qs] using hn)]
    simp only [qs] at hcn ⊢
    rw [hcn, feedCode_last _ lead b hb hl hh hJ]
    rfl
  rw [List.cons_append, readFrom_step m _ _ l0 _ [] hf0, readFrom_mids m _ mids lines (ln :: rest) hr,
    readFrom_step m _ _ ln rest _ hfn]
  cases readFrom m (qs [] false) rest <;> rfl

end Ford

namespace Ford

/-! ### Lexical side: the code part of a rendered physical line -/

theorem comScanAux_atoms_none (mark p : Str) (k : Nat) (hp : Atoms p) :
    comScanAux mark p .out k = none := by
  induction hp generalizing k with
  | nil => simp [comScanAux]
  | plain c rest hq hb _ ih =>
    have : (c == '!') = false := by simp [hb]
    simp [comScanAux, this, hq, ih (k + 1)]
  | quoted q body rest hq hnot _ ih =>
    have hb : (q == '!') = false := by
      simp [isQuote] at hq; rcases hq with h | h <;> simp [h]
    simp only [List.cons_append, comScanAux, hb, hq]
    simp only [Bool.false_eq_true, ↓reduceIte]
    rw [comScanAux_inq_skip mark q body _ _ hnot, ih]

theorem comScanAux_inq_open (mark : Str) (q : Char) (body : Str) (k : Nat) (h : q ∉ body) :
    comScanAux mark body (.inq q) k = none := by
  induction body generalizing k with
  | nil => simp [comScanAux]
  | cons b bs ih =>
    have hb : (b == q) = false := by
      simp at h; simp [Ne.symm h.1]
    have hq : q ∉ bs := by simp at h; exact h.2
    simp [comScanAux, hb, ih (k + 1) hq]

/-- closed literals then an unterminated one: no comment can start on this line -/
theorem comScanAux_atoms_open_none (mark p : Str) (q : Char) (body : Str) (k : Nat) (hp : Atoms p)
    (hq : isQuote q = true) (hb : q ∉ body) :
    comScanAux mark (p ++ q :: body) .out k = none := by
  induction hp generalizing k with
  | nil =>
    have hbang : (q == '!') = false := by
      simp [isQuote] at hq; rcases hq with h | h <;> simp [h]
    simp [comScanAux, hbang, hq, comScanAux_inq_open mark q body _ hb]
  | plain c rest hqc hbc _ ih =>
    have : (c == '!') = false := by simp [hbc]
    simp [comScanAux, this, hqc, ih (k + 1)]
  | quoted q' body' rest hq' hnot _ ih =>
    have hb' : (q' == '!') = false := by
      simp [isQuote] at hq'; rcases hq' with h | h <;> simp [h]
    simp only [List.cons_append, List.append_assoc, comScanAux, hb', hq']
    simp only [Bool.false_eq_true, ↓reduceIte]
    rw [comScanAux_inq_skip mark q' body' _ _ hnot, ih]

/-- a line that starts outside a literal: everything from the first `!` outside the
    (closed) literals on is dropped -/
theorem codeOf_outside_comment (p cmt : Str) (hp : Atoms p) :
    codeOf false (p ++ '!' :: cmt) = strip p := by
  have h := comScanAux_of_atoms [] p cmt 0 hp
  simp only [startsWith, ↓reduceIte, Nat.zero_add] at h
  simp [codeOf, matchCom, comScan, h]

/-- ... a line without such a `!` is kept whole -/
theorem codeOf_outside_plain (p : Str) (hp : Atoms p) : codeOf false p = strip p := by
  simp [codeOf, matchCom, comScan, comScanAux_atoms_none [] p 0 hp]

/-- ... also when it ends inside a literal that the next line continues -/
theorem codeOf_outside_open (p : Str) (q : Char) (body : Str) (hp : Atoms p)
    (hq : isQuote q = true) (hb : q ∉ body) : codeOf false (p ++ q :: body) = strip (p ++ q :: body) := by
  simp [codeOf, matchCom, comScan, comScanAux_atoms_open_none [] p q body 0 hp hq hb]

/-- a line that starts inside a continued literal is taken whole -/
theorem codeOf_inside (l : Str) : codeOf true l = strip l := by
  simp [codeOf, matchCom]

theorem noDoc_inside (m : Marks) (l : Str) (h : firstStripped l ≠ some '#') : NoDoc m true l := by
  simp [NoDoc, matchDocmark, h]

theorem matchDocmark_comment (mark p cmt : Str) (hp : Atoms p) (hm : startsWith cmt mark = false) :
    matchDocmark mark (p ++ '!' :: cmt) false = none := by
  have h := comScanAux_of_atoms mark p cmt 0 hp
  simp only [hm, Bool.false_eq_true, ↓reduceIte] at h
  simp [matchDocmark, comScan, h]

theorem matchDocmark_plain (mark p : Str) (hp : Atoms p) : matchDocmark mark p false = none := by
  simp [matchDocmark, comScan, comScanAux_atoms_none mark p 0 hp]

theorem matchDocmark_open (mark p : Str) (q : Char) (body : Str) (hp : Atoms p)
    (hq : isQuote q = true) (hb : q ∉ body) : matchDocmark mark (p ++ q :: body) false = none := by
  simp [matchDocmark, comScan, comScanAux_atoms_open_none mark p q body 0 hp hq hb]

end Ford
