import FordModel.Reader
import FordModel.Lemmas.Reader
namespace Ford

/-! ### The reader on code-only lines: `feed` factors through the stripped code part -/

/-- no documentation is pending and no doc block is being read -/
def Quiet (s : RS) : Prop :=
  s.docbuffer = [] ∧ s.prevdoc = false ∧ s.readingAlt = 0 ∧ s.readingPredoc = false ∧
    s.readingPredocAlt = 0

/-- the line is neither a preprocessor line nor carries any kind of doc comment -/
def NoDoc (m : Marks) (inq : Bool) (line : Str) : Prop :=
  firstStripped line ≠ some '#' ∧ matchDocmark m.pre line inq = none ∧
    matchDocmark m.preAlt line inq = none ∧ matchDocmark m.alt line inq = none ∧
    matchDocmark m.doc line inq = none

/-- the code part of a physical line: ordinary comment removed (unless the line starts
    inside a continued literal), then stripped -/
def codeOf (inq : Bool) (line : Str) : Str :=
  strip (match matchCom line inq with
    | some i => line.take i
    | none => line)

/-- split off a trailing `&` -/
def splitAmp (l : Str) : Bool × Str :=
  if l.getLast? == some '&' then (true, l.dropLast) else (false, l)

/-- end of one loop iteration on code: append, and emit the statements when complete -/
def tailC (lb : Str) (cont : Bool) (l : Str) : Except RErr ((Str × Bool) × List Str) :=
  let lb2 := lb ++ l
  if !lb2.isEmpty && !cont then
    let items := ((quoteSplit ';' lb2).filter (fun f => !f.isEmpty)).map strip
    if items.isEmpty then .error .internal else .ok (([], false), items)
  else .ok ((lb2, cont), [])

/-- the loop body as a function of `(linebuffer, continued)` and the code part of the line -/
def feedCode (lb : Str) (cont : Bool) (c : Str) : Except RErr ((Str × Bool) × List Str) :=
  match c with
  | [] => tailC lb cont []
  | x :: rest =>
    if x == '&' then
      if cont then
        if isBlank rest then .ok ((lb, cont), [])
        else tailC lb (splitAmp rest).1 (splitAmp rest).2
      else if rest.isEmpty then .ok ((lb, cont), [])
      else .error .ampStart
    else tailC (strip lb ++ [' ']) (splitAmp (x :: rest)).1 (splitAmp (x :: rest)).2

def liftCode (s : RS) : Except RErr ((Str × Bool) × List Str) → Except RErr (RS × List Str)
  | .error e => .error e
  | .ok ((lb, c), items) => .ok ({ s with linebuffer := lb, continued := c }, items)

theorem feed_eq_feedCode (m : Marks) (s : RS) (line : Str) (hq : Quiet s)
    (hn : NoDoc m (unterminated s.linebuffer) line) :
    feed m s line = liftCode s (feedCode s.linebuffer s.continued (codeOf (unterminated s.linebuffer) line)) := by
  obtain ⟨hd, hp, ha, hr, hra⟩ := hq
  obtain ⟨h0, h1, h2, h3, h4⟩ := hn
  obtain ⟨db, pd, ra, cont, rp, rpa, lb⟩ := s
  simp only at hd hp ha hr hra h1 h2 h3 h4
  subst hd hp ha hr hra
  sorry

end Ford
