import FordModel.Meta
namespace Ford

/-- a metadata key in the documented form: word characters, lower case, not empty -/
def keyOK (k : Str) : Bool := !k.isEmpty && k.all isWord && lower k == k

/-- a metadata value as written by a user: not empty, no leading or trailing blank -/
def valOK (v : Str) : Bool :=
  match v with
  | [] => false
  | c :: _ => !isSpace c && strip v == v

def four : Str := [' ', ' ', ' ', ' ']

/-- the header a user writes for the dictionary `kvs` -/
def headerLines : List (Str × List Str) → List Str
  | [] => []
  | (_, []) :: rest => headerLines rest
  | (k, v :: vs) :: rest => (k ++ ':' :: ' ' :: v) :: (vs.map (fun w => four ++ w) ++ headerLines rest)

def entryOK (kv : Str × List Str) : Bool := keyOK kv.1 && !kv.2.isEmpty && kv.2.all valOK

theorem isWord_not_space (c : Char) (h : isWord c = true) : isSpace c = false := by
  cases hs : isSpace c with
  | false => rfl
  | true =>
    exfalso
    simp only [isSpace, Bool.or_eq_true, beq_iff_eq] at hs
    rcases hs with ((((h1 | h1) | h1) | h1) | h1) | h1 <;> subst h1 <;> revert h <;> decide

theorem isWord_isKeyChar (c : Char) (h : isWord c = true) : isKeyChar c = true := by
  simp only [isWord, isKeyChar, Bool.or_eq_true] at h ⊢
  rcases h with (h | h) | h
  · exact Or.inl (Or.inl (Or.inl h))
  · exact Or.inl (Or.inl (Or.inr h))
  · exact Or.inl (Or.inr h)

theorem takeWhile_key (k r : Str) (h : k.all isWord = true) :
    (k ++ ':' :: r).takeWhile isKeyChar = k ∧ (k ++ ':' :: r).dropWhile isKeyChar = ':' :: r := by
  induction k with
  | nil =>
    have hk : isKeyChar ':' = false := by decide
    exact ⟨by simp [List.takeWhile, hk], by simp [List.dropWhile, hk]⟩
  | cons c cs ih =>
    simp at h
    have hc := isWord_isKeyChar c h.1
    obtain ⟨i1, i2⟩ := ih (by simpa using h.2)
    exact ⟨by simp [List.takeWhile, hc, i1], by simp [List.dropWhile, hc, i2]⟩

theorem addMeta_new (md : MetaDict) (k v : Str) (h : k ∉ md.map (·.1)) :
    addMeta md k v = md ++ [(k, [v])] := by
  induction md with
  | nil => rfl
  | cons e md ih =>
    obtain ⟨k', vs⟩ := e
    simp at h
    have : (k' == k) = false := by simp; exact fun e => h.1 e.symm
    simp [addMeta, this]
    exact ih (by simpa using h.2)

theorem addMeta_last (md : MetaDict) (k v : Str) (vs : List Str) (h : k ∉ md.map (·.1)) :
    addMeta (md ++ [(k, vs)]) k v = md ++ [(k, vs ++ [v])] := by
  induction md with
  | nil => simp [addMeta]
  | cons e md ih =>
    obtain ⟨k', vs'⟩ := e
    simp at h
    have : (k' == k) = false := by simp; exact fun e => h.1 e.symm
    simp [addMeta, this]
    exact ih (by simpa using h.2)

theorem strip_of_valOK (v : Str) (h : valOK v = true) : strip v = v ∧ ∃ c cs, v = c :: cs ∧ isSpace c = false := by
  cases v with
  | nil => simp [valOK] at h
  | cons c cs =>
    simp [valOK] at h
    exact ⟨h.2, c, cs, rfl, h.1⟩

/-- a continuation line `"    " ++ v` -/
theorem cont_line (v : Str) (h : valOK v = true) :
    isBlank (four ++ v) = false ∧ metaEndRe (four ++ v) = false ∧ metaRe (four ++ v) = none ∧
      metaMoreRe (four ++ v) = some v := by
  obtain ⟨hs, c, cs, rfl, hc⟩ := strip_of_valOK v h
  have hne : (c == ' ') = false := by
    cases hce : c == ' ' with
    | false => rfl
    | true => simp at hce; subst hce; simp [isSpace] at hc
  refine ⟨?_, ?_, ?_, ?_⟩
  · simp [four, isBlank, hc]
  · simp [four, metaEndRe, startsWith]
  · simp [four, metaRe, List.takeWhile, hne]
  · have : strip (four ++ c :: cs) = strip (c :: cs) := by
      simp [strip, four, lstrip, isSpace]
    simp [metaMoreRe, this, hs]
    simp [four]

/-- a key line `key: value` -/
theorem key_line (k v : Str) (hk : keyOK k = true) (hv : valOK v = true) :
    isBlank (k ++ ':' :: ' ' :: v) = false ∧ metaEndRe (k ++ ':' :: ' ' :: v) = false ∧
      beginRe (k ++ ':' :: ' ' :: v) = false ∧
      ∃ v', metaRe (k ++ ':' :: ' ' :: v) = some (k, v') ∧ strip v' = v := by
  simp only [keyOK, Bool.and_eq_true, Bool.not_eq_true', beq_iff_eq] at hk
  obtain ⟨⟨hne, hall⟩, _⟩ := hk
  obtain ⟨hs, c, cs, rfl, hc⟩ := strip_of_valOK v hv
  cases k with
  | nil => simp at hne
  | cons a as =>
    have ha : isWord a = true := by simp at hall; exact hall.1
    have hsp := isWord_not_space a ha
    have hne' : (a == ' ') = false := by
      cases hce : a == ' ' with
      | false => rfl
      | true => simp at hce; subst hce; simp [isSpace] at hsp
    have hd : (a == '-') = false := by
      cases hce : a == '-' with
      | false => rfl
      | true => simp at hce; subst hce; revert ha; decide
    have hdot : (a == '.') = false := by
      cases hce : a == '.' with
      | false => rfl
      | true => simp at hce; subst hce; revert ha; decide
    obtain ⟨t1, t2⟩ := takeWhile_key (a :: as) (' ' :: c :: cs) hall
    refine ⟨by simp [isBlank, hsp], by simp [metaEndRe, startsWith, hd, hdot], by simp [beginRe, startsWith, hd], ?_⟩
    refine ⟨lstrip (' ' :: c :: cs), ?_, ?_⟩
    · have tw : ((a :: as) ++ ':' :: ' ' :: c :: cs).takeWhile (· == ' ') = [] := by
        simp [List.takeWhile, hne']
      have dw : ((a :: as) ++ ':' :: ' ' :: c :: cs).dropWhile (· == ' ') = (a :: as) ++ ':' :: ' ' :: c :: cs := by
        simp [List.dropWhile, hne']
      unfold metaRe
      simp only [tw, dw, t1, t2]
      simp
    · have h0 : isSpace ' ' = true := by decide
      have : lstrip (' ' :: c :: cs) = c :: cs := by simp [lstrip, h0, hc]
      rw [this]
      have h2 : strip (c :: cs) = c :: cs := hs
      have : strip (c :: cs) = rstrip (lstrip (c :: cs)) := rfl
      simp [strip, lstrip, hc] at h2 ⊢
      exact h2


/-- a word (only `\w` characters, not empty) is not changed by `str.strip()` -/
theorem lstrip_word (k : Str) (hall : k.all isWord = true) : lstrip k = k := by
  cases k with
  | nil => rfl
  | cons a as =>
    simp at hall
    simp [lstrip, isWord_not_space a hall.1]

theorem strip_word (k : Str) (hall : k.all isWord = true) : strip k = k := by
  have hr : k.reverse.all isWord = true := by simpa using hall
  simp [strip, rstrip, lstrip_word k hall, lstrip_word k.reverse hr]

theorem takeWhile_colon (k r : Str) (hall : k.all isWord = true) :
    (k ++ ':' :: r).takeWhile (· != ':') = k := by
  induction k with
  | nil => simp [List.takeWhile]
  | cons c cs ih =>
    simp at hall
    have hc : (c != ':') = true := by
      cases hce : c == ':' with
      | false => simp [bne, hce]
      | true => simp at hce; subst hce; exact absurd hall.1 (by decide)
    simp [List.takeWhile, hc]
    exact ih (by simpa using hall.2)

/-- a key line `Key: value`, the key written in any case -/
theorem key_line_any (k v : Str) (hne : k ≠ []) (hall : k.all isWord = true) (hv : valOK v = true) :
    isBlank (k ++ ':' :: ' ' :: v) = false ∧ metaEndRe (k ++ ':' :: ' ' :: v) = false ∧
      beginRe (k ++ ':' :: ' ' :: v) = false ∧
      ∃ v', metaRe (k ++ ':' :: ' ' :: v) = some (k, v') ∧ strip v' = v := by
  obtain ⟨hs, c, cs, rfl, hc⟩ := strip_of_valOK v hv
  cases k with
  | nil => exact absurd rfl hne
  | cons a as =>
    have ha : isWord a = true := by simp at hall; exact hall.1
    have hsp := isWord_not_space a ha
    have hne' : (a == ' ') = false := by
      cases hce : a == ' ' with
      | false => rfl
      | true => simp at hce; subst hce; simp [isSpace] at hsp
    have hd : (a == '-') = false := by
      cases hce : a == '-' with
      | false => rfl
      | true => simp at hce; subst hce; revert ha; decide
    have hdot : (a == '.') = false := by
      cases hce : a == '.' with
      | false => rfl
      | true => simp at hce; subst hce; revert ha; decide
    obtain ⟨t1, t2⟩ := takeWhile_key (a :: as) (' ' :: c :: cs) hall
    refine ⟨by simp [isBlank, hsp], by simp [metaEndRe, startsWith, hd, hdot], by simp [beginRe, startsWith, hd], ?_⟩
    refine ⟨lstrip (' ' :: c :: cs), ?_, ?_⟩
    · have tw : ((a :: as) ++ ':' :: ' ' :: c :: cs).takeWhile (· == ' ') = [] := by
        simp [List.takeWhile, hne']
      have dw : ((a :: as) ++ ':' :: ' ' :: c :: cs).dropWhile (· == ' ') = (a :: as) ++ ':' :: ' ' :: c :: cs := by
        simp [List.dropWhile, hne']
      unfold metaRe
      simp only [tw, dw, t1, t2]
      simp
    · have h0 : isSpace ' ' = true := by decide
      have : lstrip (' ' :: c :: cs) = c :: cs := by simp [lstrip, h0, hc]
      rw [this]
      have h2 : strip (c :: cs) = c :: cs := hs
      have : strip (c :: cs) = rstrip (lstrip (c :: cs)) := rfl
      simp [strip, lstrip, hc] at h2 ⊢
      exact h2


theorem metaLoop_cont (vs' : List Str) (hv : vs'.all valOK = true) (rest : List Str) (k : Str)
    (md : MetaDict) (vs0 : List Str) (hk : k ∉ md.map (·.1)) :
    metaLoop (vs'.map (fun w => four ++ w) ++ rest) (some k) (md ++ [(k, vs0)])
      = metaLoop rest (some k) (md ++ [(k, vs0 ++ vs')]) := by
  induction vs' generalizing vs0 with
  | nil => simp
  | cons v vs' ih =>
    simp at hv
    obtain ⟨c1, c2, c3, c4⟩ := cont_line v hv.1
    simp only [List.map_cons, List.cons_append]
    have step : metaLoop ((four ++ v) :: (vs'.map (fun w => four ++ w) ++ rest)) (some k) (md ++ [(k, vs0)])
        = metaLoop (vs'.map (fun w => four ++ w) ++ rest) (some k) (addMeta (md ++ [(k, vs0)]) k v) := by
      simp [metaLoop, c1, c2, c3, c4]
    rw [step, addMeta_last _ _ _ _ hk, ih (by simpa using hv.2)]
    simp

theorem metaLoop_header (kvs : List (Str × List Str)) (hok : kvs.all entryOK = true)
    (hnd : (kvs.map (·.1)).Nodup) (md : MetaDict) (hdis : ∀ kv ∈ kvs, kv.1 ∉ md.map (·.1))
    (tail : List Str) (key : Option Str) :
    ∃ key', metaLoop (headerLines kvs ++ tail) key md = metaLoop tail key' (md ++ kvs) := by
  induction kvs generalizing md key with
  | nil => exact ⟨key, by simp [headerLines]⟩
  | cons kv rest ih =>
    obtain ⟨k, vs⟩ := kv
    simp only [List.all_cons, Bool.and_eq_true] at hok
    obtain ⟨hkv, hrest⟩ := hok
    simp only [entryOK, Bool.and_eq_true, Bool.not_eq_true'] at hkv
    obtain ⟨⟨hk, hne⟩, hvs⟩ := hkv
    cases vs with
    | nil => simp at hne
    | cons v vs' =>
      simp only [List.all_cons, Bool.and_eq_true] at hvs
      obtain ⟨b1, b2, _, v', b4, b5⟩ := key_line k v hk hvs.1
      have hlow : lower k = k := by
        simp only [keyOK, Bool.and_eq_true, beq_iff_eq] at hk; exact hk.2
      have hknew : k ∉ md.map (·.1) := hdis (k, v :: vs') (by simp)
      simp only [List.map_cons, List.nodup_cons] at hnd
      have hdis' : ∀ kv ∈ rest, kv.1 ∉ (md ++ [(k, v :: vs')]).map (·.1) := by
        intro kv hkv
        simp only [List.map_append, List.map_cons, List.map_nil, List.mem_append, List.mem_singleton, not_or]
        refine ⟨hdis kv (by simp [hkv]), ?_⟩
        intro e
        exact hnd.1 (by rw [← e]; exact List.mem_map_of_mem hkv)
      obtain ⟨key', hk'⟩ := ih hrest hnd.2 (md ++ [(k, v :: vs')]) hdis' (some k)
      refine ⟨key', ?_⟩
      simp only [headerLines, List.cons_append, List.append_assoc]
      have step : ∀ X, metaLoop ((k ++ ':' :: ' ' :: v) :: X) key md = metaLoop X (some k) (addMeta md k v) := by
        intro X; simp [metaLoop, b1, b2, b4, b5, hlow]
      rw [step, addMeta_new _ _ _ hknew, metaLoop_cont vs' hvs.2 _ k md [v] hknew]
      simp only [List.singleton_append]
      rw [hk']
      simp

/-! ### comments without a metadata header -/

/-- the scan of `meta_preprocessor` on a first line that is neither blank, nor a `---`/`...`
    line, nor a `key:` line, while no key has been seen yet: the scan ends at once and the line
    is pushed back — also when the line looks like a continuation line (four or more blanks) -/
theorem metaLoop_first_not_meta (l : Str) (rest : List Str) (md : MetaDict)
    (h1 : isBlank l = false) (h2 : metaEndRe l = false) (h3 : metaRe l = none) :
    metaLoop (l :: rest) none md = (md, l :: rest) := by
  cases hm : metaMoreRe l <;> simp [metaLoop, h1, h2, h3, hm]

theorem metaSplit_first_not_meta (l : Str) (rest : List Str)
    (h1 : isBlank l = false) (h2 : metaEndRe l = false) (h3 : metaRe l = none) :
    metaSplit (l :: rest) = ([], l :: rest) := by
  have hb : beginRe l = false := by
    simp only [metaEndRe, Bool.or_eq_false_iff] at h2; exact h2.1
  simp [metaSplit, hb, metaLoop_first_not_meta l rest [] h1 h2 h3]

/-- a line indented by four or more blanks: not blank, not an end marker, not a `key:` line -/
theorem wide_line (n : Nat) (hn : 4 ≤ n) (c : Char) (cs : Str) (hc : isSpace c = false) :
    isBlank (List.replicate n ' ' ++ c :: cs) = false ∧ metaEndRe (List.replicate n ' ' ++ c :: cs) = false ∧
      metaRe (List.replicate n ' ' ++ c :: cs) = none := by
  have hne : (c == ' ') = false := by
    cases hce : c == ' ' with
    | false => rfl
    | true => simp at hce; subst hce; simp [isSpace] at hc
  refine ⟨?_, ?_, ?_⟩
  · simp [isBlank, hc]
  · obtain ⟨m, rfl⟩ : ∃ m, n = m + 1 := ⟨n - 1, by omega⟩
    simp [metaEndRe, startsWith, List.replicate_succ]
  · have tw : (List.replicate n ' ' ++ c :: cs).takeWhile (· == ' ') = List.replicate n ' ' := by
      rw [List.takeWhile_append_of_pos (by simp)]
      simp [List.takeWhile, hne]
    unfold metaRe
    simp only [tw, List.length_replicate]
    have : n > 3 := by omega
    simp [this]

/-- `read_metadata` (one-line rule included) on a comment whose first line is not metadata -/
theorem readMetadata_first_not_meta (tb : Bool) (fields : List Str) (l : Str) (rest : List Str)
    (h1 : isBlank l = false) (h2 : metaEndRe l = false) (h3 : metaRe l = none) :
    readMetadata tb fields (l :: rest) = ([], l :: rest) := by
  have hs := metaSplit_first_not_meta l rest h1 h2 h3
  have hb0 : isBlank ([] : Str) = true := rfl
  have hs' : metaSplit ([] :: l :: rest) = ([], l :: rest) := by
    simp [metaSplit, beginRe, startsWith, metaLoop, hb0]
  simp only [readMetadata, readMetaFix]
  by_cases hc : isOneLine tb (l :: rest) = true ∧ ':' ∈ l
  · by_cases hf : lower (strip (l.takeWhile (· != ':'))) ∈ fields
    · simp [hc, hf, hs]
    · simp [hc, hf, hs']
  · simp [hc, hs]

end Ford
