/-
  Lemmas about the remote-location part of the external-project model:
  `stripHttp`, `normRemote`, `keepDir`, `urlDir`, `urljoinSimple`.
-/
import FordModel.External
namespace Ford.Ext
open Ford

theorem endsWithSlash_iff (u : Str) : endsWithSlash u = true ↔ ∃ s, u = s ++ ['/'] := by
  simp [endsWithSlash, List.getLast?_eq_some_iff]

theorem endsWithSlash_append_slash (u : Str) : endsWithSlash (u ++ ['/']) = true :=
  (endsWithSlash_iff _).mpr ⟨u, rfl⟩

theorem keepDir_append_slash (s : Str) : keepDir (s ++ ['/']) = s ++ ['/'] := by
  simp [keepDir]

theorem stripHttp_eq (u pre rest : Str) (h : stripHttp u = some (pre, rest)) : u = pre ++ rest := by
  unfold stripHttp at h
  split at h <;> simp_all
  · obtain ⟨h1, h2⟩ := h; subst h1; subst h2; rfl
  · obtain ⟨h1, h2⟩ := h; subst h1; subst h2; rfl

theorem stripHttp_append (u pre rest s : Str) (h : stripHttp u = some (pre, rest)) :
    stripHttp (u ++ s) = some (pre, rest ++ s) := by
  unfold stripHttp at h
  split at h <;> simp_all
  · obtain ⟨h1, h2⟩ := h; subst h1; subst h2; simp [stripHttp]
  · obtain ⟨h1, h2⟩ := h; subst h1; subst h2; simp [stripHttp]

theorem contains_append_slash (s : Str) : (s ++ ['/']).contains '/' = true := by
  simp

/-- a URL `http(s)://rest` that ends with `/` is its own directory (when it has an authority) -/
theorem urlDir_slash (v pre rest : Str) (h : stripHttp (v ++ ['/']) = some (pre, rest)) (hr : rest ≠ []) :
    urlDir (v ++ ['/']) = v ++ ['/'] := by
  have he := stripHttp_eq _ _ _ h
  -- `rest` ends with the slash
  have hrest : ∃ r0, rest = r0 ++ ['/'] := by
    rcases List.eq_nil_or_concat rest with h0 | ⟨L, b, hb⟩
    · exact absurd h0 hr
    · have hl : (v ++ ['/']).getLast? = (pre ++ rest).getLast? := by rw [he]
      rw [hb] at hl
      simp [← List.append_assoc] at hl
      exact ⟨L, by rw [hb, ← hl]; simp⟩
  obtain ⟨r0, hr0⟩ := hrest
  have hc : rest.contains '/' = true := by rw [hr0]; simp
  simp only [urlDir, h, hc, if_true]
  rw [hr0, keepDir_append_slash, ← hr0, ← he]

/-- after the normalisation the base is its own directory: joining is concatenation -/
theorem urlDir_normRemote (u pre rest : Str) (h : stripHttp u = some (pre, rest)) (hr : rest ≠ []) :
    urlDir (normRemote u) = normRemote u := by
  unfold normRemote
  by_cases hs : endsWithSlash u = true
  · obtain ⟨v, hv⟩ := (endsWithSlash_iff u).mp hs
    simp only [hs, if_true]
    subst hv
    exact urlDir_slash v pre rest h hr
  · simp only [hs]
    have h2 := stripHttp_append u pre rest ['/'] h
    exact urlDir_slash u pre (rest ++ ['/']) h2 (by simp)

theorem normRemote_append_slash (u : Str) (hs : endsWithSlash u = false) :
    normRemote (u ++ ['/']) = normRemote u := by
  simp [normRemote, endsWithSlash_append_slash, hs]

end Ford.Ext
