/-
  Lemmas about FordModel/Entity.lean (the entity of a declaration, the dummy arguments of a procedure).
-/
import FordModel.Entity
import FordModel.Lemmas.Show
namespace Ford.Entity
open Ford Ford.Show

/-- a declared entity as the abstract program has it: a name (not empty, none of the three characters that
    open what follows a name) and what follows it (nothing, or a text that begins with `(`, `[` or `*`) -/
def EntOk (e : Str × Str) : Prop :=
  e.1 ≠ [] ∧ (∀ x ∈ e.1, isNameDelim x = false) ∧ (e.2 = [] ∨ ∃ c r, e.2 = c :: r ∧ isNameDelim c = true)

theorem mkVar_exact (e : Str × Str) (h : EntOk e) : mkVar (e.1 ++ e.2) = ⟨e.1, e.2⟩ := by
  obtain ⟨hne, hn, hs⟩ := h
  rcases hs with hs | ⟨c, r, hs, hc⟩
  · simp [mkVar, hs, splitNameDim_plain e.1 hn]
  · simp [mkVar, hs, splitNameDim_leading e.1 r c hne hn hc]

theorem declare_exact (ds : List (Str × Str)) (h : ∀ e ∈ ds, EntOk e) :
    declare (ds.map fun e => e.1 ++ e.2) = ds.map fun e => ⟨e.1, e.2⟩ := by
  induction ds with
  | nil => rfl
  | cons d ds ih =>
    simp only [declare, List.map_cons, List.map_map] at ih ⊢
    rw [mkVar_exact d (h d (by simp))]
    congr 1
    exact ih (fun e he => h e (by simp [he]))

theorem takeVar_none (a : Str) (vs : List Var) : takeVar a vs = none ↔ vs.find? (sameName a) = none := by
  induction vs with
  | nil => simp [takeVar]
  | cons v vs ih =>
    by_cases hv : sameName a v = true
    · simp [takeVar, hv]
    · simp only [Bool.not_eq_true] at hv
      cases ht : takeVar a vs with
      | none => simp [takeVar, hv, ht, ih.mp ht]
      | some p =>
        have : ¬ vs.find? (sameName a) = none := fun hn => by simp [ih.mpr hn] at ht
        simp [takeVar, hv, ht, this]

theorem takeVar_some (a : Str) (vs : List Var) (hnd : (vs.map fun v => lower v.name).Nodup) (w : Var) (r : List Var)
    (h : takeVar a vs = some (w, r)) :
    vs.find? (sameName a) = some w ∧ r = vs.filter (fun v => !sameName a v) := by
  induction vs generalizing w r with
  | nil => simp [takeVar] at h
  | cons v vs ih =>
    simp only [List.map_cons, List.nodup_cons] at hnd
    by_cases hv : sameName a v = true
    · simp only [takeVar, hv, if_true, Option.some.injEq, Prod.mk.injEq] at h
      obtain ⟨rfl, rfl⟩ := h
      refine ⟨by simp [hv], ?_⟩
      have hrest : ∀ x ∈ vs, sameName a x = false := by
        intro x hx
        cases hc : sameName a x with
        | false => rfl
        | true =>
          simp only [sameName, beq_iff_eq] at hv hc
          exact absurd (List.mem_map.mpr ⟨x, hx, by rw [← hc, hv]⟩) hnd.1
      simp only [List.filter_cons, hv, Bool.not_true, Bool.false_eq_true, if_false]
      symm
      apply List.filter_eq_self.mpr
      intro x hx
      simp [hrest x hx]
    · simp only [Bool.not_eq_true] at hv
      cases ht : takeVar a vs with
      | none => simp [takeVar, hv, ht] at h
      | some p =>
        obtain ⟨w', r'⟩ := p
        simp only [takeVar, hv, Bool.false_eq_true, if_false, ht, Option.some.injEq, Prod.mk.injEq] at h
        obtain ⟨rfl, rfl⟩ := h
        have := ih hnd.2 w' r' ht
        simp [hv, this.1, this.2]

theorem find_after_take (a b : Str) (hab : lower a ≠ lower b) (vs : List Var) :
    (vs.filter fun v => !sameName a v).find? (sameName b) = vs.find? (sameName b) := by
  induction vs with
  | nil => rfl
  | cons v vs ih =>
    by_cases hb : sameName b v = true
    · have ha : sameName a v = false := by
        cases hc : sameName a v with
        | false => rfl
        | true =>
          simp only [sameName, beq_iff_eq] at hb hc
          exact absurd (by rw [hc, hb]) hab
      simp [ha, hb]
    · simp only [Bool.not_eq_true] at hb
      by_cases ha : sameName a v = true
      · simp [ha, hb, ih]
      · simp only [Bool.not_eq_true] at ha
        simp [ha, hb, ih]

/-- what the argument `a` is documented as, given the declared variables of the unit -/
def argOf (vs : List Var) (a : Str) : Arg :=
  match vs.find? (sameName a) with
  | some v => .declared v
  | none => .implicit a

theorem matchArgs_exact (args : List Str) (vs : List Var)
    (hv : (vs.map fun v => lower v.name).Nodup) (ha : (args.map lower).Nodup) :
    matchArgs args vs = (args.map (argOf vs), vs.filter fun v => !(args.any fun a => sameName a v)) := by
  induction args generalizing vs with
  | nil => simp [matchArgs]; exact (List.filter_eq_self.mpr (fun _ _ => rfl)).symm
  | cons a as ih =>
    simp only [List.map_cons, List.nodup_cons] at ha
    cases ht : takeVar a vs with
    | none =>
      have hf := (takeVar_none a vs).mp ht
      have hall : ∀ x ∈ vs, sameName a x = false := by
        intro x hx
        have := List.find?_eq_none.mp hf x hx
        simpa using this
      simp only [matchArgs, ht, ih vs hv ha.2, List.map_cons, argOf, hf, Prod.mk.injEq, true_and]
      apply List.filter_congr
      intro x hx
      simp [hall x hx]
    | some p =>
      obtain ⟨w, r⟩ := p
      obtain ⟨hf, hr⟩ := takeVar_some a vs hv w r ht
      have hnd : (r.map fun v => lower v.name).Nodup := by
        rw [hr]
        exact hv.sublist ((List.filter_sublist).map _)
      have hargs : as.map (argOf r) = as.map (argOf vs) := by
        apply List.map_congr_left
        intro b hb
        have hab : lower a ≠ lower b := fun e => ha.1 (List.mem_map.mpr ⟨b, hb, e.symm⟩)
        simp only [argOf, hr, find_after_take a b hab vs]
      simp only [matchArgs, ht, ih r hnd ha.2, List.map_cons, hargs, Prod.mk.injEq]
      refine ⟨by simp [argOf, hf], ?_⟩
      rw [hr, List.filter_filter]
      apply List.filter_congr
      intro x _
      simp [Bool.and_comm]

/-- the arguments and the remaining variables of a procedure, in terms of its declarations `(name, what follows)` -/
theorem cleanup_exact (args : List Str) (ds : List (Str × Str)) (hd : ∀ e ∈ ds, EntOk e)
    (hnd : (ds.map fun e => lower e.1).Nodup) (ha : (args.map lower).Nodup) :
    cleanup args (ds.map fun e => e.1 ++ e.2) =
      (args.map (fun a =>
          match ds.find? (fun e => lower a == lower e.1) with
          | some e => Arg.declared ⟨e.1, e.2⟩
          | none => Arg.implicit a),
       (ds.filter fun e => !(args.any fun a => lower a == lower e.1)).map fun e => ⟨e.1, e.2⟩) := by
  have hv : ((ds.map fun e => (⟨e.1, e.2⟩ : Var)).map fun v => lower v.name).Nodup := by
    simpa [List.map_map, Function.comp_def] using hnd
  rw [cleanup, declare_exact ds hd, matchArgs_exact args _ hv ha]
  refine Prod.ext ?_ ?_
  · apply List.map_congr_left
    intro a _
    simp only [argOf, List.find?_map, Function.comp_def, sameName]
    cases ds.find? (fun e => lower a == lower e.1) <;> rfl
  · simp only [List.filter_map, Function.comp_def, sameName]

end Ford.Entity
