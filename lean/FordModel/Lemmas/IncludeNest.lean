/-
  Lemmas about FordModel/IncludeNest.lean (`FortranReader.include`: nested readers).
-/
import FordModel.IncludeNest
namespace Ford.IncludeNest
open Ford

theorem expandWith_noInclude (fs : Fs) (dirs : List Path) (rec : Path → Except IncErr (List Str)) (here : Path)
    (its : List Str) (h : noInclude its = true) : expandWith fs dirs rec here its = .ok its := by
  induction its with
  | nil => simp [expandWith]
  | cons s rest ih =>
    have hs : isIncludeLine s = false := by
      have := h; simp [noInclude] at this; simpa using this.1
    have hr : noInclude rest = true := by
      have := h; simp [noInclude] at this ⊢; exact this.2
    simp [expandWith, hs, ih hr]

/-- the first INCLUDE line whose file makes the nested reader raise ends the reading of this file with
    that very exception, whatever follows it -/
theorem expandWith_nested_error (fs : Fs) (dirs : List Path) (rec : Path → Except IncErr (List Str)) (here : Path)
    (pre : List Str) (s : Str) (post : List Str) (p : Path) (e : IncErr)
    (hpre : noInclude pre = true) (hs : isIncludeLine s = true)
    (hres : resolve fs (includeName s) (dirOf here :: dirs) = some p) (herr : rec p = .error e) :
    expandWith fs dirs rec here (pre ++ s :: post) = .error e := by
  induction pre with
  | nil => simp [expandWith, hs, hres, herr]
  | cons a rest ih =>
    have ha : isIncludeLine a = false := by
      have := hpre; simp [noInclude] at this; simpa using this.1
    have hr : noInclude rest = true := by
      have := hpre; simp [noInclude] at this ⊢; exact this.2
    simp [expandWith, ha, ih hr]

theorem readFile_nested_error (fs : Fs) (dirs : List Path) (d : Nat) (top p : Path)
    (pre : List Str) (s : Str) (post : List Str) (e : IncErr)
    (hbody : fs.get top = some (.items (pre ++ s :: post)))
    (hpre : noInclude pre = true) (hs : isIncludeLine s = true)
    (hres : resolve fs (includeName s) (dirOf top :: dirs) = some p)
    (herr : readFile fs dirs d p = .error e) :
    readFile fs dirs (d + 1) top = .error e := by
  simp [readFile, hbody, expandWith_nested_error fs dirs (readFile fs dirs d) top pre s post p e hpre hs hres herr]

theorem readFile_self_include (fs : Fs) (dirs : List Path) (top : Path)
    (pre : List Str) (s : Str) (post : List Str)
    (hbody : fs.get top = some (.items (pre ++ s :: post)))
    (hpre : noInclude pre = true) (hs : isIncludeLine s = true)
    (hres : resolve fs (includeName s) (dirOf top :: dirs) = some top) :
    ∀ d, readFile fs dirs d top = .error .recursion := by
  intro d
  induction d with
  | zero => simp [readFile]
  | succ n ih => exact readFile_nested_error fs dirs n top top pre s post .recursion hbody hpre hs hres ih

theorem resolve_first (fs : Fs) (name : Str) (d : Path) (ds : List Path)
    (h : (fs.get (joinPath d name)).isSome = true) : resolve fs name (d :: ds) = some (joinPath d name) := by
  simp [resolve, h]

end Ford.IncludeNest
