import FordModel.Reader
import FordModel.Lemmas.Reader
import FordModel.Lemmas.ReaderLayout
import FordModel.Lemmas.ReaderDoc
import FordModel.Attach
import FordModel.Lemmas.Attach
namespace Ford

/-! ### The reader on a statement line that ends in an inline doc comment: the line may hold several
    `;`-separated statements, and preceding doc lines may be buffered -/

theorem matchCom_atoms (p : Str) (hp : Atoms p) : matchCom p false = none := by
  simp [matchCom, comScan, comScanAux_atoms_none [] p 0 hp]

theorem matchDocmark_inline (mark p s : Str) (hp : Atoms p) (hm : mark ≠ []) :
    matchDocmark mark (p ++ '!' :: s) false = if startsWith s mark then some p.length else none := by
  have he : mark.isEmpty = false := by cases mark <;> simp_all
  simp [matchDocmark, he, comScan, comScanAux_of_atoms mark p s 0 hp]

theorem matchDocmark_inline_none (mark p s : Str) (hp : Atoms p) (hs : startsWith s mark = false) :
    matchDocmark mark (p ++ '!' :: s) false = none := by
  by_cases he : mark.isEmpty = true
  · simp [matchDocmark, he]
  · simp [matchDocmark, he, comScan, comScanAux_of_atoms mark p s 0 hp, hs]

/-- A line `<code>!<doc-marker><t>`: `code` lies outside comments (closed literals allowed), its
    stripped form `x :: r` neither continues nor is continued.  Read in a state between logical lines
    or at the end of a `!>` block (`docs` = the buffered preceding doc lines): all statements of the
    line are emitted first, then the buffered preceding docs, then the inline doc line - last. -/
theorem feed_stmt_inline (m : Marks) (docs : List Str) (pd rp : Bool) (p t : Str) (x : Char) (r : Str)
    (hp : Atoms p) (hne : m.doc ≠ [])
    (h0 : firstStripped (p ++ '!' :: (m.doc ++ t)) ≠ some '#')
    (h1 : startsWith (m.doc ++ t) m.pre = false) (h2 : startsWith (m.doc ++ t) m.preAlt = false)
    (h3 : startsWith (m.doc ++ t) m.alt = false)
    (hc : strip p = x :: r) (hx : x ≠ '&') (hl : (x :: r).getLast? ≠ some '&')
    (hJ : itemsOf (' ' :: x :: r) ≠ []) :
    feed m { docbuffer := docs, prevdoc := pd, readingPredoc := rp } (p ++ '!' :: (m.doc ++ t)) =
      .ok (fresh true, itemsOf (' ' :: x :: r) ++ docs ++ ['!' :: (m.doc ++ t)]) := by
  have h0' : (firstStripped (p ++ '!' :: (m.doc ++ t)) == some '#') = false := by simpa using h0
  have hx' : (x == '&') = false := by simp [hx]
  have hl' : ((x :: r).getLast? == some '&') = false := by simpa using hl
  have e1 := matchDocmark_inline_none m.pre p _ hp h1
  have e2 := matchDocmark_inline_none m.preAlt p _ hp h2
  have e3 := matchDocmark_inline_none m.alt p _ hp h3
  have e4 : matchDocmark m.doc (p ++ '!' :: (m.doc ++ t)) false = some p.length := by
    rw [matchDocmark_inline m.doc p _ hp hne, startsWith_self_append]; rfl
  have e5 := matchCom_atoms p hp
  obtain ⟨a, as, hI2⟩ : ∃ a as, itemsOf (' ' :: x :: r) = a :: as := by
    cases hh : itemsOf (' ' :: x :: r) with
    | nil => exact absurd hh hJ
    | cons a as => exact ⟨a, as, rfl⟩
  simp only [itemsOf] at hI2
  simp only [feed, unterminated_nil, h0', e1, e2, e3, e4, e5, drop_ind, take_ind, hc, Bool.false_eq_true,
    ↓reduceIte, ite_self]
  cases docs with
  | nil => simp [hx', hl', feedTail, itemsOf, hI2, flush, fresh, strip, rstrip, lstrip]
  | cons d ds => simp [hx', hl', feedTail, itemsOf, hI2, flush, fresh, strip, rstrip, lstrip]

/-- the same line after a preceding doc block: statement(s), the block, then the inline doc -/
theorem readFrom_predoc_block_inline (m : Marks) (pd : Bool) (ind0 t0 : Str) (blk : List DLine)
    (p t : Str) (x : Char) (r : Str) (rest : List Str)
    (hw0 : (DLine.pre ind0 t0).wf m) (hb : ∀ b ∈ blk, b.wf m)
    (hp : Atoms p) (hne : m.doc ≠ [])
    (h0 : firstStripped (p ++ '!' :: (m.doc ++ t)) ≠ some '#')
    (h1 : startsWith (m.doc ++ t) m.pre = false) (h2 : startsWith (m.doc ++ t) m.preAlt = false)
    (h3 : startsWith (m.doc ++ t) m.alt = false)
    (hc : strip p = x :: r) (hx : x ≠ '&') (hl : (x :: r).getLast? ≠ some '&')
    (hJ : itemsOf (' ' :: x :: r) ≠ []) :
    readFrom m (fresh pd) ((DLine.pre ind0 t0 :: blk).map (DLine.render m) ++ (p ++ '!' :: (m.doc ++ t)) :: rest) =
      match readFrom m (fresh true) rest with
      | .error e => .error e
      | .ok more =>
        .ok (itemsOf (' ' :: x :: r) ++ (DLine.pre ind0 t0 :: blk).flatMap (DLine.docs m)
              ++ ['!' :: (m.doc ++ t)] ++ more) := by
  have hf0 : feed m (fresh pd) ((DLine.pre ind0 t0).render m) = .ok (inPre ['!' :: (m.doc ++ t0)] pd, []) := by
    simpa [fresh, DLine.render] using feed_pre m [] pd false ind0 t0 hw0
  have hfs := feed_stmt_inline m (('!' :: (m.doc ++ t0)) :: ([] ++ blk.flatMap (DLine.docs m))) pd true p t x r
    hp hne h0 h1 h2 h3 hc hx hl hJ
  simp only [List.map_cons, List.cons_append, List.flatMap_cons]
  rw [readFrom_step m _ _ _ _ [] hf0, readFrom_block m _ [] pd blk hb (_ :: rest),
    readFrom_step m _ _ _ rest _ (by simpa [inPre] using hfs)]
  cases readFrom m (fresh true) rest <;> simp [DLine.docs]

theorem attachFrom_append (mark : Str) (s : ASt) (A B : List Str) :
    attachFrom mark s (A ++ B) = attachFrom mark (attachFrom mark s A) B := by
  induction A generalizing s with
  | nil => rfl
  | cons a as ih => simp [attachFrom, ih]

end Ford
