/-
  Lemmas about the console-markup model (FordModel/Markup.lean): `rich.markup.escape` followed by
  `rich.markup.render` shows the text it was given.
-/
import FordModel.Markup
namespace Ford.Markup
open Ford

/-! ## backslash runs -/

theorem bs_succ (n : Nat) : bs (n + 1) = '\\' :: bs n := rfl

theorem bs_zero : bs 0 = [] := rfl

theorem bs_add (a b : Nat) : bs a ++ bs b = bs (a + b) := by
  simp [bs, List.replicate_append_replicate]

theorem bs_snoc (n : Nat) (x : Str) : bs n ++ '\\' :: x = bs (n + 1) ++ x := by
  induction n with
  | zero => rfl
  | succ m ih => simp [bs_succ, ih]

theorem find_bs (n : Nat) : (bs n).find? isBr = none := by
  induction n with
  | zero => rfl
  | succ m ih => simp [bs_succ, isBr, ih]

theorem isTagStart_ne_bs {d : Char} (h : isTagStart d = true) : d ≠ '\\' := by
  intro e; subst e; revert h; decide

theorem isTagStart_ne_lb {d : Char} (h : isTagStart d = true) : d ≠ '[' := by
  intro e; subst e; revert h; decide

theorem isTagStart_ne_rb {d : Char} (h : isTagStart d = true) : d ≠ ']' := by
  intro e; subst e; revert h; decide

/-! ## `tagBody` -/

/-- a tag body is found iff the first bracket is a closing one -/
theorem tagBody_isSome (s : Str) : (tagBody s).isSome = (s.find? isBr == some ']') := by
  induction s with
  | nil => rfl
  | cons c cs ih =>
    by_cases h1 : c = ']'
    · subst h1; simp [tagBody, List.find?, isBr]
    · by_cases h2 : c = '['
      · subst h2; simp [tagBody, List.find?, isBr]
      · have : isBr c = false := by simp [isBr, h1, h2]
        simp only [tagBody, h1, h2, if_false, List.find?, this]
        rw [← ih]
        cases tagBody cs <;> simp

theorem tagBody_spec {s b r : Str} (h : tagBody s = some (b, r)) :
    s = b ++ ']' :: r ∧ b.find? isBr = none := by
  induction s generalizing b with
  | nil => simp [tagBody] at h
  | cons c cs ih =>
    by_cases h1 : c = ']'
    · subst h1; simp [tagBody] at h; obtain ⟨rfl, rfl⟩ := h; simp
    · by_cases h2 : c = '['
      · subst h2; simp [tagBody] at h
      · simp only [tagBody, h1, h2, if_false] at h
        split at h
        · rename_i b' r' hb
          cases h
          obtain ⟨e, f⟩ := ih hb
          have hbr : isBr c = false := by simp [isBr, h1, h2]
          refine ⟨by simp [e], ?_⟩
          simp [List.find?_cons, hbr, f]
        · cases h

theorem tagBody_append {b : Str} (r : Str) (h : b.find? isBr = none) : tagBody (b ++ ']' :: r) = some (b, r) := by
  induction b with
  | nil => simp [tagBody]
  | cons c cs ih =>
    simp only [List.find?] at h
    split at h
    · cases h
    · rename_i hc
      simp [isBr] at hc
      simp [tagBody, hc.1, hc.2, ih h]

/-! ## unfolding `go` -/

theorem go_nil (cfg : Cfg) (st : RSt) (k : Nat) : go cfg st k [] = finish cfg { st with pend := st.pend ++ bs k } := by
  rw [go.eq_def]

theorem go_bsl (cfg : Cfg) (st : RSt) (k : Nat) (cs : Str) : go cfg st k ('\\' :: cs) = go cfg st (k + 1) cs := by
  rw [go.eq_def]; simp

theorem go_plain (cfg : Cfg) (st : RSt) (k : Nat) (c : Char) (cs : Str) (h1 : c ≠ '\\') (h2 : c ≠ '[') :
    go cfg st k (c :: cs) = go cfg { st with pend := st.pend ++ bs k ++ [c] } 0 cs := by
  rw [go.eq_def]; simp [h1, h2]

theorem go_bracket_plain (cfg : Cfg) (st : RSt) (k : Nat) (x : Str) (h : startsTag x = false) :
    go cfg st k ('[' :: x) = go cfg { st with pend := st.pend ++ bs (k - 1) ++ ['['] } 0 x := by
  rw [go.eq_def]
  cases x with
  | nil => simp [go_nil, bs_zero]
  | cons d ds =>
    simp only [startsTag, Bool.and_eq_false_iff] at h
    rcases h with h | h
    · simp [h]
    · have : tagBody ds = none := by cases hb : tagBody ds <;> simp_all
      simp
      split
      · rename_i heq; rw [this] at heq; cases heq
      · intro _; rfl

/-- the tag case of `go`, as one equation -/
def tagStep (cfg : Cfg) (st : RSt) (k : Nat) (d : Char) (b r : Str) : Obs :=
  match flush cfg st with
  | none => .unknown
  | some st1 =>
    match emit cfg st1 (bs (k / 2)) with
    | none => .unknown
    | some st2 =>
      if k % 2 = 1 then
        match emit cfg st2 ('[' :: d :: b ++ [']']) with
        | none => .unknown
        | some st3 => go cfg st3 0 r
      else
        match applyTag st2.stack (d :: b) with
        | .ok stack' => go cfg { st2 with stack := stack' } 0 r
        | .raised => .raised
        | .unknown => .unknown

theorem go_tag (cfg : Cfg) (st : RSt) (k : Nat) (d : Char) (ds b r : Str) (hd : isTagStart d = true)
    (hb : tagBody ds = some (b, r)) : go cfg st k ('[' :: d :: ds) = tagStep cfg st k d b r := by
  rw [go.eq_def]
  simp only [hd, if_true]
  simp
  split
  · rename_i b' r' heq
    rw [hb] at heq
    cases heq
    rfl
  · rename_i heq; rw [hb] at heq; cases heq

theorem go_bs_prefix (cfg : Cfg) (st : RSt) (k m : Nat) (x : Str) : go cfg st k (bs m ++ x) = go cfg st (k + m) x := by
  induction m generalizing k with
  | zero => simp [bs_zero]
  | succ n ih => rw [bs_succ, List.cons_append, go_bsl, ih]; congr 1; omega


/-! ## unfolding `esc`; escaping keeps the brackets where they are -/

theorem esc_nil (k : Nat) : esc k [] = bs k := by rw [esc.eq_def]

theorem esc_bsl (k : Nat) (cs : Str) : esc k ('\\' :: cs) = esc (k + 1) cs := by
  rw [esc.eq_def]; simp

theorem esc_plain (k : Nat) (c : Char) (cs : Str) (h1 : c ≠ '\\') (h2 : c ≠ '[') :
    esc k (c :: cs) = bs k ++ c :: esc 0 cs := by
  rw [esc.eq_def]; simp [h1, h2]

theorem esc_bracket_plain (k : Nat) (x : Str) (h : startsTag x = false) :
    esc k ('[' :: x) = bs k ++ '[' :: esc 0 x := by
  rw [esc.eq_def]
  cases x with
  | nil => simp [esc_nil, bs_zero]
  | cons d ds =>
    simp only [startsTag, Bool.and_eq_false_iff] at h
    rcases h with h | h
    · simp [h]
    · have : tagBody ds = none := by cases hb : tagBody ds <;> simp_all
      simp
      split
      · rename_i heq; rw [this] at heq; cases heq
      · intro _; rfl

theorem esc_tag (k : Nat) (d : Char) (ds b r : Str) (hd : isTagStart d = true) (hb : tagBody ds = some (b, r)) :
    esc k ('[' :: d :: ds) = bs (2 * k + 1) ++ '[' :: d :: b ++ ']' :: esc 0 r := by
  rw [esc.eq_def]
  simp only [hd, if_true]
  simp
  split
  · rename_i b' r' heq
    rw [hb] at heq
    cases heq
    rfl
  · rename_i heq; rw [hb] at heq; cases heq

/-- `escape` only ever adds backslashes: the brackets stay where they are -/
theorem find_esc (k : Nat) (s : Str) : (esc k s).find? isBr = s.find? isBr := by
  fun_induction esc k s with
  | case1 k => simp [find_bs]
  | case2 k cs ih => simp [ih, isBr]
  | case3 k => simp [find_bs, isBr]
  | case4 k d ds hd b r hb ih =>
    obtain ⟨e, f⟩ := tagBody_spec hb
    simp [find_bs, isBr]
  | case5 k d ds hd hb ih => simp [find_bs, isBr]
  | case6 k d ds hd ih => simp [find_bs, isBr]
  | case7 k c cs h1 h2 ih =>
    by_cases hc : isBr c = true
    · simp [find_bs, hc]
    · simp [find_bs, hc, ih]


theorem tagBody_isSome_esc (s : Str) (n : Nat) : (tagBody (esc 0 s ++ bs n)).isSome = (tagBody s).isSome := by
  rw [tagBody_isSome, tagBody_isSome, List.find?_append, find_esc, find_bs]
  simp

theorem esc_pos_head (k : Nat) (s : Str) : k ≥ 1 → ∃ rest, esc k s = '\\' :: rest := by
  fun_induction esc k s with
  | case1 k => intro hk; obtain ⟨m, rfl⟩ : ∃ m, k = m + 1 := ⟨k - 1, by omega⟩; exact ⟨_, rfl⟩
  | case2 k cs ih => intro _; exact ih (by omega)
  | case3 k => intro hk; obtain ⟨m, rfl⟩ : ∃ m, k = m + 1 := ⟨k - 1, by omega⟩; exact ⟨_, rfl⟩
  | case4 k d ds hd b r hb ih => intro _; exact ⟨_, rfl⟩
  | case5 k d ds hd hb ih => intro hk; obtain ⟨m, rfl⟩ : ∃ m, k = m + 1 := ⟨k - 1, by omega⟩; exact ⟨_, rfl⟩
  | case6 k d ds hd ih => intro hk; obtain ⟨m, rfl⟩ : ∃ m, k = m + 1 := ⟨k - 1, by omega⟩; exact ⟨_, rfl⟩
  | case7 k c cs h1 h2 ih => intro hk; obtain ⟨m, rfl⟩ : ∃ m, k = m + 1 := ⟨k - 1, by omega⟩; exact ⟨_, rfl⟩

theorem esc_succ_head (k : Nat) (s : Str) : ∃ rest, esc (k + 1) s = '\\' :: rest := esc_pos_head (k + 1) s (by omega)

theorem startsTag_bs (n : Nat) : startsTag (bs n) = false := by
  cases n with
  | zero => rfl
  | succ m => simp [bs_succ, startsTag]; intro h; exact absurd rfl (isTagStart_ne_bs h)

/-- escaping what follows a `[` does not change whether a tag starts there -/
theorem startsTag_esc (x : Str) (n : Nat) : startsTag (esc 0 x ++ bs n) = startsTag x := by
  cases x with
  | nil => simp [esc_nil, bs_zero, startsTag_bs]; rfl
  | cons d ds =>
    by_cases h1 : d = '\\'
    · subst h1
      obtain ⟨rest, e⟩ := esc_succ_head 0 ds
      rw [esc_bsl, e]
      have : isTagStart '\\' = false := by decide
      simp [startsTag, this]
    · by_cases h2 : d = '['
      · subst h2
        have hl : startsTag ('[' :: ds) = false := by simp [startsTag]; intro h; exact absurd rfl (isTagStart_ne_lb h)
        rw [hl]
        by_cases hs : startsTag ds = false
        · rw [esc_bracket_plain 0 ds hs]; simp [bs_zero, startsTag]; intro h; exact absurd rfl (isTagStart_ne_lb h)
        · cases ds with
          | nil => simp [startsTag] at hs
          | cons e es =>
            simp [startsTag] at hs
            cases hb : tagBody es with
            | none => simp [hb] at hs
            | some br =>
              obtain ⟨b, r⟩ := br
              rw [esc_tag 0 e es b r hs.1 hb]
              simp [bs_succ, bs_zero, startsTag]
              intro h; exact absurd rfl (isTagStart_ne_bs h)
      · rw [esc_plain 0 d ds h1 h2]
        simp only [bs_zero, List.nil_append, List.cons_append, startsTag, tagBody_isSome_esc]


/-! ## emoji codes -/

theorem emojiName_append_some {a n r : Str} (b : Str) (h : emojiName a = some (n, r)) :
    emojiName (a ++ b) = some (n, r ++ b) := by
  induction a generalizing n with
  | nil => simp [emojiName] at h
  | cons c cs ih =>
    by_cases h1 : c = ':'
    · subst h1; simp [emojiName] at h ⊢; obtain ⟨rfl, rfl⟩ := h; simp
    · by_cases h2 : isSpace c = true
      · simp [emojiName, h1, h2] at h
      · cases hb : emojiName cs with
        | none => simp [emojiName, h1, h2, hb] at h
        | some nr =>
          obtain ⟨n', r'⟩ := nr
          simp [emojiName, h1, h2, hb] at h
          obtain ⟨rfl, rfl⟩ := h
          simp [emojiName, h1, h2, ih hb]

theorem emojiCandidate_append {a b : Str} (h : emojiCandidate (a ++ b) = false) :
    emojiCandidate a = false ∧ emojiCandidate b = false := by
  induction a with
  | nil => exact ⟨rfl, h⟩
  | cons c cs ih =>
    simp only [List.cons_append, emojiCandidate, Bool.or_eq_false_iff] at h ⊢
    obtain ⟨h1, h2⟩ := h
    obtain ⟨i1, i2⟩ := ih h2
    refine ⟨⟨?_, i1⟩, i2⟩
    cases hn : emojiName cs with
    | none => simp
    | some nr =>
      obtain ⟨n, r⟩ := nr
      rw [emojiName_append_some b hn] at h1
      simpa using h1

theorem emojiReplace_id (tbl : EmojiTbl) (s : Str) (h : emojiCandidate s = false) : emojiReplace tbl s = some s := by
  induction s with
  | nil => rw [emojiReplace.eq_def]
  | cons c cs ih =>
    simp only [emojiCandidate, Bool.or_eq_false_iff] at h
    obtain ⟨h1, h2⟩ := h
    rw [emojiReplace.eq_def]
    simp only [ih h2]
    by_cases hc : c = ':'
    · subst hc
      have hn : emojiName cs = none := by
        cases hn : emojiName cs with
        | none => rfl
        | some x => simp [hn] at h1
      simp
      split
      · rename_i heq; rw [hn] at heq; cases heq
      · rfl
    · simp [hc]

theorem emojiName_bs (n : Nat) : emojiName (bs n) = none := by
  induction n with
  | zero => rfl
  | succ m ih =>
    have h2 : isSpace '\\' = false := by decide
    simp [bs_succ, emojiName, h2, ih]

theorem emojiName_isSome_bs_tail (s : Str) (n : Nat) : (emojiName (s ++ bs n)).isSome = (emojiName s).isSome := by
  induction s with
  | nil => simp [emojiName_bs, emojiName]
  | cons c cs ih =>
    by_cases h1 : c = ':'
    · subst h1; simp [emojiName]
    · by_cases h2 : isSpace c = true
      · simp [emojiName, h1, h2]
      · simp only [emojiName, h1, h2, if_false, List.cons_append]
        revert ih
        cases emojiName (cs ++ bs n) <;> cases emojiName cs <;> simp

theorem emojiCandidate_bs (n : Nat) : emojiCandidate (bs n) = false := by
  induction n with
  | zero => rfl
  | succ m ih => simp [bs_succ, emojiCandidate, ih]

theorem emojiCandidate_bs_tail (s : Str) (n : Nat) : emojiCandidate (s ++ bs n) = emojiCandidate s := by
  induction s with
  | nil => simp [emojiCandidate_bs, emojiCandidate]
  | cons c cs ih => simp [emojiCandidate, ih, emojiName_isSome_bs_tail]

theorem emojiCandidate_prefix (p s : Str) (h : p.all (· != ':') = true) : emojiCandidate (p ++ s) = emojiCandidate s := by
  induction p with
  | nil => rfl
  | cons c cs ih =>
    simp only [List.all_cons, Bool.and_eq_true] at h
    have hc : (c == ':') = false := by simpa using h.1
    simp [emojiCandidate, hc, ih h.2]

/-- emoji replacement is off, or there is nothing it could match -/
def E (cfg : Cfg) (x : Str) : Prop := cfg.emoji = false ∨ emojiCandidate x = false

theorem emo_of_E {cfg : Cfg} {x : Str} (h : E cfg x) : emo cfg x = some x := by
  unfold emo
  rcases h with h | h
  · simp [h]
  · simp [emojiReplace_id _ _ h]

theorem E_left {cfg : Cfg} {a b : Str} (h : E cfg (a ++ b)) : E cfg a := by
  rcases h with h | h
  · exact .inl h
  · exact .inr (emojiCandidate_append h).1

theorem E_right {cfg : Cfg} {a b : Str} (h : E cfg (a ++ b)) : E cfg b := by
  rcases h with h | h
  · exact .inl h
  · exact .inr (emojiCandidate_append h).2

/-! ## lost backslashes -/

theorem lostBs_body {b : Str} (r : Str) (j : Nat) (h : b.find? isBr = none) : lostBs j (b ++ ']' :: r) = lostBs 0 r := by
  induction b generalizing j with
  | nil => simp [lostBs]
  | cons c cs ih =>
    simp only [List.find?_cons] at h
    split at h
    · cases h
    · rename_i hc
      simp [isBr] at hc
      by_cases h1 : c = '\\'
      · subst h1; simp [lostBs, ih _ h]
      · simp [lostBs, h1, hc.1, ih _ h]


/-! ## the main lemma -/

theorem finish_of_E {cfg : Cfg} {st : RSt} (h : E cfg st.pend) : finish cfg st = .shown (st.out ++ st.pend) := by
  simp [finish, flush, emo_of_E h]

theorem flush_of_E {cfg : Cfg} {st : RSt} (h : E cfg st.pend) :
    flush cfg st = some { st with out := st.out ++ st.pend, pend := [] } := by
  simp [flush, emo_of_E h]

theorem emit_of_E {cfg : Cfg} {st : RSt} {x : Str} (h : E cfg x) :
    emit cfg st x = some { st with out := st.out ++ x } := by
  simp [emit, emo_of_E h]

theorem E_bs (cfg : Cfg) (n : Nat) : E cfg (bs n) := .inr (emojiCandidate_bs n)

theorem lostBs_lb (k : Nat) (cs : Str) :
    lostBs k ('[' :: cs) = ((decide (k > 0) && !startsTag cs) || lostBs 0 cs) := by
  rw [lostBs]; simp

theorem go_bs_end (cfg : Cfg) (st : RSt) (j m : Nat) :
    go cfg st j (bs m) = finish cfg { st with pend := st.pend ++ bs (j + m) } := by
  have := go_bs_prefix cfg st j m []
  rw [List.append_nil] at this
  rw [this, go_nil]

/-- **escaped text is inert.**  Scanning `esc k s` (followed by any number of backslashes) from any
    state appends exactly the text `\^k s` to what is shown: no tag is interpreted, nothing raises. -/
theorem go_esc (cfg : Cfg) (k : Nat) (s : Str) : ∀ (st : RSt) (n : Nat),
    lostBs k s = false → E cfg (st.pend ++ (bs k ++ (s ++ bs n))) →
    go cfg st 0 (esc k s ++ bs n) = .shown (st.out ++ (st.pend ++ (bs k ++ (s ++ bs n)))) := by
  fun_induction esc k s with
  | case1 k =>
    intro st n _ hE
    rw [bs_add, go_bs_end, finish_of_E]
    · simp [bs_add]
    · simpa [bs_add] using hE
  | case2 k cs ih =>
    intro st n hl hE
    have hl' : lostBs (k + 1) cs = false := by simpa [lostBs] using hl
    have := ih st n hl' (by simpa [bs_snoc] using hE)
    simpa [bs_snoc] using this
  | case3 k _ =>
    intro st n hl hE
    have hk : k = 0 := by
      simp [lostBs, startsTag] at hl
      omega
    subst hk
    rw [bs_zero, List.nil_append, List.cons_append, List.nil_append, go_bracket_plain _ _ _ _ (startsTag_bs n), go_bs_end,
      finish_of_E]
    · simp [bs_zero]
    · simpa [bs_zero] using hE
  | case4 k d ds hd b r hb _ ih =>
    intro st n hl hE
    obtain ⟨e, f⟩ := tagBody_spec hb
    subst e
    have hst : startsTag (d :: (b ++ ']' :: r)) = true := by simp [startsTag, hd, hb]
    have hl' : lostBs 0 r = false := by
      rw [lostBs_lb, hst] at hl
      have h1 := isTagStart_ne_bs hd
      have h2 := isTagStart_ne_lb hd
      rw [lostBs] at hl
      simp [h1, h2, lostBs_body r 0 f] at hl
      exact hl
    have hb' : tagBody (b ++ ']' :: (esc 0 r ++ bs n)) = some (b, esc 0 r ++ bs n) := tagBody_append _ f
    have e1 : bs (2 * k + 1) ++ '[' :: d :: b ++ ']' :: esc 0 r ++ bs n
        = bs (2 * k + 1) ++ ('[' :: d :: (b ++ ']' :: (esc 0 r ++ bs n))) := by simp
    rw [e1, go_bs_prefix, go_tag cfg st _ d _ b _ hd hb']
    have hEp : E cfg st.pend := E_left hE
    have hE2 : E cfg ('[' :: d :: b ++ [']']) := by
      have := E_right (E_right hE)
      have : E cfg (('[' :: d :: b ++ [']']) ++ (r ++ bs n)) := by simpa using this
      exact E_left this
    have hE3 : E cfg (r ++ bs n) := by
      have := E_right (E_right hE)
      have : E cfg (('[' :: d :: b ++ [']']) ++ (r ++ bs n)) := by simpa using this
      exact E_right this
    have hodd : (0 + (2 * k + 1)) % 2 = 1 := by omega
    have hhalf : (0 + (2 * k + 1)) / 2 = k := by omega
    simp only [tagStep, flush_of_E hEp, emit_of_E (E_bs cfg _), hodd, if_true, emit_of_E hE2, hhalf]
    rw [ih _ n hl' (by simpa [bs_zero] using hE3)]
    simp [bs_zero]
  | case5 k d ds hd hb _ ih =>
    intro st n hl hE
    have hst : startsTag (d :: ds) = false := by simp [startsTag, hb]
    have hk : k = 0 ∧ lostBs 0 (d :: ds) = false := by
      rw [lostBs_lb, hst] at hl
      simp at hl
      exact ⟨by omega, hl.2⟩
    obtain ⟨rfl, hl'⟩ := hk
    have hst' : startsTag (esc 0 (d :: ds) ++ bs n) = false := by rw [startsTag_esc]; exact hst
    rw [bs_zero, List.nil_append, List.cons_append, go_bracket_plain _ _ _ _ hst', ih _ n hl' (by simpa [bs_zero] using hE)]
    simp [bs_zero]
  | case6 k d ds hd _ ih =>
    intro st n hl hE
    have hst : startsTag (d :: ds) = false := by simp [startsTag, hd]
    have hk : k = 0 ∧ lostBs 0 (d :: ds) = false := by
      rw [lostBs_lb, hst] at hl
      simp at hl
      exact ⟨by omega, hl.2⟩
    obtain ⟨rfl, hl'⟩ := hk
    have hst' : startsTag (esc 0 (d :: ds) ++ bs n) = false := by rw [startsTag_esc]; exact hst
    rw [bs_zero, List.nil_append, List.cons_append, go_bracket_plain _ _ _ _ hst', ih _ n hl' (by simpa [bs_zero] using hE)]
    simp [bs_zero]
  | case7 k c cs h1 h2 ih =>
    intro st n hl hE
    have hl' : lostBs 0 cs = false := by simpa [lostBs, h1, h2] using hl
    have e1 : bs k ++ c :: esc 0 cs ++ bs n = bs k ++ (c :: (esc 0 cs ++ bs n)) := by simp
    rw [e1, go_bs_prefix, go_plain _ _ _ _ _ h1 h2, ih _ n hl' (by simpa [bs_zero] using hE)]
    simp [bs_zero]


/-! ## `escape` then `render` -/

theorem escape_eq (s : Str) : ∃ n, n ≤ 1 ∧ escape s = esc 0 s ++ bs n := by
  unfold escape
  split
  · exact ⟨1, by omega, rfl⟩
  · exact ⟨0, by omega, by simp [bs_zero]⟩

theorem bs_le_one {n : Nat} (h : n ≤ 1) : bs n = [] ∨ bs n = ['\\'] := by
  rcases (by omega : n = 0 ∨ n = 1) with rfl | rfl
  · exact .inl rfl
  · exact .inr rfl

/-- from any state in which nothing is pending but plain text without a colon -/
theorem go_escape (cfg : Cfg) (st : RSt) (msg : Str) (hp : st.pend.all (· != ':') = true)
    (hl : lostBackslash msg = false) (he : cfg.emoji = false ∨ emojiCandidate msg = false) :
    ∃ t, (t = [] ∨ t = ['\\']) ∧ go cfg st 0 (escape msg) = .shown (st.out ++ (st.pend ++ (msg ++ t))) := by
  obtain ⟨n, hn, e⟩ := escape_eq msg
  refine ⟨bs n, bs_le_one hn, ?_⟩
  rw [e, go_esc cfg 0 msg st n hl]
  · simp [bs_zero]
  · rcases he with he | he
    · exact .inl he
    · refine .inr ?_
      rw [bs_zero, List.nil_append, emojiCandidate_prefix _ _ hp, emojiCandidate_bs_tail]
      exact he

theorem render_escape (cfg : Cfg) (msg : Str) (hl : lostBackslash msg = false)
    (he : cfg.emoji = false ∨ emojiCandidate msg = false) :
    ∃ t, (t = [] ∨ t = ['\\']) ∧ render cfg (escape msg) = .shown (msg ++ t) := by
  obtain ⟨t, ht, e⟩ := go_escape cfg {} msg rfl hl he
  exact ⟨t, ht, by simpa [render] using e⟩

/-! ## literals made of complete tags and ordinary characters -/

theorem segsOf_spec (s : Str) : ∀ sg, segsOf s = some sg → flatSegs sg = s ∧ ∀ x ∈ sg, x.valid = true := by
  fun_induction segsOf s with
  | case1 => intro sg h; cases h; simp [flatSegs]
  | case2 cs => intro sg h; cases h
  | case3 _ => intro sg h; cases h
  | case4 d ds hd b r hb sg' hs _ ih =>
    intro sg h; cases h
    obtain ⟨e, f⟩ := tagBody_spec hb
    obtain ⟨i1, i2⟩ := ih sg' hs
    refine ⟨by simp [flatSegs, Seg.flat, i1, e], ?_⟩
    intro x hx
    simp at hx
    rcases hx with rfl | hx
    · simp [Seg.valid, hd, f]
    · exact i2 x hx
  | case5 d ds hd b r hb hs _ ih => intro sg h; cases h
  | case6 d ds hd hb _ => intro sg h; cases h
  | case7 d ds hd _ => intro sg h; cases h
  | case8 c cs h1 h2 sg' hs ih =>
    intro sg h; cases h
    obtain ⟨i1, i2⟩ := ih sg' hs
    refine ⟨by simp [flatSegs, Seg.flat, i1], ?_⟩
    intro x hx
    simp at hx
    rcases hx with rfl | hx
    · simp [Seg.valid, h1, h2]
    · exact i2 x hx
  | case9 c cs h1 h2 hs ih => intro sg h; cases h


theorem emo_nil (cfg : Cfg) : emo cfg [] = some [] := by
  unfold emo; split
  · rw [emojiReplace.eq_def]
  · rfl

theorem go_segs (cfg : Cfg) (sg : List Seg) : ∀ (st st' : RSt) (x : Str), (∀ s ∈ sg, s.valid = true) →
    runSegs cfg st sg = some st' → go cfg st 0 (flatSegs sg ++ x) = go cfg st' 0 x := by
  induction sg with
  | nil => intro st st' x _ h; simp [runSegs] at h; subst h; simp [flatSegs]
  | cons s r ih =>
    intro st st' x hv h
    have hvr : ∀ s ∈ r, s.valid = true := fun s hs => hv s (by simp [hs])
    have hvs := hv s (by simp)
    cases s with
    | plain c =>
      simp [Seg.valid] at hvs
      simp only [runSegs] at h
      simp only [flatSegs, Seg.flat, List.cons_append, List.nil_append]
      rw [go_plain _ _ _ _ _ hvs.1 hvs.2]
      simpa [bs_zero] using ih _ st' x hvr h
    | tag d b =>
      simp only [Seg.valid, Bool.and_eq_true, Option.isNone_iff_eq_none] at hvs
      simp only [runSegs] at h
      have hb : tagBody (b ++ ']' :: (flatSegs r ++ x)) = some (b, flatSegs r ++ x) := tagBody_append _ hvs.2
      have e1 : flatSegs (Seg.tag d b :: r) ++ x = '[' :: d :: (b ++ ']' :: (flatSegs r ++ x)) := by
        simp [flatSegs, Seg.flat]
      rw [e1, go_tag cfg st 0 d _ b _ hvs.1 hb]
      cases hf : flush cfg st with
      | none => simp [hf] at h
      | some st1 =>
        simp only [hf] at h
        cases ha : applyTag st1.stack (d :: b) with
        | ok stack' =>
          simp only [ha] at h
          have hz : bs (0 / 2) = [] := rfl
          simp [tagStep, hf, emit, hz, emo_nil, ha]
          exact ih _ st' x hvr h
        | raised => simp [ha] at h
        | unknown => simp [ha] at h


/-! ## `warn` -/

theorem warn_escaped (tbl : EmojiTbl) (spec : WarnSpec) (lit : Str) (sg : List Seg) (st : RSt) (msg : Str)
    (ha : spec.args = [.markup [.lit lit, .msgEscaped]]) (hm : spec.markup = true)
    (hs : segsOf lit = some sg) (hr : runSegs { emoji := spec.emoji, tbl := tbl } {} sg = some st)
    (hp : st.pend.all (· != ':') = true)
    (hl : lostBackslash msg = false) (he : spec.emoji = false ∨ emojiCandidate msg = false) :
    ∃ t, (t = [] ∨ t = ['\\']) ∧ warnShown tbl spec msg = .shown (st.out ++ st.pend ++ msg ++ t) := by
  obtain ⟨e1, e2⟩ := segsOf_spec lit sg hs
  obtain ⟨t, ht, e⟩ := go_escape { emoji := spec.emoji, tbl := tbl } st msg hp hl he
  refine ⟨t, ht, ?_⟩
  simp only [warnShown, ha, joinObs, argObs, renderStr, hm, if_true, build, List.append_nil, render]
  rw [← e1, go_segs _ sg {} st _ e2 hr, e]
  simp

theorem warn_text (tbl : EmojiTbl) (spec : WarnSpec) (lit t : Str) (msg : Str)
    (ha : spec.args = [.markup [.lit lit], .text [.msg]]) (hr : renderStr tbl spec lit = .shown t) :
    warnShown tbl spec msg = .shown (t ++ spec.sep ++ msg) := by
  simp [warnShown, ha, joinObs, argObs, build, hr]

/-- **What `warn` shows.**  If the message is handed over in one of the two inert ways, the
    terminal shows the literal prefix and then the message, character by character (a single
    trailing backslash of an escaped message is doubled). -/
theorem warn_inert (tbl : EmojiTbl) (spec : WarnSpec) (i : Inert) (msg : Str)
    (hi : inertShape tbl spec = some i) (hs : safeMsg spec i msg = true) :
    ∃ t, (t = [] ∨ t = ['\\']) ∧ warnShown tbl spec msg = .shown (i.pre ++ msg ++ t) := by
  unfold inertShape at hi
  split at hi
  · rename_i lit ha
    split at hi
    · rename_i hm
      split at hi
      · rename_i sg hsg
        split at hi
        · rename_i st hr
          split at hi
          · rename_i hp
            cases hi
            simp only [safeMsg, Bool.and_eq_true, Bool.not_eq_true', Bool.or_eq_true] at hs
            exact warn_escaped tbl spec lit sg st msg ha hm hsg hr hp hs.1 hs.2
          · cases hi
        · cases hi
      · cases hi
    · cases hi
  · rename_i lit ha
    split at hi
    · rename_i t hr
      cases hi
      exact ⟨[], .inl rfl, by simpa [Inert.pre] using warn_text tbl spec lit t msg ha hr⟩
    · cases hi
  · cases hi

/-! ## text without tags never raises -/

theorem go_notag (cfg : Cfg) (s : Str) : ∀ (st : RSt) (k : Nat), hasTag s = false → go cfg st k s ≠ .raised := by
  induction s with
  | nil =>
    intro st k _
    rw [go_nil]; unfold finish; split <;> simp
  | cons c cs ih =>
    intro st k h
    simp only [hasTag, Bool.or_eq_false_iff] at h
    by_cases h1 : c = '\\'
    · subst h1; rw [go_bsl]; exact ih _ _ h.2
    · by_cases h2 : c = '['
      · subst h2
        have : startsTag cs = false := by simpa using h.1
        rw [go_bracket_plain _ _ _ _ this]; exact ih _ _ h.2
      · rw [go_plain _ _ _ _ _ h1 h2]; exact ih _ _ h.2

theorem progress_survives (tbl : EmojiTbl) (spec : ProgSpec) (path : Str)
    (h : spec.markup = false ∨ (spec.escaped = false ∧ hasTag path = false)) :
    progressObs tbl spec path ≠ .raised := by
  unfold progressObs
  rcases h with h | ⟨h1, h2⟩
  · simp [h]
  · split
    · simp only [h1, render]; exact go_notag _ _ _ _ h2
    · simp

/-! ## the message of the per-file handler -/

theorem rejectionMsg_names (ps : List MsgPiece) (path err : Str) (h : MsgPiece.path ∈ ps) :
    ∃ a b, rejectionMsg ps path err = a ++ path ++ b := by
  induction ps with
  | nil => cases h
  | cons p r ih =>
    cases p with
    | path => exact ⟨[], rejectionMsg r path err, by simp [rejectionMsg]⟩
    | lit s =>
      obtain ⟨a, b, e⟩ := ih (by simpa using h)
      exact ⟨s ++ a, b, by simp [rejectionMsg, e]⟩
    | err =>
      obtain ⟨a, b, e⟩ := ih (by simpa using h)
      exact ⟨err ++ a, b, by simp [rejectionMsg, e]⟩

theorem rejectionText_names (rules : List (ErrGuard × List MsgPiece)) (path err : Str)
    (h : rulesNameFile rules = true) :
    ∃ a b, rejectionText rules path err = a ++ path ++ b := by
  simp only [rulesNameFile, Bool.and_eq_true] at h
  obtain ⟨hall, hany⟩ := h
  induction rules with
  | nil => simp at hany
  | cons r rs ih =>
    obtain ⟨g, ps⟩ := r
    simp only [rejectionText]
    split
    · apply rejectionMsg_names
      simp only [List.all_cons, Bool.and_eq_true] at hall
      simpa using hall.1
    · rename_i hg
      simp only [List.all_cons, Bool.and_eq_true] at hall
      simp only [List.any_cons, Bool.or_eq_true] at hany
      rcases hany with hany | hany
      · simp only [beq_iff_eq] at hany
        subst hany
        simp [ErrGuard.holds] at hg
      · exact ih hall.2 hany

end Ford.Markup
