/-
  Lemmas for the `character` branch of FordModel/TypeSpec.lean (length / kind parameters).
-/
import FordModel.Lemmas.TypeSpec
namespace Ford.TypeSpec

/-- a length value whose spellings FORD treats alike: `*`, `:`, a number, or a name -/
inductive LenVal : Str → Prop where
  | star : LenVal ['*']
  | colon : LenVal [':']
  | number (n : Str) (hne : n ≠ []) (h : ∀ c ∈ n, isDigit c = true) : LenVal n
  | name (c : Char) (cs : Str) (hc : isAlpha c = true ∨ c = '_') (h : ∀ d ∈ cs, isWord d = true) : LenVal (c :: cs)

theorem digit_word {c : Char} (h : isDigit c = true) : isWord c = true := by simp [isWord, h]

theorem word_space {c : Char} (h : isWord c = true) : isSpace c = false := by
  simp only [isWord, Bool.or_eq_true, beq_iff_eq] at h
  rcases h with (h | h) | h
  · exact alpha_space h
  · exact digit_space h
  · subst h; decide

theorem word_paren {c : Char} (h : isWord c = true) : isParen c = false := by
  simp only [isWord, Bool.or_eq_true, beq_iff_eq] at h
  rcases h with (h | h) | h
  · exact alpha_paren h
  · exact digit_paren h
  · subst h; decide

theorem alpha_ne {c d : Char} (h : isAlpha c = true) (hd : isAlpha d = false) : c ≠ d := by
  intro e; subst e; simp [h] at hd

theorem word_ne {c d : Char} (h : isWord c = true) (hd : isWord d = false) : c ≠ d := by
  intro e; subst e; simp [h] at hd

theorem word_kindCh {c : Char} (h : isWord c = true) : kindCh c = true := by
  have h1 := word_space h
  have h2 := word_paren h
  have h3 : c ≠ ',' := word_ne h (by decide)
  have h4 : c ≠ '=' := word_ne h (by decide)
  have h5 : isQuote c = false := by
    simp only [isQuote, Bool.or_eq_false_iff, beq_eq_false_iff_ne, ne_eq]
    exact ⟨word_ne h (by decide), word_ne h (by decide)⟩
  simp [kindCh, h1, h2, h3, h4, h5]

/-- every character of a length value is a flat kind character -/
theorem lenVal_kindCh {n : Str} (h : LenVal n) : ∀ c ∈ n, kindCh c = true := by
  cases h with
  | star => decide
  | colon => decide
  | number n _ hd => exact fun c hc => digit_kindCh (hd c hc)
  | name c cs hc hw =>
    intro d hd
    rcases List.mem_cons.mp hd with rfl | hd
    · rcases hc with hc | rfl
      · exact word_kindCh (by simp [isWord, hc])
      · decide
    · exact word_kindCh (hw d hd)

theorem lenVal_ne {n : Str} (h : LenVal n) : n ≠ [] := by
  cases h <;> simp_all

/-- `LEN_RE.match("len=" ++ n)` -/
theorem lenMatch_kw (L n : Str) (hL : lower L = (chars! "len")) (h : LenVal n) :
    lenMatch (L ++ '=' :: n) = some n := by
  have h1 : skipWs ('=' :: n) = '=' :: n := skipWs_of_head _ _ (by decide)
  have : lenAlt1 (L ++ '=' :: n) = some n := by
    unfold lenAlt1
    rw [kwCI_of_lower _ L _ hL]
    simp only [h1]
    cases h with
    | star => simp [skipWs, isSpace, List.takeWhile, isWord, isAlpha, isDigit]
    | colon => simp [skipWs, isSpace, List.takeWhile, isWord, isAlpha, isDigit]
    | number n hne hd =>
      have hs : skipWs n = n := by
        cases n with
        | nil => rfl
        | cons c cs => exact skipWs_of_head _ _ (digit_space (hd c (by simp)))
      have ht : n.takeWhile isWord = n := takeWhile_all _ (fun c hc => digit_word (hd c hc))
      cases n with
      | nil => exact absurd rfl hne
      | cons c cs => simp [hs, ht]
    | name c cs hc hw =>
      have hcw : isWord c = true := by
        rcases hc with hc | rfl
        · simp [isWord, hc]
        · decide
      have hs : skipWs (c :: cs) = c :: cs := skipWs_of_head _ _ (word_space hcw)
      have ht : (c :: cs).takeWhile isWord = c :: cs :=
        takeWhile_all _ (fun d hd => by
          rcases List.mem_cons.mp hd with rfl | hd
          · exact hcw
          · exact hw d hd)
      simp [hs, ht]
  simp [lenMatch, this]

theorem lenAlt1_no_eq (n : Str) (h : ∀ c ∈ n, c ≠ '=') : lenAlt1 n = none := by
  unfold lenAlt1
  split
  · rfl
  · rename_i r hk
    obtain ⟨p, hp⟩ := kwCI_suffix _ _ _ hk
    obtain ⟨q, hq⟩ := skipWs_suffix r
    split
    · rename_i r' hs
      exfalso
      apply h '=' _ rfl
      rw [hp, hq, hs]; simp
    · rfl

/-- `LEN_RE.match(n)` for a bare value: only a number matches (second alternative) -/
theorem lenMatch_bare {n : Str} (h : LenVal n) :
    lenMatch n = none ∨ lenMatch n = some n := by
  have h1 : lenAlt1 n = none := lenAlt1_no_eq n (fun c hc => kindCh_eq (lenVal_kindCh h c hc))
  simp only [lenMatch, h1, lenAlt2]
  cases h with
  | star => left; simp [List.takeWhile, isDigit]
  | colon => left; simp [List.takeWhile, isDigit]
  | number n hne hd =>
    right
    have ht : n.takeWhile isDigit = n := takeWhile_all _ hd
    cases n with
    | nil => exact absurd rfl hne
    | cons c cs => simp [ht]
  | name c cs hc hw =>
    left
    have : isDigit c = false := by
      rcases hc with hc | rfl
      · cases hdg : isDigit c with
        | false => rfl
        | true => simp [digit_not_alpha hdg] at hc
      · decide
    simp [List.takeWhile, this]


/-! ## splitting and the parameter loop -/

theorem splitComma_go_nocomma (a cur : Str) (h : ∀ c ∈ a, c ≠ ',') :
    splitComma.go a cur = [cur.reverse ++ a] := by
  induction a generalizing cur with
  | nil => simp [splitComma.go]
  | cons c cs ih =>
    have hc : (c == ',') = false := by simpa using h c (by simp)
    simp only [splitComma.go, hc, Bool.false_eq_true, if_false]
    rw [ih _ (fun d hd => h d (by simp [hd]))]
    simp

theorem splitComma_one (a : Str) (h : ∀ c ∈ a, c ≠ ',') : splitComma a = [a] := by
  simp [splitComma, splitComma_go_nocomma a [] h]

theorem splitComma_go_append (a b cur : Str) (h : ∀ c ∈ a, c ≠ ',') :
    splitComma.go (a ++ ',' :: b) cur = (cur.reverse ++ a) :: splitComma.go b [] := by
  induction a generalizing cur with
  | nil => simp [splitComma.go]
  | cons c cs ih =>
    have hc : (c == ',') = false := by simpa using h c (by simp)
    simp only [List.cons_append, splitComma.go, hc, Bool.false_eq_true, if_false]
    rw [ih _ (fun d hd => h d (by simp [hd]))]
    simp

theorem splitComma_two (a b : Str) (ha : ∀ c ∈ a, c ≠ ',') (hb : ∀ c ∈ b, c ≠ ',') :
    splitComma (a ++ ',' :: b) = [a, b] := by
  simp [splitComma, splitComma_go_append a b [] ha, splitComma_go_nocomma b [] hb]

theorem kindCh_noquote {k : Str} (hk : ∀ c ∈ k, kindCh c = true) : hasQuote k = false := by
  simp only [hasQuote, List.any_eq_false]
  intro c hc
  have := hk c hc
  simp [kindCh] at this
  simp [this.2]

/-- one parameter: a bare length value -/
theorem charArgs_bare {n : Str} (h : LenVal n) : charArgs [n] none none = .ok (some n, none) := by
  have hk : kindMatch n = none := kindMatch_no_eq n (fun c hc => kindCh_eq (lenVal_kindCh h c hc))
  rcases lenMatch_bare h with hl | hl <;> simp [charArgs, hl, hk]

/-- one parameter: `len=n` -/
theorem charArgs_len (L n : Str) (hL : lower L = (chars! "len")) (h : LenVal n) :
    charArgs [L ++ '=' :: n] none none = .ok (some n, none) := by
  simp [charArgs, lenMatch_kw L n hL h]

theorem lenMatch_kindkw (K k : Str) (hK : lower K = (chars! "kind")) : lenMatch (K ++ '=' :: k) = none := by
  have h1 : lenAlt1 (K ++ '=' :: k) = none := by
    unfold lenAlt1
    rw [kwCI_diverge _ K _ (by rw [hK]; decide)]
  have h2 : lenAlt2 (K ++ '=' :: k) = none := by
    have hKa := kw_alpha K _ hK kindKw_alpha
    cases K with
    | nil => simp [lower] at hK
    | cons c cs =>
      have : isDigit c = false := by
        cases hd : isDigit c with
        | false => rfl
        | true => have := hKa c (by simp); simp [digit_not_alpha hd] at this
      simp [lenAlt2, List.takeWhile, this]
  simp [lenMatch, h1, h2]

/-- `len=n, kind=k` -/
theorem charArgs_len_kind (L K n k : Str) (hL : lower L = (chars! "len")) (hK : lower K = (chars! "kind"))
    (h : LenVal n) (hk : ∀ c ∈ k, kindCh c = true) (hne : k ≠ []) :
    charArgs [L ++ '=' :: n, K ++ '=' :: k] none none = .ok (some n, some k) := by
  simp [charArgs, lenMatch_kw L n hL h, kindMatch_kw K k hK hk hne, kindCh_noquote hk]

/-- `kind=k, len=n` -/
theorem charArgs_kind_len (L K n k : Str) (hL : lower L = (chars! "len")) (hK : lower K = (chars! "kind"))
    (h : LenVal n) (hk : ∀ c ∈ k, kindCh c = true) (hne : k ≠ []) :
    charArgs [K ++ '=' :: k, L ++ '=' :: n] none none = .ok (some n, some k) := by
  simp [charArgs, lenMatch_kindkw K k hK, lenMatch_kw L n hL h, kindMatch_kw K k hK hk hne, kindCh_noquote hk]

/-- `n, kind=k` -/
theorem charArgs_bare_kind (K n k : Str) (hK : lower K = (chars! "kind"))
    (h : LenVal n) (hk : ∀ c ∈ k, kindCh c = true) (hne : k ≠ []) :
    charArgs [n, K ++ '=' :: k] none none = .ok (some n, some k) := by
  have hkn : kindMatch n = none := kindMatch_no_eq n (fun c hc => kindCh_eq (lenVal_kindCh h c hc))
  rcases lenMatch_bare h with hl | hl <;>
    simp [charArgs, hl, hkn, kindMatch_kw K k hK hk hne, kindCh_noquote hk]

/-- `n, k` -/
theorem charArgs_bare_bare (n k : Str) (h : LenVal n) (hk : ∀ c ∈ k, kindCh c = true) :
    charArgs [n, k] none none = .ok (some n, some k) := by
  have hkn : kindMatch n = none := kindMatch_no_eq n (fun c hc => kindCh_eq (lenVal_kindCh h c hc))
  have hkk : kindMatch k = none := kindMatch_no_eq k (fun c hc => kindCh_eq (hk c hc))
  rcases lenMatch_bare h with hl | hl <;> simp [charArgs, hl, hkn, hkk]


/-! ## `finish` on the character spellings -/

def kwChar : Str := (chars! "character")

theorem finish_char_paren (X rest : Str) (as : List Str) (len kind : Option Str)
    (hX : ∀ c ∈ X, c ≠ ')') (hne : X ≠ [])
    (hs : splitComma (removeWs X) = as) (hl : as.length ≤ 2)
    (hc : charArgs as none none = .ok (len, kind)) :
    finish kwChar ('(' :: (X ++ [')'])) rest
      = .ok { vartype := kwChar, rest, kind, strlen := some (len.getD ['1']) } := by
  have hXne : X.isEmpty = false := by cases X <;> simp_all
  have hl' : ¬ (as.length > 2) := by omega
  unfold finish
  simp only [kwChar, vkSearch_paren _ hX, hXne]
  simp [isProtoType, removeWs_strip, hs, hl', hc]

theorem vkSearch_star_paren (X : Str) (h : ∀ c ∈ X, c ≠ ')') :
    vkSearch ('*' :: '(' :: (X ++ [')'])) = some (.g2 ('(' :: (X ++ [')']))) := by
  have hl := lastClose_append_close X h
  have ht : (X ++ [')']).take (X.length + 1) = X ++ [')'] := by
    apply List.take_of_length_le; simp
  simp [vkSearch, vkAt, skipWs, isSpace, List.takeWhile, isDigit, hl, ht]

/-- `character*(n)` -/
theorem finish_char_star_paren (w2 n w3 rest : Str) (h2 : isBlank w2 = true) (h3 : isBlank w3 = true)
    (hn : ∀ c ∈ n, kindCh c = true) (hne : n ≠ []) :
    finish kwChar ('*' :: '(' :: ((w2 ++ n ++ w3) ++ [')'])) rest
      = .ok { vartype := kwChar, rest, strlen := some n } := by
  have hX : ∀ c ∈ w2 ++ n ++ w3, c ≠ ')' := by
    intro c hc
    simp only [List.mem_append] at hc
    rcases hc with (hc | hc) | hc
    · exact isParen_close (blank_paren h2 c hc)
    · exact isParen_close (kindCh_paren (hn c hc))
    · exact isParen_close (blank_paren h3 c hc)
  have hns : ∀ c ∈ n, isSpace c = false := fun c hc => kindCh_space (hn c hc)
  have hvk := vkSearch_star_paren _ hX
  have hstrip : strip ('(' :: ((w2 ++ n ++ w3) ++ [')'])) = '(' :: ((w2 ++ n ++ w3) ++ [')']) := by
    have := strip_core [] '(' (w2 ++ n ++ w3) ')' [] rfl (by decide) (by decide)
    simpa [rstrip, lstrip] using this
  have hdl : (('(' :: ((w2 ++ n ++ w3) ++ [')'])).drop 1).dropLast = w2 ++ n ++ w3 := by
    simp
  unfold finish
  simp only [kwChar, hvk, hstrip, hdl]
  simp [isProtoType, startsWith, removeWs_strip, removeWs_append, removeWs_blank _ h2, removeWs_blank _ h3,
    removeWs_nospace n hns]

/-- `character*digits` -/
theorem finish_char_star (ds rest : Str) (hd : ∀ c ∈ ds, isDigit c = true) (hne : ds ≠ []) :
    finish kwChar ('*' :: ds) rest = .ok { vartype := kwChar, rest, strlen := some ds } := by
  have hs : ∀ c ∈ ds, isSpace c = false := fun c hc => digit_space (hd c hc)
  have hsk : skipWs ds = ds := by
    cases ds with
    | nil => rfl
    | cons c cs => exact skipWs_of_head _ _ (hs c (by simp))
  have hvk : vkSearch ('*' :: ds) = some (.g2 ds) := by
    cases ds with
    | nil => exact absurd rfl hne
    | cons c cs =>
      simp only [vkSearch, vkAt, hsk, takeWhile_all _ hd]
      simp
  have hst : strip ds = ds := by
    have := strip_pad [] ds [] rfl rfl hs
    simpa using this
  have hpar : startsWith ds ['('] = false := by
    cases ds with
    | nil => exact absurd rfl hne
    | cons c cs =>
      have : c ≠ '(' := digit_ne (hd c (by simp)) (by decide)
      simp [startsWith, this]
  unfold finish
  simp only [kwChar, hvk]
  simp [isProtoType, hst, hpar, removeWs_nospace ds hs]

/-! ## front -/

theorem varTypeRest_char (t r : Str) (ht : lower t = kwChar) : varTypeRest (t ++ r) = some r := by
  have hd : ∀ kw, diverge kw kwChar = true → kwCI kw (t ++ r) = none :=
    fun kw h => kwCI_diverge kw t r (by rw [ht]; exact h)
  have hp := kwCI_of_lower _ t r ht
  simp only [kwChar] at hd hp
  simp only [varTypeRest, firstSome, kw2CI, hp, hd (chars! "integer") (by decide), hd (chars! "real") (by decide),
    hd (chars! "double") (by decide)]

theorem normVartype_char (t : Str) (ht : lower t = kwChar) : normVartype t = kwChar := by
  unfold normVartype
  simp only [ht]
  decide

theorem parseType_front_char (t after core tail : Str) (ht : lower t = kwChar)
    (hnl : (t ++ after).contains '\n' = false)
    (hnorm : starNorm (strip after) = core ++ rstrip tail)
    (hgp : getParens (core ++ rstrip tail) = .ok core) :
    parseType (t ++ after) = finish kwChar core (strip tail) := by
  unfold parseType
  simp only [hnl, Bool.false_eq_true, if_false, varTypeRest_char t _ ht]
  have htake : (t ++ after).take ((t ++ after).length - after.length) = t := by simp
  simp only [htake, normVartype_char t ht, hnorm, hgp]
  congr 1
  simp [strip_rstrip]

/-- `get_parens` on `*( inner )` followed by a tail that ends the scan -/
theorem getParens_star_paren (inner tail : Str) (h : ∀ c ∈ inner, isParen c = false) (ht : EndsScan tail) :
    getParens ('*' :: '(' :: (inner ++ ')' :: tail)) = .ok ('*' :: '(' :: (inner ++ [')'])) := by
  simp only [getParens, getParensAux, show ('*' == '(') = false by decide, show ('*' == ')') = false by decide,
    show ('*' == '[') = false by decide, show ('*' == ']') = false by decide,
    show isStop '*' = false by decide, Bool.false_and, Bool.false_eq_true, if_false, beq_self_eq_true, if_true]
  rw [show (0 : Int) + 1 = 1 by decide, getParensAux_inner inner _ _ h]
  simp only [getParensAux, show (')' == '(') = false by decide, beq_self_eq_true, if_true, if_false,
    Bool.false_eq_true]
  rw [show (1 : Int) - 1 = 0 by decide, getParensAux_end _ _ ht]
  simp


/-! ## end-to-end: `character` spellings -/

/-- a run of blanks and tabs -/
def isPad (w : Str) : Bool := w.all (fun c => c == ' ' || c == '\t')

theorem isPad_blank {w : Str} (h : isPad w = true) : isBlank w = true := by
  simp only [isPad, isBlank, List.all_eq_true] at *
  intro c hc
  have := h c hc
  simp only [Bool.or_eq_true, beq_iff_eq] at this
  rcases this with rfl | rfl <;> decide

theorem isPad_nl {w : Str} (h : isPad w = true) : w.all (fun c => c != '\n') = true := by
  simp only [isPad, List.all_eq_true] at *
  intro c hc
  have := h c hc
  simp only [Bool.or_eq_true, beq_iff_eq] at this
  rcases this with rfl | rfl <;> decide

theorem charKw_alpha : ∀ c ∈ kwChar, isAlpha c = true := by decide
theorem lenKw_alpha : ∀ c ∈ (chars! "len"), isAlpha c = true := by decide

theorem skipWs_pad_cons (ws : Str) (c : Char) (r : Str) (hws : isBlank ws = true) (hc : isSpace c = false) :
    skipWs (ws ++ c :: r) = c :: r := by
  rw [skipWs_blank_append _ _ hws]; exact skipWs_of_head _ _ hc

/-- `character ( X ) tail` for any parameter text `X` without parentheses -/
theorem parse_char_paren (t w1 X tail : Str) (as : List Str) (len kind : Option Str)
    (ht : lower t = kwChar) (h1 : isPad w1 = true)
    (hXp : ∀ c ∈ X, isParen c = false) (hXn : X.all (fun c => c != '\n') = true) (hXne : X ≠ [])
    (htail : EndsScan tail) (htn : tail.all (fun c => c != '\n') = true)
    (hs : splitComma (removeWs X) = as) (hl : as.length ≤ 2)
    (hc : charArgs as none none = .ok (len, kind)) :
    parseType (t ++ (w1 ++ (('(' :: X ++ [')']) ++ tail)))
      = .ok { vartype := kwChar, rest := strip tail, kind, strlen := some (len.getD ['1']) } := by
  have hta := kw_alpha t _ ht charKw_alpha
  have hT := allNotNl t (fun c hc => nospace_ne_nl (alpha_space (hta c hc)))
  have hcont : (t ++ (w1 ++ (('(' :: X ++ [')']) ++ tail))).contains '\n' = false := by
    apply contains_nl_false'
    simp [List.all_append, hT, isPad_nl h1, hXn, htn]
  have hgp : getParens (('(' :: X ++ [')']) ++ rstrip tail) = .ok ('(' :: X ++ [')']) := by
    have := getParens_paren X (rstrip tail) hXp (endsScan_rstrip _ htail)
    simpa using this
  have hnorm : starNorm (strip (w1 ++ (('(' :: X ++ [')']) ++ tail))) = ('(' :: X ++ [')']) ++ rstrip tail := by
    rw [strip_core w1 '(' _ ')' tail (isPad_blank h1) (by decide) (by decide)]; rfl
  rw [parseType_front_char t _ _ tail ht hcont hnorm hgp]
  exact finish_char_paren X _ as len kind (fun c hc => isParen_close (hXp c hc)) hXne hs hl hc

/-- `character * ( n ) tail` (blanks allowed after the asterisk) -/
theorem parse_char_star_paren (t w1 ws w2 n w3 tail : Str)
    (ht : lower t = kwChar) (h1 : isPad w1 = true) (hws : isPad ws = true) (h2 : isPad w2 = true)
    (h3 : isPad w3 = true) (hn : ∀ c ∈ n, kindCh c = true) (hne : n ≠ [])
    (htail : EndsScan tail) (htn : tail.all (fun c => c != '\n') = true) :
    parseType (t ++ (w1 ++ (('*' :: (ws ++ '(' :: (w2 ++ n ++ w3) ++ [')'])) ++ tail)))
      = .ok { vartype := kwChar, rest := strip tail, strlen := some n } := by
  have hta := kw_alpha t _ ht charKw_alpha
  have hT := allNotNl t (fun c hc => nospace_ne_nl (alpha_space (hta c hc)))
  have hN := allNotNl n (fun c hc => nospace_ne_nl (kindCh_space (hn c hc)))
  have hcont : (t ++ (w1 ++ (('*' :: (ws ++ '(' :: (w2 ++ n ++ w3) ++ [')'])) ++ tail))).contains '\n' = false := by
    apply contains_nl_false'
    simp [List.all_append, hT, isPad_nl h1, isPad_nl hws, isPad_nl h2, isPad_nl h3, hN, htn]
  have hin : ∀ c ∈ w2 ++ n ++ w3, isParen c = false := by
    intro c hc
    simp only [List.mem_append] at hc
    rcases hc with (hc | hc) | hc
    · exact blank_paren (isPad_blank h2) c hc
    · exact kindCh_paren (hn c hc)
    · exact blank_paren (isPad_blank h3) c hc
  have hgp : getParens (('*' :: '(' :: (w2 ++ n ++ w3) ++ [')']) ++ rstrip tail)
      = .ok ('*' :: '(' :: (w2 ++ n ++ w3) ++ [')']) := by
    have := getParens_star_paren (w2 ++ n ++ w3) (rstrip tail) hin (endsScan_rstrip _ htail)
    simpa using this
  have hnorm : starNorm (strip (w1 ++ (('*' :: (ws ++ '(' :: (w2 ++ n ++ w3) ++ [')'])) ++ tail)))
      = ('*' :: '(' :: (w2 ++ n ++ w3) ++ [')']) ++ rstrip tail := by
    have h := strip_core w1 '*' (ws ++ '(' :: (w2 ++ n ++ w3)) ')' tail (isPad_blank h1) (by decide) (by decide)
    have e1 : '*' :: (ws ++ '(' :: (w2 ++ n ++ w3)) ++ [')'] = '*' :: (ws ++ '(' :: (w2 ++ n ++ w3) ++ [')']) := by simp
    rw [e1] at h
    rw [h]
    simp only [List.append_assoc, List.cons_append, List.nil_append, starNorm]
    rw [skipWs_pad_cons ws '(' _ (isPad_blank hws) (by decide)]
  rw [parseType_front_char t _ _ tail ht hcont hnorm hgp]
  exact finish_char_star_paren w2 n w3 _ (isPad_blank h2) (isPad_blank h3) hn hne

/-- `character * digits tail` -/
theorem parse_char_star (t w1 ws n tail : Str) (ht : lower t = kwChar) (h1 : isPad w1 = true)
    (hws : isPad ws = true) (hn : ∀ c ∈ n, isDigit c = true) (hne : n ≠ [])
    (htail : EndsScan tail) (htn : tail.all (fun c => c != '\n') = true) :
    parseType (t ++ (w1 ++ (('*' :: (ws ++ n)) ++ tail)))
      = .ok { vartype := kwChar, rest := strip tail, strlen := some n } := by
  have hsplit : n = n.dropLast ++ [n.getLast hne] := (List.dropLast_concat_getLast hne).symm
  have he : isSpace (n.getLast hne) = false := digit_space (hn _ (List.getLast_mem hne))
  have hflat : ∀ c ∈ '*' :: n, isParen c = false ∧ isStop c = false := by
    intro c hc
    rcases List.mem_cons.mp hc with rfl | hc
    · decide
    · exact ⟨digit_paren (hn c hc), digit_stop (hn c hc)⟩
  have hta := kw_alpha t _ ht charKw_alpha
  have hT := allNotNl t (fun c hc => nospace_ne_nl (alpha_space (hta c hc)))
  have hN := allNotNl n (fun c hc => nospace_ne_nl (digit_space (hn c hc)))
  have hcont : (t ++ (w1 ++ (('*' :: (ws ++ n)) ++ tail))).contains '\n' = false := by
    apply contains_nl_false'
    simp [List.all_append, hT, isPad_nl h1, isPad_nl hws, hN, htn]
  have hgp : getParens (('*' :: n) ++ rstrip tail) = .ok ('*' :: n) :=
    getParens_flat _ _ hflat (endsScan_rstrip _ htail)
  have hnorm : starNorm (strip (w1 ++ (('*' :: (ws ++ n)) ++ tail))) = ('*' :: n) ++ rstrip tail := by
    have h := strip_core w1 '*' (ws ++ n.dropLast) (n.getLast hne) tail (isPad_blank h1) (by decide) he
    have e1 : '*' :: (ws ++ n.dropLast) ++ [n.getLast hne] = '*' :: (ws ++ n) := by
      have : (ws ++ n.dropLast) ++ [n.getLast hne] = ws ++ n := by
        rw [List.append_assoc, ← hsplit]
      simpa using this
    rw [e1] at h
    rw [h]
    have hsk : skipWs ((ws ++ n) ++ rstrip tail) = n ++ rstrip tail := by
      rw [List.append_assoc, skipWs_blank_append _ _ (isPad_blank hws)]
      cases n with
      | nil => exact absurd rfl hne
      | cons c cs => exact skipWs_of_head _ _ (digit_space (hn c (by simp)))
    simp only [List.cons_append, starNorm, hsk]
  rw [parseType_front_char t _ ('*' :: n) tail ht hcont hnorm hgp, finish_char_star n _ hn hne]


/-! ## one and two parameters in parentheses -/

/-- characters of one parameter text: no blank, parenthesis, bracket or comma -/
def argCh (c : Char) : Bool := !isSpace c && !isParen c && c != ','

theorem argCh_space {c : Char} (h : argCh c = true) : isSpace c = false := by
  simp [argCh] at h; exact h.1.1
theorem argCh_paren {c : Char} (h : argCh c = true) : isParen c = false := by
  simp [argCh] at h; exact h.1.2
theorem argCh_comma {c : Char} (h : argCh c = true) : c ≠ ',' := by
  simp [argCh] at h; exact h.2
theorem kindCh_argCh {c : Char} (h : kindCh c = true) : argCh c = true := by
  simp [argCh, kindCh_space h, kindCh_paren h, kindCh_comma h]
theorem alpha_argCh {c : Char} (h : isAlpha c = true) : argCh c = true := by
  simp [argCh, alpha_space h, alpha_paren h, alpha_ne h (show isAlpha ',' = false by decide)]

/-- `kw=value` written without blanks is one parameter text -/
theorem kwArg_argCh (K k : Str) (kw : Str) (hK : lower K = kw) (hkw : ∀ c ∈ kw, isAlpha c = true)
    (hk : ∀ c ∈ k, kindCh c = true) : ∀ c ∈ K ++ '=' :: k, argCh c = true := by
  intro c hc
  simp only [List.mem_append, List.mem_cons] at hc
  rcases hc with hc | rfl | hc
  · exact alpha_argCh (kw_alpha K kw hK hkw c hc)
  · decide
  · exact kindCh_argCh (hk c hc)

/-- `character ( A ) tail` with blanks around the parameter -/
theorem parse_char_one (t w1 w2 A w3 tail : Str) (len kind : Option Str)
    (ht : lower t = kwChar) (h1 : isPad w1 = true) (h2 : isPad w2 = true) (h3 : isPad w3 = true)
    (hA : ∀ c ∈ A, argCh c = true) (hne : A ≠ [])
    (htail : EndsScan tail) (htn : tail.all (fun c => c != '\n') = true)
    (hc : charArgs [A] none none = .ok (len, kind)) :
    parseType (t ++ (w1 ++ (('(' :: (w2 ++ A ++ w3) ++ [')']) ++ tail)))
      = .ok { vartype := kwChar, rest := strip tail, kind, strlen := some (len.getD ['1']) } := by
  have hAs : ∀ c ∈ A, isSpace c = false := fun c hc => argCh_space (hA c hc)
  apply parse_char_paren t w1 (w2 ++ A ++ w3) tail [A] len kind ht h1 _ _ _ htail htn _ (by simp) hc
  · intro c hc
    simp only [List.mem_append] at hc
    rcases hc with (hc | hc) | hc
    · exact blank_paren (isPad_blank h2) c hc
    · exact argCh_paren (hA c hc)
    · exact blank_paren (isPad_blank h3) c hc
  · have hAn := allNotNl A (fun c hc => nospace_ne_nl (hAs c hc))
    simp [List.all_append, isPad_nl h2, isPad_nl h3, hAn]
  · cases A <;> simp_all
  · simp only [removeWs_append, removeWs_blank _ (isPad_blank h2), removeWs_blank _ (isPad_blank h3),
      removeWs_nospace A hAs, List.nil_append, List.append_nil]
    exact splitComma_one A (fun c hc => argCh_comma (hA c hc))

/-- `character ( A , B ) tail` with blanks around the parameters -/
theorem parse_char_two (t w1 w2 A w3 w4 B w5 tail : Str) (len kind : Option Str)
    (ht : lower t = kwChar) (h1 : isPad w1 = true) (h2 : isPad w2 = true) (h3 : isPad w3 = true)
    (h4 : isPad w4 = true) (h5 : isPad w5 = true)
    (hA : ∀ c ∈ A, argCh c = true) (hB : ∀ c ∈ B, argCh c = true) (hne : A ≠ [])
    (htail : EndsScan tail) (htn : tail.all (fun c => c != '\n') = true)
    (hc : charArgs [A, B] none none = .ok (len, kind)) :
    parseType (t ++ (w1 ++ (('(' :: (w2 ++ A ++ w3 ++ ',' :: (w4 ++ B ++ w5)) ++ [')']) ++ tail)))
      = .ok { vartype := kwChar, rest := strip tail, kind, strlen := some (len.getD ['1']) } := by
  have hAs : ∀ c ∈ A, isSpace c = false := fun c hc => argCh_space (hA c hc)
  have hBs : ∀ c ∈ B, isSpace c = false := fun c hc => argCh_space (hB c hc)
  apply parse_char_paren t w1 (w2 ++ A ++ w3 ++ ',' :: (w4 ++ B ++ w5)) tail [A, B] len kind ht h1 _ _ _ htail htn _
    (by simp) hc
  · intro c hc
    simp only [List.mem_append, List.mem_cons] at hc
    rcases hc with ((hc | hc) | hc) | rfl | (hc | hc) | hc
    · exact blank_paren (isPad_blank h2) c hc
    · exact argCh_paren (hA c hc)
    · exact blank_paren (isPad_blank h3) c hc
    · decide
    · exact blank_paren (isPad_blank h4) c hc
    · exact argCh_paren (hB c hc)
    · exact blank_paren (isPad_blank h5) c hc
  · have hAn := allNotNl A (fun c hc => nospace_ne_nl (hAs c hc))
    have hBn := allNotNl B (fun c hc => nospace_ne_nl (hBs c hc))
    simp [List.all_append, isPad_nl h2, isPad_nl h3, isPad_nl h4, isPad_nl h5, hAn, hBn]
  · cases A <;> simp_all
  · have e : removeWs (w2 ++ A ++ w3 ++ ',' :: (w4 ++ B ++ w5)) = A ++ ',' :: B := by
      rw [show (',' :: (w4 ++ B ++ w5)) = [','] ++ (w4 ++ B ++ w5) by rfl]
      simp only [removeWs_append, removeWs_blank _ (isPad_blank h2), removeWs_blank _ (isPad_blank h3),
        removeWs_blank _ (isPad_blank h4), removeWs_blank _ (isPad_blank h5),
        removeWs_nospace A hAs, removeWs_nospace B hBs, List.nil_append, List.append_nil]
      rfl
    rw [e]
    exact splitComma_two A B (fun c hc => argCh_comma (hA c hc)) (fun c hc => argCh_comma (hB c hc))


/-! ## `double precision` / `double complex` with any blanks between the words -/

theorem kw2CI_of_lower (k1 k2 t1 ws t2 r : Str) (h1 : lower t1 = k1) (h2 : lower t2 = k2)
    (hws : isBlank ws = true) (hne : t2 ≠ []) (ha : ∀ c ∈ t2, isSpace c = false) :
    kw2CI k1 k2 (t1 ++ (ws ++ (t2 ++ r))) = some r := by
  unfold kw2CI
  rw [kwCI_of_lower _ t1 _ h1]
  simp only
  rw [skipWs_blank_append _ _ hws]
  cases t2 with
  | nil => exact absurd rfl hne
  | cons c cs =>
    rw [List.cons_append, skipWs_of_head _ _ (ha c (by simp)), ← List.cons_append]
    exact kwCI_of_lower _ _ _ h2

/-- the two-word types: which word follows `double` -/
inductive DblT where
  | precision | complex
  deriving DecidableEq, Repr

def DblT.second : DblT → Str
  | .precision => (chars! "precision") | .complex => (chars! "complex")
def DblT.norm : DblT → Str
  | .precision => (chars! "double precision") | .complex => (chars! "double complex")

theorem dbl_second_alpha (d : DblT) : ∀ c ∈ d.second, isAlpha c = true := by cases d <;> decide
theorem dbl_first_alpha : ∀ c ∈ (chars! "double"), isAlpha c = true := by decide

theorem varTypeRest_dbl (d : DblT) (t1 ws t2 r : Str) (h1 : lower t1 = (chars! "double"))
    (h2 : lower t2 = d.second) (hws : isBlank ws = true) :
    varTypeRest (t1 ++ (ws ++ (t2 ++ r))) = some r := by
  have h2a := kw_alpha t2 _ h2 (dbl_second_alpha d)
  have hne : t2 ≠ [] := by
    intro e; subst e; cases d <;> simp [lower, DblT.second] at h2
  have hd : ∀ kw, diverge kw (chars! "double") = true → kwCI kw (t1 ++ (ws ++ (t2 ++ r))) = none :=
    fun kw h => kwCI_diverge kw t1 _ (by rw [h1]; exact h)
  cases d
  · have hp := kw2CI_of_lower _ _ t1 ws t2 r h1 h2 hws hne (fun c hc => alpha_space (h2a c hc))
    simp only [DblT.second] at hp
    simp only [varTypeRest, firstSome, hp, hd (chars! "integer") (by decide), hd (chars! "real") (by decide)]
  · have hp := kw2CI_of_lower _ _ t1 ws t2 r h1 h2 hws hne (fun c hc => alpha_space (h2a c hc))
    simp only [DblT.second] at hp h2
    -- `double\s*precision` must fail first: after `double` and the blanks comes a word that is not `precision`
    have hprec : kw2CI (chars! "double") (chars! "precision") (t1 ++ (ws ++ (t2 ++ r))) = none := by
      unfold kw2CI
      rw [kwCI_of_lower _ t1 _ h1]
      simp only
      rw [skipWs_blank_append _ _ hws]
      cases t2 with
      | nil => exact absurd rfl hne
      | cons c cs =>
        rw [List.cons_append, skipWs_of_head _ _ (alpha_space (h2a c (by simp))), ← List.cons_append]
        exact kwCI_diverge _ _ _ (by rw [h2]; decide)
    simp only [varTypeRest, firstSome, hp, hprec, hd (chars! "integer") (by decide), hd (chars! "real") (by decide),
      hd (chars! "character") (by decide), hd (chars! "complex") (by decide)]


theorem lowerChar_space {c : Char} (h : isSpace c = true) : lowerChar c = c := by
  rcases space_cases h with h' | h' | h' | h' | h' | h' <;> subst h' <;> decide

theorem lower_blank (w : Str) (hw : isBlank w = true) : lower w = w := by
  induction w with
  | nil => rfl
  | cons c cs ih =>
    simp [isBlank] at hw
    simp only [lower, List.map_cons, lowerChar_space hw.1]
    congr 1
    exact ih (by simp [isBlank]; exact hw.2)

theorem lower_append (a b : Str) : lower (a ++ b) = lower a ++ lower b := by simp [lower]

theorem strip_idem' (t : Str) : strip (strip t) = strip t := by
  simp only [strip]
  rw [lstrip_rstrip_comm, lstrip_idem, rstrip_idem]

theorem normVartype_dbl (d : DblT) (t1 ws t2 : Str) (h1 : lower t1 = (chars! "double"))
    (h2 : lower t2 = d.second) (hws : isBlank ws = true) :
    normVartype (t1 ++ (ws ++ t2)) = d.norm := by
  have hl : lower (t1 ++ (ws ++ t2)) = (chars! "double") ++ (ws ++ (d.second ++ [])) := by
    simp [lower_append, h1, h2, lower_blank ws hws]
  unfold normVartype
  simp only [hl]
  cases d
  · have := kw2CI_of_lower (chars! "double") (chars! "precision") (chars! "double") ws (chars! "precision") []
      (by decide) (by decide) hws (by decide) (by decide)
    simp only [DblT.second, this, Option.isSome_some, if_true, DblT.norm]
  · have hp : kw2CI (chars! "double") (chars! "precision") ((chars! "double") ++ (ws ++ ((chars! "complex") ++ []))) = none := by
      unfold kw2CI
      rw [kwCI_of_lower _ (chars! "double") _ (by decide)]
      simp only
      rw [skipWs_blank_append _ _ hws]
      decide
    have := kw2CI_of_lower (chars! "double") (chars! "complex") (chars! "double") ws (chars! "complex") []
      (by decide) (by decide) hws (by decide) (by decide)
    simp only [DblT.second, this, hp, Option.isSome_some, Option.isSome_none, if_true, DblT.norm,
      Bool.false_eq_true, if_false]

/-- `double precision` / `double complex` followed by something `get_parens` stops at at once -/
theorem parseType_dbl (d : DblT) (t1 ws t2 tail : Str) (h1 : lower t1 = (chars! "double"))
    (h2 : lower t2 = d.second) (hws : isPad ws = true)
    (htail : EndsScan (strip tail)) (htn : tail.all (fun c => c != '\n') = true) :
    parseType (t1 ++ (ws ++ (t2 ++ tail))) = .ok { vartype := d.norm, rest := strip tail } := by
  have h1a := kw_alpha t1 _ h1 dbl_first_alpha
  have h2a := kw_alpha t2 _ h2 (dbl_second_alpha d)
  have hT1 := allNotNl t1 (fun c hc => nospace_ne_nl (alpha_space (h1a c hc)))
  have hT2 := allNotNl t2 (fun c hc => nospace_ne_nl (alpha_space (h2a c hc)))
  have hcont : (t1 ++ (ws ++ (t2 ++ tail))).contains '\n' = false := by
    apply contains_nl_false'
    simp [List.all_append, hT1, hT2, isPad_nl hws, htn]
  have hsn : starNorm (strip tail) = strip tail := by
    rcases htail with h | ⟨c, cs, h, hs, _⟩
    · rw [h]; rfl
    · rw [h]
      have : c ≠ '*' := by intro e; subst e; simp [isStop, isAlpha] at hs
      unfold starNorm; split
      · rename_i heq; simp at heq; exact absurd heq.1 this
      · rfl
  have hgp : getParens (strip tail) = .ok [] := by
    simpa [getParens] using getParensAux_end (strip tail) [] htail
  unfold parseType
  simp only [hcont, Bool.false_eq_true, if_false, varTypeRest_dbl d t1 ws t2 tail h1 h2 (isPad_blank hws)]
  have htake : (t1 ++ (ws ++ (t2 ++ tail))).take ((t1 ++ (ws ++ (t2 ++ tail))).length - tail.length)
      = t1 ++ (ws ++ t2) := by
    have e : (t1 ++ (ws ++ (t2 ++ tail))) = (t1 ++ (ws ++ t2)) ++ tail := by simp
    rw [e, List.length_append, Nat.add_sub_cancel]
    exact List.take_left'  rfl
  simp only [htake, normVartype_dbl d t1 ws t2 h1 h2 (isPad_blank hws), hsn, hgp]
  have hnt : (d.norm == (chars! "type") || d.norm == (chars! "class") || d.norm == (chars! "character")) = false := by
    cases d <;> decide
  simp [finish, hnt, startsWith, strip_idem']

end Ford.TypeSpec
