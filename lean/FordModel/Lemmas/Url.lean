import FordModel.Url
import FordModel.Lemmas.Path
namespace Ford.Url
open Ford.Path

theorem relpath_mem (t s : List Seg) : ∀ x ∈ relpath t s, x = up ∨ x ∈ t := by
  fun_induction relpath t s with
  | case1 tl x ss ih =>
    intro y hy
    rcases ih y hy with h | h
    · exact Or.inl h
    · exact Or.inr (by simp [h])
  | case2 t ts s ss hne =>
    intro y hy
    rcases List.mem_append.1 hy with h | h
    · left; simp only [ups, List.mem_replicate] at h; exact h.2
    · exact Or.inr h
  | case3 ts => intro y hy; exact Or.inr hy
  | case4 s ss =>
    intro y hy
    left; simp only [ups, List.mem_replicate] at hy; exact hy.2

theorem relpath_prefix (b t s : List Seg) : relpath (b ++ t) (b ++ s) = relpath t s := by
  induction b with
  | nil => rfl
  | cons x xs ih => simp [relpath, ih]

theorem resolve_relpathPy (t s : List Seg) (ht : Normal t) (hs : Normal s) :
    resolve s (relpathPy t s) = t := by
  simp only [relpathPy, norm_normal t ht, norm_normal s hs]
  by_cases h : relpath t s = []
  · have := foldl_relpath t s ht hs []
    simp only [h, List.append_nil] at this
    simp [h, resolve, norm, List.foldl_append, this, normStep, cur]
  · simp only [h, if_false]
    simp [resolve, norm, foldl_relpath t s ht hs []]

theorem normal_dropLast {p : List Seg} (h : Normal p) : Normal (dirOf p) :=
  fun s hs => h s (List.dropLast_subset p hs)

theorem resolve_append_normal (d r tgt : List Seg) (ht : Normal tgt) :
    resolve d (r ++ tgt) = resolve d r ++ tgt := by
  simp only [resolve, norm, ← List.append_assoc, List.foldl_append]
  rw [foldl_normal tgt _ ht]
  simp

theorem resolve_navHref (base page target : List Seg)
    (hb : Normal base) (hp : Normal page) (ht : Normal target) :
    resolve (base ++ dirOf page) (navHref base page target) = base ++ target := by
  simp only [navHref, projectUrl]
  rw [resolve_append_normal _ _ _ ht]
  rw [resolve_relpathPy base _ hb (normal_append hb (normal_dropLast hp))]

end Ford.Url

namespace Ford.Url
open Ford.Path

theorem lookup_mem {β} (k : Str) (l : List (Str × β)) (v : β) (h : lookup k l = some v) : (k, v) ∈ l := by
  induction l with
  | nil => simp [lookup] at h
  | cons a r ih =>
    obtain ⟨a1, a2⟩ := a
    by_cases hk : a1 = k
    · simp [lookup, hk] at h; simp [hk, h]
    · simp [lookup, hk] at h; simp [ih h]

/-- node agrees with the regenerated class -> `obj` table -/
def WfNode (T : Tables) (n : Node) : Prop := lookup n.cls T.objOf = some n.obj

/-- table check: a class that can own a page has an `obj` for which `writeout` makes a directory -/
def clsDirOk (T : Tables) (e : Str × Str) : Bool :=
  !((mroOf T e.1).any fun c => T.dirSelf.contains c || T.dirChild.contains c) || T.outDirs.contains e.2
    || (match overrideOf T e.1 with | some (.const _) => true | _ => false)

def overrideOk (T : Tables) (e : Str × Override) : Bool :=
  match e.2 with
  | .const d => T.outDirs.contains d
  | .ifIfaceProc d => T.outDirs.contains d
  | .ifNamed => true

def dirCheck (T : Tables) : Bool := T.objOf.all (clsDirOk T) && T.overrides.all (overrideOk T)

theorem baseDir_in (T : Tables) (h : dirCheck T = true) (n : Node) (rest : List Node) (hwf : WfNode T n) (d : Str)
    (hno : ∀ c, overrideOf T n.cls ≠ some (.const c))
    (hd : baseDir T (n :: rest) = some d) : d ∈ T.outDirs := by
  simp only [dirCheck, Bool.and_eq_true, List.all_eq_true] at h
  have hm := lookup_mem _ _ _ hwf
  have hk := h.1 _ hm
  simp only [baseDir] at hd
  by_cases hc : (isinst T n T.dirSelf || (isinst T n T.dirChild && parentIs T rest)) = true
  · simp only [hc, if_true, Option.some.injEq] at hd
    subst hd
    have hany : ((mroOf T n.cls).any fun c => T.dirSelf.contains c || T.dirChild.contains c) = true := by
      simp only [isinst, Bool.or_eq_true, Bool.and_eq_true, List.any_eq_true] at hc
      simp only [List.any_eq_true, Bool.or_eq_true]
      rcases hc with ⟨c, hc1, hc2⟩ | ⟨⟨c, hc1, hc2⟩, _⟩
      · exact ⟨c, hc1, Or.inl hc2⟩
      · exact ⟨c, hc1, Or.inr hc2⟩
    simp only [clsDirOk, hany, Bool.not_true, Bool.false_or, Bool.or_eq_true] at hk
    rcases hk with hk | hk
    · simpa using hk
    · exact absurd hk (by simp)
  · simp [hc] at hd

theorem override_in (T : Tables) (h : dirCheck T = true) (cls : Str) (o : Override) (ho : overrideOf T cls = some o) :
    overrideOk T (cls, o) = true := by
  simp only [dirCheck, Bool.and_eq_true, List.all_eq_true] at h
  simp only [overrideOf] at ho
  obtain ⟨c, _, hc⟩ := List.exists_of_findSome?_eq_some ho
  have := h.2 _ (lookup_mem _ _ _ hc)
  simpa [overrideOk] using this

theorem getDir_in (T : Tables) (h : dirCheck T = true) (n : Node) (rest : List Node) (hwf : WfNode T n) (d : Str)
    (hd : getDir T (n :: rest) = some d) : d ∈ T.outDirs := by
  simp only [getDir] at hd
  split at hd
  · rename_i ho
    exact baseDir_in T h n rest hwf d (by simp [ho]) hd
  · rename_i d' ho
    have := override_in T h _ _ ho
    simp only [Option.some.injEq] at hd
    subst hd
    simpa [overrideOk] using this
  · rename_i d' ho
    have := override_in T h _ _ ho
    split at hd
    · simp only [Option.some.injEq] at hd
      subst hd
      simpa [overrideOk] using this
    · exact baseDir_in T h n rest hwf d (by simp [ho]) hd
  · rename_i ho
    split at hd
    · exact baseDir_in T h n rest hwf d (by simp [ho]) hd
    · simp at hd

/-- The file of an entity's URL is the page of the nearest enclosing entity that
    owns a page; everything in between only contributes the fragment. -/
theorem getUrl_owner (T : Tables) (chain : List Node) (u : Loc) (h : getUrl T chain = some u) :
    ∃ pre c rest, chain = pre ++ c :: rest ∧ getDir T (c :: rest) = some u.dir ∧ u.stem = c.ident ∧
      (∀ n ∈ pre, isinst T n T.anchorClasses = true) ∧ (u.frag = none ↔ pre = []) ∧
      (∀ n, pre.head? = some n → u.frag = some (anchor n)) := by
  induction chain generalizing u with
  | nil => simp [getUrl] at h
  | cons n rest ih =>
    simp only [getUrl] at h
    split at h
    · rename_i d hd
      simp only [Option.some.injEq] at h
      subst h
      exact ⟨[], n, rest, rfl, hd, rfl, by simp, by simp, by simp⟩
    · rename_i hd
      split at h
      · rename_i hc
        split at h
        · rename_i u' hu'
          simp only [Option.some.injEq] at h
          subst h
          obtain ⟨pre, c, rest', hch, hdir, hstem, hpre, _, _⟩ := ih u' hu'
          simp only [Bool.and_eq_true] at hc
          refine ⟨n :: pre, c, rest', by simp [hch], hdir, hstem, ?_, by simp, by simp⟩
          intro m hm
          rcases List.mem_cons.1 hm with hm | hm
          · subst hm; exact hc.1
          · exact hpre m hm
        · simp at h
      · simp at h

theorem virtualDir_normal : NormalSeg virtualDir := by decide

theorem docCurrentPath_eq (base : List Seg) (u : Loc) : docCurrentPath base u = base ++ [virtualDir] := by
  simp [docCurrentPath, Loc.file, dirOf]

theorem resolve_doclink (base : List Seg) (hb : Normal base) (ctx t : Loc) (ht : Normal t.file)
    (hv : t.dir ≠ virtualDir) (d : Seg) (hd : NormalSeg d) :
    resolve (base ++ [d]) (docLinkPath base ctx t) = base ++ t.file := by
  have hcur : Normal (base ++ [virtualDir]) :=
    normal_append hb (fun s hs => by simp at hs; subst hs; exact virtualDir_normal)
  have hbt : Normal (base ++ t.file) := normal_append hb ht
  have hrel : relpath (base ++ t.file) (base ++ [virtualDir]) = up :: t.file := by
    rw [relpath_prefix]
    simp [Loc.file, relpath, hv, ups]
  simp only [docLinkPath, docCurrentPath_eq, relpathPy, norm_normal _ hbt, norm_normal _ hcur, hrel]
  simp only [List.cons_ne_nil, if_false, resolve, norm, List.foldl_append, List.foldl_cons, List.foldl_nil]
  rw [foldl_normal base [] hb, normStep_normal _ d hd, normStep_up]
  simp only [List.tail_cons]
  rw [foldl_normal t.file _ ht]
  simp

end Ford.Url
