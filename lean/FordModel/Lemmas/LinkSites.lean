/-
  Lemmas for C11: (a) the lookup does not depend on the classes of the entities (`reclass`),
  (b) `relpath` is invariant under a change of the common root (the site may be written to / served
  from another place than the base URL names).
-/
import FordModel.Links
import FordModel.LinksSpec
import FordModel.Lemmas.Links
import FordModel.Lemmas.LinkPath
namespace Ford.Links

/-! ### (a) classes are irrelevant to the lookup -/

theorem reclass_get (f : List Anc → List Anc) (P : Project) (id : Nat) :
    (reclass f P).get id = (P.get id).map (reclassEnt f) := by
  simp [reclass, Project.get]

theorem reclass_coll (f : List Anc → List Anc) (P : Project) (a : String) :
    (reclass f P).coll a = P.coll a := rfl

theorem reclass_nameMatches (f : List Anc → List Anc) (P : Project) (n : Str) (id : Nat) :
    nameMatches (reclass f P) n id = nameMatches P n id := by
  unfold nameMatches
  rw [reclass_get]
  cases P.get id <;> simp [reclassEnt]

theorem reclass_findInList (f : List Anc → List Anc) (P : Project) (n : Str) (l : List Item) :
    findInList (reclass f P) n l = findInList P n l := by
  induction l with
  | nil => rfl
  | cons x xs ih =>
    cases x with
    | other => simpa [findInList] using ih
    | ent id => simp only [findInList, reclass_nameMatches, ih]

theorem reclass_iterItems (f : List Anc → List Anc) (e : Ent) (l : List String) :
    iterItems (reclassEnt f e) l = iterItems e l := by
  induction l with
  | nil => rfl
  | cons a rest ih => simp only [iterItems, ih]; rfl

theorem reclass_singleItems (f : List Anc → List Anc) (e : Ent) (l : List String) :
    singleItems (reclassEnt f e) l = singleItems e l := by
  induction l with
  | nil => rfl
  | cons a rest ih => simp only [singleItems, ih]; rfl

theorem reclass_children (f : List Anc → List Anc) (e : Ent) :
    children (reclassEnt f e) = children e := by
  simp [children, reclass_iterItems, reclass_singleItems]

theorem reclass_findChild (f : List Anc → List Anc) (P : Project) (e : Ent) (n : Str) (k : Option Str) :
    findChild (reclass f P) (reclassEnt f e) n k = findChild P e n k := by
  cases k with
  | none => simp [findChild, reclass_children, reclass_findInList]
  | some k =>
    simp only [findChild]
    cases sublinkTypes.lookup (kindKey k) with
    | none => rfl
    | some attr =>
      simp only []
      have : (reclassEnt f e).attrs = e.attrs := rfl
      rw [this]
      cases List.lookup attr e.attrs with
      | none => rfl
      | some v => cases v <;> simp [reclass_findInList]

theorem reclass_projectColl (f : List Anc → List Anc) (P : Project) (k : Option Str) :
    projectColl (reclass f P) k = projectColl P k := by
  cases k <;> simp [projectColl, reclass_coll]

theorem reclass_projectFind (f : List Anc → List Anc) (P : Project) (n : Str) (k c ck : Option Str) :
    projectFind (reclass f P) n k c ck = projectFind P n k c ck := by
  unfold projectFind
  rw [reclass_projectColl]
  cases projectColl P k with
  | error e => rfl
  | ok coll =>
    simp only [reclass_findInList]
    cases hfi : findInList P n coll with
    | none => rfl
    | some id =>
      cases c with
      | none => rfl
      | some ch =>
        simp only [reclass_get]
        cases P.get id with
        | none => rfl
        | some e => simp [reclass_findChild]

theorem reclass_bind_get (f : List Anc → List Anc) (P : Project) (o : Option Nat) :
    o.bind (reclass f P).get = (o.bind P.get).map (reclassEnt f) := by
  cases o <;> simp [reclass_get]

theorem reclass_localLookup (f : List Anc → List Anc) (P : Project) (c : Ent) (r : Ref) :
    localLookup (reclass f P) (reclassEnt f c) r = localLookup P c r := by
  unfold localLookup
  have hp : (reclassEnt f c).parent = c.parent := rfl
  simp only [reclass_findChild, reclass_bind_get, hp]
  cases suppressVE (findChild P c r.name r.kind) with
  | error e => rfl
  | ok i1 =>
    cases i1 with
    | some x =>
      cases c.parent.bind P.get <;> cases r.child <;> cases hx : P.get x <;>
        simp [hx, reclass_findChild]
    | none =>
      cases c.parent.bind P.get with
      | none => cases r.child <;> simp
      | some p =>
        simp only [Option.map_some, reclass_findChild]
        cases suppressVE (findChild P p r.name r.kind) with
        | error e => rfl
        | ok i2 =>
          cases i2 with
          | none => cases r.child <;> simp
          | some j => cases r.child <;> cases hj : P.get j <;> simp [hj, reclass_findChild]

theorem reclass_lookup (f : List Anc → List Anc) (P : Project) (ctx : Option Nat) (r : Ref) :
    lookup (reclass f P) ctx r = lookup P ctx r := by
  unfold lookup
  simp only [reclass_bind_get, reclass_projectFind]
  cases ctx.bind P.get with
  | none => rfl
  | some c => simp only [Option.map_some, reclass_localLookup]

/-! ### (b) `relpath` under a change of the common root -/

theorem relpath_common_root (b t s : Path) : relpath (b ++ t) (b ++ s) = relpath t s := by
  unfold relpath
  simp only [commonLen_append_left, List.length_append]
  have h1 : b.length + s.length - (b.length + commonLen t s) = s.length - commonLen t s := by omega
  have h2 : (b ++ t).drop (b.length + commonLen t s) = t.drop (commonLen t s) := by
    rw [← List.drop_drop]; simp
  rw [h1, h2]

/-- a link computed between two places below one root resolves the same way below any other root -/
theorem resolve_relpath_other_root (b o t s : Path) (hp : Plain (o ++ t)) :
    resolve (o ++ s) (relpath (b ++ t) (b ++ s)) = o ++ t := by
  rw [relpath_common_root b t s, ← relpath_common_root o t s]
  exact resolve_relpath (o ++ t) (o ++ s) hp

end Ford.Links
