/-
  Lemmas for C03: when the nested reader of an included file is handed the enclosing reader's four markers
  unchanged, reading through `include` is C02's `Include.readFS` - every file of the nesting is read under
  the same marker rules.
-/
import FordModel.IncludeMarks
namespace Ford.IncMarks
open Ford Ford.Include

theorem nestedMarks_identity (m : Marks) : nestedMarks [.inl 0, .inl 1, .inl 2, .inl 3] m = m := by
  cases m; rfl

theorem readFSM_eq_readFS (tbl : List (Sum Nat Str)) (h : ∀ m, nestedMarks tbl m = m) (c : Cfg) (fs : FS)
    (d : Nat) (m : Marks) (lines : List Str) :
    readFSM tbl c fs d m lines = readFS c m fs d lines := by
  induction d generalizing lines with
  | zero => rfl
  | succ d ih =>
    simp only [readFSM, readFS, h m]
    congr 1
    funext name
    cases lookupFS fs name with
    | none => rfl
    | some ls => simp only [ih ls]; rfl

end Ford.IncMarks
