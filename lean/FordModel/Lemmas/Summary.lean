import FordModel.Summary
import FordModel.Meta
import FordModel.Lemmas.Admonition
namespace Ford

/-! ### case-insensitive search -/

theorem lower_cons (c : Char) (s : Str) : lower (c :: s) = lowerChar c :: lower s := rfl

theorem startsWithCI_split (s pat : Str) (h : startsWithCI s pat = true) :
    ∃ a b, s = a ++ b ∧ lower a = pat := by
  induction pat generalizing s with
  | nil => exact ⟨[], s, rfl, rfl⟩
  | cons p ps ih =>
    cases s with
    | nil => simp [startsWithCI] at h
    | cons c cs =>
      simp only [startsWithCI, Bool.and_eq_true, beq_iff_eq] at h
      obtain ⟨a, b, hab, hl⟩ := ih cs h.2
      exact ⟨c :: a, b, by simp [hab], by simp [lower_cons, h.1, hl]⟩

theorem startsWithCI_of_lower (a b pat : Str) (h : lower a = pat) : startsWithCI (a ++ b) pat = true := by
  induction a generalizing pat with
  | nil => subst h; cases b <;> rfl
  | cons c cs ih =>
    subst h
    simp [lower_cons, startsWithCI, ih (lower cs) rfl]

/-- what `findCI` returns is an occurrence, and the first one -/
theorem findCI_split (pat s : Str) (i : Nat) (h : findCI pat s = some i) :
    ∃ a m b, s = a ++ m ++ b ∧ a.length = i ∧ lower m = pat ∧
      ∀ k, k < i → startsWithCI (s.drop k) pat = false := by
  induction s generalizing i with
  | nil =>
    cases pat with
    | nil => simp [findCI] at h; subst h; exact ⟨[], [], [], rfl, rfl, rfl, by intro k hk; omega⟩
    | cons p ps => simp [findCI] at h
  | cons c cs ih =>
    by_cases hs : startsWithCI (c :: cs) pat = true
    · simp [findCI, hs] at h
      subst h
      obtain ⟨m, b, hmb, hl⟩ := startsWithCI_split _ _ hs
      exact ⟨[], m, b, by simpa using hmb, rfl, hl, by intro k hk; omega⟩
    · have hs' : startsWithCI (c :: cs) pat = false := by simpa using hs
      cases hf : findCI pat cs with
      | none => simp [findCI, hs', hf] at h
      | some j =>
        simp [findCI, hs', hf] at h
        subst h
        obtain ⟨a, m, b, hab, hlen, hl, hfirst⟩ := ih j hf
        refine ⟨c :: a, m, b, by simp [hab], by simp [hlen], hl, ?_⟩
        intro k hk
        cases k with
        | zero => simpa using hs'
        | succ k' => simpa using hfirst k' (by omega)

/-- an occurrence that nothing before it could start is found -/
theorem findCI_at (pat a m b : Str) (p0 : Char) (ps : Str) (hp : pat = p0 :: ps) (hm : lower m = pat)
    (ha : ∀ c ∈ a, lowerChar c ≠ p0) : findCI pat (a ++ m ++ b) = some a.length := by
  induction a with
  | nil =>
    have hs := startsWithCI_of_lower m b pat hm
    cases hmb : m ++ b with
    | nil =>
      subst hp
      cases m with
      | nil => simp [lower] at hm
      | cons _ _ => simp at hmb
    | cons x xs => simp only [List.nil_append, hmb] at hs ⊢; simp [findCI, hs]
  | cons c cs ih =>
    have hc : lowerChar c ≠ p0 := ha c (by simp)
    have hs : startsWithCI (c :: (cs ++ m ++ b)) pat = false := by
      subst hp; simp [startsWithCI, hc]
    have := ih (fun c' hc' => ha c' (by simp [hc']))
    simp only [List.cons_append, List.append_assoc] at hs this ⊢
    simp [findCI, hs, this]

theorem lowerChar_big_sm (c : Char) (h : ¬ c.toNat < 128) : lowerChar c = c := by
  unfold lowerChar
  have : ¬ ('A' ≤ c ∧ c ≤ 'Z') := by
    intro ⟨_, h2⟩
    apply h
    have h3 : c.val.toNat ≤ ('Z' : Char).val.toNat := UInt32.le_iff_toNat_le.1 (Char.le_def.1 h2)
    have h4 : ('Z' : Char).val.toNat = 90 := by decide
    have h5 : c.toNat = c.val.toNat := rfl
    omega
  simp [this]

theorem lowerChar_eq_lt_ascii : ∀ m, m < 128 → lowerChar (Char.ofNat m) = '<' → Char.ofNat m = '<' := by decide

theorem lowerChar_eq_lt (c : Char) (h : lowerChar c = '<') : c = '<' := by
  by_cases hc : c.toNat < 128
  · have := lowerChar_eq_lt_ascii c.toNat hc
    rw [Char.ofNat_toNat] at this
    exact this h
  · rw [lowerChar_big_sm c hc] at h; exact h

/-! ### `PARA_CAPTURE_RE.search` -/

theorem paraCapture_spec (doc pre para post : Str) (h : paraCapture doc = some (pre, para, post)) :
    doc = pre ++ para ++ post ∧
    ∃ o body c, para = o ++ body ++ c ∧ lower o = pOpen ∧ lower c = pClose ∧
      (∀ k, k < pre.length → startsWithCI (doc.drop k) pOpen = false) ∧
      (∀ k, k < body.length → startsWithCI ((body ++ c ++ post).drop k) pClose = false) := by
  unfold paraCapture at h
  cases h1 : findCI pOpen doc with
  | none => simp [h1] at h
  | some i =>
    cases h2 : findCI pClose (doc.drop (i + 3)) with
    | none => simp [h1, h2] at h
    | some j =>
      simp only [h1, h2, Option.some.injEq, Prod.mk.injEq] at h
      obtain ⟨hpre, hpara, hpost⟩ := h
      obtain ⟨a, o, b, hab, hal, hol, hfirst⟩ := findCI_split _ _ _ h1
      have holen : o.length = 3 := by
        have := congrArg List.length hol; simpa [lower, pOpen] using this
      have hdrop : doc.drop (i + 3) = b := by
        rw [hab, ← hal, ← holen]; simp [List.append_assoc]
      rw [hdrop] at h2
      obtain ⟨body, c, rest, hb, hbl, hcl, hshort⟩ := findCI_split _ _ _ h2
      have hclen : c.length = 4 := by
        have := congrArg List.length hcl; simpa [lower, pClose] using this
      have e1 : pre = a := by rw [← hpre, hab, ← hal]; simp [List.append_assoc]
      have e2 : para = o ++ body ++ c := by
        rw [← hpara, hab, hb, ← hal, ← hbl]
        simp only [List.append_assoc, List.drop_left']
        rw [show 3 + body.length + 4 = (o ++ (body ++ c)).length by simp [holen, hclen]; omega]
        simp [← List.append_assoc]
      have e3 : post = rest := by
        rw [← hpost, hab, hb, ← hal, ← hbl]
        rw [show a.length + (3 + body.length + 4) = (a ++ o ++ (body ++ c)).length by simp [holen, hclen]; omega]
        simp [← List.append_assoc]
      subst e1 e3
      refine ⟨by rw [e2, hab, hb]; simp [List.append_assoc], o, body, c, e2, hol, hcl, ?_, ?_⟩
      · intro k hk; exact hfirst k (by omega)
      · intro k hk
        have := hshort k (by omega)
        rw [hb] at this
        simpa [List.append_assoc] using this

theorem paraCapture_single (body : Str) (hb : '<' ∉ body) :
    paraCapture (pOpen ++ body ++ pClose) = some ([], pOpen ++ body ++ pClose, []) := by
  have h1 : findCI pOpen (pOpen ++ body ++ pClose) = some 0 := by
    have := findCI_at pOpen [] pOpen (body ++ pClose) '<' ['p', '>'] rfl (by decide) (by simp)
    simpa [List.append_assoc] using this
  have h2 : findCI pClose (body ++ pClose) = some body.length := by
    have := findCI_at pClose body pClose [] '<' ['/', 'p', '>'] rfl (by decide) (by
      intro c hc he
      exact hb (lowerChar_eq_lt c he ▸ hc))
    simpa using this
  unfold paraCapture
  simp only [h1]
  have hd : (pOpen ++ body ++ pClose).drop (0 + 3) = body ++ pClose := by simp [pOpen]
  simp only [hd, h2]
  simp [pOpen, pClose]
  exact ⟨List.take_of_length_le (by simp; omega), by omega⟩

/-! ### `textwrap.dedent` keeps the words -/

theorem commonPrefix_left (a b : Str) : ∃ r, a = commonPrefix a b ++ r := by
  induction a generalizing b with
  | nil => exact ⟨[], by simp [commonPrefix]⟩
  | cons x xs ih =>
    cases b with
    | nil => exact ⟨x :: xs, by simp [commonPrefix]⟩
    | cons y ys =>
      by_cases h : x = y
      · obtain ⟨r, hr⟩ := ih ys
        exact ⟨r, by simp only [commonPrefix, h, beq_self_eq_true, ↓reduceIte, List.cons_append]; rw [← h, ← hr]⟩
      · exact ⟨x :: xs, by simp [commonPrefix, h]⟩

theorem commonPrefix_right (a b : Str) : ∃ r, b = commonPrefix a b ++ r := by
  induction a generalizing b with
  | nil => exact ⟨b, by simp [commonPrefix]⟩
  | cons x xs ih =>
    cases b with
    | nil => exact ⟨[], by simp [commonPrefix]⟩
    | cons y ys =>
      by_cases h : x = y
      · obtain ⟨r, hr⟩ := ih ys
        exact ⟨r, by simp only [commonPrefix, h, beq_self_eq_true, ↓reduceIte, List.cons_append]; rw [← hr]⟩
      · exact ⟨y :: ys, by simp [commonPrefix, h]⟩

theorem takeWhile_spTab_blank (l : Str) : isBlank (l.takeWhile isSpTab) = true := by
  induction l with
  | nil => rfl
  | cons c cs ih =>
    by_cases h : isSpTab c = true
    · have hs : isSpace c = true := by
        simp only [isSpTab, Bool.or_eq_true, beq_iff_eq] at h
        rcases h with h | h <;> subst h <;> decide
      simp only [List.takeWhile, h, isBlank, List.all_cons, hs, Bool.true_and]
      simpa [isBlank] using ih
    · simp [List.takeWhile, h, isBlank]

theorem isBlank_prefix (a b : Str) (h : isBlank (a ++ b) = true) : isBlank a = true := by
  simp only [isBlank, List.all_append, Bool.and_eq_true] at h ⊢; exact h.1

/-- the margin is a blank prefix of every non-empty line -/
theorem margin_prefix (ls : List Str) (m : Str) (h : margin ls = some m) :
    isBlank m = true ∧ ∀ l ∈ ls, l ≠ [] → ∃ r, l = m ++ r := by
  induction ls generalizing m with
  | nil => simp [margin] at h
  | cons l ls ih =>
    by_cases hl : l.isEmpty = true
    · simp only [margin, hl, ↓reduceIte] at h
      obtain ⟨hb, hall⟩ := ih m h
      refine ⟨hb, ?_⟩
      intro l' hl' hne
      simp only [List.mem_cons] at hl'
      rcases hl' with e | e
      · subst e; simp at hl; exact absurd hl hne
      · exact hall l' e hne
    · have hl' : l.isEmpty = false := by simpa using hl
      simp only [margin, hl', Bool.false_eq_true, ↓reduceIte] at h
      obtain ⟨tl, htl⟩ : ∃ r, l = l.takeWhile isSpTab ++ r := ⟨l.dropWhile isSpTab, by simp⟩
      cases hm : margin ls with
      | none =>
        simp only [hm, Option.some.injEq] at h
        subst h
        refine ⟨takeWhile_spTab_blank l, ?_⟩
        intro l' hl'' hne
        simp only [List.mem_cons] at hl''
        rcases hl'' with e | e
        · subst e; exact ⟨tl, htl⟩
        · exfalso
          -- margin ls = none means every line of ls is empty
          clear ih htl
          induction ls with
          | nil => simp at e
          | cons x xs ihx =>
            by_cases hx : x.isEmpty = true
            · simp only [margin, hx, ↓reduceIte] at hm
              simp only [List.mem_cons] at e
              rcases e with e | e
              · subst e; simp at hx; exact hne hx
              · exact ihx hm e
            · have hx' : x.isEmpty = false := by simpa using hx
              simp only [margin, hx', Bool.false_eq_true, ↓reduceIte] at hm
              cases hmm : margin xs <;> simp [hmm] at hm
      | some m' =>
        simp only [hm, Option.some.injEq] at h
        subst h
        obtain ⟨hb', hall⟩ := ih m' hm
        obtain ⟨r1, hr1⟩ := commonPrefix_left (l.takeWhile isSpTab) m'
        obtain ⟨r2, hr2⟩ := commonPrefix_right (l.takeWhile isSpTab) m'
        refine ⟨isBlank_prefix _ r2 (by rw [← hr2]; exact hb'), ?_⟩
        intro l' hl'' hne
        simp only [List.mem_cons] at hl''
        rcases hl'' with e | e
        · subst e
          exact ⟨r1 ++ tl, by rw [← List.append_assoc, ← hr1]; exact htl⟩
        · obtain ⟨r, hr⟩ := hall l' e hne
          exact ⟨r2 ++ r, by rw [← List.append_assoc, ← hr2]; exact hr⟩

theorem words_allSpTab (l : Str) (h : l.all isSpTab = true) : words l = [] := by
  apply words_blank
  simp only [isBlank, List.all_eq_true] at h ⊢
  intro c hc
  have := h c hc
  simp only [isSpTab, Bool.or_eq_true, beq_iff_eq] at this
  rcases this with e | e <;> subst e <;> decide

theorem dedent_words (ls : List Str) : W (dedent ls) = W ls := by
  have hclean : W (ls.map (fun l => if l.all isSpTab then [] else l)) = W ls := by
    induction ls with
    | nil => rfl
    | cons l ls ih =>
      simp only [List.map_cons, W_cons, ih]
      by_cases h : l.all isSpTab = true
      · simp [h, words_allSpTab l h, words_nil]
      · simp [h]
  unfold dedent
  simp only
  cases hm : margin (ls.map (fun l => if l.all isSpTab then [] else l)) with
  | none => simpa using hclean
  | some m =>
    simp only
    rw [← hclean]
    obtain ⟨hb, hall⟩ := margin_prefix _ m hm
    generalize ls.map (fun l => if l.all isSpTab then [] else l) = ls' at hall ⊢
    induction ls' with
    | nil => rfl
    | cons l ls ih =>
      simp only [List.map_cons, W_cons]
      rw [ih (fun l' hl' => hall l' (by simp [hl']))]
      congr 1
      by_cases he : l.isEmpty = true
      · simp [he]
      · have hne : l ≠ [] := by intro e; subst e; simp at he
        obtain ⟨r, hr⟩ := hall l (by simp) hne
        simp only [he, Bool.false_eq_true, ↓reduceIte]
        rw [hr, List.drop_left' rfl, words_blank_append m r hb]

end Ford
