/-
  Lemmas about the external-project model (FordModel/External.lean).
-/
import FordModel.External
namespace Ford.Ext
open Ford

/-! ### association lists and `orderByTable` -/

theorem lookup_map_snd {β γ : Type} (f : β → γ) (xs : List (Str × β)) (a : Str) :
    (xs.map (fun kv => (kv.1, f kv.2))).lookup a = (xs.lookup a).map f := by
  induction xs with
  | nil => simp [List.lookup]
  | cons x r ih =>
    obtain ⟨k, v⟩ := x
    by_cases h : a == k
    · simp [List.lookup, h]
    · simp [List.lookup, h, ih]

theorem lookup_append {β : Type} (xs ys : List (Str × β)) (a : Str) :
    (xs ++ ys).lookup a = ((xs.lookup a).or (ys.lookup a)) := by
  induction xs with
  | nil => simp [List.lookup]
  | cons x r ih =>
    obtain ⟨k, v⟩ := x
    by_cases h : a == k
    · simp [List.lookup, h]
    · simp [List.lookup, h, ih]

theorem orderByTable_nil {α : Type} (xs : List (Str × α)) : orderByTable [] xs = [] := rfl

theorem orderByTable_cons {α : Type} (t : Str) (tbl : List Str) (xs : List (Str × α)) :
    orderByTable (t :: tbl) xs =
      (match xs.lookup t with
       | some v => (t, v) :: orderByTable tbl xs
       | none => orderByTable tbl xs) := by
  unfold orderByTable
  cases h : xs.lookup t <;> simp [List.filterMap_cons, h]

theorem lookup_orderByTable {α : Type} (tbl : List Str) (xs : List (Str × α)) (a : Str) :
    (orderByTable tbl xs).lookup a = if a ∈ tbl then xs.lookup a else none := by
  induction tbl with
  | nil => simp [orderByTable_nil, List.lookup]
  | cons t tbl ih =>
    rw [orderByTable_cons]
    by_cases hat : a = t
    · subst hat
      cases h : xs.lookup a with
      | none => simp [ih, h]
      | some v => simp [List.lookup, h]
    · have hb : (a == t) = false := by simp [hat]
      cases h : xs.lookup t with
      | none => simp [ih, hat]
      | some v => simp [List.lookup, hb, ih, hat]

theorem orderByTable_congr {α : Type} (tbl : List Str) (xs ys : List (Str × α))
    (h : ∀ a ∈ tbl, xs.lookup a = ys.lookup a) : orderByTable tbl xs = orderByTable tbl ys := by
  induction tbl with
  | nil => rfl
  | cons t tbl ih =>
    rw [orderByTable_cons, orderByTable_cons, h t (by simp), ih (fun a ha => h a (by simp [ha]))]

theorem orderByTable_map_snd {β γ : Type} (f : β → γ) (tbl : List Str) (xs : List (Str × β)) :
    orderByTable tbl (xs.map (fun kv => (kv.1, f kv.2))) =
      (orderByTable tbl xs).map (fun kv => (kv.1, f kv.2)) := by
  induction tbl with
  | nil => rfl
  | cons t tbl ih =>
    rw [orderByTable_cons, orderByTable_cons, lookup_map_snd]
    cases h : xs.lookup t <;> simp [ih]

/-- keys of `orderByTable` are exactly the table entries that have a value, in table order -/
theorem keys_orderByTable {α : Type} (tbl : List Str) (xs : List (Str × α)) :
    (orderByTable tbl xs).map (·.1) = tbl.filter (fun a => (xs.lookup a).isSome) := by
  induction tbl with
  | nil => rfl
  | cons t tbl ih =>
    rw [orderByTable_cons]
    cases h : xs.lookup t <;> simp [List.filter_cons, h, ih]

theorem sequencePairs_ok {α : Type} (ys : List (Str × α)) :
    sequencePairs (ys.map (fun kv => (kv.1, (Except.ok kv.2 : Except XErr α)))) = .ok ys := by
  induction ys with
  | nil => rfl
  | cons y r ih =>
    obtain ⟨k, v⟩ := y
    simp [sequencePairs, ih]

end Ford.Ext
