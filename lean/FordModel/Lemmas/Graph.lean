import FordModel.Graph
namespace Ford.Graph

/-! ### list-as-set helpers -/

theorem mem_dedup {a : Node} {l : List Node} : a ∈ dedup l ↔ a ∈ l := by
  induction l with
  | nil => simp [dedup]
  | cons b r ih =>
    by_cases h : b ∈ r
    · simp only [dedup, List.contains_eq_mem, h, decide_true, if_true, ih, List.mem_cons]
      constructor
      · exact Or.inr
      · rintro (rfl | h')
        · exact h
        · exact h'
    · simp [dedup, h, ih]

theorem nodup_dedup (l : List Node) : (dedup l).Nodup := by
  induction l with
  | nil => simp [dedup]
  | cons b r ih =>
    by_cases h : b ∈ r
    · simp [dedup, h, ih]
    · simp [dedup, h, ih, mem_dedup]

theorem length_dedup_le (l : List Node) : (dedup l).length ≤ l.length := by
  induction l with
  | nil => simp [dedup]
  | cons b r ih =>
    by_cases h : b ∈ r
    · simp [dedup, h]; omega
    · simp [dedup, h]; omega

theorem mem_union {a : Node} {x y : List Node} : a ∈ union x y ↔ a ∈ x ∨ a ∈ y := by
  simp only [union, List.mem_append, List.mem_filter]
  constructor
  · rintro (h | ⟨h, _⟩)
    · exact Or.inl h
    · exact Or.inr h
  · rintro (h | h)
    · exact Or.inl h
    · by_cases hx : a ∈ x
      · exact Or.inl hx
      · exact Or.inr ⟨h, by simpa using hx⟩

theorem length_union_le (x y : List Node) : (union x y).length ≤ x.length + y.length := by
  simp only [union, List.length_append]
  have := List.length_filter_le (fun a => !x.contains a) y
  omega

theorem nodup_union {x y : List Node} (hx : x.Nodup) (hy : y.Nodup) : (union x y).Nodup := by
  simp only [union]
  rw [List.nodup_append]
  refine ⟨hx, hy.filter _, ?_⟩
  intro a ha b hb hab
  subst hab
  simp [List.mem_filter] at hb
  exact hb.2 ha

/-! ### one hop -/

/-- every endpoint of an edge produced for `n` is `n` or the candidate that comes with it -/
def WF (succ : Node → List (Node × Edge)) : Prop :=
  ∀ n c e, (c, e) ∈ succ n → (e.tail = n ∧ e.head = c) ∨ (e.tail = c ∧ e.head = n)

def succN (succ : Node → List (Node × Edge)) (n : Node) : List Node := (succ n).map Prod.fst

theorem mem_hopEdges {cfg : Cfg} {nodes : List Node} {e : Edge} :
    e ∈ hopEdgesOf cfg nodes ↔ ∃ n ∈ nodes, ∃ c, (c, e) ∈ cfg.succ n := by
  simp only [hopEdgesOf, cands, List.mem_map, List.mem_flatMap, Prod.exists]
  constructor
  · rintro ⟨c, e', ⟨n, hn, h⟩, rfl⟩; exact ⟨n, hn, c, h⟩
  · rintro ⟨n, hn, c, h⟩; exact ⟨c, e, ⟨n, hn, h⟩, rfl⟩

theorem mem_hopOf {cfg : Cfg} {added nodes : List Node} {c : Node} :
    c ∈ hopOf cfg added nodes ↔
      (∃ n ∈ nodes, c ∈ succN cfg.succ n) ∧ (cfg.filterAdded = true → c ∉ added) := by
  simp only [hopOf, mem_dedup, List.mem_filter, cands, List.mem_map, List.mem_flatMap, succN,
    Prod.exists]
  constructor
  · rintro ⟨⟨c', e, ⟨n, hn, h⟩, rfl⟩, hf⟩
    refine ⟨⟨n, hn, c', e, h, rfl⟩, ?_⟩
    intro hfa; simpa [hfa] using hf
  · rintro ⟨⟨n, hn, c', e, h, rfl⟩, hf⟩
    refine ⟨⟨c', e, ⟨n, hn, h⟩, rfl⟩, ?_⟩
    by_cases hfa : cfg.filterAdded = true
    · simpa [hfa] using hf hfa
    · simp [hfa]

/-- a candidate of the hop ends up in the node set whether or not it passed the filter -/
theorem cand_mem_union {cfg : Cfg} {added nodes : List Node} {n c : Node}
    (hn : n ∈ nodes) (hc : c ∈ succN cfg.succ n) : c ∈ union added (hopOf cfg added nodes) := by
  rw [mem_union]
  by_cases h : c ∈ added
  · exact Or.inl h
  · exact Or.inr (mem_hopOf.2 ⟨⟨n, hn, hc⟩, fun _ => h⟩)

def EdgesClosed (st : GState) : Prop := ∀ e ∈ st.edges, e.tail ∈ st.added ∧ e.head ∈ st.added

theorem closed_step {cfg : Cfg} (hwf : WF cfg.succ) {nodes : List Node} {st : GState}
    (h1 : EdgesClosed st) (h2 : ∀ n ∈ nodes, n ∈ st.added) :
    EdgesClosed { st with added := union st.added (hopOf cfg st.added nodes),
                          edges := st.edges ++ hopEdgesOf cfg nodes } := by
  intro e he
  simp only [List.mem_append] at he
  rcases he with he | he
  · exact ⟨mem_union.2 (Or.inl (h1 e he).1), mem_union.2 (Or.inl (h1 e he).2)⟩
  · obtain ⟨n, hn, c, hc⟩ := mem_hopEdges.1 he
    have hcN : c ∈ succN cfg.succ n := by
      simp only [succN, List.mem_map, Prod.exists]; exact ⟨c, e, hc, rfl⟩
    have hcu := cand_mem_union (cfg := cfg) (added := st.added) hn hcN
    have hnu : n ∈ union st.added (hopOf cfg st.added nodes) := mem_union.2 (Or.inl (h2 n hn))
    rcases hwf n c e hc with ⟨ht, hh⟩ | ⟨ht, hh⟩
    · simp only [ht, hh]; exact ⟨hnu, hcu⟩
    · simp only [ht, hh]; exact ⟨hcu, hnu⟩

theorem hop_sub_union {cfg : Cfg} {added nodes : List Node} :
    ∀ n ∈ hopOf cfg added nodes, n ∈ union added (hopOf cfg added nodes) :=
  fun _ hn => mem_union.2 (Or.inr hn)

/-- **Edge closure** is an invariant of `add_nodes`. -/
theorem addNodes_closed (cfg : Cfg) (hwf : WF cfg.succ) (nodes : List Node) (nesting : Nat)
    (st : GState) (h1 : EdgesClosed st) (h2 : ∀ n ∈ nodes, n ∈ st.added) :
    EdgesClosed (addNodes cfg nodes nesting st) := by
  fun_induction addNodes cfg nodes nesting st
  case case1 => exact h1
  case case2 => exact closed_step hwf h1 h2
  case case3 ih => exact ih (closed_step hwf h1 h2) hop_sub_union
  case case4 => exact closed_step hwf h1 h2
  case case5 => exact closed_step hwf h1 h2


/-! ### size limit -/

theorem hopOf_nodup (cfg : Cfg) (added nodes : List Node) : (hopOf cfg added nodes).Nodup :=
  nodup_dedup _

theorem addNodes_limit (cfg : Cfg) (nodes : List Node) (nesting : Nat) (st : GState) (B : Nat)
    (hB : cfg.maxNodes ≤ B) (h : st.added.length ≤ B) :
    (addNodes cfg nodes nesting st).added.length ≤ B := by
  fun_induction addNodes cfg nodes nesting st
  case case1 => exact h
  case case2 nodes nesting st hop hle st' hnest hemp =>
    have := length_union_le st.added hop
    show (union st.added hop).length ≤ B
    omega
  case case3 nodes nesting st hop hle st' hnest hemp hlt ih =>
    apply ih
    have := length_union_le st.added hop
    show (union st.added hop).length ≤ B
    omega
  case case4 nodes nesting st hop hle st' hnest hemp hge =>
    have := length_union_le st.added hop
    show (union st.added hop).length ≤ B
    omega
  case case5 nodes nesting st hop hle st' hnn =>
    have := length_union_le st.added hop
    show (union st.added hop).length ≤ B
    omega

theorem addNodes_nodup (cfg : Cfg) (nodes : List Node) (nesting : Nat) (st : GState)
    (h : st.added.Nodup) : (addNodes cfg nodes nesting st).added.Nodup := by
  fun_induction addNodes cfg nodes nesting st
  case case1 => exact h
  case case2 => exact nodup_union h (hopOf_nodup _ _ _)
  case case3 ih => exact ih (nodup_union h (hopOf_nodup _ _ _))
  case case4 => exact nodup_union h (hopOf_nodup _ _ _)
  case case5 => exact nodup_union h (hopOf_nodup _ _ _)

/-! ### reachability -/

/-- `Reach s roots k n`: there is a path of exactly `k` steps of `s` from a root to `n` -/
inductive Reach (s : Node → List Node) (roots : List Node) : Nat → Node → Prop
  | root {n : Node} : n ∈ roots → Reach s roots 0 n
  | step {k : Nat} {m c : Node} : Reach s roots k m → c ∈ s m → Reach s roots (k + 1) c

/-- reachable within `d` steps -/
def ReachLe (s : Node → List Node) (roots : List Node) (d : Nat) (n : Node) : Prop :=
  ∃ k, k ≤ d ∧ Reach s roots k n

theorem ReachLe.mono {s roots d d' n} (h : ReachLe s roots d n) (hd : d ≤ d') : ReachLe s roots d' n := by
  obtain ⟨k, hk, hr⟩ := h; exact ⟨k, by omega, hr⟩

theorem ReachLe.step {s roots d m c} (h : ReachLe s roots d m) (hc : c ∈ s m) :
    ReachLe s roots (d + 1) c := by
  obtain ⟨k, hk, hr⟩ := h; exact ⟨k + 1, by omega, .step hr hc⟩

theorem union_sound {cfg : Cfg} {roots nodes : List Node} {j : Nat} {st : GState} (hj1 : 1 ≤ j)
    (hA : ∀ n ∈ st.added, ReachLe (succN cfg.succ) roots (j - 1) n)
    (hN : ∀ n ∈ nodes, ReachLe (succN cfg.succ) roots (j - 1) n) :
    ∀ n ∈ union st.added (hopOf cfg st.added nodes), ReachLe (succN cfg.succ) roots j n := by
  intro n hn
  rcases mem_union.1 hn with h | h
  · exact (hA n h).mono (by omega)
  · obtain ⟨⟨m, hm, hc⟩, _⟩ := mem_hopOf.1 h
    have := (hN m hm).step hc
    have e : j - 1 + 1 = j := by omega
    rwa [e] at this

/-- **Soundness** of `add_nodes`: nothing farther than the depth bound is ever added. -/
theorem addNodes_sound (cfg : Cfg) (roots nodes : List Node) (j : Nat) (st : GState) (D : Nat)
    (hj1 : 1 ≤ j) (hj : j ≤ D) (hm : cfg.nested = true → cfg.maxNesting ≤ D)
    (hA : ∀ n ∈ st.added, ReachLe (succN cfg.succ) roots (j - 1) n)
    (hN : ∀ n ∈ nodes, ReachLe (succN cfg.succ) roots (j - 1) n) :
    ∀ n ∈ (addNodes cfg nodes j st).added, ReachLe (succN cfg.succ) roots D n := by
  fun_induction addNodes cfg nodes j st
  case case1 => intro n hn; exact (hA n hn).mono (by omega)
  case case2 => intro n hn; exact (union_sound hj1 hA hN n hn).mono hj
  case case3 nodes j st hop hle st' hnest hemp hlt ih =>
    apply ih (by omega) (by have := hm hnest; omega)
    · intro n hn
      have e : j + 1 - 1 = j := by omega
      rw [e]; exact union_sound hj1 hA hN n hn
    · intro n hn
      have e : j + 1 - 1 = j := by omega
      rw [e]; exact union_sound hj1 hA hN n (mem_union.2 (Or.inr hn))
  case case4 => intro n hn; exact (union_sound hj1 hA hN n hn).mono hj
  case case5 => intro n hn; exact (union_sound hj1 hA hN n hn).mono hj

/-! ### completeness -/

theorem union_complete {cfg : Cfg} {roots nodes : List Node} {j : Nat} {st : GState} (hj1 : 1 ≤ j)
    (hB : ∀ n, ReachLe (succN cfg.succ) roots (j - 1) n → n ∈ st.added)
    (hC : ∀ m ∈ st.added, m ∉ nodes → ∀ c ∈ succN cfg.succ m, c ∈ st.added) :
    ∀ n, ReachLe (succN cfg.succ) roots j n → n ∈ union st.added (hopOf cfg st.added nodes) := by
  rintro n ⟨k, hk, hr⟩
  cases hr with
  | root h => exact mem_union.2 (Or.inl (hB n ⟨0, by omega, .root h⟩))
  | @step k' m _ hm hc =>
    have hmA : m ∈ st.added := hB m ⟨k', by omega, hm⟩
    by_cases hmn : m ∈ nodes
    · exact cand_mem_union hmn hc
    · exact mem_union.2 (Or.inl (hC m hmA hmn n hc))

theorem union_frontier {cfg : Cfg} {nodes : List Node} {st : GState}
    (hC : ∀ m ∈ st.added, m ∉ nodes → ∀ c ∈ succN cfg.succ m, c ∈ st.added) :
    ∀ m ∈ union st.added (hopOf cfg st.added nodes), m ∉ hopOf cfg st.added nodes →
      ∀ c ∈ succN cfg.succ m, c ∈ union st.added (hopOf cfg st.added nodes) := by
  intro m hm hmh c hc
  have hmA : m ∈ st.added := by
    rcases mem_union.1 hm with h | h
    · exact h
    · exact absurd h hmh
  by_cases hmn : m ∈ nodes
  · exact cand_mem_union hmn hc
  · exact mem_union.2 (Or.inl (hC m hmA hmn c hc))

/-- a set that contains the roots and is closed under `s` contains everything reachable -/
theorem closed_contains_reach {s : Node → List Node} {roots : List Node} {A : List Node}
    (hr : ∀ n ∈ roots, n ∈ A) (hc : ∀ m ∈ A, ∀ c ∈ s m, c ∈ A) :
    ∀ k n, Reach s roots k n → n ∈ A := by
  intro k n h
  induction h with
  | root h => exact hr _ h
  | step _ hc' ih => exact hc _ ih _ hc'

/-- **Completeness** of `add_nodes`: unless `add_to_graph` refused a hop, everything within
    the depth bound is in the graph. -/
theorem addNodes_complete (cfg : Cfg) (roots nodes : List Node) (j : Nat) (st : GState)
    (hj1 : 1 ≤ j)
    (hB : ∀ n, ReachLe (succN cfg.succ) roots (j - 1) n → n ∈ st.added)
    (hC : ∀ m ∈ st.added, m ∉ nodes → ∀ c ∈ succN cfg.succ m, c ∈ st.added)
    (hcut : (addNodes cfg nodes j st).cutBySize = false) :
    ∀ d n, (cfg.nested = true → d ≤ max j cfg.maxNesting) → (cfg.nested = false → d ≤ j) →
      ReachLe (succN cfg.succ) roots d n → n ∈ (addNodes cfg nodes j st).added := by
  fun_induction addNodes cfg nodes j st
  case case1 => simp at hcut
  case case2 nodes j st hop hle st' hnest hemp =>
    intro d n _ _ ⟨k, _, hr⟩
    have hempty : hopOf cfg st.added nodes = [] := by simpa using hemp
    refine closed_contains_reach (s := succN cfg.succ) (roots := roots) ?_ ?_ k n hr
    · intro r hr'
      exact mem_union.2 (Or.inl (hB r ⟨0, by omega, .root hr'⟩))
    · intro m hm c hc
      exact union_frontier hC m hm (by rw [hempty]; simp) c hc
  case case3 nodes j st hop hle st' hnest hemp hlt ih =>
    intro d n h1 h2 hr
    refine ih (by omega) ?_ ?_ hcut d n ?_ ?_ hr
    · intro n hn
      have e : j + 1 - 1 = j := by omega
      rw [e] at hn
      exact union_complete hj1 hB hC n hn
    · exact union_frontier hC
    · intro hn; have := h1 hn; omega
    · intro hn; simp [hnest] at hn
  case case4 nodes j st hop hle st' hnest hemp hge =>
    intro d n h1 _ hr
    have : d ≤ j := by have := h1 hnest; omega
    exact union_complete hj1 hB hC n (hr.mono this)
  case case5 nodes j st hop hle st' hnn =>
    intro d n _ h2 hr
    have : d ≤ j := h2 (by simpa using hnn)
    exact union_complete hj1 hB hC n (hr.mono this)

/-! ### edges: nothing invented, nothing lost, one arrow per relation (round 6) -/

/-- the edges drawn so far all come from `add_node` of some node -/
def EdgesFrom (cfg : Cfg) (st : GState) : Prop := ∀ e ∈ st.edges, ∃ n c, (c, e) ∈ cfg.succ n

theorem edgesFrom_step {cfg : Cfg} {nodes : List Node} {st : GState} (h : EdgesFrom cfg st) :
    EdgesFrom cfg { st with added := union st.added (hopOf cfg st.added nodes),
                            edges := st.edges ++ hopEdgesOf cfg nodes } := by
  intro e he
  simp only [List.mem_append] at he
  rcases he with he | he
  · exact h e he
  · obtain ⟨n, _, c, hc⟩ := mem_hopEdges.1 he; exact ⟨n, c, hc⟩

/-- **No edge is invented**: `add_to_graph` only ever writes edges that `add_node` produced. -/
theorem addNodes_edges_sound (cfg : Cfg) (nodes : List Node) (nesting : Nat) (st : GState)
    (h : EdgesFrom cfg st) : EdgesFrom cfg (addNodes cfg nodes nesting st) := by
  fun_induction addNodes cfg nodes nesting st
  case case1 => exact h
  case case2 => exact edgesFrom_step h
  case case3 ih => exact ih (edgesFrom_step h)
  case case4 => exact edgesFrom_step h
  case case5 => exact edgesFrom_step h

/-- one accepted hop: every node that was drawn before the hop has all its edges afterwards -/
theorem edges_step {cfg : Cfg} {nodes : List Node} {st : GState}
    (hE : ∀ m ∈ st.added, m ∉ nodes → ∀ c e, (c, e) ∈ cfg.succ m → e ∈ st.edges)
    {m : Node} (hm : m ∈ st.added) {c : Node} {e : Edge} (he : (c, e) ∈ cfg.succ m) :
    e ∈ st.edges ++ hopEdgesOf cfg nodes := by
  by_cases hmn : m ∈ nodes
  · exact List.mem_append.2 (Or.inr (mem_hopEdges.2 ⟨m, hmn, c, he⟩))
  · exact List.mem_append.2 (Or.inl (hE m hm hmn c e he))

/-- **No edge is lost**: unless `add_to_graph` refused a hop, every edge `add_node` produces for a
    node closer to the roots than the depth bound is in the graph — *every* one: when two relations
    join the same ordered pair of nodes, `add_node` produces two edges and both are written. -/
theorem addNodes_edges_complete (cfg : Cfg) (roots nodes : List Node) (j : Nat) (st : GState)
    (hj1 : 1 ≤ j)
    (hB : ∀ n, ReachLe (succN cfg.succ) roots (j - 1) n → n ∈ st.added)
    (hC : ∀ m ∈ st.added, m ∉ nodes → ∀ c ∈ succN cfg.succ m, c ∈ st.added)
    (hE : ∀ m ∈ st.added, m ∉ nodes → ∀ c e, (c, e) ∈ cfg.succ m → e ∈ st.edges)
    (hcut : (addNodes cfg nodes j st).cutBySize = false) :
    ∀ d n, (cfg.nested = true → d + 1 ≤ max j cfg.maxNesting) → (cfg.nested = false → d + 1 ≤ j) →
      ReachLe (succN cfg.succ) roots d n →
      ∀ c e, (c, e) ∈ cfg.succ n → e ∈ (addNodes cfg nodes j st).edges := by
  fun_induction addNodes cfg nodes j st
  case case1 => simp at hcut
  case case2 nodes j st hop hle st' hnest hemp =>
    intro d n _ _ ⟨k, _, hr⟩ c e he
    have hempty : hopOf cfg st.added nodes = [] := by simpa using hemp
    have hn : n ∈ union st.added (hopOf cfg st.added nodes) := by
      refine closed_contains_reach (s := succN cfg.succ) (roots := roots) ?_ ?_ k n hr
      · intro r hr'
        exact mem_union.2 (Or.inl (hB r ⟨0, by omega, .root hr'⟩))
      · intro m hm c hc
        exact union_frontier hC m hm (by rw [hempty]; simp) c hc
    have hnA : n ∈ st.added := by
      rcases mem_union.1 hn with h | h
      · exact h
      · rw [hempty] at h; simp at h
    exact edges_step hE hnA he
  case case3 nodes j st hop hle st' hnest hemp hlt ih =>
    intro d n h1 h2 hr c e he
    refine ih (by omega) ?_ ?_ ?_ hcut d n ?_ ?_ hr c e he
    · intro n hn
      have e : j + 1 - 1 = j := by omega
      rw [e] at hn
      exact union_complete hj1 hB hC n hn
    · exact union_frontier hC
    · intro m hm hmh c e he
      have hmA : m ∈ st.added := by
        rcases mem_union.1 hm with h | h
        · exact h
        · exact absurd h hmh
      exact edges_step hE hmA he
    · intro hn; have := h1 hn; omega
    · intro hn; simp [hnest] at hn
  case case4 nodes j st hop hle st' hnest hemp hge =>
    intro d n h1 _ hr c e he
    have hd : d ≤ j - 1 := by have := h1 hnest; omega
    exact edges_step hE (hB n (hr.mono hd)) he
  case case5 nodes j st hop hle st' hnn =>
    intro d n _ h2 hr c e he
    have hd : d ≤ j - 1 := by have := h2 (by simpa using hnn); omega
    exact edges_step hE (hB n (hr.mono hd)) he

/-! ### the table fall-back: rows and the cell of the root (round 6) -/

theorem dedup_of_nodup {l : List Node} (h : l.Nodup) : dedup l = l := by
  induction l with
  | nil => simp [dedup]
  | cons a r ih =>
    rw [List.nodup_cons] at h
    simp [dedup, h.1, ih h.2]

/-- a hop in which every candidate is new and occurs once has as many nodes as edges -/
theorem hop_lengths_eq {cfg : Cfg} {added nodes : List Node}
    (hd : ((cands cfg.succ nodes).map Prod.fst).Nodup)
    (hn : ∀ c ∈ (cands cfg.succ nodes).map Prod.fst, c ∉ added) :
    (hopOf cfg added nodes).length = (hopEdgesOf cfg nodes).length := by
  have hf : ((cands cfg.succ nodes).map Prod.fst).filter (fun c => !cfg.filterAdded || !added.contains c)
      = (cands cfg.succ nodes).map Prod.fst := by
    apply List.filter_eq_self.2
    intro c hc
    have := hn c hc
    simp [this]
  simp only [hopOf, hopEdgesOf, hf, dedup_of_nodup hd, List.length_map]

/-- ... and never more nodes than edges -/
theorem hop_length_le {cfg : Cfg} {added nodes : List Node} :
    (hopOf cfg added nodes).length ≤ (hopEdgesOf cfg nodes).length := by
  simp only [hopOf, hopEdgesOf, List.length_map]
  refine Nat.le_trans (length_dedup_le _) ?_
  refine Nat.le_trans (List.length_filter_le _ _) ?_
  simp

end Ford.Graph
