/-
  Every entity reachable in the exported tree is among the entities appended to
  the importing project's lists.
-/
import FordModel.Lemmas.ExternalRT
namespace Ford.Ext
open Ford

theorem mem_orderByTable {α : Type} (tbl : List Str) (xs : List (Str × α)) (k : Str) (v : α)
    (hk : k ∈ tbl) (hv : xs.lookup k = some v) : (k, v) ∈ orderByTable tbl xs := by
  induction tbl with
  | nil => simp at hk
  | cons t tbl ih =>
    rw [orderByTable_cons]
    by_cases h : k = t
    · subst h; simp [hv]
    · have : k ∈ tbl := by simpa [h] using hk
      cases ht : xs.lookup t <;> simp [ih this]

theorem entriesAttrs_mem (ys : List (Str × XAttr)) (k : Str) (v : XAttr) (h : (k, v) ∈ ys)
    (x : Entry) (hx : x ∈ entriesAttr v) : x ∈ entriesAttrs ys := by
  induction ys with
  | nil => simp at h
  | cons y r ih =>
    obtain ⟨k', v'⟩ := y
    simp only [entriesAttrs, List.mem_append]
    rcases List.mem_cons.mp h with h | h
    · left; cases h; exact hx
    · right; exact ih h

theorem entriesList_mem (os : List XObj) (o : XObj) (h : o ∈ os) (x : Entry) (hx : x ∈ entriesOf o) :
    x ∈ entriesList os := by
  induction os with
  | nil => simp at h
  | cons y r ih =>
    simp only [entriesList, List.mem_append]
    rcases List.mem_cons.mp h with h | h
    · left; subst h; exact hx
    · right; exact ih h

theorem entriesDict_mem (os : List (Str × XObj)) (k : Str) (o : XObj) (h : (k, o) ∈ os) (x : Entry)
    (hx : x ∈ entriesOf o) : x ∈ entriesDict os := by
  induction os with
  | nil => simp at h
  | cons y r ih =>
    obtain ⟨k', o'⟩ := y
    simp only [entriesDict, List.mem_append]
    rcases List.mem_cons.mp h with h | h
    · left; cases h; exact hx
    · right; exact ih h

theorem specList_mem (b : Base) (q : Option Json) (xs : List Ent) (c : Ent) (h : c ∈ xs)
    (hk : keep c = true) : specE b q c ∈ specList b q xs := by
  induction xs with
  | nil => simp at h
  | cons y r ih =>
    rcases List.mem_cons.mp h with h | h
    · subst h; simp [specList, hk]
    · by_cases hy : keep y = true <;> simp [specList, hy, ih h]

theorem specDict_mem (b : Base) (q : Option Json) (kvs : List (Str × Ent)) (key : Str) (c : Ent)
    (h : (key, c) ∈ kvs) (hk : keep c = true) : (key, specE b q c) ∈ specDict b q kvs := by
  induction kvs with
  | nil => simp at h
  | cons y r ih =>
    obtain ⟨k', c'⟩ := y
    rcases List.mem_cons.mp h with h | h
    · cases h; simp [specDict, hk]
    · by_cases hy : keep c' = true <;> simp [specDict, hy, ih h]

theorem lookup_specAttrs (b : Base) (q : Option Json) (attrs : List (Str × Attr)) (k : Str) :
    (specAttrs b q attrs).lookup k = (attrs.lookup k).map (specAttr b q) := by
  rw [specAttrs_eq_map, lookup_map_snd]

/-- something that reaches a node is a node itself, hence kept -/
theorem reach_node_keep (c e : Ent) (h : Reach c e) (name : Str) (url : Option Str) (obj : Str)
    (pt : Option Str) (attrs : List (Str × Attr)) (he : e = .node name url obj pt attrs) : keep c = true := by
  cases h with
  | refl => subst he; rfl
  | list => rfl
  | dict => rfl

/-- the list a kind is appended to -/
def listOf (cls : Str) : Str := ((Gen.entities.lookup cls).map (·.1)).getD []

theorem reach_entries (b : Base) (root e : Ent) (h : Reach root e) :
    ∀ (name : Str) (url : Option Str) (obj : Str) (pt : Option Str) (attrs : List (Str × Attr)),
      e = .node name url obj pt attrs → ∀ p : Option Json,
      ∃ x ∈ entriesOf (specE b p root),
        x.name = .str name ∧ x.cls = kindOf obj pt ∧ x.list = listOf (kindOf obj pt)
          ∧ x.url = .str (rebase b (urlText url)) := by
  induction h with
  | refl e =>
    intro name url obj pt attrs he p
    subst he
    refine ⟨{ list := listOf (kindOf obj pt), cls := kindOf obj pt, name := .str name,
              url := .str (rebase b (urlText url)), parent := p }, ?_, rfl, rfl, rfl, rfl⟩
    simp [specE, entriesOf, listOf]
  | list rn ru ro rpt rattrs k xs c e hk hl hc hr ih =>
    intro name url obj pt attrs he p
    obtain ⟨x, hx, hprops⟩ := ih name url obj pt attrs he (some (.str rn))
    refine ⟨x, ?_, hprops⟩
    have hkeep := reach_node_keep c e hr name url obj pt attrs he
    have h1 : x ∈ entriesList (specList b (some (.str rn)) xs) :=
      entriesList_mem _ _ (specList_mem b _ xs c hc hkeep) x hx
    have h2 : (k, XAttr.list (specList b (some (.str rn)) xs))
        ∈ orderByTable Gen.attributes (specAttrs b (some (.str rn)) rattrs) := by
      apply mem_orderByTable _ _ _ _ hk
      rw [lookup_specAttrs, hl]; simp [specAttr]
    simp only [specE, entriesOf, List.mem_cons]
    right
    exact entriesAttrs_mem _ _ _ h2 x (by simpa [entriesAttr] using h1)
  | dict rn ru ro rpt rattrs k kvs key c e hk hl hc hr ih =>
    intro name url obj pt attrs he p
    obtain ⟨x, hx, hprops⟩ := ih name url obj pt attrs he (some (.str rn))
    refine ⟨x, ?_, hprops⟩
    have hkeep := reach_node_keep c e hr name url obj pt attrs he
    have h1 : x ∈ entriesDict (specDict b (some (.str rn)) kvs) :=
      entriesDict_mem _ _ _ (specDict_mem b _ kvs key c hc hkeep) x hx
    have h2 : (k, XAttr.dict (specDict b (some (.str rn)) kvs))
        ∈ orderByTable Gen.attributes (specAttrs b (some (.str rn)) rattrs) := by
      apply mem_orderByTable _ _ _ _ hk
      rw [lookup_specAttrs, hl]; simp [specAttr]
    simp only [specE, entriesOf, List.mem_cons]
    right
    exact entriesAttrs_mem _ _ _ h2 x (by simpa [entriesAttr] using h1)

end Ford.Ext
