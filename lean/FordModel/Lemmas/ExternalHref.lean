/-
  Lemmas for C16 round 6: a reference made relative to the sibling directory `non-existent dir`
  leads, from every page directory next to it, to the target.
-/
import FordModel.ExternalHref
import FordModel.Lemmas.Path
namespace Ford.Ext
open Ford Ford.Path

/-- Walking to a page directory `P/d`, then along `relpath t (P/X)`, ends on `t` - for every sibling `d`
    of `X`, unless `t` lies below `P/X` itself. -/
theorem foldl_sibling (P : List Seg) : ∀ (t : List Seg) (d X : Seg), Normal P → Normal t → NormalSeg d → NormalSeg X →
    ¬ (P ++ [X]) <+: t → ∀ st : List Seg,
    ((P ++ [d]) ++ relpath t (P ++ [X])).foldl normStep st = t.reverse ++ st := by
  induction P with
  | nil =>
    intro t d X _ ht hd hX hx st
    cases t with
    | nil => simp [relpath, ups, List.replicate, normStep_normal st d hd, normStep_up]
    | cons t0 ts =>
      by_cases h0 : t0 = X
      · subst h0; exact absurd (by simp) hx
      · have : relpath (t0 :: ts) ([] ++ [X]) = ups 1 ++ (t0 :: ts) := by simp [relpath, h0]
        rw [this]
        have h := foldl_climb st [d] (fun s hs => by simp at hs; subst hs; exact hd) (t0 :: ts)
        simp only [List.length_cons, List.length_nil, List.append_assoc] at h
        simp only [List.nil_append, List.append_assoc]
        rw [h, foldl_normal _ _ ht]
  | cons p P' ih =>
    intro t d X hP ht hd hX hx st
    obtain ⟨hp, hP'⟩ := normal_cons hP
    have hPd : Normal ((p :: P') ++ [d]) := normal_append hP (fun s hs => by simp at hs; subst hs; exact hd)
    have hlen : ((p :: P') ++ [d]).length = (P' ++ [X]).length + 1 := by simp
    cases t with
    | nil =>
      have : relpath [] ((p :: P') ++ [X]) = ups ((P' ++ [X]).length + 1) := by simp [relpath]
      rw [this, ← hlen]
      have h := foldl_climb st ((p :: P') ++ [d]) hPd []
      simp only [List.append_nil] at h
      rw [h]; simp
    | cons t0 ts =>
      obtain ⟨_, hts⟩ := normal_cons ht
      by_cases h0 : t0 = p
      · subst h0
        have hx' : ¬ (P' ++ [X]) <+: ts := fun hpre => hx (by simpa using hpre)
        have : relpath (t0 :: ts) ((t0 :: P') ++ [X]) = relpath ts (P' ++ [X]) := by simp [relpath]
        rw [this]
        have := ih ts d X hP' hts hd hX hx' (t0 :: st)
        simp only [List.cons_append, List.foldl_cons, normStep_normal st t0 hp]
        simp only [List.append_assoc] at this ⊢
        rw [this]; simp
      · have : relpath (t0 :: ts) ((p :: P') ++ [X]) = ups ((P' ++ [X]).length + 1) ++ (t0 :: ts) := by
          simp [relpath, h0]
        rw [this, ← hlen]
        have h := foldl_climb st ((p :: P') ++ [d]) hPd (t0 :: ts)
        simp only [List.append_assoc] at h ⊢
        rw [h, foldl_normal _ _ ht]

theorem relpath_eq_nil (t s : List Seg) (h : relpath t s = []) : t = s := by
  fun_induction relpath t s with
  | case1 tl x ss ih => simp [ih h]
  | case2 t ts s ss hne => simp [ups] at h
  | case3 ts => simpa using h
  | case4 s ss => simp [ups] at h

end Ford.Ext
