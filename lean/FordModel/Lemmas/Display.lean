import FordModel.Display
import FordModel.DisplaySpec
namespace Ford.Display
open Ford.Display.Spec

/-- a display list and a display set agree on the three permission words -/
def Agree (d : List Word) (D : Word → Bool) : Prop := ∀ p, isPerm p = true → d.contains p = D p

theorem agree_setDisplay (f : Bool) (d : List Word) (D : Word → Bool) (md : List Word) (h : Agree d D) :
    Agree (setDisplay f d md) (inForce f D md) := by
  intro p hp
  have hd := h p hp
  unfold setDisplay inForce saysSomething denotes
  generalize (if f = true then List.filter (fun w => w != Word.none) md else md) = tmp
  cases p <;> simp [isPerm] at hp <;>
    by_cases h0 : tmp.isEmpty <;> by_cases h1 : tmp.contains Word.none <;>
    by_cases h2 : tmp.contains Word.pub <;> by_cases h3 : tmp.contains Word.priv <;>
    by_cases h4 : tmp.contains Word.prot <;> simp_all

theorem agree_project (cfg : Cfg) (h : cfgOk cfg = true) : Agree cfg.display (denotes cfg.display) := by
  intro p hp
  unfold cfgOk at h
  unfold denotes
  cases p <;> simp [isPerm] at hp <;>
    by_cases h1 : cfg.display.contains Word.none <;> simp_all

theorem tbl_filtered : ∀ pk ck : Kind, kidOk pk ck = true → gapKind ck = false → classOf pk ≠ .none →
    filteredIn (classOf pk) (listOf ck) = !ownDescr pk ck := by
  intro pk ck; cases pk <;> cases ck <;> decide

theorem tbl_emptied : ∀ pk ck : Kind, kidOk pk ck = true → gapKind ck = false → isProc pk = true →
    emptiedIn (classOf pk) (listOf ck) = !ownDescr pk ck := by
  intro pk ck; cases pk <;> cases ck <;> decide

theorem tbl_recurse : ∀ pk ck : Kind, kidOk pk ck = true → gapKind ck = false → classOf pk ≠ .none →
    recurseIn (classOf pk) (listOf ck) = (classOf ck != .none) := by
  intro pk ck; cases pk <;> cases ck <;> decide

/-- the never-filtered kinds are touched by no `prune()` at all -/
theorem tbl_gap_untouched : ∀ pk ck : Kind, kidOk pk ck = true → gapKind ck = true →
    filteredIn (classOf pk) (listOf ck) = false ∧ emptiedIn (classOf pk) (listOf ck) = false
    ∧ recurseIn (classOf pk) (listOf ck) = false ∧ visibleOnlyIn (classOf pk) (listOf ck) = false := by
  intro pk ck; cases pk <;> cases ck <;> decide

theorem tbl_unfiltered_scope : ∀ pk ck : Kind, classOf pk ≠ .none → unfiltered pk ck = gapKind ck := by
  intro pk ck; cases pk <;> cases ck <;> decide

/-- below an entity without a `prune()`: what is not in a never-filtered position belongs to the parent's own description -/
theorem tbl_leaf_kids : ∀ pk ck : Kind, kidOk pk ck = true → classOf pk = .none → pk ≠ .file →
    (unfiltered pk ck = false → ownDescr pk ck = true)
    ∧ ck ≠ .namelist ∧ (isProc ck = true → summarised pk = true)
    ∧ (isProc ck = false → (ck = .arg ∨ ck = .retvar ∨ ck = .variable)) := by
  intro pk ck; cases pk <;> cases ck <;> decide

theorem tbl_no_kids : ∀ ck k : Kind, (ck = .arg ∨ ck = .retvar ∨ ck = .variable) → kidOk ck k = false := by
  intro ck k h
  rcases h with h | h | h <;> subst h <;> cases k <;> decide

theorem tbl_nml_section : ∀ pk : Kind, kidOk pk .namelist = true → nmlSection pk = namelistDescribed pk := by
  intro pk; cases pk <;> decide

theorem tbl_summary : ∀ pk : Kind, summaryIn pk = summarised pk := by
  intro pk; cases pk <;> decide

theorem tbl_arg_no_kids : ∀ ck : Kind, kidOk .arg ck = false := by
  intro ck; cases ck <;> decide

theorem tbl_proc_class : ∀ k : Kind, isProc k = true → classOf k ≠ .none := by
  intro k; cases k <;> decide

theorem tbl_class_not_nml : ∀ k : Kind, classOf k ≠ .none → (k == .namelist) = false := by
  intro k; cases k <;> decide

theorem tbl_gap_leaf : ∀ k : Kind, gapKind k = true → classOf k = .none ∧ k ≠ .file ∧ isProc k = false := by
  intro k; cases k <;> decide

theorem tbl_own_leaf : ∀ pk ck : Kind, kidOk pk ck = true → classOf pk ≠ .none → ownDescr pk ck = true →
    classOf ck = .none ∧ ck ≠ .file ∧ ck ≠ .namelist := by
  intro pk ck; cases pk <;> cases ck <;> decide

theorem tbl_arglike_kept : ∀ (cl : PClass) (k : Kind), isArgLike k = true →
    emptiedIn cl (listOf k) = false ∧ filteredIn cl (listOf k) = false
    ∧ recurseIn cl (listOf k) = false ∧ visibleOnlyIn cl (listOf k) = false := by
  intro cl k; cases cl <;> cases k <;> decide

theorem tbl_kid_not_file : ∀ pk ck : Kind, kidOk pk ck = true → pk ≠ .file → ck ≠ .file := by
  intro pk ck; cases pk <;> cases ck <;> decide

theorem tbl_kid_not_nml : ∀ ck : Kind, gapKind ck = false → (ck == .namelist) = false := by
  intro ck; cases ck <;> decide

/-! ### small structural facts -/

theorem setVisible_info_kind (e : Ent) : e.setVisible.info.kind = e.info.kind := by
  cases e; rfl
theorem setVisible_info_id (e : Ent) : e.setVisible.info.id = e.info.id := by
  cases e; rfl

theorem setVisible_rendered (e : Ent) (pk : Kind) : e.setVisible.rendered pk = e.rendered pk := by
  cases e with
  | mk i cs => simp [Ent.setVisible, Ent.rendered]

theorem prune_info (cfg : Cfg) (d : List Word) (e : Ent) : (prune cfg d e).info = e.info := by
  cases e; simp [prune, Ent.info]

theorem wfKids_nil_of_no_kids (k : Kind) (h : ∀ ck, kidOk k ck = false) : (cs : Ents) → wfKids k cs = true → cs = .nil
  | .nil, _ => rfl
  | .cons e rest, hw => by
    simp [wfKids, h] at hw

/-- below an entity that has no `prune()` nothing is removed; all of it is selected when the
    project meets no never-filtered position with an unselected entity -/
theorem leaf_kids (cfg : Cfg) (D : Word → Bool) (pk : Kind)
    (hc : classOf pk = .none) (hf : pk ≠ .file) :
    (cs : Ents) → wfKids pk cs = true → outsideKids cfg pk false D cs = true →
    cs.rendered pk = selKids cfg pk false D cs
  | .nil, _, _ => by simp [Ents.rendered, selKids]
  | .cons (.mk i ks) rest, h, ho => by
    simp only [wfKids, Bool.and_eq_true, Ent.info] at h
    obtain ⟨⟨hk, hw⟩, hr⟩ := h
    simp only [outsideKids, Bool.and_eq_true, Ent.info] at ho
    obtain ⟨⟨ho1, _⟩, ho3⟩ := ho
    obtain ⟨hown, hnn, hsum, hnp⟩ := tbl_leaf_kids pk i.kind hk hc hf
    have ih := leaf_kids cfg D pk hc hf rest hr ho3
    have hsel : selects cfg pk false D i = true := by
      cases hu : unfiltered pk i.kind
      · simp [selects, hown hu]
      · have hn : (i.kind != Kind.namelist) = true := by simpa using hnn
        simpa [hu, hn] using ho1
    simp only [wf, Bool.and_eq_true] at hw
    have hnml : (i.kind == Kind.namelist) = false := by simpa using hnn
    cases hp : isProc i.kind
    · have hnk := fun k => tbl_no_kids i.kind k (hnp hp)
      have hnil := wfKids_nil_of_no_kids i.kind hnk ks hw.2
      subst hnil
      simp [Ents.rendered, selKids, Ent.rendered, sel, Ent.info, hsel, hp, hnml, ih]
    · have hs := hsum hp
      simp [Ents.rendered, selKids, Ent.rendered, sel, Ent.info, hsel, hp, hs, tbl_summary, hnml, ih]

/-- an entity of a kind that has no `prune` (variable, binding, interface, common block, enumeration,
    namelist, dummy argument ...) is rendered with everything below it, and all of that is selected -/
theorem leaf_ent (cfg : Cfg) (pk : Kind) (D : Word → Bool) (e : Ent) (hw : wf e = true)
    (hc : classOf e.info.kind = .none) (hf : e.info.kind ≠ .file)
    (hn : e.info.kind = .namelist → nmlSection pk = true)
    (ho : outside cfg pk D e = true) :
    e.rendered pk = sel cfg pk D e := by
  cases e with
  | mk i cs =>
    simp only [Ent.info] at hc hf hn
    have hp : isProc i.kind = false := by
      cases h : isProc i.kind
      · rfl
      · exact absurd hc (tbl_proc_class _ h)
    simp only [wf, Bool.and_eq_true] at hw
    simp only [outside, hp, Bool.false_and, Bool.false_eq_true, if_false, procOff] at ho
    have hk := leaf_kids cfg D i.kind hc hf cs hw.2 ho
    have hnm : (i.kind == Kind.namelist && !nmlSection pk) = false := by
      cases h : (i.kind == Kind.namelist)
      · simp
      · have := hn (by simpa using h)
        simp [this]
    simp [Ent.rendered, sel, hp, procOff, hk, hnm]

/-- dummy arguments and results are never removed by a `prune` -/
theorem argIds_pruneKids (cfg : Cfg) (cl : PClass) (off : Bool) (d : List Word) :
    (cs : Ents) → (pruneKids cfg cl off d cs).argIds = cs.argIds
  | .nil => by simp [pruneKids]
  | .cons e rest => by
    have ih := argIds_pruneKids cfg cl off d rest
    cases ha : isArgLike e.info.kind
    · simp only [pruneKids]
      split
      · split <;> simp [Ents.argIds, ha, ih]
      · split
        · exact ih.trans (by simp [Ents.argIds, ha])
        · split
          · simp [Ents.argIds, ha, ih, setVisible_info_kind, prune_info]
          · split <;> simp [Ents.argIds, ha, ih, setVisible_info_kind]
    · obtain ⟨h1, h2, h3, h4⟩ := tbl_arglike_kept cl e.info.kind ha
      simp [pruneKids, ha, h1, h2, h3, h4, Ents.argIds, ih]

theorem shouldDisplay_agree (cfg : Cfg) (d : List Word) (D : Word → Bool) (i : Info)
    (h : Agree d D) (hp : isPerm i.perm = true) :
    shouldDisplay cfg d i = (D i.perm && (!cfg.hideUndoc || i.doc)) := by
  unfold shouldDisplay
  rw [h _ hp]
  cases cfg.hideUndoc <;> cases i.doc <;> simp

theorem wf_perm (e : Ent) (h : wf e = true) : isPerm e.info.perm = true := by
  cases e with
  | mk i cs =>
    simp only [wf, Bool.and_eq_true] at h
    exact h.1

theorem tbl_noAccess_gap : ∀ k : Kind, gapKind k = false → noAccess k = false := by
  intro k; cases k <;> decide

/-! ### the main simulation: rendering the pruned tree = the selected set -/

mutual
theorem rendered_prune (cfg : Cfg) (d : List Word) (D : Word → Bool) (pk : Kind) (hA : Agree d D) :
    (e : Ent) → wf e = true → outside cfg pk D e = true → classOf e.info.kind ≠ .none →
    (prune cfg d e).rendered pk = sel cfg pk D e
  | .mk i cs, hw, ho, hc => by
    simp only [wf, Bool.and_eq_true] at hw
    simp only [Ent.info] at hc
    have hoff : internalsOff cfg i = true → isProc i.kind = true := by
      intro h; simp [internalsOff] at h; exact h.1
    have hnml := tbl_class_not_nml i.kind hc
    simp only [prune, Ent.rendered, sel, hnml, Bool.false_and, Bool.false_eq_true, if_false, tbl_summary]
    by_cases hb : (isProc i.kind && summarised pk) = true
    · simp [hb, argIds_pruneKids]
    · simp only [outside, hb, if_false, Bool.false_eq_true] at ho
      have ih := rendered_pruneKids cfg d D hA i.kind (internalsOff cfg i) hc hoff cs hw.2 ho
      simp only [hb, Bool.false_eq_true, if_false]
      rw [ih]
      rfl
theorem rendered_pruneKids (cfg : Cfg) (d : List Word) (D : Word → Bool) (hA : Agree d D)
    (pk : Kind) (off : Bool) (hc : classOf pk ≠ .none) (hoff : off = true → isProc pk = true) :
    (cs : Ents) → wfKids pk cs = true → outsideKids cfg pk off D cs = true →
    (pruneKids cfg (classOf pk) off d cs).rendered pk = selKids cfg pk off D cs
  | .nil, _, _ => by simp [pruneKids, Ents.rendered, selKids]
  | .cons e rest, hw, ho => by
    simp only [wfKids, Bool.and_eq_true] at hw
    obtain ⟨⟨hk, hwe⟩, hwr⟩ := hw
    simp only [outsideKids, Bool.and_eq_true] at ho
    obtain ⟨⟨ho1, ho2⟩, ho3⟩ := ho
    have ih := rendered_pruneKids cfg d D hA pk off hc hoff rest hwr ho3
    have hpf : pk ≠ .file := by
      intro h; rw [h] at hc; exact hc rfl
    have hnf : e.info.kind ≠ .file := tbl_kid_not_file pk e.info.kind hk hpf
    have hunf := tbl_unfiltered_scope pk e.info.kind hc
    rw [hunf] at ho1
    cases hg : gapKind e.info.kind
    · -- a kind the `prune()` methods know
      have hperm := wf_perm e hwe
      have hsd := shouldDisplay_agree cfg d D e.info hA hperm
      have hfil := tbl_filtered pk e.info.kind hk hg hc
      have hrec := tbl_recurse pk e.info.kind hk hg hc
      have hA' := agree_setDisplay false d D e.info.disp hA
      have hna := tbl_noAccess_gap _ hg
      simp only [pruneKids, selKids, selects, hna, Bool.false_or]
      cases off
      · -- internals shown
        simp only [Bool.false_eq_true, if_false, hfil, hsd, Bool.not_false, Bool.true_and]
        cases hal : ownDescr pk e.info.kind
        · -- filterable kind
          simp only [Bool.not_false, Bool.true_and, Bool.false_or]
          cases hshow : (D e.info.perm && (!cfg.hideUndoc || e.info.doc))
          · simp [ih]
          · have hsel : selects cfg pk false D e.info = true := by
              simp only [selects, hna, hal, Bool.false_or, Bool.not_false, Bool.true_and]; exact hshow
            have hoe := ho2
            simp only [hsel, if_true] at hoe
            simp only [Bool.not_true, Bool.false_eq_true, if_false, if_true, hrec]
            cases hcl : (classOf e.info.kind != PClass.none)
            · -- kept whole
              have hcn : classOf e.info.kind = .none := by simpa using hcl
              have hnn : e.info.kind = .namelist → nmlSection pk = true := by
                intro h; rw [h] at hg; exact absurd hg (by decide)
              have hl := leaf_ent cfg pk (inForce false D e.info.disp) e hwe hcn hnf hnn hoe
              simp only [Bool.false_eq_true, if_false]
              split <;> simp [Ents.rendered, setVisible_rendered, hl, ih]
            · have hcn : classOf e.info.kind ≠ .none := by simpa using hcl
              have hr := rendered_prune cfg (setDisplay false d e.info.disp) (inForce false D e.info.disp)
                pk hA' e hwe hoe hcn
              simp [Ents.rendered, setVisible_rendered, hr, ih]
        · -- part of the parent's own description: never filtered, never recursed into
          obtain ⟨hcn, _, hnn'⟩ := tbl_own_leaf pk e.info.kind hk hc hal
          have hsel : selects cfg pk false D e.info = true := by simp [selects, hal]
          have hoe := ho2
          simp only [hsel, if_true] at hoe
          have hnn : e.info.kind = .namelist → nmlSection pk = true := fun h => absurd h hnn'
          have hl := leaf_ent cfg pk (inForce false D e.info.disp) e hwe hcn hnf hnn hoe
          simp only [Bool.not_true, Bool.false_and, Bool.false_eq_true, if_false, Bool.true_or, if_true, hrec, hcn]
          simp only [bne_self_eq_false, Bool.false_eq_true, if_false]
          split <;> simp [Ents.rendered, setVisible_rendered, hl, ih]
      · -- internals off: the parent is a procedure
        have hproc := hoff rfl
        have hemp := tbl_emptied pk e.info.kind hk hg hproc
        simp only [if_true, hemp]
        cases hal : ownDescr pk e.info.kind
        · simp [ih]
        · obtain ⟨hcn, _, hnn'⟩ := tbl_own_leaf pk e.info.kind hk hc hal
          have hsel : selects cfg pk true D e.info = true := by simp [selects, hal]
          have hoe := ho2
          simp only [hsel, if_true] at hoe
          have hnn : e.info.kind = .namelist → nmlSection pk = true := fun h => absurd h hnn'
          have hl := leaf_ent cfg pk (inForce false D e.info.disp) e hwe hcn hnf hnn hoe
          simp [Ents.rendered, hl, ih]
    · -- enumeration / namelist / common block: no `prune()` touches the list
      obtain ⟨h1, h2, h3, h4⟩ := tbl_gap_untouched pk e.info.kind hk hg
      obtain ⟨hcn, _, _⟩ := tbl_gap_leaf _ hg
      have hkeep : pruneKids cfg (classOf pk) off d (.cons e rest) = .cons e (pruneKids cfg (classOf pk) off d rest) := by
        cases off <;> simp [pruneKids, h1, h2, h3, h4]
      rw [hkeep]
      simp only [hg, if_true, beq_iff_eq] at ho1
      simp only [Ents.rendered, selKids, ih]
      cases hsel : selects cfg pk off D e.info
      · -- not selected: it must be a namelist that no template of the parent renders
        rw [hsel] at ho1
        have hx : (e.info.kind != Kind.namelist || namelistDescribed pk) = false := ho1.symm
        simp only [Bool.or_eq_false_iff, bne_eq_false_iff_eq] at hx
        have hkn : kidOk pk .namelist = true := by rw [← hx.1]; exact hk
        have hns : nmlSection pk = false := by rw [tbl_nml_section pk hkn]; exact hx.2
        cases e with
        | mk i ks =>
          simp only [Ent.info] at hx
          simp [Ent.rendered, hx.1, hns]
      · rw [hsel] at ho1
        have hoe := ho2
        simp only [hsel, if_true] at hoe
        have hnn : e.info.kind = .namelist → nmlSection pk = true := by
          intro h
          have hkn : kidOk pk .namelist = true := by rw [← h]; exact hk
          rw [tbl_nml_section pk hkn]
          have := ho1.symm
          simpa [h] using this
        have hl := leaf_ent cfg pk (inForce false D e.info.disp) e hwe hcn hnf hnn hoe
        simp [hl]
end

end Ford.Display

namespace Ford.Display
open Ford.Display.Spec

/-! ### project level -/

theorem tbl_unit_class : ∀ k : Kind, kidOk .file k = true → classOf k ≠ .none := by
  intro k; cases k <;> decide

theorem rendered_pruneUnits (cfg : Cfg) (d : List Word) (D : Word → Bool) (hA : Agree d D) :
    (cs : Ents) → wfKids .file cs = true → outsideUnits cfg D cs = true →
    (pruneUnits cfg d cs).rendered .file = selUnits cfg D cs
  | .nil, _, _ => by simp [pruneUnits, Ents.rendered, selUnits]
  | .cons u rest, hw, ho => by
    simp only [wfKids, Bool.and_eq_true] at hw
    obtain ⟨⟨hk, hwu⟩, hwr⟩ := hw
    simp only [outsideUnits, Bool.and_eq_true] at ho
    have ih := rendered_pruneUnits cfg d D hA rest hwr ho.2
    have hr := rendered_prune cfg (setDisplay false d u.info.disp) (inForce false D u.info.disp) .file
      (agree_setDisplay false d D u.info.disp hA) u hwu ho.1 (tbl_unit_class _ hk)
    simp [pruneUnits, Ents.rendered, selUnits, setVisible_rendered, hr, ih]

theorem inForce_file_nothing (D : Word → Bool) (md : List Word)
    (h : saysSomething (md.filter (fun w => w != Word.none)) = false) : inForce true D md = D := by
  simp [inForce, h]

theorem agree_fileChild (cfg : Cfg) (i : Info) (hc : cfgOk cfg = true)
    (h : cfg.fileInherits = true ∨ saysSomething (i.disp.filter (fun w => w != Word.none)) = false) :
    Agree (fileChildDisplay cfg i) (inForce true (denotes cfg.display) i.disp) := by
  unfold fileChildDisplay
  by_cases hf : cfg.fileInherits = true
  · simp only [hf, if_true]
    exact agree_setDisplay true _ _ _ (agree_project cfg hc)
  · have hs : saysSomething (i.disp.filter (fun w => w != Word.none)) = false := by
      cases h with
      | inl h => exact absurd h hf
      | inr h => exact h
    simp only [hf]
    rw [inForce_file_nothing _ _ hs]
    exact agree_project cfg hc

theorem rendered_pruneFile (cfg : Cfg) (hc : cfgOk cfg = true) (f : Ent) (hw : wfFile f = true)
    (ho : outsideFile cfg f = true)
    (h : cfg.fileInherits = true ∨ saysSomething (f.info.disp.filter (fun w => w != Word.none)) = false) :
    (pruneFile cfg f).rendered .file = selFile cfg f := by
  cases f with
  | mk i cs =>
    simp only [wfFile, Bool.and_eq_true, beq_iff_eq] at hw
    obtain ⟨hk, hwk⟩ := hw
    have hA := agree_fileChild cfg i hc h
    have hu := rendered_pruneUnits cfg _ _ hA cs hwk ho
    simp [pruneFile, Ent.rendered, selFile, hk, isProc, hu]

theorem rendered_pruneProject (cfg : Cfg) (hc : cfgOk cfg = true) :
    (p : List Ent) → wfProject p = true → outsideFindings cfg p = true →
    (cfg.fileInherits = true ∨ noFileDisplay p = true) →
    renderedOf (pruneProject cfg p) = selProject cfg p
  | [], _, _, _ => by simp [pruneProject, renderedOf, selProject]
  | f :: fs, hw, ho, h => by
    simp only [wfProject, Bool.and_eq_true] at hw
    simp only [outsideFindings, Bool.and_eq_true] at ho
    have h1 : cfg.fileInherits = true ∨ saysSomething (f.info.disp.filter (fun w => w != Word.none)) = false := by
      cases h with
      | inl h => exact Or.inl h
      | inr h => simp only [noFileDisplay, Bool.and_eq_true, Bool.not_eq_true'] at h; exact Or.inr h.1
    have h2 : cfg.fileInherits = true ∨ noFileDisplay fs = true := by
      cases h with
      | inl h => exact Or.inl h
      | inr h => simp only [noFileDisplay, Bool.and_eq_true] at h; exact Or.inr h.2
    simp [pruneProject, renderedOf, selProject, rendered_pruneFile cfg hc f hw.1 ho.1 h1,
      rendered_pruneProject cfg hc fs hw.2 ho.2 h2]

/-! ### a project without enumerations, namelists and common blocks meets no never-filtered position -/

theorem tbl_unfiltered_noGap : ∀ pk ck : Kind, gapKind pk = false → gapKind ck = false → unfiltered pk ck = false := by
  intro pk ck; cases pk <;> cases ck <;> decide

mutual
theorem outside_of_noGap (cfg : Cfg) (pk : Kind) (D : Word → Bool) :
    (e : Ent) → noGap e = true → outside cfg pk D e = true
  | .mk i cs, h => by
    simp only [noGap, Bool.and_eq_true, Bool.not_eq_true'] at h
    simp only [outside]
    split
    · rfl
    · exact outsideKids_of_noGap cfg i.kind (procOff cfg i) D h.1 cs h.2
theorem outsideKids_of_noGap (cfg : Cfg) (pk : Kind) (off : Bool) (D : Word → Bool) (hp : gapKind pk = false) :
    (cs : Ents) → noGapKids cs = true → outsideKids cfg pk off D cs = true
  | .nil, _ => by simp [outsideKids]
  | .cons (.mk i ks) rest, h => by
    simp only [noGapKids, Bool.and_eq_true] at h
    have hi := h.1
    simp only [noGap, Bool.and_eq_true, Bool.not_eq_true'] at hi
    have h1 := outside_of_noGap cfg pk (inForce false D i.disp) (.mk i ks) h.1
    have h2 := outsideKids_of_noGap cfg pk off D hp rest h.2
    have hu := tbl_unfiltered_noGap pk i.kind hp hi.1
    simp only [outsideKids, Ent.info, hu, Bool.false_eq_true, if_false, Bool.true_and, h2, Bool.and_true, h1]
    simp
end

theorem outsideUnits_of_noGap (cfg : Cfg) (D : Word → Bool) :
    (us : Ents) → noGapKids us = true → outsideUnits cfg D us = true
  | .nil, _ => rfl
  | .cons u rest, hu => by
    simp only [noGapKids, Bool.and_eq_true] at hu
    simp [outsideUnits, outside_of_noGap cfg .file _ u hu.1, outsideUnits_of_noGap cfg D rest hu.2]

theorem outsideFindings_of_noGapKinds (cfg : Cfg) :
    (p : List Ent) → wfProject p = true → noGapKinds p = true → outsideFindings cfg p = true
  | [], _, _ => rfl
  | (.mk i cs) :: fs, hw, h => by
    simp only [noGapKinds, Bool.and_eq_true] at h
    simp only [wfProject, Bool.and_eq_true] at hw
    have ih := outsideFindings_of_noGapKinds cfg fs hw.2 h.2
    have hf := h.1
    simp only [noGap, Bool.and_eq_true, Bool.not_eq_true'] at hf
    simp only [outsideFindings, outsideFile, ih, Bool.and_true]
    exact outsideUnits_of_noGap cfg _ cs hf.2

end Ford.Display

namespace Ford.Display
open Ford.Display.Spec

/-! ### pages -/

theorem tbl_containers : ∀ pk ck : Kind, kidOk .file pk = true → isUnitWithKids pk = true → kidOk pk ck = true →
    inContainers (listOf ck) = pageKind ck := by
  intro pk ck; cases pk <;> cases ck <;> decide

theorem tbl_chain : ∀ pk : Kind, kidOk .file pk = true → inChain (listOf pk) = isUnitWithKids pk := by
  intro pk; cases pk <;> decide

theorem tbl_page_not_always : ∀ pk ck : Kind, pageKind ck = true → isUnitWithKids pk = true →
    ownDescr pk ck = false ∧ gapKind ck = false := by
  intro pk ck; cases pk <;> cases ck <;> decide

theorem tbl_unit_not_proc : ∀ k : Kind, isUnitWithKids k = true → isProc k = false ∧ classOf k ≠ .none := by
  intro k; cases k <;> decide

theorem setVisible_kids (e : Ent) : e.setVisible.kids = e.kids := by cases e; rfl
theorem setVisible_info_id' (e : Ent) : e.setVisible.info.id = e.info.id := by cases e; rfl
theorem prune_kids (cfg : Cfg) (d : List Word) (e : Ent) :
    (prune cfg d e).kids = pruneKids cfg (classOf e.info.kind) (internalsOff cfg e.info) d e.kids := by
  cases e; simp [prune, Ent.kids, Ent.info]

theorem pageKids_pruneKids (cfg : Cfg) (d : List Word) (D : Word → Bool) (hA : Agree d D) (pk : Kind)
    (hu : kidOk .file pk = true) (hk : isUnitWithKids pk = true) :
    (cs : Ents) → wfKids pk cs = true →
    (pruneKids cfg (classOf pk) false d cs).pageKids = selPageKids cfg D cs
  | .nil, _ => by simp [pruneKids, Ents.pageKids, selPageKids]
  | .cons e rest, hw => by
    simp only [wfKids, Bool.and_eq_true] at hw
    obtain ⟨⟨hke, hwe⟩, hwr⟩ := hw
    have ih := pageKids_pruneKids cfg d D hA pk hu hk rest hwr
    have hc := (tbl_unit_not_proc pk hk).2
    have hsd := shouldDisplay_agree cfg d D e.info hA (wf_perm e hwe)
    have hcont := tbl_containers pk e.info.kind hu hk hke
    simp only [pruneKids, selPageKids, Bool.false_eq_true, if_false, hsd]
    cases hpg : pageKind e.info.kind
    · -- not a page kind: contributes nothing whichever branch is taken
      simp only [Bool.false_and, Bool.false_eq_true, if_false, List.nil_append]
      split
      · exact ih
      · split
        · simp [Ents.pageKids, setVisible_info_kind, prune_info, hcont, hpg, ih]
        · split <;> simp [Ents.pageKids, setVisible_info_kind, hcont, hpg, ih]
    · obtain ⟨hal, hg⟩ := tbl_page_not_always pk _ hpg hk
      have hfil := tbl_filtered pk e.info.kind hke hg hc
      simp only [hfil, hal, Bool.not_false, Bool.true_and]
      cases hshow : (D e.info.perm && (!cfg.hideUndoc || e.info.doc))
      · simp [ih]
      · simp only [Bool.not_true, Bool.false_eq_true, if_false, if_true]
        split
        · simp [Ents.pageKids, setVisible_info_kind, setVisible_info_id, prune_info, hcont, hpg, ih]
        · split <;> simp [Ents.pageKids, setVisible_info_kind, setVisible_info_id, hcont, hpg, ih]

theorem unitPages_pruneUnits (cfg : Cfg) (d : List Word) (D : Word → Bool) (hA : Agree d D) :
    (cs : Ents) → wfKids .file cs = true →
    (pruneUnits cfg d cs).unitPages = selUnitPages cfg D cs
  | .nil, _ => by simp [pruneUnits, Ents.unitPages, selUnitPages]
  | .cons u rest, hw => by
    simp only [wfKids, Bool.and_eq_true] at hw
    obtain ⟨⟨hk, hwu⟩, hwr⟩ := hw
    have ih := unitPages_pruneUnits cfg d D hA rest hwr
    have hch := tbl_chain u.info.kind hk
    simp only [pruneUnits, Ents.unitPages, selUnitPages, setVisible_info_kind, setVisible_info_id, prune_info,
      setVisible_kids, prune_kids, hch, ih]
    cases hun : isUnitWithKids u.info.kind
    · simp
    · have hnp := (tbl_unit_not_proc _ hun).1
      have hoff : internalsOff cfg u.info = false := by simp [internalsOff, hnp]
      have hwk : wfKids u.info.kind u.kids = true := by
        cases u with
        | mk i cs => simp only [wf, Bool.and_eq_true] at hwu; exact hwu.2
      have hp := pageKids_pruneKids cfg (setDisplay false d u.info.disp) (inForce false D u.info.disp)
        (agree_setDisplay false d D u.info.disp hA) u.info.kind hk hun u.kids hwk
      simp [hoff, hp]

theorem pageIds_pruneProject (cfg : Cfg) (hc : cfgOk cfg = true) :
    (p : List Ent) → wfProject p = true → (cfg.fileInherits = true ∨ noFileDisplay p = true) →
    pageIds (pruneProject cfg p) = selPages cfg p
  | [], _, _ => by simp [pruneProject, pageIds, selPages]
  | (.mk i cs) :: fs, hw, h => by
    simp only [wfProject, Bool.and_eq_true] at hw
    have h1 : cfg.fileInherits = true ∨ saysSomething (i.disp.filter (fun w => w != Word.none)) = false := by
      cases h with
      | inl h => exact Or.inl h
      | inr h => simp only [noFileDisplay, Bool.and_eq_true, Bool.not_eq_true', Ent.info] at h; exact Or.inr h.1
    have h2 : cfg.fileInherits = true ∨ noFileDisplay fs = true := by
      cases h with
      | inl h => exact Or.inl h
      | inr h => simp only [noFileDisplay, Bool.and_eq_true] at h; exact Or.inr h.2
    have hwf := hw.1
    simp only [wfFile, Bool.and_eq_true, beq_iff_eq] at hwf
    have hA := agree_fileChild cfg i hc h1
    have hu := unitPages_pruneUnits cfg _ _ hA cs hwf.2
    simp [pruneProject, pruneFile, pageIds, selPages, selFilePages, Ent.info, Ent.kids, hu,
      pageIds_pruneProject cfg hc fs hw.2 h2]

end Ford.Display

namespace Ford.Display
open Ford.Display.Spec

/-! ### links: everything that has a page is `visible` -/

theorem tbl_page_lists_marked : ∀ pk ck : Kind, kidOk .file pk = true → isUnitWithKids pk = true → kidOk pk ck = true →
    inContainers (listOf ck) = true →
    (recurseIn (classOf pk) (listOf ck) || visibleOnlyIn (classOf pk) (listOf ck)) = true := by
  intro pk ck; cases pk <;> cases ck <;> decide

theorem mem_visibleIds_setVisible (e : Ent) : e.info.id ∈ e.setVisible.visibleIds := by
  cases e with
  | mk i cs => simp [Ent.setVisible, Ent.visibleIds, Ent.info]

theorem pageKids_visible (cfg : Cfg) (d : List Word) (pk : Kind)
    (hu : kidOk .file pk = true) (hk : isUnitWithKids pk = true) (x : Nat) :
    (cs : Ents) → wfKids pk cs = true →
    x ∈ (pruneKids cfg (classOf pk) false d cs).pageKids → x ∈ (pruneKids cfg (classOf pk) false d cs).visibleIds
  | .nil, _ => by simp [pruneKids, Ents.pageKids]
  | .cons e rest, hw => by
    simp only [wfKids, Bool.and_eq_true] at hw
    obtain ⟨⟨hke, _⟩, hwr⟩ := hw
    have ih := pageKids_visible cfg d pk hu hk x rest hwr
    have hm := tbl_page_lists_marked pk e.info.kind hu hk hke
    simp only [pruneKids, Bool.false_eq_true, if_false]
    split
    · exact ih
    · split
      · intro hx
        simp only [Ents.pageKids, setVisible_info_kind, prune_info, setVisible_info_id, List.mem_append] at hx
        simp only [Ents.visibleIds, List.mem_append]
        cases hx with
        | inl hx =>
          left
          split at hx
          · simp only [List.mem_singleton] at hx
            have hv := mem_visibleIds_setVisible (prune cfg (setDisplay false d e.info.disp) e)
            rw [prune_info] at hv
            rw [hx]; exact hv
          · simp at hx
        | inr hx => exact Or.inr (ih hx)
      · split
        · intro hx
          simp only [Ents.pageKids, setVisible_info_kind, setVisible_info_id, List.mem_append] at hx
          simp only [Ents.visibleIds, List.mem_append]
          cases hx with
          | inl hx =>
            left
            split at hx
            · simp only [List.mem_singleton] at hx
              rw [hx]
              exact mem_visibleIds_setVisible _
            · simp at hx
          | inr hx => exact Or.inr (ih hx)
        · intro hx
          simp only [Ents.pageKids, List.mem_append] at hx
          simp only [Ents.visibleIds, List.mem_append]
          cases hx with
          | inl hx =>
            split at hx
            · rename_i h1 h2 hc
              have := hm hc
              simp_all
            · simp at hx
          | inr hx => exact Or.inr (ih hx)

theorem unitPages_visible (cfg : Cfg) (d : List Word) (x : Nat) :
    (cs : Ents) → wfKids .file cs = true →
    x ∈ (pruneUnits cfg d cs).unitPages → x ∈ (pruneUnits cfg d cs).visibleIds
  | .nil, _ => by simp [pruneUnits, Ents.unitPages]
  | .cons u rest, hw => by
    simp only [wfKids, Bool.and_eq_true] at hw
    obtain ⟨⟨hk, hwu⟩, hwr⟩ := hw
    have ih := unitPages_visible cfg d x rest hwr
    have hch := tbl_chain u.info.kind hk
    intro hx
    simp only [pruneUnits, Ents.unitPages, setVisible_info_kind, setVisible_info_id, prune_info,
      setVisible_kids, prune_kids, hch, List.mem_append, List.mem_cons] at hx
    simp only [pruneUnits, Ents.visibleIds, List.mem_append]
    rcases hx with (hx | hx) | hx
    · left
      have hv := mem_visibleIds_setVisible (prune cfg (setDisplay false d u.info.disp) u)
      rw [prune_info] at hv
      rw [hx]; exact hv
    · left
      cases hun : isUnitWithKids u.info.kind
      · simp [hun] at hx
      · simp only [hun, if_true] at hx
        have hnp := (tbl_unit_not_proc _ hun).1
        have hoff : internalsOff cfg u.info = false := by simp [internalsOff, hnp]
        rw [hoff] at hx
        have hwk : wfKids u.info.kind u.kids = true := by
          cases u with
          | mk i cs => simp only [wf, Bool.and_eq_true] at hwu; exact hwu.2
        have := pageKids_visible cfg (setDisplay false d u.info.disp) u.info.kind hk hun x u.kids hwk hx
        cases u with
        | mk i cs =>
          have hoff' : internalsOff cfg i = false := hoff
          simp only [prune, Ent.setVisible, Ent.visibleIds, List.mem_append]
          right
          simpa [Ent.info, Ent.kids, hoff'] using this
    · exact Or.inr (ih hx)

theorem pageIds_visible (cfg : Cfg) (x : Nat) :
    (p : List Ent) → wfProject p = true →
    x ∈ pageIds (pruneProject cfg p) → x ∈ visibleIdsOf (pruneProject cfg p)
  | [], _ => by simp [pruneProject, pageIds]
  | (.mk i cs) :: fs, hw => by
    simp only [wfProject, Bool.and_eq_true] at hw
    have hwf := hw.1
    simp only [wfFile, Bool.and_eq_true, beq_iff_eq] at hwf
    have ih := pageIds_visible cfg x fs hw.2
    have hu := unitPages_visible cfg (fileChildDisplay cfg i) x cs hwf.2
    intro hx
    simp only [pruneProject, pruneFile, pageIds, Ent.info, Ent.kids, List.mem_append, List.mem_cons] at hx
    simp only [pruneProject, pruneFile, visibleIdsOf, Ent.visibleIds, List.mem_append]
    rcases hx with (hx | hx) | hx
    · left; left; simp [hx]
    · left; right; exact hu hx
    · right; exact ih hx

end Ford.Display

namespace Ford.Display
open Ford.Display.Spec Ford.Generated

/-! ### namelist pages: every selected namelist that should have a page has one -/

theorem tbl_routines : ∀ k : Kind, isProc k = true → C05.routinesLists.contains (listOf k) = true := by
  intro k; cases k <;> decide

theorem tbl_collect : ∀ k : Kind, kidOk .file k = true →
    (isProc k = true → C05.namelistCollect.lookup (listOf k) = some (true, false))
    ∧ (k = .program → C05.namelistCollect.lookup (listOf k) = some (true, true))
    ∧ ((k = .module ∨ k = .submodule) → C05.namelistCollect.lookup (listOf k) = some (false, true)) := by
  intro k; cases k <;> decide

theorem mem_selNmlKids (cfg : Cfg) (pk : Kind) (off : Bool) (D : Word → Bool) (x : Nat) :
    (cs : Ents) → x ∈ selNmlKids cfg pk off D cs → x ∈ cs.nmlKids.map (·.info.id)
  | .nil => by simp [selNmlKids]
  | .cons c rest => by
    have ih := mem_selNmlKids cfg pk off D x rest
    intro hx
    simp only [selNmlKids, List.mem_append] at hx
    simp only [Ents.nmlKids, List.map_append, List.mem_append]
    rcases hx with hx | hx
    · left
      split at hx
      · rename_i h
        simp only [Bool.and_eq_true, beq_iff_eq] at h
        simp only [List.mem_singleton] at hx
        simp [h.1, hx]
      · simp at hx
    · exact Or.inr (ih hx)

theorem mem_selRoutineNmls (cfg : Cfg) (pk : Kind) (D : Word → Bool) (x : Nat) :
    (cs : Ents) → x ∈ selRoutineNmls cfg pk D cs → x ∈ cs.routineNmls.map (·.info.id)
  | .nil => by simp [selRoutineNmls]
  | .cons c rest => by
    have ih := mem_selRoutineNmls cfg pk D x rest
    intro hx
    simp only [selRoutineNmls, List.mem_append] at hx
    simp only [Ents.routineNmls, List.map_append, List.mem_append]
    rcases hx with hx | hx
    · left
      split at hx
      · rename_i h
        simp only [Bool.and_eq_true] at h
        simp only [tbl_routines _ h.1, if_true]
        exact mem_selNmlKids cfg _ _ _ x _ hx
      · simp at hx
    · exact Or.inr (ih hx)

theorem mem_selUnitNmls (cfg : Cfg) (D : Word → Bool) (x : Nat) :
    (us : Ents) → wfKids .file us = true → x ∈ selUnitNmls cfg D us → x ∈ us.unitNmls.map (·.info.id)
  | .nil, _ => by simp [selUnitNmls]
  | .cons u rest, hw => by
    simp only [wfKids, Bool.and_eq_true] at hw
    obtain ⟨⟨hk, _⟩, hwr⟩ := hw
    have ih := mem_selUnitNmls cfg D x rest hwr
    obtain ⟨t1, t2, t3⟩ := tbl_collect u.info.kind hk
    intro hx
    simp only [selUnitNmls, List.mem_append] at hx
    simp only [Ents.unitNmls, List.map_append, List.mem_append]
    rcases hx with hx | hx
    · left
      split at hx
      · rename_i h
        rw [t1 h]
        simp only [if_true, Bool.false_eq_true, if_false, List.append_nil]
        exact mem_selNmlKids cfg _ _ _ x _ hx
      · split at hx
        · rename_i h
          simp only [beq_iff_eq] at h
          rw [t2 h]
          simp only [if_true, List.map_append, List.mem_append]
          simp only [List.mem_append] at hx
          rcases hx with hx | hx
          · exact Or.inl (mem_selNmlKids cfg _ _ _ x _ hx)
          · exact Or.inr (mem_selRoutineNmls cfg _ _ x _ hx)
        · split at hx
          · rename_i h
            simp only [Bool.or_eq_true, beq_iff_eq] at h
            rw [t3 h]
            simp only [Bool.false_eq_true, if_false, if_true, List.nil_append]
            exact mem_selRoutineNmls cfg _ _ x _ hx
          · simp at hx
    · exact Or.inr (ih hx)

theorem mem_selNmlPages (cfg : Cfg) (x : Nat) :
    (p : List Ent) → wfProject p = true → x ∈ selNmlPages cfg p → x ∈ nmlPageIds p
  | [], _ => by simp [selNmlPages]
  | (.mk i cs) :: fs, hw => by
    simp only [wfProject, Bool.and_eq_true] at hw
    have hwf := hw.1
    simp only [wfFile, Bool.and_eq_true, beq_iff_eq] at hwf
    have ih := mem_selNmlPages cfg x fs hw.2
    intro hx
    simp only [selNmlPages, selFileNmls, List.mem_append] at hx
    simp only [nmlPageIds, nmlEnts, Ent.kids, List.map_append, List.mem_append]
    rcases hx with hx | hx
    · exact Or.inl (mem_selUnitNmls cfg _ x cs hwf.2 hx)
    · exact Or.inr (ih hx)

end Ford.Display

namespace Ford.Display
open Ford.Display.Spec Ford.Generated

/-! ### type extension: the tree with the inherited members is again a well-formed project -/

theorem wfKids_append (pk : Kind) : (a b : Ents) → wfKids pk (a.append b) = (wfKids pk a && wfKids pk b)
  | .nil, b => by simp [Ents.append, wfKids]
  | .cons e r, b => by simp [Ents.append, wfKids, wfKids_append pk r b, Bool.and_assoc]

theorem inheritable_append : (a b : Ents) → (a.append b).inheritable = a.inheritable.append b.inheritable
  | .nil, b => by simp [Ents.append, Ents.inheritable]
  | .cons e r, b => by
    simp only [Ents.append, Ents.inheritable, inheritable_append r b]
    split <;> simp [Ents.append]

theorem tbl_inheritable_kid : ∀ k : Kind, (k == .variable || k == .boundproc) = true → kidOk .type k = true := by
  intro k; cases k <;> decide

theorem inheritable_kind (i : Info) (h : inheritable i = true) : (i.kind == .variable || i.kind == .boundproc) = true := by
  simp only [inheritable, Bool.or_eq_true, Bool.and_eq_true] at h
  rcases h with h | h
  · simp [h.1]
  · simp [h.1]

/-- the inheritable members of any well-formed child list are well-formed members of a type -/
theorem wfKids_type_inheritable (pk : Kind) : (cs : Ents) → wfKids pk cs = true → wfKids .type cs.inheritable = true
  | .nil, _ => by simp [Ents.inheritable, wfKids]
  | .cons e rest, h => by
    simp only [wfKids, Bool.and_eq_true] at h
    have ih := wfKids_type_inheritable pk rest h.2
    simp only [Ents.inheritable]
    split
    · rename_i hi
      simp [wfKids, tbl_inheritable_kid _ (inheritable_kind _ hi), h.1.2, ih]
    · exact ih

mutual
theorem wfKids_find (n : Nat) : (e : Ent) → wf e = true → (r : Ent) → e.find n = some r → wfKids r.info.kind r.kids = true
  | .mk i cs, hw, r, hf => by
    simp only [wf, Bool.and_eq_true] at hw
    simp only [Ent.find] at hf
    split at hf
    · cases hf; exact hw.2
    · exact wfKids_finds n i.kind cs hw.2 r hf
theorem wfKids_finds (n : Nat) (pk : Kind) : (es : Ents) → wfKids pk es = true → (r : Ent) → es.find n = some r →
    wfKids r.info.kind r.kids = true
  | .nil, _, r, hf => by simp [Ents.find] at hf
  | .cons e rest, hw, r, hf => by
    simp only [wfKids, Bool.and_eq_true] at hw
    simp only [Ents.find] at hf
    split at hf
    · rename_i r' h
      cases hf
      exact wfKids_find n e hw.1.2 r h
    · exact wfKids_finds n pk rest hw.2 r hf
end

theorem wfKids_findIn (n : Nat) : (p : List Ent) → wfProject p = true → (r : Ent) → findIn n p = some r →
    wfKids r.info.kind r.kids = true
  | [], _, r, hf => by simp [findIn] at hf
  | (.mk i cs) :: fs, hw, r, hf => by
    simp only [wfProject, Bool.and_eq_true] at hw
    have hwf := hw.1
    simp only [wfFile, Bool.and_eq_true, beq_iff_eq] at hwf
    simp only [findIn] at hf
    split at hf
    · rename_i r' h
      cases hf
      simp only [Ent.find] at h
      split at h
      · cases h; simp only [Ent.info, Ent.kids]; rw [hwf.1]; exact hwf.2
      · exact wfKids_finds n .file cs hwf.2 r h
    · exact wfKids_findIn n fs hw.2 r hf

/-- what an extending type takes over from the type it extends are well-formed members of a type -/
theorem wfKids_membersOf (p : List Ent) (hp : wfProject p = true) :
    (fuel n : Nat) → wfKids .type (membersOf p fuel n).inheritable = true
  | 0, _ => by simp [membersOf, Ents.inheritable, wfKids]
  | fuel + 1, n => by
    simp only [membersOf]
    split
    · rename_i i cs hf
      have hcs := wfKids_findIn n p hp _ hf
      simp only [Ent.info, Ent.kids] at hcs
      rw [inheritable_append, wfKids_append, Bool.and_eq_true]
      refine ⟨?_, wfKids_type_inheritable _ cs hcs⟩
      split
      · exact wfKids_type_inheritable _ _ (wfKids_membersOf p hp fuel _)
      · simp [Ents.inheritable, wfKids]
    · simp [Ents.inheritable, wfKids]

theorem inherit_info (p : List Ent) (fuel : Nat) (e : Ent) : (e.inherit p fuel).info = e.info := by
  cases e; simp [Ent.inherit, Ent.info]

mutual
theorem wf_inherit (p : List Ent) (hp : wfProject p = true) (fuel : Nat) :
    (e : Ent) → wf e = true → wf (e.inherit p fuel) = true
  | .mk i cs, hw => by
    simp only [wf, Bool.and_eq_true] at hw
    have ih := wfKids_inherit p hp fuel i.kind cs hw.2
    simp only [Ent.inherit, wf, hw.1, Bool.true_and]
    split
    · rename_i m hk _
      rw [wfKids_append, hk, Bool.and_eq_true]
      exact ⟨wfKids_membersOf p hp fuel m, by rw [← hk]; exact ih⟩
    · exact ih
theorem wfKids_inherit (p : List Ent) (hp : wfProject p = true) (fuel : Nat) (pk : Kind) :
    (es : Ents) → wfKids pk es = true → wfKids pk (es.inherit p fuel) = true
  | .nil, _ => by simp [Ents.inherit, wfKids]
  | .cons e rest, hw => by
    simp only [wfKids, Bool.and_eq_true] at hw
    simp [Ents.inherit, wfKids, inherit_info, hw.1.1, wf_inherit p hp fuel e hw.1.2,
      wfKids_inherit p hp fuel pk rest hw.2]
end

theorem wfProject_inheritList (p : List Ent) (hp : wfProject p = true) (fuel : Nat) :
    (fs : List Ent) → wfProject fs = true → wfProject (inheritList p fuel fs) = true
  | [], _ => rfl
  | (.mk i cs) :: fs, hw => by
    simp only [wfProject, Bool.and_eq_true] at hw
    have hwf := hw.1
    simp only [wfFile, Bool.and_eq_true, beq_iff_eq] at hwf
    have hk := wfKids_inherit p hp fuel .file cs hwf.2
    simp [inheritList, wfProject, wfFile, Ent.inherit, hwf.1, hk, wfProject_inheritList p hp fuel fs hw.2]

/-- the project as `correlate` leaves it (every extending type carries the members it inherits) is a
    well-formed project -/
theorem wfProject_inheritProject (p : List Ent) (hp : wfProject p = true) (fuel : Nat) :
    wfProject (inheritProject p fuel) = true :=
  wfProject_inheritList p hp fuel p hp

theorem noFileDisplay_inheritList (p : List Ent) (fuel : Nat) :
    (fs : List Ent) → noFileDisplay (inheritList p fuel fs) = noFileDisplay fs
  | [] => rfl
  | f :: fs => by simp [inheritList, noFileDisplay, inherit_info, noFileDisplay_inheritList p fuel fs]

/-- the members of an extending type after `correlate`: the public components and the non-private
    bindings of the type it extends (with what that type inherited itself), then its own -/
theorem inherit_type_kids (p : List Ent) (fuel : Nat) (i : Info) (cs : Ents) (m : Nat)
    (hk : i.kind = .type) (he : i.ext = some m) :
    (Ent.inherit p fuel (.mk i cs)).kids = ((membersOf p fuel m).inheritable).append (cs.inherit p fuel) := by
  simp [Ent.inherit, Ent.kids, hk, he]

/-- `FortranType.prune` treats an inherited member like an own one: it stays (and becomes linkable)
    iff the extending type's display list selects it -/
theorem dtype_member_kept_iff (cfg : Cfg) (d : List Word) (c : Ent) (rest : Ents)
    (hk : (c.info.kind == .variable || c.info.kind == .boundproc) = true) :
    pruneKids cfg .dtype false d (.cons c rest) =
      if shouldDisplay cfg d c.info then .cons c.setVisible (pruneKids cfg .dtype false d rest)
      else pruneKids cfg .dtype false d rest := by
  have h : listOf c.info.kind = "variables" ∨ listOf c.info.kind = "boundprocs" := by
    simp only [Bool.or_eq_true, beq_iff_eq] at hk
    rcases hk with h | h <;> simp [h, listOf]
  have hf : filteredIn .dtype (listOf c.info.kind) = true := by rcases h with h | h <;> rw [h] <;> decide
  have hr : recurseIn .dtype (listOf c.info.kind) = false := by rcases h with h | h <;> rw [h] <;> decide
  have hv : visibleOnlyIn .dtype (listOf c.info.kind) = true := by rcases h with h | h <;> rw [h] <;> decide
  simp only [pruneKids, Bool.false_eq_true, if_false, hf, hr, hv, Bool.true_and]
  cases shouldDisplay cfg d c.info <;> simp

end Ford.Display

namespace Ford.Display
open Ford.Display.Spec

/-! ### without type extension `correlate` adds no member to any type -/

mutual
theorem inherit_noExt (p : List Ent) (fuel : Nat) : (e : Ent) → e.hasExt = false → e.inherit p fuel = e
  | .mk i cs, h => by
    simp only [Ent.hasExt, Bool.or_eq_false_iff] at h
    have hn : i.ext = none := by
      cases hx : i.ext
      · rfl
      · simp [hx] at h
    simp only [Ent.inherit, hn, inherits_noExt p fuel cs h.2]
    cases i.kind <;> rfl
theorem inherits_noExt (p : List Ent) (fuel : Nat) : (es : Ents) → es.hasExt = false → es.inherit p fuel = es
  | .nil, _ => rfl
  | .cons e rest, h => by
    simp only [Ents.hasExt, Bool.or_eq_false_iff] at h
    simp [Ents.inherit, inherit_noExt p fuel e h.1, inherits_noExt p fuel rest h.2]
end

theorem inheritList_noExtension (p : List Ent) (fuel : Nat) :
    (fs : List Ent) → noExtension fs = true → inheritList p fuel fs = fs
  | [], _ => rfl
  | f :: fs, h => by
    simp only [noExtension, Bool.and_eq_true, Bool.not_eq_true'] at h
    simp [inheritList, inherit_noExt p fuel f h.1, inheritList_noExtension p fuel fs h.2]

end Ford.Display

namespace Ford.Display
open Ford.Display.Spec Ford.Generated

/-! ### per page: whatever a page shows is shown by the site-level abstraction -/

theorem tbl_arglike_not_nml : ∀ k : Kind, isArgLike k = true → (k == .namelist) = false ∧ isProc k = false := by
  intro k; cases k <;> decide

theorem mem_argIds_rendered (pk : Kind) (x : Nat) : (cs : Ents) → x ∈ cs.argIds → x ∈ cs.rendered pk
  | .nil => by simp [Ents.argIds]
  | .cons (.mk i ks) rest => by
    intro h
    simp only [Ents.argIds, Ent.info, List.mem_append] at h
    simp only [Ents.rendered, List.mem_append]
    rcases h with h | h
    · left
      cases ha : isArgLike i.kind
      · simp [ha] at h
      · obtain ⟨h1, h2⟩ := tbl_arglike_not_nml _ ha
        simp only [ha, if_true, List.mem_singleton] at h
        simp [Ent.rendered, h1, h]
    · exact Or.inr (mem_argIds_rendered pk x rest h)

theorem tbl_unit_not_summary : ∀ k : Kind, unitLike k = true → summaryIn k = false := by
  intro k; cases k <;> decide

theorem tbl_proc_not_nml : ∀ k : Kind, isProc k = true → (k == .namelist) = false := by
  intro k; cases k <;> decide

theorem mem_onUnitPage_rendered (uk : Kind) (hu : unitLike uk = true) (x : Nat) :
    (cs : Ents) → x ∈ cs.onUnitPage uk → x ∈ cs.rendered uk
  | .nil => by simp [Ents.onUnitPage]
  | .cons (.mk i ks) rest => by
    intro h
    simp only [Ents.onUnitPage, Ent.info, Ent.kids, List.mem_append] at h
    simp only [Ents.rendered, List.mem_append]
    rcases h with h | h
    · left
      cases hp : isProc i.kind
      · simpa [hp] using h
      · simp only [hp, if_true] at h
        simp only [Ent.rendered, tbl_proc_not_nml _ hp, hp, tbl_unit_not_summary _ hu, Bool.false_and,
          Bool.and_false, Bool.false_eq_true, if_false]
        simp only [List.mem_cons] at h ⊢
        rcases h with h | h
        · exact Or.inl h
        · exact Or.inr (mem_argIds_rendered _ x ks h)
    · exact Or.inr (mem_onUnitPage_rendered uk hu x rest h)

mutual
theorem mem_pageRefs_renderedRefs (b : Bool) (pk : Kind) (x : Nat) :
    (e : Ent) → x ∈ e.pageRefs b pk → x ∈ e.renderedRefs pk
  | .mk i cs => by
    intro h
    simp only [Ent.pageRefs] at h
    simp only [Ent.renderedRefs]
    split
    · rename_i hn; simp [hn] at h
    · rename_i hn
      simp only [hn, if_false, List.mem_append, Bool.false_eq_true] at h
      simp only [List.mem_append]
      rcases h with h | h
      · left
        split at h
        · simp at h
        · exact h
      · right
        split at h
        · simp at h
        · rename_i hs
          simp only [hs, if_false, Bool.false_eq_true]
          exact mems_pageRefs_renderedRefs b i.kind x cs h
theorem mems_pageRefs_renderedRefs (b : Bool) (pk : Kind) (x : Nat) :
    (es : Ents) → x ∈ es.pageRefs b pk → x ∈ es.renderedRefs pk
  | .nil => by simp [Ents.pageRefs]
  | .cons e rest => by
    intro h
    simp only [Ents.pageRefs, List.mem_append] at h
    simp only [Ents.renderedRefs, List.mem_append]
    rcases h with h | h
    · exact Or.inl (mem_pageRefs_renderedRefs b pk x e h)
    · exact Or.inr (mems_pageRefs_renderedRefs b pk x rest h)
end

theorem mem_refsShown (orig : List Ent) (x : Nat) : (l : List Nat) → x ∈ refsShown orig l → ∃ r, r ∈ l ∧ x ∈ refShown orig r
  | [] => by simp [refsShown]
  | r :: rs => by
    intro h
    simp only [refsShown, List.mem_append] at h
    rcases h with h | h
    · exact ⟨r, by simp, h⟩
    · obtain ⟨r', hr, hx⟩ := mem_refsShown orig x rs h
      exact ⟨r', by simp [hr], hx⟩

theorem refsShown_mem (orig : List Ent) (x r : Nat) : (l : List Nat) → r ∈ l → x ∈ refShown orig r → x ∈ refsShown orig l
  | [] => by simp
  | a :: rs => by
    intro hr hx
    simp only [refsShown, List.mem_append]
    simp only [List.mem_cons] at hr
    rcases hr with hr | hr
    · left; rw [← hr]; exact hx
    · exact Or.inr (refsShown_mem orig x r rs hr hx)

theorem refsShown_mono (orig : List Ent) (x : Nat) (l l' : List Nat) (h : ∀ r, r ∈ l → r ∈ l')
    (hx : x ∈ refsShown orig l) : x ∈ refsShown orig l' := by
  obtain ⟨r, hr, hxr⟩ := mem_refsShown orig x l hx
  exact refsShown_mem orig x r l' (h r hr) hxr

theorem tbl_unit_kind : ∀ k : Kind, unitLike k = true → isProc k = false ∧ (k == .namelist) = false := by
  intro k; cases k <;> decide

theorem mem_unitPageRefs (uk : Kind) (hu : unitLike uk = true) (x : Nat) :
    (cs : Ents) → x ∈ cs.unitPageRefs uk → x ∈ cs.renderedRefs uk
  | .nil => by simp [Ents.unitPageRefs]
  | .cons c rest => by
    intro h
    simp only [Ents.unitPageRefs, List.mem_append] at h
    simp only [Ents.renderedRefs, List.mem_append]
    rcases h with h | h
    · left
      cases hp : isProc c.info.kind
      · simp only [hp, Bool.false_eq_true, if_false] at h
        exact mem_pageRefs_renderedRefs false uk x c h
      · simp [hp] at h
    · exact Or.inr (mem_unitPageRefs uk hu x rest h)

/-- what the page of `e` shows is rendered, or named by something rendered, at `e` -/
theorem mem_pageShows (orig : List Ent) (pk : Kind) (x : Nat) :
    (e : Ent) → x ∈ e.pageShows orig pk →
    x ∈ e.rendered pk ∨ x ∈ refsShown orig (e.renderedRefs pk)
  | .mk i cs => by
    intro h
    simp only [Ent.pageShows, Ent.info, Ent.kids] at h
    cases hu : unitLike i.kind
    · simp only [hu, Bool.false_eq_true, if_false, List.mem_append] at h
      rcases h with h | h
      · exact Or.inl h
      · exact Or.inr (refsShown_mono orig x _ _ (fun r hr => mem_pageRefs_renderedRefs _ pk r _ hr) h)
    · simp only [hu, if_true, List.mem_append] at h
      obtain ⟨hnp, hnn⟩ := tbl_unit_kind _ hu
      rcases h with h | h
      · left
        simp only [Ent.rendered, hnn, hnp, Bool.false_and, Bool.false_eq_true, if_false]
        simp only [List.mem_cons] at h ⊢
        rcases h with h | h
        · exact Or.inl h
        · exact Or.inr (mem_onUnitPage_rendered i.kind hu x cs h)
      · right
        refine refsShown_mono orig x _ _ ?_ h
        intro r hr
        simp only [Ent.renderedRefs, hnn, hnp, Bool.false_and, Bool.false_eq_true, if_false, List.mem_append]
        exact Or.inr (mem_unitPageRefs i.kind hu r cs hr)

theorem mem_memberPages (orig : List Ent) (uk : Kind) (pg : Nat) (ids : List Nat) (x : Nat) (hx : x ∈ ids) :
    (cs : Ents) → (pg, ids) ∈ cs.memberPages orig uk →
    x ∈ cs.rendered uk ∨ x ∈ refsShown orig (cs.renderedRefs uk)
  | .nil => by simp [Ents.memberPages]
  | .cons c rest => by
    intro h
    simp only [Ents.memberPages, List.mem_append] at h
    simp only [Ents.rendered, Ents.renderedRefs, List.mem_append]
    rcases h with h | h
    · cases hc : inContainers (listOf c.info.kind)
      · simp [hc] at h
      · simp only [hc, if_true, List.mem_singleton, Prod.mk.injEq] at h
        rw [h.2] at hx
        rcases mem_pageShows orig uk x c hx with h1 | h1
        · exact Or.inl (Or.inl h1)
        · right
          exact refsShown_mono orig x _ _ (fun r hr => by simp [hr]) h1
    · rcases mem_memberPages orig uk pg ids x hx rest h with h1 | h1
      · exact Or.inl (Or.inr h1)
      · right
        exact refsShown_mono orig x _ _ (fun r hr => by simp [hr]) h1

theorem tbl_chain_kind : ∀ k : Kind, inChain (listOf k) = true → (k == .namelist) = false ∧ isProc k = false := by
  intro k; cases k <;> decide

theorem mem_unitPagesShown (orig : List Ent) (pg : Nat) (ids : List Nat) (x : Nat) (hx : x ∈ ids) :
    (us : Ents) → (pg, ids) ∈ us.unitPagesShown orig →
    x ∈ us.rendered .file ∨ x ∈ refsShown orig (us.renderedRefs .file)
  | .nil => by simp [Ents.unitPagesShown]
  | .cons (.mk i cs) rest => by
    intro h
    simp only [Ents.unitPagesShown, Ent.info, Ent.kids, List.mem_append, List.mem_cons] at h
    simp only [Ents.rendered, Ents.renderedRefs, List.mem_append]
    rcases h with (h | h) | h
    · simp only [Prod.mk.injEq] at h
      rw [h.2] at hx
      rcases mem_pageShows orig .file x _ hx with h1 | h1
      · exact Or.inl (Or.inl h1)
      · right
        exact refsShown_mono orig x _ _ (fun r hr => by simp [hr]) h1
    · cases hc : inChain (listOf i.kind)
      · simp [hc] at h
      · simp only [hc, if_true] at h
        obtain ⟨hnn, hnp⟩ := tbl_chain_kind _ hc
        rcases mem_memberPages orig i.kind pg ids x hx cs h with h1 | h1
        · left; left
          simp only [Ent.rendered, hnn, hnp, Bool.false_and, Bool.false_eq_true, if_false, List.mem_cons]
          exact Or.inr h1
        · right
          refine refsShown_mono orig x _ _ ?_ h1
          intro r hr
          simp only [Ent.renderedRefs, hnn, hnp, Bool.false_and, Bool.false_eq_true, if_false, List.mem_append]
          exact Or.inl (Or.inr hr)
    · rcases mem_unitPagesShown orig pg ids x hx rest h with h1 | h1
      · exact Or.inl (Or.inr h1)
      · right
        exact refsShown_mono orig x _ _ (fun r hr => by simp [hr]) h1

theorem mem_filePagesShown (cfg : Cfg) (orig : List Ent) (pg : Nat) (ids : List Nat) (x : Nat) (hx : x ∈ ids) :
    (p : List Ent) → wfProject p = true → (pg, ids) ∈ filePagesShown orig (pruneProject cfg p) →
    x ∈ renderedOf (pruneProject cfg p) ∨ x ∈ refsShown orig (renderedRefsOf (pruneProject cfg p))
  | [], _ => by simp [pruneProject, filePagesShown]
  | (.mk i cs) :: fs, hw => by
    simp only [wfProject, Bool.and_eq_true] at hw
    have hwf := hw.1
    simp only [wfFile, Bool.and_eq_true, beq_iff_eq] at hwf
    intro h
    simp only [pruneProject, pruneFile, filePagesShown, Ent.info, Ent.kids, List.mem_append, List.mem_cons] at h
    simp only [pruneProject, pruneFile, renderedOf, renderedRefsOf, List.mem_append]
    have hk := hwf.1
    rcases h with (h | h) | h
    · simp only [Prod.mk.injEq] at h
      rw [h.2] at hx
      simp only [List.mem_singleton] at hx
      left; left
      simp [Ent.rendered, hk, hx, isProc]
    · rcases mem_unitPagesShown orig pg ids x hx _ h with h1 | h1
      · left; left
        simp [Ent.rendered, hk, isProc, h1]
      · right
        refine refsShown_mono orig x _ _ ?_ h1
        intro r hr
        simp [Ent.renderedRefs, hk, isProc, hr]
    · rcases mem_filePagesShown cfg orig pg ids x hx fs hw.2 h with h1 | h1
      · exact Or.inl (Or.inr h1)
      · right
        exact refsShown_mono orig x _ _ (fun r hr => by simp [hr]) h1

theorem mem_nmlPagesShown (pg : Nat) (ids : List Nat) (x : Nat) (hx : x ∈ ids) :
    (ns : List Ent) → (pg, ids) ∈ nmlPagesShown ns → x ∈ nmlShown ns
  | [] => by simp [nmlPagesShown]
  | n :: ns => by
    intro h
    simp only [nmlPagesShown, List.mem_cons] at h
    simp only [nmlShown, List.mem_append]
    rcases h with h | h
    · simp only [Prod.mk.injEq] at h
      rw [h.2] at hx
      exact Or.inl hx
    · exact Or.inr (mem_nmlPagesShown pg ids x hx ns h)

/-- per page: whatever the model says a page shows is shown by the site-level abstraction -/
theorem mem_pagesShown (cfg : Cfg) (p : List Ent) (hw : wfProject p = true) (pg : Nat) (ids : List Nat)
    (h : (pg, ids) ∈ pagesShown cfg p) (x : Nat) (hx : x ∈ ids) : x ∈ shownIds cfg p := by
  simp only [pagesShown, List.mem_append] at h
  simp only [shownIds, List.mem_append]
  rcases h with h | h
  · rcases mem_filePagesShown cfg p pg ids x hx p hw h with h1 | h1
    · exact Or.inl (Or.inl h1)
    · exact Or.inl (Or.inr h1)
  · exact Or.inr (mem_nmlPagesShown pg ids x hx _ h)

end Ford.Display

namespace Ford.Display
open Ford.Display.Spec Ford.Generated

/-! ### `extends(...)` links: outside block data only a type that survived `prune()` is linked -/

mutual
theorem noBlockData_find (n : Nat) : (e : Ent) → e.noBlockData = true → (r : Ent) → e.find n = some r →
    r.info.kind ≠ .blockdata
  | .mk i cs, h, r, hf => by
    simp only [Ent.noBlockData, Bool.and_eq_true, bne_iff_ne] at h
    simp only [Ent.find] at hf
    split at hf
    · cases hf; exact h.1
    · exact noBlockData_finds n cs h.2 r hf
theorem noBlockData_finds (n : Nat) : (es : Ents) → es.noBlockData = true → (r : Ent) → es.find n = some r →
    r.info.kind ≠ .blockdata
  | .nil, _, r, hf => by simp [Ents.find] at hf
  | .cons e rest, h, r, hf => by
    simp only [Ents.noBlockData, Bool.and_eq_true] at h
    simp only [Ents.find] at hf
    split at hf
    · rename_i r' hr
      cases hf
      exact noBlockData_find n e h.1 r hr
    · exact noBlockData_finds n rest h.2 r hf
end

theorem noBlockData_findIn (n : Nat) : (p : List Ent) → noBlockDataIn p = true → (r : Ent) → findIn n p = some r →
    r.info.kind ≠ .blockdata
  | [], _, r, hf => by simp [findIn] at hf
  | e :: es, h, r, hf => by
    simp only [noBlockDataIn, Bool.and_eq_true] at h
    simp only [findIn] at hf
    split at hf
    · rename_i r' hr
      cases hf
      exact noBlockData_find n e h.1 r hr
    · exact noBlockData_findIn n es h.2 r hf

theorem tbl_visibleBeforePrune : ∀ pk : Kind, pk ≠ .blockdata → visibleBeforePrune pk .type = false := by
  intro pk; cases pk <;> simp [visibleBeforePrune]

/-- without block data, a type is linked only if some `prune()` kept it -/
theorem extLinked_visible (orig q : List Ent) (hn : noBlockDataIn orig = true) (m : Nat)
    (h : extLinked orig q m = true) : m ∈ visibleIdsOf q := by
  simp only [extLinked, Bool.or_eq_true, List.contains_iff_mem] at h
  rcases h with h | h
  · exact h
  · simp only [parentKindIn] at h
    split at h
    · rename_i pk hpk
      split at hpk
      · rename_i par _
        cases hf : findIn par orig with
        | none => simp [hf] at hpk
        | some r =>
          simp only [hf, Option.map_some, Option.some.injEq] at hpk
          have := noBlockData_findIn par orig hn r hf
          rw [hpk] at this
          rw [tbl_visibleBeforePrune pk this] at h
          exact absurd h (by decide)
      · simp at hpk
    · exact absurd h (by decide)

mutual
theorem mem_extLinks (orig q : List Ent) (hn : noBlockDataIn orig = true) (t m : Nat) :
    (e : Ent) → (t, m) ∈ e.extLinks orig q → m ∈ visibleIdsOf q
  | .mk i cs => by
    intro h
    simp only [Ent.extLinks, List.mem_append] at h
    rcases h with h | h
    · split at h
      · rename_i m' _ _
        by_cases hl : extLinked orig q m' = true
        · simp only [hl, if_true, List.mem_singleton, Prod.mk.injEq] at h
          rw [h.2]; exact extLinked_visible orig q hn m' hl
        · simp [hl] at h
      · simp at h
    · exact mems_extLinks orig q hn t m cs h
theorem mems_extLinks (orig q : List Ent) (hn : noBlockDataIn orig = true) (t m : Nat) :
    (es : Ents) → (t, m) ∈ es.extLinks orig q → m ∈ visibleIdsOf q
  | .nil => by simp [Ents.extLinks]
  | .cons e rest => by
    intro h
    simp only [Ents.extLinks, List.mem_append] at h
    rcases h with h | h
    · exact mem_extLinks orig q hn t m e h
    · exact mems_extLinks orig q hn t m rest h
end

theorem mem_extLinksOf (orig q : List Ent) (hn : noBlockDataIn orig = true) (t m : Nat) :
    (es : List Ent) → (t, m) ∈ extLinksOf orig q es → m ∈ visibleIdsOf q
  | [] => by simp [extLinksOf]
  | e :: es => by
    intro h
    simp only [extLinksOf, List.mem_append] at h
    rcases h with h | h
    · exact mem_extLinks orig q hn t m e h
    · exact mem_extLinksOf orig q hn t m es h

/-! ### `proc_internals` off: the display list plays no part -/

theorem pruneKids_off_display (cfg : Cfg) (cl : PClass) (d d' : List Word) :
    (cs : Ents) → pruneKids cfg cl true d cs = pruneKids cfg cl true d' cs
  | .nil => by simp [pruneKids]
  | .cons e rest => by
    simp only [pruneKids, if_true]
    rw [pruneKids_off_display cfg cl d d' rest]

/-! ### name links of `bound_declaration` -/

theorem bindLinked_page (orig q : List Ent) (b : Bool) (d : Nat) (h : bindLinked true orig q b d = true) :
    d ∈ pageIds q ∧ d ∈ visibleIdsOf q := by
  simp only [bindLinked, bindNameLink, Bool.and_eq_true, Bool.true_and, Bool.not_true, Bool.false_or, if_true,
    List.contains_iff_mem] at h
  exact ⟨h.2, h.1.2⟩

theorem mem_bindLinksIn (orig q : List Ent) (t t' b d : Nat) :
    (es : Ents) → (t', b, d) ∈ es.bindLinksIn true orig q t → d ∈ pageIds q ∧ d ∈ visibleIdsOf q
  | .nil => by simp [Ents.bindLinksIn]
  | .cons e rest => by
    intro h
    simp only [Ents.bindLinksIn, List.mem_append] at h
    rcases h with h | h
    · split at h
      · split at h
        · rename_i d' _
          by_cases hl : bindLinked true orig q e.info.visible d' = true
          · simp only [hl, if_true, List.mem_singleton, Prod.mk.injEq] at h
            rw [h.2.2]; exact bindLinked_page orig q _ d' hl
          · simp [hl] at h
        · simp at h
      · simp at h
    · exact mem_bindLinksIn orig q t t' b d rest h

mutual
theorem mem_bindLinks (orig q : List Ent) (t b d : Nat) :
    (e : Ent) → (t, b, d) ∈ e.bindLinks true orig q → d ∈ pageIds q ∧ d ∈ visibleIdsOf q
  | .mk i cs => by
    intro h
    simp only [Ent.bindLinks, List.mem_append] at h
    rcases h with h | h
    · split at h
      · exact mem_bindLinksIn orig q i.id t b d cs h
      · simp at h
    · exact mems_bindLinks orig q t b d cs h
theorem mems_bindLinks (orig q : List Ent) (t b d : Nat) :
    (es : Ents) → (t, b, d) ∈ es.bindLinks true orig q → d ∈ pageIds q ∧ d ∈ visibleIdsOf q
  | .nil => by simp [Ents.bindLinks]
  | .cons e rest => by
    intro h
    simp only [Ents.bindLinks, List.mem_append] at h
    rcases h with h | h
    · exact mem_bindLinks orig q t b d e h
    · exact mems_bindLinks orig q t b d rest h
end

theorem mem_bindLinksOf (orig q : List Ent) (t b d : Nat) :
    (es : List Ent) → (t, b, d) ∈ bindLinksOf true orig q es → d ∈ pageIds q ∧ d ∈ visibleIdsOf q
  | [] => by simp [bindLinksOf]
  | e :: es => by
    intro h
    simp only [bindLinksOf, List.mem_append] at h
    rcases h with h | h
    · exact mem_bindLinks orig q t b d e h
    · exact mem_bindLinksOf orig q t b d es h

/-! ### graph nodes -/

theorem nodeUrl_page (orig q : List Ent) (i : Info) (pg : Nat) (h : nodeUrl orig q i = some pg) :
    pg ∈ pageIds q := by
  simp only [nodeUrl] at h
  split at h
  · split at h
    · rename_i d _
      split at h
      · rename_i hl
        simp only [Option.some.injEq] at h
        simp only [nodeLinked, Bool.and_eq_true, List.contains_iff_mem] at hl
        rw [← h]; exact hl.1.1
      · simp at h
    · simp at h
  · split at h
    · rename_i hl
      simp only [Option.some.injEq] at h
      simp only [nodeLinked, Bool.and_eq_true, List.contains_iff_mem] at hl
      rw [← h]; exact hl.1.1
    · split at h
      · split at h
        · split at h
          · rename_i hl
            simp only [Option.some.injEq] at h
            simp only [nodeLinked, Bool.and_eq_true, List.contains_iff_mem] at hl
            rw [← h]; exact hl.1.1
          · simp at h
        · simp at h
      · simp at h

mutual
theorem mem_nodeUrls (orig q : List Ent) (x pg : Nat) :
    (e : Ent) → (x, pg) ∈ e.nodeUrls orig q → pg ∈ pageIds q
  | .mk i cs => by
    intro h
    simp only [Ent.nodeUrls, List.mem_append] at h
    rcases h with h | h
    · split at h
      · split at h
        · rename_i pg' hn
          simp only [List.mem_singleton, Prod.mk.injEq] at h
          rw [h.2]; exact nodeUrl_page orig q i pg' hn
        · simp at h
      · simp at h
    · exact mems_nodeUrls orig q x pg cs h
theorem mems_nodeUrls (orig q : List Ent) (x pg : Nat) :
    (es : Ents) → (x, pg) ∈ es.nodeUrls orig q → pg ∈ pageIds q
  | .nil => by simp [Ents.nodeUrls]
  | .cons e rest => by
    intro h
    simp only [Ents.nodeUrls, List.mem_append] at h
    rcases h with h | h
    · exact mem_nodeUrls orig q x pg e h
    · exact mems_nodeUrls orig q x pg rest h
end

theorem mem_nodeUrlsOf (orig q : List Ent) (x pg : Nat) :
    (es : List Ent) → (x, pg) ∈ nodeUrlsOf orig q es → pg ∈ pageIds q
  | [] => by simp [nodeUrlsOf]
  | e :: es => by
    intro h
    simp only [nodeUrlsOf, List.mem_append] at h
    rcases h with h | h
    · exact mem_nodeUrls orig q x pg e h
    · exact mem_nodeUrlsOf orig q x pg es h

mutual
theorem mem_visibleIds_ids (x : Nat) : (e : Ent) → x ∈ e.visibleIds → x ∈ e.ids
  | .mk i cs => by
    intro h
    simp only [Ent.visibleIds, List.mem_append] at h
    simp only [Ent.ids, List.mem_cons]
    rcases h with h | h
    · left
      by_cases hv : i.visible = true
      · simpa [hv] using h
      · simp [hv] at h
    · exact Or.inr (mems_visibleIds_ids x cs h)
theorem mems_visibleIds_ids (x : Nat) : (es : Ents) → x ∈ es.visibleIds → x ∈ es.ids
  | .nil => by simp [Ents.visibleIds]
  | .cons e rest => by
    intro h
    simp only [Ents.visibleIds, List.mem_append] at h
    simp only [Ents.ids, List.mem_append]
    rcases h with h | h
    · exact Or.inl (mem_visibleIds_ids x e h)
    · exact Or.inr (mems_visibleIds_ids x rest h)
end

theorem mem_visibleIdsOf_idsOf (x : Nat) : (q : List Ent) → x ∈ visibleIdsOf q → x ∈ idsOf q
  | [] => by simp [visibleIdsOf]
  | e :: es => by
    intro h
    simp only [visibleIdsOf, List.mem_append] at h
    simp only [idsOf, List.mem_append]
    rcases h with h | h
    · exact Or.inl (mem_visibleIds_ids x e h)
    · exact Or.inr (mem_visibleIdsOf_idsOf x es h)

end Ford.Display
