import FordModel.Display
import FordModel.DisplaySpec
namespace Ford.Display
open Ford.Display.Spec

/-- a display list and a display set agree on the three permission words -/
def Agree (d : List Word) (D : Word → Bool) : Prop := ∀ p, isPerm p = true → d.contains p = D p

theorem agree_setDisplay (f : Bool) (d : List Word) (D : Word → Bool) (md : List Word) (h : Agree d D) :
    Agree (setDisplay f d md) (inForce f D md) := by
  intro p hp
  have hd := h p hp
  unfold setDisplay inForce saysSomething denotes
  generalize (if f = true then List.filter (fun w => w != Word.none) md else md) = tmp
  cases p <;> simp [isPerm] at hp <;>
    by_cases h0 : tmp.isEmpty <;> by_cases h1 : tmp.contains Word.none <;>
    by_cases h2 : tmp.contains Word.pub <;> by_cases h3 : tmp.contains Word.priv <;>
    by_cases h4 : tmp.contains Word.prot <;> simp_all

theorem agree_project (cfg : Cfg) (h : cfgOk cfg = true) : Agree cfg.display (denotes cfg.display) := by
  intro p hp
  unfold cfgOk at h
  unfold denotes
  cases p <;> simp [isPerm] at hp <;>
    by_cases h1 : cfg.display.contains Word.none <;> simp_all

/-! ### facts about the generated tables (checked by evaluation; editing a `prune` changes them) -/

theorem tbl_filtered : ∀ pk ck : Kind, kidOk pk ck = true → ck ≠ .enum → classOf pk ≠ .none →
    filteredIn (classOf pk) (listOf ck) = !alwaysShown ck := by
  intro pk ck; cases pk <;> cases ck <;> decide

theorem tbl_emptied : ∀ pk ck : Kind, kidOk pk ck = true → ck ≠ .enum → isProc pk = true →
    emptiedIn (classOf pk) (listOf ck) = !alwaysShown ck := by
  intro pk ck; cases pk <;> cases ck <;> decide

theorem tbl_recurse : ∀ pk ck : Kind, kidOk pk ck = true → ck ≠ .enum → classOf pk ≠ .none →
    recurseIn (classOf pk) (listOf ck) = (classOf ck != .none) := by
  intro pk ck; cases pk <;> cases ck <;> decide

theorem tbl_leaf_kids : ∀ pk ck : Kind, kidOk pk ck = true → classOf pk = .none → pk ≠ .file → pk ≠ .enum →
    ck = .arg := by
  intro pk ck; cases pk <;> cases ck <;> decide

theorem tbl_arg_no_kids : ∀ ck : Kind, kidOk .arg ck = false := by
  intro ck; cases ck <;> decide

theorem tbl_proc_class : ∀ k : Kind, isProc k = true → classOf k ≠ .none := by
  intro k; cases k <;> decide

theorem tbl_always_leaf : ∀ k : Kind, alwaysShown k = true → classOf k = .none ∧ k ≠ .file ∧ k ≠ .enum := by
  intro k; cases k <;> decide

theorem tbl_args_kept : ∀ cl : PClass, emptiedIn cl "args" = false ∧ filteredIn cl "args" = false := by
  intro cl; cases cl <;> decide

theorem tbl_kid_not_file : ∀ pk ck : Kind, kidOk pk ck = true → pk ≠ .file → ck ≠ .file := by
  intro pk ck; cases pk <;> cases ck <;> decide

/-! ### small structural facts -/

theorem setVisible_info_kind (e : Ent) : e.setVisible.info.kind = e.info.kind := by
  cases e; rfl
theorem setVisible_info_id (e : Ent) : e.setVisible.info.id = e.info.id := by
  cases e; rfl

theorem setVisible_rendered (e : Ent) (b : Bool) : e.setVisible.rendered b = e.rendered b := by
  cases e with
  | mk i cs => simp [Ent.setVisible, Ent.rendered]

theorem prune_info (cfg : Cfg) (d : List Word) (e : Ent) : (prune cfg d e).info = e.info := by
  cases e; simp [prune, Ent.info]

theorem wfKids_arg_nil : (cs : Ents) → wfKids .arg cs = true → cs = .nil
  | .nil, _ => rfl
  | .cons e rest, h => by
    simp [wfKids, tbl_arg_no_kids] at h

/-- the children of an interface-like entity are dummy arguments without children; they are all
    rendered and all selected -/
theorem leaf_kids (cfg : Cfg) (b off : Bool) (D : Word → Bool) (pk : Kind)
    (hc : classOf pk = .none) (hf : pk ≠ .file) (he : pk ≠ .enum) :
    (cs : Ents) → wfKids pk cs = true → cs.rendered b = selKids cfg b off D cs
  | .nil, _ => by simp [Ents.rendered, selKids]
  | .cons (.mk i ks) rest, h => by
    simp only [wfKids, Bool.and_eq_true, Ent.info] at h
    obtain ⟨⟨hk, hw⟩, hr⟩ := h
    have harg : i.kind = .arg := tbl_leaf_kids pk i.kind hk hc hf he
    simp only [wf, Bool.and_eq_true] at hw
    have hnil : ks = .nil := wfKids_arg_nil ks (by rw [← harg]; exact hw.2)
    subst hnil
    have ih := leaf_kids cfg b off D pk hc hf he rest hr
    simp [Ents.rendered, selKids, Ent.rendered, sel, Ent.info, harg, alwaysShown, isProc, ih, Ents.argIds]

/-- an entity of a kind that has no `prune` (variable, binding, interface, dummy argument ...)
    is rendered with everything below it, and all of that is selected -/
theorem leaf_ent (cfg : Cfg) (pproc : Bool) (D : Word → Bool) (e : Ent) (hw : wf e = true)
    (hc : classOf e.info.kind = .none) (hf : e.info.kind ≠ .file) (he : e.info.kind ≠ .enum) :
    e.rendered pproc = sel cfg pproc D e := by
  cases e with
  | mk i cs =>
    simp only [Ent.info] at hc hf he
    have hp : isProc i.kind = false := by
      cases h : isProc i.kind
      · rfl
      · exact absurd hc (tbl_proc_class _ h)
    simp only [wf, Bool.and_eq_true] at hw
    simp [Ent.rendered, sel, hp, procOff, leaf_kids cfg false false D i.kind hc hf he cs hw.2]

/-- dummy arguments are never removed by a `prune` -/
theorem argIds_pruneKids (cfg : Cfg) (cl : PClass) (off : Bool) (d : List Word) :
    (cs : Ents) → (pruneKids cfg cl off d cs).argIds = cs.argIds
  | .nil => by simp [pruneKids]
  | .cons e rest => by
    have ih := argIds_pruneKids cfg cl off d rest
    by_cases ha : e.info.kind = .arg
    · have h1 := (tbl_args_kept cl).1
      have h2 := (tbl_args_kept cl).2
      have hr : recurseIn cl "args" = false := by cases cl <;> decide
      have hv : visibleOnlyIn cl "args" = false := by cases cl <;> decide
      simp [pruneKids, ha, listOf, h1, h2, hr, hv, Ents.argIds, ih]
    · simp only [pruneKids]
      split
      · split <;> simp [Ents.argIds, ha, ih]
      · split
        · exact ih.trans (by simp [Ents.argIds, ha])
        · split
          · simp [Ents.argIds, ha, ih, setVisible_info_kind, prune_info]
          · split <;> simp [Ents.argIds, ha, ih, setVisible_info_kind]

theorem shouldDisplay_agree (cfg : Cfg) (d : List Word) (D : Word → Bool) (i : Info)
    (h : Agree d D) (hp : isPerm i.perm = true) :
    shouldDisplay cfg d i = (D i.perm && (!cfg.hideUndoc || i.doc)) := by
  unfold shouldDisplay
  rw [h _ hp]
  cases cfg.hideUndoc <;> cases i.doc <;> simp

theorem noEnum_kind (e : Ent) (h : noEnum e = true) : e.info.kind ≠ .enum := by
  cases e with
  | mk i cs =>
    simp only [noEnum, Bool.and_eq_true, bne_iff_ne] at h
    exact h.1

theorem wf_perm (e : Ent) (h : wf e = true) : isPerm e.info.perm = true := by
  cases e with
  | mk i cs =>
    simp only [wf, Bool.and_eq_true] at h
    exact h.1

/-! ### the main simulation: rendering the pruned tree = the selected set -/

mutual
theorem rendered_prune (cfg : Cfg) (d : List Word) (D : Word → Bool) (pproc : Bool) (hA : Agree d D) :
    (e : Ent) → wf e = true → noEnum e = true → classOf e.info.kind ≠ .none →
    (prune cfg d e).rendered pproc = sel cfg pproc D e
  | .mk i cs, hw, hn, hc => by
    simp only [wf, Bool.and_eq_true] at hw
    simp only [noEnum, Bool.and_eq_true] at hn
    simp only [Ent.info] at hc
    have hoff : internalsOff cfg i = true → isProc i.kind = true := by
      intro h; simp [internalsOff] at h; exact h.1
    have ih := rendered_pruneKids cfg d D hA i.kind (internalsOff cfg i) hc hoff cs hw.2 hn.2
    simp only [prune, Ent.rendered, sel]
    by_cases hb : (isProc i.kind && pproc) = true
    · simp [hb, argIds_pruneKids]
    · simp only [hb]
      simp only [Bool.false_eq_true, if_false]
      rw [ih]
      rfl
theorem rendered_pruneKids (cfg : Cfg) (d : List Word) (D : Word → Bool) (hA : Agree d D)
    (pk : Kind) (off : Bool) (hc : classOf pk ≠ .none) (hoff : off = true → isProc pk = true) :
    (cs : Ents) → wfKids pk cs = true → noEnumKids cs = true →
    (pruneKids cfg (classOf pk) off d cs).rendered (isProc pk) = selKids cfg (isProc pk) off D cs
  | .nil, _, _ => by simp [pruneKids, Ents.rendered, selKids]
  | .cons e rest, hw, hn => by
    simp only [wfKids, Bool.and_eq_true] at hw
    obtain ⟨⟨hk, hwe⟩, hwr⟩ := hw
    simp only [noEnumKids, Bool.and_eq_true] at hn
    obtain ⟨hne, hnr⟩ := hn
    have ih := rendered_pruneKids cfg d D hA pk off hc hoff rest hwr hnr
    have hen : e.info.kind ≠ .enum := noEnum_kind e hne
    have hperm := wf_perm e hwe
    have hsd := shouldDisplay_agree cfg d D e.info hA hperm
    have hfil := tbl_filtered pk e.info.kind hk hen hc
    have hrec := tbl_recurse pk e.info.kind hk hen hc
    have hA' := agree_setDisplay false d D e.info.disp hA
    simp only [pruneKids, selKids]
    cases off
    · -- internals shown
      simp only [Bool.false_eq_true, if_false, hfil, hsd, Bool.not_false, Bool.true_and]
      cases hal : alwaysShown e.info.kind
      · -- filterable kind
        simp only [Bool.not_false, Bool.true_and, Bool.false_or]
        cases hshow : (D e.info.perm && (!cfg.hideUndoc || e.info.doc))
        · simp [ih]
        · simp only [Bool.not_true, Bool.false_eq_true, if_false, if_true, hrec]
          cases hcl : (classOf e.info.kind != PClass.none)
          · -- kept whole
            have hcn : classOf e.info.kind = .none := by simpa using hcl
            have hpf : pk ≠ .file := by
              intro h; rw [h] at hc; exact hc rfl
            have hnf : e.info.kind ≠ .file := tbl_kid_not_file pk e.info.kind hk hpf
            have hl := leaf_ent cfg (isProc pk) (inForce false D e.info.disp) e hwe hcn hnf hen
            simp only [Bool.false_eq_true, if_false]
            split <;> simp [Ents.rendered, setVisible_rendered, hl, ih]
          · have hcn : classOf e.info.kind ≠ .none := by simpa using hcl
            have hr := rendered_prune cfg (setDisplay false d e.info.disp) (inForce false D e.info.disp)
              (isProc pk) hA' e hwe hne hcn
            simp [Ents.rendered, setVisible_rendered, hr, ih]
      · -- always shown: never filtered, never recursed into
        obtain ⟨hcn, hnf, _⟩ := tbl_always_leaf _ hal
        have hl := leaf_ent cfg (isProc pk) (inForce false D e.info.disp) e hwe hcn hnf hen
        simp only [Bool.not_true, Bool.false_and, Bool.false_eq_true, if_false, Bool.true_or, if_true, hrec, hcn]
        simp only [bne_self_eq_false, Bool.false_eq_true, if_false]
        split <;> simp [Ents.rendered, setVisible_rendered, hl, ih]
    · -- internals off: the parent is a procedure
      have hproc := hoff rfl
      have hemp := tbl_emptied pk e.info.kind hk hen hproc
      simp only [if_true, hemp]
      cases hal : alwaysShown e.info.kind
      · simp [ih]
      · obtain ⟨hcn, hnf, _⟩ := tbl_always_leaf _ hal
        have hl := leaf_ent cfg (isProc pk) (inForce false D e.info.disp) e hwe hcn hnf hen
        simp [Ents.rendered, hl, ih]
end

end Ford.Display

namespace Ford.Display
open Ford.Display.Spec

/-! ### project level -/

theorem tbl_unit_class : ∀ k : Kind, kidOk .file k = true → classOf k ≠ .none := by
  intro k; cases k <;> decide

theorem rendered_pruneUnits (cfg : Cfg) (d : List Word) (D : Word → Bool) (hA : Agree d D) :
    (cs : Ents) → wfKids .file cs = true → noEnumKids cs = true →
    (pruneUnits cfg d cs).rendered false = selUnits cfg D cs
  | .nil, _, _ => by simp [pruneUnits, Ents.rendered, selUnits]
  | .cons u rest, hw, hn => by
    simp only [wfKids, Bool.and_eq_true] at hw
    obtain ⟨⟨hk, hwu⟩, hwr⟩ := hw
    simp only [noEnumKids, Bool.and_eq_true] at hn
    have ih := rendered_pruneUnits cfg d D hA rest hwr hn.2
    have hr := rendered_prune cfg (setDisplay false d u.info.disp) (inForce false D u.info.disp) false
      (agree_setDisplay false d D u.info.disp hA) u hwu hn.1 (tbl_unit_class _ hk)
    simp [pruneUnits, Ents.rendered, selUnits, setVisible_rendered, hr, ih]

theorem inForce_file_nothing (D : Word → Bool) (md : List Word)
    (h : saysSomething (md.filter (fun w => w != Word.none)) = false) : inForce true D md = D := by
  simp [inForce, h]

theorem agree_fileChild (cfg : Cfg) (i : Info) (hc : cfgOk cfg = true)
    (h : cfg.fileInherits = true ∨ saysSomething (i.disp.filter (fun w => w != Word.none)) = false) :
    Agree (fileChildDisplay cfg i) (inForce true (denotes cfg.display) i.disp) := by
  unfold fileChildDisplay
  by_cases hf : cfg.fileInherits = true
  · simp only [hf, if_true]
    exact agree_setDisplay true _ _ _ (agree_project cfg hc)
  · have hs : saysSomething (i.disp.filter (fun w => w != Word.none)) = false := by
      cases h with
      | inl h => exact absurd h hf
      | inr h => exact h
    simp only [hf]
    rw [inForce_file_nothing _ _ hs]
    exact agree_project cfg hc

theorem rendered_pruneFile (cfg : Cfg) (hc : cfgOk cfg = true) (f : Ent) (hw : wfFile f = true)
    (h : cfg.fileInherits = true ∨ saysSomething (f.info.disp.filter (fun w => w != Word.none)) = false) :
    (pruneFile cfg f).rendered false = selFile cfg f := by
  cases f with
  | mk i cs =>
    simp only [wfFile, Bool.and_eq_true, beq_iff_eq] at hw
    obtain ⟨⟨hk, hwk⟩, hn⟩ := hw
    have hA := agree_fileChild cfg i hc h
    have hu := rendered_pruneUnits cfg _ _ hA cs hwk hn
    simp [pruneFile, Ent.rendered, selFile, hk, isProc, hu]

theorem rendered_pruneProject (cfg : Cfg) (hc : cfgOk cfg = true) :
    (p : List Ent) → wfProject p = true → (cfg.fileInherits = true ∨ noFileDisplay p = true) →
    renderedOf (pruneProject cfg p) = selProject cfg p
  | [], _, _ => by simp [pruneProject, renderedOf, selProject]
  | f :: fs, hw, h => by
    simp only [wfProject, Bool.and_eq_true] at hw
    have h1 : cfg.fileInherits = true ∨ saysSomething (f.info.disp.filter (fun w => w != Word.none)) = false := by
      cases h with
      | inl h => exact Or.inl h
      | inr h => simp only [noFileDisplay, Bool.and_eq_true, Bool.not_eq_true'] at h; exact Or.inr h.1
    have h2 : cfg.fileInherits = true ∨ noFileDisplay fs = true := by
      cases h with
      | inl h => exact Or.inl h
      | inr h => simp only [noFileDisplay, Bool.and_eq_true] at h; exact Or.inr h.2
    simp [pruneProject, renderedOf, selProject, rendered_pruneFile cfg hc f hw.1 h1,
      rendered_pruneProject cfg hc fs hw.2 h2]

end Ford.Display

namespace Ford.Display
open Ford.Display.Spec

/-! ### pages -/

theorem tbl_containers : ∀ pk ck : Kind, kidOk .file pk = true → isUnitWithKids pk = true → kidOk pk ck = true →
    inContainers (listOf ck) = pageKind ck := by
  intro pk ck; cases pk <;> cases ck <;> decide

theorem tbl_chain : ∀ pk : Kind, kidOk .file pk = true → inChain (listOf pk) = isUnitWithKids pk := by
  intro pk; cases pk <;> decide

theorem tbl_page_not_always : ∀ k : Kind, pageKind k = true → alwaysShown k = false := by
  intro k; cases k <;> decide

theorem tbl_unit_not_proc : ∀ k : Kind, isUnitWithKids k = true → isProc k = false ∧ classOf k ≠ .none := by
  intro k; cases k <;> decide

theorem setVisible_kids (e : Ent) : e.setVisible.kids = e.kids := by cases e; rfl
theorem setVisible_info_id' (e : Ent) : e.setVisible.info.id = e.info.id := by cases e; rfl
theorem prune_kids (cfg : Cfg) (d : List Word) (e : Ent) :
    (prune cfg d e).kids = pruneKids cfg (classOf e.info.kind) (internalsOff cfg e.info) d e.kids := by
  cases e; simp [prune, Ent.kids, Ent.info]

theorem pageKids_pruneKids (cfg : Cfg) (d : List Word) (D : Word → Bool) (hA : Agree d D) (pk : Kind)
    (hu : kidOk .file pk = true) (hk : isUnitWithKids pk = true) :
    (cs : Ents) → wfKids pk cs = true → noEnumKids cs = true →
    (pruneKids cfg (classOf pk) false d cs).pageKids = selPageKids cfg D cs
  | .nil, _, _ => by simp [pruneKids, Ents.pageKids, selPageKids]
  | .cons e rest, hw, hn => by
    simp only [wfKids, Bool.and_eq_true] at hw
    obtain ⟨⟨hke, hwe⟩, hwr⟩ := hw
    simp only [noEnumKids, Bool.and_eq_true] at hn
    have ih := pageKids_pruneKids cfg d D hA pk hu hk rest hwr hn.2
    have hen := noEnum_kind e hn.1
    have hc := (tbl_unit_not_proc pk hk).2
    have hsd := shouldDisplay_agree cfg d D e.info hA (wf_perm e hwe)
    have hfil := tbl_filtered pk e.info.kind hke hen hc
    have hcont := tbl_containers pk e.info.kind hu hk hke
    simp only [pruneKids, selPageKids, Bool.false_eq_true, if_false, hfil, hsd]
    cases hpg : pageKind e.info.kind
    · -- not a page kind: contributes nothing whichever branch is taken
      simp only [Bool.false_and, Bool.false_eq_true, if_false, List.nil_append]
      split
      · exact ih
      · split
        · simp [Ents.pageKids, setVisible_info_kind, prune_info, hcont, hpg, ih]
        · split <;> simp [Ents.pageKids, setVisible_info_kind, hcont, hpg, ih]
    · have hal := tbl_page_not_always _ hpg
      simp only [hal, Bool.not_false, Bool.true_and]
      cases hshow : (D e.info.perm && (!cfg.hideUndoc || e.info.doc))
      · simp [ih]
      · simp only [Bool.not_true, Bool.false_eq_true, if_false, if_true]
        split
        · simp [Ents.pageKids, setVisible_info_kind, setVisible_info_id, prune_info, hcont, hpg, ih]
        · split <;> simp [Ents.pageKids, setVisible_info_kind, setVisible_info_id, hcont, hpg, ih]

theorem unitPages_pruneUnits (cfg : Cfg) (d : List Word) (D : Word → Bool) (hA : Agree d D) :
    (cs : Ents) → wfKids .file cs = true → noEnumKids cs = true →
    (pruneUnits cfg d cs).unitPages = selUnitPages cfg D cs
  | .nil, _, _ => by simp [pruneUnits, Ents.unitPages, selUnitPages]
  | .cons u rest, hw, hn => by
    simp only [wfKids, Bool.and_eq_true] at hw
    obtain ⟨⟨hk, hwu⟩, hwr⟩ := hw
    simp only [noEnumKids, Bool.and_eq_true] at hn
    have ih := unitPages_pruneUnits cfg d D hA rest hwr hn.2
    have hch := tbl_chain u.info.kind hk
    simp only [pruneUnits, Ents.unitPages, selUnitPages, setVisible_info_kind, setVisible_info_id, prune_info,
      setVisible_kids, prune_kids, hch, ih]
    cases hun : isUnitWithKids u.info.kind
    · simp
    · have hnp := (tbl_unit_not_proc _ hun).1
      have hoff : internalsOff cfg u.info = false := by simp [internalsOff, hnp]
      have hwk : wfKids u.info.kind u.kids = true := by
        cases u with
        | mk i cs => simp only [wf, Bool.and_eq_true] at hwu; exact hwu.2
      have hnk : noEnumKids u.kids = true := by
        cases u with
        | mk i cs => simp only [noEnum, Bool.and_eq_true] at hn; exact hn.1.2
      have hp := pageKids_pruneKids cfg (setDisplay false d u.info.disp) (inForce false D u.info.disp)
        (agree_setDisplay false d D u.info.disp hA) u.info.kind hk hun u.kids hwk hnk
      simp [hoff, hp]

theorem pageIds_pruneProject (cfg : Cfg) (hc : cfgOk cfg = true) :
    (p : List Ent) → wfProject p = true → (cfg.fileInherits = true ∨ noFileDisplay p = true) →
    pageIds (pruneProject cfg p) = selPages cfg p
  | [], _, _ => by simp [pruneProject, pageIds, selPages]
  | (.mk i cs) :: fs, hw, h => by
    simp only [wfProject, Bool.and_eq_true] at hw
    have h1 : cfg.fileInherits = true ∨ saysSomething (i.disp.filter (fun w => w != Word.none)) = false := by
      cases h with
      | inl h => exact Or.inl h
      | inr h => simp only [noFileDisplay, Bool.and_eq_true, Bool.not_eq_true', Ent.info] at h; exact Or.inr h.1
    have h2 : cfg.fileInherits = true ∨ noFileDisplay fs = true := by
      cases h with
      | inl h => exact Or.inl h
      | inr h => simp only [noFileDisplay, Bool.and_eq_true] at h; exact Or.inr h.2
    have hwf := hw.1
    simp only [wfFile, Bool.and_eq_true, beq_iff_eq] at hwf
    have hA := agree_fileChild cfg i hc h1
    have hu := unitPages_pruneUnits cfg _ _ hA cs hwf.1.2 hwf.2
    simp [pruneProject, pruneFile, pageIds, selPages, selFilePages, Ent.info, Ent.kids, hu,
      pageIds_pruneProject cfg hc fs hw.2 h2]

end Ford.Display

namespace Ford.Display
open Ford.Display.Spec

/-! ### links: everything that has a page is `visible` -/

theorem tbl_page_lists_marked : ∀ pk ck : Kind, kidOk .file pk = true → isUnitWithKids pk = true → kidOk pk ck = true →
    inContainers (listOf ck) = true →
    (recurseIn (classOf pk) (listOf ck) || visibleOnlyIn (classOf pk) (listOf ck)) = true := by
  intro pk ck; cases pk <;> cases ck <;> decide

theorem mem_visibleIds_setVisible (e : Ent) : e.info.id ∈ e.setVisible.visibleIds := by
  cases e with
  | mk i cs => simp [Ent.setVisible, Ent.visibleIds, Ent.info]

theorem pageKids_visible (cfg : Cfg) (d : List Word) (pk : Kind)
    (hu : kidOk .file pk = true) (hk : isUnitWithKids pk = true) (x : Nat) :
    (cs : Ents) → wfKids pk cs = true →
    x ∈ (pruneKids cfg (classOf pk) false d cs).pageKids → x ∈ (pruneKids cfg (classOf pk) false d cs).visibleIds
  | .nil, _ => by simp [pruneKids, Ents.pageKids]
  | .cons e rest, hw => by
    simp only [wfKids, Bool.and_eq_true] at hw
    obtain ⟨⟨hke, _⟩, hwr⟩ := hw
    have ih := pageKids_visible cfg d pk hu hk x rest hwr
    have hm := tbl_page_lists_marked pk e.info.kind hu hk hke
    simp only [pruneKids, Bool.false_eq_true, if_false]
    split
    · exact ih
    · split
      · intro hx
        simp only [Ents.pageKids, setVisible_info_kind, prune_info, setVisible_info_id, List.mem_append] at hx
        simp only [Ents.visibleIds, List.mem_append]
        cases hx with
        | inl hx =>
          left
          split at hx
          · simp only [List.mem_singleton] at hx
            have hv := mem_visibleIds_setVisible (prune cfg (setDisplay false d e.info.disp) e)
            rw [prune_info] at hv
            rw [hx]; exact hv
          · simp at hx
        | inr hx => exact Or.inr (ih hx)
      · split
        · intro hx
          simp only [Ents.pageKids, setVisible_info_kind, setVisible_info_id, List.mem_append] at hx
          simp only [Ents.visibleIds, List.mem_append]
          cases hx with
          | inl hx =>
            left
            split at hx
            · simp only [List.mem_singleton] at hx
              rw [hx]
              exact mem_visibleIds_setVisible _
            · simp at hx
          | inr hx => exact Or.inr (ih hx)
        · intro hx
          simp only [Ents.pageKids, List.mem_append] at hx
          simp only [Ents.visibleIds, List.mem_append]
          cases hx with
          | inl hx =>
            split at hx
            · rename_i h1 h2 hc
              have := hm hc
              simp_all
            · simp at hx
          | inr hx => exact Or.inr (ih hx)

theorem unitPages_visible (cfg : Cfg) (d : List Word) (x : Nat) :
    (cs : Ents) → wfKids .file cs = true →
    x ∈ (pruneUnits cfg d cs).unitPages → x ∈ (pruneUnits cfg d cs).visibleIds
  | .nil, _ => by simp [pruneUnits, Ents.unitPages]
  | .cons u rest, hw => by
    simp only [wfKids, Bool.and_eq_true] at hw
    obtain ⟨⟨hk, hwu⟩, hwr⟩ := hw
    have ih := unitPages_visible cfg d x rest hwr
    have hch := tbl_chain u.info.kind hk
    intro hx
    simp only [pruneUnits, Ents.unitPages, setVisible_info_kind, setVisible_info_id, prune_info,
      setVisible_kids, prune_kids, hch, List.mem_append, List.mem_cons] at hx
    simp only [pruneUnits, Ents.visibleIds, List.mem_append]
    rcases hx with (hx | hx) | hx
    · left
      have hv := mem_visibleIds_setVisible (prune cfg (setDisplay false d u.info.disp) u)
      rw [prune_info] at hv
      rw [hx]; exact hv
    · left
      cases hun : isUnitWithKids u.info.kind
      · simp [hun] at hx
      · simp only [hun, if_true] at hx
        have hnp := (tbl_unit_not_proc _ hun).1
        have hoff : internalsOff cfg u.info = false := by simp [internalsOff, hnp]
        rw [hoff] at hx
        have hwk : wfKids u.info.kind u.kids = true := by
          cases u with
          | mk i cs => simp only [wf, Bool.and_eq_true] at hwu; exact hwu.2
        have := pageKids_visible cfg (setDisplay false d u.info.disp) u.info.kind hk hun x u.kids hwk hx
        cases u with
        | mk i cs =>
          have hoff' : internalsOff cfg i = false := hoff
          simp only [prune, Ent.setVisible, Ent.visibleIds, List.mem_append]
          right
          simpa [Ent.info, Ent.kids, hoff'] using this
    · exact Or.inr (ih hx)

theorem pageIds_visible (cfg : Cfg) (x : Nat) :
    (p : List Ent) → wfProject p = true →
    x ∈ pageIds (pruneProject cfg p) → x ∈ visibleIdsOf (pruneProject cfg p)
  | [], _ => by simp [pruneProject, pageIds]
  | (.mk i cs) :: fs, hw => by
    simp only [wfProject, Bool.and_eq_true] at hw
    have hwf := hw.1
    simp only [wfFile, Bool.and_eq_true, beq_iff_eq] at hwf
    have ih := pageIds_visible cfg x fs hw.2
    have hu := unitPages_visible cfg (fileChildDisplay cfg i) x cs hwf.1.2
    intro hx
    simp only [pruneProject, pruneFile, pageIds, Ent.info, Ent.kids, List.mem_append, List.mem_cons] at hx
    simp only [pruneProject, pruneFile, visibleIdsOf, Ent.visibleIds, List.mem_append]
    rcases hx with (hx | hx) | hx
    · left; left; simp [hx]
    · left; right; exact hu hx
    · right; exact ih hx

end Ford.Display
