/-
  Lemmas for C02: a closed character literal, whatever it contains, is one atom of the comment
  pattern - no character inside it (a backslash in particular) changes where the literal ends.
-/
import FordModel.Reader
import FordModel.Lemmas.Reader
import FordModel.Lemmas.ReaderLayout
namespace Ford

/-- a comment-free, quote-closed prefix followed by one more closed literal is again such a prefix -/
theorem atoms_snoc_literal (p : Str) (q : Char) (body : Str) (hp : Atoms p) (hq : isQuote q = true)
    (hb : q ∉ body) : Atoms (p ++ q :: body ++ [q]) := by
  induction hp with
  | nil => exact .quoted q body [] hq hb .nil
  | plain c rest hc hne _ ih => exact .plain c _ hc hne ih
  | quoted q' body' rest hq' hn' _ ih =>
    have e : q' :: body' ++ q' :: rest ++ q :: body ++ [q] = q' :: body' ++ q' :: (rest ++ q :: body ++ [q]) := by
      simp
    rw [e]
    exact .quoted q' body' _ hq' hn' ih

end Ford
