import FordModel.Footnotes
namespace Ford.Footnotes

theorem mem_addLabel (st : List Str) (l x : Str) : x ∈ addLabel st l ↔ x ∈ st ∨ x = l := by
  unfold addLabel
  by_cases h : l ∈ st
  · simp only [h, if_true]
    constructor
    · exact Or.inl
    · rintro (h' | rfl)
      · exact h'
      · exact h
  · simp [h]

theorem mem_addLabels (ls : List Str) : ∀ (st : List Str) (x : Str), x ∈ addLabels st ls ↔ x ∈ st ∨ x ∈ ls := by
  induction ls with
  | nil => intro st x; simp [addLabels]
  | cons l ls ih =>
    intro st x
    have := ih (addLabel st l) x
    simp only [addLabels, List.foldl_cons] at this ⊢
    rw [this, mem_addLabel]
    simp only [List.mem_cons]
    constructor
    · rintro ((h | h) | h)
      · exact Or.inl h
      · exact Or.inr (Or.inl h)
      · exact Or.inr (Or.inr h)
    · rintro (h | h | h)
      · exact Or.inl (Or.inl h)
      · exact Or.inl (Or.inr h)
      · exact Or.inr h

/-- a text converted by a reset converter, each of whose footnotes is referred to in the text:
    all its footnote links stay inside it -/
theorem convert_reset_ok (c : Conv) (hw : ∀ l ∈ c.defs, l ∈ c.refs) : linksOk (convert [] c).2 = true := by
  unfold convert
  by_cases hb : c.blank = true
  · simp [hb, linksOk]
  simp only [hb, Bool.false_eq_true, if_false, linksOk, Bool.and_eq_true, List.all_eq_true, decide_eq_true_eq, List.mem_filter]
  constructor
  · intro l hl
    refine ⟨hw l ?_, hl⟩
    have := (mem_addLabels c.defs [] l).1 hl
    simpa using this
  · intro l hl
    exact hl.2

theorem convertAll_ok (T : Tables) (convs : List Conv) :
    ∀ (seen : List Site) (st : List Str) (p : Conv × Out), p ∈ convs.zip (convertAll T seen st convs) → p.1.site ∈ T.resets →
      (∀ l ∈ p.1.defs, l ∈ p.1.refs) → linksOk p.2 = true := by
  induction convs with
  | nil => intro seen st p hp; simp [convertAll] at hp
  | cons c cs ih =>
    intro seen st p hp hs hw
    simp only [convertAll, List.zip_cons_cons, List.mem_cons] at hp
    rcases hp with rfl | hp
    · simp only [start, hs, if_true]
      exact convert_reset_ok c hw
    · exact ih _ _ p hp hs hw

end Ford.Footnotes
