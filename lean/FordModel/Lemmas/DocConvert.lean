import FordModel.DocConvert
namespace Ford

def docAttr : Str := ['d', 'o', 'c']

theorem hasAttr_inheritStep (fix : Bool) (ph : List Str) (e : CEnt) (a : Str) (ha : a ≠ docAttr) :
    (inheritStep fix ph e).hasAttr a = e.hasAttr a := by
  have : (a == ['d', 'o', 'c']) = false := by simpa [docAttr] using ha
  unfold inheritStep
  cases hd : e.doc <;> simp [CEnt.hasAttr, this]

theorem keeps_inheritStep (fix : Bool) (skip : List Str) (hs : docAttr ∉ skip) (ph : List Str) (e : CEnt) :
    (inheritStep fix ph e).keeps skip = e.keeps skip := by
  unfold CEnt.keeps
  congr 1
  induction skip with
  | nil => rfl
  | cons a as ih =>
    have h1 : a ≠ docAttr := fun h => hs (by simp [h])
    have h2 : docAttr ∉ as := fun h => hs (by simp [h])
    simp only [List.any_cons, hasAttr_inheritStep fix ph e a h1, ih h2]

theorem docList_inheritStep (fix : Bool) (ph : List Str) (e : CEnt) : (inheritStep fix ph e).docList = e.docList := by
  unfold inheritStep
  cases e.doc <;> rfl

theorem attrs_inheritStep (fix : Bool) (ph : List Str) (e : CEnt) : (inheritStep fix ph e).attrs = e.attrs := by
  unfold inheritStep
  cases e.doc <;> rfl

/-- `keeps` on an entity that has none of the skip attributes, when `doc` is not one of them -/
theorem keeps_of_no_skip_attr (skip : List Str) (hs : docAttr ∉ skip) (e : CEnt)
    (hk : ∀ a ∈ skip, a ∉ e.attrs) : e.keeps skip = true := by
  simp only [CEnt.keeps, Bool.not_eq_true', List.any_eq_false]
  intro a ha
  have hne : (a == ['d', 'o', 'c']) = false := by
    have : a ≠ docAttr := fun h => hs (h ▸ ha)
    simpa [docAttr] using this
  simp [CEnt.hasAttr, hne, hk a ha]

theorem convertAll_getElem? (skip : List Str) (conv : List Str → List Str) (reg : List CEnt) (i : Nat) :
    (convertAll skip conv reg)[i]? =
      (reg[i]?).map (fun e => if e.keeps skip then { e with doc := some (conv e.docList) } else e) := by
  simp [convertAll]

theorem convIdxFrom_mem (skip : List Str) (reg : List CEnt) (k i : Nat) :
    i ∈ convIdxFrom skip k reg ↔ ∃ e, k ≤ i ∧ reg[i - k]? = some e ∧ e.keeps skip = true := by
  induction reg generalizing k with
  | nil => simp [convIdxFrom]
  | cons e es ih =>
    by_cases hk : e.keeps skip = true
    · simp only [convIdxFrom, hk, ↓reduceIte, List.mem_cons, ih]
      constructor
      · rintro (rfl | ⟨e', h1, h2, h3⟩)
        · exact ⟨e, Nat.le_refl _, by simp, hk⟩
        · refine ⟨e', by omega, ?_, h3⟩
          have : i - k = (i - (k + 1)) + 1 := by omega
          rw [this]; simpa using h2
      · rintro ⟨e', h1, h2, h3⟩
        by_cases hik : i = k
        · exact Or.inl hik
        · refine Or.inr ⟨e', by omega, ?_, h3⟩
          have : i - k = (i - (k + 1)) + 1 := by omega
          rw [this] at h2; simpa using h2
    · simp only [convIdxFrom, hk, Bool.false_eq_true, ↓reduceIte, ih]
      constructor
      · rintro ⟨e', h1, h2, h3⟩
        refine ⟨e', by omega, ?_, h3⟩
        have : i - k = (i - (k + 1)) + 1 := by omega
        rw [this]; simpa using h2
      · rintro ⟨e', h1, h2, h3⟩
        by_cases hik : i = k
        · subst hik
          simp at h2
          subst h2
          exact absurd h3 hk
        · refine ⟨e', by omega, ?_, h3⟩
          have : i - k = (i - (k + 1)) + 1 := by omega
          rw [this] at h2; simpa using h2

/-- any number of `correlate` steps (one per extending type) -/
def inheritSteps (fix : Bool) (phs : List (List Str)) (e : CEnt) : CEnt :=
  phs.foldl (fun x p => inheritStep fix p x) e

theorem inheritSteps_attrs_docList (fix : Bool) (phs : List (List Str)) (e : CEnt) :
    (inheritSteps fix phs e).attrs = e.attrs ∧ (inheritSteps fix phs e).docList = e.docList := by
  induction phs generalizing e with
  | nil => exact ⟨rfl, rfl⟩
  | cons p ps ih =>
    obtain ⟨h1, h2⟩ := ih (inheritStep fix p e)
    exact ⟨by simpa [inheritSteps, attrs_inheritStep] using h1, by simpa [inheritSteps, docList_inheritStep] using h2⟩

theorem meta_inheritStep_fixed (ph : List Str) (e : CEnt) : (inheritStep true ph e).md = e.md := by
  unfold inheritStep
  cases e.doc <;> rfl

theorem inheritSteps_meta_fixed (phs : List (List Str)) (e : CEnt) : (inheritSteps true phs e).md = e.md := by
  induction phs generalizing e with
  | nil => rfl
  | cons p ps ih =>
    have := ih (inheritStep true p e)
    simpa [inheritSteps, meta_inheritStep_fixed] using this

theorem convertAll_meta (skip : List Str) (conv : List Str → List Str) (reg : List CEnt) :
    (convertAll skip conv reg).map (·.md) = reg.map (·.md) := by
  simp only [convertAll, List.map_map]
  apply List.map_congr_left
  intro e _
  simp only [Function.comp]
  split <;> rfl

end Ford
