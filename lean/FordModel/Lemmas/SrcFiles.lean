/-
  Lemmas about the model of `find_all_files` (FordModel/SrcFiles.lean).
-/
import FordModel.SrcFiles
namespace Ford.SrcFiles
open Ford Ford.TypeSpec

theorem mem_addNew (acc : List Str) (x y : Str) : y ∈ addNew acc x ↔ y ∈ acc ∨ y = x := by
  unfold addNew
  split
  · rename_i h
    have hx : x ∈ acc := by simpa using h
    constructor
    · intro hy; exact Or.inl hy
    · intro hy; cases hy with
      | inl h1 => exact h1
      | inr h1 => rw [h1]; exact hx
  · simp

theorem addNew_nodup (acc : List Str) (x : Str) (h : acc.Nodup) : (addNew acc x).Nodup := by
  unfold addNew
  split
  · exact h
  · rename_i hc
    have hx : x ∉ acc := by simpa using hc
    rw [List.nodup_append]
    refine ⟨h, by simp, ?_⟩
    intro a ha b hb
    simp at hb
    intro hab
    rw [hab, hb] at ha
    exact hx ha

theorem insertAll_nodup (xs : List Str) : ∀ acc : List Str, acc.Nodup → (insertAll acc xs).Nodup := by
  induction xs with
  | nil => intro acc h; simpa [insertAll] using h
  | cons x xs ih => intro acc h; simp only [insertAll]; exact ih _ (addNew_nodup acc x h)

theorem mem_insertAll (xs : List Str) : ∀ (acc : List Str) (y : Str), y ∈ insertAll acc xs ↔ y ∈ acc ∨ y ∈ xs := by
  induction xs with
  | nil => intro acc y; simp [insertAll]
  | cons x xs ih =>
    intro acc y
    simp only [insertAll]
    rw [ih, mem_addNew]
    simp only [List.mem_cons]
    constructor
    · intro h; rcases h with (h | h) | h
      · exact Or.inl h
      · exact Or.inr (Or.inl h)
      · exact Or.inr (Or.inr h)
    · intro h; rcases h with h | h | h
      · exact Or.inl (Or.inl h)
      · exact Or.inl (Or.inr h)
      · exact Or.inr h

theorem mem_hits (dirs exts : List Str) (tree : List Entry) (s : Str) :
    s ∈ hits dirs exts tree ↔ ∃ x ∈ tree, x.path = s ∧ ∃ d ∈ dirs, ∃ e ∈ exts, globHit d e x = true := by
  simp only [hits, List.mem_flatMap, List.mem_map, List.mem_filter]
  constructor
  · rintro ⟨d, hd, e, he, x, ⟨hx, hg⟩, hp⟩
    exact ⟨x, hx, hp, d, hd, e, he, hg⟩
  · rintro ⟨x, hx, hp, d, hd, e, he, hg⟩
    exact ⟨d, hd, e, he, x, ⟨hx, hg⟩, hp⟩

theorem collect_nodup (dirs exts : List Str) (tree : List Entry) : (collect dirs exts tree).Nodup :=
  insertAll_nodup _ [] List.nodup_nil

theorem mem_collect (dirs exts : List Str) (tree : List Entry) (s : Str) :
    s ∈ collect dirs exts tree ↔ ∃ x ∈ tree, x.path = s ∧ ∃ d ∈ dirs, ∃ e ∈ exts, globHit d e x = true := by
  unfold collect
  rw [mem_insertAll, mem_hits]
  simp

theorem dropDirs_nodup (ds : List Str) : ∀ fs : List Str, fs.Nodup → (dropDirs ds fs).Nodup := by
  induction ds with
  | nil => intro fs h; simpa [dropDirs] using h
  | cons d ds ih => intro fs h; simp only [dropDirs]; exact ih _ (h.sublist List.filter_sublist)

theorem mem_dropDirs (ds : List Str) : ∀ (fs : List Str) (s : Str),
    s ∈ dropDirs ds fs ↔ s ∈ fs ∧ ∀ d ∈ ds, fnm (d ++ (chars! "/*")) s = false := by
  induction ds with
  | nil => intro fs s; simp [dropDirs]
  | cons d ds ih =>
    intro fs s
    simp only [dropDirs]
    rw [ih]
    simp only [List.mem_filter, List.mem_cons, Bool.not_eq_true', forall_eq_or_imp]
    constructor
    · rintro ⟨⟨h1, h2⟩, h3⟩; exact ⟨h1, h2, h3⟩
    · rintro ⟨h1, h2, h3⟩; exact ⟨⟨h1, h2⟩, h3⟩

theorem dropFiles_nodup (cwd : Str) (ps : List Str) : ∀ fs : List Str, fs.Nodup → (dropFiles cwd ps fs).Nodup := by
  induction ps with
  | nil => intro fs h; simpa [dropFiles] using h
  | cons p ps ih => intro fs h; simp only [dropFiles]; exact ih _ (h.sublist List.filter_sublist)

theorem mem_dropFiles (cwd : Str) (ps : List Str) : ∀ (fs : List Str) (s : Str),
    s ∈ dropFiles cwd ps fs ↔ s ∈ fs ∧ ∀ p ∈ ps, fnm p (relTo cwd s) = false := by
  induction ps with
  | nil => intro fs s; simp [dropFiles]
  | cons p ps ih =>
    intro fs s
    simp only [dropFiles]
    rw [ih]
    simp only [List.mem_filter, List.mem_cons, Bool.not_eq_true', forall_eq_or_imp]
    constructor
    · rintro ⟨⟨h1, h2⟩, h3⟩; exact ⟨h1, h2, h3⟩
    · rintro ⟨h1, h2, h3⟩; exact ⟨⟨h1, h2⟩, h3⟩

/-- `a` starts with `b ++ c` -> it starts with `b` followed by the first character of `c` .. -/
theorem startsWith_append (s p q : Str) (h : startsWith s (p ++ q) = true) : startsWith s p = true := by
  induction p generalizing s with
  | nil => cases s <;> simp [startsWith]
  | cons a as ih =>
    cases s with
    | nil => simp [startsWith] at h
    | cons c cs =>
      simp only [List.cons_append, startsWith, Bool.and_eq_true] at h ⊢
      exact ⟨h.1, ih cs h.2⟩

/-- what lies below a directory inside `d` lies below `d` -/
theorem globHit_nested (d sub e : Str) (x : Entry) (h : globHit (d ++ '/' :: sub) e x = true) : globHit d e x = true := by
  simp only [globHit, Bool.and_eq_true] at h ⊢
  refine ⟨?_, h.2⟩
  have : (d ++ '/' :: sub) ++ ['/'] = (d ++ ['/']) ++ (sub ++ ['/']) := by simp
  rw [this] at h
  exact startsWith_append _ _ _ h.1

end Ford.SrcFiles
