/-
  Lemmas for C02: the parser's literal-masking pass (`cutLits`, the loop at the top of
  `FortranContainer._initialize`) on a statement made of code pieces and well-formed character
  literals: the k-th literal goes to `strings[k]`, the k-th placeholder takes its place -
  whatever the literals contain - and the re-insertion loop brings every literal back to its own
  place.
-/
import FordModel.InitialValue
import FordModel.Lemmas.Show
import FordModel.Lemmas.InitialValue
namespace Ford.MaskPass
open Ford.Show Ford.InitialValue

/-- a statement as the lexer sees it: text without quotes and character literals `q body`
    (`body` includes the closing quote) -/
inductive SrcPiece where
  | code (t : Str)
  | lit (q : Char) (body : Str)
  deriving Repr

/-- the statement text -/
def srcText : List SrcPiece → Str
  | [] => []
  | .code t :: r => t ++ srcText r
  | .lit q body :: r => q :: body ++ srcText r

/-- the literals of the statement, in order -/
def srcLits : List SrcPiece → List Str
  | [] => []
  | .code _ :: r => srcLits r
  | .lit q body :: r => (q :: body) :: srcLits r

/-- the statement with its literals replaced by the placeholders `"k"`, `"k+1"`, ... -/
def srcMasked : List SrcPiece → Nat → Str
  | [], _ => []
  | .code t :: r, k => t ++ srcMasked r k
  | .lit _ _ :: r, k => maskOf k ++ srcMasked r (k + 1)

/-- the statement as FORD shows it after re-insertion: code untouched, every literal whole at its
    own place (NBSP substitution only) -/
def srcShown : List SrcPiece → Str
  | [] => []
  | .code t :: r => t ++ srcShown r
  | .lit q body :: r => nbsp (q :: body) ++ srcShown r

def srcSegs : List SrcPiece → List Seg
  | [] => []
  | .code t :: r => t.map Seg.txt ++ srcSegs r
  | .lit q body :: r => Seg.lit (q :: body) :: srcSegs r

/-- what may follow a literal: the end of the statement or a non-empty code piece -/
def startsCode : List SrcPiece → Prop
  | [] => True
  | .code (_ :: _) :: _ => True
  | _ => False

/-- code pieces contain no quote, literals are well formed (any contents: characters other than
    the quote, doubled quotes, then the closing quote), two literals are never adjacent -/
def WellFormed : List SrcPiece → Prop
  | [] => True
  | .code t :: r => (∀ c ∈ t, isQuote c = false) ∧ WellFormed r
  | .lit q body :: r => isQuote q = true ∧ litTail q body = true ∧ startsCode r ∧ WellFormed r

theorem head_srcText (r : List SrcPiece) (q : Char) (hq : isQuote q = true)
    (hs : startsCode r) (hw : WellFormed r) : (srcText r).head? ≠ some q := by
  cases r with
  | nil => simp [srcText]
  | cons p r' =>
    cases p with
    | lit _ _ => simp [startsCode] at hs
    | code t =>
      cases t with
      | nil => simp [startsCode] at hs
      | cons c cs =>
        have := hw.1 c (by simp)
        simp only [srcText, List.cons_append, List.head?_cons]
        intro h
        have : c = q := by simpa using h
        subst this
        simp_all

/-! ### the placeholder digits -/

theorem natStr_isDigit (k : Nat) : ∀ c ∈ natStr k, c.isDigit = true := by
  intro c hc
  simp only [natStr, toString, Nat.repr, String.toList_ofList] at hc
  exact Nat.isDigit_of_mem_toDigits (by decide) (by decide) hc

theorem natStr_noquote (k : Nat) : ∀ c ∈ natStr k, c ≠ '"' := by
  intro c hc e
  subst e
  have := natStr_isDigit k _ hc
  simp [Char.isDigit] at this

theorem isDigit_of_charIsDigit (c : Char) (h : c.isDigit = true) : isDigit c = true := by
  simp only [Char.isDigit, Bool.and_eq_true, decide_eq_true_eq] at h
  simp only [isDigit, Bool.decide_and, Bool.and_eq_true, decide_eq_true_eq, Char.le_def]
  exact h

theorem natStr_toDigits (k : Nat) : natStr k = Nat.toDigits 10 k := by
  simp [natStr, toString, Nat.repr]

/-- `int()` reads the placeholder number back -/
theorem parseNat?_natStr (k : Nat) : parseNat? (natStr k) = some k := by
  have hne : natStr k ≠ [] := by rw [natStr_toDigits]; exact Nat.toDigits_ne_nil
  have hall : (natStr k).all isDigit = true :=
    List.all_eq_true.mpr fun c hc => isDigit_of_charIsDigit c (natStr_isDigit k c hc)
  have hfold : (natStr k).foldl (fun n c => 10 * n + (c.toNat - '0'.toNat)) 0 = k := by
    rw [natStr_toDigits, ← Nat.ofDigitChars_eq_foldl]
    exact Nat.ofDigitChars_ten_toDigits
  unfold parseNat?
  have he : (natStr k).isEmpty = false := by
    cases h : natStr k with
    | nil => exact absurd h hne
    | cons _ _ => rfl
  simp only [he, hall, Bool.false_or, Bool.not_true, Bool.false_eq_true, if_false]
  exact congrArg some hfold

/-! ### the masking pass -/

/-- text without quotes is copied character by character -/
theorem cutGo_code (t rest : Str) (k : Nat) (ht : ∀ c ∈ t, isQuote c = false) :
    cutGo (t ++ rest) k .scan = t.map Seg.txt ++ cutGo rest k .scan := by
  induction t with
  | nil => rfl
  | cons c cs ih =>
    have hc := ht c (by simp)
    have := ih (fun c' h => ht c' (by simp [h]))
    simp [cutGo, hc, this]

/-- inside a literal: the remaining `body` is collected, then one literal segment is emitted -/
theorem cutGo_lit (body : Str) : ∀ (cur rest : Str) (k : Nat), body ≠ [] →
    cutGo (body ++ rest) k (.lit body.length cur) =
      .lit (cur.reverse ++ body) ::
        cutGo rest (k + 1) (if verbExtra k rest == 0 then .scan else .verb (verbExtra k rest)) := by
  induction body with
  | nil => intro _ _ _ h; exact absurd rfl h
  | cons c cs ih =>
    intro cur rest k _
    cases cs with
    | nil => simp [cutGo]
    | cons d r =>
      have := ih (c :: cur) rest k (by simp)
      have h2 : ¬ (c :: d :: r).length ≤ 1 := by simp
      have e : (c :: d :: r).length - 1 = (d :: r).length := by simp
      rw [List.cons_append, cutGo, if_neg h2, e, this]
      simp

/-- after a placeholder that is not followed by `"` nothing is skipped -/
theorem verbExtra_zero (k : Nat) (rest : Str) (hr : rest.head? ≠ some '"') : verbExtra k rest = 0 := by
  have h := litEnd_of_litTail '"' (natStr k ++ ['"']) rest
    (litTail_noquote '"' (natStr k) (natStr_noquote k)) hr
  have e : natStr k ++ '"' :: rest = (natStr k ++ ['"']) ++ rest := by simp
  unfold verbExtra
  rw [e, h]
  simp

/-- **the masking pass cuts a well-formed statement exactly at its literals** -/
theorem cutGo_pieces (ps : List SrcPiece) : ∀ k, WellFormed ps →
    cutGo (srcText ps) k .scan = srcSegs ps := by
  induction ps with
  | nil => intro k _; rfl
  | cons p r ih =>
    intro k hw
    cases p with
    | code t =>
      simp only [srcText, srcSegs]
      rw [cutGo_code t _ k hw.1, ih k hw.2]
    | lit q body =>
      obtain ⟨hq, hb, hc, hw'⟩ := hw
      have hne := litTail_ne_nil q body hb
      have hend := litEnd_of_litTail q body (srcText r) hb (head_srcText r q hq hc hw')
      have hv := verbExtra_zero k (srcText r) (head_srcText r '"' (by decide) hc hw')
      simp only [srcText, srcSegs, List.cons_append]
      rw [cutGo]
      simp only [hq, if_true, hend]
      rw [cutGo_lit body [q] (srcText r) k hne, hv]
      simp [ih (k + 1) hw']

theorem segStrings_srcSegs (ps : List SrcPiece) : segStrings (srcSegs ps) = srcLits ps := by
  induction ps with
  | nil => rfl
  | cons p r ih =>
    cases p with
    | code t =>
      simp only [srcSegs, srcLits]
      induction t with
      | nil => simpa using ih
      | cons c cs iht => simpa [segStrings] using iht
    | lit q body => simp [srcSegs, srcLits, segStrings, ih]

theorem segMasked_srcSegs (ps : List SrcPiece) : ∀ k, segMasked (srcSegs ps) k = srcMasked ps k := by
  induction ps with
  | nil => intro k; rfl
  | cons p r ih =>
    intro k
    cases p with
    | code t =>
      simp only [srcSegs, srcMasked]
      induction t with
      | nil => simpa using ih k
      | cons c cs iht => simpa [segMasked] using iht
    | lit q body => simp [srcSegs, srcMasked, segMasked, ih]

/-! ### ... and the re-insertion loop brings every literal back to its own place -/

/-- the masked statement as a list of `Piece`s (placeholders numbered from `k`) -/
def toPieces : List SrcPiece → Nat → List Piece
  | [], _ => []
  | .code t :: r, k => .code t :: toPieces r k
  | .lit _ _ :: r, k => .ph (natStr k) :: toPieces r (k + 1)

theorem maskedText_toPieces (ps : List SrcPiece) : ∀ k, maskedText (toPieces ps k) = srcMasked ps k := by
  induction ps with
  | nil => intro k; rfl
  | cons p r ih =>
    intro k
    cases p with
    | code t => simp [toPieces, maskedText, Piece.masked, srcMasked, ih]
    | lit q body => simp [toPieces, maskedText, Piece.masked, srcMasked, maskOf, ih]

theorem startsClean_toPieces (r : List SrcPiece) (k : Nat) (h : startsCode r) : startsClean (toPieces r k) := by
  cases r with
  | nil => simp [toPieces, startsClean]
  | cons p r' =>
    cases p with
    | lit _ _ => simp [startsCode] at h
    | code t =>
      cases t with
      | nil => simp [startsCode] at h
      | cons c cs => simp [toPieces, startsClean]

theorem wellMasked_toPieces (ps : List SrcPiece) : ∀ (pre : List Str), WellFormed ps →
    WellMasked (pre ++ srcLits ps) (toPieces ps pre.length) := by
  induction ps with
  | nil => intro pre _; simp [toPieces, WellMasked]
  | cons p r ih =>
    intro pre hw
    cases p with
    | code t => exact ⟨hw.1, ih pre hw.2⟩
    | lit q body =>
      obtain ⟨hq, hb, hc, hw'⟩ := hw
      have hrec := ih (pre ++ [q :: body]) hw'
      simp only [List.append_assoc, List.singleton_append, List.length_append, List.length_cons,
        List.length_nil, Nat.zero_add] at hrec
      refine ⟨⟨pre.length, q, body, parseNat?_natStr _, ?_, hq, hb⟩, startsClean_toPieces r _ hc, hrec⟩
      simp [srcLits]

theorem restoredText_toPieces (ps : List SrcPiece) : ∀ (pre : List Str),
    restoredText (pre ++ srcLits ps) (toPieces ps pre.length) = srcShown ps := by
  induction ps with
  | nil => intro pre; rfl
  | cons p r ih =>
    intro pre
    cases p with
    | code t => simp [toPieces, restoredText, srcShown, srcLits, ih pre]
    | lit q body =>
      have hrec := ih (pre ++ [q :: body])
      simp only [List.append_assoc, List.singleton_append, List.length_append, List.length_cons,
        List.length_nil, Nat.zero_add] at hrec
      simp only [toPieces, restoredText, srcShown, srcLits, litOf, parseNat?_natStr]
      rw [hrec]
      simp

/-! ### what a non-positional replacement would do -/

/-- `s.replace(pat, rep, 1)`: the first occurrence of `pat` anywhere in `s` (`pat` non-empty) -/
def replaceFirst (pat rep : Str) : Str → Str
  | [] => []
  | c :: cs =>
    if startsWith (c :: cs) pat then rep ++ (c :: cs).drop pat.length
    else c :: replaceFirst pat rep cs

end Ford.MaskPass
