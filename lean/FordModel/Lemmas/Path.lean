import FordModel.Path
namespace Ford.Path

theorem normStep_normal (st : List Seg) (s : Seg) (h : NormalSeg s) : normStep st s = s :: st := by
  obtain ⟨h1, h2, h3⟩ := h
  simp [normStep, h1, h2, h3]

theorem foldl_normal (a : List Seg) (st : List Seg) (h : Normal a) :
    a.foldl normStep st = a.reverse ++ st := by
  induction a generalizing st with
  | nil => simp
  | cons x xs ih =>
    have hx : NormalSeg x := h x (by simp)
    have hxs : Normal xs := fun s hs => h s (by simp [hs])
    simp [List.foldl, normStep_normal st x hx, ih _ hxs]

theorem normStep_up (st : List Seg) : normStep st up = st.tail := by
  simp [normStep, up, cur]

theorem foldl_ups (n : Nat) (st : List Seg) : (ups n).foldl normStep st = st.drop n := by
  induction n generalizing st with
  | zero => simp [ups]
  | succ k ih =>
    simp only [ups, List.replicate_succ, List.foldl_cons, normStep_up]
    have := ih st.tail
    simp only [ups] at this
    rw [this]
    cases st <;> simp

theorem norm_normal (a : List Seg) (h : Normal a) : norm a = a := by
  simp [norm, foldl_normal a [] h]

theorem normal_append {a b : List Seg} (ha : Normal a) (hb : Normal b) : Normal (a ++ b) := by
  intro s hs
  rcases List.mem_append.1 hs with h | h
  · exact ha s h
  · exact hb s h

theorem normal_of_append_left {a b : List Seg} (h : Normal (a ++ b)) : Normal a :=
  fun s hs => h s (List.mem_append.2 (Or.inl hs))

theorem normal_of_append_right {a b : List Seg} (h : Normal (a ++ b)) : Normal b :=
  fun s hs => h s (List.mem_append.2 (Or.inr hs))

theorem normal_cons {x : Seg} {xs : List Seg} (h : Normal (x :: xs)) : NormalSeg x ∧ Normal xs :=
  ⟨h x (by simp), fun s hs => h s (by simp [hs])⟩

/-- climbing out of `a` (normal) from below `pre ++ a` gets back to `pre` -/
theorem foldl_climb (pre a : List Seg) (ha : Normal a) (rest : List Seg) :
    (a ++ ups a.length ++ rest).foldl normStep pre = rest.foldl normStep pre := by
  simp [List.foldl_append, foldl_normal a pre ha, foldl_ups]

/-- Key invariant of `relpath`: walking `start`, then `relpath target start`, from
    any stack, ends on `target` pushed on that stack. -/
theorem foldl_relpath (t s : List Seg) (ht : Normal t) (hs : Normal s) (st : List Seg) :
    (s ++ relpath t s).foldl normStep st = t.reverse ++ st := by
  fun_induction relpath t s generalizing st with
  | case1 tl x ss ih =>
    obtain ⟨ht1, ht2⟩ := normal_cons ht
    obtain ⟨_, hs2⟩ := normal_cons hs
    simp [List.foldl_cons, normStep_normal st x ht1, ih ht2 hs2]
  | case2 t ts s ss hne =>
    have h := foldl_climb st (s :: ss) hs (t :: ts)
    simp only [List.length_cons, List.append_assoc] at h
    rw [h, foldl_normal _ _ ht]
  | case3 ts =>
    simp [foldl_normal ts st ht]
  | case4 s ss =>
    have h := foldl_climb st (s :: ss) hs []
    simp only [List.length_cons, List.append_nil] at h
    rw [h]
    simp

theorem relpath_self (t : List Seg) : relpath t t = [] := by
  induction t with
  | nil => simp [relpath]
  | cons x xs ih => simp [relpath, ih]

end Ford.Path
