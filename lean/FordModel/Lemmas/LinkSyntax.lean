/-
  C11 (round 3) - lemmas about the tokenizer of `[[...]]` references (FordModel/LinkSyntax.lean):
  a written reference is read back part by part, whatever follows it; the inline loop cuts a text
  written as `pre₁ [[r₁]] pre₂ [[r₂]] ... post` into exactly these pieces.
-/
import FordModel.LinkSyntax
namespace Ford.Links
open Ford

/-- the separators of the `name` group can be told from word characters and from the delimiters that
    may follow the name (`(`, `:`, `]`), and `.` (file extension) is one of them -/
def NameCfg.ok (cfg : NameCfg) : Bool :=
  cfg.seps.contains '.' &&
  cfg.seps.all fun c => !isWordU c && c != '(' && c != ':' && c != ']' && c != '['

/-- what may follow a name: nothing, or a character that is neither a word character nor a separator -/
def Stops (cfg : NameCfg) (rest : Str) : Prop :=
  ∀ c, rest.head? = some c → isWordU c = false ∧ cfg.seps.contains c = false

def qualS : Option Str → Str
  | some s => '(' :: s ++ [')']
  | none => []

def childS (r : Ref) : Str :=
  match r.child with
  | some c => ':' :: c ++ qualS r.childKind
  | none => []

theorem render_eq (r : Ref) :
    r.render = '[' :: '[' :: (r.name ++ (qualS r.kind ++ (childS r ++ [']', ']']))) := by
  obtain ⟨n, k, c, ck⟩ := r
  cases k <;> cases c <;> cases ck <;> simp [Ref.render, qualS, childS]

theorem isWordU_of_isWord (c : Char) (h : isWord c = true) : isWordU c = true := by
  simp [isWordU, h]

/-! ### `takeWord` -/

theorem takeWord_append (w rest : Str) (hw : ∀ c ∈ w, isWordU c = true)
    (hr : ∀ c, rest.head? = some c → isWordU c = false) : takeWord (w ++ rest) = (w, rest) := by
  induction w with
  | nil =>
    cases rest with
    | nil => rfl
    | cons c cs => simp [takeWord, hr c rfl]
  | cons c cs ih =>
    have hc : isWordU c = true := hw c (by simp)
    have := ih (fun x hx => hw x (by simp [hx]))
    simp [takeWord, hc, this]

/-! ### `scanName` -/

theorem sepOk_of_not_sep (cfg : NameCfg) (used : Bool) (c d : Char) (h : cfg.seps.contains c = false) :
    sepOk cfg used c d = false := by
  have : c ∉ cfg.seps := by simpa using h
  simp [sepOk, this]

theorem scanName_stop (cfg : NameCfg) (used : Bool) (rest : Str) (hr : Stops cfg rest) :
    scanName cfg used rest = ([], rest) := by
  match rest with
  | [] => rfl
  | [c] => simp [scanName, (hr c rfl).1]
  | c :: d :: r => simp [scanName, (hr c rfl).1, sepOk_of_not_sep cfg used c d (hr c rfl).2]

theorem scanName_words (cfg : NameCfg) (used : Bool) (w rest : Str) (hw : ∀ c ∈ w, isWordU c = true)
    (hr : Stops cfg rest) : scanName cfg used (w ++ rest) = (w, rest) := by
  induction w with
  | nil => exact scanName_stop cfg used rest hr
  | cons c cs ih =>
    have hc : isWordU c = true := hw c (by simp)
    have h1 := ih (fun x hx => hw x (by simp [hx]))
    cases hcs : cs ++ rest with
    | nil =>
      have : cs = [] ∧ rest = [] := by simpa using hcs
      simp [this.1, this.2, scanName, hc]
    | cons d r =>
      rw [hcs] at h1
      have : (c :: cs) ++ rest = c :: d :: r := by simp [hcs]
      rw [this]
      have hcs' : cs = (scanName cfg used (d :: r)).1 := by rw [h1]
      simp [scanName, hc, h1]

/-- a name the tokenizer consumes entirely is consumed in the same way when something that cannot
    continue a name follows -/
theorem scanName_append (cfg : NameCfg) (used : Bool) (n rest : Str)
    (h : scanName cfg used n = (n, [])) (hr : Stops cfg rest) :
    scanName cfg used (n ++ rest) = (n, rest) := by
  induction n generalizing used with
  | nil => exact scanName_stop cfg used rest hr
  | cons c cs ih =>
    cases cs with
    | nil =>
      by_cases hc : isWordU c = true
      · exact scanName_words cfg used [c] rest (by simp [hc]) hr
      · simp [scanName, hc] at h
    | cons d r =>
      by_cases hc : isWordU c = true
      · simp only [scanName, hc, if_true, Prod.mk.injEq, List.cons.injEq, true_and] at h
        have h2 : scanName cfg used (d :: r) = (d :: r, []) := Prod.ext h.1 h.2
        have := ih used h2
        simp only [List.cons_append] at this ⊢
        simp [scanName, hc, this]
      · by_cases hs : sepOk cfg used c d = true
        · simp only [scanName, hc, hs, if_true, Prod.mk.injEq, List.cons.injEq, true_and, if_false, Bool.false_eq_true] at h
          have h2 : scanName cfg true (d :: r) = (d :: r, []) := Prod.ext h.1 h.2
          have := ih true h2
          simp only [List.cons_append] at this ⊢
          simp only [scanName, hc, hs, if_true, this]
          simp
        · simp [scanName, hc, hs] at h

theorem matchName_accepted (cfg : NameCfg) (n rest : Str) (h : nameAccepted cfg n = true)
    (hr : Stops cfg rest) : matchName cfg (n ++ rest) = some (n, rest) := by
  cases n with
  | nil => simp [nameAccepted, matchName] at h
  | cons c cs =>
    by_cases hc : isWordU c = true
    · simp only [nameAccepted, matchName, hc, if_true] at h
      have h2 : scanName cfg false (c :: cs) = (c :: cs, []) := by
        generalize hsc : scanName cfg false (c :: cs) = p at h
        obtain ⟨m, t⟩ := p
        cases t with
        | nil => simp at h; rw [h]
        | cons _ _ => simp at h
      have := scanName_append cfg false (c :: cs) rest h2 hr
      simp only [List.cons_append] at this
      simp [matchName, hc, this]
    · simp [nameAccepted, matchName, hc] at h

/-- a plain name - letters, digits, underscores in any order - is accepted -/
theorem nameAccepted_word (cfg : NameCfg) (w : Str) (hw : WordStr w) : nameAccepted cfg w = true := by
  obtain ⟨hne, hall⟩ := hw
  cases w with
  | nil => exact absurd rfl hne
  | cons c cs =>
    have hc := hall c (by simp)
    have := scanName_words cfg false (c :: cs) [] hall (by intro c h; simp at h)
    simp only [List.append_nil] at this
    simp [nameAccepted, matchName, hc, this]

/-- `stem.ext` is accepted as soon as `.` is a separator -/
theorem nameAccepted_dotted (cfg : NameCfg) (a b : Str) (ha : WordStr a) (hb : WordStr b)
    (hdot : cfg.seps.contains '.' = true) : nameAccepted cfg (a ++ '.' :: b) = true := by
  obtain ⟨hane, haall⟩ := ha
  obtain ⟨hbne, hball⟩ := hb
  have hb' : scanName cfg true b = (b, []) := by
    have := scanName_words cfg true b [] hball (by intro c h; simp at h)
    simpa using this
  cases b with
  | nil => exact absurd rfl hbne
  | cons d bs =>
    have hd := hball d (by simp)
    have hdotw : isWordU '.' = false := by decide
    have hdot' : '.' ∈ cfg.seps := by simpa using hdot
    have key : ∀ (a : Str), (∀ c ∈ a, isWordU c = true) →
        scanName cfg false (a ++ '.' :: d :: bs) = (a ++ '.' :: d :: bs, []) := by
      intro a
      induction a with
      | nil => intro _; simp [scanName, hdotw, sepOk, hdot', hd, hb']
      | cons c cs ih =>
        intro h
        have hc := h c (by simp)
        have h1 := ih (fun x hx => h x (by simp [hx]))
        cases hcs : cs ++ '.' :: d :: bs with
        | nil => simp at hcs
        | cons e r =>
          rw [hcs] at h1
          simp only [List.cons_append, hcs]
          simp [scanName, hc, h1]
    cases a with
    | nil => exact absurd rfl hane
    | cons c cs =>
      have hc := haall c (by simp)
      have := key (c :: cs) haall
      simp only [List.cons_append] at this
      simp [nameAccepted, matchName, hc, this]

/-! ### qualifiers and the item part -/

theorem optQual_none (s : Str) (h : s.head? ≠ some '(') : optQual s = (none, s) := by
  cases s with
  | nil => rfl
  | cons c cs =>
    have : c ≠ '(' := by simpa using h
    unfold optQual
    split
    · rename_i t heq; simp at heq; exact absurd heq.1 this
    · rfl

theorem optQual_some (k rest : Str) (hk : WordStr k) : optQual ('(' :: k ++ ')' :: rest) = (some k, rest) := by
  obtain ⟨hne, hall⟩ := hk
  have : takeWord (k ++ ')' :: rest) = (k, ')' :: rest) :=
    takeWord_append k (')' :: rest) hall (by intro c h; simp at h; subst h; decide)
  cases k with
  | nil => exact absurd rfl hne
  | cons c cs =>
    simp only [List.cons_append] at this ⊢
    simp [optQual, this]

theorem optQual_qualS (q : Option Str) (rest : Str) (hq : ∀ k, q = some k → WordStr k)
    (hr : rest.head? ≠ some '(') : optQual (qualS q ++ rest) = (q, rest) := by
  cases q with
  | none => simpa [qualS] using optQual_none rest hr
  | some k => simpa [qualS] using optQual_some k rest (hq k rfl)

theorem optChild_none (s : Str) (h : s.head? ≠ some ':') : optChild s = (none, none, s) := by
  cases s with
  | nil => rfl
  | cons c cs =>
    have : c ≠ ':' := by simpa using h
    unfold optChild
    split
    · rename_i t heq; simp at heq; exact absurd heq.1 this
    · rfl

theorem optChild_some (c : Str) (q : Option Str) (rest : Str) (hc : WordStr c)
    (hq : ∀ k, q = some k → WordStr k) (hr : rest.head? ≠ some '(')
    (hr2 : ∀ x, rest.head? = some x → isWordU x = false) :
    optChild (':' :: c ++ (qualS q ++ rest)) = (some c, q, rest) := by
  obtain ⟨hne, hall⟩ := hc
  have hstop : ∀ x, (qualS q ++ rest).head? = some x → isWordU x = false := by
    cases q with
    | none => simpa [qualS] using hr2
    | some k => intro x h; simp [qualS] at h; subst h; decide
  have h1 : takeWord (c ++ (qualS q ++ rest)) = (c, qualS q ++ rest) := takeWord_append c _ hall hstop
  cases c with
  | nil => exact absurd rfl hne
  | cons d ds =>
    simp only [List.cons_append] at h1 ⊢
    simp [optChild, h1, optQual_qualS q rest hq hr]

/-! ### a written reference is read back -/

theorem stops_of_ok (cfg : NameCfg) (hok : cfg.ok = true) (c : Char) (rest : Str)
    (hc : c = '(' ∨ c = ':' ∨ c = ']') : Stops cfg (c :: rest) := by
  intro x hx
  have hxc : x = c := by simpa using hx.symm
  rw [hxc]
  simp only [NameCfg.ok, Bool.and_eq_true, List.all_eq_true] at hok
  constructor
  · rcases hc with h | h | h <;> rw [h] <;> decide
  · cases hcon : cfg.seps.contains c with
    | false => rfl
    | true =>
      have hmem : c ∈ cfg.seps := by simpa using hcon
      have := hok.2 c hmem
      simp at this
      rcases hc with h | h | h <;> simp [h] at this

/-- **Read-back.**  A reference whose component name the pattern accepts, with word-like qualifiers
    and item, is matched exactly as written, and the match ends where the reference ends. -/
theorem matchLinkAt_render (cfg : NameCfg) (hok : cfg.ok = true) (r : Ref) (rest : Str)
    (hn : nameAccepted cfg r.name = true)
    (hk : ∀ k, r.kind = some k → WordStr k) (hc : ∀ c, r.child = some c → WordStr c)
    (hck : ∀ k, r.childKind = some k → WordStr k) (hcc : r.child = none → r.childKind = none) :
    matchLinkAt cfg (r.render ++ rest) = some (r, rest) := by
  obtain ⟨n, k, c, ck⟩ := r
  simp only at hn hk hc hck hcc
  have e : (Ref.render ⟨n, k, c, ck⟩) ++ rest =
      '[' :: '[' :: (n ++ (qualS k ++ (childS ⟨n, k, c, ck⟩ ++ ']' :: ']' :: rest))) := by
    rw [render_eq]; simp
  rw [e]
  simp only [matchLinkAt]
  -- what follows the name
  have hstop : Stops cfg (qualS k ++ (childS ⟨n, k, c, ck⟩ ++ ']' :: ']' :: rest)) := by
    cases k with
    | some kk => simpa [qualS] using stops_of_ok cfg hok '(' _ (Or.inl rfl)
    | none =>
      cases c with
      | some cc => simpa [qualS, childS] using stops_of_ok cfg hok ':' _ (Or.inr (Or.inl rfl))
      | none => simpa [qualS, childS] using stops_of_ok cfg hok ']' _ (Or.inr (Or.inr rfl))
  rw [matchName_accepted cfg n _ hn hstop]
  simp only
  -- the component qualifier
  have hq : optQual (qualS k ++ (childS ⟨n, k, c, ck⟩ ++ ']' :: ']' :: rest)) =
      (k, childS ⟨n, k, c, ck⟩ ++ ']' :: ']' :: rest) := by
    apply optQual_qualS k _ hk
    cases c with
    | some cc => simp [childS]
    | none => simp [childS]
  rw [hq]
  simp only
  cases c with
  | none =>
    have : ck = none := hcc rfl
    subst this
    simp [childS, optChild]
  | some cc =>
    have := optChild_some cc ck (']' :: ']' :: rest) (hc cc rfl) hck (by simp) (by intro x h; simp at h; rw [← h]; decide)
    simp only [childS]
    simp only [List.cons_append, List.append_assoc] at this ⊢
    rw [this]
    simp

theorem nameAccepted_documented (cfg : NameCfg) (hok : cfg.ok = true) (r : Ref) (h : r.Documented) :
    nameAccepted cfg r.name = true := by
  have hdot : cfg.seps.contains '.' = true := by
    simp only [NameCfg.ok, Bool.and_eq_true] at hok; exact hok.1
  rcases h.1 with hw | ⟨a, b, ha, hb, hab⟩
  · exact nameAccepted_word cfg r.name hw
  · rw [hab]; exact nameAccepted_dotted cfg a b ha hb hdot

/-! ### the inline loop -/

theorem matchLinkAt_not_bracket (cfg : NameCfg) (c : Char) (cs : Str) (h : c ≠ '[') :
    matchLinkAt cfg (c :: cs) = none := by
  unfold matchLinkAt
  split
  · rename_i s1 heq; simp at heq; exact absurd heq.1 h
  · rfl

theorem segGo_skip (cfg : NameCfg) (a s acc : Str) : segGo cfg (a ++ s) a.length acc = segGo cfg s 0 acc := by
  induction a with
  | nil => simp
  | cons c cs ih => simpa [segGo] using ih

theorem segGo_plain (cfg : NameCfg) (pre s acc : Str) (h : ∀ c ∈ pre, c ≠ '[') :
    segGo cfg (pre ++ s) 0 acc = segGo cfg s 0 (pre.reverse ++ acc) := by
  induction pre generalizing acc with
  | nil => simp
  | cons c cs ih =>
    have hc : c ≠ '[' := h c (by simp)
    have := ih (c :: acc) (fun x hx => h x (by simp [hx]))
    simp only [List.cons_append, segGo, matchLinkAt_not_bracket cfg c _ hc, this]
    simp

theorem segGo_match (cfg : NameCfg) (x post acc : Str) (r : Ref) (hx : x ≠ [])
    (h : matchLinkAt cfg (x ++ post) = some (r, post)) :
    segGo cfg (x ++ post) 0 acc = flush acc ++ .ref r :: segGo cfg post 0 [] := by
  cases x with
  | nil => exact absurd rfl hx
  | cons c cs =>
    simp only [List.cons_append] at h ⊢
    simp only [segGo, h]
    have : (cs ++ post).length - post.length = cs.length := by simp
    rw [this, segGo_skip]

theorem render_ne_nil (r : Ref) : r.render ≠ [] := by rw [render_eq]; simp

theorem flush_nil_append (acc : Str) : flush (acc ++ []) = flush acc := by simp

/-- the loop on a text written as `pre₁ [[r₁]] pre₂ [[r₂]] ... post` -/
theorem segGo_parts (cfg : NameCfg) (parts : List (Str × Ref)) (post : Str)
    (hm : ∀ p ∈ parts, ∀ rest, matchLinkAt cfg (p.2.render ++ rest) = some (p.2, rest))
    (hpre : ∀ p ∈ parts, ∀ c ∈ p.1, c ≠ '[') (hpost : ∀ c ∈ post, c ≠ '[') :
    segGo cfg (renderParts parts post) 0 [] = partsSegs parts post := by
  induction parts with
  | nil =>
    have := segGo_plain cfg post [] [] hpost
    simpa [renderParts, partsSegs, segGo] using this
  | cons p ps ih =>
    obtain ⟨pre, r⟩ := p
    have h1 := segGo_plain cfg pre (r.render ++ renderParts ps post) [] (hpre (pre, r) (by simp))
    have h2 := segGo_match cfg r.render (renderParts ps post) (pre.reverse ++ []) r (render_ne_nil r)
      (hm (pre, r) (by simp) _)
    have h3 := ih (fun p hp => hm p (by simp [hp])) (fun p hp => hpre p (by simp [hp]))
    simp only [renderParts, partsSegs, List.append_assoc]
    rw [h1, h2, h3]
    simp

theorem convertSegs_single (env : Env) (P : Project) (ctx : Option Nat) (path : Option Path)
    (pre post : Str) (r : Ref) :
    convertSegs env P ctx path (flush pre.reverse ++ .ref r :: flush post.reverse) =
      match convertLink env P ctx path r with
      | .err e => .error e
      | .link t h => .ok ((if pre.isEmpty then [] else [.plain pre]) ++ .link t h :: (if post.isEmpty then [] else [.plain post]))
      | .text t => .ok ((if pre.isEmpty then [] else [.plain pre]) ++ .text t :: (if post.isEmpty then [] else [.plain post])) := by
  cases pre <;> cases post <;> cases hcv : convertLink env P ctx path r <;>
    simp [flush, convertSegs, hcv]

end Ford.Links
