/-
  Lemmas relating the mechanism (`lookup`, FordModel/Links.lean) to the
  documented lookup (`lookupSpec`, FordModel/LinksSpec.lean).
-/
import FordModel.LinksSpec
namespace Ford.Links

theorem findInList_nil (P : Project) (n : Str) : findInList P n [] = none := rfl

theorem findInList_append (P : Project) (n : Str) (a b : List Item) :
    findInList P n (a ++ b) = orElse' (findInList P n a) (findInList P n b) := by
  induction a with
  | nil => simp [findInList, orElse']
  | cons x xs ih =>
    cases x with
    | other => simpa [findInList] using ih
    | ent id =>
      simp only [List.cons_append, findInList]
      split
      · simp [orElse']
      · exact ih

theorem findInList_mem (P : Project) (n : Str) (l : List Item) (id : Nat)
    (h : findInList P n l = some id) : Item.ent id ∈ l ∧ nameMatches P n id = true := by
  induction l with
  | nil => simp [findInList] at h
  | cons x xs ih =>
    cases x with
    | other =>
      simp only [findInList] at h
      have := ih h
      exact ⟨List.mem_cons_of_mem _ this.1, this.2⟩
    | ent j =>
      simp only [findInList] at h
      split at h
      · rename_i hm
        cases h
        exact ⟨by simp, hm⟩
      · have := ih h
        exact ⟨List.mem_cons_of_mem _ this.1, this.2⟩

theorem findInList_none_of_no_match (P : Project) (n : Str) (l : List Item)
    (h : ∀ id, Item.ent id ∈ l → nameMatches P n id = false) : findInList P n l = none := by
  induction l with
  | nil => rfl
  | cons x xs ih =>
    cases x with
    | other => simp only [findInList]; exact ih (fun id hid => h id (List.mem_cons_of_mem _ hid))
    | ent j =>
      simp only [findInList, h j (by simp)]
      exact ih (fun id hid => h id (List.mem_cons_of_mem _ hid))

theorem nameMatches_get (P : Project) (n : Str) (id : Nat) (h : nameMatches P n id = true) :
    ∃ e, P.get id = some e ∧ lower n = lower e.name := by
  unfold nameMatches at h
  split at h
  · rename_i e he
    exact ⟨e, he, by simpa using h⟩
  · cases h

theorem get_mem (P : Project) (id : Nat) (e : Ent) (h : P.get id = some e) : e ∈ P.ents := by
  unfold Project.get at h
  exact List.mem_of_getElem? h

/-- `find_child` under `suppress(ValueError)` when no TypeError can arise -/
theorem suppress_findChild (P : Project) (e : Ent) (n : Str) (q : Option Str)
    (hT : raisesTypeError e q = false) :
    suppressVE (findChild P e n q) = .ok (findInList P n (itemsOf e q)) := by
  cases q with
  | none => simp [findChild, suppressVE, itemsOf]
  | some k =>
    simp only [findChild, itemsOf, raisesTypeError] at *
    cases h1 : sublinkTypes.lookup (kindKey k) with
    | none => simp [suppressVE, Err.isValueError, findInList]
    | some attr =>
      simp only [h1] at hT
      cases h2 : List.lookup attr e.attrs with
      | none => simp [h2, suppressVE, Err.isValueError, findInList]
      | some v =>
        simp only [h2] at hT
        cases v <;> simp_all [suppressVE, findInList]

/-- `find_child` proper (exceptions propagate) when the kind is one the entity can hold -/
theorem findChild_ok (P : Project) (e : Ent) (n : Str) (q : Option Str)
    (hT : raisesTypeError e q = false) (hH : canHold e q = true) :
    findChild P e n q = .ok (findInList P n (itemsOf e q)) := by
  cases q with
  | none => simp [findChild, itemsOf]
  | some k =>
    simp only [findChild, itemsOf, raisesTypeError, canHold] at *
    cases h1 : sublinkTypes.lookup (kindKey k) with
    | none => simp [h1] at hH
    | some attr =>
      simp only [h1] at hT hH
      cases h2 : List.lookup attr e.attrs with
      | none => simp [h2] at hH
      | some v =>
        simp only [h2] at hT
        cases v <;> simp_all [findInList]

theorem projectColl_ok (P : Project) (q : Option Str) (h : knownComponentKind q = true) :
    projectColl P q = .ok (projItems P q) := by
  cases q with
  | none => rfl
  | some k =>
    simp only [projectColl, projItems, knownComponentKind] at *
    cases h1 : linkTypes.lookup (kindKey k) with
    | none => simp [h1] at h
    | some attr => rfl

end Ford.Links

namespace Ford.Links

theorem localCandidates_some (P : Project) (ctx : Option Nat) (c : Ent) (k : Option Str)
    (hc : ctx.bind P.get = some c) :
    localCandidates P ctx k =
      itemsOf c k ++ (match c.parent.bind P.get with | some p => itemsOf p k | none => []) := by
  simp only [localCandidates, hc]
  cases c.parent.bind P.get <;> rfl

/-- the context part of `convert_link` = first match over (own contents ++ parent's contents),
    then the item inside that hit -/
theorem localLookup_eq (P : Project) (ctx : Option Nat) (c : Ent) (r : Ref)
    (hc : ctx.bind P.get = some c)
    (hK : ∀ e ∈ P.ents, raisesTypeError e r.kind = false)
    (hC : ∀ e ∈ P.ents, raisesTypeError e r.childKind = false)
    (hH : ∀ id e, P.get id = some e →
        findInList P r.name (localCandidates P ctx r.kind) = some id → canHold e r.childKind = true) :
    localLookup P c r = .ok
      (match r.child with
       | none => findInList P r.name (localCandidates P ctx r.kind)
       | some ch => childIn P (findInList P r.name (localCandidates P ctx r.kind)) ch r.childKind) := by
  have hcm : c ∈ P.ents := by
    cases ctx with
    | none => simp at hc
    | some i => exact get_mem P i c (by simpa using hc)
  rw [localCandidates_some P ctx c r.kind hc] at *
  rw [findInList_append] at *
  unfold localLookup
  rw [suppress_findChild P c r.name r.kind (hK c hcm)]
  simp only
  cases h1 : findInList P r.name (itemsOf c r.kind) with
  | some i1 =>
    simp only [orElse', h1] at hH ⊢
    obtain ⟨e1, he1, _⟩ := nameMatches_get P r.name i1 (findInList_mem P _ _ _ h1).2
    cases hch : r.child with
    | none => simp
    | some ch =>
      simp only [Option.bind_some, he1, childIn]
      exact findChild_ok P e1 ch r.childKind (hC e1 (get_mem P i1 e1 he1)) (hH i1 e1 he1 rfl)
  | none =>
    simp only [orElse', h1] at hH ⊢
    cases hp : c.parent.bind P.get with
    | none =>
      simp only [findInList_nil]
      cases hch : r.child <;> simp [childIn]
    | some p =>
      have hpm : p ∈ P.ents := by
        cases hpp : c.parent with
        | none => simp [hpp] at hp
        | some j => exact get_mem P j p (by simpa [hpp] using hp)
      simp only [hp] at hH ⊢
      rw [suppress_findChild P p r.name r.kind (hK p hpm)]
      simp only
      cases h2 : findInList P r.name (itemsOf p r.kind) with
      | none => cases hch : r.child <;> simp [childIn]
      | some i2 =>
        obtain ⟨e2, he2, _⟩ := nameMatches_get P r.name i2 (findInList_mem P _ _ _ h2).2
        cases hch : r.child with
        | none => simp
        | some ch =>
          simp only [Option.bind_some, he2, childIn]
          exact findChild_ok P e2 ch r.childKind (hC e2 (get_mem P i2 e2 he2)) (hH i2 e2 he2 (by simp [h2]))

end Ford.Links

namespace Ford.Links

theorem projectFind_eq (P : Project) (n : Str) (k : Option Str) (child ck : Option Str)
    (hP : knownComponentKind k = true)
    (hC : ∀ e ∈ P.ents, raisesTypeError e ck = false)
    (hH : ∀ id e, P.get id = some e → findInList P n (projItems P k) = some id → canHold e ck = true) :
    projectFind P n k child ck = .ok
      (match child with
       | none => findInList P n (projItems P k)
       | some ch => childIn P (findInList P n (projItems P k)) ch ck) := by
  unfold projectFind
  rw [projectColl_ok P k hP]
  simp only
  cases h1 : findInList P n (projItems P k) with
  | none => cases child <;> simp [childIn]
  | some i =>
    obtain ⟨e, he, _⟩ := nameMatches_get P n i (findInList_mem P _ _ _ h1).2
    cases child with
    | none => simp
    | some ch =>
      simp only [he, childIn, Option.bind_some]
      exact findChild_ok P e ch ck (hC e (get_mem P i e he)) (hH i e he h1)

theorem projectFind_plain (P : Project) (n : Str) (k : Option Str) (hP : knownComponentKind k = true) :
    projectFind P n k none none = .ok (findInList P n (projItems P k)) := by
  unfold projectFind
  rw [projectColl_ok P k hP]
  simp only
  cases findInList P n (projItems P k) <;> rfl

/-- **refinement**: `convert_link`'s cascade (two `find_child` attempts under
    `suppress(ValueError)`, the item lookup, `Project.find`, the parent-only fall-back) computes the
    documented first-match lookup, whenever no Python exception is due -/
theorem lookup_eq_spec (P : Project) (ctx : Option Nat) (r : Ref)
    (hK : ∀ e ∈ P.ents, raisesTypeError e r.kind = false)
    (hC : ∀ e ∈ P.ents, raisesTypeError e r.childKind = false)
    (hP : knownComponentKind r.kind = true)
    (hH : ∀ id e, P.get id = some e →
        (findInList P r.name (localCandidates P ctx r.kind) = some id ∨
         findInList P r.name (projItems P r.kind) = some id) → canHold e r.childKind = true) :
    lookup P ctx r = .ok (lookupSpec P ctx r) := by
  have hpf := projectFind_eq P r.name r.kind r.child r.childKind hP hC (fun id e he h => hH id e he (Or.inr h))
  have hpp := projectFind_plain P r.name r.kind hP
  unfold lookup lookupSpec
  simp only []
  rw [hpf, hpp]
  cases hcb : ctx.bind P.get with
  | none =>
    have hl : localCandidates P ctx r.kind = [] := by simp [localCandidates, hcb]
    simp only [hl, findInList_nil]
    cases hch : r.child with
    | none =>
      simp only
      cases findInList P r.name (projItems P r.kind) <;> simp [orElse']
    | some ch =>
      simp only
      cases childIn P (findInList P r.name (projItems P r.kind)) ch r.childKind <;>
        cases findInList P r.name (projItems P r.kind) <;> simp [orElse', childIn]
  | some c =>
    simp only
    rw [localLookup_eq P ctx c r hcb hK hC (fun id e he h => hH id e he (Or.inl h))]
    cases hch : r.child with
    | none =>
      simp only
      cases findInList P r.name (localCandidates P ctx r.kind) <;>
        cases findInList P r.name (projItems P r.kind) <;> simp [orElse']
    | some ch =>
      simp only
      cases childIn P (findInList P r.name (localCandidates P ctx r.kind)) ch r.childKind <;>
        cases childIn P (findInList P r.name (projItems P r.kind)) ch r.childKind <;>
        cases findInList P r.name (projItems P r.kind) <;> simp [orElse']

end Ford.Links

namespace Ford.Links

theorem lookup_mem {β : Type} (a : String) (v : β) (l : List (String × β)) (h : l.lookup a = some v) :
    (a, v) ∈ l := by
  induction l with
  | nil => simp at h
  | cons x xs ih =>
    obtain ⟨k, w⟩ := x
    simp only [List.lookup] at h
    split at h
    · rename_i heq
      have : a = k := by simpa using heq
      cases h; subst this; simp
    · exact List.mem_cons_of_mem _ (ih h)

theorem iterItems_mem (e : Ent) (names : List String) (id : Nat) (h : Item.ent id ∈ iterItems e names) :
    ∃ a l, (a, AttrVal.many l) ∈ e.attrs ∧ Item.ent id ∈ l := by
  induction names with
  | nil => simp [iterItems] at h
  | cons a rest ih =>
    simp only [iterItems, List.mem_append] at h
    rcases h with h | h
    · split at h
      · rename_i l hl
        exact ⟨a, l, lookup_mem a _ _ hl, h⟩
      · simp at h
    · exact ih h

theorem singleItems_mem (e : Ent) (names : List String) (id : Nat) (h : Item.ent id ∈ singleItems e names) :
    ∃ a, (a, AttrVal.one id) ∈ e.attrs := by
  induction names with
  | nil => simp [singleItems] at h
  | cons a rest ih =>
    simp only [singleItems, List.mem_append] at h
    rcases h with h | h
    · split at h
      · rename_i j hj
        have : id = j := by simpa using h
        subst this
        exact ⟨a, lookup_mem a _ _ hj⟩
      · simp at h
      · simp at h
    · exact ih h

theorem children_listed (P : Project) (e : Ent) (he : e ∈ P.ents) (id : Nat) (h : Item.ent id ∈ children e) :
    Listed P id := by
  simp only [children, List.mem_append] at h
  rcases h with h | h
  · obtain ⟨a, l, h1, h2⟩ := iterItems_mem e _ id h
    exact Or.inl ⟨e, he, a, l, h1, h2⟩
  · obtain ⟨a, h1⟩ := singleItems_mem e _ id h
    exact Or.inr (Or.inl ⟨e, he, a, h1⟩)

/-- whatever `find_child` returns is an element of a collection of that entity, with the requested name -/
theorem findChild_listed (P : Project) (e : Ent) (he : e ∈ P.ents) (n : Str) (q : Option Str) (id : Nat)
    (h : findChild P e n q = .ok (some id)) : Listed P id ∧ nameMatches P n id = true := by
  cases q with
  | none =>
    simp only [findChild, Except.ok.injEq] at h
    obtain ⟨h1, h2⟩ := findInList_mem P n _ id h
    exact ⟨children_listed P e he id h1, h2⟩
  | some k =>
    simp only [findChild] at h
    split at h
    · cases h
    · rename_i attr _
      split at h
      · cases h
      · rename_i l hl
        simp only [Except.ok.injEq] at h
        obtain ⟨h1, h2⟩ := findInList_mem P n _ id h
        exact ⟨Or.inl ⟨e, he, attr, l, lookup_mem attr _ _ hl, h1⟩, h2⟩
      · simp at h
      · cases h
      · cases h

theorem suppressVE_some (x : Except Err (Option Nat)) (id : Nat) (h : suppressVE x = .ok (some id)) :
    x = .ok (some id) := by
  cases x with
  | error e => simp only [suppressVE] at h; split at h <;> simp at h
  | ok r => simpa [suppressVE] using h

theorem coll_listed (P : Project) (attr : String) (id : Nat) (h : Item.ent id ∈ P.coll attr) : Listed P id := by
  unfold Project.coll at h
  cases hl : P.lists.lookup attr with
  | none => simp [hl] at h
  | some l =>
    simp only [hl, Option.getD_some] at h
    exact Or.inr (Or.inr ⟨attr, l, lookup_mem attr l _ hl, h⟩)

theorem projectColl_listed (P : Project) (q : Option Str) (coll : List Item) (h : projectColl P q = .ok coll)
    (id : Nat) (hm : Item.ent id ∈ coll) : Listed P id := by
  cases q with
  | none =>
    simp only [projectColl, Except.ok.injEq] at h
    subst h
    obtain ⟨kv, _, h2⟩ := List.mem_flatMap.1 hm
    exact coll_listed P kv.2 id h2
  | some k =>
    simp only [projectColl] at h
    split at h
    · cases h
    · simp only [Except.ok.injEq] at h
      subst h
      exact coll_listed P _ id hm

/-- whatever `Project.find` returns is listed, and carries the component's or the item's name -/
theorem projectFind_listed (P : Project) (n : Str) (k child ck : Option Str) (id : Nat)
    (h : projectFind P n k child ck = .ok (some id)) :
    Listed P id ∧ (nameMatches P n id = true ∨ ∃ ch, child = some ch ∧ nameMatches P ch id = true) := by
  unfold projectFind at h
  split at h
  · cases h
  · rename_i coll hcoll
    split at h
    · rename_i j c hj
      obtain ⟨hm, hn⟩ := findInList_mem P n coll j hj
      split at h
      · rename_i e he
        obtain ⟨h1, h2⟩ := findChild_listed P e (get_mem P j e he) c ck id h
        exact ⟨h1, Or.inr ⟨c, rfl, h2⟩⟩
      · simp at h
    · simp only [Except.ok.injEq] at h
      obtain ⟨hm, hn⟩ := findInList_mem P n coll id h
      exact ⟨projectColl_listed P k coll hcoll id hm, Or.inl hn⟩

end Ford.Links

namespace Ford.Links

theorem localLookup_listed (P : Project) (c : Ent) (hc : c ∈ P.ents) (r : Ref) (id : Nat)
    (h : localLookup P c r = .ok (some id)) :
    Listed P id ∧ (nameMatches P r.name id = true ∨ ∃ ch, r.child = some ch ∧ nameMatches P ch id = true) := by
  unfold localLookup at h
  split at h
  · cases h
  · rename_i i1 h1
    simp only at h
    -- the component hit `i2`
    have key : ∀ i2 : Option Nat,
        (∀ j, i2 = some j → Listed P j ∧ nameMatches P r.name j = true) →
        (match r.child, i2.bind P.get with
          | some ch, some e => findChild P e ch r.childKind
          | _, _ => Except.ok i2) = .ok (some id) →
        Listed P id ∧ (nameMatches P r.name id = true ∨ ∃ ch, r.child = some ch ∧ nameMatches P ch id = true) := by
      intro i2 hi2 hh
      split at hh
      · rename_i ch e hch he
        cases i2 with
        | none => simp at he
        | some j =>
          have hje : P.get j = some e := by simpa using he
          obtain ⟨a, b⟩ := findChild_listed P e (get_mem P j e hje) ch r.childKind id hh
          exact ⟨a, Or.inr ⟨ch, hch, b⟩⟩
      · simp only [Except.ok.injEq] at hh
        obtain ⟨a, b⟩ := hi2 id hh
        exact ⟨a, Or.inl b⟩
    split at h
    · cases h
    · rename_i i2 h2
      refine key i2 ?_ h
      intro j hj
      subst hj
      split at h2
      · rename_i p hp
        have hpm : p ∈ P.ents := by
          cases hpp : c.parent with
          | none => simp [hpp] at hp
          | some q => exact get_mem P q p (by simpa [hpp] using hp)
        exact findChild_listed P p hpm r.name r.kind j (suppressVE_some _ _ h2)
      · simp only [Except.ok.injEq] at h2
        subst h2
        exact findChild_listed P c hc r.name r.kind j (suppressVE_some _ _ h1)

/-- **a link only ever points to a listed entity that carries one of the two names written** -/
theorem lookup_listed (P : Project) (ctx : Option Nat) (r : Ref) (id : Nat) (h : lookup P ctx r = .ok (some id)) :
    Listed P id ∧ (nameMatches P r.name id = true ∨ ∃ ch, r.child = some ch ∧ nameMatches P ch id = true) := by
  unfold lookup at h
  simp only [] at h
  split at h
  · cases h
  · rename_i i hloc
    simp only [Except.ok.injEq, Option.some.injEq] at h
    subst h
    split at hloc
    · cases hloc
    · rename_i c hc
      have hcm : c ∈ P.ents := by
        cases ctx with
        | none => simp at hc
        | some k => exact get_mem P k c (by simpa using hc)
      exact localLookup_listed P c hcm r i hloc
  · split at h
    · cases h
    · rename_i i hp
      simp only [Except.ok.injEq, Option.some.injEq] at h
      subst h
      exact projectFind_listed P r.name r.kind r.child r.childKind i hp
    · split at h
      · obtain ⟨a, b⟩ := projectFind_listed P r.name r.kind none none id h
        refine ⟨a, ?_⟩
        rcases b with b | ⟨ch, hch, _⟩
        · exact Or.inl b
        · cases hch
      · cases h

end Ford.Links

namespace Ford.Links

theorem keepItems_mem (keep : Nat → Bool) (l : List Item) (id : Nat) (h : Item.ent id ∈ keepItems keep l) :
    keep id = true := by
  simp only [keepItems, List.mem_filter] at h
  exact h.2

/-- after pruning, only kept entities are listed anywhere -/
theorem listed_prune (keep : Nat → Bool) (P : Project) (id : Nat) (h : Listed (prune keep P) id) :
    keep id = true := by
  rcases h with ⟨e', he', a, l, hal, hid⟩ | ⟨e', he', a, ha⟩ | ⟨a, l, hal, hid⟩
  · simp only [prune, List.mem_map] at he'
    obtain ⟨e, _, rfl⟩ := he'
    simp only [pruneEnt, List.mem_map] at hal
    obtain ⟨⟨a0, v0⟩, _, hv⟩ := hal
    simp only [Prod.mk.injEq] at hv
    cases v0 with
    | many l0 =>
      simp only [pruneAttr, AttrVal.many.injEq] at hv
      rw [← hv.2] at hid
      exact keepItems_mem keep l0 id hid
    | one j => simp only [pruneAttr] at hv; split at hv <;> simp at hv
    | noneVal => simp [pruneAttr] at hv
    | otherVal => simp [pruneAttr] at hv
  · simp only [prune, List.mem_map] at he'
    obtain ⟨e, _, rfl⟩ := he'
    simp only [pruneEnt, List.mem_map] at ha
    obtain ⟨⟨a0, v0⟩, _, hv⟩ := ha
    simp only [Prod.mk.injEq] at hv
    cases v0 with
    | many l0 => simp [pruneAttr] at hv
    | one j =>
      simp only [pruneAttr] at hv
      split at hv
      · rename_i hk
        have : j = id := by simpa using hv.2
        subst this; exact hk
      · simp at hv
    | noneVal => simp [pruneAttr] at hv
    | otherVal => simp [pruneAttr] at hv
  · simp only [prune, List.mem_map] at hal
    obtain ⟨⟨a0, l0⟩, _, hv⟩ := hal
    simp only [Prod.mk.injEq] at hv
    rw [← hv.2] at hid
    exact keepItems_mem keep l0 id hid

theorem currentPath_entity (env : Env) (P : Project) (ctx : Option Nat) (c : Ent) (u : Url)
    (hc : ctx.bind P.get = some c) (he : c.extUrl = none) (hu : urlOfChain c.chain = some u) :
    currentPath env P ctx none = some (env.base ++ [nonExistentDir]) := by
  simp [currentPath, hc, he, hu, Url.segs]

end Ford.Links
