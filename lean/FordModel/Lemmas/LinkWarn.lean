/-
  C11, round 6 - lemmas about the warnings of `convert_link` (FordModel/LinkWarn.lean).
-/
import FordModel.LinkWarn
import FordModel.Lemmas.Links
import FordModel.Lemmas.LinkSyntax
namespace Ford.Links
open Ford

/-- the lookup with warnings selects what the lookup selects -/
theorem lookupW_fst (P : Project) (ctx : Option Nat) (r : Ref) : (lookupW P ctx r).1 = lookup P ctx r := by
  have tail : ∀ (P : Project) (r : Ref),
      (match projectFind P r.name r.kind r.child r.childKind with
        | .error e => ((.error e : Except Err (Option Nat)), ([] : List Warn))
        | .ok (some i) => (.ok (some i), [])
        | .ok none =>
          match r.child with
          | some ch =>
            (match projectFind P r.name r.kind none none with
             | .error e => (.error e, [.childNotFound r.render ch r.name])
             | .ok (some i) => (.ok (some i), [.childNotFound r.render ch r.name])
             | .ok none => (.ok none, [.childNotFound r.render ch r.name, .notFound r.render r.name]))
          | none => (.ok none, [.notFound r.render r.name])).1 =
      (match projectFind P r.name r.kind r.child r.childKind with
        | .error e => .error e
        | .ok (some i) => .ok (some i)
        | .ok none =>
          match r.child with
          | some _ => projectFind P r.name r.kind none none
          | none => .ok none) := by
    intro P r
    cases projectFind P r.name r.kind r.child r.childKind with
    | error e => rfl
    | ok v =>
      cases v with
      | some i => rfl
      | none =>
        cases r.child with
        | none => rfl
        | some ch =>
          simp only []
          cases projectFind P r.name r.kind none none with
          | error e => rfl
          | ok v => cases v <;> rfl
  unfold lookupW lookup
  cases ctx.bind P.get with
  | none => exact tail P r
  | some c =>
    simp only []
    cases localLookup P c r with
    | error e => rfl
    | ok v =>
      cases v with
      | some i => rfl
      | none => exact tail P r

theorem outOf_lookup (env : Env) (P : Project) (ctx : Option Nat) (path : Option Path) (r : Ref) :
    outOf env P ctx path r (lookup P ctx r) = convertLink env P ctx path r := by
  unfold outOf convertLink
  cases lookup P ctx r with
  | error e => rfl
  | ok v =>
    cases v with
    | none => rfl
    | some id =>
      simp only []
      cases P.get id with
      | none => rfl
      | some e =>
        simp only []
        cases hrefOf env (currentPath env P ctx path) e <;> rfl

theorem convertLinkW_fst (env : Env) (P : Project) (ctx : Option Nat) (path : Option Path) (r : Ref) :
    (convertLinkW env P ctx path r).1 = convertLink env P ctx path r := by
  simp [convertLinkW, lookupW_fst, outOf_lookup]

/-- the possible shapes of what one reference prints -/
theorem lookupW_cases (P : Project) (ctx : Option Nat) (r : Ref) :
    ((lookupW P ctx r).2 = [] ∧ ((∃ id, lookup P ctx r = .ok (some id)) ∨ ∃ e, lookup P ctx r = .error e)) ∨
    ((lookupW P ctx r).2 = [.notFound r.render r.name] ∧ r.child = none ∧ lookup P ctx r = .ok none) ∨
    (∃ ch, r.child = some ch ∧
      (((lookupW P ctx r).2 = [.childNotFound r.render ch r.name] ∧
          ((∃ id, lookup P ctx r = .ok (some id)) ∨ ∃ e, lookup P ctx r = .error e)) ∨
       ((lookupW P ctx r).2 = [.childNotFound r.render ch r.name, .notFound r.render r.name] ∧
          lookup P ctx r = .ok none))) := by
  rw [← lookupW_fst]
  unfold lookupW
  simp only []
  split
  · exact Or.inl ⟨rfl, Or.inr ⟨_, rfl⟩⟩
  · exact Or.inl ⟨rfl, Or.inl ⟨_, rfl⟩⟩
  · split
    · exact Or.inl ⟨rfl, Or.inr ⟨_, rfl⟩⟩
    · exact Or.inl ⟨rfl, Or.inl ⟨_, rfl⟩⟩
    · cases hch : r.child with
      | none => exact Or.inr (Or.inl ⟨rfl, rfl, rfl⟩)
      | some ch =>
        refine Or.inr (Or.inr ⟨ch, rfl, ?_⟩)
        simp only []
        cases hpf : projectFind P r.name r.kind none none with
        | error e => exact Or.inl ⟨rfl, Or.inr ⟨_, rfl⟩⟩
        | ok v =>
          cases v with
          | none => exact Or.inr ⟨rfl, rfl⟩
          | some i => exact Or.inl ⟨rfl, Or.inl ⟨_, rfl⟩⟩

/-- an entity the lookup selects is in the store -/
theorem lookup_get (P : Project) (ctx : Option Nat) (r : Ref) (id : Nat) (h : lookup P ctx r = .ok (some id)) :
    ∃ e, P.get id = some e := by
  obtain ⟨_, hn⟩ := lookup_listed P ctx r id h
  rcases hn with hn | ⟨ch, _, hn⟩
  · obtain ⟨e, he, _⟩ := nameMatches_get P _ id hn; exact ⟨e, he⟩
  · obtain ⟨e, he, _⟩ := nameMatches_get P _ id hn; exact ⟨e, he⟩

/-- plain text is rendered exactly when the lookup finds nothing -/
theorem convertLink_text_iff (env : Env) (P : Project) (ctx : Option Nat) (path : Option Path) (r : Ref) :
    (∃ t, convertLink env P ctx path r = .text t) ↔ lookup P ctx r = .ok none := by
  constructor
  · rintro ⟨t, h⟩
    unfold convertLink at h
    split at h
    · cases h
    · assumption
    · rename_i id hl
      obtain ⟨e, he⟩ := lookup_get P ctx r id hl
      simp only [he] at h
      split at h <;> cases h
  · intro h
    exact ⟨r.name, by simp [convertLink, h]⟩

theorem warnSegs_append_plain (env : Env) (P : Project) (ctx : Option Nat) (path : Option Path) (s : Str) (l : List Seg) :
    warnSegs env P ctx path (flush s ++ l) = warnSegs env P ctx path l := by
  unfold flush
  split <;> simp [warnSegs]

theorem warnSegs_flush (env : Env) (P : Project) (ctx : Option Nat) (path : Option Path) (s : Str) :
    warnSegs env P ctx path (flush s) = [] := by
  unfold flush
  split <;> simp [warnSegs]

/-- the warnings of a text whose references all convert without exception: the concatenation of the
    warnings of its references, in the order written -/
theorem warnSegs_parts (env : Env) (P : Project) (ctx : Option Nat) (path : Option Path)
    (parts : List (Str × Ref)) (post : Str)
    (hok : ∀ p ∈ parts, ∀ e, convertLink env P ctx path p.2 ≠ .err e) :
    warnSegs env P ctx path (partsSegs parts post) =
      parts.flatMap (fun p => (convertLinkW env P ctx path p.2).2) := by
  induction parts with
  | nil => simp [partsSegs, warnSegs_flush]
  | cons p rest ih =>
    obtain ⟨pre, r⟩ := p
    have h1 := hok (pre, r) (by simp)
    have ih' := ih (fun q hq => hok q (by simp [hq]))
    simp only [partsSegs, warnSegs_append_plain, warnSegs, List.flatMap_cons]
    rw [convertLinkW_fst]
    cases hc : convertLink env P ctx path r with
    | err e => exact absurd hc (h1 e)
    | link t h => simp [ih']
    | text t => simp [ih']

end Ford.Links
