/-
  C04 - helper lemmas for the round-5 theorems: the application step of an attribute statement
  (`applyAttrs` on one entry, a last word that is recognised wins) and the implementations of separate module
  procedures (`implsFrom`).
-/
import FordModel.AccessImpl
import FordModel.Lemmas.Access
import FordModel.AccessSpec
namespace Ford.Access

/-- the loops "last recognised access word wins": a recognised word at the very end decides -/
theorem declPerm_append_acc (words : List Perm) (q : Perm) (hq : q ∈ words) :
    ∀ (A : List Attr) (p : Perm), declPerm words p (A ++ [.acc q]) = q := by
  intro A
  induction A with
  | nil => intro p; simp [declPerm, hq]
  | cons a r ih =>
    intro p
    cases a with
    | acc x =>
      simp only [List.cons_append, declPerm]
      split <;> exact ih _
    | other =>
      simp only [List.cons_append, declPerm]
      exact ih _

/-- one attribute-statement entry naming the entity: a recognised access word overwrites the permission the
    entity has, whatever that is; any other word leaves it -/
theorem applyAttrs_single (words : List Perm) (n : Str) (p w : Perm) :
    applyAttrs words n p [(n, .acc w)] = if w ∈ words then w else p := by
  by_cases h : w ∈ words <;> simp [applyAttrs, h]

theorem permAfter_not_bare (p : Perm) (s : Stmt) (h : ∀ q, s ≠ .bare q) : permAfter p s = p := by
  cases s with
  | bare q => exact absurd rfl (h q)
  | _ => rfl

/-- without a bare access statement every short-form implementation is constructed with the unit's initial
    permission -/
theorem implsFrom_const (g : Bool) (p : Perm) : ∀ xs : List XStmt,
    (∀ r, XStmt.stmt r ∈ xs → ∀ q, keyed g r ≠ .bare q) → ∀ k ∈ implsFrom g p xs, k.perm = p := by
  intro xs
  induction xs with
  | nil => intro _ k hk; cases hk
  | cons x t ih =>
    intro h k hk
    have ht : ∀ r, XStmt.stmt r ∈ t → ∀ q, keyed g r ≠ .bare q := fun r hr => h r (List.mem_cons_of_mem _ hr)
    cases x with
    | impl n =>
      simp only [implsFrom, List.mem_cons] at hk
      rcases hk with hk | hk
      · rw [hk]
      · exact ih ht k hk
    | stmt r =>
      simp only [implsFrom] at hk
      rw [permAfter_not_bare p (keyed g r) (h r (List.mem_cons_self ..))] at hk
      exact ih ht k hk

/-- every short-form body of the unit is in `modprocedures` under its name -/
theorem implsFrom_mem (g : Bool) (n : Str) : ∀ (xs : List XStmt) (p : Perm),
    XStmt.impl n ∈ xs → ∃ k ∈ implsFrom g p xs, k.name = n := by
  intro xs
  induction xs with
  | nil => intro _ h; cases h
  | cons x t ih =>
    intro p h
    cases x with
    | impl m =>
      simp only [List.mem_cons, XStmt.impl.injEq] at h
      rcases h with h | h
      · exact ⟨⟨m, p⟩, by simp [implsFrom], h.symm⟩
      · obtain ⟨k, hk, hn⟩ := ih p h
        exact ⟨k, by simp [implsFrom, hk], hn⟩
    | stmt r =>
      simp only [List.mem_cons, reduceCtorEq, false_or] at h
      obtain ⟨k, hk, hn⟩ := ih (permAfter p (keyed g r)) h
      exact ⟨k, by simpa [implsFrom] using hk, hn⟩

/-- one access word for `n` among the attribute statements: the application step ends on it, whatever the entity had -/
theorem applyAttrs_one (n : Str) (a : List (Str × Attr)) (p q : Perm)
    (hstmt : (entriesFor n a).filterMap accessWord = [q]) (hprot : Attr.acc .prot ∉ entriesFor n a) :
    applyAttrs applyWords n p a = q := by
  rw [applyAttrs_eq_declPerm]
  exact declPerm_one applyWords (by decide) (by decide) _ _ q hstmt hprot

/-- what Fortran says about an entity without attributes of its own that one access statement names -/
theorem fortranAccess_one (stmts : List Stmt) (n : Str) (q : Perm)
    (hstmt : (entriesFor n (stmtEntries stmts)).filterMap accessWord = [q])
    (hprot : Attr.acc .prot ∉ entriesFor n (stmtEntries stmts)) :
    fortranAccess stmts [] n = q := by
  have h1 : stmtAccess stmts n = some q := by
    rw [stmtAccess_eq, explicitOf_eq_head, hstmt]; rfl
  have h2 : hasProtected stmts [] n = false := by
    simp only [hasProtected, List.contains_nil, Bool.false_or]
    cases hc : (stmtEntries stmts).contains (n, Attr.acc .prot) with
    | false => rfl
    | true =>
      exfalso; apply hprot
      have hm : (n, Attr.acc .prot) ∈ stmtEntries stmts := by simpa using hc
      simp only [entriesFor, List.mem_map, List.mem_filter]
      exact ⟨_, ⟨hm, by simp⟩, rfl⟩
  have hq : q ≠ .prot := by
    have hm : q ∈ (entriesFor n (stmtEntries stmts)).filterMap accessWord := by rw [hstmt]; simp
    obtain ⟨a, _, ha⟩ := List.mem_filterMap.1 hm
    exact accessWord_ne_prot ha
  unfold fortranAccess
  simp only [explicitOf, List.findSome?_nil, Option.orElse_none, h1, Option.getD_some, h2]
  cases q <;> simp_all

theorem xstmts_map_stmt (rs : List RStmt) : xstmts (rs.map XStmt.stmt) = rs := by
  induction rs with
  | nil => rfl
  | cons r t ih => simp [xstmts, ih]

theorem map_keyed_plain (g : Bool) (ss : List Stmt) : (ss.map RStmt.plain).map (keyed g) = ss := by
  induction ss with
  | nil => rfl
  | cons s t ih => simp [keyed, ih]

end Ford.Access
