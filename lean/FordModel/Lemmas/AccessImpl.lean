/-
  C04 - helper lemmas for the round-5 theorems: the application step of an attribute statement
  (`applyAttrs` on one entry, a last word that is recognised wins) and the implementations of separate module
  procedures (`implsFrom`).
-/
import FordModel.AccessImpl
import FordModel.Lemmas.Access
namespace Ford.Access

/-- the loops "last recognised access word wins": a recognised word at the very end decides -/
theorem declPerm_append_acc (words : List Perm) (q : Perm) (hq : q ∈ words) :
    ∀ (A : List Attr) (p : Perm), declPerm words p (A ++ [.acc q]) = q := by
  intro A
  induction A with
  | nil => intro p; simp [declPerm, hq]
  | cons a r ih =>
    intro p
    cases a with
    | acc x =>
      simp only [List.cons_append, declPerm]
      split <;> exact ih _
    | other =>
      simp only [List.cons_append, declPerm]
      exact ih _

/-- one attribute-statement entry naming the entity: a recognised access word overwrites the permission the
    entity has, whatever that is; any other word leaves it -/
theorem applyAttrs_single (words : List Perm) (n : Str) (p w : Perm) :
    applyAttrs words n p [(n, .acc w)] = if w ∈ words then w else p := by
  by_cases h : w ∈ words <;> simp [applyAttrs, h]

theorem permAfter_not_bare (p : Perm) (s : Stmt) (h : ∀ q, s ≠ .bare q) : permAfter p s = p := by
  cases s with
  | bare q => exact absurd rfl (h q)
  | _ => rfl

/-- without a bare access statement every short-form implementation is constructed with the unit's initial
    permission -/
theorem implsFrom_const (g : Bool) (p : Perm) : ∀ xs : List XStmt,
    (∀ r, XStmt.stmt r ∈ xs → ∀ q, keyed g r ≠ .bare q) → ∀ k ∈ implsFrom g p xs, k.perm = p := by
  intro xs
  induction xs with
  | nil => intro _ k hk; cases hk
  | cons x t ih =>
    intro h k hk
    have ht : ∀ r, XStmt.stmt r ∈ t → ∀ q, keyed g r ≠ .bare q := fun r hr => h r (List.mem_cons_of_mem _ hr)
    cases x with
    | impl n =>
      simp only [implsFrom, List.mem_cons] at hk
      rcases hk with hk | hk
      · rw [hk]
      · exact ih ht k hk
    | stmt r =>
      simp only [implsFrom] at hk
      rw [permAfter_not_bare p (keyed g r) (h r (List.mem_cons_self ..))] at hk
      exact ih ht k hk

theorem xstmts_map_stmt (rs : List RStmt) : xstmts (rs.map XStmt.stmt) = rs := by
  induction rs with
  | nil => rfl
  | cons r t ih => simp [xstmts, ih]

theorem map_keyed_plain (g : Bool) (ss : List Stmt) : (ss.map RStmt.plain).map (keyed g) = ss := by
  induction ss with
  | nil => rfl
  | cons s t ih => simp [keyed, ih]

end Ford.Access
