import FordModel.Fixed
import FordModel.FixedSpec
import FordModel.Reader
import FordModel.Lemmas.Reader
import FordModel.Generated.C14
namespace Ford.Fixed
open Ford

/-- The variant of the code that `translate/c14.py` reads from the shape of the
    assignments in `FortranLine.__analyse` (the harness checks that probing the
    real code gives the same one). -/
def sourceVariant : Variant :=
  { blankShort := Gen.blankShort, col7Comment := Gen.col7Comment,
    spacedExcess := Gen.excessLiteral == ['!', ' '] }

theorem fieldOk_asIs (lab5 : Str) (c6 : Char) (body : Str) : fieldOk Variant.asIs lab5 c6 body = true := by
  simp [fieldOk, Variant.asIs]

theorem excessMark_cons (v : Variant) :
    excessMark v = '!' :: (if v.spacedExcess then [' '] else []) := by
  cases h : v.spacedExcess <;> simp [excessMark, h]

theorem contHead_length (s : List FLine) : (contHead s).length = s.length := by
  cases s <;> simp [contHead]

theorem convGo_length (v : Variant) (lim : Bool) (stack : List FLine) (ls : List Str) :
    (convGo v lim stack ls).length = stack.length + ls.length := by
  induction ls generalizing stack with
  | nil => simp [convGo]
  | cons l ls ih =>
    simp only [convGo]
    split
    · split <;> simp [ih, contHead_length] <;> omega
    · simp [ih]; omega

/-! ### `rstrip` -/

theorem rstrip_snoc_space (s : Str) (c : Char) (h : isSpace c = true) :
    rstrip (s ++ [c]) = rstrip s := by
  simp [rstrip, lstrip, h]

theorem rstrip_append_blanks (s : Str) (k : Nat) :
    rstrip (s ++ List.replicate k ' ') = rstrip s := by
  induction k with
  | zero => simp
  | succ k ih =>
    rw [List.replicate_succ', ← List.append_assoc, rstrip_snoc_space _ _ (by decide), ih]

theorem rstrip_idem (s : Str) : rstrip (rstrip s) = rstrip s := by
  simp [rstrip, lstrip_idem]

theorem lstrip_length_le (s : Str) : (lstrip s).length ≤ s.length := by
  induction s with
  | nil => simp [lstrip]
  | cons c cs ih =>
    simp only [lstrip]
    split <;> simp <;> omega

theorem rstrip_length_le (s : Str) : (rstrip s).length ≤ s.length := by
  have := lstrip_length_le s.reverse
  simpa [rstrip] using this

theorem strip_length_le (s : Str) : (strip s).length ≤ s.length := by
  have h1 := rstrip_length_le (lstrip s)
  have h2 := lstrip_length_le s
  simp only [strip]; omega

theorem rstrip_ljust (n : Nat) (s : Str) : rstrip (ljust n s) = rstrip s := by
  simp [ljust, rstrip_append_blanks]

theorem labelOut_length_le (lab5 : Str) (h : lab5.length = 5) : (labelOut lab5).length ≤ 6 := by
  have := strip_length_le lab5
  simp only [labelOut]
  split <;> simp [lower] <;> omega

theorem take_ljust (n : Nat) (s t : Str) (h : s.length ≤ n) :
    (ljust n s ++ t).take n = ljust n s := by
  have : (ljust n s).length = n := by simp [ljust]; omega
  rw [List.take_append_of_le_length (by omega), List.take_of_length_le (by omega)]

/-! ### `analyse` on the lines of a well-formed file -/

theorem analyse_code (v : Variant) (lim : Bool) (a b c d e c6 : Char) (body : Str)
    (ha : commentHead (some a) = false) (ha' : a ≠ '#')
    (hb : [b, c, d, e].contains '!' = false)
    (hs : (v.blankShort && isBlank (a :: b :: c :: d :: e :: c6 :: (body ++ ['\n']))) = false)
    (hn : (v.col7Comment && isBlank [a, b, c, d, e, c6] &&
            ((lstrip (body ++ ['\n'])).head? == some '!')) = false) :
    analyse v lim (a :: b :: c :: d :: e :: c6 :: (body ++ ['\n'])) =
      { conv := freeCode v lim (labelOut [a, b, c, d, e]) body false,
        regular := true,
        cont := !(isSpace c6 || c6 == '0'),
        long := lim && decide (body.length > 66),
        excess := if lim && decide (body.length > 66) then excessMark v ++ (body.drop 66 ++ ['\n']) else [] } := by
  have hne : (a == '#') = false := by simp [ha']
  simp at hb
  obtain ⟨hb1, hb2, hb3, hb4⟩ := hb
  have hshort : isShortLine v (a :: b :: c :: d :: e :: c6 :: (body ++ ['\n'])) = false := by
    simp only [isShortLine, hs, Bool.or_false]
    simp
  have hbang : bangLine v (a :: b :: c :: d :: e :: c6 :: (body ++ ['\n'])) = false := by
    have h0 : (List.take 4 (List.drop 1 (a :: b :: c :: d :: e :: c6 :: (body ++ ['\n'])))).contains '!' = false := by
      simp [hb1, hb2, hb3, hb4]
    have h1 : List.take 6 (a :: b :: c :: d :: e :: c6 :: (body ++ ['\n'])) = [a, b, c, d, e, c6] := by simp
    have h2 : List.drop 6 (a :: b :: c :: d :: e :: c6 :: (body ++ ['\n'])) = body ++ ['\n'] := by simp
    simp only [bangLine, h0, h1, h2, hn, Bool.or_false]
  by_cases hl : (lim && decide (body.length > 66)) = true
  · have h1 : lim = true := by simp at hl; exact hl.1
    have h2 : 66 < body.length := by simp at hl; exact hl.2
    have h3 : 73 < List.length body + 1 + 1 + 1 + 1 + 1 + 1 + 1 := by omega
    have h4 : List.take 66 (body ++ ['\n']) = List.take 66 body :=
      List.take_append_of_le_length (by omega)
    have h5 : List.drop 66 (body ++ ['\n']) = List.drop 66 body ++ ['\n'] :=
      List.drop_append_of_le_length (by omega)
    simp [analyse, hshort, hbang, ha, hne, freeCode, labelText, labelOut, h1, h2, h3, h4, h5]
    rw [← List.append_assoc, rstrip_snoc_space _ _ (by decide)]
  · have h3 : ¬ (73 < List.length body + 1 + 1 + 1 + 1 + 1 + 1 + 1 ∧ lim = true) := by
      simp at hl; intro ⟨h, hl'⟩; have := hl hl'; omega
    have h3' : ¬ (lim = true ∧ 66 < List.length body) := by
      simp at hl; intro ⟨hl', h⟩; have := hl hl'; omega
    simp [analyse, hshort, hbang, ha, hne, freeCode, labelText, labelOut, h3, h3']
    cases lim <;> simp_all <;> omega


theorem continue_code (v : Variant) (lim : Bool) (lab body : Str) (c : Bool) (hlab : lab.length ≤ 6) :
    (continueLine
      { conv := freeCode v lim lab body false, regular := true, cont := c,
        long := lim && decide (body.length > 66),
        excess := if lim && decide (body.length > 66) then excessMark v ++ (body.drop 66 ++ ['\n']) else [] }).conv
      = freeCode v lim lab body true := by
  by_cases hl : (lim && decide (body.length > 66)) = true
  · have hlen : (rstrip (lab ++ List.take 66 body)).length ≤ 72 := by
      have := rstrip_length_le (lab ++ List.take 66 body)
      simp at this; omega
    simp only [continueLine, freeCode, hl]
    simp only [Bool.not_true, Bool.false_eq_true, ↓reduceIte]
    rw [take_ljust 72 _ _ hlen, rstrip_ljust, rstrip_idem]
  · simp only [continueLine, freeCode, hl]
    simp
    rw [← List.append_assoc, rstrip_snoc_space _ _ (by decide)]

theorem length5 (l : Str) (h : l.length = 5) : ∃ a b c d e, l = [a, b, c, d, e] := by
  match l, h with
  | [a, b, c, d, e], _ => exact ⟨a, b, c, d, e, rfl⟩

/-! ### blanks -/

theorem isBlank_replicate (n : Nat) : isBlank (List.replicate n ' ') = true := by
  simp [isBlank, isSpace]

theorem isBlank_append (s t : Str) : isBlank (s ++ t) = (isBlank s && isBlank t) := by
  simp [isBlank]

theorem lstrip_blank_append (s t : Str) (h : isBlank s = true) : lstrip (s ++ t) = lstrip t := by
  induction s with
  | nil => rfl
  | cons c cs ih =>
    simp [isBlank] at h
    simp only [List.cons_append, lstrip, h.1, ↓reduceIte]
    exact ih (by simp [isBlank]; exact h.2)

theorem lstrip_replicate_append (n : Nat) (t : Str) : lstrip (List.replicate n ' ' ++ t) = lstrip t :=
  lstrip_blank_append _ _ (isBlank_replicate n)

theorem rstrip_blank (s : Str) (h : isBlank s = true) : rstrip s = [] := by
  have : isBlank s.reverse = true := by simpa [isBlank] using h
  simp [rstrip, lstrip_blank_nil _ this]

theorem strip_blank (s : Str) (h : isBlank s = true) : strip s = [] := by
  simp [strip, lstrip_blank_nil _ h, rstrip]
  rfl

/-- `line[6:].lstrip()[:1] == "!"` does not depend on the line terminator -/
theorem lstrip_nl_head (body : Str) :
    ((lstrip (body ++ ['\n'])).head? == some '!') = ((lstrip body).head? == some '!') := by
  induction body with
  | nil => decide
  | cons c cs ih =>
    by_cases hc : isSpace c = true
    · simp only [List.cons_append, lstrip, hc, ↓reduceIte, ih]
    · simp [lstrip, hc]

/-- the two variant conditions of `analyse_code`, from `fieldOk` -/
theorem fieldOk_hyps (v : Variant) (a b c d e c6 : Char) (body : Str)
    (h : fieldOk v [a, b, c, d, e] c6 body = true) :
    (v.blankShort && isBlank (a :: b :: c :: d :: e :: c6 :: (body ++ ['\n']))) = false ∧
    (v.col7Comment && isBlank [a, b, c, d, e, c6] &&
        ((lstrip (body ++ ['\n'])).head? == some '!')) = false := by
  simp only [fieldOk, Bool.and_eq_true, Bool.not_eq_true'] at h
  obtain ⟨h1, h2⟩ := h
  constructor
  · have : isBlank (a :: b :: c :: d :: e :: c6 :: (body ++ ['\n']))
        = isBlank ([a, b, c, d, e] ++ c6 :: body) := by
      simp [isBlank, isSpace]
    rw [this]; exact h1
  · rw [lstrip_nl_head]
    simpa using h2

/-! ### blank-only lines and column-7 comment lines -/

theorem replicate6 (m : Nat) (t : Str) :
    List.replicate (m + 6) ' ' ++ t = ' ' :: ' ' :: ' ' :: ' ' :: ' ' :: ' ' :: (List.replicate m ' ' ++ t) := by
  simp [List.replicate_succ]

theorem analyse_blank_long (v : Variant) (lim : Bool) (m : Nat) (hv : v.blankShort = true) :
    analyse v lim (List.replicate (m + 6) ' ' ++ ['\n']) =
      { conv := List.replicate m ' ' ++ ['\n'], regular := false, cont := false, long := false, excess := [] } := by
  rw [replicate6]
  have hb : isBlank (List.replicate m ' ' ++ ['\n']) = true := by
    rw [isBlank_append, isBlank_replicate]; decide
  have hb' : isBlank (' ' :: ' ' :: ' ' :: ' ' :: ' ' :: ' ' :: (List.replicate m ' ' ++ ['\n'])) = true := by
    simp only [isBlank, List.all_cons] at hb ⊢
    simp [hb, isSpace]
  have hl : lstrip (List.replicate m ' ' ++ ['\n']) = [] := lstrip_blank_nil _ hb
  simp [analyse, isShortLine, bangLine, hv, hb', hl, commentHead, labelText, strip, lstrip, rstrip, isSpace, lower]

theorem analyse_bang7 (v : Variant) (lim : Bool) (k : Nat) (rest : Str) (hv : v.col7Comment = true) :
    analyse v lim (List.replicate (6 + k) ' ' ++ '!' :: rest) =
      { conv := List.replicate (6 + k) ' ' ++ '!' :: rest, regular := false, cont := false, long := false, excess := [] } := by
  rw [Nat.add_comm 6 k, replicate6]
  have hl : lstrip (List.replicate k ' ' ++ '!' :: rest) = '!' :: rest := by
    rw [lstrip_replicate_append]; simp [lstrip, isSpace]
  simp [analyse, isShortLine, bangLine, hv, hl, commentHead, isBlank, isSpace]

theorem analyse_blank_short (v : Variant) (lim : Bool) (n : Nat) (hn : n ≤ 5) :
    analyse v lim (List.replicate n ' ' ++ ['\n']) =
      { conv := ['\n'], regular := false, cont := false, long := false, excess := [] } := by
  have : n = 0 ∨ n = 1 ∨ n = 2 ∨ n = 3 ∨ n = 4 ∨ n = 5 := by omega
  rcases this with rfl | rfl | rfl | rfl | rfl | rfl <;>
    simp [analyse, isShortLine, bangLine, commentHead, labelText, strip, lstrip, rstrip, isSpace, lower, List.replicate]

theorem analyse_blank (v : Variant) (lim : Bool) (n : Nat) (h : (decide (n ≤ 5) || v.blankShort) = true) :
    analyse v lim (List.replicate n ' ' ++ ['\n']) =
      { conv := List.replicate (n - 6) ' ' ++ ['\n'], regular := false, cont := false, long := false, excess := [] } := by
  by_cases hn : n ≤ 5
  · rw [analyse_blank_short v lim n hn]
    have : n - 6 = 0 := by omega
    simp [this]
  · have hv : v.blankShort = true := by simpa [hn] using h
    obtain ⟨m, rfl⟩ : ∃ m, n = m + 6 := ⟨n - 6, by omega⟩
    rw [analyse_blank_long v lim m hv]
    simp

/-- what `analyse` says about the line of a well-formed item -/
theorem analyse_item (v : Variant) (lim : Bool) (it : Item) (h : it.ok v = true) :
    (analyse v lim (fixedLine it)).conv = freeLine v lim it false ∧
    (analyse v lim (fixedLine it)).regular = it.isRegular ∧
    (analyse v lim (fixedLine it)).cont = it.isCont ∧
    (it.isRegular = true →
      (continueLine (analyse v lim (fixedLine it))).conv = freeLine v lim it true) := by
  cases it with
  | init lab5 c6 body =>
    simp only [Item.ok, Bool.and_eq_true, beq_iff_eq, Bool.not_eq_true', bne_iff_ne] at h
    obtain ⟨⟨⟨⟨⟨h5, hc⟩, hh⟩, hb⟩, h6⟩, hf⟩ := h
    obtain ⟨a, b, c, d, e, rfl⟩ := length5 lab5 h5
    obtain ⟨hs, hn⟩ := fieldOk_hyps v a b c d e c6 body hf
    have := analyse_code v lim a b c d e c6 body (by simpa using hc) (by simpa using hh) (by simpa using hb) hs hn
    simp only [fixedLine, List.cons_append, List.nil_append]
    rw [this]
    refine ⟨rfl, rfl, ?_, fun _ => ?_⟩
    · simp [Item.isCont]; intro hs; simp [hs] at h6; exact h6
    · exact continue_code v lim _ body _ (labelOut_length_le _ rfl)
  | cont c6 body =>
    simp only [Item.ok, Bool.not_eq_true'] at h
    have hc6 : isSpace c6 = false := by
      simp only [Bool.or_eq_false_iff] at h; exact h.1
    have := analyse_code v lim ' ' ' ' ' ' ' ' ' ' c6 body (by decide) (by decide) (by decide)
      (by simp [isBlank, hc6]) (by simp [isBlank, hc6])
    simp only [fixedLine, blanks5, List.cons_append, List.nil_append]
    rw [this]
    have hl : labelOut [' ', ' ', ' ', ' ', ' '] = [] := by decide
    refine ⟨by simp [freeLine, hl], rfl, ?_, fun _ => ?_⟩
    · simp [Item.isCont, h]
    · rw [hl]; exact continue_code v lim [] body _ (by simp)
  | comment c rest =>
    simp only [Item.ok, Bool.and_eq_true, bne_iff_ne] at h
    obtain ⟨hc, ho⟩ := h
    simp [analyse, fixedLine, hc, ho, freeLine, Item.isRegular, Item.isCont]
    have ho' : (lower (List.take 4 rest) == ['$', 'o', 'm', 'p']) = false := by simpa using ho
    split <;> simp [ho']
  | bang25 l =>
    simp only [Item.ok, Bool.and_eq_true, Bool.not_eq_true'] at h
    obtain ⟨hc, hb⟩ := h
    have hb' : '!' ∈ List.take 4 (List.tail l) := by simpa using hb
    simp [analyse, bangLine, fixedLine, hc, hb', freeLine, Item.isRegular, Item.isCont]
    split <;> rfl
  | blank n =>
    simp only [Item.ok] at h
    simp [fixedLine, analyse_blank v lim n h, freeLine, Item.isRegular, Item.isCont]
  | bang7 k rest =>
    simp only [Item.ok] at h
    simp [fixedLine, analyse_bang7 v lim k rest h, freeLine, Item.isRegular, Item.isCont]
  | cpp rest =>
    simp [analyse, fixedLine, commentHead, freeLine, Item.isRegular, Item.isCont]
    split <;> rfl

theorem contHead_append (s : List FLine) (f : FLine) (h : s ≠ []) :
    contHead (s ++ [f]) = contHead s ++ [f] := by
  cases s with
  | nil => exact absurd rfl h
  | cons a t => simp [contHead]

/-- The hold-back invariant: with `stack` held back, the loop over the lines of
    well-formed items yields the held lines - the first of them continued iff
    the next statement-carrying line is a continuation - followed by the
    line-by-line free-form rendering. -/
theorem convGo_sim (v : Variant) (lim : Bool) (items : List Item) (stack : List FLine)
    (hok : ∀ it ∈ items, it.ok v = true) (hst : stack ≠ [] ∨ nextIsCont items = false) :
    convGo v lim stack (renderFixed items) =
      (if nextIsCont items then contHead stack else stack).map (·.conv) ++ renderFree v lim items := by
  induction items generalizing stack with
  | nil => simp [renderFixed, convGo, nextIsCont, renderFree]
  | cons it rest ih =>
    have hit := hok it (by simp)
    have hrest : ∀ i ∈ rest, i.ok v = true := fun i hi => hok i (by simp [hi])
    obtain ⟨hconv, hreg, hcont, hcl⟩ := analyse_item v lim it hit
    simp only [renderFixed, List.map_cons, convGo, hreg, hcont]
    by_cases hr : it.isRegular = true
    · have ih' := ih [analyse v lim (fixedLine it)] hrest (Or.inl (by simp))
      simp only [renderFixed] at ih'
      simp only [hr, ↓reduceIte, ih', nextIsCont, renderFree, Bool.true_and]
      congr 1
      by_cases hn : nextIsCont rest = true
      · simp [hn, contHead, hcl hr]
      · simp [hn, hconv]
    · have hr' : it.isRegular = false := by simpa using hr
      have ih' := ih (stack ++ [analyse v lim (fixedLine it)]) hrest (Or.inl (by simp))
      simp only [renderFixed] at ih'
      simp only [hr', Bool.false_eq_true, ↓reduceIte, ih', nextIsCont, renderFree, Bool.false_and]
      by_cases hn : nextIsCont rest = true
      · have hs : stack ≠ [] := by
          rcases hst with h | h
          · exact h
          · simp [nextIsCont, hr', hn] at h
        simp [hn, contHead_append _ _ hs, hconv]
      · simp [hn, hconv]


/-! ### held-back lines between a statement line and its continuation line -/

theorem nextIsCont_fill (fill : List Item) (rest : List Item)
    (hf : ∀ f ∈ fill, f.isRegular = false) : nextIsCont (fill ++ rest) = nextIsCont rest := by
  induction fill with
  | nil => rfl
  | cons f fs ih =>
    have h1 := hf f (by simp)
    simp only [List.cons_append, nextIsCont, h1, Bool.false_eq_true, ↓reduceIte]
    exact ih (fun g hg => hf g (by simp [hg]))

theorem renderFree_fill (v : Variant) (lim : Bool) (fill : List Item) (rest : List Item)
    (hf : ∀ f ∈ fill, f.isRegular = false) :
    renderFree v lim (fill ++ rest) = fill.map (fun f => freeLine v lim f false) ++ renderFree v lim rest := by
  induction fill with
  | nil => rfl
  | cons f fs ih =>
    have h1 := hf f (by simp)
    simp only [List.cons_append, renderFree, h1, Bool.false_and, List.map_cons]
    rw [ih (fun g hg => hf g (by simp [hg]))]

/-! ### the reader's comment scanner on converted lines -/

theorem atoms_append (a b : Str) (ha : Atoms a) (hb : Atoms b) : Atoms (a ++ b) := by
  induction ha with
  | nil => simpa using hb
  | plain c rest hq hc _ ih => exact .plain c (rest ++ b) hq hc ih
  | quoted q body rest hq hn _ ih =>
    have : q :: body ++ q :: rest ++ b = q :: body ++ q :: (rest ++ b) := by simp
    rw [this]
    exact .quoted q body (rest ++ b) hq hn ih

theorem atoms_blanks (k : Nat) : Atoms (List.replicate k ' ') := by
  induction k with
  | zero => exact .nil
  | succ k ih => exact .plain ' ' _ (by decide) (by decide) ih

theorem atoms_ljust (n : Nat) (s : Str) (h : Atoms s) : Atoms (ljust n s) :=
  atoms_append _ _ h (atoms_blanks _)

/-- a `!` that follows a comment-free, quote-closed prefix is where the reader cuts the line -/
theorem comScan_after_atoms (p s : Str) (hp : Atoms p) :
    comScan [] (p ++ '!' :: s) = some p.length := by
  simp [comScan, comScanAux_of_atoms [] p s 0 hp, startsWith]

theorem comScanAux_nil_append (a b : Str) (st : QSt) (k : Nat) :
    comScanAux [] (a ++ b) st k =
      match comScanAux [] a st k with
      | some i => some i
      | none => comScanAux [] b (qscan st a) (k + a.length) := by
  induction a generalizing st k with
  | nil => simp [comScanAux, qscan]
  | cons c cs ih =>
    cases st with
    | out =>
      by_cases h1 : c = '!'
      · subst h1; simp [comScanAux, startsWith]
      · by_cases h2 : isQuote c = true
        · simp [comScanAux, h1, h2, ih, qscan, qstep, Nat.add_assoc, Nat.add_comm 1]
        · simp [comScanAux, h1, h2, ih, qscan, qstep, Nat.add_assoc, Nat.add_comm 1]
    | inq q =>
      by_cases h1 : c = q
      · subst h1; simp [comScanAux, ih, qscan, qstep, Nat.add_assoc, Nat.add_comm 1]
      · simp [comScanAux, h1, ih, qscan, qstep, Nat.add_assoc, Nat.add_comm 1]

theorem rstrip_of_last (s : Str) (c : Char) (h : isSpace c = false) : rstrip (s ++ [c]) = s ++ [c] := by
  simp [rstrip, lstrip, h]

theorem lstrip_snoc (s : Str) (c : Char) (h : isSpace c = false) :
    ∃ t, lstrip (s ++ [c]) = t ++ [c] := by
  induction s with
  | nil => exact ⟨[], by simp [lstrip, h]⟩
  | cons a t ih =>
    simp only [List.cons_append, lstrip]
    split
    · exact ih
    · exact ⟨a :: t, rfl⟩

theorem strip_getLast (s : Str) (c : Char) (h : isSpace c = false) :
    (strip (s ++ [c])).getLast? = some c := by
  obtain ⟨t, ht⟩ := lstrip_snoc s c h
  simp [strip, ht, rstrip_of_last _ _ h]

end Ford.Fixed
