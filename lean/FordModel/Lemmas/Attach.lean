import FordModel.Attach
namespace Ford

theorem modifyLast_length (f : Ent → Ent) (k : Nat) (es : List Ent) : (modifyLast f k es).length = es.length := by
  simp [modifyLast]

theorem modifyLast_append (f : Ent → Ent) (es new : List Ent) :
    modifyLast f new.length (es ++ new) = es ++ new.map f := by
  simp [modifyLast]

theorem modifyLast_comp (f g : Ent → Ent) (k : Nat) (es : List Ent) :
    modifyLast f k (modifyLast g k es) = modifyLast (f ∘ g) k es := by
  have hl := modifyLast_length g k es
  unfold modifyLast at hl ⊢
  rw [hl]
  have h1 : (es.take (es.length - k)).length = es.length - k := by simp
  rw [List.take_left' h1, List.drop_left' h1]
  simp

theorem modifyLast_id (k : Nat) (es : List Ent) :
    modifyLast (fun e => { e with init := e.init ++ [] }) k es = es := by
  simp [modifyLast]

theorem modifyLast_take (f : Ent → Ent) (k n : Nat) (es : List Ent) (h : k + n ≤ es.length) :
    (modifyLast f k es).take n = es.take n := by
  unfold modifyLast
  rw [List.take_append_of_le_length (by simp; omega)]
  simp [List.take_take]
  omega

theorem modifyAt_init (f : Ent → Ent) (hf : ∀ e, (f e).init = e.init) (i : Nat) (es : List Ent) :
    (modifyAt f i es).map (·.init) = es.map (·.init) := by
  induction es generalizing i with
  | nil => cases i <;> rfl
  | cons e es ih =>
    cases i with
    | zero => simp [modifyAt, hf]
    | succ i => simp [modifyAt, ih]

theorem modifyAt_length (f : Ent → Ent) (i : Nat) (es : List Ent) : (modifyAt f i es).length = es.length := by
  induction es generalizing i with
  | nil => cases i <;> rfl
  | cons e es ih => cases i <;> simp [modifyAt, ih]

/-- a run of doc items while `read_docstring` is active goes, in order, to the entities being read -/
theorem attach_doc_run (c : Char) (ds rest : List Str) (s : ASt) (hr : s.reading > 0) :
    attachFrom [c] s (ds.map (fun d => '!' :: c :: d) ++ rest) =
      attachFrom [c] { s with ents := modifyLast (fun e => { e with init := e.init ++ ds }) s.reading s.ents } rest := by
  induction ds generalizing s with
  | nil =>
    simp only [List.map_nil, List.nil_append]
    rw [modifyLast_id]
  | cons d ds ih =>
    simp only [List.map_cons, List.cons_append, attachFrom]
    have hstep : attachStep [c] s ('!' :: c :: d) =
        { s with ents := modifyLast (fun e => { e with init := e.init ++ [d] }) s.reading s.ents } := by
      simp [attachStep, hr, startsWith]
    rw [hstep]
    refine (ih _ (by exact hr)).trans ?_
    simp only [modifyLast_comp]
    congr 2
    congr 1
    funext e
    simp [Function.comp]


theorem startsWith_two (it : Str) (a b : Char) (h : it.take 2 ≠ [a, b]) : startsWith it [a, b] = false := by
  cases it with
  | nil => rfl
  | cons x xs =>
    cases xs with
    | nil => simp [startsWith]
    | cons y ys =>
      cases hs : startsWith (x :: y :: ys) [a, b] with
      | false => rfl
      | true =>
        exfalso
        simp [startsWith] at hs
        apply h
        simp [hs.1, hs.2]

/-- a statement item that is not a doc line of the container -/
theorem attachStep_stmt (c : Char) (s : ASt) (it : Str) (hnd : it.take 2 ≠ ['!', c]) :
    attachStep [c] s it =
      match classify it with
      | .openE n => { stack := s.ents.length :: s.stack, reading := 1, ents := s.ents ++ mkEnts [n] true }
      | .leafAll ns sp => { s with reading := ns.length, ents := s.ents ++ mkEnts ns sp }
      | .leafLast ns sp => { s with reading := min 1 ns.length, ents := s.ents ++ mkEnts ns sp }
      | .close => { s with reading := 0, stack := s.stack.drop 1 }
      | .other => { s with reading := 0 } := by
  have h1 := startsWith_two it '!' c hnd
  have h2 : (it.take 2 == ['!', c]) = false := by simpa using hnd
  simp only [attachStep, h1, Bool.and_false, Bool.false_eq_true, ↓reduceIte, attachStmt, h2]
  cases classify it <;> rfl

/-- entity inits before position `n` are frozen once `reading` only covers later entities -/
theorem attach_frozen (mark : Str) (items : List Str) (s : ASt) (n : Nat) (h : s.reading + n ≤ s.ents.length) :
    ((attachFrom mark s items).ents.take n).map (·.init) = (s.ents.take n).map (·.init) := by
  induction items generalizing s with
  | nil => rfl
  | cons it items ih =>
    simp only [attachFrom]
    have key : (attachStep mark s it).reading + n ≤ (attachStep mark s it).ents.length ∧
        ((attachStep mark s it).ents.take n).map (·.init) = (s.ents.take n).map (·.init) := by
      unfold attachStep
      split
      · exact ⟨by simp [modifyLast_length]; exact h, by rw [modifyLast_take _ _ _ _ h]⟩
      · unfold attachStmt
        split
        · refine ⟨by simp [modifyAt_length]; omega, ?_⟩
          simp only [List.map_take]
          rw [modifyAt_init _ (by intro e; rfl)]
        · split
          · refine ⟨by simp [mkEnts]; omega, ?_⟩
            rw [List.take_append_of_le_length (by omega)]
          · refine ⟨by simp [mkEnts]; omega, ?_⟩
            rw [List.take_append_of_le_length (by omega)]
          · refine ⟨by simp [mkEnts]; omega, ?_⟩
            rw [List.take_append_of_le_length (by omega)]
          · exact ⟨by simp; omega, rfl⟩
          · exact ⟨by simp; omega, rfl⟩
    rw [ih _ key.1, key.2]

end Ford
