/-
  Lemmas for the name keying of C04 (FordModel/AccessNames.lean).
-/
import FordModel.AccessNames
namespace Ford.Access
open Ford

/-! ### characters -/

theorem word_ne {c d : Char} (h : isWord c = true) (hd : isWord d = false) : c ≠ d := by
  rintro rfl; simp [h] at hd

theorem word_not_space' {c : Char} (h : isWord c = true) : isSpace c = false := by
  cases hs : isSpace c with
  | false => rfl
  | true =>
    exfalso
    simp only [isSpace, Bool.or_eq_true, beq_iff_eq] at hs
    rcases hs with ((((h1 | h1) | h1) | h1) | h1) | h1 <;> subst h1 <;> revert h <;> decide

/-! ### `paren_split` -/

/-- a text without top-level separator is run through without a split -/
theorem psplit_scan (sep : Char) (p t : Str) (l b l' b' : Int) (cur : Str)
    (h : scanLv sep p l b = some (l', b')) :
    psplitAux sep (p ++ t) l b cur = psplitAux sep t l' b' (p.reverse ++ cur) := by
  induction p generalizing l b cur with
  | nil =>
    simp only [scanLv, Option.some.injEq, Prod.mk.injEq] at h
    obtain ⟨rfl, rfl⟩ := h
    simp
  | cons c r ih =>
    simp only [List.cons_append, psplitAux, scanLv] at h ⊢
    split at h
    · rename_i h1; simp only [h1, if_true]; rw [ih _ _ _ h]; simp
    · rename_i h1
      split at h
      · rename_i h2; simp only [h1, h2, if_true, if_false, Bool.false_eq_true]; rw [ih _ _ _ h]; simp
      · rename_i h2
        split at h
        · rename_i h3; simp only [h1, h2, h3, if_true, if_false, Bool.false_eq_true]; rw [ih _ _ _ h]; simp
        · rename_i h3
          split at h
          · rename_i h4; simp only [h1, h2, h3, h4, if_true, if_false, Bool.false_eq_true]; rw [ih _ _ _ h]; simp
          · rename_i h4
            split at h
            · exact absurd h (by simp)
            · rename_i h5
              simp only [h1, h2, h3, h4, h5, if_false, Bool.false_eq_true]; rw [ih _ _ _ h]; simp


def NotLevel (sep c : Char) : Prop := c ≠ '(' ∧ c ≠ ')' ∧ c ≠ '[' ∧ c ≠ ']' ∧ c ≠ sep

theorem scanLv_plain (sep : Char) (p : Str) (l b : Int) (h : ∀ c ∈ p, NotLevel sep c) :
    scanLv sep p l b = some (l, b) := by
  induction p with
  | nil => rfl
  | cons c r ih =>
    obtain ⟨h1, h2, h3, h4, h5⟩ := h c (by simp)
    simp only [scanLv, beq_iff_eq, h1, h2, h3, h4, h5, if_false, false_and, Bool.and_eq_true]
    exact ih (fun d hd => h d (by simp [hd]))

theorem scanLv_append (sep : Char) (p q : Str) (l b : Int) :
    scanLv sep (p ++ q) l b = (scanLv sep p l b).bind (fun x => scanLv sep q x.1 x.2) := by
  induction p generalizing l b with
  | nil => simp [scanLv]
  | cons c r ih =>
    simp only [List.cons_append, scanLv]
    split
    · exact ih _ _
    · split
      · exact ih _ _
      · split
        · exact ih _ _
        · split
          · exact ih _ _
          · split
            · simp
            · exact ih _ _

/-- the first piece `paren_split` returns starts with what was accumulated so far -/
theorem psplit_head (sep : Char) (s : Str) (l b : Int) (cur : Str) :
    ∃ p tl, psplitAux sep s l b cur = (cur.reverse ++ p) :: tl := by
  induction s generalizing l b cur with
  | nil => exact ⟨[], [], by simp [psplitAux]⟩
  | cons c r ih =>
    simp only [psplitAux]
    split
    · obtain ⟨p, tl, h⟩ := ih (l + 1) b (c :: cur); exact ⟨c :: p, tl, by simp [h]⟩
    · split
      · obtain ⟨p, tl, h⟩ := ih (l - 1) b (c :: cur); exact ⟨c :: p, tl, by simp [h]⟩
      · split
        · obtain ⟨p, tl, h⟩ := ih l (b + 1) (c :: cur); exact ⟨c :: p, tl, by simp [h]⟩
        · split
          · obtain ⟨p, tl, h⟩ := ih l (b - 1) (c :: cur); exact ⟨c :: p, tl, by simp [h]⟩
          · split
            · exact ⟨[], psplitAux sep r l b [], by simp⟩
            · obtain ⟨p, tl, h⟩ := ih l b (c :: cur); exact ⟨c :: p, tl, by simp [h]⟩

/-- a character that is not the separator is taken into the current piece -/
theorem psplit_push (sep c : Char) (r : Str) (l b : Int) (cur : Str) (h : c ≠ sep) :
    ∃ l' b', psplitAux sep (c :: r) l b cur = psplitAux sep r l' b' (c :: cur) := by
  simp only [psplitAux]
  split
  · exact ⟨_, _, rfl⟩
  · split
    · exact ⟨_, _, rfl⟩
    · split
      · exact ⟨_, _, rfl⟩
      · split
        · exact ⟨_, _, rfl⟩
        · split
          · rename_i h5; simp [h] at h5
          · exact ⟨_, _, rfl⟩

def SepOk (sep : Char) : Prop := sep ≠ '(' ∧ sep ≠ ')' ∧ sep ≠ '[' ∧ sep ≠ ']'

theorem psplit_sep (sep : Char) (hs : SepOk sep) (t cur : Str) :
    psplitAux sep (sep :: t) 0 0 cur = cur.reverse :: psplitAux sep t 0 0 [] := by
  obtain ⟨h1, h2, h3, h4⟩ := hs
  simp [psplitAux, h1, h2, h3, h4]

theorem psplit_closed_piece (sep : Char) (hs : SepOk sep) (p t cur : Str) (h : Closed sep p) :
    psplitAux sep (p ++ sep :: t) 0 0 cur = (cur.reverse ++ p) :: psplitAux sep t 0 0 [] := by
  rw [psplit_scan sep p (sep :: t) 0 0 0 0 cur h, psplit_sep sep hs]
  simp

theorem psplit_closed_end (sep : Char) (p cur : Str) (h : Closed sep p) :
    psplitAux sep p 0 0 cur = [cur.reverse ++ p] := by
  have := psplit_scan sep p [] 0 0 0 0 cur h
  simp only [List.append_nil] at this
  rw [this]
  simp [psplitAux]

theorem parenSplit_join (sep : Char) (hs : SepOk sep) (ps : List Str) (hne : ps ≠ [])
    (h : ∀ p ∈ ps, Closed sep p) : parenSplit sep (joinSep sep ps) = ps := by
  unfold parenSplit
  induction ps with
  | nil => exact absurd rfl hne
  | cons p r ih =>
    cases r with
    | nil => simpa [joinSep] using psplit_closed_end sep p [] (h p (by simp))
    | cons q r' =>
      simp only [joinSep]
      rw [psplit_closed_piece sep hs p _ [] (h p (by simp))]
      simp only [List.reverse_nil, List.nil_append, List.cons.injEq, true_and]
      exact ih (by simp) (fun x hx => h x (by simp [hx]))


/-! ### `strip` -/

theorem lstrip_noSpace (s : Str) (h : ∀ c ∈ s, isSpace c = false) : lstrip s = s := by
  cases s with
  | nil => rfl
  | cons c r => simp [lstrip, h c (by simp)]

theorem strip_noSpace (s : Str) (h : ∀ c ∈ s, isSpace c = false) : strip s = s := by
  unfold strip rstrip
  rw [lstrip_noSpace s h, lstrip_noSpace s.reverse (fun c hc => h c (by simpa using hc))]
  simp

theorem lstrip_blanks (k : Nat) (s : Str) : lstrip (blanks k ++ s) = lstrip s := by
  induction k with
  | zero => simp [blanks]
  | succ k ih =>
    have : blanks (k + 1) = ' ' :: blanks k := by simp [blanks, List.replicate_succ]
    rw [this, List.cons_append, lstrip]
    simpa [isSpace] using ih

theorem blanks_reverse (k : Nat) : (blanks k).reverse = blanks k := by simp [blanks]

/-- `"  Name  ".strip()` -/
theorem strip_padded (a b : Nat) (n : Str) (hne : n ≠ []) (h : ∀ c ∈ n, isSpace c = false) :
    strip (blanks a ++ n ++ blanks b) = n := by
  unfold strip rstrip
  rw [List.append_assoc, lstrip_blanks]
  have h1 : lstrip (n ++ blanks b) = n ++ blanks b := by
    cases n with
    | nil => exact absurd rfl hne
    | cons c r => simp [lstrip, h c (by simp)]
  rw [h1, List.reverse_append, blanks_reverse, lstrip_blanks,
    lstrip_noSpace n.reverse (fun c hc => h c (by simpa using hc))]
  simp

/-! ### the name of an entity-decl -/

theorem foldl_min_eq (l : List Nat) (a k : Nat) (hk : k ∈ l ∨ k = a) (hl : ∀ x ∈ l, k ≤ x) (ha : k ≤ a) :
    l.foldl min a = k := by
  induction l generalizing a with
  | nil => simp at hk; simp [hk]
  | cons x r ih =>
    simp only [List.foldl_cons]
    have hx : k ≤ x := hl x (by simp)
    apply ih
    · rcases hk with hk | hk
      · rcases List.mem_cons.1 hk with rfl | hk
        · right; omega
        · left; exact hk
      · right; subst hk; omega
    · intro y hy; exact hl y (by simp [hy])
    · omega

theorem cutIdx_at (n tl : Str) (c0 : Char) (hn : n ≠ []) (hc0 : c0 ∈ cutChars) (hfree : ∀ c ∈ cutChars, c ∉ n) :
    cutIdx (n ++ c0 :: tl) = n.length := by
  have hpos : 0 < n.length := List.length_pos_iff.2 hn
  unfold cutIdx cutCands
  apply foldl_min_eq
  · left
    refine List.mem_filterMap.2 ⟨c0, hc0, ?_⟩
    have : (n ++ c0 :: tl).idxOf c0 = n.length := by
      rw [List.idxOf_append, if_neg (hfree c0 hc0)]; simp
    simp only [this, List.length_append, List.length_cons]
    rw [if_pos ⟨hpos, by omega⟩]
  · intro x hx
    obtain ⟨c, hc, hx⟩ := List.mem_filterMap.1 hx
    have : (n ++ c0 :: tl).idxOf c = (c0 :: tl).idxOf c + n.length := by
      rw [List.idxOf_append, if_neg (hfree c hc)]
    simp only [this] at hx
    split at hx
    · simp only [Option.some.injEq] at hx; omega
    · exact absurd hx (by simp)
  · simp

theorem cutName_at (n tl : Str) (c0 : Char) (hn : n ≠ []) (hc0 : c0 ∈ cutChars) (hfree : ∀ c ∈ cutChars, c ∉ n) :
    cutName (n ++ c0 :: tl) = n := by
  unfold cutName
  rw [cutIdx_at n tl c0 hn hc0 hfree]
  simp

theorem cutName_none (s : Str) (hfree : ∀ c ∈ cutChars, c ∉ s) : cutName s = s := by
  unfold cutName cutIdx cutCands
  have : cutChars.filterMap (fun c => let i := s.idxOf c; if 0 < i ∧ i < s.length then some i else none) = [] := by
    rw [List.filterMap_eq_nil_iff]
    intro c hc
    simp only [List.idxOf_eq_length (hfree c hc), Nat.lt_irrefl, and_false, if_false]
  rw [this]
  simp


/-! ### what the measured tables have to say for the spellings below to work -/

/-- the blank is dropped from an entity-decl, no character of a name and none of `( [ * =` is -/
theorem dropChars_ok :
    ' ' ∈ declDropChars ∧ (∀ c ∈ declDropChars, isWord c = false)
    ∧ '(' ∉ declDropChars ∧ '[' ∉ declDropChars ∧ '*' ∉ declDropChars ∧ '=' ∉ declDropChars := by decide

/-- `(`, `[`, `*` end a name, no character of a name does -/
theorem cutChars_ok :
    '(' ∈ cutChars ∧ '[' ∈ cutChars ∧ '*' ∈ cutChars ∧ (∀ c ∈ cutChars, isWord c = false) ∧ '=' ∉ cutChars := by
  decide

theorem ident_cutFree (n : Str) (h : IsIdent n) : ∀ c ∈ cutChars, c ∉ n := by
  intro c hc hm
  have := cutChars_ok.2.2.2.1 c hc
  simp [h.2 c hm] at this

theorem dropBlanks_append (a b : Str) : dropBlanks (a ++ b) = dropBlanks a ++ dropBlanks b := by
  simp [dropBlanks]

theorem dropBlanks_blanks (k : Nat) : dropBlanks (blanks k) = [] := by
  have := dropChars_ok.1
  simp only [dropBlanks, blanks, List.filter_eq_nil_iff, List.mem_replicate]
  rintro c ⟨_, rfl⟩
  simpa using this

theorem dropBlanks_ident (n : Str) (h : IsIdent n) : dropBlanks n = n := by
  simp only [dropBlanks, List.filter_eq_self]
  intro c hc
  by_cases hx : c ∈ declDropChars
  · have := dropChars_ok.2.1 c hx
    simp [h.2 c hc] at this
  · simpa using hx

theorem dropBlanks_noSpace (r : Str) (h : ∀ c ∈ r, isSpace c = true → c = ' ') :
    ∀ c ∈ dropBlanks r, isSpace c = false := by
  intro c hc
  simp only [dropBlanks, List.mem_filter] at hc
  cases hs : isSpace c with
  | false => rfl
  | true =>
    have := h c hc.1 hs
    subst this
    have := dropChars_ok.1
    simp [List.contains_eq_mem, this] at hc

theorem ident_notLevel (sep : Char) (hsep : isWord sep = false) (n : Str) (h : IsIdent n) :
    ∀ c ∈ n, NotLevel sep c := by
  intro c hc
  have hw := h.2 c hc
  exact ⟨word_ne hw (by decide), word_ne hw (by decide), word_ne hw (by decide), word_ne hw (by decide),
    word_ne hw hsep⟩

theorem ident_noSpace (n : Str) (h : IsIdent n) : ∀ c ∈ n, isSpace c = false :=
  fun c hc => word_not_space' (h.2 c hc)

/-- **the name FORD gives an entity-decl** however it is spelled -/
theorem declName_spelled (d : DeclSp) (h : d.Ok) : declName d.text = d.name := by
  obtain ⟨hid, hrest0, hsp, _⟩ := h
  have hrest : d.rest = [] ∨ ∃ c r, d.rest = c :: r ∧ (c = '(' ∨ c = '[' ∨ c = '*' ∨ c = '=') := by
    cases hr : d.rest with
    | nil => exact Or.inl rfl
    | cons c r =>
      right
      refine ⟨c, r, rfl, ?_⟩
      simp only [hr, List.head?_cons, Option.some.injEq, reduceCtorEq, false_or] at hrest0
      exact hrest0
  have hne : d.name ≠ [] := hid.1
  have hdec : dropBlanks d.text = d.name ++ dropBlanks d.rest := by
    simp [DeclSp.text, dropBlanks_append, dropBlanks_blanks, dropBlanks_ident d.name hid]
  have hfree := ident_cutFree d.name hid
  have hplain := ident_notLevel '=' (by decide) d.name hid
  unfold declName
  simp only [hdec]
  rcases hrest with hnil | ⟨c0, r, hr, hc0⟩
  · -- nothing after the name
    have hcl : Closed '=' d.name := scanLv_plain '=' d.name 0 0 hplain
    have hsplit : parenSplit '=' d.name = [d.name] := by
      simpa [parenSplit] using psplit_closed_end '=' d.name [] hcl
    simp only [hnil, dropBlanks, List.filter_nil, List.append_nil, hsplit]
    rw [strip_noSpace d.name (ident_noSpace d.name hid)]
    exact cutName_none d.name hfree
  · have hkeep : dropBlanks d.rest = c0 :: dropBlanks r := by
      have hk : c0 ∉ declDropChars := by
        rcases hc0 with rfl | rfl | rfl | rfl
        · exact dropChars_ok.2.2.1
        · exact dropChars_ok.2.2.2.1
        · exact dropChars_ok.2.2.2.2.1
        · exact dropChars_ok.2.2.2.2.2
      simp [hr, dropBlanks, hk]
    rw [hkeep]
    have hscan : psplitAux '=' (d.name ++ c0 :: dropBlanks r) 0 0 [] =
        psplitAux '=' (c0 :: dropBlanks r) 0 0 (d.name.reverse ++ []) :=
      psplit_scan '=' d.name _ 0 0 0 0 [] (scanLv_plain '=' d.name 0 0 hplain)
    by_cases heq : c0 = '='
    · -- an initialisation follows the name
      subst heq
      obtain ⟨p, tl, hp⟩ := psplit_head '=' (dropBlanks r) 0 0 []
      have hsplit : parenSplit '=' (d.name ++ '=' :: dropBlanks r) = d.name :: ([] ++ p) :: tl := by
        unfold parenSplit
        rw [hscan, psplit_sep '=' ⟨by decide, by decide, by decide, by decide⟩, hp]
        simp
      simp only [hsplit]
      exact cutName_none d.name hfree
    · -- an array-spec, a coarray-spec or a char-length follows the name
      have hcut : c0 ∈ cutChars := by
        rcases hc0 with rfl | rfl | rfl | rfl
        · exact cutChars_ok.1
        · exact cutChars_ok.2.1
        · exact cutChars_ok.2.2.1
        · exact absurd rfl heq
      obtain ⟨l', b', hpush⟩ := psplit_push '=' c0 (dropBlanks r) 0 0 (d.name.reverse ++ []) heq
      obtain ⟨p, tl, hp⟩ := psplit_head '=' (dropBlanks r) l' b' (c0 :: (d.name.reverse ++ []))
      have hsplit : parenSplit '=' (d.name ++ c0 :: dropBlanks r) = (d.name ++ c0 :: p) :: tl := by
        unfold parenSplit
        rw [hscan, hpush, hp]
        simp
      cases tl with
      | nil =>
        simp only [hsplit]
        have hns : ∀ c ∈ d.name ++ c0 :: dropBlanks r, isSpace c = false := by
          intro c hc
          rcases List.mem_append.1 hc with hc | hc
          · exact ident_noSpace d.name hid c hc
          · have : c ∈ dropBlanks d.rest := by rw [hkeep]; exact hc
            exact dropBlanks_noSpace d.rest hsp c this
        rw [strip_noSpace _ hns]
        exact cutName_at d.name _ c0 hne hcut hfree
      | cons x xs =>
        simp only [hsplit]
        exact cutName_at d.name _ c0 hne hcut hfree


/-! ### lower-casing keeps a name a name -/

theorem lowerChar_big' (c : Char) (h : ¬ c.toNat < 128) : lowerChar c = c := by
  unfold lowerChar
  have : ¬ ('A' ≤ c ∧ c ≤ 'Z') := by
    intro ⟨_, h2⟩
    apply h
    have h3 : c.val.toNat ≤ ('Z' : Char).val.toNat := UInt32.le_iff_toNat_le.1 (Char.le_def.1 h2)
    have h4 : ('Z' : Char).val.toNat = 90 := by decide
    have h5 : c.toNat = c.val.toNat := rfl
    omega
  simp [this]

theorem isWord_lowerChar_ascii' : ∀ m, m < 128 → isWord (Char.ofNat m) = true →
    isWord (lowerChar (Char.ofNat m)) = true := by decide

theorem isWord_lowerChar' (c : Char) (h : isWord c = true) : isWord (lowerChar c) = true := by
  by_cases hc : c.toNat < 128
  · have := isWord_lowerChar_ascii' c.toNat hc
    rw [Char.ofNat_toNat] at this
    exact this h
  · rw [lowerChar_big' c hc]; exact h

theorem ident_lower (n : Str) (h : IsIdent n) : IsIdent (lower n) := by
  refine ⟨by simpa [lower] using h.1, ?_⟩
  intro c hc
  obtain ⟨x, hx, rfl⟩ := List.mem_map.1 hc
  exact isWord_lowerChar' x (h.2 x hx)

theorem normKey_ident (g : Bool) (n : Str) (h : IsIdent n) : normKey g n = n := by
  unfold normKey
  have : '(' ∉ n := by
    intro hm
    have := h.2 _ hm
    revert this; decide
  simp [this]

/-! ### the lists -/

theorem blanks_notLevel (sep : Char) (hsep : sep ≠ ' ') (k : Nat) : ∀ c ∈ blanks k, NotLevel sep c := by
  intro c hc
  simp only [blanks, List.mem_replicate] at hc
  obtain ⟨_, rfl⟩ := hc
  exact ⟨by decide, by decide, by decide, by decide, fun h => hsep h.symm⟩

theorem declText_closed (d : DeclSp) (h : d.Ok) : Closed ',' d.text := by
  obtain ⟨hid, _, _, hcl⟩ := h
  unfold Closed DeclSp.text
  have hpre : ∀ c ∈ blanks d.lead ++ d.name ++ blanks d.gap, NotLevel ',' c := by
    intro c hc
    simp only [List.mem_append] at hc
    rcases hc with (hc | hc) | hc
    · exact blanks_notLevel ',' (by decide) _ c hc
    · exact ident_notLevel ',' (by decide) d.name hid c hc
    · exact blanks_notLevel ',' (by decide) _ c hc
  rw [scanLv_append, scanLv_plain ',' _ 0 0 hpre]
  exact hcl

/-- **the keys of a whole entity list** -/
theorem declKeys_spelled (ds : List DeclSp) (hne : ds ≠ []) (h : ∀ d ∈ ds, d.Ok) :
    declKeys (joinSep ',' (ds.map DeclSp.text)) = ds.map (fun d => lower d.name) := by
  unfold declKeys
  rw [parenSplit_join ',' ⟨by decide, by decide, by decide, by decide⟩ _ (by simpa using hne)
    (by
      intro p hp
      obtain ⟨d, hd, rfl⟩ := List.mem_map.1 hp
      exact declText_closed d (h d hd))]
  rw [List.map_map]
  apply List.map_congr_left
  intro d hd
  simp [declName_spelled d (h d hd)]

theorem nameText_closed (d : NameSp) (h : IsIdent d.name) : Closed ',' d.text := by
  unfold Closed NameSp.text
  apply scanLv_plain
  intro c hc
  simp only [List.mem_append] at hc
  rcases hc with (hc | hc) | hc
  · exact blanks_notLevel ',' (by decide) _ c hc
  · exact ident_notLevel ',' (by decide) d.name h c hc
  · exact blanks_notLevel ',' (by decide) _ c hc

theorem nameKey_spelled (g : Bool) (d : NameSp) (h : IsIdent d.name) : nameKey g d.text = lower d.name := by
  unfold nameKey NameSp.text
  rw [strip_padded _ _ _ h.1 (ident_noSpace d.name h)]
  exact normKey_ident g _ (ident_lower d.name h)

/-- **the keys of the name list of an attribute statement** -/
theorem stmtKeys_spelled (g : Bool) (ns : List NameSp) (hne : ns ≠ []) (h : ∀ d ∈ ns, IsIdent d.name) :
    stmtKeys g (joinSep ',' (ns.map NameSp.text)) = ns.map (fun d => lower d.name) := by
  unfold stmtKeys
  rw [parenSplit_join ',' ⟨by decide, by decide, by decide, by decide⟩ _ (by simpa using hne)
    (by
      intro p hp
      obtain ⟨d, hd, rfl⟩ := List.mem_map.1 hp
      exact nameText_closed d (h d hd))]
  rw [List.map_map]
  apply List.map_congr_left
  intro d hd
  simp [nameKey_spelled g d (h d hd)]

theorem ifaceKey_ident (g : Bool) (n : Str) (h : IsIdent n) : ifaceKey g n = lower n :=
  normKey_ident g _ (ident_lower n h)

/-- every spelling is keyed like the canonical statement -/
theorem keyed_spells (g : Bool) (r : RStmt) (s : Stmt) (h : Spells r s) : keyed g r = s := by
  cases h with
  | plain s => rfl
  | var ds attrs hne h => simp [keyed, declKeys_spelled ds hne h]
  | access a ns hne h => simp [keyed, stmtKeys_spelled g ns hne h]
  | generic n ps rs h => simp [keyed, ifaceKey_ident g n h]

theorem keyed_spells_list (g : Bool) (rs : List RStmt) (ss : List Stmt) (h : SpellsAll rs ss) :
    rs.map (keyed g) = ss := by
  induction h with
  | nil => rfl
  | cons h1 _ ih => simp [keyed_spells g _ _ h1, ih]

/-! ### generic-specs (`operator (+)`) -/

theorem filter_noSpace_lstrip (s : Str) : (lstrip s).filter (fun c => !isSpace c) = s.filter (fun c => !isSpace c) := by
  induction s with
  | nil => rfl
  | cons c r ih =>
    by_cases hc : isSpace c = true
    · simp [lstrip, hc, ih]
    · simp [lstrip, hc]

theorem filter_noSpace_strip (s : Str) : (strip s).filter (fun c => !isSpace c) = s.filter (fun c => !isSpace c) := by
  unfold strip rstrip
  rw [← List.reverse_reverse (List.filter _ (lstrip (lstrip s).reverse).reverse), ← List.filter_reverse,
    List.reverse_reverse, filter_noSpace_lstrip, List.filter_reverse, List.reverse_reverse, filter_noSpace_lstrip]


theorem isSpace_lowerChar_ascii : ∀ m, m < 128 → isSpace (lowerChar (Char.ofNat m)) = isSpace (Char.ofNat m) := by
  decide

theorem isSpace_lowerChar (c : Char) : isSpace (lowerChar c) = isSpace c := by
  by_cases hc : c.toNat < 128
  · have := isSpace_lowerChar_ascii c.toNat hc
    rw [Char.ofNat_toNat] at this
    exact this
  · rw [lowerChar_big' c hc]

theorem filter_noSpace_lower (s : Str) :
    (lower s).filter (fun c => !isSpace c) = lower (s.filter (fun c => !isSpace c)) := by
  induction s with
  | nil => rfl
  | cons c r ih =>
    simp only [lower, List.map_cons, List.filter_cons, isSpace_lowerChar] at ih ⊢
    split <;> simp [ih]

/-- with the repair, the key of a generic-spec does not depend on blanks or letter case -/
theorem generic_key_repaired (a b : Str) (hp : '(' ∈ a)
    (h : (lower a).filter (fun c => !isSpace c) = (lower b).filter (fun c => !isSpace c)) :
    nameKey true a = ifaceKey true b := by
  have hlp : lowerChar '(' = '(' := by decide
  have hmem : '(' ∈ (lower a).filter (fun c => !isSpace c) := by
    simp only [List.mem_filter, lower, List.mem_map]
    exact ⟨⟨'(', hp, hlp⟩, by decide⟩
  have hkey : (lower (strip a)).filter (fun c => !isSpace c) = (lower a).filter (fun c => !isSpace c) := by
    rw [filter_noSpace_lower, filter_noSpace_strip, ← filter_noSpace_lower]
  have ha : (lower (strip a)).contains '(' = true := by
    have : '(' ∈ (lower (strip a)).filter (fun c => !isSpace c) := by rw [hkey]; exact hmem
    simpa using (List.mem_filter.1 this).1
  have hb : (lower b).contains '(' = true := by
    have : '(' ∈ (lower b).filter (fun c => !isSpace c) := by rw [← h]; exact hmem
    simpa using (List.mem_filter.1 this).1
  simp only [nameKey, ifaceKey, normKey, ha, hb, Bool.and_self, if_true]
  rw [hkey, h]

end Ford.Access
