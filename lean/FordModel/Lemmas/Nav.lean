import FordModel.Nav
namespace Ford.Nav

def clamp (sh : Shape) : Shape := { count := fun l => min (sh.count l) 2, opt := sh.opt }

theorem evalN_clamp (sh : Shape) (e : NExpr) :
    min (evalN sh e) 2 = min (evalN (clamp sh) e) 2 := by
  induction e with
  | len l => simp [evalN, clamp]
  | lit n => simp [evalN]
  | add a b iha ihb => simp only [evalN]; omega

theorem eval_clamp (sh : Shape) (c : Cond) (h : wf c = true) : eval sh c = eval (clamp sh) c := by
  induction c with
  | tt => rfl
  | gt e n =>
    have := evalN_clamp sh e
    simp only [wf, decide_eq_true_eq] at h
    simp only [eval, decide_eq_decide]
    omega
  | eq e n =>
    have := evalN_clamp sh e
    simp only [wf, decide_eq_true_eq] at h
    simp only [eval, decide_eq_decide]
    omega
  | opt o => rfl
  | and a b iha ihb =>
    simp only [wf, Bool.and_eq_true] at h
    simp [eval, iha h.1, ihb h.2]
  | or a b iha ihb =>
    simp only [wf, Bool.and_eq_true] at h
    simp [eval, iha h.1, ihb h.2]
  | not a iha =>
    simp only [wf] at h
    simp [eval, iha h]

theorem evalN_congr (f g : Str → Nat) (b b' : Str → Bool) (e : NExpr)
    (h : ∀ x ∈ namesN e, f x = g x) : evalN ⟨f, b⟩ e = evalN ⟨g, b'⟩ e := by
  induction e with
  | len l => simp [evalN, h l (by simp [namesN])]
  | lit n => rfl
  | add a b iha ihb =>
    simp only [evalN]
    rw [iha (fun x hx => h x (by simp [namesN, hx])), ihb (fun x hx => h x (by simp [namesN, hx]))]

theorem eval_congr (f g : Str → Nat) (b b' : Str → Bool) (c : Cond)
    (h : ∀ x ∈ names c, f x = g x) (hb : ∀ x ∈ opts c, b x = b' x) :
    eval ⟨f, b⟩ c = eval ⟨g, b'⟩ c := by
  induction c with
  | tt => rfl
  | gt e n => simp only [eval]; rw [evalN_congr f g b b' e h]
  | eq e n => simp only [eval]; rw [evalN_congr f g b b' e h]
  | opt o => simp [eval, hb o (by simp [opts])]
  | and a c iha ihc =>
    simp only [eval]
    rw [iha (fun x hx => h x (by simp [names, hx])) (fun x hx => hb x (by simp [opts, hx])),
        ihc (fun x hx => h x (by simp [names, hx])) (fun x hx => hb x (by simp [opts, hx]))]
  | or a c iha ihc =>
    simp only [eval]
    rw [iha (fun x hx => h x (by simp [names, hx])) (fun x hx => hb x (by simp [opts, hx])),
        ihc (fun x hx => h x (by simp [names, hx])) (fun x hx => hb x (by simp [opts, hx]))]
  | not a iha =>
    simp only [eval]
    rw [iha h hb]

theorem asgs_complete (ns : List Str) (g : Str → Nat) (hg : ∀ x, g x ≤ 2) :
    ∃ f ∈ asgs ns, ∀ x ∈ ns, f x = g x := by
  induction ns with
  | nil => exact ⟨fun _ => 0, by simp [asgs], by simp⟩
  | cons n ns ih =>
    obtain ⟨f, hf, hfx⟩ := ih
    refine ⟨fun x => if x = n then g n else f x, ?_, ?_⟩
    · simp only [asgs, List.mem_flatMap, List.mem_map]
      refine ⟨f, hf, g n, ?_, rfl⟩
      have := hg n
      simp
      omega
    · intro x hx
      by_cases hxn : x = n
      · simp [hxn]
      · simp only [hxn, if_false]
        rcases List.mem_cons.1 hx with h | h
        · exact absurd h hxn
        · exact hfx x h

theorem basgs_complete (ns : List Str) (g : Str → Bool) :
    ∃ f ∈ basgs ns, ∀ x ∈ ns, f x = g x := by
  induction ns with
  | nil => exact ⟨fun _ => false, by simp [basgs], by simp⟩
  | cons n ns ih =>
    obtain ⟨f, hf, hfx⟩ := ih
    refine ⟨fun x => if x = n then g n else f x, ?_, ?_⟩
    · simp only [basgs, List.mem_flatMap, List.mem_map]
      refine ⟨f, hf, g n, ?_, rfl⟩
      cases g n <;> simp
    · intro x hx
      by_cases hxn : x = n
      · simp [hxn]
      · simp only [hxn, if_false]
        rcases List.mem_cons.1 hx with h | h
        · exact absurd h hxn
        · exact hfx x h

/-- Soundness of the decision procedure: a condition accepted by `valid` holds
    for **every** project shape (all counts, all option values). -/
theorem valid_sound (c : Cond) (h : valid c = true) (sh : Shape) : eval sh c = true := by
  simp only [valid, Bool.and_eq_true, List.all_eq_true] at h
  obtain ⟨hwf, hall⟩ := h
  rw [eval_clamp sh c hwf]
  obtain ⟨f, hf, hfx⟩ := asgs_complete (names c).eraseDups (clamp sh).count
    (fun x => by simp only [clamp]; omega)
  obtain ⟨b, hb, hbx⟩ := basgs_complete (opts c).eraseDups (clamp sh).opt
  have := hall f hf b hb
  rw [← this]
  apply Eq.symm
  apply eval_congr
  · intro x hx; exact hfx x (by simpa using hx)
  · intro x hx; exact hbx x (by simpa using hx)

theorem eval_disj (sh : Shape) (cs : List Cond) : eval sh (disj cs) = cs.any (eval sh) := by
  induction cs with
  | nil => simp [disj, Cond.ff, eval]
  | cons c cs ih => simp [disj, eval, ih]

theorem eval_imp (sh : Shape) (a b : Cond) : eval sh (imp a b) = true ↔ (eval sh a = true → eval sh b = true) := by
  simp only [imp, eval]
  cases eval sh a <;> cases eval sh b <;> simp

theorem any_filter_snd (sh : Shape) (P : Str × Cond → Bool) (es : List (Str × Cond)) :
    ((es.filter P).map (·.2)).any (eval sh) = es.any fun e => P e && eval sh e.2 := by
  induction es with
  | nil => rfl
  | cons e es ih =>
    cases hP : P e <;> simp [List.filter_cons, hP, ih]

theorem contains_filter_fst (sh : Shape) (p : Str) (es : List (Str × Cond)) :
    ((es.filter fun e => eval sh e.2).map (·.1)).contains p = es.any fun e => isPage p e && eval sh e.2 := by
  induction es with
  | nil => rfl
  | cons e es ih =>
    cases hE : eval sh e.2
    · simp only [List.filter_cons, hE, List.any_cons, Bool.and_false, Bool.false_or]
      exact ih
    · simp only [List.filter_cons, hE, if_true, List.map_cons, List.contains_cons, ih, List.any_cons,
        Bool.and_true, isPage]
      congr 1
      by_cases h : e.1 = p
      · simp [h]
      · have h' : ¬ p = e.1 := fun q => h q.symm
        simp [h, h']

/-- The page condition really is the condition under which the page is in the site. -/
theorem targetExists_eq (T : Tables) (sh : Shape) (t : Target) :
    targetExists T sh t = eval sh (targetCond T t) := by
  cases t with
  | list p =>
    simp only [targetExists, targetCond, listPages, eval_disj, any_filter_snd, contains_filter_fst]
  | first l =>
    simp only [targetExists, targetCond, firstPageExists, eval, eval_disj, evalN, any_filter_snd]
    rfl

end Ford.Nav
