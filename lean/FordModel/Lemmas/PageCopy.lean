/-
  C17 - lemmas about the per-page copy loops of `PagetreePage.writeout` (`copyItems`, `writeNode`, `outputs`)
  and about the project's `copy_subdir` handed down the walk (`projL`).
-/
import FordModel.PageTree
import FordModel.PageTreeSpec
import FordModel.Lemmas.PageTree
namespace Ford.PT
open Ford Ford.Gen.C17

/-! ## the project's list reaches every level -/

theorem gen_copyRec (pcs nc : List Str) : CallSites.gen.copyRec pcs nc = pcs := rfl
theorem gen_copyIndex (pcs : List Str) : CallSites.gen.copyIndex pcs = pcs := rfl
theorem gen_copySubNode (pcs nc : List Str) : CallSites.gen.copySubNode pcs nc = pcs := rfl

mutual
theorem projE_gen (pcs nc : List Str) : (e : Entry) → projE CallSites.gen pcs nc e = withProjE pcs e
  | .file n m => by simp [projE, withProjE, gen_copyIndex, gen_copySubNode]
  | .dir n cs => by simp [projE, withProjE, gen_copyRec, projL_gen pcs _ cs]
theorem projL_gen (pcs nc : List Str) : (l : List Entry) → projL CallSites.gen pcs nc l = withProjL pcs l
  | [] => by simp [projL, withProjL]
  | e :: es => by simp [projL, withProjL, projE_gen pcs nc e, projL_gen pcs nc es]
end

/-! ## the copy loops only ever add -/

theorem copyItems_mono (loc : PathS) (items : List (Str × Option (List (PathS × Bool)))) (st : List (PathS × Bool))
    (p : PathS × Bool) (h : p ∈ st) : p ∈ copyItems loc items st := by
  fun_induction copyItems loc items st <;> simp_all

theorem copyItems_paths_mono (loc : PathS) (items : List (Str × Option (List (PathS × Bool)))) (st : List (PathS × Bool))
    (p : PathS) (h : p ∈ paths st) : p ∈ paths (copyItems loc items st) := by
  simp only [paths, List.mem_map] at h ⊢
  obtain ⟨q, hq, rfl⟩ := h
  exact ⟨q, copyItems_mono loc items st q hq, rfl⟩

theorem any_path_mem (st : List (PathS × Bool)) (p : PathS) (h : st.any (fun q => q.1 == p) = true) : p ∈ paths st := by
  simp only [List.any_eq_true, beq_iff_eq] at h
  obtain ⟨q, hq, rfl⟩ := h
  exact List.mem_map.mpr ⟨q, hq, rfl⟩

theorem addNew_mono (st : List (PathS × Bool)) (q : PathS × Bool) (p : PathS) (h : p ∈ paths st) :
    p ∈ paths (addNew st q) := by
  unfold addNew
  split
  · exact h
  · simp only [paths, List.map_append, List.mem_append] at h ⊢
    exact Or.inl h

theorem addNew_has (st : List (PathS × Bool)) (q : PathS × Bool) : q.1 ∈ paths (addNew st q) := by
  unfold addNew
  split
  · rename_i h
    exact any_path_mem st q.1 h
  · simp [paths]

theorem foldFiles_mono (loc : PathS) (fs : List Str) (st : List (PathS × Bool)) (p : PathS) (h : p ∈ paths st) :
    p ∈ paths (fs.foldl (fun s f => addNew s (loc ++ [f], false)) st) := by
  induction fs generalizing st with
  | nil => exact h
  | cons f fs ih => exact ih _ (addNew_mono st _ p h)

theorem foldFiles_has (loc : PathS) (fs : List Str) (st : List (PathS × Bool)) (f : Str) (hf : f ∈ fs) :
    loc ++ [f] ∈ paths (fs.foldl (fun s f => addNew s (loc ++ [f], false)) st) := by
  induction fs generalizing st with
  | nil => cases hf
  | cons g gs ih =>
    rcases List.mem_cons.mp hf with rfl | hg
    · exact foldFiles_mono loc gs _ _ (addNew_has st (loc ++ [f], false))
    · exact ih _ hg

/-- every item of the list whose source is a directory is attempted, whatever happened to the items before it:
    afterwards its directory exists next to the page -/
theorem copyItems_attempts (loc : PathS) (items : List (Str × Option (List (PathS × Bool)))) (st : List (PathS × Bool))
    (it : Str) (listing : List (PathS × Bool)) (hm : (it, some listing) ∈ items) (hroot : ([it], true) ∈ listing) :
    loc ++ [it] ∈ paths (copyItems loc items st) := by
  induction items generalizing st with
  | nil => cases hm
  | cons hd tl ih =>
    obtain ⟨i, o⟩ := hd
    cases o with
    | none =>
      rcases List.mem_cons.mp hm with h | h
      · cases h
      · simpa [copyItems] using ih st h
    | some l =>
      simp only [copyItems]
      split
      · rename_i hex
        rcases List.mem_cons.mp hm with h | h
        · cases h
          exact copyItems_paths_mono loc tl st _ (any_path_mem st _ hex)
        · exact ih st h
      · rcases List.mem_cons.mp hm with h | h
        · cases h
          apply copyItems_paths_mono
          simp only [paths, List.map_append, List.mem_append, List.mem_map]
          exact Or.inr ⟨(loc ++ [it], true), ⟨([it], true), hroot, rfl⟩, rfl⟩
        · exact ih _ h

/-- a directory whose place is still free, in a list of distinct names whose listings are rooted at their own
    names, is copied completely -/
theorem copyItems_complete (loc : PathS) (items : List (Str × Option (List (PathS × Bool)))) (st : List (PathS × Bool))
    (it : Str) (listing : List (PathS × Bool)) (hm : (it, some listing) ∈ items)
    (hnd : (items.map Prod.fst).Nodup)
    (hrooted : ∀ i l, (i, some l) ∈ items → ∀ p ∈ l, p.1.head? = some i)
    (hfree : loc ++ [it] ∉ paths st) :
    ∀ p ∈ listing, (loc ++ p.1, p.2) ∈ copyItems loc items st := by
  induction items generalizing st with
  | nil => cases hm
  | cons hd tl ih =>
    obtain ⟨i, o⟩ := hd
    have hnd' : (tl.map Prod.fst).Nodup := (List.nodup_cons.mp (by simpa using hnd)).2
    have hrooted' : ∀ i l, (i, some l) ∈ tl → ∀ p ∈ l, p.1.head? = some i :=
      fun i l h => hrooted i l (List.mem_cons_of_mem _ h)
    cases o with
    | none =>
      rcases List.mem_cons.mp hm with h | h
      · cases h
      · simpa [copyItems] using ih st h hnd' hrooted' hfree
    | some l =>
      rcases List.mem_cons.mp hm with h | h
      · cases h
        intro p hp
        simp only [copyItems]
        split
        · rename_i hex
          exact absurd (any_path_mem st _ hex) hfree
        · apply copyItems_mono
          simp only [List.mem_append, List.mem_map]
          exact Or.inr ⟨p, hp, rfl⟩
      · have hne : i ≠ it := by
          intro e
          subst e
          have : i ∉ tl.map Prod.fst := (List.nodup_cons.mp (by simpa using hnd)).1
          exact this (List.mem_map.mpr ⟨(i, some listing), h, rfl⟩)
        simp only [copyItems]
        split
        · exact ih st h hnd' hrooted' hfree
        · apply ih _ h hnd' hrooted'
          intro hc
          simp only [paths, List.map_append, List.mem_append, List.mem_map] at hc
          rcases hc with hc | ⟨q, ⟨r, hr, rfl⟩, hq⟩
          · exact hfree (List.mem_map.mpr hc)
          · have hh := hrooted i l (List.mem_cons_self) r hr
            simp only at hq
            have : r.1 = [it] := List.append_cancel_left hq
            rw [this] at hh
            simp at hh
            exact hne hh.symm

/-! ## one node, all nodes -/

theorem writeNode_mono (st : List (PathS × Bool)) (n : Node) (p : PathS) (h : p ∈ paths st) :
    p ∈ paths (writeNode st n) := by
  unfold writeNode
  apply foldFiles_mono
  apply copyItems_paths_mono
  apply addNew_mono
  split
  · exact addNew_mono st _ p h
  · exact h

theorem writeNode_has_path (st : List (PathS × Bool)) (n : Node) : n.path ∈ paths (writeNode st n) := by
  unfold writeNode
  apply foldFiles_mono
  apply copyItems_paths_mono
  exact addNew_has _ (n.path, false)

theorem writeNode_has_file (st : List (PathS × Bool)) (n : Node) (f : Str) (hf : f ∈ n.files) :
    n.loc ++ [f] ∈ paths (writeNode st n) := by
  unfold writeNode
  exact foldFiles_has n.loc n.files _ f hf

theorem writeNode_has_copy (st : List (PathS × Bool)) (n : Node) (it : Str) (listing : List (PathS × Bool))
    (hm : (it, some listing) ∈ n.copies) (hroot : ([it], true) ∈ listing) :
    n.loc ++ [it] ∈ paths (writeNode st n) := by
  unfold writeNode
  apply foldFiles_mono
  exact copyItems_attempts n.loc n.copies _ it listing hm hroot

theorem foldl_writeNode_mono (ns : List Node) (st : List (PathS × Bool)) (p : PathS) (h : p ∈ paths st) :
    p ∈ paths (ns.foldl writeNode st) := by
  induction ns generalizing st with
  | nil => exact h
  | cons n ns ih => exact ih _ (writeNode_mono st n p h)

/-- what one node's `writeout` leaves behind is still there after all later nodes -/
theorem foldl_writeNode_of_mem (ns : List Node) (st : List (PathS × Bool)) (n : Node) (p : PathS) (hn : n ∈ ns)
    (hp : ∀ st, p ∈ paths (writeNode st n)) : p ∈ paths (ns.foldl writeNode st) := by
  induction ns generalizing st with
  | nil => cases hn
  | cons m ms ih =>
    rcases List.mem_cons.mp hn with rfl | h
    · exact foldl_writeNode_mono ms _ p (hp st)
    · exact ih _ h

/-- the listing that `copyListing` attaches to an item starts with the item's own directory -/
theorem copyListing_rooted (sibs : List Entry) (item : Str) (l : List (PathS × Bool))
    (h : copyListing sibs item = (item, some l)) : ([item], true) ∈ l := by
  unfold copyListing at h
  split at h
  · rename_i n cs hf
    have hn : n = item := by
      induction sibs with
      | nil => simp [findEntry] at hf
      | cons e es ih =>
        simp only [findEntry] at hf
        split at hf
        · rename_i he
          cases hf
          simpa [Entry.name] using he
        · exact ih hf
    subst hn
    cases h
    simp [listAll]
  · cases h

/-! ## the nodes that the walk builds -/

/-- what the walk guarantees about the copy loop of a node it builds: the loop runs over exactly the items of the
    page's `copy_subdir`, and the listing attached to an item is rooted at the item's own directory -/
def CopyOk (n : Node) : Prop :=
  n.copies.map Prod.fst = n.copySub ∧ (∀ it l, (it, some l) ∈ n.copies → ([it], true) ∈ l) ∧
  ∀ it l, (it, some l) ∈ n.copies → ∀ p ∈ l, p.1.head? = some it

def ResAll (P : Node → Prop) : Res → Prop
  | .page nd => ∀ n ∈ preorder nd, P n
  | _ => True

theorem copyListing_fst (sibs : List Entry) (x : Str) : (copyListing sibs x).1 = x := by
  unfold copyListing
  split <;> rfl

/-- everything in the listing that `copyListing` attaches to an item lies below the item's own directory -/
theorem copyListing_all_rooted (sibs : List Entry) (item : Str) (l : List (PathS × Bool))
    (h : copyListing sibs item = (item, some l)) : ∀ p ∈ l, p.1.head? = some item := by
  unfold copyListing at h
  split at h
  · rename_i n cs hf
    have hn : n = item := by
      induction sibs with
      | nil => simp [findEntry] at hf
      | cons e es ih =>
        simp only [findEntry] at hf
        split at hf
        · rename_i he
          cases hf
          simpa [Entry.name] using he
        · exact ih hf
    subst hn
    cases h
    intro p hp
    simp only [listAll, List.mem_cons, List.mem_map] at hp
    rcases hp with rfl | ⟨q, _, rfl⟩
    · rfl
    · rfl
  · cases h

theorem copyOk_built (sibs : List Entry) (cp : List Str) (loc : PathS) (f s t : Str) (h : List (PathS × Str))
    (lk : List Link) (fs : List Str) (subs : List Node) :
    CopyOk (.mk loc f s t h cp (cp.map (copyListing sibs)) lk fs subs) := by
  refine ⟨?_, ?_, ?_⟩
  · simp only [Node.copies, Node.copySub, List.map_map]
    conv => rhs; rw [← List.map_id cp]
    apply List.map_congr_left
    intro x _
    exact copyListing_fst sibs x
  · intro it l hm
    simp only [Node.copies, List.mem_map] at hm
    obtain ⟨x, _, hx⟩ := hm
    have : x = it := by
      have := copyListing_fst sibs x
      rw [hx] at this
      exact this.symm
    subst this
    exact copyListing_rooted sibs x l hx
  · intro it l hm
    simp only [Node.copies, List.mem_map] at hm
    obtain ⟨x, _, hx⟩ := hm
    have : x = it := by
      have := copyListing_fst sibs x
      rw [hx] at this
      exact this.symm
    subst this
    exact copyListing_all_rooted sibs x l hx

theorem mem_preorderL (l : List Node) (x : Node) : x ∈ preorder.preorderL l → ∃ s ∈ l, x ∈ preorder s := by
  induction l with
  | nil => intro h; simp [preorder.preorderL] at h
  | cons a r ih =>
    intro h
    simp only [preorder.preorderL, List.mem_append] at h
    rcases h with h | h
    · exact ⟨a, List.mem_cons_self, h⟩
    · obtain ⟨s, hs, hx⟩ := ih h
      exact ⟨s, List.mem_cons_of_mem _ hs, hx⟩

theorem mem_preorder_mk (l : PathS) (f s t : Str) (h : List (PathS × Str)) (c : List Str)
    (cp : List (Str × Option (List (PathS × Bool)))) (lk : List Link) (fs : List Str) (subs : List Node) (x : Node) :
    x ∈ preorder (.mk l f s t h c cp lk fs subs) → x = .mk l f s t h c cp lk fs subs ∨ ∃ s' ∈ subs, x ∈ preorder s' := by
  intro hx
  simp only [preorder, List.mem_cons] at hx
  rcases hx with hx | hx
  · exact Or.inl hx
  · exact Or.inr (mem_preorderL subs x hx)

theorem pageAt_entriesRes {v : Variant} {pc : Option (List Str)} {own : List Str} {hier : List (PathS × Str)}
    {loc : PathS} {sibs cs : List Entry} {nm : Str} {s : Node}
    (h : pageAt v pc (entriesRes v own hier loc sibs cs) nm = some s) :
    ∃ e ∈ cs, entryRes v own hier loc sibs e = .page s := by
  unfold pageAt at h
  split at h
  · cases h
  · rw [lookupRes_entriesRes] at h
    cases hf : findEntry nm cs with
    | none => simp [hf] at h
    | some e =>
      simp only [hf, Option.map_some] at h
      refine ⟨e, (findEntry_some hf).1, ?_⟩
      cases hr : entryRes v own hier loc sibs e <;> simp only [hr] at h
      · split at h
        · cases h
        · cases h; rfl
      all_goals cases h

theorem entryRes_copyOk (v : Variant) (e : Entry) :
    ∀ own hier loc sibs, ResAll CopyOk (entryRes v own hier loc sibs e) := by
  refine entry_ind_aux (P := fun e => ∀ own hier loc sibs, ResAll CopyOk (entryRes v own hier loc sibs e)) ?_ ?_ e
  · intro n m own hier loc sibs
    simp only [entryRes]
    split
    · split
      · trivial
      · intro x hx
        rcases mem_preorder_mk _ _ _ _ _ _ _ _ _ _ x hx with rfl | ⟨s', hs', _⟩
        · exact copyOk_built sibs _ _ _ _ _ _ _ _ _
        · cases hs'
    · trivial
  · intro n cs ih own hier loc sibs
    simp only [entryRes]
    split
    · trivial
    · rename_i m t hidx
      rw [walk_eq]
      split
      · trivial
      · rename_i subs files hw
        split at hw
        · cases hw
        cases hw
        intro x hx
        rcases mem_preorder_mk _ _ _ _ _ _ _ _ _ _ x hx with rfl | ⟨s', hs', hxs⟩
        · exact copyOk_built cs _ _ _ _ _ _ _ _ _
        · obtain ⟨nm, _, hp⟩ := List.mem_filterMap.mp hs'
          obtain ⟨e', he', hr⟩ := pageAt_entriesRes hp
          have := ih e' he' m.copySub (hier ++ [(loc ++ [n], t)]) (loc ++ [n]) cs
          rw [hr] at this
          exact this x hxs

theorem getPageTree_copyOk (v : Variant) (cs : List Entry) : ResAll CopyOk (getPageTree v cs) := by
  unfold getPageTree
  split
  · trivial
  · rename_i m t hidx
    rw [walk_eq]
    split
    · trivial
    · rename_i subs files hw
      split at hw
      · cases hw
      cases hw
      intro x hx
      rcases mem_preorder_mk _ _ _ _ _ _ _ _ _ _ x hx with rfl | ⟨s', hs', hxs⟩
      · exact copyOk_built cs _ _ _ _ _ _ _ _ _
      · obtain ⟨nm, _, hp⟩ := List.mem_filterMap.mp hs'
        obtain ⟨e', he', hr⟩ := pageAt_entriesRes hp
        have := entryRes_copyOk v e' m.copySub [([], t)] [] cs
        rw [hr] at this
        exact this x hxs

/-! ## whole directories, exact membership -/

theorem addNew_mem_mono (st : List (PathS × Bool)) (q p : PathS × Bool) (h : p ∈ st) : p ∈ addNew st q := by
  unfold addNew
  split
  · exact h
  · exact List.mem_append_left _ h

theorem foldFiles_mem_mono (loc : PathS) (fs : List Str) (st : List (PathS × Bool)) (p : PathS × Bool) (h : p ∈ st) :
    p ∈ fs.foldl (fun s f => addNew s (loc ++ [f], false)) st := by
  induction fs generalizing st with
  | nil => exact h
  | cons f fs ih => exact ih _ (addNew_mem_mono st _ p h)

theorem writeNode_mem_mono (st : List (PathS × Bool)) (n : Node) (p : PathS × Bool) (h : p ∈ st) :
    p ∈ writeNode st n := by
  unfold writeNode
  apply foldFiles_mem_mono
  apply copyItems_mono
  apply addNew_mem_mono
  split
  · exact addNew_mem_mono st _ p h
  · exact h

theorem foldl_writeNode_mem_mono (ns : List Node) (st : List (PathS × Bool)) (p : PathS × Bool) (h : p ∈ st) :
    p ∈ ns.foldl writeNode st := by
  induction ns generalizing st with
  | nil => exact h
  | cons n ns ih => exact ih _ (writeNode_mem_mono st n p h)

theorem addNew_paths (st : List (PathS × Bool)) (q : PathS × Bool) (p : PathS) (h : p ∈ paths (addNew st q)) :
    p ∈ paths st ∨ p = q.1 := by
  unfold addNew at h
  split at h
  · exact Or.inl h
  · simp only [paths, List.map_append, List.mem_append, List.map_cons, List.map_nil, List.mem_singleton] at h
    rcases h with h | h
    · exact Or.inl h
    · exact Or.inr h

/-- one page: a directory of its `copy_subdir` whose place is free when the page's `writeout` starts is copied
    completely by that `writeout` -/
theorem writeNode_copies_whole (st : List (PathS × Bool)) (n : Node) (it : Str) (listing : List (PathS × Bool))
    (hm : (it, some listing) ∈ n.copies) (hnd : (n.copies.map Prod.fst).Nodup)
    (hrooted : ∀ i l, (i, some l) ∈ n.copies → ∀ p ∈ l, p.1.head? = some i)
    (hfree : n.loc ++ [it] ∉ paths st) (hne : it ≠ n.file) :
    ∀ p ∈ listing, (n.loc ++ p.1, p.2) ∈ writeNode st n := by
  intro p hp
  unfold writeNode
  apply foldFiles_mem_mono
  apply copyItems_complete n.loc n.copies _ it listing hm hnd hrooted _ p hp
  intro hc
  rcases addNew_paths _ _ _ hc with hc | hc
  · have hc' : n.loc ++ [it] ∈ paths st := by
      split at hc
      · rcases addNew_paths _ _ _ hc with hc | hc
        · exact hc
        · simp only at hc
          have := congrArg List.length hc
          simp at this
      · exact hc
    exact hfree hc'
  · simp only [Node.path] at hc
    have := List.append_cancel_left hc
    simp at this
    exact hne this


/-- all pages: a directory of the `copy_subdir` of page `n` whose place is free after the pages before `n` were
    written is copied completely, and stays -/
theorem outputs_copies_whole (top n : Node) (pre post : List Node) (hsplit : preorder top = pre ++ n :: post)
    (it : Str) (listing : List (PathS × Bool))
    (hm : (it, some listing) ∈ n.copies) (hnd : (n.copies.map Prod.fst).Nodup)
    (hrooted : ∀ i l, (i, some l) ∈ n.copies → ∀ p ∈ l, p.1.head? = some i)
    (hfree : n.loc ++ [it] ∉ paths (pre.foldl writeNode [])) (hne : it ≠ n.file) :
    ∀ p ∈ listing, (n.loc ++ p.1, p.2) ∈ outputs top := by
  intro p hp
  unfold outputs
  rw [hsplit, List.foldl_append, List.foldl_cons]
  apply foldl_writeNode_mem_mono
  exact writeNode_copies_whole _ n it listing hm hnd hrooted hfree hne p hp

end Ford.PT
