import FordModel.Graph
import FordModel.Lemmas.GraphData
namespace Ford.Graph

/-!
  `get_call_nodes` (round 3): the fuel the model supplies always suffices, so `callNodes` *is* the
  set of nearest kept descendants — a function of the entity table and the call list alone,
  whatever other call lists were walked before (no state survives one walk).
-/

/-- what the entities of `l` that were not visited yet can still put on the stack when they are
    expanded (their calls and bindings), plus one step for the expansion itself -/
def budgetAux (tab : Table) (vis : List Node) : List Node → Nat
  | [] => 0
  | i :: is => (if vis.contains i then 0 else (callChildren tab i).length + 1) + budgetAux tab vis is

def budget (tab : Table) (vis : List Node) : Nat := budgetAux tab vis (List.range tab.length)

theorem budgetAux_cons_le (tab : Table) (c : Node) (vis l : List Node) :
    budgetAux tab (c :: vis) l ≤ budgetAux tab vis l := by
  induction l with
  | nil => simp [budgetAux]
  | cons i is ih =>
    simp only [budgetAux]
    by_cases h1 : vis.contains i = true
    · have h2 : (c :: vis).contains i = true := by
        simp only [List.contains_cons, h1, Bool.or_true]
      rw [if_pos h1, if_pos h2]; omega
    · rw [if_neg h1]; split <;> omega

theorem budgetAux_expand (tab : Table) (c : Node) (vis l : List Node)
    (hc : c ∈ l) (hv : vis.contains c = false) :
    budgetAux tab (c :: vis) l + (callChildren tab c).length + 1 ≤ budgetAux tab vis l := by
  induction l with
  | nil => simp at hc
  | cons i is ih =>
    by_cases h2 : i = c
    · subst h2
      have := budgetAux_cons_le tab i vis is
      simp only [budgetAux, List.contains_cons, beq_self_eq_true, Bool.true_or, if_true, hv,
        Bool.false_eq_true, if_false]
      omega
    · have hne : (i == c) = false := by simpa using h2
      have hc' : c ∈ is := by
        rcases List.mem_cons.1 hc with h | h
        · exact absurd h.symm h2
        · exact h
      have := ih hc'
      simp only [budgetAux, List.contains_cons, hne, Bool.false_or]
      omega

theorem ent_default_of_le (tab : Table) (c : Node) (h : tab.length ≤ c) : ent tab c = {} := by
  simp [ent, List.getD_eq_getElem?_getD, List.getElem?_eq_none h]

/-- only entities of the table are ever expanded (a name the table does not know is kept) -/
theorem lt_length_of_not_keep (tab : Table) (c : Node) (h : keep tab c = false) : c < tab.length := by
  by_cases hlt : c < tab.length
  · exact hlt
  · have hd := ent_default_of_le tab c (Nat.le_of_not_lt hlt)
    simp [keep, isSimple, hd] at h

/-- **enough fuel, never `none`**: one step per popped element, and every entity is expanded at
    most once -/
theorem callNodesAux_isSome (tab : Table) (fuel : Nat) (stack vis res : List Node)
    (h : budget tab vis + stack.length ≤ fuel) : (callNodesAux tab fuel stack vis res).isSome = true := by
  fun_induction callNodesAux tab fuel stack vis res
  case case1 => simp
  case case2 => simp at h
  case case3 f c rest vis res hv ih =>
    apply ih; simp at h; omega
  case case4 f c rest vis res hv hk ih =>
    apply ih
    have := budgetAux_cons_le tab c vis (List.range tab.length)
    simp only [budget, List.length_cons] at h ⊢
    omega
  case case5 f c rest vis res hv hk ih =>
    apply ih
    have hk' : keep tab c = false := by simpa using hk
    have hlt := lt_length_of_not_keep tab c hk'
    have := budgetAux_expand tab c vis (List.range tab.length) (List.mem_range.2 hlt) (by simpa using hv)
    simp only [budget, List.length_cons, List.length_append] at h ⊢
    omega

theorem budgetAux_nil (tab : Table) (l : List Node) :
    budgetAux tab [] l = (l.map fun i => (callChildren tab i).length + 1).sum := by
  induction l with
  | nil => simp [budgetAux]
  | cons i is ih => simp [budgetAux, ih]

theorem map_range_ent (tab : Table) (g : Ent → Nat) :
    (List.range tab.length).map (fun i => g (ent tab i)) = tab.map g := by
  apply List.ext_getElem
  · simp
  · intro i h1 h2
    have hi : i < tab.length := by simpa using h1
    simp [ent, List.getD_eq_getElem?_getD, List.getElem?_eq_getElem hi]

theorem budget_nil_le (tab : Table) : budget tab [] ≤ callFuel tab := by
  have h := map_range_ent tab (fun e => (e.calls ++ e.bindings).length + 1)
  simp only [budget, budgetAux_nil, callChildren, callFuel]
  rw [h]
  simp only [List.length_append]
  omega

/-- the fuel of `callNodes` suffices: the work list always runs to its end -/
theorem callNodes_spec (tab : Table) (calls : List Node) :
    callNodesAux tab (callFuel tab + calls.length) calls [] [] = some (callNodes tab calls) := by
  have h := callNodesAux_isSome tab (callFuel tab + calls.length) calls [] []
    (by have := budget_nil_le tab; omega)
  rw [callNodes]
  cases hr : callNodesAux tab (callFuel tab + calls.length) calls [] [] with
  | none => simp [hr] at h
  | some r => simp

/-- `callNodes` = exactly the nearest kept descendants of the given calls -/
theorem mem_callNodes (tab : Table) (calls : List Node) (x : Node) :
    x ∈ callNodes tab calls ↔ ∃ c ∈ calls, Nearest tab c x := by
  have h := callNodes_spec tab calls
  constructor
  · intro hx
    exact callNodesAux_sound tab (fun x => ∃ c ∈ calls, Nearest tab c x) _ calls [] [] _
      (by simp) (fun c hc x hx => ⟨c, hc, hx⟩) h x hx
  · rintro ⟨c, hc, hn⟩
    exact callNodesAux_complete tab _ calls [] [] _ ⟨by simp, by simp⟩ h c x (Or.inr hc) hn

/-- what is shown for a skipped call is what is shown for its own calls and bindings -/
theorem nearest_skip_iff (tab : Table) (c x : Node) (hk : keep tab c = false) :
    Nearest tab c x ↔ ∃ d ∈ callChildren tab c, Nearest tab d x := by
  constructor
  · intro h
    cases h with
    | here hk' => simp [hk] at hk'
    | skip _ hd hn => exact ⟨_, hd, hn⟩
  · rintro ⟨d, hd, hn⟩
    exact .skip hk hd hn

/-- the calls the constructor of a procedure / program node looks at -/
def rawCalls (tab : Table) (a : Node) : List Node :=
  match (ent tab a).kind with
  | .proc => callChildren tab a
  | .prog => (ent tab a).calls
  | _ => []

theorem mem_targets_call {tab : Table} {a t : Node} :
    (Rel.call, t) ∈ targets tab a ↔ t ∈ callNodes tab (rawCalls tab a) := by
  cases hk : (ent tab a).kind <;>
    simp [targets, rawCalls, callChildren, hk]
  all_goals simp [mem_callNodes]

end Ford.Graph
