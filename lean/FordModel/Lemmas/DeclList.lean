/-
  Lemmas for the entity list of a declaration statement (`line_to_variables` as modelled by
  Show.declVars): a declaration `T :: n1, n2, ...` yields exactly its names, once each, in order.
-/
import FordModel.Show
import FordModel.Lemmas.TypeSpecChar
namespace Ford.Show
open Ford Ford.TypeSpec

/-! ## no literal: nothing is cut out -/

theorem cutGo_noquote (s : Str) (k : Nat) (h : ∀ c ∈ s, isQuote c = false) :
    cutGo s k .scan = s.map .txt := by
  induction s with
  | nil => simp [cutGo]
  | cons c cs ih =>
    simp only [cutGo, h c (by simp), Bool.false_eq_true, if_false, List.map_cons]
    rw [ih (fun d hd => h d (by simp [hd]))]

theorem segMasked_txt (s : Str) (k : Nat) : segMasked (s.map .txt) k = s := by
  induction s with
  | nil => rfl
  | cons c cs ih => simp [segMasked, ih]

theorem segStrings_txt (s : Str) : segStrings (s.map .txt) = [] := by
  induction s with
  | nil => rfl
  | cons c cs ih => simp [segStrings, ih]

theorem prepLine_noquote (s : Str) (h : ∀ c ∈ s, isQuote c = false) :
    prepLine false s = ⟨s, []⟩ := by
  simp [prepLine, cutLits, cutGo_noquote s 0 h, segMasked_txt, segStrings_txt]

/-! ## the `::` -/

theorem afterColons_append (typ rest : Str) (h : ∀ c ∈ typ, c ≠ ':') :
    afterColons (typ ++ ':' :: ':' :: rest) = some rest := by
  induction typ with
  | nil => simp [afterColons]
  | cons c cs ih =>
    have hc : c ≠ ':' := h c (by simp)
    have ih' := ih (fun d hd => h d (by simp [hd]))
    cases cs with
    | nil =>
      have hb : (c == ':') = false := by simpa using hc
      simp [afterColons, hb]
    | cons d ds =>
      have hb : (c == ':') = false := by simpa using hc
      simp only [List.cons_append] at ih' ⊢
      rw [afterColons]
      simp only [hb, Bool.false_and, Bool.false_eq_true, if_false]
      exact ih'

/-! ## splitting at top-level commas -/

def flatCh (c : Char) : Bool := !isParen c && c != ','

theorem psplit_piece_end (sep : Char) (n cur : Str)
    (h : ∀ c ∈ n, isParen c = false ∧ c ≠ sep) :
    psplitAux sep n 0 0 cur = [cur.reverse ++ n] := by
  induction n generalizing cur with
  | nil => simp [psplitAux]
  | cons c cs ih =>
    have hp := (h c (by simp)).1
    have hs := (h c (by simp)).2
    simp only [isParen, Bool.or_eq_false_iff, beq_eq_false_iff_ne, ne_eq] at hp
    obtain ⟨⟨⟨h1, h2⟩, h3⟩, h4⟩ := hp
    simp only [psplitAux, h1, h2, h3, h4, beq_iff_eq, if_false, false_and, Bool.false_eq_true]
    have hb : (c == sep) = false := by simpa using hs
    simp only [hb, Bool.false_and, Bool.false_eq_true, if_false]
    rw [ih _ (fun d hd => h d (by simp [hd]))]
    simp

theorem psplit_piece (sep : Char) (n rest cur : Str) (hsep : isParen sep = false)
    (h : ∀ c ∈ n, isParen c = false ∧ c ≠ sep) :
    psplitAux sep (n ++ sep :: rest) 0 0 cur = (cur.reverse ++ n) :: psplitAux sep rest 0 0 [] := by
  induction n generalizing cur with
  | nil =>
    simp only [isParen, Bool.or_eq_false_iff, beq_eq_false_iff_ne, ne_eq] at hsep
    obtain ⟨⟨⟨h1, h2⟩, h3⟩, h4⟩ := hsep
    simp [psplitAux, h1, h2, h3, h4]
  | cons c cs ih =>
    have hp := (h c (by simp)).1
    have hs := (h c (by simp)).2
    simp only [isParen, Bool.or_eq_false_iff, beq_eq_false_iff_ne, ne_eq] at hp
    obtain ⟨⟨⟨h1, h2⟩, h3⟩, h4⟩ := hp
    simp only [List.cons_append, psplitAux, h1, h2, h3, h4, beq_iff_eq, if_false, false_and, Bool.false_eq_true]
    have hb : (c == sep) = false := by simpa using hs
    simp only [hb, Bool.false_and, Bool.false_eq_true, if_false]
    rw [ih _ (fun d hd => h d (by simp [hd]))]
    simp


/-! ## the comma-separated entity list -/

def sepCS : Str := [',', ' ']

theorem joinStr_cons_cons (sep x y : Str) (r : List Str) :
    joinStr sep (x :: y :: r) = x ++ sep ++ joinStr sep (y :: r) := rfl

theorem joinStr_prepend (c : Char) (x : Str) (r : List Str) (sep : Str) :
    c :: joinStr sep (x :: r) = joinStr sep ((c :: x) :: r) := by
  cases r <;> simp [joinStr]

/-- a name of the list: word characters only (no blank, parenthesis, comma, `=`, `*`, quote) -/
def NameOk (n : Str) : Prop := ∀ c ∈ n, isWord c = true

theorem word_flat {c : Char} (sep : Char) (hsep : isWord sep = false) (h : isWord c = true) :
    isParen c = false ∧ c ≠ sep := ⟨word_paren h, word_ne h hsep⟩

theorem psplit_names (n : Str) (ns : List Str) (cur : Str)
    (hn : ∀ c ∈ n, isParen c = false ∧ c ≠ ',') (hns : ∀ m ∈ ns, NameOk m) :
    psplitAux ',' (joinStr sepCS (n :: ns)) 0 0 cur = (cur.reverse ++ n) :: ns.map (' ' :: ·) := by
  induction ns generalizing n cur with
  | nil => simpa [joinStr] using psplit_piece_end ',' n cur hn
  | cons m ms ih =>
    rw [joinStr_cons_cons]
    simp only [sepCS, List.append_assoc, List.cons_append, List.nil_append]
    rw [psplit_piece ',' n _ cur (by decide) hn, joinStr_prepend]
    have hm : ∀ c ∈ ' ' :: m, isParen c = false ∧ c ≠ ',' := by
      intro c hc
      rcases List.mem_cons.mp hc with rfl | hc
      · decide
      · exact word_flat ',' (by decide) (hns m (by simp) c hc)
    have := ih (' ' :: m) [] hm (fun x hx => hns x (by simp [hx]))
    simp only [sepCS] at this
    rw [this]
    simp

theorem parenSplit_names (n : Str) (ns : List Str) (hn : NameOk n) (hns : ∀ m ∈ ns, NameOk m) :
    parenSplit ',' (joinStr sepCS (n :: ns)) = n :: ns.map (' ' :: ·) := by
  have := psplit_names n ns [] (fun c hc => word_flat ',' (by decide) (hn c hc)) hns
  simpa [parenSplit] using this

/-! ## one entity -/

theorem findIdx?_none (p : Char) (s : Str) (i : Nat) (h : ∀ c ∈ s, c ≠ p) : findIdx? p s i = none := by
  induction s generalizing i with
  | nil => rfl
  | cons c cs ih =>
    have hb : (c == p) = false := by simpa using h c (by simp)
    simp only [findIdx?, hb, Bool.false_eq_true, if_false]
    exact ih _ (fun d hd => h d (by simp [hd]))

theorem splitNameDim_name (n : Str) (hn : NameOk n) : splitNameDim n = (n, []) := by
  have h1 : posIdx '(' n = none := by simp [posIdx, findIdx?_none '(' n 0 (fun c hc => word_ne (hn c hc) (by decide))]
  have h2 : posIdx '[' n = none := by simp [posIdx, findIdx?_none '[' n 0 (fun c hc => word_ne (hn c hc) (by decide))]
  have h3 : posIdx '*' n = none := by simp [posIdx, findIdx?_none '*' n 0 (fun c hc => word_ne (hn c hc) (by decide))]
  simp [splitNameDim, h1, h2, h3, minOpt]

theorem removeSpaces_name (n : Str) (hn : NameOk n) : removeSpaces n = n := by
  induction n with
  | nil => rfl
  | cons c cs ih =>
    have hc : c ≠ ' ' := word_ne (hn c (by simp)) (by decide)
    have hb : (c != ' ') = true := by simpa using hc
    simp only [removeSpaces, List.filter_cons, hb, if_true]
    congr 1
    exact ih (fun d hd => hn d (by simp [hd]))

theorem decOne_name (strings : List Str) (pad n : Str) (eqJoin : Bool) (hp : ∀ c ∈ pad, c = ' ') (hn : NameOk n) :
    decOne strings (pad ++ n) eqJoin = .ok ⟨n, [], false, none⟩ := by
  have hrm : removeSpaces (pad ++ n) = n := by
    have hpad : removeSpaces pad = [] := by
      induction pad with
      | nil => rfl
      | cons c cs ih =>
        have : c = ' ' := hp c (by simp)
        subst this
        simp only [removeSpaces, List.filter_cons]
        simpa [removeSpaces] using ih (fun d hd => hp d (by simp [hd]))
    have : removeSpaces (pad ++ n) = removeSpaces pad ++ removeSpaces n := by simp [removeSpaces]
    rw [this, hpad, removeSpaces_name n hn]; rfl
  have hsp : parenSplit '=' n = [n] := by
    have := psplit_piece_end '=' n [] (fun c hc => word_flat '=' (by decide) (hn c hc))
    simpa [parenSplit] using this
  have hstrip : strip n = n := by
    have := strip_pad [] n [] rfl rfl (fun c hc => word_space (hn c hc))
    simpa using this
  unfold decOne
  simp only [hrm, hsp, hstrip, splitNameDim_name n hn]

theorem decAll_names (strings : List Str) (ns : List Str) (eqJoin : Bool) (hns : ∀ m ∈ ns, NameOk m) :
    decAll strings (ns.map (' ' :: ·)) eqJoin = .ok (ns.map fun m => ⟨m, [], false, none⟩) := by
  induction ns with
  | nil => simp [decAll]
  | cons m ms ih =>
    have h1 := decOne_name strings [' '] m eqJoin (by simp) (hns m (by simp))
    simp only [List.singleton_append] at h1
    simp only [List.map_cons, decAll, h1, ih (fun x hx => hns x (by simp [hx]))]


/-! ## the whole statement -/

theorem joinStr_ne_nil (sep n : Str) (ns : List Str) (h : (n :: ns).getLast (by simp) ≠ []) :
    joinStr sep (n :: ns) ≠ [] := by
  induction ns generalizing n with
  | nil => simpa [joinStr] using h
  | cons m ms ih =>
    rw [joinStr_cons_cons]
    have := ih m (by simpa using h)
    intro e
    simp at e
    exact this e.2.2

theorem joinStr_getLast? (sep n : Str) (ns : List Str) (h : (n :: ns).getLast (by simp) ≠ []) :
    (joinStr sep (n :: ns)).getLast? = ((n :: ns).getLast (by simp)).getLast? := by
  induction ns generalizing n with
  | nil => simp [joinStr]
  | cons m ms ih =>
    rw [joinStr_cons_cons, List.getLast?_append]
    have h' : (m :: ms).getLast (by simp) ≠ [] := by simpa using h
    have hne := joinStr_ne_nil sep m ms h'
    rw [ih m h']
    have : ((m :: ms).getLast (by simp)).getLast? ≠ none := by
      simp [List.getLast?_eq_none_iff, h']
    cases hq : ((m :: ms).getLast (by simp)).getLast? with
    | none => exact absurd hq this
    | some c => simp [hq]

theorem rstrip_of_getLast? (s : Str) (c : Char) (h : s.getLast? = some c) (hc : isSpace c = false) :
    rstrip s = s := by
  have hne : s ≠ [] := by intro e; subst e; simp at h
  have hs : s = s.dropLast ++ [c] := by
    have := List.dropLast_concat_getLast hne
    rw [List.getLast?_eq_getLast hne] at h
    simp at h
    rw [h] at this
    exact this.symm
  have := rstrip_append_of_last s.dropLast [] c hc
  simp only [List.append_nil] at this
  rw [← hs] at this
  simpa [rstrip, lstrip] using this

/-- `T :: n1, n2, ...` (no literal, no `::` inside `T`): the recorded entities are exactly the names,
    once each, in order -/
theorem declVars_names (typ n : Str) (ns : List Str) (eqJoin : Bool)
    (htyp : ∀ c ∈ typ, isQuote c = false ∧ c ≠ ':')
    (hn : ∀ m ∈ n :: ns, NameOk m ∧ m ≠ []) :
    declVarsOpt false (typ ++ [' ', ':', ':', ' '] ++ joinStr sepCS (n :: ns)) eqJoin
      = .ok ((n :: ns).map fun m => ⟨m, [], false, none⟩) := by
  have hnok : NameOk n := (hn n (by simp)).1
  have hnsok : ∀ m ∈ ns, NameOk m := fun m hm => (hn m (by simp [hm])).1
  have hbodyq : ∀ c ∈ joinStr sepCS (n :: ns), isQuote c = false := by
    intro c hc
    have : ∀ (l : List Str), (∀ m ∈ l, NameOk m) → ∀ c ∈ joinStr sepCS l, isQuote c = false := by
      intro l
      induction l with
      | nil => intro _ c hc; simp [joinStr] at hc
      | cons x r ih =>
        intro hl c hc
        cases r with
        | nil =>
          simp only [joinStr] at hc
          have := word_kindCh (hl x (by simp) c hc)
          simp [kindCh] at this; exact this.2
        | cons y r' =>
          rw [joinStr_cons_cons] at hc
          simp only [List.mem_append, sepCS, List.mem_cons, List.not_mem_nil, or_false] at hc
          rcases hc with (hc | hc | hc) | hc
          · have := word_kindCh (hl x (by simp) c hc)
            simp [kindCh] at this; exact this.2
          · subst hc; decide
          · subst hc; decide
          · exact ih (fun m hm => hl m (by simp [hm])) c hc
    exact this (n :: ns) (fun m hm => (hn m hm).1) c hc
  have hlineq : ∀ c ∈ typ ++ [' ', ':', ':', ' '] ++ joinStr sepCS (n :: ns), isQuote c = false := by
    intro c hc
    simp only [List.mem_append, List.mem_cons, List.not_mem_nil, or_false] at hc
    rcases hc with (hc | hc) | hc
    · exact (htyp c hc).1
    · rcases hc with rfl | rfl | rfl | rfl <;> decide
    · exact hbodyq c hc
  have hsplit : typ ++ [' ', ':', ':', ' '] ++ joinStr sepCS (n :: ns)
      = (typ ++ [' ']) ++ ':' :: ':' :: (' ' :: joinStr sepCS (n :: ns)) := by simp
  have hac : afterColons ((typ ++ [' ']) ++ ':' :: ':' :: (' ' :: joinStr sepCS (n :: ns)))
      = some (' ' :: joinStr sepCS (n :: ns)) := by
    apply afterColons_append
    intro c hc
    simp only [List.mem_append, List.mem_singleton] at hc
    rcases hc with hc | rfl
    · exact (htyp c hc).2
    · decide
  -- the body starts and ends with a word character
  have hlastne : (n :: ns).getLast (by simp) ≠ [] := (hn _ (List.getLast_mem _)).2
  have hlastok : NameOk ((n :: ns).getLast (by simp)) := (hn _ (List.getLast_mem _)).1
  have hstrip : strip (' ' :: joinStr sepCS (n :: ns)) = joinStr sepCS (n :: ns) := by
    have hne := joinStr_ne_nil sepCS n ns hlastne
    have hhead : lstrip (' ' :: joinStr sepCS (n :: ns)) = joinStr sepCS (n :: ns) := by
      simp only [lstrip, show isSpace ' ' = true by decide, if_true]
      have hn0 : n ≠ [] := (hn n (by simp)).2
      cases hnn : n with
      | nil => exact absurd hnn hn0
      | cons c cs =>
        have hcw : isWord c = true := hnok c (by simp [hnn])
        cases ns with
        | nil => simp [joinStr, lstrip, word_space hcw]
        | cons m ms => rw [joinStr_cons_cons]; simp [lstrip, word_space hcw]
    simp only [strip, hhead]
    have hgl := joinStr_getLast? sepCS n ns hlastne
    cases hq : ((n :: ns).getLast (by simp)).getLast? with
    | none => simp [List.getLast?_eq_none_iff] at hq; exact absurd hq hlastne
    | some c =>
      rw [hq] at hgl
      have hcmem : c ∈ (n :: ns).getLast (by simp) := List.mem_of_getLast? hq
      exact rstrip_of_getLast? _ c hgl (word_space (hlastok c hcmem))
  unfold declVarsOpt
  rw [prepLine_noquote _ hlineq]
  simp only [hsplit, hac, hstrip, parenSplit_names n ns hnok hnsok]
  have h1 := decOne_name [] [] n eqJoin (by simp) hnok
  simp only [List.nil_append] at h1
  simp only [decAll, h1, decAll_names [] ns eqJoin hnsok, List.map_cons]

end Ford.Show
