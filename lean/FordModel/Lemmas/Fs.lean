import FordModel.Fs
namespace Ford.Fs
open Ford

/-! ### norm / resolve produce normal paths -/

theorem normal_tail {st : List Seg} (h : Normal st) : Normal st.tail := by
  intro s hs
  exact h s (List.mem_of_mem_tail hs)

theorem normal_cons {st : List Seg} {s : Seg} (h : Normal st) (hs : Clean s) : Normal (s :: st) := by
  intro t ht
  rcases List.mem_cons.1 ht with rfl | ht
  · exact hs
  · exact h t ht

theorem normAux_normal (st x : List Seg) (h : Normal st) : Normal (normAux st x) := by
  induction x generalizing st with
  | nil => intro s hs; exact h s (by simpa [normAux] using hs)
  | cons s r ih =>
    by_cases h1 : s = dotdot
    · simpa [normAux, h1] using ih _ (normal_tail h)
    · by_cases h2 : s = dot ∨ s = []
      · simpa [normAux, h1, h2] using ih _ h
      · simpa [normAux, h1, h2] using ih _ (normal_cons h ⟨h1, by simpa using h2⟩)

theorem norm_normal (x : List Seg) : Normal (norm x) :=
  normAux_normal [] x (by intro s hs; cases hs)

def LinksOk (links : List (Path × Path)) : Prop := ∀ e ∈ links, Normal e.2

theorem lookup_mem {α β} [BEq α] [LawfulBEq α] (l : List (α × β)) (k : α) (v : β)
    (h : l.lookup k = some v) : (k, v) ∈ l := by
  induction l with
  | nil => simp at h
  | cons e r ih =>
    obtain ⟨a, b⟩ := e
    by_cases hk : k == a
    · have : k = a := by simpa using hk
      subst this
      simp [List.lookup] at h
      simp [h]
    · simp [List.lookup, hk] at h
      exact List.mem_cons_of_mem _ (ih h)

theorem resolveAux_normal (links : List (Path × Path)) (hl : LinksOk links) (st x : List Seg)
    (h : Normal st) : Normal (resolveAux links st x) := by
  induction x generalizing st with
  | nil => intro s hs; exact h s (by simpa [resolveAux] using hs)
  | cons s r ih =>
    by_cases h1 : s = dotdot
    · simpa [resolveAux, h1] using ih _ (normal_tail h)
    · by_cases h2 : s = dot ∨ s = []
      · simpa [resolveAux, h1, h2] using ih _ h
      · cases ht : links.lookup (s :: st).reverse with
        | none =>
          have := ih _ (normal_cons h ⟨h1, by simpa using h2⟩)
          simp only [resolveAux, h1, h2, if_false, ht]
          exact this
        | some t =>
          have hn : Normal t.reverse := by
            intro u hu
            exact hl _ (lookup_mem _ _ _ ht) u (by simpa using hu)
          have := ih _ hn
          simp only [resolveAux, h1, h2, if_false, ht]
          exact this

theorem resolve_normal (links : List (Path × Path)) (hl : LinksOk links) (x : List Seg) :
    Normal (resolve links x) :=
  resolveAux_normal links hl [] x (by intro s hs; cases hs)

/-! ### the prefix lemma -/

/-- pushing a normal path onto the stack -/
theorem normAux_append_normal (o : Path) (ho : Normal o) (st x : List Seg) :
    normAux st (o ++ x) = normAux (o.reverse ++ st) x := by
  induction o generalizing st with
  | nil => simp
  | cons s o ih =>
    have hs : Clean s := ho s (by simp)
    have ho' : Normal o := fun t ht => ho t (by simp [ht])
    obtain ⟨h1, h2, h3⟩ := hs
    simp [normAux, h1, h2, h3, ih ho']

/-- walking `x` from `y.length` segments below `o` with `safe` never leaves `o` -/
theorem normAux_under (o : Path) (x : List Seg) : ∀ (y : List Seg), safe y.length x = true →
    ∃ z, normAux (y ++ o.reverse) x = o ++ z := by
  induction x with
  | nil => intro y _; exact ⟨y.reverse, by simp [normAux]⟩
  | cons s r ih =>
    intro y hy
    by_cases h1 : s = dotdot
    · subst h1
      cases y with
      | nil => simp [safe] at hy
      | cons a y' =>
        simp [safe] at hy
        simpa [normAux] using ih y' hy
    · by_cases h2 : s = dot ∨ s = []
      · simp [safe, h1, h2] at hy
        simpa [normAux, h1, h2] using ih y hy
      · simp [safe, h1, h2] at hy
        have := ih (s :: y) (by simpa using hy)
        simpa [normAux, h1, h2] using this

/-- **prefix lemma**: joining a non-climbing relative path to a normal base and
    resolving it lexically stays below the base. -/
theorem under_of_safe (o : Path) (ho : Normal o) (x : List Seg) (hx : safe 0 x = true) :
    o <+: norm (o ++ x) := by
  obtain ⟨z, hz⟩ := normAux_under o x [] (by simpa using hx)
  refine ⟨z, ?_⟩
  simp [norm, normAux_append_normal o ho, ← hz]

theorem safe_mono (x : List Seg) : ∀ k, safe k x = true → safe (k + 1) x = true := by
  induction x with
  | nil => intro k _; simp [safe]
  | cons s r ih =>
    intro k h
    by_cases h1 : s = dotdot
    · subst h1
      cases k with
      | zero => simp [safe] at h
      | succ k => simp [safe] at h ⊢; exact ih k h
    · by_cases h2 : s = dot ∨ s = []
      · simp [safe, h1, h2] at h ⊢; exact ih k h
      · simp [safe, h1, h2] at h ⊢; exact ih (k + 1) h

theorem safe_zero_of_le (x : List Seg) (k : Nat) (h : safe 0 x = true) : safe k x = true := by
  induction k with
  | zero => exact h
  | succ k ih => exact safe_mono _ _ ih

theorem safe_append (x y : List Seg) : ∀ k, safe k x = true → safe 0 y = true → safe k (x ++ y) = true := by
  induction x with
  | nil =>
    intro k _ hy
    simpa using safe_zero_of_le y k hy
  | cons s r ih =>
    intro k h hy
    by_cases h1 : s = dotdot
    · subst h1
      cases k with
      | zero => simp [safe] at h
      | succ k => simp [safe] at h ⊢; exact ih k h hy
    · by_cases h2 : s = dot ∨ s = []
      · simp [safe, h1, h2] at h ⊢; exact ih k h hy
      · simp [safe, h1, h2] at h ⊢; exact ih (k + 1) h hy

theorem under_sub (o : Path) (ho : Normal o) (rel : Str) (h : safeRel rel = true) : o <+: sub o rel :=
  under_of_safe o ho _ h

/-- one clean segment cannot climb -/
theorem safe_single (s : Seg) (h : s ≠ dotdot) (k : Nat) : safe k [s] = true := by
  by_cases h2 : s = dot ∨ s = []
  · simp [safe, h, h2]
  · simp [safe, h, h2]

/-! ### splitSlash -/

theorem splitSlashAux_no_slash (s cur : Str) (h : '/' ∉ s) : splitSlashAux s cur = [cur.reverse ++ s] := by
  induction s generalizing cur with
  | nil => simp [splitSlashAux]
  | cons c cs ih =>
    have hc : c ≠ '/' := fun e => h (by simp [e])
    have hcs : '/' ∉ cs := fun e => h (by simp [e])
    simp [splitSlashAux, hc, ih _ hcs]

theorem splitSlash_no_slash (s : Str) (h : '/' ∉ s) : splitSlash s = [s] := by
  simp [splitSlash, splitSlashAux_no_slash s [] h]

theorem safeRel_of_no_slash (s : Str) (h : '/' ∉ s) (h2 : s ≠ dotdot) : safeRel s = true := by
  simp [safeRel, splitSlash_no_slash s h, safe_single s h2]

/-! ### NameSelector.get_name -/

theorem replaceChar_removes (c : Char) (r s : Str) (hr : c ∉ r) : c ∉ replaceChar c r s := by
  induction s with
  | nil => simp [replaceChar]
  | cons x xs ih =>
    by_cases hx : x = c
    · simp [replaceChar, hx, hr, ih]
    · simp [replaceChar, hx, ih]; exact fun e => hx e.symm

theorem replaceChar_keeps (c d : Char) (r s : Str) (hr : d ∉ r) (hs : d ∉ s) : d ∉ replaceChar c r s := by
  induction s with
  | nil => simp [replaceChar]
  | cons x xs ih =>
    have hx : d ≠ x := fun e => hs (by simp [e])
    have hxs : d ∉ xs := fun e => hs (by simp [e])
    by_cases hc : x = c
    · simp [replaceChar, hc, hr, ih hxs]
    · simp [replaceChar, hc, ih hxs, hx]

theorem sanitize_keeps (tbl : List (Char × Str)) (d : Char) (h : ∀ e ∈ tbl, d ∉ e.2) (s : Str) (hs : d ∉ s) :
    d ∉ sanitize tbl s := by
  induction tbl generalizing s with
  | nil => simpa [sanitize] using hs
  | cons e r ih =>
    have := ih (fun e he => h e (by simp [he])) (replaceChar e.1 e.2 s)
      (replaceChar_keeps _ _ _ _ (h e (by simp)) hs)
    simpa [sanitize] using this

/-- if the table replaces `d` and no replacement text contains `d`, the result is free of `d` -/
theorem sanitize_removes (tbl : List (Char × Str)) (d : Char) (h : ∀ e ∈ tbl, d ∉ e.2)
    (hk : ∃ e ∈ tbl, e.1 = d) (s : Str) : d ∉ sanitize tbl s := by
  induction tbl generalizing s with
  | nil => obtain ⟨e, he, _⟩ := hk; cases he
  | cons e r ih =>
    have hr : ∀ e ∈ r, d ∉ e.2 := fun e he => h e (by simp [he])
    by_cases he : e.1 = d
    · have h1 : d ∉ replaceChar e.1 e.2 s := by
        rw [he]; exact replaceChar_removes d e.2 s (h e (by simp))
      have := sanitize_keeps r d hr _ h1
      simpa [sanitize] using this
    · obtain ⟨e', he', hd⟩ := hk
      rcases List.mem_cons.1 he' with rfl | he'
      · exact absurd hd he
      · have := ih hr ⟨e', he', hd⟩ (replaceChar e.1 e.2 s)
        simpa [sanitize] using this

end Ford.Fs

namespace Ford.Fs
open Ford

/-! ### every block of the write-out stays below its base -/

def Under (o : Path) (l : List Prim) : Prop := ∀ p ∈ l, o <+: p.path

theorem Under.append {o : Path} {a b : List Prim} (ha : Under o a) (hb : Under o b) : Under o (a ++ b) := by
  intro p hp
  rcases List.mem_append.1 hp with h | h
  · exact ha p h
  · exact hb p h

theorem Under.nil {o : Path} : Under o [] := by intro p hp; cases hp

theorem Under.trans {o d : Path} {l : List Prim} (h : o <+: d) (hl : Under d l) : Under o l :=
  fun p hp => h.trans (hl p hp)

theorem Under.flatMap {α} {o : Path} {xs : List α} {f : α → List Prim} (h : ∀ x ∈ xs, Under o (f x)) :
    Under o (xs.flatMap f) := by
  intro p hp
  obtain ⟨x, hx, hpx⟩ := List.mem_flatMap.1 hp
  exact h x hx p hpx

theorem Under.map {α} {o : Path} {xs : List α} {f : α → Prim} (h : ∀ x ∈ xs, o <+: (f x).path) :
    Under o (xs.map f) := by
  intro p hp
  obtain ⟨x, hx, rfl⟩ := List.mem_map.1 hp
  exact h x hx

theorem Under.ite {o : Path} {c : Prop} [Decidable c] {a b : List Prim} (ha : Under o a) (hb : Under o b) :
    Under o (if c then a else b) := by
  split <;> assumption

def TreeOk (t : Tree) : Prop := (∀ e ∈ t.walk, safeRel e.2 = true) ∧ ∀ e ∈ t.touch, safeRel e = true

theorem walkOps_under (dst : Path) (hN : Normal dst) (w : List (Nat × Str)) (h : ∀ e ∈ w, safeRel e.2 = true) :
    Under dst (walkOps dst w) := by
  induction w with
  | nil => exact Under.nil
  | cons e r ih =>
    obtain ⟨k, rel⟩ := e
    have hrel : dst <+: sub dst rel := under_sub dst hN rel (h (k, rel) (by simp))
    have ihr := ih (fun e he => h e (by simp [he]))
    simp only [walkOps]
    apply Under.append _ ihr
    intro p hp
    split at hp
    · simp at hp; rcases hp with rfl | rfl <;> exact hrel
    · split at hp
      · simp at hp; subst hp; exact hrel
      · split at hp
        · simp at hp; rcases hp with rfl | rfl <;> exact hrel
        · cases hp

theorem copyTreeDeref_under (dst : Path) (hN : Normal dst) (t : Tree) (ht : TreeOk t) :
    Under dst (copyTreeDeref dst t) := by
  intro p hp
  simp only [copyTreeDeref, List.mem_cons, List.mem_append] at hp
  rcases hp with ((rfl | h) | h) | h
  · exact List.prefix_refl _
  · exact walkOps_under dst hN t.walk ht.1 p h
  · simp at h; rcases h with rfl | rfl <;> exact List.prefix_refl _
  · split at h
    · cases h
    · obtain ⟨r, hr, rfl⟩ := List.mem_map.1 h
      exact under_sub dst hN r (ht.2 r hr)

/-- the copy dereferences symbolic links (generated constant: `symlinks=` of the `shutil.copytree`
    call): it is the link-free copy, whatever the `links` table of the tree says -/
theorem copyTree_eq_deref (dst : Path) (t : Tree) : copyTree dst t = copyTreeDeref dst t := by
  simp [copyTree, Generated.C19.copytreeSymlinks]

theorem copyTree_under (dst : Path) (hN : Normal dst) (t : Tree) (ht : TreeOk t) : Under dst (copyTree dst t) := by
  rw [copyTree_eq_deref]
  exact copyTreeDeref_under dst hN t ht

/-- what `walkOps` does with one entry -/
theorem mem_walkOps (dst : Path) (w : List (Nat × Str)) (p : Prim) (hp : p ∈ walkOps dst w) :
    ∃ e ∈ w, p.path = sub dst e.2 ∧
      ((e.1 = 0 ∧ (p.kind = .wr ∨ p.kind = .chmod)) ∨ (e.1 = 1 ∧ p.kind = .mk) ∨
       (e.1 = 2 ∧ (p.kind = .utime ∨ p.kind = .chmod))) := by
  induction w with
  | nil => cases hp
  | cons e r ih =>
    obtain ⟨k, rel⟩ := e
    simp only [walkOps, List.mem_append] at hp
    rcases hp with h | h
    · refine ⟨(k, rel), by simp, ?_⟩
      split at h
      · rename_i hk
        simp at h
        rcases h with rfl | rfl <;> simp [hk]
      · split at h
        · rename_i hk
          simp at h; subst h; simp [hk]
        · split at h
          · rename_i hk
            simp at h
            rcases h with rfl | rfl <;> simp [hk]
          · cases h
    · obtain ⟨e, he, h⟩ := ih h
      exact ⟨e, by simp [he], h⟩

theorem walkOps_file (dst : Path) (w : List (Nat × Str)) (rel : Str) (h : (0, rel) ∈ w) :
    ⟨.wr, sub dst rel⟩ ∈ walkOps dst w := by
  induction w with
  | nil => cases h
  | cons e r ih =>
    rcases List.mem_cons.1 h with rfl | h'
    · simp [walkOps]
    · obtain ⟨k, rel'⟩ := e
      simp only [walkOps, List.mem_append]
      exact Or.inr (ih h')

theorem walkOps_dir (dst : Path) (w : List (Nat × Str)) (rel : Str) (h : (1, rel) ∈ w) :
    ⟨.mk, sub dst rel⟩ ∈ walkOps dst w := by
  induction w with
  | nil => cases h
  | cons e r ih =>
    rcases List.mem_cons.1 h with rfl | h'
    · simp [walkOps]
    · obtain ⟨k, rel'⟩ := e
      simp only [walkOps, List.mem_append]
      exact Or.inr (ih h')

theorem copyFile_under (o dst : Path) (h : o <+: dst) : Under o (copyFile dst) := by
  intro p hp
  simp [copyFile] at hp
  rcases hp with rfl | rfl <;> exact h

/-- `base ++ x` resolved, for a normal base and a non-climbing `x` -/
theorem under_join (o : Path) (ho : Normal o) (x : List Seg) (hx : safe 0 x = true) : o <+: norm (o ++ x) :=
  under_of_safe o ho x hx

theorem safe_cons (s : Seg) (hs : s ≠ dotdot) (x : List Seg) (hx : safe 0 x = true) : safe 0 (s :: x) = true := by
  have := safe_append [s] x 0 (safe_single s hs 0) hx
  simpa using this

/-- one step down and then any single component (even `..`) does not climb above the start -/
theorem safe_two (a b : Seg) (ha : Clean a) : safe 0 [a, b] = true := by
  obtain ⟨h1, h2, h3⟩ := ha
  by_cases hb : b = dotdot
  · simp [safe, h1, h2, h3, hb]
  · by_cases hb2 : b = dot ∨ b = []
    · simp [safe, h1, h2, h3, hb, hb2]
    · simp [safe, h1, h2, h3, hb, hb2]

theorem safe_snoc (x : List Seg) (hx : safe 0 x = true) (s : Seg) (hs : s ≠ dotdot) : safe 0 (x ++ [s]) = true :=
  safe_append x [s] 0 hx (safe_single s hs 0)

theorem append_html_ne_dotdot (s : Str) : s ++ ".html".toList ≠ dotdot := by
  intro h
  have := congrArg List.length h
  simp [dotdot] at this

theorem identFile_ne_dotdot (n : Str) (k : Nat) : identFile n k ≠ dotdot := append_html_ne_dotdot _

theorem mkdirP_prefix (o : Path) : ∀ (k : Nat) (p : Path), p <+: o → ∀ q ∈ mkdirP p k, q.kind = .mk ∧ q.path <+: o := by
  intro k
  induction k with
  | zero => intro p hp q hq; simp [mkdirP] at hq; subst hq; exact ⟨rfl, hp⟩
  | succ k ih =>
    intro p hp q hq
    simp only [mkdirP, List.mem_cons, List.mem_append] at hq
    rcases hq with (rfl | h) | h
    · exact ⟨rfl, hp⟩
    · exact ih p.dropLast ((List.dropLast_prefix p).trans hp) q h
    · simp at h; subst h; exact ⟨rfl, hp⟩

theorem getLastD_ne_dotdot (p : Path) (hp : Normal p) : p.getLastD [] ≠ dotdot := by
  cases h : p.getLast? with
  | none =>
    have : p = [] := by simpa using h
    subst this
    simp [dotdot]
  | some x =>
    have hx : x ∈ p := List.mem_of_getLast? h
    have : p.getLastD [] = x := by
      simp [List.getLastD_eq_getLast?, h]
    rw [this]
    exact (hp x hx).1

end Ford.Fs

namespace Ford.Fs
open Ford

theorem mem_parents_iff' (o d : Path) : o ∈ parents d ↔ ∃ n, n < d.length ∧ o = d.take n := by
  simp [parents]
  constructor
  · rintro ⟨n, hn, rfl⟩; exact ⟨n, hn, rfl⟩
  · rintro ⟨n, hn, rfl⟩; exact ⟨n, hn, rfl⟩

/-- `o in d.parents` (pathlib) is strict containment, component by component -/
theorem mem_parents_iff_proper (o d : Path) : o ∈ parents d ↔ o <+: d ∧ o ≠ d := by
  rw [mem_parents_iff']
  constructor
  · rintro ⟨n, hn, rfl⟩
    refine ⟨List.take_prefix n d, ?_⟩
    intro h
    have := congrArg List.length h
    simp at this
    omega
  · rintro ⟨h, hne⟩
    have hlen := h.length_le
    have ht := List.prefix_iff_eq_take.1 h
    refine ⟨o.length, ?_, ht⟩
    rcases Nat.lt_or_ge o.length d.length with hl | hl
    · exact hl
    · exfalso
      apply hne
      rw [ht, List.take_of_length_le hl]

theorem joinRaw_rel (base : Path) (s : Str) (h : s.head? ≠ some '/') : joinRaw base s = base ++ splitSlash s := by
  unfold joinRaw
  split
  · simp at h
  · rfl

theorem pcopyOps_under (c : Cfg) (o : Path) (to : List Seg) (created : List Path) (pc : PCopy)
    (hd : c.repaired = true ∨ o <+: norm (joinRaw to pc.item))
    (ht : ∀ t, pc.tree = some t → TreeOk t) : Under o (pcopyOps c o to created pc) := by
  unfold pcopyOps
  simp only
  split
  · exact Under.nil
  · rename_i hg
    have ho : o <+: norm (joinRaw to pc.item) := by
      rcases hd with h | h
      · simp [h, guardAccepts] at hg
        exact (mem_parents_iff_proper _ _).1 hg |>.1
      · exact h
    split
    · exact Under.nil
    · rename_i t htree
      split
      · intro p hp; simp at hp; subst hp; exact ho
      · exact Under.trans ho (copyTree_under _ (norm_normal _) t (ht t htree))

theorem pcopiesOps_under (c : Cfg) (o : Path) (to : List Seg) (cs : List PCopy)
    (h : ∀ pc ∈ cs, (c.repaired = true ∨ o <+: norm (joinRaw to pc.item)) ∧ ∀ t, pc.tree = some t → TreeOk t) :
    ∀ created, Under o (pcopiesOps c o to created cs) := by
  induction cs with
  | nil => intro _; simp [pcopiesOps]; exact Under.nil
  | cons pc r ih =>
    intro created
    simp only [pcopiesOps]
    exact Under.append (pcopyOps_under c o to created pc (h pc (by simp)).1 (h pc (by simp)).2)
      (ih (fun q hq => h q (by simp [hq])) _)

def PageOk (c : Cfg) (pg : Page) : Prop :=
  safe 0 pg.loc = true ∧ (∀ f ∈ pg.files, safeRel f = true) ∧
  (∀ pc ∈ pg.copies, ∀ t, pc.tree = some t → TreeOk t) ∧
  (c.repaired = true ∨ ∀ pc ∈ pg.copies, copyEscapes pg pc = false)

theorem pageOps_under (c : Cfg) (o : Path) (ho : Normal o) (created : List Path) (pg : Page) (h : PageOk c pg) :
    Under o (pageOps c o created pg) := by
  obtain ⟨hloc, hfiles, htrees, hesc⟩ := h
  have hrel : safe 0 ("page".toList :: pg.loc) = true :=
    safe_cons _ (by decide) _ hloc
  have hto : o ++ ["page".toList] ++ pg.loc = o ++ ("page".toList :: pg.loc) := by simp
  unfold pageOps
  simp only [hto]
  refine Under.append (Under.append (Under.append ?_ ?_) ?_) ?_
  · split
    · intro p hp; simp at hp; subst hp; exact under_join o ho _ hrel
    · exact Under.nil
  · intro p hp
    simp at hp; subst hp
    have := under_join o ho _ (safe_snoc _ hrel (pg.stem ++ ".html".toList) (append_html_ne_dotdot _))
    simpa using this
  · apply pcopiesOps_under
    intro pc hpc
    refine ⟨?_, htrees pc hpc⟩
    rcases hesc with h | h
    · exact Or.inl h
    · right
      have he := h pc hpc
      simp [copyEscapes] at he
      rw [joinRaw_rel _ _ he.1]
      have := under_join o ho _ he.2
      simpa using this
  · apply Under.flatMap
    intro f hf
    apply copyFile_under
    have := under_join o ho _ (safe_append _ _ 0 hrel (hfiles f hf))
    simpa using this

theorem pagesOps_under (c : Cfg) (o : Path) (ho : Normal o) (pgs : List Page) (h : ∀ pg ∈ pgs, PageOk c pg) :
    ∀ created, Under o (pagesOps c o created pgs) := by
  induction pgs with
  | nil => intro _; simp [pagesOps]; exact Under.nil
  | cons pg r ih =>
    intro created
    simp only [pagesOps]
    exact Under.append (pageOps_under c o ho created pg (h pg (by simp))) (ih (fun q hq => h q (by simp [hq])) _)

end Ford.Fs

namespace Ford.Fs
open Ford

def AllAllowed (o : Path) (g : Option Path) (l : List Prim) : Prop := ∀ p ∈ l, Allowed o g p

theorem AllAllowed.append {o g} {a b : List Prim} (ha : AllAllowed o g a) (hb : AllAllowed o g b) :
    AllAllowed o g (a ++ b) := by
  intro p hp
  rcases List.mem_append.1 hp with h | h
  · exact ha p h
  · exact hb p h

theorem AllAllowed.nil {o g} : AllAllowed o g [] := by intro p hp; cases hp

theorem AllAllowed.of_under {o g} {l : List Prim} (h : Under o l) : AllAllowed o g l :=
  fun p hp => Or.inl (h p hp)

theorem AllAllowed.of_under_g {o gd} {l : List Prim} (h : Under gd l) : AllAllowed o (some gd) l :=
  fun p hp => Or.inr (Or.inl ⟨gd, rfl, h p hp⟩)

theorem tables_safe : (∀ d ∈ Generated.C19.outDirs, safeRel d = true) ∧ (∀ d ∈ Generated.C19.libDirs, safeRel d = true) ∧
    (∀ d ∈ Generated.C19.listPages, safeRel d = true) ∧ (∀ d ∈ Generated.C19.fixedNames, safeRel d = true) := by
  decide

theorem graphOps_under (skip : List Path) (g : Path) (hg : Normal g) (n : Str) (h1 : '/' ∉ n) (h2 : n ≠ dotdot) :
    Under g (graphOps skip g n) := by
  unfold graphOps
  split
  · exact Under.nil
  have hx : ∀ ext : Str, ext.length = 3 ∨ ext.length = 4 → '/' ∉ ext → g <+: sub g (n ++ ext) := by
    intro ext hl he
    apply under_sub g hg
    apply safeRel_of_no_slash
    · simp [h1, he]
    · intro h
      have := congrArg List.length h
      simp [dotdot] at this
      omega
  intro p hp
  simp at hp
  rcases hp with rfl | rfl | rfl | rfl | rfl
  · exact List.prefix_refl _
  · exact under_sub g hg n (safeRel_of_no_slash n h1 h2)
  · exact hx _ (Or.inr (by decide)) (by decide)
  · exact under_sub g hg n (safeRel_of_no_slash n h1 h2)
  · exact hx _ (Or.inl (by decide)) (by decide)

theorem writeOpsW_allowed (sk : Bool) (c : Cfg) (s : Site) (hl : LinksOk c.links) (hs : SiteOk s)
    (hv : c.repaired = true ∨ noEscape s = true) :
    AllAllowed (outDir c) (graphDir c) (writeOpsW sk c s) := by
  have ho : Normal (outDir c) := resolve_normal _ hl _
  have hsub : ∀ rel, safeRel rel = true → outDir c <+: sub (outDir c) rel := fun rel h => under_sub _ ho rel h
  have hct : ∀ rel t, safeRel rel = true → TreeOk t → Under (outDir c) (copyTree (sub (outDir c) rel) t) :=
    fun rel t h ht => Under.trans (hsub rel h) (copyTree_under _ (norm_normal _) t ht)
  unfold writeOpsW
  simp only
  -- peel the blocks from the end
  apply AllAllowed.append; rotate_left
  · apply AllAllowed.of_under; split
    · intro p hp; simp at hp; subst hp; exact hsub _ (by decide)
    · exact Under.nil
  apply AllAllowed.append; rotate_left
  · apply AllAllowed.of_under
    intro p hp; simp at hp
    rcases hp with rfl | rfl <;> exact hsub _ (by decide)
  apply AllAllowed.append; rotate_left
  · apply AllAllowed.of_under
    apply pagesOps_under _ _ ho
    intro pg hpg
    obtain ⟨h1, h3, h4⟩ := hs.pages pg hpg
    refine ⟨h1, h3, h4, ?_⟩
    rcases hv with h | h
    · exact Or.inl h
    · right
      intro pc hpc
      simp [noEscape] at h
      simpa using h pg hpg pc hpc
  apply AllAllowed.append; rotate_left
  · apply AllAllowed.of_under
    apply Under.map
    intro l hl'
    have := under_join _ ho _ (safe_cons "lists".toList (by decide) _ (hs.lists l hl'))
    simpa using this
  apply AllAllowed.append; rotate_left
  · apply AllAllowed.of_under
    apply Under.map
    intro d hd
    have := under_join _ ho _ (safe_snoc _ (hs.docs d hd) (identFile d.2.1 d.2.2) (identFile_ne_dotdot _ _))
    simpa [safeRel] using this
  apply AllAllowed.append; rotate_left
  · apply AllAllowed.of_under
    split
    · rename_i m _
      have hmj := hsub "js/MathJax-config".toList (by decide)
      intro p hp
      simp only [List.mem_cons] at hp
      rcases hp with rfl | hp
      · exact hmj
      · refine copyFile_under _ _ (hmj.trans ?_) p hp
        exact under_of_safe _ (norm_normal _) _
          (safe_single _ (getLastD_ne_dotdot _ (resolve_normal _ hl _)) 0)
    · exact Under.nil
  apply AllAllowed.append; rotate_left
  · apply AllAllowed.of_under
    split
    · apply Under.flatMap
      intro n hn
      apply copyFile_under
      have := under_join _ ho _ (safe_two "src".toList (baseName n) ⟨by decide, by decide, by decide⟩)
      simpa using this
    · exact Under.nil
  apply AllAllowed.append; rotate_left
  · exact AllAllowed.of_under (copyFile_under _ _ (hsub _ (by decide)))
  apply AllAllowed.append; rotate_left
  · apply AllAllowed.of_under; split
    · exact copyFile_under _ _ (hsub _ (by decide))
    · exact Under.nil
  apply AllAllowed.append; rotate_left
  · apply AllAllowed.of_under; split
    · rename_i t ht
      exact hct _ t (by decide) (hs.media t ht)
    · exact Under.nil
  apply AllAllowed.append; rotate_left
  · apply AllAllowed.of_under; split
    · apply Under.append (hct _ _ (by decide) hs.search)
      intro p hp; simp at hp; subst hp; exact hsub _ (by decide)
    · exact Under.nil
  apply AllAllowed.append; rotate_left
  · split
    · cases hg : graphDir c with
      | none => simp; exact AllAllowed.nil
      | some g =>
        have hgN : Normal g := by
          simp [graphDir] at hg
          obtain ⟨raw, _, rfl⟩ := hg
          exact resolve_normal _ hl _
        simp only
        apply AllAllowed.append
        · intro p hp
          obtain ⟨hk, hpre⟩ := mkdirP_prefix g c.gMissing g (List.prefix_refl _) p hp
          exact Or.inr (Or.inr ⟨hk, Or.inr ⟨g, rfl, hpre⟩⟩)
        · apply AllAllowed.of_under_g
          apply Under.flatMap
          intro n hn
          exact graphOps_under _ g hgN n (hs.graphs n hn).1 (hs.graphs n hn).2
    · exact AllAllowed.nil
  apply AllAllowed.append; rotate_left
  · apply AllAllowed.of_under
    apply Under.flatMap
    intro l hl'
    obtain ⟨hz1, hz2⟩ := List.of_mem_zip hl'
    exact hct _ _ (tables_safe.2.1 _ hz1) (hs.libs _ hz2)
  apply AllAllowed.append; rotate_left
  · apply AllAllowed.of_under
    apply Under.map
    intro d hd
    exact hsub _ (tables_safe.1 d hd)
  apply AllAllowed.append
  · apply AllAllowed.of_under
    split <;> (intro p hp; simp at hp; subst hp; exact List.prefix_refl _)
  · intro p hp
    obtain ⟨hk, hpre⟩ := mkdirP_prefix (outDir c) c.outMissing (outDir c) (List.prefix_refl _) p hp
    exact Or.inr (Or.inr ⟨hk, Or.inl hpre⟩)

theorem writeOps_allowed (c : Cfg) (s : Site) (hl : LinksOk c.links) (hs : SiteOk s)
    (hv : c.repaired = true ∨ noEscape s = true) :
    AllAllowed (outDir c) (graphDir c) (writeOps c s) := writeOpsW_allowed _ c s hl hs hv

theorem runW_allowed (sk : Bool) (c : Cfg) (s : Site) (hl : LinksOk c.links) (hs : SiteOk s)
    (hv : c.repaired = true ∨ noEscape s = true) :
    AllAllowed (outDir c) (graphDir c) (runW sk c s) := by
  unfold runW
  split
  · exact AllAllowed.nil
  · exact writeOpsW_allowed sk c s hl hs hv

/-! ### stale symbolic links and the physical resolution of the attempts -/

theorem followAux_nil (st r : List Seg) : followAux [] st r = st.reverse ++ r := by
  induction r generalizing st with
  | nil => simp [followAux]
  | cons s r ih => simp [followAux, ih]

/-- without symbolic links the OS performs an attempt where its (lexically resolved) path says -/
theorem physical_nil (k : PK) (p : Path) : physical [] k p = p := by
  unfold physical
  simp only [List.map_nil, followAux_nil, List.reverse_nil, List.nil_append]
  split
  · rfl
  · split
    · rename_i last h
      rw [List.getLast?_eq_some_iff] at h
      obtain ⟨ys, rfl⟩ := h
      simp
    · rename_i h
      exact (List.getLast?_eq_none_iff.1 h).symm

/-- removing the output directory itself leaves none of the links that were below it, provided
    every removal succeeds -/
theorem survivorsW_whole (c : Cfg) (hin : ∀ l ∈ c.old, outDir c <+: l.loc) (hk : ∀ l ∈ c.old, l.kept = false) :
    survivorsW true c = [] := by
  unfold survivorsW
  rw [List.filter_eq_nil_iff]
  intro l hl
  have h1 : (outDir c).isPrefixOf l.loc = true := List.isPrefixOf_iff_prefix.2 (hin l hl)
  simp [h1, hk l hl]

theorem map_physical_nil (r : List Prim) : r.map (fun p => (⟨p.kind, physical [] p.kind p.path⟩ : Prim)) = r := by
  induction r with
  | nil => rfl
  | cons p r ih => simp [physical_nil]

end Ford.Fs

namespace Ford.Fs
open Ford

theorem mem_parents_iff (o d : Path) : o ∈ parents d ↔ ∃ n, n < d.length ∧ o = d.take n := by
  simp [parents]
  constructor
  · rintro ⟨n, hn, rfl⟩; exact ⟨n, hn, rfl⟩
  · rintro ⟨n, hn, rfl⟩; exact ⟨n, hn, rfl⟩

theorem self_or_parent_iff (o d : Path) : (d :: parents d).contains o = true ↔ o <+: d := by
  rw [List.contains_iff_mem, List.mem_cons, mem_parents_iff]
  constructor
  · rintro (rfl | ⟨n, _, rfl⟩)
    · exact List.prefix_refl _
    · exact List.take_prefix n d
  · intro h
    have hlen := h.length_le
    have ht := List.prefix_iff_eq_take.1 h
    by_cases hl : o.length < d.length
    · exact Or.inr ⟨o.length, hl, ht⟩
    · left
      have : d.length ≤ o.length := by omega
      rw [ht, List.take_of_length_le this]

theorem refuses_iff (c : Cfg) : refuses c = true ↔ ∃ d ∈ srcDirsN c, outDir c <+: d := by
  simp only [refuses, List.any_eq_true]
  constructor
  · rintro ⟨d, hd, h⟩; exact ⟨d, hd, (self_or_parent_iff _ _).1 h⟩
  · rintro ⟨d, hd, h⟩; exact ⟨d, hd, (self_or_parent_iff _ _).2 h⟩

end Ford.Fs
