import FordModel.Fs
namespace Ford.Fs
open Ford

/-! ### norm / resolve produce normal paths -/

theorem normal_tail {st : List Seg} (h : Normal st) : Normal st.tail := by
  intro s hs
  exact h s (List.mem_of_mem_tail hs)

theorem normal_cons {st : List Seg} {s : Seg} (h : Normal st) (hs : Clean s) : Normal (s :: st) := by
  intro t ht
  rcases List.mem_cons.1 ht with rfl | ht
  · exact hs
  · exact h t ht

theorem normAux_normal (st x : List Seg) (h : Normal st) : Normal (normAux st x) := by
  induction x generalizing st with
  | nil => intro s hs; exact h s (by simpa [normAux] using hs)
  | cons s r ih =>
    by_cases h1 : s = dotdot
    · simpa [normAux, h1] using ih _ (normal_tail h)
    · by_cases h2 : s = dot ∨ s = []
      · simpa [normAux, h1, h2] using ih _ h
      · simpa [normAux, h1, h2] using ih _ (normal_cons h ⟨h1, by simpa using h2⟩)

theorem norm_normal (x : List Seg) : Normal (norm x) :=
  normAux_normal [] x (by intro s hs; cases hs)

def LinksOk (links : List (Path × Path)) : Prop := ∀ e ∈ links, Normal e.2

theorem lookup_mem {α β} [BEq α] [LawfulBEq α] (l : List (α × β)) (k : α) (v : β)
    (h : l.lookup k = some v) : (k, v) ∈ l := by
  induction l with
  | nil => simp at h
  | cons e r ih =>
    obtain ⟨a, b⟩ := e
    by_cases hk : k == a
    · have : k = a := by simpa using hk
      subst this
      simp [List.lookup] at h
      simp [h]
    · simp [List.lookup, hk] at h
      exact List.mem_cons_of_mem _ (ih h)

theorem resolveAux_normal (links : List (Path × Path)) (hl : LinksOk links) (st x : List Seg)
    (h : Normal st) : Normal (resolveAux links st x) := by
  induction x generalizing st with
  | nil => intro s hs; exact h s (by simpa [resolveAux] using hs)
  | cons s r ih =>
    by_cases h1 : s = dotdot
    · simpa [resolveAux, h1] using ih _ (normal_tail h)
    · by_cases h2 : s = dot ∨ s = []
      · simpa [resolveAux, h1, h2] using ih _ h
      · cases ht : links.lookup (s :: st).reverse with
        | none =>
          have := ih _ (normal_cons h ⟨h1, by simpa using h2⟩)
          simp only [resolveAux, h1, h2, if_false, ht]
          exact this
        | some t =>
          have hn : Normal t.reverse := by
            intro u hu
            exact hl _ (lookup_mem _ _ _ ht) u (by simpa using hu)
          have := ih _ hn
          simp only [resolveAux, h1, h2, if_false, ht]
          exact this

theorem resolve_normal (links : List (Path × Path)) (hl : LinksOk links) (x : List Seg) :
    Normal (resolve links x) :=
  resolveAux_normal links hl [] x (by intro s hs; cases hs)

/-! ### the prefix lemma -/

/-- pushing a normal path onto the stack -/
theorem normAux_append_normal (o : Path) (ho : Normal o) (st x : List Seg) :
    normAux st (o ++ x) = normAux (o.reverse ++ st) x := by
  induction o generalizing st with
  | nil => simp
  | cons s o ih =>
    have hs : Clean s := ho s (by simp)
    have ho' : Normal o := fun t ht => ho t (by simp [ht])
    obtain ⟨h1, h2, h3⟩ := hs
    simp [normAux, h1, h2, h3, ih ho']

/-- walking `x` from `y.length` segments below `o` with `safe` never leaves `o` -/
theorem normAux_under (o : Path) (x : List Seg) : ∀ (y : List Seg), safe y.length x = true →
    ∃ z, normAux (y ++ o.reverse) x = o ++ z := by
  induction x with
  | nil => intro y _; exact ⟨y.reverse, by simp [normAux]⟩
  | cons s r ih =>
    intro y hy
    by_cases h1 : s = dotdot
    · subst h1
      cases y with
      | nil => simp [safe] at hy
      | cons a y' =>
        simp [safe] at hy
        simpa [normAux] using ih y' hy
    · by_cases h2 : s = dot ∨ s = []
      · simp [safe, h1, h2] at hy
        simpa [normAux, h1, h2] using ih y hy
      · simp [safe, h1, h2] at hy
        have := ih (s :: y) (by simpa using hy)
        simpa [normAux, h1, h2] using this

/-- **prefix lemma**: joining a non-climbing relative path to a normal base and
    resolving it lexically stays below the base. -/
theorem under_of_safe (o : Path) (ho : Normal o) (x : List Seg) (hx : safe 0 x = true) :
    o <+: norm (o ++ x) := by
  obtain ⟨z, hz⟩ := normAux_under o x [] (by simpa using hx)
  refine ⟨z, ?_⟩
  simp [norm, normAux_append_normal o ho, ← hz]

theorem safe_mono (x : List Seg) : ∀ k, safe k x = true → safe (k + 1) x = true := by
  induction x with
  | nil => intro k _; simp [safe]
  | cons s r ih =>
    intro k h
    by_cases h1 : s = dotdot
    · subst h1
      cases k with
      | zero => simp [safe] at h
      | succ k => simp [safe] at h ⊢; exact ih k h
    · by_cases h2 : s = dot ∨ s = []
      · simp [safe, h1, h2] at h ⊢; exact ih k h
      · simp [safe, h1, h2] at h ⊢; exact ih (k + 1) h

theorem safe_zero_of_le (x : List Seg) (k : Nat) (h : safe 0 x = true) : safe k x = true := by
  induction k with
  | zero => exact h
  | succ k ih => exact safe_mono _ _ ih

theorem safe_append (x y : List Seg) : ∀ k, safe k x = true → safe 0 y = true → safe k (x ++ y) = true := by
  induction x with
  | nil =>
    intro k _ hy
    simpa using safe_zero_of_le y k hy
  | cons s r ih =>
    intro k h hy
    by_cases h1 : s = dotdot
    · subst h1
      cases k with
      | zero => simp [safe] at h
      | succ k => simp [safe] at h ⊢; exact ih k h hy
    · by_cases h2 : s = dot ∨ s = []
      · simp [safe, h1, h2] at h ⊢; exact ih k h hy
      · simp [safe, h1, h2] at h ⊢; exact ih (k + 1) h hy

theorem under_sub (o : Path) (ho : Normal o) (rel : Str) (h : safeRel rel = true) : o <+: sub o rel :=
  under_of_safe o ho _ h

/-- one clean segment cannot climb -/
theorem safe_single (s : Seg) (h : s ≠ dotdot) (k : Nat) : safe k [s] = true := by
  by_cases h2 : s = dot ∨ s = []
  · simp [safe, h, h2]
  · simp [safe, h, h2]

/-! ### splitSlash -/

theorem splitSlashAux_no_slash (s cur : Str) (h : '/' ∉ s) : splitSlashAux s cur = [cur.reverse ++ s] := by
  induction s generalizing cur with
  | nil => simp [splitSlashAux]
  | cons c cs ih =>
    have hc : c ≠ '/' := fun e => h (by simp [e])
    have hcs : '/' ∉ cs := fun e => h (by simp [e])
    simp [splitSlashAux, hc, ih _ hcs]

theorem splitSlash_no_slash (s : Str) (h : '/' ∉ s) : splitSlash s = [s] := by
  simp [splitSlash, splitSlashAux_no_slash s [] h]

theorem safeRel_of_no_slash (s : Str) (h : '/' ∉ s) (h2 : s ≠ dotdot) : safeRel s = true := by
  simp [safeRel, splitSlash_no_slash s h, safe_single s h2]

/-! ### NameSelector.get_name -/

theorem replaceChar_removes (c : Char) (r s : Str) (hr : c ∉ r) : c ∉ replaceChar c r s := by
  induction s with
  | nil => simp [replaceChar]
  | cons x xs ih =>
    by_cases hx : x = c
    · simp [replaceChar, hx, hr, ih]
    · simp [replaceChar, hx, ih]; exact fun e => hx e.symm

theorem replaceChar_keeps (c d : Char) (r s : Str) (hr : d ∉ r) (hs : d ∉ s) : d ∉ replaceChar c r s := by
  induction s with
  | nil => simp [replaceChar]
  | cons x xs ih =>
    have hx : d ≠ x := fun e => hs (by simp [e])
    have hxs : d ∉ xs := fun e => hs (by simp [e])
    by_cases hc : x = c
    · simp [replaceChar, hc, hr, ih hxs]
    · simp [replaceChar, hc, ih hxs, hx]

theorem sanitize_keeps (tbl : List (Char × Str)) (d : Char) (h : ∀ e ∈ tbl, d ∉ e.2) (s : Str) (hs : d ∉ s) :
    d ∉ sanitize tbl s := by
  induction tbl generalizing s with
  | nil => simpa [sanitize] using hs
  | cons e r ih =>
    have := ih (fun e he => h e (by simp [he])) (replaceChar e.1 e.2 s)
      (replaceChar_keeps _ _ _ _ (h e (by simp)) hs)
    simpa [sanitize] using this

/-- if the table replaces `d` and no replacement text contains `d`, the result is free of `d` -/
theorem sanitize_removes (tbl : List (Char × Str)) (d : Char) (h : ∀ e ∈ tbl, d ∉ e.2)
    (hk : ∃ e ∈ tbl, e.1 = d) (s : Str) : d ∉ sanitize tbl s := by
  induction tbl generalizing s with
  | nil => obtain ⟨e, he, _⟩ := hk; cases he
  | cons e r ih =>
    have hr : ∀ e ∈ r, d ∉ e.2 := fun e he => h e (by simp [he])
    by_cases he : e.1 = d
    · have h1 : d ∉ replaceChar e.1 e.2 s := by
        rw [he]; exact replaceChar_removes d e.2 s (h e (by simp))
      have := sanitize_keeps r d hr _ h1
      simpa [sanitize] using this
    · obtain ⟨e', he', hd⟩ := hk
      rcases List.mem_cons.1 he' with rfl | he'
      · exact absurd hd he
      · have := ih hr ⟨e', he', hd⟩ (replaceChar e.1 e.2 s)
        simpa [sanitize] using this

end Ford.Fs
