/-
  C09 — lemmas about graph node URLs (`GraphUrl.lean`).
-/
import FordModel.GraphUrl
import FordModel.Lemmas.Path
namespace Ford.GraphUrl
open Ford Ford.Path

/-- one step up from a directory directly below the root, then down a normal path -/
theorem resolve_up_from_depth_one (base : List Seg) (pd : Seg) (u : List Seg)
    (hb : Normal base) (hpd : NormalSeg pd) (hu : Normal u) :
    resolve (base ++ [pd]) (up :: u) = base ++ u := by
  have hbp : Normal (base ++ [pd]) := normal_append hb (by intro x hx; simp at hx; exact hx ▸ hpd)
  unfold resolve norm
  rw [List.foldl_append, foldl_normal _ [] hbp, List.foldl_cons]
  have hstep : normStep ((base ++ [pd]).reverse ++ []) up = base.reverse := by
    simp [normStep, up, cur]
  rw [hstep, foldl_normal u _ hu]
  simp

theorem nodeUrl_some (T : Tables) (n : Node) (r : List Seg) (h : nodeUrl T n = some r) :
    shown T n = true ∧ ∃ u, n.url = some u ∧ u ≠ [] ∧
      (r = u ∧ (T.keepsForeign && (n.fromStr || n.external)) = true ∨
       r = T.parentDir ++ u ∧ (T.keepsForeign && (n.fromStr || n.external)) = false) := by
  unfold nodeUrl at h
  cases hu : n.url with
  | none => simp [hu] at h
  | some u =>
    simp only [hu] at h
    by_cases he : u = []
    · simp [he] at h
    · by_cases hs : shown T n = true
      · by_cases hk : (T.keepsForeign && (n.fromStr || n.external)) = true
        · simp [he, hs, hk] at h
          exact ⟨hs, u, rfl, he, Or.inl ⟨h.symm, hk⟩⟩
        · have hk' : (T.keepsForeign && (n.fromStr || n.external)) = false := by simpa using hk
          simp [he, hs, hk'] at h
          exact ⟨hs, u, rfl, he, Or.inr ⟨h.symm, hk'⟩⟩
      · simp [he, hs] at h

end Ford.GraphUrl
