import FordModel.Basic.Split
namespace Ford

theorem qsplitAux_ne_nil (sep : Char) (l : Str) (sq dq : Bool) (cur : Str) :
    qsplitAux sep l sq dq cur ≠ [] := by
  fun_induction qsplitAux sep l sq dq cur <;> simp_all

theorem joinSep_cons (sep : Char) (x : Str) (r : List Str) (h : r ≠ []) :
    joinSep sep (x :: r) = x ++ sep :: joinSep sep r := by
  cases r with
  | nil => exact absurd rfl h
  | cons y r => rfl

theorem join_qsplitAux (sep : Char) (l : Str) (sq dq : Bool) (cur : Str) :
    joinSep sep (qsplitAux sep l sq dq cur) = cur.reverse ++ l := by
  fun_induction qsplitAux sep l sq dq cur <;>
    simp_all [joinSep, joinSep_cons, qsplitAux_ne_nil]

end Ford
