/-
  Lemmas about the C17 model (FordModel/PageTree.lean).
-/
import FordModel.PageTree
import FordModel.PageTreeSpec
namespace Ford.PT
open Ford

/-! ## `sorted()` -/

theorem strLe_refl (a : Str) : strLe a a = true := by
  induction a with
  | nil => rfl
  | cons c cs ih => simp [strLe, ih]

theorem strLe_total (a b : Str) : strLe a b = true ∨ strLe b a = true := by
  induction a generalizing b with
  | nil => left; cases b <;> rfl
  | cons c cs ih =>
    cases b with
    | nil => right; rfl
    | cons d ds =>
      simp only [strLe]
      by_cases h1 : c.toNat < d.toNat
      · simp [h1]
      · by_cases h2 : d.toNat < c.toNat
        · simp [h2]
        · simp [h1, h2]; exact ih ds

theorem strLe_trans (a b c : Str) (h1 : strLe a b = true) (h2 : strLe b c = true) : strLe a c = true := by
  induction a generalizing b c with
  | nil => cases c <;> rfl
  | cons x xs ih =>
    cases b with
    | nil => simp [strLe] at h1
    | cons y ys =>
      cases c with
      | nil => simp [strLe] at h2
      | cons z zs =>
        simp only [strLe] at h1 h2 ⊢
        by_cases hxy : x.toNat < y.toNat
        · by_cases hyz : y.toNat < z.toNat
          · have : x.toNat < z.toNat := by omega
            simp [this]
          · by_cases hzy : z.toNat < y.toNat
            · simp [hyz, hzy] at h2
            · have : x.toNat < z.toNat := by omega
              simp [this]
        · by_cases hyx : y.toNat < x.toNat
          · simp [hxy, hyx] at h1
          · simp [hxy, hyx] at h1
            by_cases hyz : y.toNat < z.toNat
            · have : x.toNat < z.toNat := by omega
              simp [this]
            · by_cases hzy : z.toNat < y.toNat
              · simp [hyz, hzy] at h2
              · simp [hyz, hzy] at h2
                have e1 : ¬ x.toNat < z.toNat := by omega
                have e2 : ¬ z.toNat < x.toNat := by omega
                simp [e1, e2]
                exact ih ys zs h1 h2

/-- code-point order is antisymmetric -/
theorem strLe_antisymm (a b : Str) (h1 : strLe a b = true) (h2 : strLe b a = true) : a = b := by
  induction a generalizing b with
  | nil => cases b with
    | nil => rfl
    | cons d ds => simp [strLe] at h2
  | cons c cs ih =>
    cases b with
    | nil => simp [strLe] at h1
    | cons d ds =>
      simp only [strLe] at h1 h2
      by_cases hcd : c.toNat < d.toNat
      · have : ¬ d.toNat < c.toNat := by omega
        simp [hcd, this] at h2
      · by_cases hdc : d.toNat < c.toNat
        · simp [hcd, hdc] at h1
        · simp [hcd, hdc] at h1 h2
          have hc : c = d := by
            apply Char.ext
            apply UInt32.toNat_inj.mp
            show c.toNat = d.toNat
            omega
          rw [hc, ih ds h1 h2]

def Sorted (l : List Str) : Prop := l.Pairwise (fun a b => strLe a b = true)

theorem insertS_perm (x : Str) (l : List Str) : (insertS x l).Perm (x :: l) := by
  induction l with
  | nil => exact List.Perm.refl _
  | cons y ys ih =>
    simp only [insertS]
    split
    · exact List.Perm.refl _
    · exact (List.Perm.cons y ih).trans (List.Perm.swap x y ys)

theorem sortNames_perm (l : List Str) : (sortNames l).Perm l := by
  induction l with
  | nil => exact List.Perm.refl _
  | cons x xs ih => exact (insertS_perm x _).trans (List.Perm.cons x ih)

theorem mem_insertS (x y : Str) (l : List Str) : y ∈ insertS x l ↔ y = x ∨ y ∈ l := by
  rw [(insertS_perm x l).mem_iff]; simp

theorem mem_sortNames (x : Str) (l : List Str) : x ∈ sortNames l ↔ x ∈ l :=
  (sortNames_perm l).mem_iff

theorem insertS_sorted (x : Str) (l : List Str) (h : Sorted l) : Sorted (insertS x l) := by
  induction l with
  | nil => simp [insertS, Sorted]
  | cons y ys ih =>
    simp only [insertS]
    by_cases hxy : strLe x y = true
    · simp only [hxy, if_true]
      unfold Sorted at *
      rw [List.pairwise_cons] at h ⊢
      refine ⟨?_, List.pairwise_cons.mpr h⟩
      intro z hz
      rcases List.mem_cons.mp hz with rfl | hz
      · exact hxy
      · exact strLe_trans x y z hxy (h.1 z hz)
    · have hxy' : strLe x y = false := by simpa using hxy
      simp only [hxy', Bool.false_eq_true, if_false]
      have hyx : strLe y x = true := by
        rcases strLe_total x y with h' | h'
        · exact absurd h' hxy
        · exact h'
      unfold Sorted at *
      rw [List.pairwise_cons] at h ⊢
      refine ⟨?_, ih h.2⟩
      intro z hz
      rcases (mem_insertS x z ys).mp hz with rfl | hz
      · exact hyx
      · exact h.1 z hz

theorem sortNames_sorted (l : List Str) : Sorted (sortNames l) := by
  induction l with
  | nil => simp [sortNames, Sorted]
  | cons x xs ih => exact insertS_sorted x _ ih

theorem sortNames_nodup (l : List Str) (h : l.Nodup) : (sortNames l).Nodup :=
  (sortNames_perm l).nodup_iff.mpr h

/-! ## `OrderedDict.fromkeys` -/

theorem mem_dedup (x : Str) (l : List Str) : x ∈ dedup l ↔ x ∈ l := by
  induction l with
  | nil => simp [dedup]
  | cons y ys ih =>
    simp only [dedup, List.mem_cons, List.mem_filter, ih]
    by_cases h : x = y <;> simp [h]

theorem dedup_nodup (l : List Str) : (dedup l).Nodup := by
  induction l with
  | nil => simp [dedup]
  | cons y ys ih =>
    simp only [dedup, List.nodup_cons, List.mem_filter]
    refine ⟨by simp, ih.filter _⟩

theorem dedup_of_nodup (l : List Str) (h : l.Nodup) : dedup l = l := by
  induction l with
  | nil => rfl
  | cons y ys ih =>
    rw [List.nodup_cons] at h
    simp only [dedup, ih h.2]
    congr 1
    apply List.filter_eq_self.mpr
    intro a ha
    simp
    rintro rfl
    exact h.1 ha

theorem dedup_append (a b : List Str) :
    dedup (a ++ b) = dedup a ++ (dedup b).filter (fun y => !a.contains y) := by
  induction a with
  | nil =>
    simp only [List.nil_append, dedup, List.contains_nil, Bool.not_false]
    exact (List.filter_eq_self.mpr (by simp)).symm
  | cons x xs ih =>
    simp only [List.cons_append, dedup, ih, List.filter_append, List.filter_filter, List.cons.injEq, true_and]
    congr 1
    apply List.filter_congr
    intro y _
    by_cases h : y = x <;> simp [h]

end Ford.PT

namespace Ford.PT
open Ford Ford.Gen.C17

/-! ## `mergedfilelist` -/

theorem mem_erase_nodup (x a : Str) (l : List Str) (h : l.Nodup) : x ∈ l.erase a ↔ x ≠ a ∧ x ∈ l :=
  h.mem_erase_iff

theorem filelist_nodup (nms : List Str) (h : nms.Nodup) : ((sortNames nms).erase indexName).Nodup :=
  (sortNames_nodup nms h).erase _

/-- "ordered_subpage first, the rest alphabetically": with distinct directory entries the merged list is
    the first occurrences of the requested names followed by the sorted listing (without index.md)
    minus the requested names. -/
theorem mergedList_eq (ordered nms : List Str) (hn : nms.Nodup) :
    mergedList ordered nms =
      dedup (ordered.filter (fun x => x != indexName)) ++
        ((sortNames nms).erase indexName).filter
          (fun y => !(ordered.filter (fun x => x != indexName)).contains y) := by
  unfold mergedList
  by_cases h : (ordered.filter (fun x => x != indexName)).isEmpty = true
  · simp only [h, if_true]
    have : ordered.filter (fun x => x != indexName) = [] := List.isEmpty_iff.mp h
    rw [this]
    simp only [dedup, List.nil_append, List.contains_nil, Bool.not_false]
    exact (List.filter_eq_self.mpr (by simp)).symm
  · simp only [h]
    rw [dedup_append, dedup_of_nodup _ (filelist_nodup nms hn)]
    rfl

theorem mem_mergedList (x : Str) (ordered nms : List Str) (hn : nms.Nodup) :
    x ∈ mergedList ordered nms ↔ x ≠ indexName ∧ (x ∈ ordered ∨ x ∈ nms) := by
  rw [mergedList_eq ordered nms hn]
  simp only [List.mem_append, mem_dedup, List.mem_filter, mem_erase_nodup _ _ _ (sortNames_nodup nms hn),
    mem_sortNames]
  by_cases h1 : x = indexName <;> by_cases h2 : x ∈ ordered <;> simp [h1, h2]

theorem mergedList_nodup (ordered nms : List Str) (hn : nms.Nodup) : (mergedList ordered nms).Nodup := by
  rw [mergedList_eq ordered nms hn]
  rw [List.nodup_append]
  refine ⟨dedup_nodup _, (filelist_nodup nms hn).filter _, ?_⟩
  intro a ha b hb
  rw [mem_dedup] at ha
  rw [List.mem_filter] at hb
  rintro rfl
  simp at hb
  simp only [List.mem_filter] at ha
  rcases hb.2 with h | h
  · exact h ha.1
  · simp [h] at ha

end Ford.PT

namespace Ford.PT
open Ford Ford.Gen.C17

/-! ## paths: `os.path.relpath` against `normpath` -/

/-- a normalised path: no `..`, `.` or empty segments -/
def Plain (p : PathS) : Prop := ∀ s ∈ p, s ≠ dotdot ∧ s ≠ ['.'] ∧ s ≠ []

instance (p : PathS) : Decidable (Plain p) := by unfold Plain; infer_instance

theorem Plain.append {p q : PathS} (hp : Plain p) (hq : Plain q) : Plain (p ++ q) := by
  intro s hs
  rcases List.mem_append.mp hs with h | h
  · exact hp s h
  · exact hq s h

theorem Plain.drop {p : PathS} (hp : Plain p) (n : Nat) : Plain (p.drop n) :=
  fun s hs => hp s (List.mem_of_mem_drop hs)

theorem normAux_plain_append (acc p q : PathS) (hp : Plain p) :
    normAux acc (p ++ q) = normAux (p.reverse ++ acc) q := by
  induction p generalizing acc with
  | nil => rfl
  | cons s rest ih =>
    have hs := hp s (by simp)
    have hr : Plain rest := fun x hx => hp x (by simp [hx])
    have h1 : (s == dotdot) = false := by simpa using hs.1
    have h2 : (s == ['.']) = false := by simpa using hs.2.1
    have h3 : (s == []) = false := by simpa using hs.2.2
    simp only [List.cons_append, normAux, h1, h2, h3, Bool.false_eq_true, if_false, Bool.or_self]
    rw [ih _ hr]
    simp

theorem normAux_plain (acc p : PathS) (hp : Plain p) : normAux acc p = acc.reverse ++ p := by
  have := normAux_plain_append acc p [] hp
  simp only [List.append_nil] at this
  rw [this]
  simp [normAux]

theorem normAux_dots (acc : PathS) (n : Nat) (rest : PathS) :
    normAux acc (List.replicate n dotdot ++ rest) = normAux (acc.drop n) rest := by
  induction n generalizing acc with
  | zero => simp
  | succ k ih =>
    simp only [List.replicate_succ, List.cons_append, normAux, beq_self_eq_true, if_true]
    rw [ih]
    cases acc <;> simp

theorem commonLen_le_left (t s : PathS) : commonLen t s ≤ t.length := by
  fun_induction commonLen t s <;> simp_all <;> omega

theorem commonLen_le_right (t s : PathS) : commonLen t s ≤ s.length := by
  fun_induction commonLen t s <;> simp_all <;> omega

theorem take_commonLen (t s : PathS) : s.take (commonLen t s) = t.take (commonLen t s) := by
  fun_induction commonLen t s <;> simp_all

/-- the relative path computed by `relpath`, followed from `pre ++ start`, arrives at `pre ++ t` -/
theorem resolve_relpath (pre start t : PathS) (hpre : Plain pre) (hs : Plain start) (ht : Plain t) :
    norm (pre ++ start ++ relpath t start) = pre ++ t := by
  unfold norm relpath
  simp only []
  rw [normAux_plain_append [] (pre ++ start) _ (hpre.append hs), normAux_dots,
    normAux_plain _ _ (ht.drop _)]
  have hc := commonLen_le_right t start
  simp only [List.append_nil, List.drop_reverse, List.reverse_reverse, List.length_append]
  have : pre.length + start.length - (start.length - commonLen t start) = pre.length + commonLen t start := by omega
  rw [this, List.take_append, List.take_of_length_le (by omega : pre.length ≤ pre.length + commonLen t start)]
  simp only [Nat.add_sub_cancel_left, List.append_assoc]
  rw [take_commonLen, List.take_append_drop]

theorem relpath_roundtrip (start t : PathS) (hs : Plain start) (ht : Plain t) :
    resolveFrom start (relpath t start) = t := by
  have := resolve_relpath [] start t (by intro s hs; cases hs) hs ht
  simpa [resolveFrom] using this

/-- `relpath` only looks at what follows the common prefix -/
theorem commonLen_prefix (pre t s : PathS) : commonLen (pre ++ t) (pre ++ s) = pre.length + commonLen t s := by
  induction pre with
  | nil => simp
  | cons x xs ih => simp [commonLen, ih]; omega

theorem relpath_prefix (pre t s : PathS) : relpath (pre ++ t) (pre ++ s) = relpath t s := by
  unfold relpath
  simp only [commonLen_prefix, List.length_append]
  have : pre.length + s.length - (pre.length + commonLen t s) = s.length - commonLen t s := by omega
  rw [this, List.drop_append]
  simp [List.drop_of_length_le (by omega : pre.length ≤ pre.length + commonLen t s)]

theorem properPrefix_append (base rest : PathS) (h : rest ≠ []) : properPrefix base (base ++ rest) = true := by
  induction base with
  | nil => cases rest with
    | nil => exact absurd rfl h
    | cons a as => rfl
  | cons b bs ih => simp [properPrefix, ih]

end Ford.PT

namespace Ford.PT
open Ford Ford.Gen.C17

/-! ## the loop of `get_page_tree`, name by name -/

theorem walk_eq (v : Variant) (pc : Option (List Str)) (loc : PathS) (rs : List (Str × Bool × Res))
    (l : List Str) :
    walk v pc loc rs l =
      match l.findSome? (abortAt v pc loc rs) with
      | some p => .abort p
      | none => .ok (l.filterMap (pageAt v pc rs)) (l.filter (fileAt v pc rs)) := by
  fun_induction walk v pc loc rs l <;>
    simp_all [abortAt, pageAt, fileAt, Walk.consSub, Walk.consFile, List.findSome?_cons]
  · rename_i r hs hl h _
    cases r <;> simp [pageAt, fileAt, hs, hl, h.2]
  · rename_i d _ _ h _
    cases d <;> simp_all
  · rename_i hs h hl _
    cases hfs : List.findSome? (abortAt v pc loc rs) _ <;> simp [List.filter_cons, fileAt, hs, hl]
    exact h
  · rename_i hs h hl _
    cases hfs : List.findSome? (abortAt v pc loc rs) _ <;> simp

end Ford.PT

namespace Ford.PT
open Ford Ford.Gen.C17

/-! ## induction over directory trees -/

mutual
theorem entry_ind_aux {P : Entry → Prop} (hf : ∀ n m, P (.file n m))
    (hd : ∀ n cs, (∀ c ∈ cs, P c) → P (.dir n cs)) : (e : Entry) → P e
  | .file n m => hf n m
  | .dir n cs => hd n cs (entries_ind_aux hf hd cs)
theorem entries_ind_aux {P : Entry → Prop} (hf : ∀ n m, P (.file n m))
    (hd : ∀ n cs, (∀ c ∈ cs, P c) → P (.dir n cs)) : (cs : List Entry) → ∀ c ∈ cs, P c
  | [] => fun _ h => by cases h
  | e :: es => fun c h =>
    (List.mem_cons.mp h).elim (fun heq => heq ▸ entry_ind_aux hf hd e)
      (fun h' => entries_ind_aux hf hd es c h')
end

theorem lookupRes_entriesRes (v : Variant) (own : List Str) (hier : List (PathS × Str)) (loc : PathS)
    (sibs cs : List Entry) (n : Str) :
    lookupRes n (entriesRes v own hier loc sibs cs) =
      (findEntry n cs).map (fun e => (e.isDir, entryRes v own hier loc sibs e)) := by
  induction cs with
  | nil => simp [entriesRes, lookupRes, findEntry]
  | cons e es ih =>
    simp only [entriesRes, lookupRes, findEntry]
    by_cases h : (e.name == n) = true
    · simp [h]
    · simp [h, ih]

theorem findEntry_some {n : Str} {cs : List Entry} {e : Entry} (h : findEntry n cs = some e) :
    e ∈ cs ∧ e.name = n := by
  induction cs with
  | nil => simp [findEntry] at h
  | cons c cs ih =>
    simp only [findEntry] at h
    by_cases hc : (c.name == n) = true
    · simp [hc] at h
      subst h
      exact ⟨by simp, by simpa using hc⟩
    · simp [hc] at h
      have := ih h
      exact ⟨by simp [this.1], this.2⟩

theorem findEntry_none {n : Str} {cs : List Entry} (h : findEntry n cs = none) : n ∉ names cs := by
  induction cs with
  | nil => simp [names]
  | cons c cs ih =>
    simp only [findEntry] at h
    by_cases hc : (c.name == n) = true
    · simp [hc] at h
    · simp [hc] at h
      have := ih h
      simp only [names, List.map_cons, List.mem_cons, not_or] at this ⊢
      exact ⟨fun e => hc (by simp [e]), this⟩

theorem findEntry_of_mem {cs : List Entry} {e : Entry} (hn : (names cs).Nodup) (he : e ∈ cs) :
    findEntry e.name cs = some e := by
  induction cs with
  | nil => cases he
  | cons c cs ih =>
    simp only [names, List.map_cons, List.nodup_cons] at hn
    simp only [findEntry]
    rcases List.mem_cons.mp he with rfl | h
    · simp
    · have : c.name ≠ e.name := fun heq => hn.1 (heq ▸ List.mem_map_of_mem (f := Entry.name) h)
      simp [this]
      exact ih hn.2 h

/-! ## a dangling `ordered_subpage` entry -/

/-- with the repair (warn and continue) nothing ever aborts -/
theorem entryRes_skips_no_abort (v : Variant) (hv : v.mo = .skips) (e : Entry) :
    ∀ own hier loc sibs p, entryRes v own hier loc sibs e ≠ .abort p := by
  induction e using entry_ind_aux with
  | hf n m =>
    intro own hier loc sibs p
    simp only [entryRes]
    split
    · split <;> simp
    · simp
  | hd n cs ih =>
    intro own hier loc sibs p
    simp only [entryRes]
    split
    · simp
    · rename_i m t _
      rw [walk_eq]
      have hnone : List.findSome? (abortAt v (some own) (loc ++ [n])
          (entriesRes v m.copySub (hier ++ [(loc ++ [n], t)]) (loc ++ [n]) cs cs))
          (mergedList m.ordered (names cs)) = none := by
        rw [List.findSome?_eq_none_iff]
        intro x _
        unfold abortAt
        split
        · rfl
        · rw [lookupRes_entriesRes]
          cases hfe : findEntry x cs with
          | none => simp [hv]
          | some c =>
            have hc := (findEntry_some hfe).1
            simp only [Option.map_some]
            split
            · rename_i heq; cases heq
            · rename_i d q heq
              simp only [Option.some.injEq, Prod.mk.injEq] at heq
              exact absurd heq.2 (ih c hc _ _ _ _ q)
            · rfl
      simp [hnone]

/-- as the code is: nothing aborts when every `ordered_subpage` item exists -/
theorem entryRes_orderedOk_no_abort (v : Variant) (e : Entry) :
    ∀ own hier loc sibs p, wfEntry e = true → orderedOk e = true →
      entryRes v own hier loc sibs e ≠ .abort p := by
  induction e using entry_ind_aux with
  | hf n m =>
    intro own hier loc sibs p _ _
    simp only [entryRes]
    split
    · split <;> simp
    · simp
  | hd n cs ih =>
    intro own hier loc sibs p hwf hok
    simp only [entryRes]
    split
    · simp
    · rename_i m t hidx
      rw [walk_eq]
      simp only [wfEntry, Bool.and_eq_true, decide_eq_true_eq] at hwf
      simp only [orderedOk, hidx, Bool.and_eq_true, List.all_eq_true] at hok
      have hwfc : ∀ c ∈ cs, wfEntry c = true := by
        have : ∀ (l : List Entry), wfEntries l = true → ∀ c ∈ l, wfEntry c = true := by
          intro l; induction l with
          | nil => intro _ c h; cases h
          | cons a as iha =>
            intro h c hc
            simp only [wfEntries, Bool.and_eq_true] at h
            rcases List.mem_cons.mp hc with rfl | hc
            · exact h.1
            · exact iha h.2 c hc
        exact this cs hwf.2
      have hokc : ∀ c ∈ cs, orderedOk c = true := by
        have : ∀ (l : List Entry), orderedOkL l = true → ∀ c ∈ l, orderedOk c = true := by
          intro l; induction l with
          | nil => intro _ c h; cases h
          | cons a as iha =>
            intro h c hc
            simp only [orderedOkL, Bool.and_eq_true] at h
            rcases List.mem_cons.mp hc with rfl | hc
            · exact h.1
            · exact iha h.2 c hc
        exact this cs hok.2
      have hnone : List.findSome? (abortAt v (some own) (loc ++ [n])
          (entriesRes v m.copySub (hier ++ [(loc ++ [n], t)]) (loc ++ [n]) cs cs))
          (mergedList m.ordered (names cs)) = none := by
        rw [List.findSome?_eq_none_iff]
        intro x hx
        rw [mem_mergedList _ _ _ hwf.1] at hx
        unfold abortAt
        split
        · rfl
        · rename_i hskip
          rw [lookupRes_entriesRes]
          cases hfe : findEntry x cs with
          | none =>
            exfalso
            have hnot := findEntry_none hfe
            rcases hx.2 with ho | hn
            · have := hok.1 x ho
              simp only [Bool.or_eq_true, beq_iff_eq, List.contains_iff_mem] at this
              rcases this with (h | h) | h
              · exact hx.1 h
              · exact hskip h
              · exact hnot h
            · exact hnot hn
          | some c =>
            have hc := (findEntry_some hfe).1
            simp only [Option.map_some]
            split
            · rename_i heq; cases heq
            · rename_i d q heq
              simp only [Option.some.injEq, Prod.mk.injEq] at heq
              exact absurd heq.2 (ih c hc _ _ _ _ q (hwfc c hc) (hokc c hc))
            · rfl
      simp [hnone]

end Ford.PT

namespace Ford.PT
open Ford Ford.Gen.C17

/-! ## mirror: pages of the model = pages the statement expects -/

theorem htmlName_index : htmlName indexName = specHtml indexName := by decide

theorem mem_preorderL_paths (l : List Node) (p : PathS) :
    p ∈ (preorder.preorderL l).map Node.path ↔ ∃ s ∈ l, p ∈ (preorder s).map Node.path := by
  induction l with
  | nil => simp [preorder.preorderL]
  | cons n ns ih =>
    simp only [preorder.preorderL, List.map_append, List.mem_append, ih, List.mem_cons,
      exists_eq_or_imp]

theorem mem_expEntries (loc : PathS) (cs : List Entry) (p : PathS) :
    p ∈ expEntries loc cs ↔
      ∃ e ∈ cs, skipName e.name = false ∧ e.name ≠ indexName ∧ p ∈ expEntry loc e := by
  induction cs with
  | nil => simp [expEntries]
  | cons c cs ih =>
    simp only [expEntries, List.mem_append, ih, List.mem_cons, exists_eq_or_imp]
    apply or_congr_left
    by_cases h1 : skipName c.name = true
    · simp [h1]
    · by_cases h2 : c.name = indexName
      · simp [h2]
      · simp [h1, h2]

theorem wfEntries_mem : ∀ (l : List Entry), wfEntries l = true → ∀ c ∈ l, wfEntry c = true := by
  intro l; induction l with
  | nil => intro _ c h; cases h
  | cons a as iha =>
    intro h c hc
    simp only [wfEntries, Bool.and_eq_true] at h
    rcases List.mem_cons.mp hc with rfl | hc
    · exact h.1
    · exact iha h.2 c hc

theorem plainStemsL_mem : ∀ (l : List Entry), plainStemsL l = true → ∀ c ∈ l, plainStems c = true := by
  intro l; induction l with
  | nil => intro _ c h; cases h
  | cons a as iha =>
    intro h c hc
    simp only [plainStemsL, Bool.and_eq_true] at h
    rcases List.mem_cons.mp hc with rfl | hc
    · exact h.1
    · exact iha h.2 c hc

theorem gpFreeL_mem (v : Variant) (pc own : Option (List Str)) :
    ∀ (l : List Entry), gpFreeL v pc own l = true → ∀ c ∈ l, gpFree v pc own c = true := by
  intro l; induction l with
  | nil => intro _ c h; cases h
  | cons a as iha =>
    intro h c hc
    simp only [gpFreeL, Bool.and_eq_true] at h
    rcases List.mem_cons.mp hc with rfl | hc
    · exact h.1
    · exact iha h.2 c hc

theorem gpFree_not_skipped (v : Variant) (pc own : Option (List Str)) (c : Entry)
    (h : gpFree v pc own c = true) : (c.isDir && pcContains v pc c.name) = false := by
  cases c with
  | file n m => simp [Entry.isDir]
  | dir n cs =>
    simp only [gpFree, Bool.and_eq_true, Bool.not_eq_true'] at h
    simp [Entry.isDir, Entry.name, h.1]

def MirrorAt (v : Variant) (e : Entry) : Prop :=
  ∀ own hier loc sibs pc, wfEntry e = true → plainStems e = true → gpFree v pc (some own) e = true →
    (∀ p, entryRes v own hier loc sibs e ≠ .abort p) →
    ∀ p, p ∈ resPaths (entryRes v own hier loc sibs e) ↔ p ∈ expEntry loc e

/-- the body of a directory: what the loop collects is what the statement expects of its entries -/
theorem dir_body_mirror (v : Variant) (cs : List Entry) (o : List Str) (pc : Option (List Str))
    (hier : List (PathS × Str)) (loc : PathS) (ord : List Str)
    (hn : (names cs).Nodup) (hw : ∀ c ∈ cs, wfEntry c = true) (hp : ∀ c ∈ cs, plainStems c = true)
    (hg : ∀ c ∈ cs, gpFree v pc (some o) c = true) (ih : ∀ c ∈ cs, MirrorAt v c)
    (hna : List.findSome? (abortAt v pc loc (entriesRes v o hier loc cs cs)) (mergedList ord (names cs)) = none)
    (p : PathS) :
    (∃ s ∈ (mergedList ord (names cs)).filterMap (pageAt v pc (entriesRes v o hier loc cs cs)),
        p ∈ (preorder s).map Node.path) ↔ p ∈ expEntries loc cs := by
  rw [mem_expEntries]
  rw [List.findSome?_eq_none_iff] at hna
  constructor
  · rintro ⟨s, hs, hps⟩
    rw [List.mem_filterMap] at hs
    obtain ⟨n, hnm, hpa⟩ := hs
    rw [mem_mergedList _ _ _ hn] at hnm
    unfold pageAt at hpa
    by_cases hskip : skipName n = true
    · simp [hskip] at hpa
    · simp only [hskip, Bool.false_eq_true, if_false, lookupRes_entriesRes] at hpa
      cases hfe : findEntry n cs with
      | none => simp [hfe] at hpa
      | some c =>
        obtain ⟨hc, hcn⟩ := findEntry_some hfe
        simp only [hfe, Option.map_some] at hpa
        cases hr : entryRes v o hier loc cs c with
        | page nd =>
          simp only [hr] at hpa
          have hns := gpFree_not_skipped v pc (some o) c (hg c hc)
          rw [hcn] at hns
          simp only [hns, Bool.false_eq_true, if_false, Option.some.injEq] at hpa
          subst hpa
          refine ⟨c, hc, by simpa [hcn] using hskip, by rw [hcn]; exact hnm.1, ?_⟩
          have := ih c hc o hier loc cs pc (hw c hc) (hp c hc) (hg c hc) (by simp [hr]) p
          rw [hr] at this
          exact this.mp hps
        | nothing => simp [hr] at hpa
        | file => simp [hr] at hpa
        | abort q => simp [hr] at hpa
  · rintro ⟨c, hc, hvis, hni, hpe⟩
    have hmem : c.name ∈ mergedList ord (names cs) := by
      rw [mem_mergedList _ _ _ hn]
      exact ⟨hni, Or.inr (List.mem_map_of_mem (f := Entry.name) hc)⟩
    have hfe := findEntry_of_mem hn hc
    have hns := gpFree_not_skipped v pc (some o) c (hg c hc)
    have hab := hna _ hmem
    have hnoab : ∀ q, entryRes v o hier loc cs c ≠ .abort q := by
      intro q hq
      simp [abortAt, hvis, lookupRes_entriesRes, hfe, hq, hns] at hab
    have hiff := ih c hc o hier loc cs pc (hw c hc) (hp c hc) (hg c hc) hnoab p
    have hin := hiff.mpr hpe
    cases hr : entryRes v o hier loc cs c with
    | page nd =>
      rw [hr] at hin
      refine ⟨nd, ?_, hin⟩
      rw [List.mem_filterMap]
      refine ⟨c.name, hmem, ?_⟩
      simp [pageAt, hvis, lookupRes_entriesRes, hfe, hr, hns]
    | nothing => simp [hr, resPaths] at hin
    | file => simp [hr, resPaths] at hin
    | abort q => simp [hr, resPaths] at hin

theorem entryRes_mirror (v : Variant) (e : Entry) : MirrorAt v e := by
  induction e using entry_ind_aux with
  | hf n m =>
    intro own hier loc sibs pc _ hpl _ _ p
    simp only [plainStems, Bool.or_eq_true, Bool.not_eq_true', beq_iff_eq] at hpl
    simp only [entryRes, expEntry, titled]
    by_cases hmd : isMd n = true
    · have ht : m.title = none ∨ ∃ t, m.title = some t := by
        cases m.title with
        | none => exact Or.inl rfl
        | some t => exact Or.inr ⟨t, rfl⟩
      rcases ht with ht | ⟨t, ht⟩
      · simp [hmd, ht, resPaths]
      · rcases hpl with h | h
        · simp [hmd] at h
        · simp [hmd, ht, resPaths, preorder, preorder.preorderL, Node.path, Node.loc, Node.file, h]
    · simp [hmd, resPaths]
  | hd n cs ih =>
    intro own hier loc sibs pc hwf hpl hgp hnoab p
    simp only [wfEntry, Bool.and_eq_true, decide_eq_true_eq] at hwf
    simp only [plainStems] at hpl
    simp only [gpFree, Bool.and_eq_true] at hgp
    simp only [entryRes, expEntry, indexed] at hnoab ⊢
    have hidx : indexMeta cs = none ∨ ∃ m t, indexMeta cs = some (m, t) := by
      cases indexMeta cs with
      | none => exact Or.inl rfl
      | some mt => exact Or.inr ⟨mt.1, mt.2, rfl⟩
    rcases hidx with hidx | ⟨m, t, hidx⟩
    · simp [hidx, resPaths]
    · simp only [hidx] at hnoab hgp ⊢
      rw [walk_eq] at hnoab ⊢
      cases hfs : List.findSome? (abortAt v (some own) (loc ++ [n])
          (entriesRes v m.copySub (hier ++ [(loc ++ [n], t)]) (loc ++ [n]) cs cs))
          (mergedList m.ordered (names cs)) with
      | some q => simp [hfs] at hnoab
      | none =>
        have body := dir_body_mirror v cs m.copySub (some own) (hier ++ [(loc ++ [n], t)]) (loc ++ [n])
          m.ordered hwf.1 (wfEntries_mem cs hwf.2) (plainStemsL_mem cs hpl)
          (gpFreeL_mem v (some own) (some m.copySub) cs hgp.2) (fun c hc => ih c hc) hfs p
        simp only [Option.isSome_some, if_true, resPaths, preorder, List.map_cons, List.mem_cons,
          mem_preorderL_paths, Node.path, Node.loc, Node.file, htmlName_index]
        rw [body]
        simp

/-- the same for the top directory (`parent = None`) -/
theorem getPageTree_mirror (v : Variant) (cs : List Entry)
    (hn : (names cs).Nodup) (hwf : wfEntries cs = true) (hpl : plainStemsL cs = true)
    (hgp : gpFreeL v none (match indexMeta cs with | some (m, _) => some m.copySub | none => none) cs = true)
    (hnoab : ∀ q, getPageTree v cs ≠ .abort q) (p : PathS) :
    p ∈ resPaths (getPageTree v cs) ↔ p ∈ expPages cs := by
  simp only [getPageTree, expPages, indexed] at hnoab ⊢
  have hidx : indexMeta cs = none ∨ ∃ m t, indexMeta cs = some (m, t) := by
    cases indexMeta cs with
    | none => exact Or.inl rfl
    | some mt => exact Or.inr ⟨mt.1, mt.2, rfl⟩
  rcases hidx with hidx | ⟨m, t, hidx⟩
  · simp [hidx, resPaths]
  · simp only [hidx] at hnoab hgp ⊢
    rw [walk_eq] at hnoab ⊢
    cases hfs : List.findSome? (abortAt v none [] (entriesRes v m.copySub [([], t)] [] cs cs))
        (mergedList m.ordered (names cs)) with
    | some q => simp [hfs] at hnoab
    | none =>
      have body := dir_body_mirror v cs m.copySub none [([], t)] [] m.ordered hn
        (wfEntries_mem cs hwf) (plainStemsL_mem cs hpl)
        (gpFreeL_mem v none (some m.copySub) cs hgp) (fun c _ => entryRes_mirror v c) hfs p
      simp only [Option.isSome_some, if_true, resPaths, preorder, List.map_cons, List.mem_cons,
        mem_preorderL_paths, Node.path, Node.loc, Node.file, htmlName_index]
      rw [body]
      simp

end Ford.PT

namespace Ford.PT
open Ford Ford.Gen.C17

theorem gpFreeL_of_mem (v : Variant) (pc own : Option (List Str)) :
    ∀ (l : List Entry), (∀ c ∈ l, gpFree v pc own c = true) → gpFreeL v pc own l = true := by
  intro l; induction l with
  | nil => intro _; rfl
  | cons a as iha =>
    intro h
    simp only [gpFreeL, Bool.and_eq_true]
    exact ⟨h a (by simp), iha (fun c hc => h c (by simp [hc]))⟩

theorem gpFree_ignored (v : Variant) (hv : v.cc = .ignored) (e : Entry) :
    ∀ pc own, gpFree v pc own e = true := by
  induction e using entry_ind_aux with
  | hf n m => intro _ _; rfl
  | hd n cs ih =>
    intro pc own
    simp only [gpFree, Bool.and_eq_true, Bool.not_eq_true']
    refine ⟨by simp [pcContains, hv], gpFreeL_of_mem v _ _ cs (fun c hc => ih c hc _ _)⟩

theorem expEntries_append (loc : PathS) (a b : List Entry) :
    expEntries loc (a ++ b) = expEntries loc a ++ expEntries loc b := by
  induction a with
  | nil => simp [expEntries]
  | cons x xs ih => simp [expEntries, ih]

theorem findEntry_skip (n : Str) (l₁ l₂ : List Entry) (b : Entry) (hb : b.name ≠ n) :
    findEntry n (l₁ ++ b :: l₂) = findEntry n (l₁ ++ l₂) := by
  induction l₁ with
  | nil => simp [findEntry, hb]
  | cons x xs ih =>
    simp only [List.cons_append, findEntry, ih]

/-- an entry from which the statement expects no page (untitled page, non-Markdown file, directory
    without a titled index.md) can be deleted without changing the expected pages -/
theorem expPages_remove (l₁ l₂ : List Entry) (b : Entry) (hb : b.name ≠ indexName)
    (hempty : expEntry [] b = []) :
    expPages (l₁ ++ b :: l₂) = expPages (l₁ ++ l₂) := by
  unfold expPages indexed indexMeta
  rw [findEntry_skip indexName l₁ l₂ b hb]
  simp only [expEntries_append, expEntries, hempty]
  simp

end Ford.PT

/-! ## the encoding reaches every level -/

namespace Ford.PT
open Ford Ford.Gen.C17

/-- the recursive call of the source under test hands its own `encoding` on -/
theorem gen_encRec (enc : Str) : CallSites.gen.encRec enc = enc := rfl

/-- `PageNode(...)` for index.md decodes the file with the `encoding` of the enclosing call -/
theorem gen_encIndex (enc : Str) : CallSites.gen.encIndex enc = enc := rfl

/-- `PageNode(...)` for a sibling page decodes the file with the `encoding` of the enclosing call -/
theorem gen_encSub (enc : Str) : CallSites.gen.encSub enc = enc := rfl

mutual
theorem decodeE_gen (enc : Str) : (e : RawEntry) → decodeE CallSites.gen enc e = viewE enc e
  | .file n w m => by simp [decodeE, viewE, gen_encIndex, gen_encSub]
  | .dir n cs => by simp [decodeE, viewE, gen_encRec, decodeL_gen enc cs]
theorem decodeL_gen (enc : Str) : (l : List RawEntry) → decodeL CallSites.gen enc l = viewL enc l
  | [] => by simp [decodeL, viewL]
  | e :: es => by simp [decodeL, viewL, decodeE_gen enc e, decodeL_gen enc es]
end

mutual
theorem viewE_writtenIn (enc : Str) : (e : RawEntry) → writtenIn enc e = true → viewE enc e = plainE e
  | .file n w m => by
    intro h
    simp only [writtenIn] at h
    simp [viewE, plainE, readMeta, h]
  | .dir n cs => by
    intro h
    simp only [writtenIn] at h
    simp [viewE, plainE, viewL_writtenIn enc cs h]
theorem viewL_writtenIn (enc : Str) : (l : List RawEntry) → writtenInL enc l = true → viewL enc l = plainL l
  | [] => by simp [viewL, plainL]
  | e :: es => by
    intro h
    simp only [writtenInL, Bool.and_eq_true] at h
    simp [viewL, plainL, viewE_writtenIn enc e h.1, viewL_writtenIn enc es h.2]
end

end Ford.PT
