/-
  C17 - multiplicity: the pages the statement expects, and the pages `get_page_tree` builds,
  are pairwise distinct ("every titled Markdown file becomes EXACTLY ONE page").
  Helper lemmas for the `*_distinct*` / `pages_bijection_partial` theorems of Props/C17.lean.
-/
import FordModel.PageTree
import FordModel.PageTreeSpec
import FordModel.Lemmas.PageTree
namespace Ford.PT
open Ford Ford.Gen.C17

/-! ## `specHtml` is injective on `*.md` names -/

/-- a name with suffix `.md` is its stem followed by `.md` -/
theorem isMd_split (n : Str) (h : isMd n = true) :
    n = n.take (n.length - mdSuffix.length) ++ mdSuffix := by
  unfold isMd pySuffix at h
  have hd : n.drop (n.length - suffixLen n) = mdSuffix := by simpa using h
  have hl := congrArg List.length hd
  simp only [List.length_drop] at hl
  have hk : n.length - suffixLen n = n.length - mdSuffix.length := by omega
  rw [hk] at hd
  calc n = n.take (n.length - mdSuffix.length) ++ n.drop (n.length - mdSuffix.length) :=
        (List.take_append_drop _ _).symm
    _ = n.take (n.length - mdSuffix.length) ++ mdSuffix := by rw [hd]

/-- two Markdown files of one directory that the statement sends to the same page are the same file -/
theorem specHtml_inj (a b : Str) (ha : isMd a = true) (hb : isMd b = true)
    (h : specHtml a = specHtml b) : a = b := by
  unfold specHtml at h
  have ht := List.append_inj_left' h rfl
  calc a = a.take (a.length - mdSuffix.length) ++ mdSuffix := isMd_split a ha
    _ = b.take (b.length - mdSuffix.length) ++ mdSuffix := by rw [ht]
    _ = b := (isMd_split b hb).symm

theorem isMd_index : isMd indexName = true := by decide

/-! ## the shape of the page paths that come from one directory entry -/

/-- what the paths of the pages of entry `e` look like below the location of its directory:
    a page file gives the single segment `<stem>.html`; everything from a sub-directory `n` starts
    with `n` and goes on (so it can never be the page of a file, and never a page of another
    sub-directory) -/
def Shape : Entry → PathS → Prop
  | .file n _, r => isMd n = true ∧ r = [specHtml n]
  | .dir n _, r => ∃ r', r' ≠ [] ∧ r = n :: r'

theorem shape_ne_nil {e : Entry} {r : PathS} (h : Shape e r) : r ≠ [] := by
  cases e with
  | file n m => rw [h.2]; simp
  | dir n cs => obtain ⟨r', _, h⟩ := h; rw [h]; simp

/-- entries with different names never produce the same path: `loc ++ [x.html]` is not below
    `loc ++ [n, ...]`, two sub-directories differ in the segment after `loc`, and two Markdown files
    differ by `specHtml_inj` -/
theorem shape_disjoint {e₁ e₂ : Entry} {r : PathS} (hne : e₁.name ≠ e₂.name)
    (h₁ : Shape e₁ r) (h₂ : Shape e₂ r) : False := by
  cases e₁ with
  | file n₁ m₁ =>
    cases e₂ with
    | file n₂ m₂ =>
      have h := h₁.2.symm.trans h₂.2
      simp only [List.cons.injEq, and_true] at h
      exact hne (specHtml_inj n₁ n₂ h₁.1 h₂.1 h)
    | dir n₂ cs₂ =>
      obtain ⟨r', hr', h⟩ := h₂
      have h := h₁.2.symm.trans h
      simp only [List.cons.injEq] at h
      exact hr' h.2.symm
  | dir n₁ cs₁ =>
    obtain ⟨r₁, hr₁, h₁⟩ := h₁
    cases e₂ with
    | file n₂ m₂ =>
      have h := h₂.2.symm.trans h₁
      simp only [List.cons.injEq] at h
      exact hr₁ h.2.symm
    | dir n₂ cs₂ =>
      obtain ⟨r₂, _, h₂⟩ := h₂
      have h := h₁.symm.trans h₂
      simp only [List.cons.injEq] at h
      exact hne h.1

/-- only index.md itself is sent to `index.html` -/
theorem shape_index {e : Entry} (hne : e.name ≠ indexName) (h : Shape e [specHtml indexName]) : False := by
  cases e with
  | file n m =>
    have h2 := h.2
    simp only [List.cons.injEq, and_true] at h2
    exact hne (specHtml_inj n indexName h.1 isMd_index h2.symm)
  | dir n cs =>
    obtain ⟨r', hr', h⟩ := h
    simp only [List.cons.injEq] at h
    exact hr' h.2.symm

/-! ## the expected pages are pairwise distinct -/

theorem expEntry_shape (e : Entry) :
    ∀ loc p, p ∈ expEntry loc e → ∃ r, p = loc ++ r ∧ Shape e r := by
  induction e using entry_ind_aux with
  | hf n m =>
    intro loc p hp
    simp only [expEntry] at hp
    split at hp
    · rename_i h
      simp only [Bool.and_eq_true] at h
      simp only [List.mem_singleton] at hp
      exact ⟨[specHtml n], hp, h.1, rfl⟩
    · cases hp
  | hd n cs ih =>
    intro loc p hp
    simp only [expEntry] at hp
    split at hp
    · rcases List.mem_cons.mp hp with h | h
      · exact ⟨[n, specHtml indexName], h, [specHtml indexName], by simp, rfl⟩
      · rw [mem_expEntries] at h
        obtain ⟨c, hc, _, _, hpc⟩ := h
        obtain ⟨r, hr, hs⟩ := ih c hc _ _ hpc
        exact ⟨n :: r, by rw [hr]; simp, r, shape_ne_nil hs, rfl⟩
    · cases hp

theorem index_notin_expEntries (loc : PathS) (cs : List Entry) :
    loc ++ [specHtml indexName] ∉ expEntries loc cs := by
  intro h
  rw [mem_expEntries] at h
  obtain ⟨c, _, _, hni, hp⟩ := h
  obtain ⟨r, e, s⟩ := expEntry_shape c loc _ hp
  have hr := List.append_cancel_left e
  subst hr
  exact shape_index hni s

theorem expEntries_nodup (loc : PathS) (cs : List Entry) (hn : (names cs).Nodup)
    (h : ∀ c ∈ cs, (expEntry loc c).Nodup) : (expEntries loc cs).Nodup := by
  induction cs with
  | nil => simp [expEntries]
  | cons c cs ih =>
    simp only [names, List.map_cons, List.nodup_cons] at hn
    simp only [expEntries]
    rw [List.nodup_append]
    refine ⟨?_, ih hn.2 (fun d hd => h d (by simp [hd])), ?_⟩
    · split
      · exact List.nodup_nil
      · exact h c (by simp)
    · intro a ha b hb hab
      subst hab
      split at ha
      · cases ha
      · rw [mem_expEntries] at hb
        obtain ⟨d, hd, _, _, hpd⟩ := hb
        obtain ⟨r₁, e₁, s₁⟩ := expEntry_shape c loc a ha
        obtain ⟨r₂, e₂, s₂⟩ := expEntry_shape d loc a hpd
        have hr : r₁ = r₂ := List.append_cancel_left (e₁.symm.trans e₂)
        subst hr
        exact shape_disjoint (e₁ := c) (e₂ := d)
          (fun heq => hn.1 (heq ▸ List.mem_map_of_mem (f := Entry.name) hd)) s₁ s₂

theorem expEntry_nodup (e : Entry) : ∀ loc, wfEntry e = true → (expEntry loc e).Nodup := by
  induction e using entry_ind_aux with
  | hf n m =>
    intro loc _
    simp only [expEntry]
    split <;> simp
  | hd n cs ih =>
    intro loc hwf
    simp only [wfEntry, Bool.and_eq_true, decide_eq_true_eq] at hwf
    simp only [expEntry]
    split
    · rw [List.nodup_cons]
      refine ⟨?_, expEntries_nodup _ cs hwf.1 (fun c hc => ih c hc _ (wfEntries_mem cs hwf.2 c hc))⟩
      have h := index_notin_expEntries (loc ++ [n]) cs
      simpa using h
    · exact List.nodup_nil

theorem expPages_nodup (cs : List Entry) (hn : (names cs).Nodup) (hwf : wfEntries cs = true) :
    (expPages cs).Nodup := by
  unfold expPages
  split
  · rw [List.nodup_cons]
    refine ⟨?_, expEntries_nodup [] cs hn (fun c hc => expEntry_nodup c [] (wfEntries_mem cs hwf c hc))⟩
    have h := index_notin_expEntries [] cs
    simpa using h
  · exact List.nodup_nil

/-! ## the pages that are built are pairwise distinct -/

/-- a page appended by the loop for the name `x` is the result of the entry called `x` -/
theorem pageAt_some {v : Variant} {pc : Option (List Str)} {o : List Str} {hier : List (PathS × Str)}
    {loc : PathS} {sibs cs : List Entry} {x : Str} {nd : Node}
    (h : pageAt v pc (entriesRes v o hier loc sibs cs) x = some nd) :
    ∃ c ∈ cs, c.name = x ∧ entryRes v o hier loc sibs c = .page nd := by
  unfold pageAt at h
  by_cases hskip : skipName x = true
  · simp [hskip] at h
  · simp only [hskip, Bool.false_eq_true, if_false, lookupRes_entriesRes] at h
    cases hfe : findEntry x cs with
    | none => simp [hfe] at h
    | some c =>
      obtain ⟨hc, hcn⟩ := findEntry_some hfe
      simp only [hfe, Option.map_some] at h
      cases hr : entryRes v o hier loc sibs c with
      | page nd' =>
        simp only [hr] at h
        split at h
        · cases h
        · simp only [Option.some.injEq] at h
          subst h
          exact ⟨c, hc, hcn, hr⟩
      | nothing => simp [hr] at h
      | file => simp [hr] at h
      | abort q => simp [hr] at h

/-- with plain stems the pages of an entry have the same shape as the expected ones - whatever the
    variant, `ordered_subpage`, `copy_subdir`, and whether or not something below aborts -/
theorem resPaths_shape (v : Variant) (e : Entry) :
    ∀ own hier loc sibs p, plainStems e = true → p ∈ resPaths (entryRes v own hier loc sibs e) →
      ∃ r, p = loc ++ r ∧ Shape e r := by
  induction e using entry_ind_aux with
  | hf n m =>
    intro own hier loc sibs p hpl hp
    simp only [plainStems, Bool.or_eq_true, Bool.not_eq_true', beq_iff_eq] at hpl
    simp only [entryRes] at hp
    by_cases hmd : isMd n = true
    · have ht : m.title = none ∨ ∃ t, m.title = some t := by
        cases m.title with
        | none => exact Or.inl rfl
        | some t => exact Or.inr ⟨t, rfl⟩
      rcases ht with ht | ⟨t, ht⟩
      · simp [hmd, ht, resPaths] at hp
      · rcases hpl with h | h
        · simp [hmd] at h
        · simp only [hmd, ht, if_true, resPaths, preorder, preorder.preorderL, List.map_cons, List.map_nil,
            List.mem_singleton, Node.path, Node.loc, Node.file, h] at hp
          exact ⟨[specHtml n], hp, hmd, rfl⟩
    · simp [hmd, resPaths] at hp
  | hd n cs ih =>
    intro own hier loc sibs p hpl hp
    simp only [plainStems] at hpl
    simp only [entryRes] at hp
    have hidx : indexMeta cs = none ∨ ∃ m t, indexMeta cs = some (m, t) := by
      cases indexMeta cs with
      | none => exact Or.inl rfl
      | some mt => exact Or.inr ⟨mt.1, mt.2, rfl⟩
    rcases hidx with hidx | ⟨m, t, hidx⟩
    · simp [hidx, resPaths] at hp
    · simp only [hidx] at hp
      rw [walk_eq] at hp
      cases hfs : List.findSome? (abortAt v (some own) (loc ++ [n])
          (entriesRes v m.copySub (hier ++ [(loc ++ [n], t)]) (loc ++ [n]) cs cs))
          (mergedList m.ordered (names cs)) with
      | some q => simp [hfs, resPaths] at hp
      | none =>
        simp only [hfs, resPaths, preorder, List.map_cons, List.mem_cons, mem_preorderL_paths,
          Node.path, Node.loc, Node.file] at hp
        rcases hp with h | ⟨s, hs, hps⟩
        · exact ⟨[n, htmlName indexName], by rw [h]; simp, [htmlName indexName], by simp, rfl⟩
        · rw [List.mem_filterMap] at hs
          obtain ⟨x, _, hpa⟩ := hs
          obtain ⟨c, hc, _, hr⟩ := pageAt_some hpa
          have hin : p ∈ resPaths (entryRes v m.copySub (hier ++ [(loc ++ [n], t)]) (loc ++ [n]) cs c) := by
            rw [hr]; exact hps
          obtain ⟨r, er, sr⟩ := ih c hc _ _ _ _ p (plainStemsL_mem cs hpl c hc) hin
          exact ⟨n :: r, by rw [er]; simp, r, shape_ne_nil sr, rfl⟩

theorem nodup_preorderL (l : List Node)
    (h1 : ∀ s ∈ l, ((preorder s).map Node.path).Nodup)
    (h2 : l.Pairwise (fun a b => ∀ p, p ∈ (preorder a).map Node.path → p ∉ (preorder b).map Node.path)) :
    ((preorder.preorderL l).map Node.path).Nodup := by
  induction l with
  | nil => simp [preorder.preorderL]
  | cons s ss ih =>
    rw [List.pairwise_cons] at h2
    simp only [preorder.preorderL, List.map_append]
    rw [List.nodup_append]
    refine ⟨h1 s (by simp), ih (fun x hx => h1 x (by simp [hx])) h2.2, ?_⟩
    intro a ha b hb hab
    subst hab
    rw [mem_preorderL_paths] at hb
    obtain ⟨s', hs', hb'⟩ := hb
    exact h2.1 s' hs' a ha hb'

/-- the sub-pages collected by the loop over a list of *distinct* names (which `mergedfilelist` is,
    `mergedList_nodup`: a name requested twice, or requested and also listed, is visited once) -/
theorem body_nodup (v : Variant) (cs : List Entry) (o : List Str) (pc : Option (List Str))
    (hier : List (PathS × Str)) (loc : PathS) (l : List Str) (hl : l.Nodup)
    (hp : ∀ c ∈ cs, plainStems c = true)
    (ih : ∀ c ∈ cs, (resPaths (entryRes v o hier loc cs c)).Nodup) :
    ((preorder.preorderL (l.filterMap (pageAt v pc (entriesRes v o hier loc cs cs)))).map Node.path).Nodup := by
  apply nodup_preorderL
  · intro s hs
    rw [List.mem_filterMap] at hs
    obtain ⟨x, _, hpa⟩ := hs
    obtain ⟨c, hc, _, hr⟩ := pageAt_some hpa
    have h := ih c hc
    rw [hr] at h
    exact h
  · rw [List.pairwise_filterMap]
    refine List.Pairwise.imp ?_ hl
    intro x y hxy s hs s' hs' p hps hps'
    obtain ⟨c, hc, hcn, hr⟩ := pageAt_some hs
    obtain ⟨c', hc', hcn', hr'⟩ := pageAt_some hs'
    have hin : p ∈ resPaths (entryRes v o hier loc cs c) := by rw [hr]; exact hps
    have hin' : p ∈ resPaths (entryRes v o hier loc cs c') := by rw [hr']; exact hps'
    obtain ⟨r₁, e₁, s₁⟩ := resPaths_shape v c _ _ _ _ _ (hp c hc) hin
    obtain ⟨r₂, e₂, s₂⟩ := resPaths_shape v c' _ _ _ _ _ (hp c' hc') hin'
    have hr : r₁ = r₂ := List.append_cancel_left (e₁.symm.trans e₂)
    subst hr
    exact shape_disjoint (by rw [hcn, hcn']; exact hxy) s₁ s₂

/-- the index page of a directory is not also the page of one of its entries -/
theorem index_notin_body (v : Variant) (cs : List Entry) (o : List Str) (pc : Option (List Str))
    (hier : List (PathS × Str)) (loc : PathS) (l : List Str) (hl : indexName ∉ l)
    (hp : ∀ c ∈ cs, plainStems c = true) :
    loc ++ [htmlName indexName] ∉
      (preorder.preorderL (l.filterMap (pageAt v pc (entriesRes v o hier loc cs cs)))).map Node.path := by
  intro h
  rw [mem_preorderL_paths] at h
  obtain ⟨s, hs, hps⟩ := h
  rw [List.mem_filterMap] at hs
  obtain ⟨x, hx, hpa⟩ := hs
  obtain ⟨c, hc, hcn, hr⟩ := pageAt_some hpa
  have hin : loc ++ [htmlName indexName] ∈ resPaths (entryRes v o hier loc cs c) := by rw [hr]; exact hps
  obtain ⟨r, er, sr⟩ := resPaths_shape v c _ _ _ _ _ (hp c hc) hin
  have hr' := List.append_cancel_left er
  subst hr'
  rw [htmlName_index] at sr
  exact shape_index (fun heq => hl (by rw [← heq, hcn]; exact hx)) sr

theorem index_notin_merged (ord : List Str) (cs : List Entry) (hn : (names cs).Nodup) :
    indexName ∉ mergedList ord (names cs) :=
  fun h => ((mem_mergedList _ _ _ hn).mp h).1 rfl

theorem entryRes_nodup (v : Variant) (e : Entry) :
    ∀ own hier loc sibs, wfEntry e = true → plainStems e = true →
      (resPaths (entryRes v own hier loc sibs e)).Nodup := by
  induction e using entry_ind_aux with
  | hf n m =>
    intro own hier loc sibs _ _
    simp only [entryRes]
    split
    · split <;> simp [resPaths, preorder, preorder.preorderL]
    · simp [resPaths]
  | hd n cs ih =>
    intro own hier loc sibs hwf hpl
    simp only [wfEntry, Bool.and_eq_true, decide_eq_true_eq] at hwf
    simp only [plainStems] at hpl
    simp only [entryRes]
    have hidx : indexMeta cs = none ∨ ∃ m t, indexMeta cs = some (m, t) := by
      cases indexMeta cs with
      | none => exact Or.inl rfl
      | some mt => exact Or.inr ⟨mt.1, mt.2, rfl⟩
    rcases hidx with hidx | ⟨m, t, hidx⟩
    · simp [hidx, resPaths]
    · simp only [hidx]
      rw [walk_eq]
      cases hfs : List.findSome? (abortAt v (some own) (loc ++ [n])
          (entriesRes v m.copySub (hier ++ [(loc ++ [n], t)]) (loc ++ [n]) cs cs))
          (mergedList m.ordered (names cs)) with
      | some q => simp [resPaths]
      | none =>
        simp only [resPaths, preorder, List.map_cons, Node.path, Node.loc, Node.file]
        rw [List.nodup_cons]
        exact ⟨index_notin_body v cs m.copySub (some own) _ (loc ++ [n]) _
            (index_notin_merged m.ordered cs hwf.1) (plainStemsL_mem cs hpl),
          body_nodup v cs m.copySub (some own) _ (loc ++ [n]) _ (mergedList_nodup _ _ hwf.1)
            (plainStemsL_mem cs hpl)
            (fun c hc => ih c hc _ _ _ _ (wfEntries_mem cs hwf.2 c hc) (plainStemsL_mem cs hpl c hc))⟩

theorem getPageTree_nodup (v : Variant) (cs : List Entry)
    (hn : (names cs).Nodup) (hwf : wfEntries cs = true) (hpl : plainStemsL cs = true) :
    (resPaths (getPageTree v cs)).Nodup := by
  simp only [getPageTree]
  have hidx : indexMeta cs = none ∨ ∃ m t, indexMeta cs = some (m, t) := by
    cases indexMeta cs with
    | none => exact Or.inl rfl
    | some mt => exact Or.inr ⟨mt.1, mt.2, rfl⟩
  rcases hidx with hidx | ⟨m, t, hidx⟩
  · simp [hidx, resPaths]
  · simp only [hidx]
    rw [walk_eq]
    cases hfs : List.findSome? (abortAt v none [] (entriesRes v m.copySub [([], t)] [] cs cs))
        (mergedList m.ordered (names cs)) with
    | some q => simp [resPaths]
    | none =>
      simp only [resPaths, preorder, List.map_cons, Node.path, Node.loc, Node.file]
      rw [List.nodup_cons]
      exact ⟨index_notin_body v cs m.copySub none _ [] _
          (index_notin_merged m.ordered cs hn) (plainStemsL_mem cs hpl),
        body_nodup v cs m.copySub none _ [] _ (mergedList_nodup _ _ hn)
          (plainStemsL_mem cs hpl)
          (fun c hc => entryRes_nodup v c _ _ _ _ (wfEntries_mem cs hwf c hc) (plainStemsL_mem cs hpl c hc))⟩

/-- two duplicate-free lists with the same members are rearrangements of each other -/
theorem perm_of_nodup_mem {l₁ l₂ : List PathS} (d₁ : l₁.Nodup) (d₂ : l₂.Nodup)
    (h : ∀ p, p ∈ l₁ ↔ p ∈ l₂) : l₁.Perm l₂ :=
  (List.perm_ext_iff_of_nodup d₁ d₂).mpr h

/-! ## files and pages -/

theorem pageOf_concat (loc : PathS) (n : Str) : pageOf (loc ++ [n]) = loc ++ [specHtml n] := by
  simp [pageOf]

mutual
theorem expEntry_eq_map (loc : PathS) : (e : Entry) → expEntry loc e = (srcEntry loc e).map pageOf
  | .file n m => by
    simp only [expEntry, srcEntry]
    split <;> simp [pageOf_concat]
  | .dir n cs => by
    simp only [expEntry, srcEntry]
    split
    · have h : loc ++ [n, indexName] = (loc ++ [n]) ++ [indexName] := by simp
      rw [List.map_cons, h, pageOf_concat, expEntries_eq_map (loc ++ [n]) cs]
      simp
    · rfl
theorem expEntries_eq_map (loc : PathS) : (l : List Entry) → expEntries loc l = (srcEntries loc l).map pageOf
  | [] => by simp [expEntries, srcEntries]
  | e :: es => by
    simp only [expEntries, srcEntries, List.map_append, expEntries_eq_map loc es]
    split
    · rfl
    · rw [expEntry_eq_map loc e]
end

theorem expPages_eq_map (cs : List Entry) : expPages cs = (titledFiles cs).map pageOf := by
  unfold expPages titledFiles
  split
  · have h : ([indexName] : PathS) = [] ++ [indexName] := rfl
    rw [List.map_cons, h, pageOf_concat, expEntries_eq_map]
    rfl
  · rfl

theorem inj_of_nodup_map {α β : Type} (f : α → β) (l : List α) (h : (l.map f).Nodup) :
    ∀ a ∈ l, ∀ b ∈ l, f a = f b → a = b := by
  induction l with
  | nil => intro a ha; cases ha
  | cons x xs ih =>
    simp only [List.map_cons, List.nodup_cons, List.mem_map, not_exists, not_and] at h
    intro a ha b hb hab
    rcases List.mem_cons.mp ha with rfl | ha'
    · rcases List.mem_cons.mp hb with rfl | hb'
      · rfl
      · exact absurd hab.symm (h.1 b hb')
    · rcases List.mem_cons.mp hb with rfl | hb'
      · exact absurd hab (h.1 a ha')
      · exact ih h.2 a ha' b hb' hab

theorem nodup_of_nodup_map {α β : Type} (f : α → β) (l : List α) (h : (l.map f).Nodup) : l.Nodup := by
  induction l with
  | nil => exact List.nodup_nil
  | cons x xs ih =>
    simp only [List.map_cons, List.nodup_cons, List.mem_map, not_exists, not_and] at h
    rw [List.nodup_cons]
    exact ⟨fun hx => h.1 x hx rfl, ih h.2⟩

end Ford.PT
