import FordModel.MdState
namespace Ford

/-- after `reset`, the link targets and the footnote list of a converted document are those an
    unused instance would give (whatever the instance held before, in both variants) -/
theorem mdConvert_reset_links_foots (fix : Bool) (st : MdState) (d : List Str) :
    (mdConvert (mdReset fix st) d).2.links = (mdAlone d).links ∧
    (mdConvert (mdReset fix st) d).2.foots = (mdAlone d).foots := by
  simp [mdConvert, mdReset, mdAlone, mdEmpty, mdRender]

/-- with the abbreviation patterns removed by `reset` as well, the whole output is -/
theorem mdConvert_reset_fixed (st : MdState) (d : List Str) :
    (mdConvert (mdReset true st) d).2 = mdAlone d := by
  simp [mdConvert, mdReset, mdAlone, mdEmpty, mdRender]

end Ford
