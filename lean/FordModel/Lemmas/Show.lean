/-
  Lemmas about literal cut-out / re-insertion and the display strings (C18).
-/
import FordModel.Show
namespace Ford.Show

/-! ### backslash doubling cancels template expansion -/

theorem tmplExpand_doubleBs (s : Str) : tmplExpand (doubleBs s) = .ok s := by
  induction s with
  | nil => simp [doubleBs, tmplExpand]
  | cons c cs ih =>
    by_cases hc : c = '\\'
    · subst hc
      simp [doubleBs, tmplExpand, ih, Except.map]
    · simp only [doubleBs, beq_iff_eq, hc, if_false]
      cases hds : doubleBs cs with
      | nil =>
        rw [hds] at ih
        simp [tmplExpand] at ih
        simp [tmplExpand, hc, ← ih]
      | cons d r =>
        rw [hds] at ih
        simp [tmplExpand, hc, ih, Except.map]

/-! ### NBSP substitution only touches blanks -/

theorem unNbsp_nbspGo (s : Str) (b : Bool) (h : ∀ c ∈ s, c ≠ nbspChar) : unNbsp (nbspGo b s) = s := by
  fun_induction nbspGo b s <;> simp_all [unNbsp, nbspChar]
  all_goals (try split) <;> simp_all

theorem nbspGo_length (s : Str) (b : Bool) : (nbspGo b s).length = s.length := by
  fun_induction nbspGo b s <;> simp_all
  all_goals (try split) <;> simp_all

/-! ### cutting literals out loses nothing -/

theorem litEnd_pos (q : Char) (s : Str) : ∀ n, litEnd q s = some n → 1 ≤ n := by
  fun_induction litEnd q s <;> simp_all <;> omega

def CutSt.pending : CutSt → Str
  | .lit _ cur => cur.reverse
  | _ => []

theorem pending_scan : CutSt.scan.pending = [] := rfl
theorem pending_verb (n : Nat) : (CutSt.verb n).pending = [] := rfl
theorem pending_lit (n : Nat) (cur : Str) : (CutSt.lit n cur).pending = cur.reverse := rfl
theorem pending_ite (c : Prop) [Decidable c] (n : Nat) :
    (if c then CutSt.scan else CutSt.verb n).pending = [] := by split <;> rfl

theorem segOriginal_cutGo (cs : Str) (k : Nat) (st : CutSt) :
    segOriginal (cutGo cs k st) = st.pending ++ cs := by
  fun_induction cutGo cs k st <;> simp_all [segOriginal, pending_ite, pending_scan, pending_lit, pending_verb]
  next st h => cases st <;> simp_all [pending_scan, pending_verb]

/-- the shape of a segment list: texts kept, literal contents forgotten -/
def segShape : List Seg → List (Option Char)
  | [] => []
  | .txt c :: r => some c :: segShape r
  | .lit _ :: r => none :: segShape r

theorem segMasked_shape (a b : List Seg) (k : Nat) (h : segShape a = segShape b) :
    segMasked a k = segMasked b k := by
  induction a generalizing b k with
  | nil =>
    cases b with
    | nil => rfl
    | cons y ys => cases y <;> simp [segShape] at h
  | cons x xs ih =>
    cases b with
    | nil => cases x <;> simp [segShape] at h
    | cons y ys =>
      cases x <;> cases y <;> simp [segShape] at h
      · simp [segMasked, h.1, ih ys k h.2]
      · simp [segMasked, ih ys (k + 1) h]

/-! ### small transformations -/

theorem removeSpaces_cons (c : Char) (s : Str) :
    removeSpaces (c :: s) = (if c = ' ' then [] else [c]) ++ removeSpaces s := by
  by_cases h : c = ' ' <;> simp [removeSpaces, h]

theorem removeSpaces_commaSpace (s : Str) : removeSpaces (commaSpace s) = removeSpaces s := by
  fun_induction commaSpace s <;> simp_all [removeSpaces_cons]

theorem splitNameDim_append (n : Str) : (splitNameDim n).1 ++ (splitNameDim n).2 = n := by
  unfold splitNameDim
  split <;> simp

theorem takeWhile_all (p : Char → Bool) (e : Str) (h : ∀ c ∈ e, p c = true) : e.takeWhile p = e := by
  induction e with
  | nil => rfl
  | cons c cs ih =>
    have := h c (by simp)
    simp [List.takeWhile, this]
    exact ih (fun d hd => h d (by simp [hd]))

theorem kindOfArgs_kw (e : Str) (hne : e ≠ []) (h : ∀ c ∈ e, c ≠ ',' ∧ isSpace c = false) :
    kindOfArgs ("kind=".toList ++ e) = e := by
  have htw : List.takeWhile (fun c => c != ',' && !isSpace c) e = e :=
    takeWhile_all _ e (by intro c hc; have := h c hc; simp [this.1, this.2])
  simp [kindOfArgs, htw, hne]
  intro hf
  simp [startsWithCI, lower, startsWith, lowerChar] at hf

end Ford.Show

namespace Ford.Show

/-- `body` is the rest of a well-formed literal opened by `q`: characters other than `q` and
    doubled `q`s, then the closing `q`. -/
def litTail (q : Char) : Str → Bool
  | [] => false
  | [c] => c == q
  | c :: d :: r => if c == q then (d == q && litTail q r) else litTail q (d :: r)

/-- the regex engine finds a well-formed literal as a whole when the text after it does not
    start with the same quote -/
theorem litEnd_of_litTail (q : Char) (body : Str) :
    ∀ rest : Str, litTail q body = true → rest.head? ≠ some q →
      litEnd q (body ++ rest) = some body.length := by
  fun_induction litTail q body
  · intro rest h; simp at h
  · rename_i c
    intro rest h hr
    simp at h
    subst h
    cases rest with
    | nil => simp [litEnd]
    | cons d r =>
      have : d ≠ c := by intro e; subst e; simp at hr
      simp [litEnd, this]
  · rename_i c d r hc ih
    intro rest h hr
    simp at h
    obtain ⟨hd, ht⟩ := h
    have hcq : c = q := by simpa using hc
    subst hcq; subst hd
    simp [litEnd, ih rest ht hr]
  · rename_i c d r hc ih
    intro rest h hr
    have hcq : ¬ c = q := by simpa using hc
    have := ih rest h hr
    simp only [List.cons_append] at this ⊢
    simp [litEnd, hcq, this]

theorem litTail_nbspGo (q : Char) (hq : isQuote q = true) (body : Str) :
    ∀ b : Bool, litTail q body = true → litTail q (nbspGo b body) = true := by
  have hsp : q ≠ ' ' := by intro e; subst e; simp [isQuote] at hq
  have hnb : q ≠ nbspChar := by intro e; subst e; simp [isQuote, nbspChar] at hq
  fun_induction litTail q body
  · intro b h; simp at h
  · rename_i c
    intro b h
    simp at h
    subst h
    simp [nbspGo, hsp, litTail]
  · rename_i c d r hc ih
    intro b h
    simp at h
    obtain ⟨hd, ht⟩ := h
    have hcq : c = q := by simpa using hc
    subst hcq; subst hd
    cases r with
    | nil => simp [litTail] at ht
    | cons e r' =>
      have := ih false ht
      simp only [nbspGo, beq_iff_eq, hsp, if_false]
      simp [litTail, this]
  · rename_i c d r hc ih
    intro b h
    have hcq : ¬ c = q := by simpa using hc
    by_cases hcs : c = ' '
    · subst hcs
      have := ih true h
      simp only [nbspGo, beq_self_eq_true, if_true]
      split
      · cases hn : nbspGo true (d :: r) with
        | nil => rw [hn] at this; simp [litTail] at this
        | cons x xs => rw [hn] at this; simp [litTail, Ne.symm hnb, this]
      · cases hn : nbspGo true (d :: r) with
        | nil => rw [hn] at this; simp [litTail] at this
        | cons x xs => rw [hn] at this; simp [litTail, Ne.symm hsp, this]
    · have := ih false h
      simp only [nbspGo, beq_iff_eq, hcs, if_false]
      cases hn : nbspGo false (d :: r) with
      | nil => rw [hn] at this; simp [litTail] at this
      | cons x xs => rw [hn] at this; simp [litTail, hcq, this]

end Ford.Show
