/-
  Lemmas about literal cut-out / re-insertion and the display strings (C18).
-/
import FordModel.Show
namespace Ford.Show

/-! ### backslash doubling cancels template expansion -/

theorem tmplExpand_doubleBs (s : Str) : tmplExpand (doubleBs s) = .ok s := by
  induction s with
  | nil => simp [doubleBs, tmplExpand]
  | cons c cs ih =>
    by_cases hc : c = '\\'
    · subst hc
      simp [doubleBs, tmplExpand, ih, Except.map]
    · simp only [doubleBs, beq_iff_eq, hc, if_false]
      cases hds : doubleBs cs with
      | nil =>
        rw [hds] at ih
        simp [tmplExpand] at ih
        simp [tmplExpand, hc, ← ih]
      | cons d r =>
        rw [hds] at ih
        simp [tmplExpand, hc, ih, Except.map]

/-! ### NBSP substitution only touches blanks -/

theorem unNbsp_nbspGo (s : Str) (b : Bool) (h : ∀ c ∈ s, c ≠ nbspChar) : unNbsp (nbspGo b s) = s := by
  fun_induction nbspGo b s <;> simp_all [unNbsp, nbspChar]
  all_goals (try split) <;> simp_all

theorem nbspGo_length (s : Str) (b : Bool) : (nbspGo b s).length = s.length := by
  fun_induction nbspGo b s <;> simp_all
  all_goals (try split) <;> simp_all

/-! ### cutting literals out loses nothing -/

theorem litEnd_pos (q : Char) (s : Str) : ∀ n, litEnd q s = some n → 1 ≤ n := by
  fun_induction litEnd q s <;> simp_all <;> omega

def CutSt.pending : CutSt → Str
  | .lit _ cur => cur.reverse
  | _ => []

theorem pending_scan : CutSt.scan.pending = [] := rfl
theorem pending_verb (n : Nat) : (CutSt.verb n).pending = [] := rfl
theorem pending_lit (n : Nat) (cur : Str) : (CutSt.lit n cur).pending = cur.reverse := rfl
theorem pending_ite (c : Prop) [Decidable c] (n : Nat) :
    (if c then CutSt.scan else CutSt.verb n).pending = [] := by split <;> rfl

theorem segOriginal_cutGo (cs : Str) (k : Nat) (st : CutSt) :
    segOriginal (cutGo cs k st) = st.pending ++ cs := by
  fun_induction cutGo cs k st <;> simp_all [segOriginal, pending_ite, pending_scan, pending_lit, pending_verb]
  next st h => cases st <;> simp_all [pending_scan, pending_verb]

/-- the shape of a segment list: texts kept, literal contents forgotten -/
def segShape : List Seg → List (Option Char)
  | [] => []
  | .txt c :: r => some c :: segShape r
  | .lit _ :: r => none :: segShape r

theorem segMasked_shape (a b : List Seg) (k : Nat) (h : segShape a = segShape b) :
    segMasked a k = segMasked b k := by
  induction a generalizing b k with
  | nil =>
    cases b with
    | nil => rfl
    | cons y ys => cases y <;> simp [segShape] at h
  | cons x xs ih =>
    cases b with
    | nil => cases x <;> simp [segShape] at h
    | cons y ys =>
      cases x <;> cases y <;> simp [segShape] at h
      · simp [segMasked, h.1, ih ys k h.2]
      · simp [segMasked, ih ys (k + 1) h]

/-! ### small transformations -/

theorem removeSpaces_cons (c : Char) (s : Str) :
    removeSpaces (c :: s) = (if c = ' ' then [] else [c]) ++ removeSpaces s := by
  by_cases h : c = ' ' <;> simp [removeSpaces, h]

theorem removeSpaces_commaSpace (s : Str) : removeSpaces (commaSpace s) = removeSpaces s := by
  fun_induction commaSpace s <;> simp_all [removeSpaces_cons]

theorem splitNameDim_append (n : Str) : (splitNameDim n).1 ++ (splitNameDim n).2 = n := by
  unfold splitNameDim
  split <;> simp

theorem findIdx?_skip (p : Char) : ∀ (nm rest : Str) (i : Nat), (∀ x ∈ nm, x ≠ p) →
    findIdx? p (nm ++ rest) i = findIdx? p rest (i + nm.length)
  | [], rest, i, _ => by simp
  | x :: nm, rest, i, h => by
    have hx : (x == p) = false := by simpa using h x (by simp)
    have ih := findIdx?_skip p nm rest (i + 1) (fun y hy => h y (by simp [hy]))
    simp only [List.cons_append, findIdx?, hx, Bool.false_eq_true, if_false, ih, List.length_cons]
    congr 1; omega

theorem findIdx?_ge (p : Char) : ∀ (s : Str) (i j : Nat), findIdx? p s i = some j → i ≤ j
  | [], _, _, h => by simp [findIdx?] at h
  | c :: cs, i, j, h => by
    simp only [findIdx?] at h
    split at h
    · simp at h; omega
    · have := findIdx?_ge p cs (i + 1) j h; omega

/-- position of a delimiter in `nm ++ c :: rest` when `nm` (non-empty) has none: at the end of `nm` if it is `c`,
    behind it otherwise -/
theorem posIdx_skip (p c : Char) (nm rest : Str) (hne : nm ≠ []) (h : ∀ x ∈ nm, x ≠ p) :
    (c = p → posIdx p (nm ++ c :: rest) = some nm.length) ∧
    (∀ j, posIdx p (nm ++ c :: rest) = some j → nm.length ≤ j) := by
  have hl : 0 < nm.length := List.length_pos_iff.mpr hne
  have hf := findIdx?_skip p nm (c :: rest) 0 h
  simp only [Nat.zero_add] at hf
  constructor
  · intro e
    subst e
    unfold posIdx
    rw [hf]
    simp only [findIdx?, beq_self_eq_true, if_true]
    split
    · rename_i h0; simp only [Option.some.injEq] at h0; omega
    · rename_i r _ ; rfl
  · intro j hj
    unfold posIdx at hj
    rw [hf] at hj
    split at hj
    · cases hj
    · exact findIdx?_ge p _ _ _ hj

theorem minOpt_some_le (n : Nat) (a b : Option Nat) (ha : a = some n ∨ (∀ j, a = some j → n ≤ j))
    (hb : b = some n ∨ (∀ j, b = some j → n ≤ j)) (h : a = some n ∨ b = some n) :
    minOpt a b = some n ∨ False := by
  left
  rcases a with _ | x <;> rcases b with _ | y
  · simp at h
  · rcases h with h | h
    · cases h
    · simp [minOpt, h]
  · rcases h with h | h
    · simp [minOpt, h]
    · cases h
  · have hx : n ≤ x := by
      rcases ha with ha | ha
      · simp at ha; omega
      · exact ha x rfl
    have hy : n ≤ y := by
      rcases hb with hb | hb
      · simp at hb; omega
      · exact hb y rfl
    have : x = n ∨ y = n := by
      rcases h with h | h
      · left; simpa using h
      · right; simpa using h
    simp only [minOpt, Option.some.injEq]
    omega

/-- the name of an entity is the text in front of its first `(`, `[` or `*`, whichever of the three comes
    first *in the text* -/
theorem splitNameDim_leading (nm rest : Str) (c : Char) (hne : nm ≠ [])
    (h : ∀ x ∈ nm, isNameDelim x = false) (hc : isNameDelim c = true) :
    splitNameDim (nm ++ c :: rest) = (nm, c :: rest) := by
  have hp : ∀ x ∈ nm, x ≠ '(' := fun x hx e => by have := h x hx; simp [isNameDelim, e] at this
  have hb : ∀ x ∈ nm, x ≠ '[' := fun x hx e => by have := h x hx; simp [isNameDelim, e] at this
  have hs : ∀ x ∈ nm, x ≠ '*' := fun x hx e => by have := h x hx; simp [isNameDelim, e] at this
  have P := posIdx_skip '(' c nm rest hne hp
  have B := posIdx_skip '[' c nm rest hne hb
  have S := posIdx_skip '*' c nm rest hne hs
  have hcase : c = '(' ∨ c = '[' ∨ c = '*' := by
    simp only [isNameDelim, Bool.or_eq_true, beq_iff_eq] at hc
    rcases hc with (hc | hc) | hc
    · exact Or.inl hc
    · exact Or.inr (Or.inl hc)
    · exact Or.inr (Or.inr hc)
  have inner : minOpt (posIdx '[' (nm ++ c :: rest)) (posIdx '*' (nm ++ c :: rest)) = some nm.length ∨
      (∀ j, minOpt (posIdx '[' (nm ++ c :: rest)) (posIdx '*' (nm ++ c :: rest)) = some j → nm.length ≤ j) := by
    rcases hcase with e | e | e
    · right
      intro j hj
      rcases hb' : posIdx '[' (nm ++ c :: rest) with _ | x <;> rcases hs' : posIdx '*' (nm ++ c :: rest) with _ | y <;>
        simp only [hb', hs', minOpt] at hj
      · cases hj
      · cases hj; exact S.2 _ hs'
      · cases hj; exact B.2 _ hb'
      · have := B.2 _ hb'; have := S.2 _ hs'
        simp only [Option.some.injEq] at hj; omega
    · left
      have := minOpt_some_le nm.length _ _ (Or.inl (B.1 e)) (Or.inr S.2) (Or.inl (B.1 e))
      simpa using this
    · left
      have := minOpt_some_le nm.length _ _ (Or.inr B.2) (Or.inl (S.1 e)) (Or.inr (S.1 e))
      simpa using this
  have outer : minOpt (posIdx '(' (nm ++ c :: rest))
      (minOpt (posIdx '[' (nm ++ c :: rest)) (posIdx '*' (nm ++ c :: rest))) = some nm.length := by
    have hP : posIdx '(' (nm ++ c :: rest) = some nm.length ∨ (∀ j, posIdx '(' (nm ++ c :: rest) = some j → nm.length ≤ j) := by
      rcases hcase with e | e | e
      · exact Or.inl (P.1 e)
      · exact Or.inr P.2
      · exact Or.inr P.2
    have hone : posIdx '(' (nm ++ c :: rest) = some nm.length ∨
        minOpt (posIdx '[' (nm ++ c :: rest)) (posIdx '*' (nm ++ c :: rest)) = some nm.length := by
      rcases hcase with e | e | e
      · exact Or.inl (P.1 e)
      · right
        have := minOpt_some_le nm.length _ _ (Or.inl (B.1 e)) (Or.inr S.2) (Or.inl (B.1 e))
        simpa using this
      · right
        have := minOpt_some_le nm.length _ _ (Or.inr B.2) (Or.inl (S.1 e)) (Or.inr (S.1 e))
        simpa using this
    have := minOpt_some_le nm.length _ _ hP inner hone
    simpa using this
  unfold splitNameDim
  rw [outer]
  simp

theorem posIdx_none_of_absent (p : Char) (nm : Str) (h : ∀ x ∈ nm, x ≠ p) : posIdx p nm = none := by
  have hf := findIdx?_skip p nm [] 0 h
  simp only [List.append_nil] at hf
  unfold posIdx
  rw [hf]
  simp [findIdx?]

theorem splitNameDim_plain (nm : Str) (h : ∀ x ∈ nm, isNameDelim x = false) : splitNameDim nm = (nm, []) := by
  have hp : ∀ x ∈ nm, x ≠ '(' := fun x hx e => by have := h x hx; simp [isNameDelim, e] at this
  have hb : ∀ x ∈ nm, x ≠ '[' := fun x hx e => by have := h x hx; simp [isNameDelim, e] at this
  have hs : ∀ x ∈ nm, x ≠ '*' := fun x hx e => by have := h x hx; simp [isNameDelim, e] at this
  unfold splitNameDim
  rw [posIdx_none_of_absent _ _ hp, posIdx_none_of_absent _ _ hb, posIdx_none_of_absent _ _ hs]
  rfl

theorem takeWhile_all (p : Char → Bool) (e : Str) (h : ∀ c ∈ e, p c = true) : e.takeWhile p = e := by
  induction e with
  | nil => rfl
  | cons c cs ih =>
    have := h c (by simp)
    simp [List.takeWhile, this]
    exact ih (fun d hd => h d (by simp [hd]))

theorem kindOfArgs_kw (e : Str) (hne : e ≠ []) (h : ∀ c ∈ e, c ≠ ',' ∧ isSpace c = false) :
    kindOfArgs ("kind=".toList ++ e) = e := by
  have htw : List.takeWhile (fun c => c != ',' && !isSpace c) e = e :=
    takeWhile_all _ e (by intro c hc; have := h c hc; simp [this.1, this.2])
  simp [kindOfArgs, htw, hne]
  intro hf
  simp [startsWithCI, lower, startsWith, lowerChar] at hf

end Ford.Show

namespace Ford.Show

/-- `body` is the rest of a well-formed literal opened by `q`: characters other than `q` and
    doubled `q`s, then the closing `q`. -/
def litTail (q : Char) : Str → Bool
  | [] => false
  | [c] => c == q
  | c :: d :: r => if c == q then (d == q && litTail q r) else litTail q (d :: r)

/-- the regex engine finds a well-formed literal as a whole when the text after it does not
    start with the same quote -/
theorem litEnd_of_litTail (q : Char) (body : Str) :
    ∀ rest : Str, litTail q body = true → rest.head? ≠ some q →
      litEnd q (body ++ rest) = some body.length := by
  fun_induction litTail q body
  · intro rest h; simp at h
  · rename_i c
    intro rest h hr
    simp at h
    subst h
    cases rest with
    | nil => simp [litEnd]
    | cons d r =>
      have : d ≠ c := by intro e; subst e; simp at hr
      simp [litEnd, this]
  · rename_i c d r hc ih
    intro rest h hr
    simp at h
    obtain ⟨hd, ht⟩ := h
    have hcq : c = q := by simpa using hc
    subst hcq; subst hd
    simp [litEnd, ih rest ht hr]
  · rename_i c d r hc ih
    intro rest h hr
    have hcq : ¬ c = q := by simpa using hc
    have := ih rest h hr
    simp only [List.cons_append] at this ⊢
    simp [litEnd, hcq, this]

theorem litTail_nbspGo (q : Char) (hq : isQuote q = true) (body : Str) :
    ∀ b : Bool, litTail q body = true → litTail q (nbspGo b body) = true := by
  have hsp : q ≠ ' ' := by intro e; subst e; simp [isQuote] at hq
  have hnb : q ≠ nbspChar := by intro e; subst e; simp [isQuote, nbspChar] at hq
  fun_induction litTail q body
  · intro b h; simp at h
  · rename_i c
    intro b h
    simp at h
    subst h
    simp [nbspGo, hsp, litTail]
  · rename_i c d r hc ih
    intro b h
    simp at h
    obtain ⟨hd, ht⟩ := h
    have hcq : c = q := by simpa using hc
    subst hcq; subst hd
    cases r with
    | nil => simp [litTail] at ht
    | cons e r' =>
      have := ih false ht
      simp only [nbspGo, beq_iff_eq, hsp, if_false]
      simp [litTail, this]
  · rename_i c d r hc ih
    intro b h
    have hcq : ¬ c = q := by simpa using hc
    by_cases hcs : c = ' '
    · subst hcs
      have := ih true h
      simp only [nbspGo, beq_self_eq_true, if_true]
      split
      · cases hn : nbspGo true (d :: r) with
        | nil => rw [hn] at this; simp [litTail] at this
        | cons x xs => rw [hn] at this; simp [litTail, Ne.symm hnb, this]
      · cases hn : nbspGo true (d :: r) with
        | nil => rw [hn] at this; simp [litTail] at this
        | cons x xs => rw [hn] at this; simp [litTail, Ne.symm hsp, this]
    · have := ih false h
      simp only [nbspGo, beq_iff_eq, hcs, if_false]
      cases hn : nbspGo false (d :: r) with
      | nil => rw [hn] at this; simp [litTail] at this
      | cons x xs => rw [hn] at this; simp [litTail, hcq, this]

end Ford.Show

/-! ### the option `lower`: code is lower-cased, literals and placeholders are not -/

namespace Ford.Show

theorem lowerChar_of_isDigit (c : Char) (h : c.isDigit = true) : lowerChar c = c := by
  simp only [Char.isDigit, Bool.and_eq_true, decide_eq_true_eq] at h
  unfold lowerChar
  have : ¬ ('A' ≤ c ∧ c ≤ 'Z') := by
    intro ⟨h1, _⟩
    have h2 := h.2
    simp only [Char.le_def] at h1
    revert h1 h2
    generalize c.val = v
    intro a b
    have : ('A' : Char).val = 65 := by decide
    rw [this] at b
    exact absurd (UInt32.le_trans b a) (by decide)
  simp [this]

theorem map_id_of_mem (f : Char → Char) (s : Str) (h : ∀ c ∈ s, f c = c) : s.map f = s := by
  induction s with
  | nil => rfl
  | cons c cs ih => simp [h c (by simp), ih (fun d hd => h d (by simp [hd]))]

theorem lower_natStr (k : Nat) : lower (natStr k) = natStr k := by
  have h : ∀ c ∈ natStr k, lowerChar c = c := by
    intro c hc
    apply lowerChar_of_isDigit
    simp only [natStr, toString, Nat.repr, String.toList_ofList] at hc
    exact Nat.isDigit_of_mem_toDigits (by decide) (by decide) hc
  unfold lower
  exact map_id_of_mem _ _ h

theorem lower_append (a b : Str) : lower (a ++ b) = lower a ++ lower b := by simp [lower]

theorem lower_maskOf (k : Nat) : lower (maskOf k) = maskOf k := by
  have hq : lowerChar '"' = '"' := by decide
  have h := lower_natStr k
  simp only [lower] at h
  simp [maskOf, lower, hq, h]

theorem lower_segMasked (segs : List Seg) (k : Nat) :
    lower (segMasked segs k) = segMasked (lowerSegs segs) k := by
  fun_induction segMasked segs k <;> simp_all [lowerSegs, segMasked, lower_append, lower_maskOf]
  all_goals simp_all [lower]

theorem segStrings_lowerSegs (segs : List Seg) : segStrings (lowerSegs segs) = segStrings segs := by
  fun_induction lowerSegs segs <;> simp_all [segStrings]

theorem lowerChar_quote_ascii : ∀ m, m < 128 →
    (isQuote (lowerChar (Char.ofNat m)) = isQuote (Char.ofNat m)) ∧
    (lowerChar (Char.ofNat m) == '"') = (Char.ofNat m == '"') ∧
    (lowerChar (Char.ofNat m) == '\'') = (Char.ofNat m == '\'') := by decide

theorem lowerChar_big (c : Char) (h : ¬ c.toNat < 128) : lowerChar c = c := by
  unfold lowerChar
  have : ¬ ('A' ≤ c ∧ c ≤ 'Z') := by
    intro ⟨_, h2⟩
    apply h
    have h3 : c.val.toNat ≤ ('Z' : Char).val.toNat := UInt32.le_iff_toNat_le.1 (Char.le_def.1 h2)
    have h4 : ('Z' : Char).val.toNat = 90 := by decide
    have h5 : c.toNat = c.val.toNat := rfl
    omega
  simp [this]

theorem lowerChar_beq_quote (q c : Char) (hq : isQuote q = true) : (lowerChar c == q) = (c == q) := by
  by_cases h : c.toNat < 128
  · have := lowerChar_quote_ascii c.toNat h
    rw [Char.ofNat_toNat] at this
    simp [isQuote] at hq
    rcases hq with rfl | rfl
    · exact this.2.2
    · exact this.2.1
  · rw [lowerChar_big c h]

theorem isQuote_lowerChar (c : Char) : isQuote (lowerChar c) = isQuote c := by
  by_cases h : c.toNat < 128
  · have := lowerChar_quote_ascii c.toNat h
    rw [Char.ofNat_toNat] at this
    exact this.1
  · rw [lowerChar_big c h]

theorem litEnd_lower (q : Char) (hq : isQuote q = true) (s : Str) : litEnd q (lower s) = litEnd q s := by
  fun_induction litEnd q s <;> simp_all [lower, litEnd, lowerChar_beq_quote]

def CutSt.lowered : CutSt → CutSt
  | .lit n cur => .lit n (lower cur)
  | st => st

theorem verbExtra_lower (k : Nat) (cs : Str) : verbExtra k (lower cs) = verbExtra k cs := by
  have h : natStr k ++ '"' :: lower cs = lower (natStr k ++ '"' :: cs) := by
    have hq : lowerChar '"' = '"' := by decide
    have := lower_natStr k
    simp only [lower] at this
    simp [lower, hq, this]
  simp only [verbExtra, h, litEnd_lower '"' (by decide)]

theorem lower_reverse (s : Str) : lower s.reverse = (lower s).reverse := by simp [lower]

theorem lower_nil : lower [] = [] := rfl
theorem lower_cons (c : Char) (cs : Str) : lower (c :: cs) = lowerChar c :: lower cs := rfl
theorem lowered_scan : CutSt.scan.lowered = .scan := rfl
theorem lowered_verb (n : Nat) : (CutSt.verb n).lowered = .verb n := rfl
theorem lowered_lit (n : Nat) (cur : Str) : (CutSt.lit n cur).lowered = .lit n (lower cur) := rfl
theorem lowered_ite (c : Prop) [Decidable c] (n : Nat) :
    (if c then CutSt.scan else CutSt.verb n).lowered = (if c then CutSt.scan else CutSt.verb n) := by
  split <;> rfl
theorem lower_isEmpty (s : Str) : (lower s).isEmpty = s.isEmpty := by cases s <;> rfl

theorem cutGo_lower (cs : Str) (k : Nat) (st : CutSt) :
    cutGo (lower cs) k st.lowered = lowerAllSegs (cutGo cs k st) := by
  fun_induction cutGo cs k st
  · simp_all [lower_nil, lowered_lit, cutGo, lowerAllSegs]
  · simp_all [lower_nil, lowered_lit, cutGo, lowerAllSegs, lower_isEmpty, lower_reverse]
  · rename_i k st h
    cases st <;> simp_all [lower_nil, lowered_scan, lowered_verb, cutGo, lowerAllSegs]
  · rename_i c cs k skip cur h ih
    rw [lowered_ite] at ih
    simp only [beq_iff_eq] at ih
    simp [lower_cons, lowered_lit, cutGo, h, lowerAllSegs, verbExtra_lower]
    exact ⟨by simp [lower], by simpa [lower] using ih⟩
  · rename_i c cs k skip cur h ih
    have h' : ¬ skip ≤ 1 := by omega
    simp only [lowered_lit, lower_cons] at ih ⊢
    simp [cutGo, h', ih]
  · rename_i c cs k n ih
    rw [lowered_ite] at ih
    simp [lower_cons, lowered_verb, cutGo, lowerAllSegs, ih]
  · rename_i c cs k hq n hl ih
    simp only [lowered_lit, lower_cons, lower_nil, lowered_scan] at ih ⊢
    have hl' : litEnd (lowerChar c) (lower cs) = some n := by
      have : lowerChar c = c := by
        have := lowerChar_beq_quote c c hq
        simpa using this
      rw [this, litEnd_lower c hq, hl]
    simp [cutGo, isQuote_lowerChar, hq, hl', ih]
  · rename_i c cs k hq hl ih
    simp only [lower_cons, lowered_scan] at ih ⊢
    have hl' : litEnd (lowerChar c) (lower cs) = none := by
      have : lowerChar c = c := by
        have := lowerChar_beq_quote c c hq
        simpa using this
      rw [this, litEnd_lower c hq, hl]
    simp [cutGo, isQuote_lowerChar, hq, hl', ih, lowerAllSegs]
  · rename_i c cs k hq ih
    simp only [lower_cons, lowered_scan] at ih ⊢
    simp [cutGo, isQuote_lowerChar, hq, ih, lowerAllSegs]


theorem lowerChar_idem_ascii : ∀ m, m < 128 →
    lowerChar (lowerChar (Char.ofNat m)) = lowerChar (Char.ofNat m) := by decide

theorem lowerChar_idem (c : Char) : lowerChar (lowerChar c) = lowerChar c := by
  by_cases h : c.toNat < 128
  · have := lowerChar_idem_ascii c.toNat h
    rw [Char.ofNat_toNat] at this
    exact this
  · rw [lowerChar_big c h, lowerChar_big c h]

theorem lower_segOriginal_lowerSegs (segs : List Seg) :
    lower (segOriginal (lowerSegs segs)) = lower (segOriginal segs) := by
  fun_induction lowerSegs segs <;> simp_all [segOriginal, lower_cons, lowerChar_idem, lower_append]

theorem segStrings_lowerAllSegs (segs : List Seg) :
    segStrings (lowerAllSegs segs) = (segStrings segs).map lower := by
  fun_induction lowerAllSegs segs <;> simp_all [segStrings]

theorem segMasked_lowerAllSegs (segs : List Seg) (k : Nat) :
    segMasked (lowerAllSegs segs) k = segMasked (lowerSegs segs) k := by
  fun_induction segMasked segs k <;> simp_all [lowerAllSegs, lowerSegs, segMasked]

end Ford.Show
