import FordModel.Settings
namespace Ford.Settings

/-! ### association lists -/

theorem aget_aset_eq {α : Type} (k : Str) (v : α) (l : List (Str × α)) : aget k (aset k v l) = some v := by
  induction l with
  | nil => simp [aset, aget]
  | cons e r ih =>
    obtain ⟨k', v'⟩ := e
    by_cases h : k' = k
    · simp [aset, aget, h]
    · simp [aset, aget, h, ih]

theorem aget_aset_ne {α : Type} (k k' : Str) (v : α) (l : List (Str × α)) (h : k' ≠ k) :
    aget k' (aset k v l) = aget k' l := by
  induction l with
  | nil => simp [aset, aget, Ne.symm h]
  | cons e r ih =>
    obtain ⟨k2, v2⟩ := e
    by_cases h2 : k2 = k
    · subst h2
      simp [aset, aget, Ne.symm h]
    · by_cases h3 : k2 = k'
      · subst h3
        simp [aset, aget, h2]
      · simp [aset, aget, h2, h3, ih]

theorem aget_none_of_not_mem {α : Type} (k : Str) (l : List (Str × α)) (h : k ∉ l.map (·.1)) :
    aget k l = none := by
  induction l with
  | nil => rfl
  | cons e r ih =>
    obtain ⟨k2, v2⟩ := e
    simp at h
    have h1 : k2 ≠ k := fun hh => h.1 hh.symm
    simp [aget, h1]
    exact ih (by simpa using h.2)

/-! ### precedence: later assignment wins, untouched keys keep their value -/

theorem aget_applyConfig_none (cfg s : Settings) (k : Str) (h : aget k cfg = none) :
    aget k (applyConfig cfg s) = aget k s := by
  induction cfg generalizing s with
  | nil => rfl
  | cons e r ih =>
    obtain ⟨k', v'⟩ := e
    by_cases hk : k' = k
    · simp [aget, hk] at h
    · simp [aget, hk] at h
      simp [applyConfig, ih _ h, aget_aset_ne _ _ _ _ (Ne.symm hk)]

theorem aget_applyConfig_some (cfg s : Settings) (k : Str) (v : PyVal)
    (hnd : (cfg.map (·.1)).Nodup) (h : aget k cfg = some v) :
    aget k (applyConfig cfg s) = some v := by
  induction cfg generalizing s with
  | nil => simp [aget] at h
  | cons e r ih =>
    obtain ⟨k', v'⟩ := e
    rw [List.map_cons, List.nodup_cons] at hnd
    by_cases hk : k' = k
    · subst hk
      simp [aget] at h
      subst h
      have hr : aget k' r = none := aget_none_of_not_mem _ _ hnd.1
      simp [applyConfig, aget_applyConfig_none _ _ _ hr, aget_aset_eq]
    · simp [aget, hk] at h
      simp [applyConfig]
      exact ih _ hnd.2 h


theorem aget_applyCli_none (schema : List (Str × Tag × PyVal)) (seps : List (Str × Str))
    (cli s s' : Settings) (k : Str) (h : aget k cli = none)
    (hr : applyCli schema seps cli s = .ok s') : aget k s' = aget k s := by
  induction cli generalizing s with
  | nil => simp [applyCli] at hr; subst hr; rfl
  | cons e r ih =>
    obtain ⟨k', v'⟩ := e
    by_cases hk : k' = k
    · simp [aget, hk] at h
    · simp [aget, hk] at h
      simp only [applyCli] at hr
      split at hr
      · rw [ih _ h hr, aget_aset_ne _ _ _ _ (Ne.symm hk)]
      · split at hr
        · simp at hr
        · rw [ih _ h hr, aget_aset_ne _ _ _ _ (Ne.symm hk)]

theorem aget_applyCli_some (schema : List (Str × Tag × PyVal)) (seps : List (Str × Str))
    (cli s s' : Settings) (k : Str) (v : PyVal) (t : Tag)
    (hnd : (cli.map (·.1)).Nodup) (h : aget k cli = some v) (ht : tagOf schema k = some t)
    (hr : applyCli schema seps cli s = .ok s') :
    ∃ w, convertSetting seps t k v = .ok w ∧ aget k s' = some w := by
  induction cli generalizing s with
  | nil => simp [aget] at h
  | cons e r ih =>
    obtain ⟨k', v'⟩ := e
    rw [List.map_cons, List.nodup_cons] at hnd
    by_cases hk : k' = k
    · subst hk
      simp [aget] at h
      subst h
      have hrn : aget k' r = none := aget_none_of_not_mem _ _ hnd.1
      simp only [applyCli, ht] at hr
      split at hr
      · simp at hr
      · rename_i w hw
        exact ⟨w, hw, by rw [aget_applyCli_none _ _ _ _ _ _ hrn hr, aget_aset_eq]⟩
    · simp [aget, hk] at h
      simp only [applyCli] at hr
      split at hr
      · exact ih _ hnd.2 h hr
      · split at hr
        · simp at hr
        · exact ih _ hnd.2 h hr

/-! ### the argparse namespace built from the (dest, action, default) table -/

/-- every attribute of the namespace is a `dest` of the table -/
theorem aget_cliNamespace_not_mem (table : List (Str × CliKind × Option PyVal)) (given : Settings) (k : Str)
    (h : k ∉ table.map (·.1)) : aget k (cliNamespace table given) = none := by
  induction table with
  | nil => rfl
  | cons e r ih =>
    obtain ⟨d, kd, dl⟩ := e
    simp only [List.map_cons, List.mem_cons, not_or] at h
    have hr := ih h.2
    have hne : (d == k) = false := by simpa using (Ne.symm h.1)
    simp only [cliNamespace]
    split
    · simp [aget, hne, hr]
    · split
      · simp [aget, hne, hr]
      · exact hr

/-- when every default is `None`, an option that was not given is not in the namespace -/
theorem aget_cliNamespace_none (table : List (Str × CliKind × Option PyVal)) (given : Settings) (k : Str)
    (hdef : ∀ e ∈ table, e.2.2 = none) (h : aget k given = none) :
    aget k (cliNamespace table given) = none := by
  induction table with
  | nil => rfl
  | cons e r ih =>
    obtain ⟨d, kd, dl⟩ := e
    have hd : dl = none := hdef (d, kd, dl) (by simp)
    have hr := ih (fun e he => hdef e (by simp [he]))
    subst hd
    simp only [cliNamespace]
    by_cases hk : d = k
    · subst hk
      simp [h, hr]
    · have hne : (d == k) = false := by simpa using hk
      split
      · simp [aget, hne, hr]
      · exact hr

/-- when every default is `None`, an option of the table that was given holds the given value -/
theorem aget_cliNamespace_given (table : List (Str × CliKind × Option PyVal)) (given : Settings) (k : Str)
    (hdef : ∀ e ∈ table, e.2.2 = none) (hk : k ∈ table.map (·.1)) :
    aget k (cliNamespace table given) = aget k given := by
  induction table with
  | nil => simp at hk
  | cons e r ih =>
    obtain ⟨d, kd, dl⟩ := e
    have hd : dl = none := hdef (d, kd, dl) (by simp)
    subst hd
    by_cases hdk : d = k
    · subst hdk
      simp only [cliNamespace]
      cases hg : aget d given with
      | some v => simp [aget]
      | none => simpa using aget_cliNamespace_none r given d (fun e he => hdef e (by simp [he])) hg
    · have hne : (d == k) = false := by simpa using hdk
      have hk' : k ∈ r.map (·.1) := by
        simp only [List.map_cons, List.mem_cons] at hk
        rcases hk with hk | hk
        · exact absurd hk.symm hdk
        · exact hk
      have hr := ih (fun e he => hdef e (by simp [he])) hk'
      simp only [cliNamespace]
      split
      · simp [aget, hne, hr]
      · exact hr

/-- the attribute names of the namespace are a sublist of the table's `dest`s -/
theorem cliNamespace_keys_sublist (table : List (Str × CliKind × Option PyVal)) (given : Settings) :
    ((cliNamespace table given).map (·.1)).Sublist (table.map (·.1)) := by
  induction table with
  | nil => simp [cliNamespace]
  | cons e r ih =>
    obtain ⟨d, kd, dl⟩ := e
    simp only [cliNamespace]
    split
    · simpa using ih
    · split
      · simpa using ih
      · exact List.Sublist.cons _ ih

theorem cliNamespace_keys_nodup (table : List (Str × CliKind × Option PyVal)) (given : Settings)
    (h : (table.map (·.1)).Nodup) : ((cliNamespace table given).map (·.1)).Nodup :=
  List.Nodup.sublist (cliNamespace_keys_sublist table given) h

/-- a default that is not `None` is in the namespace although the option was not given -/
theorem aget_cliNamespace_default (table : List (Str × CliKind × Option PyVal)) (given : Settings)
    (k : Str) (kd : CliKind) (d : PyVal) (r : List (Str × CliKind × Option PyVal))
    (ht : table = (k, kd, some d) :: r) (h : aget k given = none) :
    aget k (cliNamespace table given) = some d := by
  subst ht
  simp [cliNamespace, h, aget]

/-! ### `extra_mods` and the built-in module table -/

theorem aget_overlayMods_none (mods d : List (Str × Atom)) (k : Str) (h : aget k mods = none) :
    aget k (overlayMods mods d) = aget k d := by
  induction mods generalizing d with
  | nil => rfl
  | cons e r ih =>
    obtain ⟨k', v'⟩ := e
    by_cases hk : k' = k
    · simp [aget, hk] at h
    · simp [aget, hk] at h
      simp [overlayMods, ih _ h, aget_aset_ne _ _ _ _ (Ne.symm hk)]

theorem aget_overlayMods_some (mods d : List (Str × Atom)) (k : Str) (v : Atom)
    (hnd : (mods.map (·.1)).Nodup) (h : aget k mods = some v) :
    aget k (overlayMods mods d) = some v := by
  induction mods generalizing d with
  | nil => simp [aget] at h
  | cons e r ih =>
    obtain ⟨k', v'⟩ := e
    rw [List.map_cons, List.nodup_cons] at hnd
    by_cases hk : k' = k
    · subst hk
      simp [aget] at h
      subst h
      have hr : aget k' r = none := aget_none_of_not_mem _ _ hnd.1
      simp [overlayMods, aget_overlayMods_none _ _ _ hr, aget_aset_eq]
    · simp [aget, hk] at h
      simp [overlayMods]
      exact ih _ hnd.2 h

theorem aget_updateAll_not_mem (intrinsic : List (Str × Str)) (d : List (Str × Atom)) (k : Str)
    (h : k ∉ intrinsic.map (·.1)) : aget k (updateAll intrinsic d) = aget k d := by
  induction intrinsic generalizing d with
  | nil => rfl
  | cons e r ih =>
    obtain ⟨k', v'⟩ := e
    simp only [List.map_cons, List.mem_cons, not_or] at h
    simp [updateAll, ih _ h.2, aget_aset_ne _ _ _ _ h.1]

theorem aget_updateAll_mem (intrinsic : List (Str × Str)) (d : List (Str × Atom)) (k : Str)
    (h : k ∈ intrinsic.map (·.1)) : ∃ u, (k, u) ∈ intrinsic ∧ aget k (updateAll intrinsic d) = some (.str u) := by
  induction intrinsic generalizing d with
  | nil => simp at h
  | cons e r ih =>
    obtain ⟨k', v'⟩ := e
    by_cases hr : k ∈ r.map (·.1)
    · obtain ⟨u, hu, hg⟩ := ih (aset k' (.str v') d) hr
      exact ⟨u, by simp [hu], by simpa [updateAll] using hg⟩
    · have hk : k = k' := by
        simp only [List.map_cons, List.mem_cons] at h
        rcases h with h | h
        · exact h
        · exact absurd h hr
      subst hk
      exact ⟨v', by simp, by simp [updateAll, aget_updateAll_not_mem _ _ _ hr, aget_aset_eq]⟩

theorem aget_overlay_none (schema : List (Str × Tag × PyVal)) (kw s s' : Settings) (k : Str)
    (h : aget k kw = none) (hr : overlay schema kw s = .ok s') : aget k s' = aget k s := by
  induction kw generalizing s with
  | nil => simp [overlay] at hr; subst hr; rfl
  | cons e r ih =>
    obtain ⟨k', v'⟩ := e
    by_cases hk : k' = k
    · simp [aget, hk] at h
    · simp [aget, hk] at h
      simp only [overlay] at hr
      split at hr
      · simp at hr
      · simp at hr
      · rw [ih _ h hr, aget_aset_ne _ _ _ _ (Ne.symm hk)]

theorem aget_overlay_some (schema : List (Str × Tag × PyVal)) (kw s s' : Settings) (k : Str) (v : PyVal)
    (hnd : (kw.map (·.1)).Nodup) (h : aget k kw = some v) (hr : overlay schema kw s = .ok s') :
    aget k s' = some v := by
  induction kw generalizing s with
  | nil => simp [aget] at h
  | cons e r ih =>
    obtain ⟨k', v'⟩ := e
    rw [List.map_cons, List.nodup_cons] at hnd
    by_cases hk : k' = k
    · subst hk
      simp [aget] at h
      subst h
      have hrn : aget k' r = none := aget_none_of_not_mem _ _ hnd.1
      simp only [overlay] at hr
      split at hr
      · simp at hr
      · simp at hr
      · rw [aget_overlay_none _ _ _ _ _ hrn hr, aget_aset_eq]
    · simp [aget, hk] at h
      simp only [overlay] at hr
      split at hr
      · simp at hr
      · simp at hr
      · exact ih _ hnd.2 h hr

/-- an unknown keyword makes `ProjectSettings(**kw)` raise -/
theorem overlay_unknown (schema : List (Str × Tag × PyVal)) (kw s : Settings) (k : Str)
    (hk : k ∈ kw.map (·.1)) (hs : tagOf schema k = none) : ∃ k', overlay schema kw s = .error (.unknownKw k') := by
  induction kw generalizing s with
  | nil => simp at hk
  | cons e r ih =>
    obtain ⟨k', v'⟩ := e
    simp only [overlay]
    split
    · exact ⟨_, rfl⟩
    · exact ⟨_, rfl⟩
    · rename_i t hne ht
      have : k' ≠ k := by
        intro hh; subst hh; rw [hs] at ht; cases ht
      simp at hk
      rcases hk with hk | hk
      · exact absurd hk.symm this
      · exact ih _ (by simpa using hk)


/-! ### `convert_setting` -/

theorem convertDict_ok_dict (seps : List (Str × Str)) (t : Tag) (key : Str) (xs : List Str) (w : PyVal)
    (h : convertDict seps t key xs = .ok w) : ∃ d, w = .dict d := by
  unfold convertDict convertDictF at h
  split at h
  · split at h
    · simp at h; exact ⟨_, h.symm⟩
    · simp at h
  · split at h
    · split at h
      · simp at h; exact ⟨_, h.symm⟩
      · simp at h
    · simp at h

theorem convertToBool_ok (key : Str) (v w : PyVal) (h : convertToBool key v = .ok w) : ∃ b, w = .atom (.bool b) := by
  unfold convertToBool at h
  split at h
  · split at h
    · simp at h; exact ⟨_, h.symm⟩
    · simp at h
  · simp at h; exact ⟨_, h.symm⟩
  · simp at h
  · simp at h

/-- `convert_setting` is idempotent on its own results (the code applies it twice to metadata:
    in `load_markdown_settings` and again in `from_markdown_metadata`). -/
theorem convertSetting_idem (seps : List (Str × Str)) (t : Tag) (key : Str) (v w : PyVal)
    (h : convertSetting seps t key v = .ok w) : convertSetting seps t key w = .ok w := by
  unfold convertSetting at h
  split at h
  · simp at h; subst h; rename_i hs; simp [convertSetting, hs]
  · rename_i hs
    split at h
    · split at h
      · simp at h; subst h; simp [convertSetting, sameType]
      · simp at h
    · obtain ⟨b, hb⟩ := convertToBool_ok _ _ _ h; subst hb; simp [convertSetting, sameType]
    · obtain ⟨b, hb⟩ := convertToBool_ok _ _ _ h; subst hb; simp [convertSetting, sameType]
    · split at h
      · split at h
        · simp at h; subst h; simp [convertSetting, sameType]
        · simp at h
      · simp at h
    case h_5 | h_6 | h_7 | h_8 =>
      split at h
      · split at h
        · simp at h; subst h; simp [convertSetting, sameType]
        · simp at h
      · simp at h; subst h
        rename_i hnl
        cases v <;> simp_all [convertSetting, sameType]
    case h_9 | h_10 =>
      split at h
      · simp at h; subst h; simp [convertSetting, sameType]
      · obtain ⟨d, hd⟩ := convertDict_ok_dict _ _ _ _ _ h; subst hd; simp [convertSetting, sameType]
      · split at h
        · obtain ⟨d, hd⟩ := convertDict_ok_dict _ _ _ _ _ h; subst hd; simp [convertSetting, sameType]
        · simp at h
      · simp at h
    case h_11 | h_12 | h_13 =>
      simp at h; subst h
      simp [convertSetting, hs]


/-- the shape of every value that comes out of `meta_preprocessor` -/
def mdVal (xs : List Str) : PyVal := .list (xs.map .str)

theorem allStrs_map_str (xs : List Str) : allStrs (xs.map .str) = some xs := by
  induction xs with
  | nil => rfl
  | cons x r ih => simp [allStrs, ih]

theorem parseToDict_err (sep : Char) (key : Str) (xs : List Str) (acc : List (Str × Atom)) (e : Err)
    (h : parseToDict sep key xs acc = .error e) : e = .dictSep key := by
  induction xs generalizing acc with
  | nil => simp [parseToDict] at h
  | cons x r ih =>
    simp only [parseToDict] at h
    split at h
    · simp at h; exact h.symm
    · exact ih _ h

theorem eftDict_err (xs : List Str) (acc : List (Str × Atom)) (e : Err)
    (h : eftDict xs acc = .error e) : e = .eftBad := by
  induction xs generalizing acc with
  | nil => simp [eftDict] at h
  | cons x r ih =>
    simp only [eftDict] at h
    split at h
    · rename_i e' he
      simp at h; subst h
      unfold eftFromString at he
      split at he <;> simp at he
      exact he.symm
    · exact ih _ h

theorem convertDict_err (seps : List (Str × Str)) (t : Tag) (key : Str) (xs : List Str) (e : Err)
    (h : convertDict seps t key xs = .error e) : e = .eftBad ∨ e.names = some key := by
  unfold convertDict convertDictF at h
  split at h
  · split at h
    · simp at h
    · rename_i e' he
      simp at h; subst h
      exact Or.inl (eftDict_err _ _ _ he)
  · split at h
    · split at h
      · simp at h
      · rename_i e' he
        simp at h; subst h
        rw [parseToDict_err _ _ _ _ _ he]
        exact Or.inr rfl
    · simp at h; subst h; exact Or.inr rfl

/-- On a metadata-shaped value (non-empty list of strings) `convert_setting` never leaves the
    modelled fragment, and every error except the two listed ones names the option. -/
theorem convertSetting_md_error (seps : List (Str × Str)) (t : Tag) (key : Str) (xs : List Str) (e : Err)
    (hne : xs ≠ []) (h : convertSetting seps t key (mdVal xs) = .error e) :
    e = .intBad ∨ e = .eftBad ∨ e.names = some key := by
  obtain ⟨x, r, rfl⟩ : ∃ x r, xs = x :: r := by
    cases xs with
    | nil => exact absurd rfl hne
    | cons x r => exact ⟨x, r, rfl⟩
  cases t <;> simp only [convertSetting, mdVal, sameType, List.map_cons] at h
  case bool | noInit =>
    cases r with
    | nil =>
      simp [convertToBool] at h
      split at h <;> simp at h
      subst h; exact Or.inr (Or.inr rfl)
    | cons y r' =>
      simp [convertToBool] at h
      subst h; exact Or.inr (Or.inr rfl)
  case int =>
    simp at h
    split at h <;> simp at h
    exact Or.inl h.symm
  case str | optStr | path | optPath =>
    have := allStrs_map_str (x :: r)
    simp only [List.map_cons] at this
    simp [this] at h
  case dictStr | dictEft =>
    have := allStrs_map_str (x :: r)
    simp only [List.map_cons] at this
    simp [this] at h
    rcases convertDict_err _ _ _ _ _ h with h1 | h1
    · exact Or.inr (Or.inl h1)
    · exact Or.inr (Or.inr h1)
  all_goals simp at h


/-! ### `convert_types_from_metapreprocessor` -/

theorem convertMeta_idem (schema : List (Str × Tag × PyVal)) (seps : List (Str × Str))
    (m s : Settings) (w : List Str) (h : convertMeta schema seps m = .ok (s, w)) :
    convertMeta schema seps s = .ok (s, []) := by
  induction m generalizing s w with
  | nil => simp [convertMeta] at h; rw [h.1]; rfl
  | cons e r ih =>
    obtain ⟨k, v⟩ := e
    simp only [convertMeta] at h
    split at h
    · split at h
      · rename_i s' w' hr
        simp at h
        rw [← h.1]
        exact ih _ _ hr
      · simp at h
    · rename_i t ht
      split at h
      · simp at h
      · rename_i v' hv
        split at h
        · rename_i s' w' hr
          simp at h
          rw [← h.1]
          simp only [convertMeta, ht, convertSetting_idem _ _ _ _ _ hv, ih _ _ hr]
        · simp at h

/-- an unknown key anywhere in the metadata is reported and changes nothing else -/
theorem convertMeta_unknown_ok (schema : List (Str × Tag × PyVal)) (seps : List (Str × Str))
    (m1 m2 s : Settings) (w : List Str) (k : Str) (v : PyVal) (hk : tagOf schema k = none)
    (h : convertMeta schema seps (m1 ++ m2) = .ok (s, w)) :
    ∃ w', convertMeta schema seps (m1 ++ (k, v) :: m2) = .ok (s, w') ∧ k ∈ w' ∧ ∀ x ∈ w, x ∈ w' := by
  induction m1 generalizing s w with
  | nil =>
    simp only [List.nil_append] at h ⊢
    exact ⟨k :: w, by simp [convertMeta, hk, h], by simp, fun x hx => by simp [hx]⟩
  | cons e r ih =>
    obtain ⟨k1, v1⟩ := e
    simp only [List.cons_append, convertMeta] at h ⊢
    split at h
    · rename_i ht
      split at h
      · rename_i s' w0 hr
        simp at h
        obtain ⟨w', hw', hin, hsub⟩ := ih _ _ hr
        refine ⟨k1 :: w', by simp [ht, hw', h.1], by simp [hin], ?_⟩
        intro x hx
        rw [← h.2] at hx
        simp at hx
        rcases hx with hx | hx
        · simp [hx]
        · simp [hsub x hx]
      · simp at h
    · rename_i t ht
      split at h
      · simp at h
      · rename_i v' hv
        split at h
        · rename_i s' w0 hr
          simp at h
          obtain ⟨w', hw', hin, hsub⟩ := ih _ _ hr
          refine ⟨w', by simp [ht, hv, hw', h.1], hin, ?_⟩
          intro x hx
          rw [← h.2] at hx
          exact hsub x hx
        · simp at h


/-! ### paths -/

def normalSeg (s : Str) : Bool := !(s == [] || s == ['.'] || s == ['.', '.'])

theorem splitCharAux_append (c : Char) (a b cur : Str) :
    splitCharAux c (a ++ c :: b) cur = splitCharAux c a cur ++ splitCharAux c b [] := by
  induction a generalizing cur with
  | nil => simp [splitCharAux]
  | cons x r ih =>
    by_cases hx : x = c
    · simp [splitCharAux, hx, ih]
    · simp [splitCharAux, hx, ih]

theorem splitCharAux_no_sep (c : Char) (s cur : Str) (h : c ∉ s) :
    splitCharAux c s cur = [cur.reverse ++ s] := by
  induction s generalizing cur with
  | nil => simp [splitCharAux]
  | cons x r ih =>
    simp at h
    have hx : x ≠ c := fun hh => h.1 hh.symm
    simp [splitCharAux, hx, ih _ h.2]

theorem splitCharAux_pieces (c : Char) (s cur : Str) (hc : c ∉ cur) :
    ∀ seg ∈ splitCharAux c s cur, c ∉ seg := by
  induction s generalizing cur with
  | nil => simp [splitCharAux]; exact hc
  | cons x r ih =>
    by_cases hx : x = c
    · simp only [splitCharAux, hx, beq_self_eq_true, if_true]
      intro seg hseg
      simp at hseg
      rcases hseg with hseg | hseg
      · subst hseg; simpa using hc
      · exact ih [] (by simp) seg hseg
    · simp only [splitCharAux, hx, beq_iff_eq, if_false]
      exact ih (x :: cur) (by simp [hc, Ne.symm hx])

theorem splitChar_joinSep (c : Char) (segs : List Str) (hne : segs ≠ []) (h : ∀ seg ∈ segs, c ∉ seg) :
    splitChar c (joinSep c segs) = segs := by
  induction segs with
  | nil => exact absurd rfl hne
  | cons x r ih =>
    cases r with
    | nil => simp [joinSep, splitChar, splitCharAux_no_sep c x [] (h x (by simp))]
    | cons y r' =>
      simp only [joinSep, splitChar]
      rw [splitCharAux_append, splitCharAux_no_sep c x [] (h x (by simp))]
      have := ih (by simp) (fun seg hs => h seg (by simp [hs]))
      simp only [splitChar] at this
      simp [this]

theorem normSegs_append (xs ys acc : List Str) :
    normSegs (xs ++ ys) acc = normSegs ys (normSegs xs acc).reverse := by
  induction xs generalizing acc with
  | nil => simp [normSegs]
  | cons x r ih =>
    simp only [List.cons_append, normSegs]
    split
    · exact ih _
    · split
      · exact ih _
      · exact ih _

theorem normSegs_normal (segs acc : List Str) (h : ∀ a ∈ acc, normalSeg a = true) :
    ∀ a ∈ normSegs segs acc, normalSeg a = true := by
  induction segs generalizing acc with
  | nil => simpa [normSegs] using h
  | cons x r ih =>
    simp only [normSegs]
    split
    · exact ih _ h
    · split
      · exact ih _ (fun a ha => h a (List.mem_of_mem_tail ha))
      · rename_i h1 h2
        refine ih _ ?_
        intro a ha
        simp at ha
        rcases ha with ha | ha
        · subst ha
          simp [normalSeg]
          simp at h1 h2
          exact ⟨⟨h1.1, h1.2⟩, h2⟩
        · exact h a ha

theorem normSegs_keeps (c : Char) (segs acc : List Str) (h1 : ∀ a ∈ acc, c ∉ a) (h2 : ∀ a ∈ segs, c ∉ a) :
    ∀ a ∈ normSegs segs acc, c ∉ a := by
  induction segs generalizing acc with
  | nil => simpa [normSegs] using h1
  | cons x r ih =>
    simp only [normSegs]
    split
    · exact ih _ h1 (fun a ha => h2 a (by simp [ha]))
    · split
      · exact ih _ (fun a ha => h1 a (List.mem_of_mem_tail ha)) (fun a ha => h2 a (by simp [ha]))
      · refine ih _ ?_ (fun a ha => h2 a (by simp [ha]))
        intro a ha
        simp at ha
        rcases ha with ha | ha
        · subst ha; exact h2 a (by simp)
        · exact h1 a ha

theorem normSegs_of_normal (segs acc : List Str) (h : ∀ a ∈ segs, normalSeg a = true) :
    normSegs segs acc = acc.reverse ++ segs := by
  induction segs generalizing acc with
  | nil => simp [normSegs]
  | cons x r ih =>
    have hx := h x (by simp)
    simp [normalSeg] at hx
    simp [normSegs, hx, ih _ (fun a ha => h a (by simp [ha]))]

/-! ### `normalise_paths`: sentinel tests and the normalisation loop -/

/-- a raw sentinel test (`self.f == SENTINEL`) never fires on a string -/
theorem sentinelHit_raw_str (sent p : Str) : sentinelHit false sent (.atom (.str p)) = some false := by
  simp [sentinelHit]

/-- a raw sentinel test fires only on the `Path` equal to the sentinel -/
theorem sentinelHit_raw_true (sent : Str) (v : PyVal) (h : sentinelHit false sent v = some true) :
    v = .atom (.path sent) := by
  unfold sentinelHit at h
  split at h <;> simp_all

/-- raw sentinel tests leave alone every field that does not hold a `Path` object (a string, a
    list, ...: anything a settings file, `--config` or the command line delivers) -/
theorem aget_applySentinels_nonpath (dir pkg : Str) (tests : List (Str × Bool × Str × SentinelRepl))
    (s s' : Settings) (k : Str) (v : PyVal) (hraw : ∀ e ∈ tests, e.2.1 = false)
    (hv : ∀ q, v ≠ .atom (.path q))
    (hk : aget k s = some v) (h : applySentinels dir pkg tests s = .ok s') :
    aget k s' = some v := by
  induction tests generalizing s with
  | nil =>
    simp [applySentinels] at h
    subst h
    exact hk
  | cons e r ih =>
    obtain ⟨f, coerce, sent, repl⟩ := e
    have hc : coerce = false := hraw (f, coerce, sent, repl) (by simp)
    subst hc
    have hr : ∀ e ∈ r, e.2.1 = false := fun e he => hraw e (by simp [he])
    simp only [applySentinels] at h
    cases hh : sentinelHit false sent ((aget f s).getD .none) with
    | none => simp [hh] at h
    | some b =>
      cases b with
      | false =>
        simp only [hh] at h
        exact ih s hr hk h
      | true =>
        simp only [hh] at h
        have hv' := sentinelHit_raw_true sent _ hh
        have hne : k ≠ f := by
          intro hkf
          subst hkf
          simp [hk] at hv'
          exact hv sent hv'
        exact ih _ hr (by rw [aget_aset_ne _ _ _ _ hne]; exact hk) h

/-- the loop of `normalise_paths` acts field by field: each field holds the normalisation of
    what it held, according to its declared type -/
theorem aget_normAll (schema : List (Str × Tag × PyVal)) (dir : Str) (s s' : Settings) (k : Str) (v : PyVal)
    (hk : aget k s = some v) (h : normAll schema dir s = .ok s') :
    ∃ v', normField dir (tagOf schema k) v = .ok v' ∧ aget k s' = some v' := by
  induction s generalizing s' with
  | nil => simp [aget] at hk
  | cons e r ih =>
    obtain ⟨k2, v2⟩ := e
    simp only [normAll] at h
    cases h1 : normField dir (tagOf schema k2) v2 with
    | error e => simp [h1] at h
    | ok w =>
      cases h2 : normAll schema dir r with
      | error e => simp [h1, h2] at h
      | ok r' =>
        simp [h1, h2] at h
        subst h
        by_cases hkk : k2 = k
        · subst hkk
          simp [aget] at hk
          subst hk
          exact ⟨w, h1, by simp [aget]⟩
        · simp [aget, hkk] at hk
          obtain ⟨v', hv1, hv2⟩ := ih r' hk h2
          exact ⟨v', hv1, by simp [aget, hkk, hv2]⟩

theorem normAtoms_strs (dir : Str) (ps : List Str) :
    normAtoms dir (ps.map .str) = some (ps.map (fun p => .path (normPath dir p))) := by
  induction ps with
  | nil => rfl
  | cons p r ih => simp [normAtoms, normAtom, ih]

/-- `normalise_paths` with raw sentinel tests, on a field that does not hold a `Path` object: the
    field ends up with the normalisation (by its declared type) of what it held -/
theorem aget_normalisePaths (schema : List (Str × Tag × PyVal)) (tests : List (Str × Bool × Str × SentinelRepl))
    (dir pkg : Str) (s s' : Settings) (k : Str) (v : PyVal)
    (hraw : ∀ e ∈ tests, e.2.1 = false)
    (hd : k ≠ "directory".toList) (hu : k ≠ "project_url".toList)
    (hk : aget k s = some v ∧ ∀ q, v ≠ .atom (.path q))
    (h : normalisePaths schema tests dir pkg s = .ok s') :
    ∃ v', normField dir (tagOf schema k) v = .ok v' ∧ aget k s' = some v' := by
  unfold normalisePaths at h
  generalize "directory".toList = D at hd h
  generalize "project_url".toList = U at hu h
  generalize getD "output_dir" = G at h
  generalize getD "relative" = R at h
  dsimp only at h
  cases h1 : applySentinels dir pkg tests (aset D (.atom (.path dir)) s) with
  | error e => rw [h1] at h; cases h
  | ok s1 =>
    have hk1 := aget_applySentinels_nonpath dir pkg tests _ s1 k v hraw hk.2
      (by rw [aget_aset_ne _ _ _ _ hd]; exact hk.1) h1
    rw [h1] at h
    dsimp only at h
    cases h2 : normAll schema dir s1 with
    | error e => rw [h2] at h; cases h
    | ok s2 =>
      obtain ⟨v', hv1, hv2⟩ := aget_normAll schema dir s1 s2 k _ hk1 h2
      refine ⟨v', hv1, ?_⟩
      rw [h2] at h
      dsimp only at h
      split at h
      · cases h
        rw [aget_aset_ne _ _ _ _ hu]
        exact hv2
      · cases h
        exact hv2

end Ford.Settings
