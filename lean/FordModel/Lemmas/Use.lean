import FordModel.Lemmas.UseSpec
import FordModel.Lemmas.UseAccess
set_option linter.unusedVariables false
namespace Ford.Use

/-! ### association lists -/

theorem aget_mem {α : Type} (t : AList α) (l : Str) (e : α) (h : aget t l = some e) : (l, e) ∈ t := by
  induction t with
  | nil => simp [aget] at h
  | cons p t ih =>
    obtain ⟨k, v⟩ := p
    by_cases hk : k = l
    · simp [aget, hk] at h; simp [hk, h]
    · simp [aget, hk] at h; exact List.mem_cons_of_mem _ (ih h)

theorem hasKey_of_mem {α : Type} (t : AList α) (l : Str) (e : α) (h : (l, e) ∈ t) : hasKey t l := by
  induction t with
  | nil => simp at h
  | cons p t ih =>
    obtain ⟨k, v⟩ := p
    by_cases hk : k = l
    · simp [hasKey, aget, hk]
    · have : (l, e) ∈ t := by
        rcases List.mem_cons.1 h with h | h
        · exact absurd (by cases h; rfl) hk
        · exact h
      simpa [hasKey, aget, hk] using ih this

theorem hasKey_mem {α : Type} (t : AList α) (l : Str) (h : hasKey t l) : ∃ e, (l, e) ∈ t ∧ aget t l = some e := by
  unfold hasKey at h
  cases hg : aget t l with
  | none => simp [hg] at h
  | some e => exact ⟨e, aget_mem t l e hg, rfl⟩

theorem aget_aset {α : Type} (t : AList α) (n : Str) (v : α) (l : Str) :
    aget (aset t n v) l = if n = l then some v else aget t l := by
  induction t with
  | nil => simp [aset, aget]
  | cons p t ih =>
    obtain ⟨k, w⟩ := p
    by_cases hk : k = n
    · subst hk; by_cases hl : k = l <;> simp [aset, aget, hl]
    · by_cases hl : k = l
      · subst hl; simp [aset, aget, hk]; intro h; exact absurd h.symm hk
      · simp [aset, aget, hk, hl, ih]

theorem mem_aset {α : Type} (t : AList α) (n : Str) (v : α) (p : Str × α) (h : p ∈ aset t n v) :
    p ∈ t ∨ p = (n, v) := by
  induction t with
  | nil => simp [aset] at h; exact Or.inr h
  | cons q t ih =>
    obtain ⟨k, w⟩ := q
    by_cases hk : k = n
    · simp [aset, hk] at h
      rcases h with h | h
      · exact Or.inr h
      · exact Or.inl (List.mem_cons_of_mem _ h)
    · simp [aset, hk] at h
      rcases h with h | h
      · exact Or.inl (by simp [h])
      · rcases ih h with h | h
        · exact Or.inl (List.mem_cons_of_mem _ h)
        · exact Or.inr h

theorem hasKey_aset {α : Type} (t : AList α) (n : Str) (v : α) (l : Str) :
    hasKey (aset t n v) l ↔ (n = l ∨ hasKey t l) := by
  unfold hasKey
  rw [aget_aset]
  by_cases h : n = l <;> simp [h]

/-- generic soundness of a fold whose step only ever `aset`s entries satisfying `P` -/
theorem mem_foldl_sound {α β : Type} (f : AList α → β → AList α) (P : β → Str × α → Prop)
    (hf : ∀ t a p, p ∈ f t a → p ∈ t ∨ P a p) (as : List β) (t0 : AList α) (p : Str × α)
    (h : p ∈ as.foldl f t0) : p ∈ t0 ∨ ∃ a ∈ as, P a p := by
  induction as generalizing t0 with
  | nil => exact Or.inl h
  | cons a as ih =>
    rcases ih (f t0 a) h with h | ⟨b, hb, hp⟩
    · rcases hf _ _ _ h with h | h
      · exact Or.inl h
      · exact Or.inr ⟨a, by simp, h⟩
    · exact Or.inr ⟨b, by simp [hb], hp⟩

theorem hasKey_foldl_mono {α β : Type} (f : AList α → β → AList α)
    (hm : ∀ t a l, hasKey t l → hasKey (f t a) l) (as : List β) (t0 : AList α) (l : Str)
    (h : hasKey t0 l) : hasKey (as.foldl f t0) l := by
  induction as generalizing t0 with
  | nil => exact h
  | cons a as ih => exact ih _ (hm _ _ _ h)

theorem hasKey_foldl_complete {α β : Type} (f : AList α → β → AList α)
    (hm : ∀ t a l, hasKey t l → hasKey (f t a) l) (as : List β) (t0 : AList α) (l : Str)
    (a : β) (ha : a ∈ as) (hs : ∀ t, hasKey (f t a) l) : hasKey (as.foldl f t0) l := by
  induction as generalizing t0 with
  | nil => simp at ha
  | cons b as ih =>
    rcases List.mem_cons.1 ha with h | h
    · subst h; exact hasKey_foldl_mono f hm as _ l (hs t0)
    · exact ih _ h

theorem mem_update {α : Type} (t o : AList α) (p : Str × α) (h : p ∈ update t o) : p ∈ t ∨ p ∈ o := by
  unfold update at h
  rcases mem_foldl_sound (fun (d : AList α) (q : Str × α) => aset d q.1 q.2) (fun q p => p = q)
      (fun t a p hp => by rcases mem_aset _ _ _ _ hp with h | h <;> simp_all) o t p h with h | ⟨a, ha, hp⟩
  · exact Or.inl h
  · exact Or.inr (hp ▸ ha)

theorem hasKey_update_left {α : Type} (t o : AList α) (l : Str) (h : hasKey t l) : hasKey (update t o) l :=
  hasKey_foldl_mono _ (fun t a l h => (hasKey_aset _ _ _ _).2 (Or.inr h)) o t l h

theorem hasKey_update_right {α : Type} (t o : AList α) (l : Str) (h : hasKey o l) : hasKey (update t o) l := by
  obtain ⟨e, he, _⟩ := hasKey_mem o l h
  exact hasKey_foldl_complete _ (fun t a l h => (hasKey_aset _ _ _ _).2 (Or.inr h)) o t l (l, e) he
    (fun t => (hasKey_aset _ _ _ _).2 (Or.inl rfl))

/-! ### `_cleanup` tables -/

theorem mem_tableOf (m : Scope) (ds : List Decl) (p : Str × Ent) (h : p ∈ tableOf m ds) :
    ∃ d ∈ ds, p = (d.name, (m.name, d.name)) := by
  unfold tableOf at h
  rcases mem_foldl_sound (fun (t : Table) (d : Decl) => aset t d.name (m.name, d.name))
      (fun d p => p = (d.name, (m.name, d.name)))
      (fun t a p hp => by rcases mem_aset _ _ _ _ hp with h | h <;> simp_all) ds [] p h with h | ⟨d, hd, hp⟩
  · simp at h
  · exact ⟨d, hd, hp⟩

theorem hasKey_tableOf (m : Scope) (ds : List Decl) (d : Decl) (hd : d ∈ ds) :
    hasKey (tableOf m ds) d.name := by
  unfold tableOf
  exact hasKey_foldl_complete (fun (t : Table) (d : Decl) => aset t d.name (m.name, d.name))
    (fun t a l h => (hasKey_aset _ _ _ _).2 (Or.inr h)) ds [] d.name d hd
    (fun t => (hasKey_aset _ _ _ _).2 (Or.inl rfl))

/-! ### `get_used_entities` -/

def UItem.loc : UItem → Str
  | .plain n => n
  | .ren l _ => l

def usedNamesStep (u : AList Str) (it : UItem) : AList Str :=
  match it with
  | .ren l r => aset u r l
  | .plain p => aset u p p

theorem usedNames_eq (items : List UItem) : usedNames items = items.foldl usedNamesStep [] := rfl

theorem usedNamesStep_eq (u : AList Str) (it : UItem) : usedNamesStep u it = aset u it.remote it.loc := by
  cases it <;> rfl

theorem mem_usedNames (items : List UItem) (r l : Str) (h : (r, l) ∈ usedNames items) :
    UItem.ren l r ∈ items ∨ (l = r ∧ UItem.plain r ∈ items) := by
  rw [usedNames_eq] at h
  rcases mem_foldl_sound usedNamesStep (fun it p => p = (it.remote, it.loc))
      (fun t a p hp => by
        rw [usedNamesStep_eq] at hp
        rcases mem_aset _ _ _ _ hp with h | h <;> simp_all) items [] (r, l) h with h | ⟨it, hit, hp⟩
  · simp at h
  · cases it with
    | plain n =>
      simp [UItem.remote, UItem.loc] at hp
      right; exact ⟨by rw [hp.1, hp.2], by rw [hp.1]; exact hit⟩
    | ren a b =>
      simp [UItem.remote, UItem.loc] at hp
      left; rw [hp.1, hp.2]; exact hit

theorem aget_foldl_usedNames_notin (items : List UItem) (acc : AList Str) (r : Str)
    (h : r ∉ items.map UItem.remote) : aget (items.foldl usedNamesStep acc) r = aget acc r := by
  induction items generalizing acc with
  | nil => rfl
  | cons x xs ih =>
    simp at h
    simp only [List.foldl_cons]
    rw [ih _ (by simpa using h.2), usedNamesStep_eq, aget_aset]
    simp [Ne.symm h.1]

theorem aget_usedNames_complete (items : List UItem) (acc : AList Str) (it : UItem)
    (hn : (items.map UItem.remote).Nodup) (hit : it ∈ items) :
    aget (items.foldl usedNamesStep acc) it.remote = some it.loc := by
  induction items generalizing acc with
  | nil => simp at hit
  | cons x xs ih =>
    simp only [List.map_cons, List.nodup_cons] at hn
    simp only [List.foldl_cons]
    rcases List.mem_cons.1 hit with h | h
    · subst h
      rw [aget_foldl_usedNames_notin _ _ _ hn.1, usedNamesStep_eq, aget_aset]; simp
    · exact ih _ hn.2 h

/-- how the code decides the local name: `used_names[name]` with ONLY, the
    remote name itself without -/
def AdmitsCode (u : UseA) (r l : Str) : Prop :=
  if u.only then aget (usedNames u.items) r = some l
  else l = (if u.renAll then (aget (usedNames u.items) r).getD r else r)

theorem mem_usedStep (only ra : Bool) (used : AList Str) (res : Table) (q p : Str × Ent)
    (h : p ∈ usedStep only ra used res q) :
    p ∈ res ∨ (p.2 = q.2 ∧ if only then aget used q.1 = some p.1
      else p.1 = (if ra then (aget used q.1).getD q.1 else q.1)) := by
  unfold usedStep at h
  cases only with
  | true =>
    simp only [if_true] at h
    cases hg : aget used q.1 with
    | none => simp [hg] at h; exact Or.inl h
    | some l =>
      simp [hg] at h
      rcases mem_aset _ _ _ _ h with h | h
      · exact Or.inl h
      · right; simp [h]
  | false =>
    simp at h
    rcases mem_aset _ _ _ _ h with h | h
    · exact Or.inl h
    · right; simp [h]

theorem mem_getUsed (u : UseA) (pub : Table) (p : Str × Ent) (h : p ∈ getUsed u pub) :
    ∃ r, (r, p.2) ∈ pub ∧ AdmitsCode u r p.1 := by
  unfold getUsed at h
  by_cases hc : u.only = false ∧ u.items = []
  · simp only [hc, and_self, if_true] at h
    exact ⟨p.1, h, by simp [AdmitsCode, hc.1, hc.2, usedNames, aget]⟩
  · rw [if_neg hc] at h
    rcases mem_foldl_sound (usedStep u.only u.renAll (usedNames u.items))
        (fun q p => p.2 = q.2 ∧ if u.only then aget (usedNames u.items) q.1 = some p.1
          else p.1 = (if u.renAll then (aget (usedNames u.items) q.1).getD q.1 else q.1))
        (fun t a p hp => mem_usedStep _ _ _ _ _ _ hp) pub [] p h with h | ⟨q, hq, hp⟩
    · simp at h
    · refine ⟨q.1, ?_, ?_⟩
      · rw [hp.1]; exact hq
      · simpa [AdmitsCode] using hp.2

theorem hasKey_usedStep_mono (only ra : Bool) (used : AList Str) (res : Table) (q : Str × Ent) (l : Str)
    (h : hasKey res l) : hasKey (usedStep only ra used res q) l := by
  unfold usedStep
  cases only with
  | true =>
    simp only [if_true]
    cases hg : aget used q.1 with
    | none => simpa using h
    | some l' => simp; exact (hasKey_aset _ _ _ _).2 (Or.inr h)
  | false => simp; exact (hasKey_aset _ _ _ _).2 (Or.inr h)

theorem hasKey_getUsed (u : UseA) (pub : Table) (r l : Str) (e : Ent) (hm : (r, e) ∈ pub)
    (ha : AdmitsCode u r l) : hasKey (getUsed u pub) l := by
  unfold getUsed
  by_cases hc : u.only = false ∧ u.items = []
  · simp only [hc, and_self, if_true]
    simp [AdmitsCode, hc.1, hc.2, usedNames, aget] at ha
    subst ha
    exact hasKey_of_mem _ _ _ hm
  · rw [if_neg hc]
    refine hasKey_foldl_complete _ (fun t a l h => hasKey_usedStep_mono _ _ _ _ _ _ h) pub [] l (r, e) hm ?_
    intro t
    unfold usedStep
    unfold AdmitsCode at ha
    cases ho : u.only with
    | true => simp [ho] at ha; simp [ha]; exact (hasKey_aset _ _ _ _).2 (Or.inl rfl)
    | false => simp [ho] at ha; simp [ha]; exact (hasKey_aset _ _ _ _).2 (Or.inl rfl)

/-! ### code-level admission against the standard's -/

theorem admits_of_code (u : UseA) (r l : Str) (hc : u.only = false → u.items = [])
    (h : AdmitsCode u r l) : Admits u r l := by
  unfold AdmitsCode at h
  unfold Admits
  cases ho : u.only with
  | true =>
    simp [ho] at h
    rcases mem_usedNames _ _ _ (aget_mem _ _ _ h) with h | h
    · exact Or.inl h
    · exact Or.inr ⟨h.1, by simpa using h.2⟩
  | false =>
    simp [ho, hc ho, usedNames, aget] at h
    right
    refine ⟨h, ?_⟩
    simp [hc ho]

theorem code_of_admits (u : UseA) (r l : Str) (hc : u.only = false → u.items = [])
    (hn : u.only = true → (u.items.map UItem.remote).Nodup) (h : Admits u r l) : AdmitsCode u r l := by
  unfold AdmitsCode
  unfold Admits at h
  cases ho : u.only with
  | true =>
    simp only [if_true]
    rw [usedNames_eq]
    rcases h with h | h
    · exact aget_usedNames_complete _ _ (UItem.ren l r) (hn ho) h
    · simp [ho] at h
      have := aget_usedNames_complete u.items [] (UItem.plain r) (hn ho) h.2
      simpa [UItem.remote, UItem.loc, h.1] using this
  | false =>
    simp [hc ho, usedNames, aget]
    rcases h with h | h
    · simp [hc ho] at h
    · exact h.1

/-- repaired variant: a rename list without ONLY is honoured exactly as the standard says -/
theorem code_iff_admits_repaired (u : UseA) (r l : Str) (ho : u.only = false) (hf : u.renAll = true)
    (hn : (u.items.map UItem.remote).Nodup) (hall : ∀ it ∈ u.items, ∃ a b, it = UItem.ren a b) :
    AdmitsCode u r l ↔ Admits u r l := by
  unfold AdmitsCode Admits
  simp only [ho, hf, if_true, Bool.false_eq_true, if_false]
  have hnone : (∀ l', UItem.ren l' r ∉ u.items) → aget (usedNames u.items) r = none := by
    intro hno
    cases hg : aget (usedNames u.items) r with
    | none => rfl
    | some x =>
      rcases mem_usedNames _ _ _ (aget_mem _ _ _ hg) with h | h
      · exact absurd h (hno x)
      · obtain ⟨a, b, hab⟩ := hall _ h.2
        cases hab
  constructor
  · intro h
    cases hg : aget (usedNames u.items) r with
    | none =>
      rw [hg] at h
      right
      refine ⟨h, ?_⟩
      intro l' hl'
      have := aget_usedNames_complete u.items [] (UItem.ren l' r) hn hl'
      rw [← usedNames_eq] at this
      simp [UItem.remote] at this
      rw [hg] at this; cases this
    | some x =>
      rw [hg] at h
      simp at h
      rcases mem_usedNames _ _ _ (aget_mem _ _ _ hg) with h' | h'
      · left; rw [h]; exact h'
      · obtain ⟨a, b, hab⟩ := hall _ h'.2
        cases hab
  · rintro (h | ⟨h1, h2⟩)
    · have := aget_usedNames_complete u.items [] (UItem.ren l r) hn h
      rw [← usedNames_eq] at this
      simp [UItem.remote, UItem.loc] at this
      simp [this]
    · rw [hnone h2]; simp [h1]

/-! ### state, `findMod`, `init` -/

theorem getTabs_aset (st : State) (n : Str) (t : Tabs) (x : Str) :
    getTabs (aset st n t) x = if n = x then t else getTabs st x := by
  unfold getTabs
  rw [aget_aset]
  by_cases h : n = x <;> simp [h]

theorem findMod_some (g : List Scope) (x : Str) (n : Scope) (h : findMod g x = some n) :
    n ∈ g ∧ n.isMod = true ∧ n.name = x := by
  unfold findMod at h
  have h1 := List.mem_of_find?_eq_some h
  have h2 := List.find?_some h
  simp at h2
  exact ⟨h1, h2.1, h2.2⟩

theorem findScope_some (g : List Scope) (x : Str) (n : Scope) (h : findScope g x = some n) :
    n ∈ g ∧ n.name = x := by
  unfold findScope at h
  have h1 := List.mem_of_find?_eq_some h
  have h2 := List.find?_some h
  simp at h2
  exact ⟨h1, h2⟩

theorem findMod_of_mem (g : List Scope) (hu : UniqueNames g) (n : Scope) (hn : n ∈ g)
    (hm : n.isMod = true) : findMod g n.name = some n := by
  cases hf : findMod g n.name with
  | none =>
    unfold findMod at hf
    rw [List.find?_eq_none] at hf
    have := hf n hn
    simp [hm] at this
  | some n' =>
    obtain ⟨h1, _, h3⟩ := findMod_some g _ _ hf
    rw [hu n' h1 n hn h3]

theorem findScope_of_mem (g : List Scope) (hu : UniqueNames g) (n : Scope) (hn : n ∈ g) :
    findScope g n.name = some n := by
  cases hf : findScope g n.name with
  | none =>
    unfold findScope at hf
    rw [List.find?_eq_none] at hf
    have := hf n hn
    simp at this
  | some n' =>
    obtain ⟨h1, h3⟩ := findScope_some g _ _ hf
    rw [hu n' h1 n hn h3]

theorem getTabs_initFold_other (k : Nat) (g : List Scope) (st : State) (x : Str)
    (h : ∀ m' ∈ g, m'.name ≠ x) :
    getTabs (g.foldl (fun st m => aset st m.name (cleanup k m)) st) x = getTabs st x := by
  induction g generalizing st with
  | nil => rfl
  | cons a as ih =>
    simp only [List.foldl_cons]
    rw [ih _ (fun m' hm' => h m' (List.mem_cons_of_mem _ hm')), getTabs_aset]
    simp [h a (by simp)]

theorem getTabs_initFold (k : Nat) (g : List Scope) (st : State) (m : Scope)
    (hu : ∀ m' ∈ g, m'.name = m.name → m' = m) (hm : m ∈ g) :
    getTabs (g.foldl (fun st m => aset st m.name (cleanup k m)) st) m.name = cleanup k m := by
  induction g generalizing st with
  | nil => simp at hm
  | cons a as ih =>
    simp only [List.foldl_cons]
    by_cases hin : m ∈ as
    · exact ih _ (fun m' hm' => hu m' (List.mem_cons_of_mem _ hm')) hin
    · have ha : a = m := by
        rcases List.mem_cons.1 hm with h | h
        · exact h.symm
        · exact absurd h hin
      subst ha
      rw [getTabs_initFold_other]
      · rw [getTabs_aset]; simp
      · intro m' hm' hne
        exact hin (hu m' (List.mem_cons_of_mem _ hm') hne ▸ hm')

theorem getTabs_init (k : Nat) (g : List Scope) (hu : UniqueNames g) (m : Scope) (hm : m ∈ g) :
    getTabs (init k g) m.name = cleanup k m :=
  getTabs_initFold k g [] m (fun m' hm' h => hu m' hm' m hm h) hm

/-! ### `correlate` -/

theorem mem_useFold_pub (g : List Scope) (st : State) (m : Scope) (us : List UseA) (t : Tabs)
    (p : Str × Ent) (h : p ∈ (us.foldl (useStep g st m) t).pub) :
    p ∈ t.pub ∨ (m.isMod = true ∧ shouldBePublic m p.1 = true ∧
      ∃ u ∈ us, ∃ n, findMod g u.mod = some n ∧ p ∈ getUsed u (getTabs st n.name).pub) := by
  induction us generalizing t with
  | nil => exact Or.inl h
  | cons u us ih =>
    simp only [List.foldl_cons] at h
    rcases ih _ h with h | ⟨h1, h2, u', hu', n, hn, hp⟩
    · unfold useStep at h
      cases hf : findMod g u.mod with
      | none => simp [hf] at h; exact Or.inl h
      | some n =>
        simp only [hf] at h
        by_cases hmod : m.isMod = true
        · simp only [hmod, if_true] at h
          rcases mem_update _ _ _ h with h | h
          · exact Or.inl h
          · rw [List.mem_filter] at h
            exact Or.inr ⟨hmod, h.2, u, by simp, n, hf, h.1⟩
        · simp [hmod] at h; exact Or.inl h
    · exact Or.inr ⟨h1, h2, u', by simp [hu'], n, hn, hp⟩

theorem mem_useFold_all (g : List Scope) (st : State) (m : Scope) (us : List UseA) (t : Tabs)
    (p : Str × Ent) (h : p ∈ (us.foldl (useStep g st m) t).all) :
    p ∈ t.all ∨ ∃ u ∈ us, ∃ n, findMod g u.mod = some n ∧ p ∈ getUsed u (getTabs st n.name).pub := by
  induction us generalizing t with
  | nil => exact Or.inl h
  | cons u us ih =>
    simp only [List.foldl_cons] at h
    rcases ih _ h with h | ⟨u', hu', n, hn, hp⟩
    · unfold useStep at h
      cases hf : findMod g u.mod with
      | none => simp [hf] at h; exact Or.inl h
      | some n =>
        simp only [hf] at h
        rcases mem_update _ _ _ h with h | h
        · exact Or.inl h
        · exact Or.inr ⟨u, by simp, n, hf, h⟩
    · exact Or.inr ⟨u', by simp [hu'], n, hn, hp⟩

theorem hasKey_useStep_mono (g : List Scope) (st : State) (m : Scope) (t : Tabs) (u : UseA) (l : Str) :
    (hasKey t.pub l → hasKey (useStep g st m t u).pub l) ∧
    (hasKey t.all l → hasKey (useStep g st m t u).all l) := by
  unfold useStep
  cases hf : findMod g u.mod with
  | none => simp
  | some n =>
    simp only
    constructor
    · intro h
      by_cases hmod : m.isMod = true
      · simp only [hmod, if_true]; exact hasKey_update_left _ _ _ h
      · simp [hmod]; exact h
    · intro h; exact hasKey_update_left _ _ _ h

theorem hasKey_useFold_mono (g : List Scope) (st : State) (m : Scope) (us : List UseA) (t : Tabs) (l : Str) :
    (hasKey t.pub l → hasKey (us.foldl (useStep g st m) t).pub l) ∧
    (hasKey t.all l → hasKey (us.foldl (useStep g st m) t).all l) := by
  induction us generalizing t with
  | nil => exact ⟨id, id⟩
  | cons u us ih =>
    simp only [List.foldl_cons]
    exact ⟨fun h => (ih _).1 ((hasKey_useStep_mono g st m t u l).1 h),
           fun h => (ih _).2 ((hasKey_useStep_mono g st m t u l).2 h)⟩

theorem hasKey_filter (t : Table) (f : Str × Ent → Bool) (l : Str) (h : hasKey t l)
    (hf : ∀ e, f (l, e) = true) : hasKey (t.filter f) l := by
  obtain ⟨e, he, _⟩ := hasKey_mem t l h
  exact hasKey_of_mem _ l e (List.mem_filter.2 ⟨he, hf e⟩)

theorem hasKey_useFold (g : List Scope) (st : State) (m : Scope) (us : List UseA) (t : Tabs) (l : Str)
    (u : UseA) (hu : u ∈ us) (n : Scope) (hn : findMod g u.mod = some n)
    (hk : hasKey (getUsed u (getTabs st n.name).pub) l) :
    hasKey (us.foldl (useStep g st m) t).all l ∧
    (m.isMod = true → shouldBePublic m l = true → hasKey (us.foldl (useStep g st m) t).pub l) := by
  induction us generalizing t with
  | nil => simp at hu
  | cons a us ih =>
    simp only [List.foldl_cons]
    rcases List.mem_cons.1 hu with h | h
    · subst h
      have hstep : hasKey (useStep g st m t u).all l ∧
          (m.isMod = true → shouldBePublic m l = true → hasKey (useStep g st m t u).pub l) := by
        unfold useStep
        simp only [hn]
        refine ⟨hasKey_update_right _ _ _ hk, ?_⟩
        intro hmod hpub
        simp only [hmod, if_true]
        exact hasKey_update_right _ _ _ (hasKey_filter _ _ _ hk (fun e => hpub))
      exact ⟨(hasKey_useFold_mono g st m us _ l).2 hstep.1,
             fun h1 h2 => (hasKey_useFold_mono g st m us _ l).1 (hstep.2 h1 h2)⟩
    · exact ih _ h

/-! ### soundness invariant -/

def SoundSt (g : List Scope) (k : Nat) (st : State) : Prop :=
  ∀ m ∈ g, (∀ p ∈ (getTabs st m.name).pub, Exports g k m p.1 p.2) ∧
           (∀ p ∈ (getTabs st m.name).all, Sees g k m p.1 p.2)

theorem mem_declsOf (k : Nat) (m : Scope) (d : Decl) : d ∈ declsOf k m ↔ d ∈ m.decls ∧ d.kind = k := by
  simp [declsOf]

theorem sound_init (g : List Scope) (k : Nat) (hu : UniqueNames g) (hq : NoProtectedOverPrivate g) :
    SoundSt g k (init k g) := by
  intro m hm
  rw [getTabs_init k g hu m hm]
  constructor
  · intro p hp
    unfold cleanup at hp
    by_cases hmod : m.isMod = true
    · simp only [hmod, if_true] at hp
      obtain ⟨d, hd, rfl⟩ := mem_tableOf _ _ _ hp
      rw [List.mem_filter, mem_declsOf] at hd
      refine Exports.decl hm hmod hd.1.1 hd.1.2 ?_
      have := hd.2
      exact accessible_of_exported m d (hq m hm d hd.1.1) (by simpa [declExported] using this)
    · simp [hmod] at hp
  · intro p hp
    unfold cleanup at hp
    obtain ⟨d, hd, rfl⟩ := mem_tableOf _ _ _ hp
    rw [mem_declsOf] at hd
    exact Sees.decl hm hd.1 hd.2

theorem publicList_cases (m : Scope) (l : Str) (h : (publicList m).contains l = true) :
    (∃ d ∈ m.decls, d.name = l) ∨ l ∈ m.pubNames := by
  simp [publicList] at h
  rcases h with ⟨d, hd, hl⟩ | h
  · exact Or.inl ⟨d, hd.1, hl⟩
  · exact Or.inr h

theorem sound_step (g : List Scope) (k : Nat) (hu : UniqueNames g) (hb : NoBareRename g)
    (hp : NoEffectivePrivate g) (hs : NoShadow g k) (st : State) (nm : Str) (h : SoundSt g k st) :
    SoundSt g k (step g st nm) := by
  unfold step
  cases hf : findScope g nm with
  | none => exact h
  | some m0 =>
    obtain ⟨hm0, hnm⟩ := findScope_some g _ _ hf
    intro m hm
    simp only
    rw [getTabs_aset]
    by_cases heq : nm = m.name
    · have hmm : m0 = m := hu m0 hm0 m hm (hnm.trans heq)
      subst hmm
      simp only [heq, if_true]
      -- an imported pair is an `Imports` of the specification
      have himp : ∀ p : Str × Ent, ∀ u ∈ m0.uses, ∀ n, findMod g u.mod = some n →
          p ∈ getUsed u (getTabs st n.name).pub → Imports g k m0 p.1 p.2 := by
        intro p u hu' n hn hpu
        obtain ⟨hng, hnmod, hnname⟩ := findMod_some g _ _ hn
        obtain ⟨r, hr, hadm⟩ := mem_getUsed _ _ _ hpu
        have hex := (h n hng).1 (r, p.2) hr
        exact Imports.mk hm hu' hng hnmod hnname hex (admits_of_code u r p.1 (hb m0 hm u hu') hadm)
      constructor
      · intro p hpp
        rcases mem_useFold_pub g st m0 m0.uses _ p hpp with hold | ⟨hmod, hpub, u, hu', n, hn, hpu⟩
        · exact (h m0 hm).1 p hold
        · have hi := himp p u hu' n hn hpu
          have hnd : ∀ d ∈ m0.decls, d.name ≠ p.1 := hs m0 hm p.1 p.2 hi
          have hpub' : m0.defPub = true ∨ p.1 ∈ m0.pubNames := by
            unfold shouldBePublic at hpub
            rw [Bool.or_eq_true] at hpub
            rcases hpub with h1 | h1
            · exact Or.inl h1
            · rcases publicList_cases m0 p.1 h1 with ⟨d, hd, hdl⟩ | h2
              · exact absurd hdl (hnd d hd)
              · exact Or.inr h2
          have hnpriv : p.1 ∉ m0.privNames := by
            intro hin
            obtain ⟨h1, h2⟩ := hp m0 hm p.1 hin
            rcases hpub' with h3 | h3
            · rw [h1] at h3; cases h3
            · exact h2 h3
          cases hi with
          | mk _ hu2 hng hnmod hnname hex hadm =>
            exact Exports.reexp hm hmod hu2 hng hnmod hnname hex hadm hnpriv hpub'
      · intro p hpp
        rcases mem_useFold_all g st m0 m0.uses _ p hpp with hold | ⟨u, hu', n, hn, hpu⟩
        · exact (h m0 hm).2 p hold
        · exact Sees.imp (himp p u hu' n hn hpu)
    · simp only [heq, if_false]
      exact h m hm

theorem sound_run (g : List Scope) (k : Nat) (hu : UniqueNames g) (hb : NoBareRename g)
    (hp : NoEffectivePrivate g) (hs : NoShadow g k) (hq : NoProtectedOverPrivate g) (order : List Str) :
    SoundSt g k (run k g order) := by
  unfold run
  have : ∀ st, SoundSt g k st → SoundSt g k (order.foldl (step g) st) := by
    induction order with
    | nil => intro st h; exact h
    | cons a as ih => intro st h; exact ih _ (sound_step g k hu hb hp hs st a h)
  exact this _ (sound_init g k hu hq)

/-! ### completeness invariant -/

theorem imports_inv {g : List Scope} {k : Nat} {s : Scope} {l : Str} {e : Ent} (h : Imports g k s l e) :
    ∃ n u r, s ∈ g ∧ u ∈ s.uses ∧ n ∈ g ∧ n.isMod = true ∧ n.name = u.mod ∧ Exports g k n r e ∧ Admits u r l := by
  cases h with
  | mk a b c d e f g => exact ⟨_, _, _, a, b, c, d, e, f, g⟩

theorem exports_inv {g : List Scope} {k : Nat} {m : Scope} {l : Str} {e : Ent} (h : Exports g k m l e) :
    (∃ d, m ∈ g ∧ m.isMod = true ∧ d ∈ m.decls ∧ d.kind = k ∧ declAccessible m d = true ∧ l = d.name ∧ e = (m.name, d.name)) ∨
    (m.isMod = true ∧ Imports g k m l e ∧ l ∉ m.privNames ∧ (m.defPub = true ∨ l ∈ m.pubNames)) := by
  cases h with
  | decl a b c d e => exact Or.inl ⟨_, a, b, c, d, e, rfl, rfl⟩
  | reexp a b c d e f g h i j => exact Or.inr ⟨b, Imports.mk a c d e f g h, i, j⟩

theorem sees_inv {g : List Scope} {k : Nat} {m : Scope} {l : Str} {e : Ent} (h : Sees g k m l e) :
    (∃ d, m ∈ g ∧ d ∈ m.decls ∧ d.kind = k ∧ l = d.name ∧ e = (m.name, d.name)) ∨ Imports g k m l e := by
  cases h with
  | decl a b c => exact Or.inl ⟨_, a, b, c, rfl, rfl⟩
  | imp h => exact Or.inr h

def BaseSt (g : List Scope) (k : Nat) (st : State) : Prop :=
  ∀ m ∈ g, ∀ d ∈ m.decls, d.kind = k →
    hasKey (getTabs st m.name).all d.name ∧
    (m.isMod = true → declPerm m d ≠ .priv → hasKey (getTabs st m.name).pub d.name)

def CompleteSt (g : List Scope) (k : Nat) (st : State) (done : List Str) : Prop :=
  ∀ m ∈ g, m.name ∈ done →
    (∀ l e, Exports g k m l e → hasKey (getTabs st m.name).pub l) ∧
    (∀ l e, Sees g k m l e → hasKey (getTabs st m.name).all l)

theorem base_init (g : List Scope) (k : Nat) (hu : UniqueNames g) : BaseSt g k (init k g) := by
  intro m hm d hd hk
  rw [getTabs_init k g hu m hm]
  unfold cleanup
  constructor
  · exact hasKey_tableOf m _ d ((mem_declsOf k m d).2 ⟨hd, hk⟩)
  · intro hmod hperm
    simp only [hmod, if_true]
    refine hasKey_tableOf m _ d (List.mem_filter.2 ⟨(mem_declsOf k m d).2 ⟨hd, hk⟩, ?_⟩)
    simpa [declExported] using hperm

theorem base_step (g : List Scope) (k : Nat) (hu : UniqueNames g) (st : State) (nm : Str)
    (h : BaseSt g k st) : BaseSt g k (step g st nm) := by
  unfold step
  cases hf : findScope g nm with
  | none => exact h
  | some m0 =>
    obtain ⟨hm0, hnm⟩ := findScope_some g _ _ hf
    intro m hm d hd hk
    simp only
    rw [getTabs_aset]
    by_cases heq : nm = m.name
    · have hmm : m0 = m := hu m0 hm0 m hm (hnm.trans heq)
      subst hmm
      simp only [heq, if_true]
      have hb := h m0 hm d hd hk
      exact ⟨(hasKey_useFold_mono g st m0 m0.uses _ d.name).2 hb.1,
             fun h1 h2 => (hasKey_useFold_mono g st m0 m0.uses _ d.name).1 (hb.2 h1 h2)⟩
    · simp only [heq, if_false]
      exact h m hm d hd hk

theorem usesDone_spec (g : List Scope) (done : List Str) (m : Scope) (h : usesDone g done m = true)
    (u : UseA) (hu : u ∈ m.uses) (n : Scope) (hn : findMod g u.mod = some n) : n.name ∈ done := by
  unfold usesDone at h
  rw [List.all_eq_true] at h
  have := h u hu
  simp only [hn] at this
  simpa using this

theorem complete_step (g : List Scope) (k : Nat) (hu : UniqueNames g) (hb : NoBareRename g)
    (hr : NoRepeatedRemote g) (hl : LegalAccess g) (st : State) (nm : Str) (done : List Str)
    (hbase : BaseSt g k st) (hc : CompleteSt g k st done)
    (hnd : nm ∉ done) (hud : ∀ m, findScope g nm = some m → usesDone g done m = true) :
    CompleteSt g k (step g st nm) (nm :: done) := by
  unfold step
  cases hf : findScope g nm with
  | none =>
    intro m hm hin
    rcases List.mem_cons.1 hin with h | h
    · rw [← h, findScope_of_mem g hu m hm] at hf; cases hf
    · exact hc m hm h
  | some m0 =>
    obtain ⟨hm0, hnm⟩ := findScope_some g _ _ hf
    have hdone := hud m0 hf
    intro m hm hin
    simp only
    rw [getTabs_aset]
    by_cases heq : nm = m.name
    · have hmm : m0 = m := hu m0 hm0 m hm (hnm.trans heq)
      subst hmm
      simp only [heq, if_true]
      -- an import of the specification is found by the code
      have himp : ∀ l e, Imports g k m0 l e →
          ∃ u ∈ m0.uses, ∃ n, findMod g u.mod = some n ∧ hasKey (getUsed u (getTabs st n.name).pub) l := by
        intro l e hi
        obtain ⟨n, u, r, _, hu2, hng, hnmod, hnname, hex, hadm⟩ := imports_inv hi
        · have hfm : findMod g u.mod = some n := hnname ▸ findMod_of_mem g hu n hng hnmod
          have hnd' : n.name ∈ done := usesDone_spec g done m0 hdone u hu2 n hfm
          have hk := (hc n hng hnd').1 r e hex
          obtain ⟨e', he', _⟩ := hasKey_mem _ _ hk
          exact ⟨u, hu2, n, hfm, hasKey_getUsed u _ r l e' he'
            (code_of_admits u r l (hb m0 hm u hu2) (hr m0 hm u hu2) hadm)⟩
      constructor
      · intro l e hex
        rcases exports_inv hex with ⟨d, _, hmod, hd, hk, hperm, rfl, _⟩ | ⟨hmod, hi, hnpriv, hpub⟩
        · exact (hasKey_useFold_mono g st m0 m0.uses _ _).1 ((hbase m0 hm _ hd hk).2 hmod
            (exported_of_accessible m0 d (hl m0 hm d hd) hperm))
        · obtain ⟨u', hu', n', hn', hk'⟩ := himp l e hi
          refine (hasKey_useFold g st m0 m0.uses _ l u' hu' n' hn' hk').2 hmod ?_
          unfold shouldBePublic
          rcases hpub with h1 | h1
          · simp [h1]
          · simp [publicList, h1]
      · intro l e hs
        rcases sees_inv hs with ⟨d, _, hd, hk, rfl, _⟩ | hi
        · exact (hasKey_useFold_mono g st m0 m0.uses _ _).2 (hbase m0 hm _ hd hk).1
        · obtain ⟨u', hu', n', hn', hk'⟩ := himp l e hi
          exact (hasKey_useFold g st m0 m0.uses _ l u' hu' n' hn' hk').1
    · simp only [heq, if_false]
      rcases List.mem_cons.1 hin with h | h
      · exact absurd h.symm heq
      · exact hc m hm h

theorem complete_fold (g : List Scope) (k : Nat) (hu : UniqueNames g) (hb : NoBareRename g)
    (hr : NoRepeatedRemote g) (hl : LegalAccess g) (order : List Str) :
    ∀ (st : State) (done : List Str), isTopo g done order = true → BaseSt g k st →
      CompleteSt g k st done → CompleteSt g k (order.foldl (step g) st) (order.reverse ++ done) := by
  induction order with
  | nil => intro st done _ _ hc; simpa using hc
  | cons nm rest ih =>
    intro st done ht hbase hc
    simp only [isTopo, Bool.and_eq_true] at ht
    obtain ⟨h1, h2⟩ := ht
    have hnd : nm ∉ done ∨ findScope g nm = none := by
      cases hf : findScope g nm with
      | none => exact Or.inr rfl
      | some m => simp [hf] at h1; exact Or.inl h1.2
    have hud : ∀ m, findScope g nm = some m → usesDone g done m = true := by
      intro m hf; simp [hf] at h1; exact h1.1
    have hstep : CompleteSt g k (step g st nm) (nm :: done) := by
      rcases hnd with hnd | hnone
      · exact complete_step g k hu hb hr hl st nm done hbase hc hnd hud
      · -- no scope of this name: nothing changes, and no scope is called `nm`
        unfold step; rw [hnone]
        intro m hm hin
        rcases List.mem_cons.1 hin with h | h
        · rw [← h, findScope_of_mem g hu m hm] at hnone; cases hnone
        · exact hc m hm h
    have := ih (step g st nm) (nm :: done) h2 (base_step g k hu st nm hbase) hstep
    simpa [List.foldl_cons, List.reverse_cons, List.append_assoc] using this

theorem complete_run (g : List Scope) (k : Nat) (hu : UniqueNames g) (hb : NoBareRename g)
    (hr : NoRepeatedRemote g) (hl : LegalAccess g) (order : List Str) (ht : isTopo g [] order = true) :
    CompleteSt g k (run k g order) order := by
  have := complete_fold g k hu hb hr hl order (init k g) [] ht (base_init g k hu)
    (fun m _ hin => by simp at hin)
  intro m hm hin
  exact this m hm (by simpa using hin)

/-! ### only non-private declarations ever travel -/

/-- `e` is a declaration of kind `k` of a project module whose accessibility is not private -/
def PubEnt (g : List Scope) (k : Nat) (e : Ent) : Prop :=
  ∃ n ∈ g, n.isMod = true ∧ n.name = e.1 ∧ ∃ d ∈ n.decls, d.kind = k ∧ d.name = e.2 ∧ declPerm n d ≠ .priv

/-- `e` is a declaration of kind `k` of scope `m` itself -/
def OwnEnt (k : Nat) (m : Scope) (e : Ent) : Prop :=
  e.1 = m.name ∧ ∃ d ∈ m.decls, d.kind = k ∧ d.name = e.2

def PrivSt (g : List Scope) (k : Nat) (st : State) : Prop :=
  ∀ m ∈ g, (∀ p ∈ (getTabs st m.name).pub, PubEnt g k p.2) ∧
           (∀ p ∈ (getTabs st m.name).all, PubEnt g k p.2 ∨ OwnEnt k m p.2)

theorem priv_init (g : List Scope) (k : Nat) (hu : UniqueNames g) : PrivSt g k (init k g) := by
  intro m hm
  rw [getTabs_init k g hu m hm]
  constructor
  · intro p hp
    unfold cleanup at hp
    by_cases hmod : m.isMod = true
    · simp only [hmod, if_true] at hp
      obtain ⟨d, hd, rfl⟩ := mem_tableOf _ _ _ hp
      rw [List.mem_filter, mem_declsOf] at hd
      exact ⟨m, hm, hmod, rfl, d, hd.1.1, hd.1.2, rfl, by simpa [declExported] using hd.2⟩
    · simp [hmod] at hp
  · intro p hp
    unfold cleanup at hp
    obtain ⟨d, hd, rfl⟩ := mem_tableOf _ _ _ hp
    rw [mem_declsOf] at hd
    exact Or.inr ⟨rfl, d, hd.1, hd.2, rfl⟩

theorem priv_step (g : List Scope) (k : Nat) (hu : UniqueNames g) (st : State) (nm : Str)
    (h : PrivSt g k st) : PrivSt g k (step g st nm) := by
  unfold step
  cases hf : findScope g nm with
  | none => exact h
  | some m0 =>
    obtain ⟨hm0, hnm⟩ := findScope_some g _ _ hf
    intro m hm
    simp only
    rw [getTabs_aset]
    by_cases heq : nm = m.name
    · have hmm : m0 = m := hu m0 hm0 m hm (hnm.trans heq)
      subst hmm
      simp only [heq, if_true]
      have himp : ∀ p : Str × Ent, ∀ u ∈ m0.uses, ∀ n, findMod g u.mod = some n →
          p ∈ getUsed u (getTabs st n.name).pub → PubEnt g k p.2 := by
        intro p u _ n hn hpu
        obtain ⟨hng, _, _⟩ := findMod_some g _ _ hn
        obtain ⟨r, hr, _⟩ := mem_getUsed _ _ _ hpu
        exact (h n hng).1 (r, p.2) hr
      constructor
      · intro p hpp
        rcases mem_useFold_pub g st m0 m0.uses _ p hpp with hold | ⟨_, _, u, hu', n, hn, hpu⟩
        · exact (h m0 hm).1 p hold
        · exact himp p u hu' n hn hpu
      · intro p hpp
        rcases mem_useFold_all g st m0 m0.uses _ p hpp with hold | ⟨u, hu', n, hn, hpu⟩
        · exact (h m0 hm).2 p hold
        · exact Or.inl (himp p u hu' n hn hpu)
    · simp only [heq, if_false]
      exact h m hm

theorem priv_run (g : List Scope) (k : Nat) (hu : UniqueNames g) (order : List Str) :
    PrivSt g k (run k g order) := by
  unfold run
  have : ∀ st, PrivSt g k st → PrivSt g k (order.foldl (step g) st) := by
    induction order with
    | nil => intro st h; exact h
    | cons a as ih => intro st h; exact ih _ (priv_step g k hu st a h)
  exact this _ (priv_init g k hu)

/-- `e` is a declaration of kind `k` of a project module that the standard makes accessible -/
def AccessibleEnt (g : List Scope) (k : Nat) (e : Ent) : Prop :=
  ∃ n ∈ g, n.isMod = true ∧ n.name = e.1 ∧ ∃ d ∈ n.decls, d.kind = k ∧ d.name = e.2 ∧ declAccessible n d = true

theorem accessibleEnt_of_pubEnt (g : List Scope) (k : Nat) (e : Ent) (hq : NoProtectedOverPrivate g)
    (h : PubEnt g k e) : AccessibleEnt g k e := by
  obtain ⟨n, hn, hmod, hname, d, hd, hk, hdn, hperm⟩ := h
  exact ⟨n, hn, hmod, hname, d, hd, hk, hdn, accessible_of_exported n d (hq n hn d hd) hperm⟩

/-- an identifier a module exports is not declared private there by a statement
    (unless it is one of its own declarations) -/
theorem exports_not_private {g : List Scope} {k : Nat} {m : Scope} {l : Str} {e : Ent}
    (h : Exports g k m l e) : (∃ d ∈ m.decls, d.name = l) ∨ l ∉ m.privNames := by
  rcases exports_inv h with ⟨d, _, _, hd, _, _, rfl, _⟩ | ⟨_, _, hp, _⟩
  · exact Or.inl ⟨d, hd, rfl⟩
  · exact Or.inr hp

/-! ### the four tables returned together (`getUsedAll`) -/

theorem getUsedAll_get (u : UseA) (pubs : List Table) (i : Nat) :
    (getUsedAll u pubs)[i]? = (pubs[i]?).map (getUsed u) := by
  simp [getUsedAll]

/-- every table of the returned tuple holds, under a local name the statement admits, an entry of
    the export table *at the same position* - whatever the other export tables contain -/
theorem getUsedAll_complete (u : UseA) (pubs : List Table) (r l : Str) (ha : AdmitsCode u r l)
    (i : Nat) (pub : Table) (e : Ent) (hi : pubs[i]? = some pub) (hm : (r, e) ∈ pub) :
    ∃ t, (getUsedAll u pubs)[i]? = some t ∧ hasKey t l := by
  refine ⟨getUsed u pub, ?_, hasKey_getUsed u pub r l e hm ha⟩
  rw [getUsedAll_get, hi]; rfl

theorem getUsedAll_sound (u : UseA) (pubs : List Table) (i : Nat) (t : Table)
    (ht : (getUsedAll u pubs)[i]? = some t) (p : Str × Ent) (hp : p ∈ t) :
    ∃ pub, pubs[i]? = some pub ∧ ∃ r, (r, p.2) ∈ pub ∧ AdmitsCode u r p.1 := by
  rw [getUsedAll_get] at ht
  cases hpi : pubs[i]? with
  | none => simp [hpi] at ht
  | some pub =>
    simp [hpi] at ht
    subst ht
    exact ⟨pub, rfl, mem_getUsed u pub p hp⟩

end Ford.Use
