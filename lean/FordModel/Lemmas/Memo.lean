import FordModel.Memo
namespace Ford.Memo
open Ford.Path

theorem lookup_some_mem {β : Type} (c : Cache β) (k : List Seg × Str) (v : β) (h : lookup c k = some v) : (k, v) ∈ c := by
  induction c with
  | nil => simp [lookup] at h
  | cons e rest ih =>
    obtain ⟨k', v'⟩ := e
    unfold lookup at h
    by_cases hk : k' = k
    · simp only [hk, if_true, Option.some.injEq] at h
      subst h; subst hk; simp
    · simp only [hk, if_false] at h
      exact List.mem_cons_of_mem _ (ih h)

theorem runCached_none {β : Type} (f : Str → List Seg → β) (calls : List (Str × List Seg)) :
    ∀ c, runCached .none f c calls = calls.map (fun x => f x.1 (dirOf x.2)) := by
  induction calls with
  | nil => intro c; simp [runCached]
  | cons x rest ih => intro c; obtain ⟨t, p⟩ := x; simp [runCached, keyOf, ih]

/-- every entry of the cache is what the computation gives for the directory in its key -/
def CacheOk {β : Type} (f : Str → List Seg → β) (c : Cache β) : Prop :=
  ∀ d t v, ((d, t), v) ∈ c → v = f t d

theorem runCached_pageDir {β : Type} (f : Str → List Seg → β) (calls : List (Str × List Seg)) :
    ∀ c, CacheOk f c → runCached .pageDir f c calls = calls.map (fun x => f x.1 (dirOf x.2)) := by
  induction calls with
  | nil => intro c _; simp [runCached]
  | cons x rest ih =>
    intro c hc
    obtain ⟨t, p⟩ := x
    simp only [runCached, keyOf, List.map_cons]
    cases hl : lookup c (dirOf p, t) with
    | some v =>
      simp only []
      rw [ih c hc, hc _ _ _ (lookup_some_mem c _ v hl)]
    | none =>
      simp only []
      rw [ih]
      intro d t' v hv
      simp only [List.mem_cons, Prod.mk.injEq] at hv
      rcases hv with ⟨⟨rfl, rfl⟩, rfl⟩ | hv
      · rfl
      · exact hc d t' v hv

/-- a cache whose key determines the directory of the page is invisible: every call of the filter returns
    what the computation gives for that page -/
theorem cached_eq_direct {β : Type} (k : Key) (h : faithful k = true) (f : Str → List Seg → β)
    (calls : List (Str × List Seg)) :
    runCached k f [] calls = calls.map (fun x => f x.1 (dirOf x.2)) := by
  cases k with
  | none => exact runCached_none f calls []
  | pageDir => exact runCached_pageDir f calls [] (by intro d t v hv; simp at hv)
  | dirName => simp [faithful] at h
  | fileName => simp [faithful] at h
  | textOnly => simp [faithful] at h

end Ford.Memo
